(* C06, part 3 (reals): LinearDense.forward (and LinearLateral.forward, which delegates to it on the masked
   parameters) with a delay parameter.  For EVERY synapse state reachable from the constructor (C04 invariant Inv c s p,
   p = the inputs since the last clear), every weight / bias / delay tensor, every batch size and shape:

     dense_delayed_forward    out[b, o] = sum_i W[o, i] * delayed_cur (history incl. the new input) (b, i) d[o, i]  + bias[o]
     dense_undelayed_forward  without delay parameter / maximum delay 0:  out[b, o] = sum_i W[o, i] * current(b, i) + bias[o]

   The corollaries (shift, zero delay, relational form, between grid points) are in ShiftProofs.v. *)
From Coq Require Import List ZArith Bool Arith Lia Reals Lra.
From Flocq Require Import Core.Raux Core.Generic_fmt.
From Inferno Require Import Base.Num Base.NumR Gen.Infra Gen.Interpolation C01.Ring C01.RingProofs
  C04.Synapse C04.HistProofs C04.ClosedForms C04.SelectProofs C04.SynapseProofs
  C06.Delay C06.DelaySpec C06.ReadProofs C06.ViewProofs.
From Inferno Require C05.Conn C05.ConnSpec C05.ConnProofs.
Import ListNotations.
Open Scope R_scope.

Lemma linear_delayed_length (cur3 : list (list (list R))) W b : length (Conn.linear_delayed RN cur3 W b) = length cur3.
Proof. unfold Conn.linear_delayed. apply map_length. Qed.
Lemma linear_delayed_row_length (cur3 : list (list (list R))) (W : list (list R)) b row :
  bias_ok (length W) b -> In row (Conn.linear_delayed RN cur3 W b) -> length row = length W.
Proof.
  intros Hb Hin. unfold Conn.linear_delayed in Hin. apply in_map_iff in Hin. destruct Hin as [m [<- _]].
  assert (Hy : length (map (fun ow : nat * list R => Conn.dot RN (Conn.column RN (fst ow) m) (snd ow))
                           (combine (seq 0 (length W)) W)) = length W).
  { rewrite map_length, combine_length, seq_length. apply Nat.min_id. }
  destruct b as [bv|]; [|exact Hy].
  pose proof (Hb bv eq_refl) as Hlb. rewrite ConnProofs.map2_length, map_length, combine_length, seq_length.
  change (T RN) with R in *. lia.
Qed.

Section Dense.
Variable k : dense RN.
Variable c : cfgR.
Variable s : synR.
Variable p : pastR.
Hypothesis I : Inv RN c s p.
Hypothesis Hc : cfg_ok c.
Notation B := (dn_B RN k).
Notation NI := (dn_I RN k).
Notation NO := (dn_O RN k).
Hypothesis Hshape : cshape RN c = [B; NI].
Hypothesis HW : is_mat NO NI (dn_w RN k).
Hypothesis Hb : bias_ok NO (dn_b RN k).
Hypothesis HO : (0 < NO)%nat.
Variables (xsh : list nat) (xs : list R) (inj : list (list R)).
Hypothesis Hxsh : Conn.flat_shape xsh = [B; NI].
Hypothesis Hx : entry_ok RN c (xs, inj).
Notation p' := ((xs, inj) :: p).

Lemma dense_selector_nth b i o : (b < B)%nat -> (i < NI)%nat -> (o < NO)%nat ->
  nth ((b * NI + i) * NO + o) (snd (dense_selector RN k)) 0 = mat_at (dense_delays RN k) o i.
Proof.
  intros Hb' Hi Ho. unfold dense_selector. cbn [snd].
  set (row := fun i => map (fun o => at2 RN (dense_delays RN k) o i) (seq 0 NO)).
  assert (Hrow : forall i, length (row i) = NO) by (intros; unfold row; rewrite map_length, seq_length; reflexivity).
  set (blk := fun _ : nat => flat_map row (seq 0 NI)).
  assert (Hblk : forall j, length (blk j) = (NI * NO)%nat).
  { intros j. unfold blk. apply ConnProofs.flat_map_seq_length. intros; apply Hrow. }
  replace ((b * NI + i) * NO + o)%nat with (b * (NI * NO) + (i * NO + o))%nat by nia.
  rewrite (ConnProofs.flat_map_seq_nth blk (NI * NO) 0 B b (i * NO + o) 0) by (try (intros; apply Hblk); nia).
  unfold blk. rewrite (ConnProofs.flat_map_seq_nth row NO 0 NI i o 0) by (try (intros; apply Hrow); lia).
  unfold row. rewrite ConnProofs.map_seq_nth by exact Ho. reflexivity.
Qed.

Lemma view_shape_out : Conn.view_shape (B * NO) (dn_out RN k) = B :: dn_out RN k.
Proof. unfold Conn.view_shape. fold NO. unfold dn_O in *. rewrite Nat.div_mul by lia. reflexivity. Qed.

(* the delayed branch *)
Theorem dense_delayed_forward d : dn_d RN k = Some d -> cdelay RN c <> 0 ->
  exists s' out, dense_forward RN k c s xsh xs inj = (s', SOk (B :: dn_out RN k, out)) /\
    Inv RN c s' p' /\ length out = (B * NO)%nat /\
    forall b o, (b < B)%nat -> (o < NO)%nat ->
      nth (b * NO + o) out 0 =
      Rsum NI (fun i => mat_at (dn_w RN k) o i * delayed_cur c p' (b * NI + i) (mat_at d o i)) + bias_at (dn_b RN k) o.
Proof.
  intros Hd Hdel.
  destruct (forward_ok RN c s p xs inj I Hx) as (s' & Hf & I').
  destruct (syncurrent_delayed c s' p' I' Hc NO (snd (dense_selector RN k)) Hdel) as (vals & Hs & Hl & Hv).
  rewrite Hshape in Hs. cbn [app] in Hs.
  unfold dense_forward. rewrite Hxsh, <- Hshape, Hf, Hd. cbn [has]. rewrite (takes_delayed_true c Hdel).
  replace (dense_selector RN k) with ([B; NI; NO], snd (dense_selector RN k)) by reflexivity.
  rewrite Hs, view_shape_out.
  destruct HW as (HWl & HWr).
  assert (Hb' : bias_ok (length (dn_w RN k)) (dn_b RN k)) by (intros bv E; etransitivity; [exact (Hb bv E)|symmetry; exact HWl]).
  set (cur3 := nest3 RN B NI NO vals).
  assert (Hrows : forall row, In row (Conn.linear_delayed RN cur3 (dn_w RN k) (dn_b RN k)) -> length row = NO).
  { intros row Hin. etransitivity; [exact (linear_delayed_row_length _ _ _ _ Hb' Hin)|exact HWl]. }
  eexists s', _. split; [reflexivity|]. split; [exact I'|]. split.
  - unfold flat2. rewrite (ConnProofs.concat_length_uniform _ NO Hrows), linear_delayed_length. unfold cur3. rewrite nest3_length. reflexivity.
  - intros b o Hbb Ho. unfold flat2.
    rewrite (ConnProofs.concat_nth_uniform _ NO) by (try assumption; rewrite linear_delayed_length; unfold cur3; rewrite nest3_length; exact Hbb).
    rewrite (ConnProofs.linear_delayed_spec cur3 (dn_w RN k) (dn_b RN k) NI b o).
    + f_equal. apply ConnProofs.Rsum_ext. intros i Hi. unfold cur3.
      rewrite nth_nest3 by assumption.
      assert (He : (b * NI + i < nel (cshape RN c))%nat) by (rewrite Hshape, nel2; nia).
      assert (E1 : nth ((b * NI + i) * NO + o) vals 0 = delayed_cur c p' (b * NI + i) (mat_at d o i)).
      { etransitivity; [exact (Hv (b * NI + i)%nat o He Ho)|]. f_equal.
        etransitivity; [exact (dense_selector_nth b i o Hbb Hi Ho)|]. unfold dense_delays. rewrite Hd. reflexivity. }
      etransitivity; [apply (f_equal (fun z => z * nth i (nth o (dn_w RN k) []) 0)); exact E1|].
      unfold ConnSpec.mat_at. apply Rmult_comm.
    + unfold cur3. rewrite nest3_length. exact Hbb.
    + rewrite HWl. exact Ho.
    + unfold cur3. apply nest3_row_length. exact Hbb.
    + apply HWr. apply nth_In. rewrite HWl. exact Ho.
    + exact Hb'.
Qed.

(* no delay parameter, or a maximum delay of 0 *)
Theorem dense_undelayed_forward : takes_delayed RN c (has (dn_d RN k)) = false ->
  exists s' out, dense_forward RN k c s xsh xs inj = (s', SOk (B :: dn_out RN k, out)) /\
    Inv RN c s' p' /\ length out = (B * NO)%nat /\
    forall b o, (b < B)%nat -> (o < NO)%nat ->
      nth (b * NO + o) out 0 =
      Rsum NI (fun i => mat_at (dn_w RN k) o i * nth (b * NI + i) (cur_out RN c p') 0) + bias_at (dn_b RN k) o.
Proof.
  intros Hnd.
  destruct (forward_ok RN c s p xs inj I Hx) as (s' & Hf & I').
  unfold dense_forward. rewrite Hxsh, <- Hshape, Hf, Hnd, view_shape_out. cbn [sout_vals].
  destruct HW as (HWl & HWr).
  assert (Hb' : forall bv, dn_b RN k = Some bv -> length bv = length (dn_w RN k)) by (intros bv E; etransitivity; [exact (Hb bv E)|symmetry; exact HWl]).
  set (cur := Conn.chunk NI B (cur_out RN c p')).
  assert (Hcl : length (cur_out RN c p') = (B * NI)%nat).
  { assert (Hp' : Forall (entry_ok RN c) p') by exact (inv_p _ _ _ _ I').
    unfold cur_out, spike_hist. cbn [nth_error].
    pose proof (cur_val_length RN c p' Hp') as H1. pose proof (neg_val_length RN c p' Hp') as H2.
    rewrite Hshape, nel2 in H1, H2.
    destruct Hx as (Hxl & _). cbn [fst] in Hxl. rewrite Hshape, nel2 in Hxl.
    destruct (ckind RN c); rewrite ?map_length, ?zipw_length; change (T RN) with R in *; lia. }
  assert (Hrows : forall row, In row (Conn.linear RN cur (dn_w RN k) (dn_b RN k)) -> length row = NO).
  { intros row Hin. etransitivity; [exact (ConnProofs.linear_row_length _ _ _ _ Hb' Hin)|exact HWl]. }
  eexists s', _. split; [reflexivity|]. split; [exact I'|]. split.
  - unfold flat2. etransitivity; [exact (ConnProofs.concat_length_uniform _ NO Hrows)|].
    rewrite ConnProofs.linear_length. unfold cur. rewrite ConnProofs.chunk_length. reflexivity.
  - intros b o Hbb Ho. unfold flat2.
    assert (Hlc : length cur = B) by (unfold cur; apply ConnProofs.chunk_length).
    assert (Hbl : (b < length (Conn.linear RN cur (dn_w RN k) (dn_b RN k)))%nat) by (rewrite ConnProofs.linear_length; change (T RN) with R in *; lia).
    etransitivity; [exact (ConnProofs.concat_nth_uniform _ NO b o 0 Hrows Hbl Ho)|].
    assert (Hbc : (b < length cur)%nat) by (change (T RN) with R in *; lia).
    assert (How : (o < length (dn_w RN k))%nat) by (change (T RN) with R in *; lia).
    etransitivity; [exact (ConnProofs.linear_nth cur (dn_w RN k) (dn_b RN k) b o Hbc How Hb')|].
    f_equal. rewrite (ConnProofs.dot_Rsum _ _ NI).
    + apply ConnProofs.Rsum_ext. intros i Hi. unfold cur. rewrite ConnProofs.chunk_nth_nth by assumption.
      unfold ConnSpec.mat_at. apply Rmult_comm.
    + unfold cur. apply ConnProofs.chunk_row_length; [exact Hbb|change (T RN) with R in *; lia].
    + apply HWr. apply nth_In. change (T RN) with R in *. lia.
Qed.

(* the learning views with the dense selector layout: entry (b, i, o) belongs to the synapse from input i to output o *)
Theorem dense_views_delayed d : dn_d RN k = Some d -> cdelay RN c <> 0 ->
  exists vc vs,
    syncurrent RN c s (has (dn_d RN k)) (dense_selector RN k) = SOk ([B; NI; NO], vc) /\
    synspike RN c s (has (dn_d RN k)) (dense_selector RN k) = SOk ([B; NI; NO], vs) /\
    forall b i o, (b < B)%nat -> (i < NI)%nat -> (o < NO)%nat ->
      nth ((b * NI + i) * NO + o) vc 0 = delayed_cur c p (b * NI + i) (mat_at d o i) /\
      nth ((b * NI + i) * NO + o) vs 0 = delayed_spk c p (b * NI + i) (mat_at d o i).
Proof.
  intros Hd Hdel. rewrite Hd. cbn [has].
  destruct (syncurrent_delayed c s p I Hc NO (snd (dense_selector RN k)) Hdel) as (vc & Hs & _ & Hv).
  destruct (synspike_delayed c s p I Hc NO (snd (dense_selector RN k)) Hdel) as (vs & Hs' & _ & Hv').
  rewrite Hshape in Hs, Hs'. cbn [app] in Hs, Hs'.
  exists vc, vs. replace (dense_selector RN k) with ([B; NI; NO], snd (dense_selector RN k)) by reflexivity.
  split; [exact Hs|]. split; [exact Hs'|]. intros b i o Hbb Hi Ho.
  assert (He : (b * NI + i < nel (cshape RN c))%nat) by (rewrite Hshape, nel2; nia).
  assert (Es : nth ((b * NI + i) * NO + o) (snd (dense_selector RN k)) 0 = mat_at d o i).
  { etransitivity; [exact (dense_selector_nth b i o Hbb Hi Ho)|]. unfold dense_delays. rewrite Hd. reflexivity. }
  split.
  - etransitivity; [exact (Hv _ o He Ho)|]. f_equal. exact Es.
  - etransitivity; [exact (Hv' _ o He Ho)|]. f_equal. exact Es.
Qed.
End Dense.
