(* Specification vocabulary (definitions only) for the connection-level decomposition by delay of LinearDirect and Conv2D
   (LinearDense / LinearLateral use DelaySpec.masked_weight / undelayed_part / dense_part), and for runs with delay
   re-assignments (the delay-learning case). *)
From Coq Require Import List ZArith Bool Arith Reals.
From Inferno Require Import Base.Num Base.NumR Gen.Infra C01.Ring C04.Synapse C04.HistProofs C04.ClosedForms
  C04.SelectProofs C04.SynapseProofs C06.Delay C06.DelaySpec.
From Inferno Require C05.Conn C05.ConnSpec.
Import ListNotations.
Open Scope R_scope.

(* ---------------------------------------------------------------- LinearDirect *)
(* weights of the synapses delayed by exactly K steps *)
Definition direct_masked_weight (w : list R) (kk : nat -> nat) (K j : nat) : R :=
  if (kk j =? K)%nat then nth j w 0 else 0.
(* the undelayed, unbiased LinearDirect with those weights *)
Definition direct_part (k : direct RN) (kk : nat -> nat) (K : nat) : direct RN :=
  mkDirect RN (dr_shape RN k) (dr_B RN k) (map (direct_masked_weight (dr_w RN k) kk K) (seq 0 (dr_n RN k))) None None.
(* its output entry (b, j) on the history shifted by K steps *)
Definition direct_undelayed_part (c : cfgR) (p : pastR) (w : list R) (kk : nat -> nat) (n K b j : nat) : R :=
  direct_masked_weight w kk K j * nth (b * n + j) (cur_out RN (undelayed c) (shifted (undelayed c) p K)) 0.

(* ---------------------------------------------------------------- Conv2D *)
(* Kmat = the flattened kernel (F x N); kk f n = delay, in steps, of kernel element n of filter f *)
Definition conv_masked_weight (Kmat : list (list R)) (kk : nat -> nat -> nat) (K f n : nat) : R :=
  if (kk f n =? K)%nat then mat_at Kmat f n else 0.
Definition conv_masked_kernel (k : conv RN) (kk : nat -> nat -> nat) (K : nat) : kernel4 RN :=
  let g := cv_g RN k in
  let KH := Z.to_nat (Conn.kH g) in let KW := Z.to_nat (Conn.kW g) in
  map (fun f => map (fun cc => map (fun i => map (fun j =>
         conv_masked_weight (Conn.flatten_kernel RN (cv_w RN k)) kk K f ((cc * KH + i) * KW + j))
       (seq 0 KW)) (seq 0 KH)) (seq 0 (Z.to_nat (Conn.gC g)))) (seq 0 (cv_F RN k)).
(* the undelayed, unbiased Conv2D (same geometry) with the kernel elements delayed by exactly K steps *)
Definition conv_part (k : conv RN) (kk : nat -> nat -> nat) (K : nat) : conv RN :=
  mkConv RN (cv_g RN k) (cv_B RN k) (conv_masked_kernel k kk K) None None.
(* its output entry (b, f, l) on the history shifted by K steps *)
Definition conv_undelayed_part (c : cfgR) (p : pastR) (Kmat : list (list R)) (kk : nat -> nat -> nat)
           (NN L K b f l : nat) : R :=
  Rsum NN (fun n => conv_masked_weight Kmat kk K f n *
                    nth ((b * NN + n) * L + l) (cur_out RN (undelayed c) (shifted (undelayed c) p K)) 0).

(* ---------------------------------------------------------------- delay re-assignment over a run (LinearDense) *)
Definition dense_with_delay (k : dense RN) (d : list (list R)) : dense RN :=
  mkDense RN (dn_in RN k) (dn_out RN k) (dn_B RN k) (dn_w RN k) (dn_b RN k) (Some d).
(* the delay tensor in force after a sequence of operations: the last one assigned (reshaped O x I), the initial one if none *)
Definition dense_delay_in_force (k : dense RN) (d0 : list (list R)) (ops : list (cop RN)) : list (list R) :=
  fold_left (fun d o => match o with KSetDelay _ dd => Conn.chunk (dn_I RN k) (dn_O RN k) dd | _ => d end) ops d0.
Definition direct_with_delay (k : direct RN) (d : list R) : direct RN :=
  mkDirect RN (dr_shape RN k) (dr_B RN k) (dr_w RN k) (dr_b RN k) (Some d).
Definition direct_delay_in_force (d0 : list R) (ops : list (cop RN)) : list R :=
  fold_left (fun d o => match o with KSetDelay _ dd => dd | _ => d end) ops d0.
