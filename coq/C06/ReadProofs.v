(* C06, part 1 (reals): what the synapse answers to a connection's selector, in terms of the input history alone.
   Everything here is a re-packaging of C04's flagship theorems (current_read_at_delay, current_between_steps,
   spike_*; overbound_spec) into ONE function of the past (DelaySpec.past_cur / past_spk / delayed_cur / delayed_spk),
   plus the facts that make the reading a TIME SHIFT:
     - before the start / the last clear the past value is the resting value (0 current, no spike);
     - the value k steps ago is the present value of the same synapse class WITHOUT delay support run on the
       history delayed by k steps (k resting steps first) - for all four synapse classes. *)
From Coq Require Import List ZArith Bool Arith Lia Reals Lra.
From Flocq Require Import Core.Raux Core.Generic_fmt.
From Inferno Require Import Base.Num Base.NumR Gen.Infra Gen.Interpolation C01.Ring C01.RingProofs
  C04.Synapse C04.HistProofs C04.ClosedForms C04.SelectProofs C04.SynapseProofs C06.Delay C06.DelaySpec.
Import ListNotations.
Open Scope R_scope.

(* ------------------------------------------------------------------ the reading of a time in [0, max delay] *)
Section Read.
Variable c : cfgR.
Variable s : synR.
Variable p : pastR.
Hypothesis I : Inv RN c s p.
Hypothesis Hc : cfg_ok c.

Lemma on_step_true b : on_step c b = true -> Rabs (IZR (nearest_step c b) * cdt RN c - b) <= ctol RN c.
Proof. unfold on_step. destruct (Rle_dec _ _); [auto|discriminate]. Qed.
Lemma on_step_false b : on_step c b = false -> forall k, ctol RN c < Rabs (IZR k * cdt RN c - b).
Proof.
  unfold on_step. destruct (Rle_dec _ _) as [|Hn]; [discriminate|]. intros _ k.
  destruct (Rlt_le_dec (ctol RN c) (Rabs (IZR k * cdt RN c - b))) as [|Hle]; [assumption|].
  exfalso. apply Hn.
  pose proof (rne_on_grid (cdt RN c) (ctol RN c) (Hdt c Hc) (Htol c Hc) b k Hle) as E.
  unfold nearest_step. unfold shift_of in E. rn_simpl. rewrite E. exact Hle.
Qed.

(* the synapse's delayed current / spike at a time inside the supported range is a function of the history *)
Theorem cur_sel_is_past_cur e b : 0 <= b <= cdelay RN c -> cur_sel c s e b = past_cur c p e b.
Proof.
  intros Hb. unfold past_cur. destruct (on_step c b) eqn:E.
  - apply (current_read_at_delay c s p I Hc e b _ Hb (on_step_true b E)).
  - rewrite (current_between_steps c s p I Hc e b Hb (on_step_false b E)). reflexivity.
Qed.
Theorem spk_sel_is_past_spk e b : 0 <= b <= cdelay RN c -> spk_sel c s e b = past_spk c p e b.
Proof.
  intros Hb. unfold past_spk. destruct (on_step c b) eqn:E.
  - apply (spike_read_at_delay c s p I Hc e b _ Hb (on_step_true b E)).
  - rewrite (spike_between_steps c s p I Hc e b Hb (on_step_false b E)). reflexivity.
Qed.

Lemma read_one_ext (f g : nat -> R -> R) dur tol ob e t : 0 <= dur ->
  (forall b, 0 <= b <= dur -> f e b = g e b) -> read_one f dur tol ob e t = read_one g dur tol ob e t.
Proof.
  intros Hd H. unfold read_one. rewrite (H _ (clamp_bounds dur t Hd)). reflexivity.
Qed.

(* one entry of current_at / spike_at for ANY selector value *)
Theorem read_cur_is_delayed_cur e t :
  read_one (cur_sel c s) (cdelay RN c) (ctol RN c) (ccur_ob RN c) e t = delayed_cur c p e t.
Proof.
  unfold delayed_cur. apply read_one_ext; [apply Hc|]. intros b Hb. apply cur_sel_is_past_cur; exact Hb.
Qed.
Theorem read_spk_is_delayed_spk e t :
  boolify RN (read_one (spk_sel c s) (cdelay RN c) (ctol RN c) (option_map (b2t RN) (cspk_ob RN c)) e t) = delayed_spk c p e t.
Proof.
  unfold delayed_spk. f_equal. apply read_one_ext; [apply Hc|]. intros b Hb. apply spk_sel_is_past_spk; exact Hb.
Qed.
End Read.

(* ------------------------------------------------------------------ the spec on the grid, off the grid, beyond the range *)
Section SpecCases.
Variable c : cfgR.
Variable p : pastR.
Hypothesis Hc : cfg_ok c.

Lemma INR_IZR k : INR k = IZR (Z.of_nat k).
Proof. apply INR_IZR_INZ. Qed.

Lemma nearest_on_grid t k : Rabs (INR k * cdt RN c - t) <= ctol RN c -> nearest_step c t = Z.of_nat k /\ on_step c t = true.
Proof.
  intros H. rewrite INR_IZR in H.
  pose proof (rne_on_grid (cdt RN c) (ctol RN c) (Hdt c Hc) (Htol c Hc) t _ H) as E.
  unfold shift_of in E. rn_simpl.
  assert (E' : nearest_step c t = Z.of_nat k) by (unfold nearest_step; rn_simpl; exact E).
  split; [exact E'|]. unfold on_step. rewrite E'. destruct (Rle_dec _ _); [reflexivity|contradiction].
Qed.

(* a delay within tolerance of k steps, inside the supported range: exactly the value k steps ago *)
Theorem delayed_cur_on_grid e t k : on_grid_delay c t k -> delayed_cur c p e t = value_ago c p k e.
Proof.
  intros (Hr & Hk). unfold delayed_cur, read_one. rewrite (clamp_id _ _ Hr).
  assert (E : past_cur c p e t = value_ago c p k e).
  { unfold past_cur. destruct (nearest_on_grid t k Hk) as (-> & ->). rewrite Nat2Z.id. reflexivity. }
  rewrite E. destruct (ccur_ob RN c) as [o|]; [|reflexivity].
  rn_simpl. replace (t - t) with 0 by ring. rewrite Rabs_R0.
  destruct (Rleb'_spec 0 (ctol RN c)) as [|Hn]; [reflexivity|]. exfalso. apply Hn. apply Hc.
Qed.
Theorem delayed_spk_on_grid e t k : on_grid_delay c t k -> delayed_spk c p e t = spike_ago c p k e.
Proof.
  intros (Hr & Hk). unfold delayed_spk, read_one. rewrite (clamp_id _ _ Hr).
  assert (E : past_spk c p e t = spike_ago c p k e).
  { unfold past_spk. destruct (nearest_on_grid t k Hk) as (-> & ->). rewrite Nat2Z.id. reflexivity. }
  rewrite E.
  assert (G : forall o, (if leb RN (abs RN (sub RN t t)) (ctol RN c) then spike_ago c p k e else o) = spike_ago c p k e).
  { intros o. rn_simpl. replace (t - t) with 0 by ring. rewrite Rabs_R0.
    destruct (Rleb'_spec 0 (ctol RN c)) as [|Hn]; [reflexivity|]. exfalso. apply Hn. apply Hc. }
  destruct (cspk_ob RN c) as [o|]; cbn [option_map]; rewrite ?G; apply spike_ago_bit.
Qed.

(* a delay of zero (within tolerance): the present value *)
Corollary delayed_cur_zero e t : 0 <= t <= cdelay RN c -> Rabs t <= ctol RN c ->
  delayed_cur c p e t = nth e (cur_out RN c p) 0.
Proof.
  intros Hr Ht. rewrite (delayed_cur_on_grid e t 0%nat).
  - unfold value_ago. cbn [skipn]. reflexivity.
  - split; [exact Hr|]. cbn [INR]. replace (0 * cdt RN c - t) with (- t) by ring. rewrite Rabs_Ropp. exact Ht.
Qed.

(* a delay strictly between two steps, inside the supported range: the class's interpolation rule *)
Theorem delayed_cur_between e t : 0 <= t <= cdelay RN c -> (forall k, ctol RN c < Rabs (IZR k * cdt RN c - t)) ->
  delayed_cur c p e t = between_cur c p e t.
Proof.
  intros Hr Hoff. unfold delayed_cur, read_one. rewrite (clamp_id _ _ Hr).
  assert (E : past_cur c p e t = between_cur c p e t).
  { unfold past_cur. replace (on_step c t) with false; [reflexivity|].
    symmetry. unfold on_step. destruct (Rle_dec _ _) as [H|]; [|reflexivity]. specialize (Hoff (nearest_step c t)). lra. }
  rewrite E. destruct (ccur_ob RN c) as [o|]; [|reflexivity].
  rn_simpl. replace (t - t) with 0 by ring. rewrite Rabs_R0.
  destruct (Rleb'_spec 0 (ctol RN c)) as [|Hn]; [reflexivity|]. exfalso. apply Hn. apply Hc.
Qed.

(* beyond the supported range (further than the tolerance): the configured value, the value at the limit when none is configured *)
Theorem delayed_cur_beyond e t : cdelay RN c + ctol RN c < t ->
  delayed_cur c p e t = match ccur_ob RN c with Some o => o | None => past_cur c p e (cdelay RN c) end.
Proof.
  intros Ht. destruct Hc as (H1 & H2 & H3). unfold delayed_cur. rewrite overbound_spec by lra.
  destruct (Rle_dec (- ctol RN c) t); [|lra]. destruct (Rle_dec t (cdelay RN c + ctol RN c)); [lra|reflexivity].
Qed.
End SpecCases.

(* ------------------------------------------------------------------ before the start / the last clear: the resting value *)
Lemma skipn_all' {X} (l : list X) k : (length l <= k)%nat -> skipn k l = [].
Proof. revert k. induction l as [|x l IH]; intros [|k] H; cbn in *; try reflexivity; try lia. apply IH. lia. Qed.

Lemma nth_repeat0 e n : nth e (repeat 0 n) 0 = 0.
Proof. revert e. induction n as [|n IH]; intros [|e]; cbn; auto. Qed.

Lemma cur_out_nil (c : cfgR) e : nth e (cur_out RN c []) 0 = 0.
Proof.
  unfold cur_out, spike_hist. cbn [nth_error cur_val neg_val]. unfold zrow. rn_simpl.
  destruct (ckind RN c).
  - rewrite nth_map_dtc. change (nth e (repeat 0 (nel (cshape RN c))) 0) with (nth e (repeat 0 (nel (cshape RN c))) 0).
    rewrite nth_repeat0. unfold delta_to_current. rn_simpl. ring.
  - apply nth_repeat0.
  - apply nth_repeat0.
  - destruct (Nat.lt_ge_cases e (nel (cshape RN c))) as [Hl|Hl].
    + rewrite (nth_zipw _ _ _ e 0 0 0) by (rewrite repeat_length; exact Hl). rewrite nth_repeat0. rn_simpl. ring.
    + apply nth_overflow. rewrite zipw_length, !repeat_length. lia.
Qed.

(* a delay reaching before the first input since the start / the last clear reads the resting state *)
Theorem value_ago_before_start (c : cfgR) (p : pastR) k e : (length p <= k)%nat -> value_ago c p k e = 0.
Proof. intros H. unfold value_ago. rewrite (skipn_all' p k H). apply cur_out_nil. Qed.
Theorem spike_ago_before_start (c : cfgR) (p : pastR) k e : (length p <= k)%nat -> spike_ago c p k e = 0.
Proof.
  intros H. unfold spike_ago, spike_hist. replace (nth_error p k) with (@None (list R * list (list R))).
  - unfold zrow. rn_simpl. apply nth_repeat0.
  - symmetry. apply nth_error_None. exact H.
Qed.

(* ------------------------------------------------------------------ the value k steps ago = the undelayed synapse on the shifted history *)
(* the current does not depend on the delay support of the synapse *)
Lemma cur_val_undelayed (c : cfgR) q : cur_val RN (undelayed c) q = cur_val RN c q.
Proof. induction q as [|(xs, inj) q IH]; cbn [cur_val]; [reflexivity|]. cbn [undelayed ckind]. rewrite IH. reflexivity. Qed.
Lemma neg_val_undelayed (c : cfgR) q : neg_val RN (undelayed c) q = neg_val RN c q.
Proof. induction q as [|(xs, inj) q IH]; cbn [neg_val]; [reflexivity|]. cbn [undelayed ckind]. rewrite IH. reflexivity. Qed.
Lemma cur_out_undelayed (c : cfgR) q : cur_out RN (undelayed c) q = cur_out RN c q.
Proof.
  unfold cur_out. cbn [undelayed ckind]. rewrite cur_val_undelayed, neg_val_undelayed. reflexivity.
Qed.

(* resting steps before the first input leave every record at its resting value *)
Lemma zipw_sexp_zero dt tau k n : zipw (sexp_step RN dt tau k) (repeat 0 n) (repeat 0 n) = repeat 0 n.
Proof.
  induction n as [|n IH]; [reflexivity|]. unfold zipw in *. cbn [repeat combine map fst snd]. rewrite IH.
  f_equal. unfold sexp_step. rn_simpl. ring.
Qed.
Lemma cur_val_rest (c : cfgR) m : cur_val RN c (repeat (rest_entry c) m) = zrow RN c.
Proof.
  induction m as [|m IH]; [reflexivity|]. cbn [repeat]. unfold rest_entry at 1. cbn [cur_val]. rewrite IH.
  unfold zrow. rn_simpl. set (n := nel (cshape RN c)).
  destruct (ckind RN c).
  - reflexivity.
  - unfold deltaplus_val. cbn [fold_left]. induction n as [|n IHn]; [reflexivity|]. cbn [repeat map]. rewrite IHn.
    f_equal. rn_simpl. ring.
  - unfold singleexp_val. apply zipw_sexp_zero.
  - unfold doubleexp_pos. apply zipw_sexp_zero.
Qed.
Lemma neg_val_rest (c : cfgR) m : neg_val RN c (repeat (rest_entry c) m) = zrow RN c.
Proof.
  induction m as [|m IH]; [reflexivity|]. cbn [repeat]. unfold rest_entry at 1. cbn [neg_val]. rewrite IH.
  destruct (ckind RN c); try reflexivity. unfold doubleexp_neg, zrow. rn_simpl. apply zipw_sexp_zero.
Qed.
Lemma cur_val_app_rest (c : cfgR) q m : cur_val RN c (q ++ repeat (rest_entry c) m) = cur_val RN c q.
Proof.
  induction q as [|(xs, inj) q IH]; cbn [app]; [rewrite cur_val_rest; reflexivity|]. cbn [cur_val]. rewrite IH. reflexivity.
Qed.
Lemma neg_val_app_rest (c : cfgR) q m : neg_val RN c (q ++ repeat (rest_entry c) m) = neg_val RN c q.
Proof.
  induction q as [|(xs, inj) q IH]; cbn [app]; [rewrite neg_val_rest; reflexivity|]. cbn [neg_val]. rewrite IH. reflexivity.
Qed.

Lemma boolify_zero : boolify RN 0 = 0.
Proof. unfold boolify, to_bool, neb, b2t. rn_simpl. destruct (Reqb'_spec 0 0); [reflexivity|contradiction]. Qed.
Lemma map_boolify_zrow (c : cfgR) : map (boolify RN) (zrow RN c) = zrow RN c.
Proof.
  unfold zrow. rn_simpl. induction (nel (cshape RN c)) as [|n IH]; [reflexivity|]. cbn [repeat map]. rewrite IH, boolify_zero. reflexivity.
Qed.
Lemma spike_hist0_app_rest (c : cfgR) q m : spike_hist RN c (q ++ repeat (rest_entry c) m) 0 = spike_hist RN c q 0.
Proof.
  unfold spike_hist. destruct q as [|(xs, inj) q]; cbn [app nth_error]; [|reflexivity].
  destruct m as [|m]; cbn [repeat nth_error]; [reflexivity|]. unfold rest_entry. apply map_boolify_zrow.
Qed.

Theorem cur_out_app_rest (c : cfgR) q m : cur_out RN c (q ++ repeat (rest_entry c) m) = cur_out RN c q.
Proof.
  unfold cur_out. rewrite cur_val_app_rest, neg_val_app_rest, spike_hist0_app_rest. reflexivity.
Qed.

(* THE SHIFT: the current k steps ago is the present current of the undelayed synapse class run on the input history
   delayed by k steps *)
Theorem value_ago_is_undelayed_on_shifted (c : cfgR) (p : pastR) k e :
  value_ago c p k e = nth e (cur_out RN (undelayed c) (shifted (undelayed c) p k)) 0.
Proof.
  unfold value_ago, shifted. rewrite cur_out_undelayed.
  change (rest_entry (undelayed c)) with (rest_entry c). rewrite cur_out_app_rest. reflexivity.
Qed.
Theorem spike_ago_is_undelayed_on_shifted (c : cfgR) (p : pastR) k e :
  spike_ago c p k e = nth e (spike_hist RN (undelayed c) (shifted (undelayed c) p k) 0) 0.
Proof.
  unfold spike_ago, shifted. change (rest_entry (undelayed c)) with (rest_entry c).
  rewrite (spike_hist0_app_rest (undelayed c) (skipn k p)).
  change (spike_hist RN (undelayed c) (skipn k p) 0) with (spike_hist RN c (skipn k p) 0).
  unfold spike_hist. rewrite nth_error_skipn0. reflexivity.
Qed.

(* the shifted history is a legal history of the undelayed synapse *)
Lemma shifted_entry_ok (c : cfgR) (p : pastR) k : Forall (entry_ok RN c) p -> Forall (entry_ok RN (undelayed c)) (shifted (undelayed c) p k).
Proof.
  intros H. unfold shifted. apply Forall_app. split.
  - apply Forall_skipn. exact H.
  - apply Forall_forall. intros x Hx. apply repeat_spec in Hx. subst x. unfold entry_ok, rest_entry. cbn [fst snd].
    split; [apply zrow_length|constructor].
Qed.

(* for the Delta synapse the two learning views are tied: current = spike * Q / dt, at every delay *)
Theorem delta_value_ago_spike_ago (c : cfgR) (p : pastR) k e : ckind RN c = KDelta ->
  value_ago c p k e = spike_ago c p k e * (cQ RN c / cdt RN c).
Proof.
  intros Ek. unfold value_ago, spike_ago, cur_out. rewrite Ek.
  unfold spike_hist at 1. rewrite nth_error_skipn0. fold (spike_hist RN c p k).
  rewrite nth_map_dtc. unfold delta_to_current. rn_simpl. reflexivity.
Qed.
