(* C06, part 8 (no axioms, ANY numeric reading NM - in particular the binary64 one the implementation runs): the hypothesis "Inv c s p" of the C06 theorems holds for EVERY state a
   connection can reach.  A connection only ever touches its synapse through Synapse.forward (one call per
   Connection.forward, whatever branch follows, also when the branch then fails) and Synapse.clear; reading the views,
   reading the selector and re-assigning the delay parameter do not touch it.  So the synapse of a connection after any
   sequence of connection operations is the synapse after the corresponding sequence of synapse operations, and C04's
   run invariant applies: its records hold exactly the past values determined by conn_history (the like_synaptic-reshaped
   inputs since the last clear, newest first). *)
From Coq Require Import List ZArith Bool Arith Lia.
From Inferno Require Import Base.Num Gen.Infra C01.Ring C01.RingProofs
  C04.Synapse C04.HistProofs C06.Delay C06.DelaySpec.
From Inferno Require C05.Conn C05.ConnSpec C05.ConnProofs.
Import ListNotations.

Section Run.
Variable NM : Num.
Notation cfgR := (cfg NM).
Notation synR := (syn NM).
Notation pastR := (past NM).

(* the connection after an operation (only a delay assignment changes it) *)
Definition conn_after (k : conn NM) (o : cop NM) : conn NM :=
  match o with KSetDelay _ d => conn_set_delay NM k d | _ => k end.

(* like_synaptic of Conv2D on an input of shape xsh, as the model computes it *)
Definition conv_geom_of (v : conv NM) (xsh : list nat) : Conn.geom :=
  let g := cv_g NM v in
  Conn.mkG (Z.of_nat (nth 2 xsh 0)) (Z.of_nat (nth 3 xsh 0)) (Z.of_nat (nth 1 xsh 0)) (Conn.gF g) (Conn.kH g) (Conn.kW g)
           (Conn.sH g) (Conn.sW g) (Conn.pH g) (Conn.pW g) (Conn.dH g) (Conn.dW g).
Definition conv_unf (v : conv NM) (xsh : list nat) (d : list (T NM)) : list (T NM) :=
  flat3 NM (map (Conn.unfold NM (conv_geom_of v xsh)) (nest4 NM (nth 0 xsh 0) (nth 1 xsh 0) (nth 2 xsh 0) (nth 3 xsh 0) d)).
Definition conv_synshape (v : conv NM) (xsh : list nat) : list nat :=
  let g := cv_g NM v in let g' := conv_geom_of v xsh in
  [nth 0 xsh 0; nth 1 xsh 0 * (Z.to_nat (Conn.kH g) * Z.to_nat (Conn.kW g));
   Z.to_nat (Conn.outH NM g') * Z.to_nat (Conn.outW NM g')].

(* the synapse operation a connection operation performs, if any *)
Definition syn_op (k : conn NM) (o : cop NM) : option (sop NM) :=
  match o with
  | KStep _ xsh xs inj =>
      match k with
      | CConv _ v =>
          let g' := conv_geom_of v xsh in
          if negb (length xsh =? 4) then None
          else if (Conn.outH NM g' <=? 0)%Z || (Conn.outW NM g' <=? 0)%Z then None
          else Some (OStep NM (conv_synshape v xsh) (conv_unf v xsh xs) (map (conv_unf v xsh) inj))
      | _ => Some (OStep NM (Conn.flat_shape xsh) xs inj)
      end
  | KClear _ => Some (OClear NM)
  | _ => None
  end.

(* the property's state: the synapse inputs since the last clear *)
Definition conn_history (c : cfgR) (k : conn NM) (p : pastR) (o : cop NM) : pastR :=
  match syn_op k o with Some so => spec_step NM c p so | None => p end.
Fixpoint conn_history_run (c : cfgR) (k : conn NM) (p : pastR) (ops : list (cop NM)) : pastR :=
  match ops with
  | [] => p
  | o :: tl => conn_history_run c (conn_after k o) (conn_history c k p o) tl
  end.

Definition cop_ok (k : conn NM) (o : cop NM) : Prop :=
  match syn_op k o with Some so => op_ok NM so | None => True end.
Fixpoint cops_ok (k : conn NM) (ops : list (cop NM)) : Prop :=
  match ops with [] => True | o :: tl => cop_ok k o /\ cops_ok (conn_after k o) tl end.

(* the synapse after a synapse operation (unchanged when it raises) *)
Definition syn_after (c : cfgR) (s : synR) (so : sop NM) : synR := fst (run NM c s [so]).
Lemma syn_after_step c s xsh xs inj :
  syn_after c s (OStep NM xsh xs inj) = match forward NM c s xsh xs inj with SOk (s', _) => s' | SErr _ => s end.
Proof. unfold syn_after. cbn [run sstep]. destruct (forward NM c s xsh xs inj) as [(s', o)|e]; reflexivity. Qed.

Lemma dense_forward_state k c s xsh xs inj :
  fst (dense_forward NM k c s xsh xs inj) = syn_after c s (OStep NM (Conn.flat_shape xsh) xs inj).
Proof.
  rewrite syn_after_step. unfold dense_forward.
  destruct (forward NM c s (Conn.flat_shape xsh) xs inj) as [(s', o)|e]; [|reflexivity].
  destruct (takes_delayed NM c (has (dn_d NM k))); [|reflexivity].
  destruct (syncurrent NM c s' (has (dn_d NM k)) (dense_selector NM k)) as [(sh, v)|e]; reflexivity.
Qed.
Lemma direct_forward_state k c s xsh xs inj :
  fst (direct_forward NM k c s xsh xs inj) = syn_after c s (OStep NM (Conn.flat_shape xsh) xs inj).
Proof.
  rewrite syn_after_step. unfold direct_forward.
  destruct (forward NM c s (Conn.flat_shape xsh) xs inj) as [(s', o)|e]; [|reflexivity].
  destruct (takes_delayed NM c (has (dr_d NM k))); [|reflexivity].
  destruct (syncurrent NM c s' (has (dr_d NM k)) (direct_selector NM k)) as [(sh, v)|e]; reflexivity.
Qed.
Lemma conv_forward_state v c s xsh xs inj :
  fst (conv_forward NM v c s xsh xs inj) =
  match syn_op (CConv NM v) (KStep NM xsh xs inj) with Some so => syn_after c s so | None => s end.
Proof.
  unfold syn_op, conv_forward. fold (conv_geom_of v xsh).
  destruct (negb (length xsh =? 4)); [reflexivity|].
  destruct ((Conn.outH NM (conv_geom_of v xsh) <=? 0)%Z || (Conn.outW NM (conv_geom_of v xsh) <=? 0)%Z); [reflexivity|].
  rewrite syn_after_step. unfold conv_synshape, conv_unf.
  match goal with |- fst (match ?f with _ => _ end) = match ?f' with _ => _ end => change f' with f; destruct f as [(s', o)|e] end; [|reflexivity].
  destruct (takes_delayed NM c (has (cv_d NM v))); [|reflexivity].
  destruct (syncurrent NM c s' (has (cv_d NM v)) (conv_selector NM v)) as [(sh, vv)|e]; reflexivity.
Qed.

(* one connection operation: the synapse performs exactly syn_op *)
Theorem cstep_synapse c k s o :
  snd (fst (cstep NM c (k, s) o)) = match syn_op k o with Some so => syn_after c s so | None => s end /\
  fst (fst (cstep NM c (k, s) o)) = conn_after k o.
Proof.
  destruct o as [xsh xs inj| | | |d| |]; cbn [cstep syn_op conn_after]; try (split; reflexivity).
  - destruct k as [kd|kd|kl|kv]; cbn [conn_forward].
    + pose proof (dense_forward_state kd c s xsh xs inj) as H. destruct (dense_forward NM kd c s xsh xs inj) as (s', r). cbn [fst snd] in *. split; [exact H|reflexivity].
    + pose proof (direct_forward_state kd c s xsh xs inj) as H. destruct (direct_forward NM kd c s xsh xs inj) as (s', r). cbn [fst snd] in *. split; [exact H|reflexivity].
    + pose proof (dense_forward_state (lat_dense NM kl) c s xsh xs inj) as H. destruct (dense_forward NM (lat_dense NM kl) c s xsh xs inj) as (s', r). cbn [fst snd] in *. split; [exact H|reflexivity].
    + pose proof (conv_forward_state kv c s xsh xs inj) as H. destruct (conv_forward NM kv c s xsh xs inj) as (s', r). cbn [fst snd] in *. split; [exact H|reflexivity].
Qed.

Theorem cstep_inv c k s p o : Inv NM c s p -> cop_ok k o ->
  Inv NM c (snd (fst (cstep NM c (k, s) o))) (conn_history c k p o).
Proof.
  intros I Hok. destruct (cstep_synapse c k s o) as (E & _). rewrite E. unfold conn_history, cop_ok in *.
  destruct (syn_op k o) as [so|]; [|exact I].
  unfold syn_after. exact (run_inv NM c [so] s p I (Forall_cons so Hok (Forall_nil _))).
Qed.

(* every reachable state *)
Theorem crun_inv c : forall ops k s p, Inv NM c s p -> cops_ok k ops ->
  Inv NM c (snd (fst (crun NM c (k, s) ops))) (conn_history_run c k p ops).
Proof.
  induction ops as [|o ops IH]; intros k s p I Hok; cbn [crun conn_history_run fst snd]; [exact I|].
  destruct Hok as (Ho & Hops).
  pose proof (cstep_inv c k s p o I Ho) as I1. destruct (cstep_synapse c k s o) as (_ & Ek).
  destruct (cstep NM c (k, s) o) as ((k1, s1), out1). cbn [fst snd] in *. subst k1.
  specialize (IH (conn_after k o) s1 _ I1 Hops).
  destruct (crun NM c (conn_after k o, s1) ops) as (kf, outs). exact IH.
Qed.
Corollary crun_inv_init c k ops : cops_ok k ops ->
  Inv NM c (snd (fst (crun NM c (k, init NM c) ops))) (conn_history_run c k [] ops).
Proof. intros H. apply crun_inv; [apply init_inv|exact H]. Qed.

(* Conv2D: the unfolded input always has as many entries as the shape it is announced with, so every convolution step is a
   well-formed synapse operation whatever the input *)
Lemma unfold_length' g (x : Conn.image NM) :
  length (Conn.unfold NM g x) = (Z.to_nat (Conn.gC g) * (Z.to_nat (Conn.kH g) * Z.to_nat (Conn.kW g)))%nat.
Proof.
  unfold Conn.unfold. apply ConnProofs.flat_map_seq_length. intros cc _.
  apply ConnProofs.flat_map_seq_length. intros i _. rewrite map_length, seq_length. reflexivity.
Qed.
Lemma unfold_rows_In g (x : Conn.image NM) r : In r (Conn.unfold NM g x) ->
  length r = (Z.to_nat (Conn.outH NM g) * Z.to_nat (Conn.outW NM g))%nat.
Proof.
  intros Hr. unfold Conn.unfold in Hr. apply in_flat_map in Hr. destruct Hr as (cc & _ & Hr).
  apply in_flat_map in Hr. destruct Hr as (i & _ & Hr). apply in_map_iff in Hr. destruct Hr as (j & <- & _).
  apply ConnProofs.flat_map_seq_length. intros oh _. rewrite map_length, seq_length. reflexivity.
Qed.
Lemma conv_unf_length v xsh d : length xsh = 4%nat -> length (conv_unf v xsh d) = nel (conv_synshape v xsh).
Proof.
  intros Hl. unfold conv_unf, conv_synshape, flat3.
  set (g' := conv_geom_of v xsh).
  set (NN := (Z.to_nat (Conn.gC g') * (Z.to_nat (Conn.kH g') * Z.to_nat (Conn.kW g')))%nat).
  set (LL := (Z.to_nat (Conn.outH NM g') * Z.to_nat (Conn.outW NM g'))%nat).
  assert (Hr : forall r, In r (map (flat2 NM) (map (Conn.unfold NM g') (nest4 NM (nth 0 xsh 0) (nth 1 xsh 0) (nth 2 xsh 0) (nth 3 xsh 0) d))) ->
               length r = (NN * LL)%nat).
  { intros r Hin. apply in_map_iff in Hin. destruct Hin as (u & <- & Hu). apply in_map_iff in Hu. destruct Hu as (x & <- & _).
    unfold flat2. rewrite (ConnProofs.concat_length_uniform _ LL) by (intros row Hrow; apply (unfold_rows_In g' x row Hrow)).
    rewrite unfold_length'. reflexivity. }
  rewrite (ConnProofs.concat_length_uniform _ _ Hr), !map_length.
  unfold nest4. rewrite map_length, ConnProofs.chunk_length.
  unfold nel. cbn [fold_right]. unfold NN, LL, g', conv_geom_of. cbn [Conn.gC Conn.kH Conn.kW]. rewrite Nat2Z.id. lia.
Qed.
Theorem conv_step_always_ok v xsh xs inj : cop_ok (CConv NM v) (KStep NM xsh xs inj).
Proof.
  unfold cop_ok, syn_op.
  destruct (negb (length xsh =? 4)) eqn:E4; [exact Logic.I|].
  destruct ((Conn.outH NM (conv_geom_of v xsh) <=? 0)%Z || (Conn.outW NM (conv_geom_of v xsh) <=? 0)%Z); [exact Logic.I|].
  assert (Hl : length xsh = 4%nat) by (apply Nat.eqb_eq; destruct (length xsh =? 4); [reflexivity|discriminate]).
  cbn [op_ok]. split; [apply conv_unf_length; exact Hl|].
  apply Forall_forall. intros x Hx. apply in_map_iff in Hx. destruct Hx as (i & <- & _). apply conv_unf_length; exact Hl.
Qed.
End Run.
