(* C06, part 10 (reals): Conv2D's delayed forward read on the INPUT IMAGE.
     conv_synapse_sees_pixel     synapse element (b, (c,i,j), (oh,ow)) receives, at every step, the zero-padded input pixel
                                 x[b, c, oh*s + i*d - p, ow*s + j*d - p]  (C05 unfold_spec through the batch flattening)
     conv_delayed_forward_is_shifted_crosscorrelation
                                 out[b,f,oh,ow] = bias[f] + sum_{c,i,j} W[f,c,i,j] * I_(b,c,i,j,oh,ow)(t - k[f,c,i,j])
                                 - the cross-correlation of C05 with every kernel element's contribution taken k[f,c,i,j] steps in the past
     deltaplus_value_ago         for the DeltaPlus synapse (no injected current) I(t - k) = Q/dt * (the input k steps ago), 0 before the start *)
From Coq Require Import List ZArith Bool Arith Lia Reals Lra.
From Flocq Require Import Core.Raux Core.Generic_fmt.
From Inferno Require Import Base.Num Base.NumR Gen.Infra Gen.Interpolation C01.Ring C01.RingProofs
  C04.Synapse C04.HistProofs C04.ClosedForms C04.SelectProofs C04.SynapseProofs
  C06.Delay C06.DelaySpec C06.ReadProofs C06.ViewProofs C06.DirectProofs C06.ConvProofs C06.ConvShift.
From Inferno Require C05.Conn C05.ConnSpec C05.ConnProofs.
Import ListNotations.
Open Scope R_scope.

Lemma Rsum_app n m f : Rsum (n + m) f = Rsum n f + Rsum m (fun i => f (n + i)%nat).
Proof.
  induction m as [|m IH]; [rewrite Nat.add_0_r; cbn [ConnSpec.Rsum]; ring|].
  rewrite Nat.add_succ_r. cbn [ConnSpec.Rsum]. rewrite IH. ring.
Qed.
Lemma Rsum_flatten2 A Bn f : Rsum (A * Bn) f = Rsum A (fun a => Rsum Bn (fun b => f (a * Bn + b)%nat)).
Proof.
  induction A as [|A IH]; [reflexivity|]. cbn [ConnSpec.Rsum]. rewrite <- IH.
  replace (S A * Bn)%nat with (A * Bn + Bn)%nat by lia. apply Rsum_app.
Qed.
Lemma Rsum_flatten3 A Bn Cn f :
  Rsum (A * (Bn * Cn)) f = Rsum A (fun a => Rsum Bn (fun b => Rsum Cn (fun c => f ((a * Bn + b) * Cn + c)%nat))).
Proof.
  rewrite Rsum_flatten2. apply ConnProofs.Rsum_ext. intros a Ha. rewrite Rsum_flatten2.
  apply ConnProofs.Rsum_ext. intros b Hb. apply ConnProofs.Rsum_ext. intros c Hc. f_equal. lia.
Qed.

(* the input a synapse element received k steps ago (0 before the start / the last clear) *)
Definition input_ago (p : pastR) (k e : nat) : R :=
  match nth_error p k with Some (xs, _) => nth e xs 0 | None => 0 end.
Definition no_injection (p : pastR) (k : nat) : Prop :=
  match nth_error p k with Some (_, inj) => inj = [] | None => True end.

Theorem deltaplus_value_ago (c : cfgR) (p : pastR) k e : ckind RN c = KDeltaPlus -> no_injection p k ->
  value_ago c p k e = input_ago p k e * (cQ RN c / cdt RN c).
Proof.
  intros Ek Hni. unfold value_ago, cur_out, input_ago, no_injection in *. rewrite Ek.
  rewrite <- (nth_error_skipn0 p k) in *. destruct (skipn k p) as [|(xs, inj) q]; cbn [nth_error cur_val] in *.
  - unfold zrow. rewrite nth_repeat0. ring.
  - rewrite Ek. subst inj. unfold deltaplus_val. cbn [fold_left].
    destruct (Nat.lt_ge_cases e (length xs)) as [Hl|Hl].
    + rewrite (ConnProofs.nth_map_lt _ _ _ 0) by exact Hl. rn_simpl. ring.
    + rewrite !nth_overflow by (rewrite ?map_length; exact Hl). ring.
Qed.

Section ConvPixel.
Variable k : conv RN.
Notation g := (cv_g RN k).
Notation B := (cv_B RN k).
Notation NN := (cv_N RN k).
Notation L := (cv_L RN k).
Notation F := (cv_F RN k).
Notation HO := (cv_HO RN k).
Notation WO := (cv_WO RN k).
Notation C := (Z.to_nat (Conn.gC g)).
Notation KH := (Z.to_nat (Conn.kH g)).
Notation KW := (Z.to_nat (Conn.kW g)).
Notation K := (Conn.flatten_kernel RN (cv_w RN k)).

(* batch element b of the input *)
Definition image_of (xs : list R) (b : nat) : Conn.image RN :=
  nth b (nest4 RN B C (Z.to_nat (Conn.gH g)) (Z.to_nat (Conn.gW g)) xs) [].
(* flat index of the synapse element of batch element b, kernel element (cc, i, j), output position (oh, ow) *)
Definition syn_index (b cc i j oh ow : nat) : nat := (b * NN + ((cc * KH + i) * KW + j)) * L + (oh * WO + ow).

Theorem conv_synapse_sees_pixel (xs : list R) b cc i j oh ow :
  (b < B)%nat -> (cc < C)%nat -> (i < KH)%nat -> (j < KW)%nat -> (oh < HO)%nat -> (ow < WO)%nat ->
  nth (syn_index b cc i j oh ow) (conv_unfolded k xs) 0 =
  ConnSpec.xp g (image_of xs b) cc (ConnSpec.rowpos g oh i) (ConnSpec.colpos g ow j).
Proof.
  intros Hb Hc Hi Hj Hoh How. unfold conv_unfolded, syn_index.
  set (imgs := nest4 RN B C (Z.to_nat (Conn.gH g)) (Z.to_nat (Conn.gW g)) xs).
  assert (Hu : forall u, In u (map (Conn.unfold RN g) imgs) -> length u = NN /\ forall r, In r u -> length r = L).
  { intros u Hin. apply in_map_iff in Hin. destruct Hin as (x & <- & _). split; [apply ConnProofs.unfold_length|].
    intros r Hr. apply (In_nth _ _ []) in Hr. destruct Hr as (n & Hn & <-). rewrite ConnProofs.unfold_length in Hn.
    apply ConnProofs.unfold_row_length. exact Hn. }
  destruct (flat3_uniform _ NN L Hu) as (_ & E).
  assert (Hlen : length (map (Conn.unfold RN g) imgs) = B) by (rewrite map_length; unfold imgs; apply nest4_length).
  assert (Hn : ((cc * KH + i) * KW + j < NN)%nat).
  { unfold cv_N. pose proof (ConnProofs.flat_index_lt cc i C KH Hc Hi) as H1.
    pose proof (ConnProofs.flat_index_lt (cc * KH + i) j (C * KH) KW H1 Hj) as H2. lia. }
  assert (Hl : (oh * WO + ow < L)%nat) by (unfold cv_L; apply ConnProofs.flat_index_lt; assumption).
  assert (Hb' : (b < length (map (Conn.unfold RN g) imgs))%nat) by (change (T RN) with R in *; lia).
  etransitivity; [exact (E b _ _ Hb' Hn Hl)|].
  assert (Em : nth b (map (Conn.unfold RN g) imgs) [] = Conn.unfold RN g (nth b imgs [])).
  { apply (ConnProofs.nth_map_lt (Conn.unfold RN g) imgs b [] []). unfold imgs. rewrite nest4_length. exact Hb. }
  etransitivity; [apply (f_equal (fun u => nth (oh * WO + ow) (nth ((cc * KH + i) * KW + j) u []) 0)); exact Em|].
  apply ConnProofs.unfold_spec; assumption.
Qed.

Lemma kernel_entry f cc i j : ConnSpec.wf_kernel g (cv_w RN k) -> (f < length (cv_w RN k))%nat ->
  (cc < C)%nat -> (i < KH)%nat -> (j < KW)%nat ->
  mat_at K f ((cc * KH + i) * KW + j) = ConnSpec.w4 (cv_w RN k) f cc i j.
Proof.
  intros Hwf Hf Hc Hi Hj. unfold ConnSpec.mat_at.
  etransitivity; [apply (f_equal (fun r => nth ((cc * KH + i) * KW + j) r 0)); exact (ConnProofs.kernel_row_canon g _ f Hwf Hf)|].
  replace ((cc * KH + i) * KW + j)%nat with (cc * (KH * KW) + (i * KW + j))%nat by nia.
  rewrite (ConnProofs.flat_map_seq_nth _ (KH * KW)) by (try assumption; try (apply ConnProofs.flat_index_lt; assumption); intros; apply ConnProofs.kblock_length).
  rewrite (ConnProofs.flat_map_seq_nth _ KW) by (try assumption; intros; rewrite map_length, seq_length; reflexivity).
  rewrite ConnProofs.map_seq_nth by assumption. reflexivity.
Qed.

Variable c : cfgR.
Variable s : synR.
Variable p : pastR.
Hypothesis I : Inv RN c s p.
Hypothesis Hc : cfg_ok c.
Hypothesis Hshape : cshape RN c = [B; NN; L].
Hypothesis HK : is_mat F NN K.
Hypothesis Hwf : ConnSpec.wf_kernel g (cv_w RN k).
Hypothesis Hb : bias_ok F (cv_b RN k).
Hypothesis Hgeo : (0 <= Conn.gC g)%Z /\ (0 <= Conn.gH g)%Z /\ (0 <= Conn.gW g)%Z /\ (0 < Conn.outH RN g)%Z /\ (0 < Conn.outW RN g)%Z.
Variables (xs : list R) (inj : list (list R)).
Notation xsh := [B; C; Z.to_nat (Conn.gH g); Z.to_nat (Conn.gW g)].
Notation p' := ((conv_unfolded k xs, map (conv_unfolded k) inj) :: p).
Hypothesis Hx : entry_ok RN c (conv_unfolded k xs, map (conv_unfolded k) inj).
Variable d : kernel4 RN.
Hypothesis Hd : cv_d RN k = Some d.
Hypothesis Hdel : cdelay RN c <> 0.
Notation D := (Conn.flatten_kernel RN d).

Theorem conv_delayed_forward_is_shifted_crosscorrelation (kk : nat -> nat -> nat -> nat -> nat) :
  (forall f cc i j, (f < F)%nat -> (cc < C)%nat -> (i < KH)%nat -> (j < KW)%nat ->
     on_grid_delay c (mat_at D f ((cc * KH + i) * KW + j)) (kk f cc i j)) ->
  exists s' out, conv_forward RN k c s xsh xs inj = (s', SOk ([B; F; HO; WO], out)) /\
    forall b f oh ow, (b < B)%nat -> (f < F)%nat -> (oh < HO)%nat -> (ow < WO)%nat ->
      nth (((b * F + f) * HO + oh) * WO + ow) out 0 =
      bias_at (cv_b RN k) f +
      Rsum C (fun cc => Rsum KH (fun i => Rsum KW (fun j =>
        ConnSpec.w4 (cv_w RN k) f cc i j * value_ago c p' (kk f cc i j) (syn_index b cc i j oh ow)))).
Proof.
  intros Hg.
  (* a delay table indexed by the flat kernel element *)
  set (kflat := fun f n => kk f (n / (KH * KW))%nat ((n mod (KH * KW)) / KW)%nat (n mod KW)%nat).
  assert (Hdecomp : forall cc i j, (i < KH)%nat -> (j < KW)%nat ->
            (((cc * KH + i) * KW + j) / (KH * KW) = cc /\ (((cc * KH + i) * KW + j) mod (KH * KW)) / KW = i /\
             ((cc * KH + i) * KW + j) mod KW = j)%nat).
  { intros cc i j Hi Hj.
    assert (E : ((cc * KH + i) * KW + j = cc * (KH * KW) + (i * KW + j))%nat) by nia.
    assert (Hr : (i * KW + j < KH * KW)%nat) by (apply ConnProofs.flat_index_lt; assumption).
    assert (E1 : (((cc * KH + i) * KW + j) / (KH * KW) = cc)%nat).
    { rewrite E. rewrite Nat.div_add_l by lia. rewrite (Nat.div_small _ _ Hr). lia. }
    assert (E2 : (((cc * KH + i) * KW + j) mod (KH * KW) = i * KW + j)%nat).
    { rewrite E. rewrite Nat.add_comm, Nat.mod_add by lia. apply Nat.mod_small. exact Hr. }
    split; [exact E1|]. rewrite E2. split.
    - rewrite Nat.div_add_l by lia. rewrite (Nat.div_small _ _ Hj). lia.
    - rewrite Nat.add_comm, Nat.mod_add by lia. apply Nat.mod_small. exact Hj. }
  assert (Hgf : forall f n, (f < F)%nat -> (n < NN)%nat -> on_grid_delay c (mat_at D f n) (kflat f n)).
  { intros f n Hf Hn. unfold cv_N in Hn.
    destruct (index2 n C (KH * KW) Hn) as (cc & r & Hcc & Hr & ->).
    destruct (index2 r KH KW Hr) as (i & j & Hi & Hj & ->).
    replace (cc * (KH * KW) + (i * KW + j))%nat with ((cc * KH + i) * KW + j)%nat by nia.
    unfold kflat. destruct (Hdecomp cc i j Hi Hj) as (E1 & E2 & E3). rewrite E1, E2, E3. apply Hg; assumption. }
  destruct (conv_delayed_forward_is_shift k c s p I Hc Hshape HK Hb Hgeo xs inj Hx d Hd Hdel kflat Hgf) as (s' & out & E & _ & _ & Hv).
  exists s', out. split; [exact E|]. intros b f oh ow Hbb Hff Hoh How.
  rewrite (Hv b f oh ow Hbb Hff Hoh How). rewrite Rplus_comm. f_equal.
  unfold cv_N. rewrite Rsum_flatten3.
  assert (HlK : (f < length (cv_w RN k))%nat).
  { destruct HK as (E1 & _). unfold Conn.flatten_kernel in E1. rewrite map_length in E1. rewrite E1. exact Hff. }
  apply ConnProofs.Rsum_ext. intros cc Hcc. apply ConnProofs.Rsum_ext. intros i Hi. apply ConnProofs.Rsum_ext. intros j Hj.
  rewrite (kernel_entry f cc i j Hwf HlK Hcc Hi Hj). f_equal.
  unfold kflat. destruct (Hdecomp cc i j Hi Hj) as (E1 & E2 & E3). rewrite E1, E2, E3. reflexivity.
Qed.
End ConvPixel.

(* the hypothesis `entry_ok c (conv_unfolded k xs, ...)` of the Conv2D theorems holds for EVERY input: F.unfold always produces
   B * N * L entries *)
Theorem conv_entry_ok (k : conv RN) (c : cfgR) (xs : list R) (inj : list (list R)) :
  cshape RN c = [cv_B RN k; cv_N RN k; cv_L RN k] ->
  entry_ok RN c (conv_unfolded k xs, map (conv_unfolded k) inj).
Proof.
  intros Hshape.
  assert (Hlen : forall d, length (conv_unfolded k d) = nel (cshape RN c)).
  { intros d. unfold conv_unfolded.
    set (imgs := nest4 RN (cv_B RN k) (Z.to_nat (Conn.gC (cv_g RN k))) (Z.to_nat (Conn.gH (cv_g RN k))) (Z.to_nat (Conn.gW (cv_g RN k))) d).
    assert (Hu : forall u, In u (map (Conn.unfold RN (cv_g RN k)) imgs) -> length u = cv_N RN k /\ forall r, In r u -> length r = cv_L RN k).
    { intros u Hin. apply in_map_iff in Hin. destruct Hin as (x & <- & _). split; [apply ConnProofs.unfold_length|].
      intros r Hr. apply (In_nth _ _ []) in Hr. destruct Hr as (n & Hn & <-). rewrite ConnProofs.unfold_length in Hn.
      apply ConnProofs.unfold_row_length. exact Hn. }
    destruct (flat3_uniform _ _ _ Hu) as (E & _). rewrite Hshape, nel3.
    etransitivity; [exact E|]. rewrite map_length. unfold imgs. rewrite nest4_length. reflexivity. }
  split; cbn [fst snd]; [apply Hlen|]. apply Forall_forall. intros x Hx. apply in_map_iff in Hx. destruct Hx as (d & <- & _). apply Hlen.
Qed.
