(* C06, part 12: (a) the flagship statement for every connection state reachable from the constructor, without the
   invariant as a hypothesis, for LinearDirect, LinearLateral and Conv2D (LinearDense: ClosedShift.dense_reachable_forward_is_shift);
   (b) delay learning: over runs in which `delay` is re-assigned between steps, every forward step uses the delay tensor in
   force at that step - the last one assigned before it - applied to the WHOLE input history since the last clear (the
   re-assignment does not touch the synapse), and later re-assignments do not change earlier outputs. *)
From Coq Require Import List ZArith Bool Arith Lia Reals Lra.
From Flocq Require Import Core.Raux Core.Generic_fmt.
From Inferno Require Import Base.Num Base.NumR Gen.Infra Gen.Interpolation C01.Ring C01.RingProofs
  C04.Synapse C04.HistProofs C04.ClosedForms C04.SelectProofs C04.SynapseProofs
  C06.Delay C06.DelaySpec C06.DecompSpec C06.ReadProofs C06.ViewProofs C06.DenseProofs C06.DenseShift C06.DirectProofs
  C06.ConvProofs C06.ConvShift C06.ConvPixel C06.RunProofs.
From Inferno Require C05.Conn C05.ConnSpec C05.ConnProofs.
Import ListNotations.
Open Scope R_scope.

(* ==================================================================== (a) reachable states *)
Section Reachable.
Variable k0 : conn RN.                  (* the connection as constructed (any class) *)
Variable c : cfgR.
Variable ops : list (cop RN).           (* any sequence of forward steps, view / selector reads, delay assignments, clears *)
Hypothesis Hc : cfg_ok c.
Hypothesis Hops : cops_ok RN k0 ops.
Let st := fst (crun RN c (k0, init RN c) ops).
Let p := conn_history_run RN c k0 [] ops.

Lemma reach_inv : Inv RN c (snd st) p.
Proof. exact (crun_inv_init RN c k0 ops Hops). Qed.

(* k : the connection's parameters now (weights / delays possibly re-assigned since construction) *)
Theorem direct_reachable_forward_is_shift (k : direct RN) (d : list R) (kk : nat -> nat) xsh xs inj :
  cshape RN c = [dr_B RN k; dr_n RN k] -> length (dr_w RN k) = dr_n RN k -> bias_ok (dr_n RN k) (dr_b RN k) ->
  (0 < dr_n RN k)%nat -> Conn.flat_shape xsh = [dr_B RN k; dr_n RN k] -> entry_ok RN c (xs, inj) ->
  dr_d RN k = Some d -> cdelay RN c <> 0 ->
  (forall j, (j < dr_n RN k)%nat -> on_grid_delay c (nth j d 0) (kk j)) ->
  exists s' out, direct_forward RN k c (snd st) xsh xs inj = (s', SOk (dr_B RN k :: dr_shape RN k, out)) /\
    forall b j, (b < dr_B RN k)%nat -> (j < dr_n RN k)%nat ->
      nth (b * dr_n RN k + j) out 0 = nth j (dr_w RN k) 0 * value_ago c ((xs, inj) :: p) (kk j) (b * dr_n RN k + j) + bias_at (dr_b RN k) j.
Proof.
  intros Hshape HW Hb Hn Hxsh Hx Hd Hdel Hg.
  destruct (direct_delayed_forward_is_shift k c (snd st) p reach_inv Hc Hshape HW Hb Hn xsh xs inj Hxsh Hx d Hd Hdel kk Hg)
    as (s' & out & E & _ & _ & Hv).
  exists s', out. split; [exact E|exact Hv].
Qed.

Theorem lateral_reachable_forward_is_shift (l : Conn.lat RN) (d : list (list R)) (kk : nat -> nat -> nat) xsh xs inj :
  cshape RN c = [Conn.l_B RN l; Conn.l_n RN l] -> is_mat (Conn.l_n RN l) (Conn.l_n RN l) (Conn.l_w RN l) ->
  bias_ok (Conn.l_n RN l) (Conn.l_b RN l) -> (0 < Conn.l_n RN l)%nat -> ConnSpec.lat_inv l ->
  Conn.flat_shape xsh = [Conn.l_B RN l; Conn.l_n RN l] -> entry_ok RN c (xs, inj) ->
  Conn.l_d RN l = Some d -> cdelay RN c <> 0 ->
  (forall o i, (o < Conn.l_n RN l)%nat -> (i < Conn.l_n RN l)%nat -> on_grid_delay c (mat_at d o i) (kk o i)) ->
  exists s' out, dense_forward RN (lat_dense RN l) c (snd st) xsh xs inj = (s', SOk (Conn.l_B RN l :: Conn.l_shape RN l, out)) /\
    forall b o, (b < Conn.l_B RN l)%nat -> (o < Conn.l_n RN l)%nat ->
      nth (b * Conn.l_n RN l + o) out 0 =
      Rsum (Conn.l_n RN l) (fun i => if (i =? o)%nat then 0
                                     else mat_at (Conn.l_w RN l) o i * value_ago c ((xs, inj) :: p) (kk o i) (b * Conn.l_n RN l + i))
      + bias_at (Conn.l_b RN l) o.
Proof.
  intros Hshape HW Hb Hn Hinv Hxsh Hx Hd Hdel Hg.
  destruct (lateral_delayed_forward_is_shift l c (snd st) p reach_inv Hc Hshape HW Hb Hn Hinv xsh xs inj Hxsh Hx d Hd Hdel kk Hg)
    as (s' & out & E & _ & _ & Hv).
  exists s', out. split; [exact E|exact Hv].
Qed.

Theorem conv_reachable_forward_is_shift (k : conv RN) (d : kernel4 RN) (kk : nat -> nat -> nat) xs inj :
  cshape RN c = [cv_B RN k; cv_N RN k; cv_L RN k] ->
  is_mat (cv_F RN k) (cv_N RN k) (Conn.flatten_kernel RN (cv_w RN k)) -> bias_ok (cv_F RN k) (cv_b RN k) ->
  (0 <= Conn.gC (cv_g RN k))%Z /\ (0 <= Conn.gH (cv_g RN k))%Z /\ (0 <= Conn.gW (cv_g RN k))%Z /\
  (0 < Conn.outH RN (cv_g RN k))%Z /\ (0 < Conn.outW RN (cv_g RN k))%Z ->
  cv_d RN k = Some d -> cdelay RN c <> 0 ->
  (forall f n, (f < cv_F RN k)%nat -> (n < cv_N RN k)%nat -> on_grid_delay c (mat_at (Conn.flatten_kernel RN d) f n) (kk f n)) ->
  exists s' out,
    conv_forward RN k c (snd st) [cv_B RN k; Z.to_nat (Conn.gC (cv_g RN k)); Z.to_nat (Conn.gH (cv_g RN k)); Z.to_nat (Conn.gW (cv_g RN k))] xs inj
    = (s', SOk ([cv_B RN k; cv_F RN k; cv_HO RN k; cv_WO RN k], out)) /\
    forall b f oh ow, (b < cv_B RN k)%nat -> (f < cv_F RN k)%nat -> (oh < cv_HO RN k)%nat -> (ow < cv_WO RN k)%nat ->
      nth (((b * cv_F RN k + f) * cv_HO RN k + oh) * cv_WO RN k + ow) out 0 =
      Rsum (cv_N RN k) (fun n => mat_at (Conn.flatten_kernel RN (cv_w RN k)) f n *
             value_ago c ((conv_unfolded k xs, map (conv_unfolded k) inj) :: p) (kk f n)
                       ((b * cv_N RN k + n) * cv_L RN k + (oh * cv_WO RN k + ow)))
      + bias_at (cv_b RN k) f.
Proof.
  intros Hshape HK Hb Hgeo Hd Hdel Hg.
  pose proof (conv_entry_ok k c xs inj Hshape) as Hx.
  destruct (conv_delayed_forward_is_shift k c (snd st) p reach_inv Hc Hshape HK Hb Hgeo xs inj Hx d Hd Hdel kk Hg)
    as (s' & out & E & _ & _ & Hv).
  exists s', out. split; [exact E|exact Hv].
Qed.
End Reachable.

(* ==================================================================== (b) delays re-assigned between steps *)
(* structure of runs: any numeric reading, no axioms *)
Section RunStructure.
Variable NM : Num.
Lemma crun_app c : forall a b st,
  crun NM c st (a ++ b) =
  (fst (crun NM c (fst (crun NM c st a)) b), snd (crun NM c st a) ++ snd (crun NM c (fst (crun NM c st a)) b)).
Proof.
  induction a as [|o a IH]; intros b st; cbn [app crun fst snd].
  - destruct (crun NM c st b); reflexivity.
  - destruct (cstep NM c st o) as (st1, out1). rewrite (IH b st1).
    destruct (crun NM c st1 a) as (st2, outs2). cbn [fst snd].
    destruct (crun NM c st2 b) as (st3, outs3). reflexivity.
Qed.
(* the outputs of the operations already performed are not changed by anything that happens later *)
Corollary crun_prefix_outputs c a b st : firstn (length (snd (crun NM c st a))) (snd (crun NM c st (a ++ b))) = snd (crun NM c st a).
Proof. rewrite crun_app. cbn [snd]. rewrite firstn_app, Nat.sub_diag, firstn_all. cbn [firstn]. apply app_nil_r. Qed.
(* the connection after a run: only the delay assignments matter *)
Lemma crun_conn c : forall ops k s, fst (fst (crun NM c (k, s) ops)) = fold_left (conn_after NM) ops k.
Proof.
  induction ops as [|o ops IH]; intros k s; cbn [crun fold_left fst]; [reflexivity|].
  destruct (cstep_synapse NM c k s o) as (_ & Ek).
  destruct (cstep NM c (k, s) o) as ((k1, s1), out1). cbn [fst] in Ek. subst k1.
  specialize (IH (conn_after NM k o) s1). destruct (crun NM c (conn_after NM k o, s1) ops) as (stf, outs). exact IH.
Qed.
End RunStructure.

(* a delay assignment does not touch the history: the synapse keeps every input since the last clear *)
Lemma conn_history_setdelay c k p d : conn_history RN c k p (KSetDelay RN d) = p.
Proof. reflexivity. Qed.

(* LinearDense: the connection after a run carries the delay tensor in force *)
Lemma dense_after_run (k : dense RN) : forall ops d,
  fold_left (conn_after RN) ops (CDense RN (dense_with_delay k d)) = CDense RN (dense_with_delay k (dense_delay_in_force k d ops)).
Proof.
  induction ops as [|o ops IH]; intros d; cbn [fold_left dense_delay_in_force]; [reflexivity|].
  destruct o; cbn [conn_after]; apply IH.
Qed.
Lemma direct_after_run (k : direct RN) : forall ops d,
  fold_left (conn_after RN) ops (CDirect RN (direct_with_delay k d)) = CDirect RN (direct_with_delay k (direct_delay_in_force d ops)).
Proof.
  induction ops as [|o ops IH]; intros d; cbn [fold_left direct_delay_in_force]; [reflexivity|].
  destruct o; cbn [conn_after]; apply IH.
Qed.

(* THE STATEMENT: a LinearDense built with delay tensor d0 is driven by any operation sequence ops (forward steps, reads,
   clears and delay re-assignments in any order) and then makes one more forward step.  That step's output is the shift
   formula for the tensor in force (dense_delay_in_force = the last one assigned in ops, d0 if none), applied to the whole
   input history since the last clear; the outputs of the earlier operations are what they were without this step. *)
Theorem dense_step_uses_delays_in_force (k : dense RN) (d0 : list (list R)) (c : cfgR) (ops : list (cop RN))
        xsh xs inj (kk : nat -> nat -> nat) :
  cfg_ok c -> cops_ok RN (CDense RN (dense_with_delay k d0)) ops ->
  cshape RN c = [dn_B RN k; dn_I RN k] -> is_mat (dn_O RN k) (dn_I RN k) (dn_w RN k) -> bias_ok (dn_O RN k) (dn_b RN k) ->
  (0 < dn_O RN k)%nat -> Conn.flat_shape xsh = [dn_B RN k; dn_I RN k] -> entry_ok RN c (xs, inj) -> cdelay RN c <> 0 ->
  let start := (CDense RN (dense_with_delay k d0), init RN c) in
  let d := dense_delay_in_force k d0 ops in
  let p := conn_history_run RN c (CDense RN (dense_with_delay k d0)) [] ops in
  (forall o i, (o < dn_O RN k)%nat -> (i < dn_I RN k)%nat -> on_grid_delay c (mat_at d o i) (kk o i)) ->
  exists out,
    snd (crun RN c start (ops ++ [KStep RN xsh xs inj])) = snd (crun RN c start ops) ++ [COFloat RN (dn_B RN k :: dn_out RN k, out)] /\
    forall b o, (b < dn_B RN k)%nat -> (o < dn_O RN k)%nat ->
      nth (b * dn_O RN k + o) out 0 =
      Rsum (dn_I RN k) (fun i => mat_at (dn_w RN k) o i * value_ago c ((xs, inj) :: p) (kk o i) (b * dn_I RN k + i))
      + bias_at (dn_b RN k) o.
Proof.
  intros Hc Hops Hshape HW Hb HO Hxsh Hx Hdel start d p Hg.
  pose proof (crun_inv_init RN c _ ops Hops) as I. fold start p in I.
  pose proof (crun_conn RN c ops (CDense RN (dense_with_delay k d0)) (init RN c)) as Ek. fold start in Ek.
  rewrite dense_after_run in Ek. fold d in Ek.
  destruct (dense_delayed_forward_is_shift (dense_with_delay k d) c (snd (fst (crun RN c start ops))) p I Hc Hshape HW Hb HO
              xsh xs inj Hxsh Hx d eq_refl Hdel kk Hg) as (s' & out & E & _ & _ & Hv).
  exists out. split; [|exact Hv].
  rewrite crun_app. cbn [snd]. f_equal.
  destruct (fst (crun RN c start ops)) as (kn, sn) eqn:Est. cbn [fst snd] in Ek, E. subst kn.
  cbn [crun cstep conn_forward]. rewrite E. reflexivity.
Qed.

(* the same for LinearDirect *)
Theorem direct_step_uses_delays_in_force (k : direct RN) (d0 : list R) (c : cfgR) (ops : list (cop RN))
        xsh xs inj (kk : nat -> nat) :
  cfg_ok c -> cops_ok RN (CDirect RN (direct_with_delay k d0)) ops ->
  cshape RN c = [dr_B RN k; dr_n RN k] -> length (dr_w RN k) = dr_n RN k -> bias_ok (dr_n RN k) (dr_b RN k) ->
  (0 < dr_n RN k)%nat -> Conn.flat_shape xsh = [dr_B RN k; dr_n RN k] -> entry_ok RN c (xs, inj) -> cdelay RN c <> 0 ->
  let start := (CDirect RN (direct_with_delay k d0), init RN c) in
  let d := direct_delay_in_force d0 ops in
  let p := conn_history_run RN c (CDirect RN (direct_with_delay k d0)) [] ops in
  (forall j, (j < dr_n RN k)%nat -> on_grid_delay c (nth j d 0) (kk j)) ->
  exists out,
    snd (crun RN c start (ops ++ [KStep RN xsh xs inj])) = snd (crun RN c start ops) ++ [COFloat RN (dr_B RN k :: dr_shape RN k, out)] /\
    forall b j, (b < dr_B RN k)%nat -> (j < dr_n RN k)%nat ->
      nth (b * dr_n RN k + j) out 0 = nth j (dr_w RN k) 0 * value_ago c ((xs, inj) :: p) (kk j) (b * dr_n RN k + j) + bias_at (dr_b RN k) j.
Proof.
  intros Hc Hops Hshape HW Hb Hn Hxsh Hx Hdel start d p Hg.
  pose proof (crun_inv_init RN c _ ops Hops) as I. fold start p in I.
  pose proof (crun_conn RN c ops (CDirect RN (direct_with_delay k d0)) (init RN c)) as Ek. fold start in Ek.
  rewrite direct_after_run in Ek. fold d in Ek.
  destruct (direct_delayed_forward_is_shift (direct_with_delay k d) c (snd (fst (crun RN c start ops))) p I Hc Hshape HW Hb Hn
              xsh xs inj Hxsh Hx d eq_refl Hdel kk Hg) as (s' & out & E & _ & _ & Hv).
  exists out. split; [|exact Hv].
  rewrite crun_app. cbn [snd]. f_equal.
  destruct (fst (crun RN c start ops)) as (kn, sn) eqn:Est. cbn [fst snd] in Ek, E. subst kn.
  cbn [crun cstep conn_forward]. rewrite E. reflexivity.
Qed.
