(* C06, part 4 (reals): the property for LinearDense (LinearLateral below): a delay is a pure per-synapse time shift.

     dense_delayed_forward_is_shift        d[o,i] within tolerance of k[o,i]*dt, in [0, max]:
                                           out[b,o] = sum_i W[o,i] * I_(b,i)(t - k[o,i]) + bias[o],  I(tau < 0) = 0 (ReadProofs.value_ago_before_start)
     dense_delayed_eq_undelayed_on_shifted the same with I_(b,i)(t - k) = present current of the UNDELAYED synapse class on the history shifted by k steps
     dense_homogeneous_delay_eq_undelayed_connection   one common delay k: the delayed connection's output IS the output of the
                                           undelayed connection (no delay parameter, same weights) fed the history shifted by k steps
     dense_delay_zero_is_undelayed         all delays 0: indistinguishable from the connection without delays
     dense_offgrid_reads_interpolated      delays between grid points: the synapse class's interpolation of the bracketing past values
     dense_views_agree_with_forward        syncurrent / synspike show, per synapse, the values k[o,i] steps ago that forward contracts *)
From Coq Require Import List ZArith Bool Arith Lia Reals Lra.
From Flocq Require Import Core.Raux Core.Generic_fmt.
From Inferno Require Import Base.Num Base.NumR Gen.Infra Gen.Interpolation C01.Ring C01.RingProofs
  C04.Synapse C04.HistProofs C04.ClosedForms C04.SelectProofs C04.SynapseProofs
  C06.Delay C06.DelaySpec C06.ReadProofs C06.ViewProofs C06.DenseProofs.
From Inferno Require C05.Conn C05.ConnSpec C05.ConnProofs.
Import ListNotations.
Open Scope R_scope.

Lemma undelayed_cfg_ok c : cfg_ok c -> cfg_ok (undelayed c).
Proof. intros (H1 & H2 & H3). unfold cfg_ok. cbn [undelayed cdt cdelay ctol]. repeat split; try lra. Qed.

Section DenseShift.
Variable k : dense RN.
Variable c : cfgR.
Variable s : synR.
Variable p : pastR.
Hypothesis I : Inv RN c s p.
Hypothesis Hc : cfg_ok c.
Notation B := (dn_B RN k).
Notation NI := (dn_I RN k).
Notation NO := (dn_O RN k).
Hypothesis Hshape : cshape RN c = [B; NI].
Hypothesis HW : is_mat NO NI (dn_w RN k).
Hypothesis Hb : bias_ok NO (dn_b RN k).
Hypothesis HO : (0 < NO)%nat.
Variables (xsh : list nat) (xs : list R) (inj : list (list R)).
Hypothesis Hxsh : Conn.flat_shape xsh = [B; NI].
Hypothesis Hx : entry_ok RN c (xs, inj).
Notation p' := ((xs, inj) :: p).
Variable d : list (list R).
Hypothesis Hd : dn_d RN k = Some d.
Hypothesis Hdel : cdelay RN c <> 0.

(* ---- delays on the step grid ---- *)
Theorem dense_delayed_forward_is_shift (kk : nat -> nat -> nat) :
  (forall o i, (o < NO)%nat -> (i < NI)%nat -> on_grid_delay c (mat_at d o i) (kk o i)) ->
  exists s' out, dense_forward RN k c s xsh xs inj = (s', SOk (B :: dn_out RN k, out)) /\
    Inv RN c s' p' /\ length out = (B * NO)%nat /\
    forall b o, (b < B)%nat -> (o < NO)%nat ->
      nth (b * NO + o) out 0 =
      Rsum NI (fun i => mat_at (dn_w RN k) o i * value_ago c p' (kk o i) (b * NI + i)) + bias_at (dn_b RN k) o.
Proof.
  intros Hg.
  destruct (dense_delayed_forward k c s p I Hc Hshape HW Hb HO xsh xs inj Hxsh Hx d Hd Hdel) as (s' & out & E & I' & Hl & Hv).
  exists s', out. split; [exact E|]. split; [exact I'|]. split; [exact Hl|]. intros b o Hbb Ho. rewrite (Hv b o Hbb Ho). f_equal.
  apply ConnProofs.Rsum_ext. intros i Hi. f_equal. apply (delayed_cur_on_grid c p' Hc). apply Hg; assumption.
Qed.

(* ---- relational reading: every presynaptic contribution is the undelayed synapse's current on the shifted history ---- *)
Theorem dense_delayed_eq_undelayed_on_shifted (kk : nat -> nat -> nat) :
  (forall o i, (o < NO)%nat -> (i < NI)%nat -> on_grid_delay c (mat_at d o i) (kk o i)) ->
  exists s' out, dense_forward RN k c s xsh xs inj = (s', SOk (B :: dn_out RN k, out)) /\
    forall b o, (b < B)%nat -> (o < NO)%nat ->
      nth (b * NO + o) out 0 =
      Rsum NI (fun i => mat_at (dn_w RN k) o i *
                        nth (b * NI + i) (cur_out RN (undelayed c) (shifted (undelayed c) p' (kk o i))) 0)
      + bias_at (dn_b RN k) o.
Proof.
  intros Hg. destruct (dense_delayed_forward_is_shift kk Hg) as (s' & out & E & _ & _ & Hv).
  exists s', out. split; [exact E|]. intros b o Hbb Ho. rewrite (Hv b o Hbb Ho). f_equal.
  apply ConnProofs.Rsum_ext. intros i Hi. f_equal. apply value_ago_is_undelayed_on_shifted.
Qed.

(* ---- one common delay of K steps: the undelayed CONNECTION on the history shifted by K steps ---- *)
Theorem dense_homogeneous_delay_eq_undelayed_connection (K : nat) (s0 : synR) (q : pastR) x0 inj0 :
  (forall o i, (o < NO)%nat -> (i < NI)%nat -> on_grid_delay c (mat_at d o i) K) ->
  shifted (undelayed c) p' K = (x0, inj0) :: q ->          (* the undelayed copy has seen q and now receives the shifted input *)
  Inv RN (undelayed c) s0 q ->
  exists s' s0' out,
    dense_forward RN k c s xsh xs inj = (s', SOk (B :: dn_out RN k, out)) /\
    dense_forward RN (dense_no_delay k) (undelayed c) s0 xsh x0 inj0 = (s0', SOk (B :: dn_out RN k, out)).
Proof.
  intros Hg Hsh I0.
  destruct (dense_delayed_forward_is_shift (fun _ _ => K) Hg) as (s' & out & E & _ & Hl & Hv).
  assert (Hx0 : entry_ok RN (undelayed c) (x0, inj0)).
  { pose proof (shifted_entry_ok c p' K) as H. rewrite Hsh in H.
    assert (Hp' : Forall (entry_ok RN c) p') by (constructor; [exact Hx|exact (inv_p _ _ _ _ I)]).
    specialize (H Hp'). inversion H; assumption. }
  destruct (dense_undelayed_forward (dense_no_delay k) (undelayed c) s0 q I0 Hshape HW Hb HO
              xsh x0 inj0 Hxsh Hx0 eq_refl) as (s0' & out0 & E0 & _ & Hl0 & Hv0).
  exists s', s0', out. split; [exact E|]. rewrite E0. f_equal. f_equal. f_equal.
  change (dn_O RN (dense_no_delay k)) with NO in *. change (dn_I RN (dense_no_delay k)) with NI in *.
  change (dn_B RN (dense_no_delay k)) with B in *. change (dn_w RN (dense_no_delay k)) with (dn_w RN k) in *.
  change (dn_b RN (dense_no_delay k)) with (dn_b RN k) in *.
  apply (nth_ext _ _ 0 0).
  - change (T RN) with R in *. lia.
  - intros n Hn.
    assert (Hn' : (n < B * NO)%nat) by (change (T RN) with R in *; lia).
    assert (HOp : NO <> 0%nat) by lia.
    pose proof (Nat.div_mod n NO HOp) as Hdm. pose proof (Nat.mod_upper_bound n NO HOp) as Hm.
    assert (Hq : (n / NO < B)%nat) by (apply Nat.div_lt_upper_bound; lia).
    assert (En : n = (n / NO * NO + n mod NO)%nat) by lia. clear Hdm.
    set (bq := (n / NO)%nat) in *. set (om := (n mod NO)%nat) in *. clearbody bq om. subst n.
    etransitivity; [exact (Hv0 _ _ Hq Hm)|]. symmetry. etransitivity; [exact (Hv _ _ Hq Hm)|]. f_equal.
    apply ConnProofs.Rsum_ext. intros i Hi. f_equal.
    etransitivity; [apply value_ago_is_undelayed_on_shifted|]. rewrite Hsh. reflexivity.
Qed.

(* ---- a delay of 0 is indistinguishable from no delay ---- *)
Theorem dense_delay_zero_is_undelayed (s0 : synR) :
  (forall o i, (o < NO)%nat -> (i < NI)%nat -> 0 <= mat_at d o i <= cdelay RN c /\ Rabs (mat_at d o i) <= ctol RN c) ->
  Inv RN (undelayed c) s0 p ->                                (* an undelayed copy with the same history *)
  exists s' s0' out,
    dense_forward RN k c s xsh xs inj = (s', SOk (B :: dn_out RN k, out)) /\
    dense_forward RN (dense_no_delay k) (undelayed c) s0 xsh xs inj = (s0', SOk (B :: dn_out RN k, out)).
Proof.
  intros Hz I0. apply (dense_homogeneous_delay_eq_undelayed_connection 0%nat s0 p xs inj).
  - intros o i Ho Hi. destruct (Hz o i Ho Hi) as (Hr & Ha). split; [exact Hr|].
    cbn [INR]. replace (0 * cdt RN c - mat_at d o i) with (- mat_at d o i) by ring. rewrite Rabs_Ropp. exact Ha.
  - unfold shifted. cbn [skipn Nat.min repeat]. apply app_nil_r.
  - exact I0.
Qed.

(* ---- delays between grid points read the synapse's interpolated history ---- *)
Theorem dense_offgrid_reads_interpolated :
  (forall o i, (o < NO)%nat -> (i < NI)%nat ->
     0 <= mat_at d o i <= cdelay RN c /\ forall z, ctol RN c < Rabs (IZR z * cdt RN c - mat_at d o i)) ->
  exists s' out, dense_forward RN k c s xsh xs inj = (s', SOk (B :: dn_out RN k, out)) /\
    forall b o, (b < B)%nat -> (o < NO)%nat ->
      nth (b * NO + o) out 0 =
      Rsum NI (fun i => mat_at (dn_w RN k) o i * between_cur c p' (b * NI + i) (mat_at d o i)) + bias_at (dn_b RN k) o.
Proof.
  intros Hg.
  destruct (dense_delayed_forward k c s p I Hc Hshape HW Hb HO xsh xs inj Hxsh Hx d Hd Hdel) as (s' & out & E & I' & Hl & Hv).
  exists s', out. split; [exact E|]. intros b o Hbb Ho. rewrite (Hv b o Hbb Ho). f_equal.
  apply ConnProofs.Rsum_ext. intros i Hi. f_equal. destruct (Hg o i Ho Hi) as (Hr & Hoff).
  apply (delayed_cur_between c p' Hc _ _ Hr Hoff).
Qed.

(* ---- the learning views show the same shifted values ---- *)
Theorem dense_views_agree_with_forward (kk : nat -> nat -> nat) :
  (forall o i, (o < NO)%nat -> (i < NI)%nat -> on_grid_delay c (mat_at d o i) (kk o i)) ->
  exists s' out vc vs,
    dense_forward RN k c s xsh xs inj = (s', SOk (B :: dn_out RN k, out)) /\
    syncurrent RN c s' (has (dn_d RN k)) (dense_selector RN k) = SOk ([B; NI; NO], vc) /\
    synspike RN c s' (has (dn_d RN k)) (dense_selector RN k) = SOk ([B; NI; NO], vs) /\
    (forall b i o, (b < B)%nat -> (i < NI)%nat -> (o < NO)%nat ->
       nth ((b * NI + i) * NO + o) vc 0 = value_ago c p' (kk o i) (b * NI + i) /\
       nth ((b * NI + i) * NO + o) vs 0 = spike_ago c p' (kk o i) (b * NI + i)) /\
    (* forward is the contraction of the weights with the syncurrent view *)
    (forall b o, (b < B)%nat -> (o < NO)%nat ->
       nth (b * NO + o) out 0 =
       Rsum NI (fun i => mat_at (dn_w RN k) o i * nth ((b * NI + i) * NO + o) vc 0) + bias_at (dn_b RN k) o).
Proof.
  intros Hg.
  destruct (dense_delayed_forward_is_shift kk Hg) as (s' & out & E & I' & _ & Hv).
  destruct (dense_views_delayed k c s' p' I' Hc Hshape HO d Hd Hdel) as (vc & vs & Ec & Es & Hvv).
  exists s', out, vc, vs. split; [exact E|]. split; [exact Ec|]. split; [exact Es|].
  assert (Hent : forall b i o, (b < B)%nat -> (i < NI)%nat -> (o < NO)%nat ->
       nth ((b * NI + i) * NO + o) vc 0 = value_ago c p' (kk o i) (b * NI + i) /\
       nth ((b * NI + i) * NO + o) vs 0 = spike_ago c p' (kk o i) (b * NI + i)).
  { intros b i o Hbb Hi Ho. destruct (Hvv b i o Hbb Hi Ho) as (H1 & H2). rewrite H1, H2. split.
    - apply (delayed_cur_on_grid c p' Hc). apply Hg; assumption.
    - apply (delayed_spk_on_grid c p' Hc). apply Hg; assumption. }
  split; [exact Hent|]. intros b o Hbb Ho. rewrite (Hv b o Hbb Ho). f_equal.
  apply ConnProofs.Rsum_ext. intros i Hi. f_equal. symmetry. apply (Hent b i o Hbb Hi Ho).
Qed.
End DenseShift.

(* ==================================================================== LinearLateral *)
(* LinearLateral.forward = LinearDense.forward on the masked parameters (C05: after ANY sequence of weight / delay
   assignments and updater applications the diagonals are zero): no neuron receives its own delayed current. *)
Section Lateral.
Variable l : Conn.lat RN.
Variable c : cfgR.
Variable s : synR.
Variable p : pastR.
Hypothesis I : Inv RN c s p.
Hypothesis Hc : cfg_ok c.
Notation B := (Conn.l_B RN l).
Notation n := (Conn.l_n RN l).
Hypothesis Hshape : cshape RN c = [B; n].
Hypothesis HW : is_mat n n (Conn.l_w RN l).
Hypothesis Hb : bias_ok n (Conn.l_b RN l).
Hypothesis Hn : (0 < n)%nat.
Hypothesis Hinv : ConnSpec.lat_inv l.
Variables (xsh : list nat) (xs : list R) (inj : list (list R)).
Hypothesis Hxsh : Conn.flat_shape xsh = [B; n].
Hypothesis Hx : entry_ok RN c (xs, inj).
Notation p' := ((xs, inj) :: p).
Variable d : list (list R).
Hypothesis Hd : Conn.l_d RN l = Some d.
Hypothesis Hdel : cdelay RN c <> 0.

Lemma Rsum_skip m (f : nat -> R) o : (o < m)%nat -> f o = 0 ->
  Rsum m f = Rsum m (fun i => if (i =? o)%nat then 0 else f i).
Proof.
  intros Ho Hf. apply ConnProofs.Rsum_ext. intros i Hi. destruct (Nat.eqb_spec i o) as [->|]; [exact Hf|reflexivity].
Qed.

Theorem lateral_delayed_forward_is_shift (kk : nat -> nat -> nat) :
  (forall o i, (o < n)%nat -> (i < n)%nat -> on_grid_delay c (mat_at d o i) (kk o i)) ->
  exists s' out, dense_forward RN (lat_dense RN l) c s xsh xs inj = (s', SOk (B :: Conn.l_shape RN l, out)) /\
    Inv RN c s' p' /\ length out = (B * n)%nat /\
    forall b o, (b < B)%nat -> (o < n)%nat ->
      nth (b * n + o) out 0 =
      Rsum n (fun i => if (i =? o)%nat then 0 else mat_at (Conn.l_w RN l) o i * value_ago c p' (kk o i) (b * n + i))
      + bias_at (Conn.l_b RN l) o.
Proof.
  intros Hg.
  destruct (dense_delayed_forward_is_shift (lat_dense RN l) c s p I Hc Hshape HW Hb Hn xsh xs inj Hxsh Hx d Hd Hdel kk Hg)
    as (s' & out & E & I' & Hl & Hv).
  exists s', out. split; [exact E|]. split; [exact I'|]. split; [exact Hl|]. intros b o Hbb Ho.
  etransitivity; [exact (Hv b o Hbb Ho)|]. f_equal.
  apply Rsum_skip; [exact Ho|].
  destruct Hinv as (Hdiag & _). cbn [lat_dense dn_w]. rewrite (Hdiag o). ring.
Qed.

(* the remaining statements are LinearDense's, read on the masked parameters *)
Theorem lateral_delayed_eq_undelayed_on_shifted (kk : nat -> nat -> nat) :
  (forall o i, (o < n)%nat -> (i < n)%nat -> on_grid_delay c (mat_at d o i) (kk o i)) ->
  exists s' out, dense_forward RN (lat_dense RN l) c s xsh xs inj = (s', SOk (B :: Conn.l_shape RN l, out)) /\
    forall b o, (b < B)%nat -> (o < n)%nat ->
      nth (b * n + o) out 0 =
      Rsum n (fun i => mat_at (Conn.l_w RN l) o i *
                       nth (b * n + i) (cur_out RN (undelayed c) (shifted (undelayed c) p' (kk o i))) 0)
      + bias_at (Conn.l_b RN l) o.
Proof. exact (dense_delayed_eq_undelayed_on_shifted (lat_dense RN l) c s p I Hc Hshape HW Hb Hn xsh xs inj Hxsh Hx d Hd Hdel kk). Qed.

Theorem lateral_delay_zero_is_undelayed (s0 : synR) :
  (forall o i, (o < n)%nat -> (i < n)%nat -> 0 <= mat_at d o i <= cdelay RN c /\ Rabs (mat_at d o i) <= ctol RN c) ->
  Inv RN (undelayed c) s0 p ->
  exists s' s0' out,
    dense_forward RN (lat_dense RN l) c s xsh xs inj = (s', SOk (B :: Conn.l_shape RN l, out)) /\
    dense_forward RN (dense_no_delay (lat_dense RN l)) (undelayed c) s0 xsh xs inj = (s0', SOk (B :: Conn.l_shape RN l, out)).
Proof. exact (dense_delay_zero_is_undelayed (lat_dense RN l) c s p I Hc Hshape HW Hb Hn xsh xs inj Hxsh Hx d Hd Hdel s0). Qed.

Theorem lateral_offgrid_reads_interpolated :
  (forall o i, (o < n)%nat -> (i < n)%nat ->
     0 <= mat_at d o i <= cdelay RN c /\ forall z, ctol RN c < Rabs (IZR z * cdt RN c - mat_at d o i)) ->
  exists s' out, dense_forward RN (lat_dense RN l) c s xsh xs inj = (s', SOk (B :: Conn.l_shape RN l, out)) /\
    forall b o, (b < B)%nat -> (o < n)%nat ->
      nth (b * n + o) out 0 =
      Rsum n (fun i => mat_at (Conn.l_w RN l) o i * between_cur c p' (b * n + i) (mat_at d o i)) + bias_at (Conn.l_b RN l) o.
Proof. exact (dense_offgrid_reads_interpolated (lat_dense RN l) c s p I Hc Hshape HW Hb Hn xsh xs inj Hxsh Hx d Hd Hdel). Qed.

Theorem lateral_views_agree_with_forward (kk : nat -> nat -> nat) :
  (forall o i, (o < n)%nat -> (i < n)%nat -> on_grid_delay c (mat_at d o i) (kk o i)) ->
  exists s' out vc vs,
    dense_forward RN (lat_dense RN l) c s xsh xs inj = (s', SOk (B :: Conn.l_shape RN l, out)) /\
    syncurrent RN c s' (has (Conn.l_d RN l)) (dense_selector RN (lat_dense RN l)) = SOk ([B; n; n], vc) /\
    synspike RN c s' (has (Conn.l_d RN l)) (dense_selector RN (lat_dense RN l)) = SOk ([B; n; n], vs) /\
    (forall b i o, (b < B)%nat -> (i < n)%nat -> (o < n)%nat ->
       nth ((b * n + i) * n + o) vc 0 = value_ago c p' (kk o i) (b * n + i) /\
       nth ((b * n + i) * n + o) vs 0 = spike_ago c p' (kk o i) (b * n + i)) /\
    (forall b o, (b < B)%nat -> (o < n)%nat ->
       nth (b * n + o) out 0 =
       Rsum n (fun i => mat_at (Conn.l_w RN l) o i * nth ((b * n + i) * n + o) vc 0) + bias_at (Conn.l_b RN l) o).
Proof. exact (dense_views_agree_with_forward (lat_dense RN l) c s p I Hc Hshape HW Hb Hn xsh xs inj Hxsh Hx d Hd Hdel kk). Qed.

(* the masked delay tensor has a zero diagonal as well (the self-delay is never used) *)
Theorem lateral_self_delay_zero o : mat_at d o o = 0.
Proof. destruct Hinv as (_ & H). rewrite Hd in H. apply H. Qed.
End Lateral.
