(* Executable (binary64) instance of the C06 model for the correspondence check: one constructor per
   connection class, operations as data, exact serialisation of every output.  No theorem depends on this file. *)
From Coq Require Import List ZArith Bool Arith PrimFloat.
From Inferno Require Import Base.Num Base.NumF Gen.Infra Gen.Interpolation C01.Ring C04.Synapse C04.SynapseExec C06.Delay.
From Inferno Require C05.Conn.
Import ListNotations.

Definition ser_view (v : view FN) : tree := Nd [ser_shape (fst v); ser_list ser_float (snd v)].
Definition ser_bview (v : view FN) : tree := Nd [ser_shape (fst v); ser_list ser_b (snd v)].
Definition ser_cout (o : cout FN) : tree :=
  match o with
  | COUnit _ => Nd [L 0]
  | COFloat _ v => Nd [L 1; ser_view v]
  | COBool _ v => Nd [L 2; ser_bview v]
  | COErr _ e => Nd [L 3; ser_err e]
  end%Z.

Definition run_conn (c : cfg FN) (k : conn FN) (ops : list (cop FN)) : tree :=
  let '(_, outs) := crun FN c (k, init FN c) ops in
  Nd [ser_nat (recordsz FN (cdt FN c) (cdelay FN c)); ser_list ser_cout outs].

Definition prodn := Conn.prodn.

(* delay : the constructor's `delay` argument (None = no delay_ parameter); d : the delay tensor assigned afterwards *)
Definition dense_case (sp : sparams FN) (dt : float) (delay : option float) (B : nat) (ins outs : list nat)
           (w : list (list float)) (b : option (list float)) (d : list (list float)) (ops : list (cop FN)) : tree :=
  let c := conn_cfg FN sp [B; prodn ins] dt delay in
  run_conn c (CDense FN (mkDense FN ins outs B w b (match delay with Some _ => Some d | None => None end))) ops.

Definition direct_case (sp : sparams FN) (dt : float) (delay : option float) (B : nat) (sh : list nat)
           (w : list float) (b : option (list float)) (d : list float) (ops : list (cop FN)) : tree :=
  let c := conn_cfg FN sp [B; prodn sh] dt delay in
  run_conn c (CDirect FN (mkDirect FN sh B w b (match delay with Some _ => Some d | None => None end))) ops.

(* LinearLateral: constructor (masks the initial values), then `weight = w`, `delay = d` through the masked setters *)
Definition lateral_case (sp : sparams FN) (dt : float) (delay : option float) (B : nat) (sh : list nat)
           (w : list (list float)) (b : option (list float)) (d : list (list float)) (ops : list (cop FN)) : tree :=
  let c := conn_cfg FN sp [B; prodn sh] dt delay in
  match Conn.lat_ctor FN (map Z.of_nat sh) (Z.of_nat B) w (match delay with Some _ => true | None => false end) None b with
  | Conn.Err _ => Nd [L 9%Z]
  | Conn.Ok l0 =>
      let l := Conn.lat_set_delay FN (Conn.lat_set_weight FN l0 (Conn.VMat FN w)) (Conn.VMat FN d) in
      run_conn c (CLateral FN l) ops
  end.

Definition conv_case (sp : sparams FN) (dt : float) (delay : option float) (B : nat) (g : Conn.geom)
           (w : kernel4 FN) (b : option (list float)) (d : kernel4 FN) (ops : list (cop FN)) : tree :=
  let k := mkConv FN g B w b (match delay with Some _ => Some d | None => None end) in
  let c := conn_cfg FN sp [B; cv_N FN k; cv_L FN k] dt delay in
  run_conn c (CConv FN k) ops.
