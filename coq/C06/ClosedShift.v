(* C06, part 9 (reals): the shift theorems instantiated
     - for the four synapse classes: the shifted value is the documented impulse-response sum over the inputs OLDER than
       the delay (C04 closed forms), so the delayed output is a sum over synapses and past spikes;
     - between grid points for the exponential classes: the interpolation is the exact continuous-time response, i.e. a
       delay that is not a multiple of dt is STILL a pure time shift of the (continuous) current;
     - for every state reachable from the constructor (RunProofs.crun_inv_init): the flagship statement without the
       invariant as a hypothesis. *)
From Coq Require Import List ZArith Bool Arith Lia Reals Lra.
From Flocq Require Import Core.Raux Core.Generic_fmt.
From Inferno Require Import Base.Num Base.NumR Gen.Infra Gen.Interpolation C01.Ring C01.RingProofs
  C04.Synapse C04.HistProofs C04.ClosedForms C04.SelectProofs C04.SynapseProofs
  C06.Delay C06.DelaySpec C06.ReadProofs C06.ViewProofs C06.DenseProofs C06.DenseShift C06.RunProofs.
From Inferno Require C05.Conn C05.ConnSpec C05.ConnProofs.
Import ListNotations.
Open Scope R_scope.

(* the documented response of each synapse class to the inputs older than k steps, for synapse element e *)
Definition shifted_response (c : cfgR) (p : pastR) (k e : nat) : R :=
  match ckind RN c with
  | KDelta => isum (resp_delta (cQ RN c) (cdt RN c)) (skipn k (btrain p e))
  | KDeltaPlus => isum (resp_delta (cQ RN c) (cdt RN c)) (skipn k (train p e)) + injected (skipn k p) e
  | KSingleExp => isum (resp_exp (cQ RN c / ctau RN c) (cdt RN c) (ctau RN c)) (skipn k (train p e))
  | KDoubleExp => isum (resp_dexp (cQ RN c) (cdt RN c) (ctau RN c) (ctr RN c)) (skipn k (train p e))
  end.

Lemma value_ago_shifted_response (c : cfgR) (p : pastR) k e : Forall (entry_ok RN c) p -> (e < nel (cshape RN c))%nat ->
  value_ago c p k e = shifted_response c p k e.
Proof. intros Hp He. unfold shifted_response. apply value_ago_closed_form; assumption. Qed.

(* ---- four synapse classes x LinearDense: output = sum over synapses of W * (impulse responses of the spikes older than the delay) ---- *)
Section DenseClosed.
Variable k : dense RN.
Variable c : cfgR.
Variable s : synR.
Variable p : pastR.
Hypothesis I : Inv RN c s p.
Hypothesis Hc : cfg_ok c.
Notation B := (dn_B RN k).
Notation NI := (dn_I RN k).
Notation NO := (dn_O RN k).
Hypothesis Hshape : cshape RN c = [B; NI].
Hypothesis HW : is_mat NO NI (dn_w RN k).
Hypothesis Hb : bias_ok NO (dn_b RN k).
Hypothesis HO : (0 < NO)%nat.
Variables (xsh : list nat) (xs : list R) (inj : list (list R)).
Hypothesis Hxsh : Conn.flat_shape xsh = [B; NI].
Hypothesis Hx : entry_ok RN c (xs, inj).
Notation p' := ((xs, inj) :: p).
Variable d : list (list R).
Hypothesis Hd : dn_d RN k = Some d.
Hypothesis Hdel : cdelay RN c <> 0.

Theorem dense_delayed_forward_closed_form (kk : nat -> nat -> nat) :
  (forall o i, (o < NO)%nat -> (i < NI)%nat -> on_grid_delay c (mat_at d o i) (kk o i)) ->
  exists s' out, dense_forward RN k c s xsh xs inj = (s', SOk (B :: dn_out RN k, out)) /\
    forall b o, (b < B)%nat -> (o < NO)%nat ->
      nth (b * NO + o) out 0 =
      Rsum NI (fun i => mat_at (dn_w RN k) o i * shifted_response c p' (kk o i) (b * NI + i)) + bias_at (dn_b RN k) o.
Proof.
  intros Hg.
  destruct (dense_delayed_forward_is_shift k c s p I Hc Hshape HW Hb HO xsh xs inj Hxsh Hx d Hd Hdel kk Hg)
    as (s' & out & E & I' & _ & Hv).
  exists s', out. split; [exact E|]. intros b o Hbb Ho. rewrite (Hv b o Hbb Ho). f_equal.
  apply ConnProofs.Rsum_ext. intros i Hi. f_equal. apply value_ago_shifted_response.
  - exact (inv_p _ _ _ _ I').
  - rewrite Hshape, nel2. nia.
Qed.
End DenseClosed.

(* ---- delays between grid points, exponential classes: the exact continuous-time shift ---- *)
(* time elapsed between the older bracketing step and the delayed instant *)
Definition since_older (c : cfgR) (t : R) : R := IZR (Zceil (t / cdt RN c)) * cdt RN c - t.

Theorem between_cur_single_exp_is_continuous_shift (c : cfgR) (p : pastR) e t : ckind RN c = KSingleExp ->
  Forall (entry_ok RN c) p -> (e < nel (cshape RN c))%nat ->
  between_cur c p e t =
  isum (fun j => cQ RN c / ctau RN c * Rexp (- (INR j * cdt RN c + since_older c t) / ctau RN c))
       (skipn (Z.to_nat (Zceil (t / cdt RN c))) (train p e)).
Proof.
  intros Ek Hp He. unfold between_cur. rewrite Ek.
  apply (single_exp_between_steps_exact c p _ e (since_older c t) Ek Hp He).
Qed.
Theorem between_cur_double_exp_is_continuous_shift (c : cfgR) (p : pastR) e t : ckind RN c = KDoubleExp ->
  Forall (entry_ok RN c) p -> (e < nel (cshape RN c))%nat ->
  between_cur c p e t =
  isum (fun j => cQ RN c / (ctau RN c - ctr RN c) *
                 (Rexp (- (INR j * cdt RN c + since_older c t) / ctau RN c) - Rexp (- (INR j * cdt RN c + since_older c t) / ctr RN c)))
       (skipn (Z.to_nat (Zceil (t / cdt RN c))) (train p e)).
Proof.
  intros Ek Hp He. unfold between_cur. rewrite Ek.
  apply (double_exp_between_steps_exact c p _ e (since_older c t) Ek Hp He).
Qed.
(* the age of input j (j steps before the older bracketing step) at the delayed instant is exactly j*dt + since:
   together with ceil(t/dt)*dt - since = t this says the current is evaluated at continuous time (now - t) *)
Lemma since_older_spec (c : cfgR) t : IZR (Zceil (t / cdt RN c)) * cdt RN c - since_older c t = t.
Proof. unfold since_older. ring. Qed.

(* ---- the flagship statement for every connection state reachable from the constructor ---- *)
Section Reachable.
Variable k0 : dense RN.                 (* the LinearDense as constructed *)
Variable c : cfgR.
Variable ops : list (cop RN).           (* any sequence of forward steps, view reads, selector reads, delay assignments, clears *)
Hypothesis Hc : cfg_ok c.
Hypothesis Hops : cops_ok RN (CDense RN k0) ops.
Let st := fst (crun RN c (CDense RN k0, init RN c) ops).
Let p := conn_history_run RN c (CDense RN k0) [] ops.

Theorem dense_reachable_forward_is_shift (k : dense RN) (d : list (list R)) (kk : nat -> nat -> nat) xsh xs inj :
  (* k : the connection's parameters now (weights / delays possibly re-assigned since construction) *)
  cshape RN c = [dn_B RN k; dn_I RN k] -> is_mat (dn_O RN k) (dn_I RN k) (dn_w RN k) -> bias_ok (dn_O RN k) (dn_b RN k) ->
  (0 < dn_O RN k)%nat -> Conn.flat_shape xsh = [dn_B RN k; dn_I RN k] -> entry_ok RN c (xs, inj) ->
  dn_d RN k = Some d -> cdelay RN c <> 0 ->
  (forall o i, (o < dn_O RN k)%nat -> (i < dn_I RN k)%nat -> on_grid_delay c (mat_at d o i) (kk o i)) ->
  exists s' out, dense_forward RN k c (snd st) xsh xs inj = (s', SOk (dn_B RN k :: dn_out RN k, out)) /\
    forall b o, (b < dn_B RN k)%nat -> (o < dn_O RN k)%nat ->
      nth (b * dn_O RN k + o) out 0 =
      Rsum (dn_I RN k) (fun i => mat_at (dn_w RN k) o i * value_ago c ((xs, inj) :: p) (kk o i) (b * dn_I RN k + i))
      + bias_at (dn_b RN k) o.
Proof.
  intros Hshape HW Hb HO Hxsh Hx Hd Hdel Hg.
  pose proof (crun_inv_init RN c (CDense RN k0) ops Hops) as I. fold st p in I.
  destruct (dense_delayed_forward_is_shift k c (snd st) p I Hc Hshape HW Hb HO xsh xs inj Hxsh Hx d Hd Hdel kk Hg)
    as (s' & out & E & _ & _ & Hv).
  exists s', out. split; [exact E|exact Hv].
Qed.
End Reachable.
