(* C06, part 9 (reals): the shift theorems instantiated
     - for the four synapse classes: the shifted value is the documented impulse-response sum over the inputs OLDER than
       the delay (C04 closed forms), so the delayed output is a sum over synapses and past spikes;
     - between grid points for the exponential classes: the interpolation is the exact continuous-time response, i.e. a
       delay that is not a multiple of dt is STILL a pure time shift of the (continuous) current;
     - for every state reachable from the constructor (RunProofs.crun_inv_init): the flagship statement without the
       invariant as a hypothesis. *)
From Coq Require Import List ZArith Bool Arith Lia Reals Lra.
From Flocq Require Import Core.Raux Core.Generic_fmt.
From Inferno Require Import Base.Num Base.NumR Gen.Infra Gen.Interpolation C01.Ring C01.RingProofs
  C04.Synapse C04.HistProofs C04.ClosedForms C04.SelectProofs C04.SynapseProofs
  C06.Delay C06.DelaySpec C06.ReadProofs C06.ViewProofs C06.DenseProofs C06.DenseShift C06.RunProofs.
From Inferno Require C05.Conn C05.ConnSpec C05.ConnProofs.
Import ListNotations.
Open Scope R_scope.


Lemma value_ago_shifted_response (c : cfgR) (p : pastR) k e : Forall (entry_ok RN c) p -> (e < nel (cshape RN c))%nat ->
  value_ago c p k e = shifted_response c p k e.
Proof. intros Hp He. unfold shifted_response. apply value_ago_closed_form; assumption. Qed.

(* ---- four synapse classes x LinearDense: output = sum over synapses of W * (impulse responses of the spikes older than the delay) ---- *)
Section DenseClosed.
Variable k : dense RN.
Variable c : cfgR.
Variable s : synR.
Variable p : pastR.
Hypothesis I : Inv RN c s p.
Hypothesis Hc : cfg_ok c.
Notation B := (dn_B RN k).
Notation NI := (dn_I RN k).
Notation NO := (dn_O RN k).
Hypothesis Hshape : cshape RN c = [B; NI].
Hypothesis HW : is_mat NO NI (dn_w RN k).
Hypothesis Hb : bias_ok NO (dn_b RN k).
Hypothesis HO : (0 < NO)%nat.
Variables (xsh : list nat) (xs : list R) (inj : list (list R)).
Hypothesis Hxsh : Conn.flat_shape xsh = [B; NI].
Hypothesis Hx : entry_ok RN c (xs, inj).
Notation p' := ((xs, inj) :: p).
Variable d : list (list R).
Hypothesis Hd : dn_d RN k = Some d.
Hypothesis Hdel : cdelay RN c <> 0.

Theorem dense_delayed_forward_closed_form (kk : nat -> nat -> nat) :
  (forall o i, (o < NO)%nat -> (i < NI)%nat -> on_grid_delay c (mat_at d o i) (kk o i)) ->
  exists s' out, dense_forward RN k c s xsh xs inj = (s', SOk (B :: dn_out RN k, out)) /\
    forall b o, (b < B)%nat -> (o < NO)%nat ->
      nth (b * NO + o) out 0 =
      Rsum NI (fun i => mat_at (dn_w RN k) o i * shifted_response c p' (kk o i) (b * NI + i)) + bias_at (dn_b RN k) o.
Proof.
  intros Hg.
  destruct (dense_delayed_forward_is_shift k c s p I Hc Hshape HW Hb HO xsh xs inj Hxsh Hx d Hd Hdel kk Hg)
    as (s' & out & E & I' & _ & Hv).
  exists s', out. split; [exact E|]. intros b o Hbb Ho. rewrite (Hv b o Hbb Ho). f_equal.
  apply ConnProofs.Rsum_ext. intros i Hi. f_equal. apply value_ago_shifted_response.
  - exact (inv_p _ _ _ _ I').
  - rewrite Hshape, nel2. nia.
Qed.
End DenseClosed.

(* ---- delays between grid points, exponential classes: the exact continuous-time shift ---- *)

Theorem between_cur_single_exp_is_continuous_shift (c : cfgR) (p : pastR) e t : ckind RN c = KSingleExp ->
  Forall (entry_ok RN c) p -> (e < nel (cshape RN c))%nat ->
  between_cur c p e t =
  isum (fun j => cQ RN c / ctau RN c * Rexp (- (INR j * cdt RN c + since_older c t) / ctau RN c))
       (skipn (Z.to_nat (Zceil (t / cdt RN c))) (train p e)).
Proof.
  intros Ek Hp He. unfold between_cur. rewrite Ek.
  apply (single_exp_between_steps_exact c p _ e (since_older c t) Ek Hp He).
Qed.
Theorem between_cur_double_exp_is_continuous_shift (c : cfgR) (p : pastR) e t : ckind RN c = KDoubleExp ->
  Forall (entry_ok RN c) p -> (e < nel (cshape RN c))%nat ->
  between_cur c p e t =
  isum (fun j => cQ RN c / (ctau RN c - ctr RN c) *
                 (Rexp (- (INR j * cdt RN c + since_older c t) / ctau RN c) - Rexp (- (INR j * cdt RN c + since_older c t) / ctr RN c)))
       (skipn (Z.to_nat (Zceil (t / cdt RN c))) (train p e)).
Proof.
  intros Ek Hp He. unfold between_cur. rewrite Ek.
  apply (double_exp_between_steps_exact c p _ e (since_older c t) Ek Hp He).
Qed.
(* the age of input j (j steps before the older bracketing step) at the delayed instant is exactly j*dt + since:
   together with ceil(t/dt)*dt - since = t this says the current is evaluated at continuous time (now - t) *)
Lemma since_older_spec (c : cfgR) t : IZR (Zceil (t / cdt RN c)) * cdt RN c - since_older c t = t.
Proof. unfold since_older. ring. Qed.

(* ---- the flagship statement for every connection state reachable from the constructor ---- *)
Section Reachable.
Variable k0 : dense RN.                 (* the LinearDense as constructed *)
Variable c : cfgR.
Variable ops : list (cop RN).           (* any sequence of forward steps, view reads, selector reads, delay assignments, clears *)
Hypothesis Hc : cfg_ok c.
Hypothesis Hops : cops_ok RN (CDense RN k0) ops.
Let st := fst (crun RN c (CDense RN k0, init RN c) ops).
Let p := conn_history_run RN c (CDense RN k0) [] ops.

Theorem dense_reachable_forward_is_shift (k : dense RN) (d : list (list R)) (kk : nat -> nat -> nat) xsh xs inj :
  (* k : the connection's parameters now (weights / delays possibly re-assigned since construction) *)
  cshape RN c = [dn_B RN k; dn_I RN k] -> is_mat (dn_O RN k) (dn_I RN k) (dn_w RN k) -> bias_ok (dn_O RN k) (dn_b RN k) ->
  (0 < dn_O RN k)%nat -> Conn.flat_shape xsh = [dn_B RN k; dn_I RN k] -> entry_ok RN c (xs, inj) ->
  dn_d RN k = Some d -> cdelay RN c <> 0 ->
  (forall o i, (o < dn_O RN k)%nat -> (i < dn_I RN k)%nat -> on_grid_delay c (mat_at d o i) (kk o i)) ->
  exists s' out, dense_forward RN k c (snd st) xsh xs inj = (s', SOk (dn_B RN k :: dn_out RN k, out)) /\
    forall b o, (b < dn_B RN k)%nat -> (o < dn_O RN k)%nat ->
      nth (b * dn_O RN k + o) out 0 =
      Rsum (dn_I RN k) (fun i => mat_at (dn_w RN k) o i * value_ago c ((xs, inj) :: p) (kk o i) (b * dn_I RN k + i))
      + bias_at (dn_b RN k) o.
Proof.
  intros Hshape HW Hb HO Hxsh Hx Hd Hdel Hg.
  pose proof (crun_inv_init RN c (CDense RN k0) ops Hops) as I. fold st p in I.
  destruct (dense_delayed_forward_is_shift k c (snd st) p I Hc Hshape HW Hb HO xsh xs inj Hxsh Hx d Hd Hdel kk Hg)
    as (s' & out & E & _ & _ & Hv).
  exists s', out. split; [exact E|exact Hv].
Qed.
End Reachable.

(* ---- heterogeneous delays, relational form at the level of CONNECTIONS ----
   Split the weights by delay: W_K[o,i] = W[o,i] where the synapse's delay is K steps, 0 elsewhere.  The delayed connection's
   output is the bias plus the sum over K of the outputs of the UNDELAYED, unbiased connection with weights W_K on the input
   history shifted by K steps.  (This is the decomposition the direct oracle evaluates with real undelayed copies.) *)
Lemma Rsum_indicator n k a : (k < n)%nat -> Rsum n (fun K => if (K =? k)%nat then a else 0) = a.
Proof.
  induction n as [|n IH]; intros Hk; [lia|]. cbn [ConnSpec.Rsum].
  destruct (Nat.eqb_spec n k) as [->|Hne].
  - rewrite ConnProofs.Rsum_zero; [ring|]. intros i Hi. destruct (Nat.eqb_spec i k); [lia|reflexivity].
  - rewrite IH by lia. ring.
Qed.
Lemma Rsum_swap n m (f : nat -> nat -> R) : Rsum n (fun a => Rsum m (fun b => f a b)) = Rsum m (fun b => Rsum n (fun a => f a b)).
Proof.
  induction n as [|n IH]; cbn [ConnSpec.Rsum].
  - symmetry. apply ConnProofs.Rsum_zero. intros; reflexivity.
  - rewrite IH, <- ConnProofs.Rsum_plus. reflexivity.
Qed.


Theorem dense_delayed_eq_sum_of_undelayed_connections
  (k : dense RN) (c : cfgR) (s : synR) (p : pastR) xsh xs inj d (kk : nat -> nat -> nat) (Kmax : nat) :
  Inv RN c s p -> cfg_ok c -> cshape RN c = [dn_B RN k; dn_I RN k] ->
  is_mat (dn_O RN k) (dn_I RN k) (dn_w RN k) -> bias_ok (dn_O RN k) (dn_b RN k) -> (0 < dn_O RN k)%nat ->
  Conn.flat_shape xsh = [dn_B RN k; dn_I RN k] -> entry_ok RN c (xs, inj) ->
  dn_d RN k = Some d -> cdelay RN c <> 0 ->
  (forall o i, (o < dn_O RN k)%nat -> (i < dn_I RN k)%nat -> on_grid_delay c (mat_at d o i) (kk o i) /\ (kk o i <= Kmax)%nat) ->
  exists s' out, dense_forward RN k c s xsh xs inj = (s', SOk (dn_B RN k :: dn_out RN k, out)) /\
    forall b o, (b < dn_B RN k)%nat -> (o < dn_O RN k)%nat ->
      nth (b * dn_O RN k + o) out 0 =
      bias_at (dn_b RN k) o +
      Rsum (S Kmax) (fun K => undelayed_part c ((xs, inj) :: p) (dn_w RN k) kk (dn_I RN k) K b o).
Proof.
  intros I Hc Hshape HW Hb HO Hxsh Hx Hd Hdel Hg.
  destruct (dense_delayed_eq_undelayed_on_shifted k c s p I Hc Hshape HW Hb HO xsh xs inj Hxsh Hx d Hd Hdel kk
              (fun o i Ho Hi => proj1 (Hg o i Ho Hi))) as (s' & out & E & Hv).
  exists s', out. split; [exact E|]. intros b o Hbb Ho. rewrite (Hv b o Hbb Ho). rewrite Rplus_comm. f_equal.
  unfold undelayed_part. rewrite Rsum_swap. apply ConnProofs.Rsum_ext. intros i Hi.
  destruct (Hg o i Ho Hi) as (_ & Hk).
  symmetry. etransitivity; [|apply (Rsum_indicator (S Kmax) (kk o i)); lia].
  apply ConnProofs.Rsum_ext. intros K HK. unfold masked_weight.
  rewrite (Nat.eqb_sym (kk o i) K). destruct (Nat.eqb_spec K (kk o i)) as [->|Hne]; [reflexivity|ring].
Qed.

(* undelayed_part is, entry by entry, the forward output of the undelayed unbiased connection with the weights W_K, run on
   the history shifted by K steps *)
Lemma masked_matrix_is_mat W kk K NO NI : is_mat NO NI (masked_matrix W kk K NO NI).
Proof.
  unfold masked_matrix. split; [rewrite map_length, seq_length; reflexivity|].
  intros r Hr. apply in_map_iff in Hr. destruct Hr as (o & <- & _). rewrite map_length, seq_length. reflexivity.
Qed.
Lemma masked_matrix_at W kk K NO NI o i : (o < NO)%nat -> (i < NI)%nat ->
  mat_at (masked_matrix W kk K NO NI) o i = masked_weight W kk K o i.
Proof.
  intros Ho Hi. unfold ConnSpec.mat_at, masked_matrix.
  rewrite (ConnProofs.nth_map_lt _ _ _ 0%nat) by (rewrite seq_length; exact Ho). rewrite seq_nth by exact Ho.
  rewrite (ConnProofs.nth_map_lt _ _ _ 0%nat) by (rewrite seq_length; exact Hi). rewrite seq_nth by exact Hi. reflexivity.
Qed.

Theorem undelayed_part_is_undelayed_forward
  (k : dense RN) (c : cfgR) (p : pastR) xsh (kk : nat -> nat -> nat) (K : nat) (s0 : synR) (q : pastR) x0 inj0 :
  cshape RN c = [dn_B RN k; dn_I RN k] -> (0 < dn_O RN k)%nat -> Conn.flat_shape xsh = [dn_B RN k; dn_I RN k] ->
  Forall (entry_ok RN c) p ->
  shifted (undelayed c) p K = (x0, inj0) :: q -> Inv RN (undelayed c) s0 q ->
  exists s0' out, dense_forward RN (dense_part k kk K) (undelayed c) s0 xsh x0 inj0 = (s0', SOk (dn_B RN k :: dn_out RN k, out)) /\
    forall b o, (b < dn_B RN k)%nat -> (o < dn_O RN k)%nat ->
      nth (b * dn_O RN k + o) out 0 = undelayed_part c p (dn_w RN k) kk (dn_I RN k) K b o.
Proof.
  intros Hshape HO Hxsh Hp Hsh I0.
  assert (Hx0 : entry_ok RN (undelayed c) (x0, inj0)).
  { pose proof (shifted_entry_ok c p K Hp) as H. rewrite Hsh in H. inversion H; assumption. }
  destruct (dense_undelayed_forward (dense_part k kk K) (undelayed c) s0 q I0 Hshape
              (masked_matrix_is_mat _ _ _ _ _) (fun bv (E : None = Some bv) => False_ind _ (eq_ind None (fun o => match o with None => True | Some _ => False end) Logic.I _ E))
              HO xsh x0 inj0 Hxsh Hx0 eq_refl) as (s0' & out & E & _ & _ & Hv).
  exists s0', out. split; [exact E|]. intros b o Hbb Ho.
  etransitivity; [exact (Hv b o Hbb Ho)|].
  change (dn_I RN (dense_part k kk K)) with (dn_I RN k). change (dn_O RN (dense_part k kk K)) with (dn_O RN k).
  change (dn_b RN (dense_part k kk K)) with (@None (list R)). cbn [ConnSpec.bias_at]. rewrite Rplus_0_r.
  unfold undelayed_part. rewrite Hsh. apply ConnProofs.Rsum_ext. intros i Hi. f_equal.
  apply masked_matrix_at; assumption.
Qed.
