(* C06, part 2 (reals): the delay-offset learning views Connection.syncurrent / Connection.synspike, for ANY selector
   layout (trailing axis of D delays per synapse element), and the index lemmas shared by the four connection classes.

     views_delayed : with a positive maximum delay both views have the selector's shape and entry (e, j) is
                     delayed_cur / delayed_spk of the history at the selector's own entry - the SAME function of the
                     history for both views, so they show the same shift;
     views_undelayed : without a delay parameter, or with maximum delay 0, they are the synapse's present current / spike. *)
From Coq Require Import List ZArith Bool Arith Lia Reals Lra.
From Flocq Require Import Core.Raux Core.Generic_fmt.
From Inferno Require Import Base.Num Base.NumR Gen.Infra Gen.Interpolation C01.Ring C01.RingProofs
  C04.Synapse C04.HistProofs C04.ClosedForms C04.SelectProofs C04.SynapseProofs C06.Delay C06.DelaySpec C06.ReadProofs.
From Inferno Require C05.Conn C05.ConnSpec C05.ConnProofs.
Import ListNotations.
Open Scope R_scope.

(* ------------------------------------------------------------------ the branch test *)
Lemma takes_delayed_true (c : cfgR) : cdelay RN c <> 0 -> takes_delayed RN c true = true.
Proof.
  intros H. unfold takes_delayed, neb. rn_simpl. cbn [andb].
  destruct (Reqb'_spec (cdelay RN c) 0); [contradiction|reflexivity].
Qed.
Lemma takes_delayed_zero (c : cfgR) h : cdelay RN c = 0 -> takes_delayed RN c h = false.
Proof.
  intros H. unfold takes_delayed, neb. rn_simpl. rewrite H.
  destruct (Reqb'_spec 0 0); [apply andb_false_r|contradiction].
Qed.
Lemma takes_delayed_noparam (c : cfgR) : takes_delayed RN c false = false.
Proof. reflexivity. Qed.

(* ------------------------------------------------------------------ the views *)
Section Views.
Variable c : cfgR.
Variable s : synR.
Variable p : pastR.
Hypothesis I : Inv RN c s p.
Hypothesis Hc : cfg_ok c.

Lemma delayed_record : cdelay RN c <> 0 -> N (spk RN s) <> 1%nat.
Proof. intros H E. apply H. apply (undelayed_iff c s p I Hc). exact E. Qed.

Theorem syncurrent_delayed D sel : cdelay RN c <> 0 ->
  exists vals, syncurrent RN c s true (cshape RN c ++ [D], sel) = SOk (cshape RN c ++ [D], vals) /\
    length vals = (nel (cshape RN c) * D)%nat /\
    forall e j, (e < nel (cshape RN c))%nat -> (j < D)%nat ->
      nth (e * D + j) vals 0 = delayed_cur c p e (nth (e * D + j) sel 0).
Proof.
  intros Hd. unfold syncurrent. rewrite (takes_delayed_true c Hd). cbn [fst snd].
  destruct (current_at_entry c s p D sel I Hc (delayed_record Hd)) as (vals & E & Hl & Hv).
  exists vals. split; [exact E|]. split; [exact Hl|]. intros e j He Hj.
  rewrite (Hv e j He Hj). apply (read_cur_is_delayed_cur c s p I Hc).
Qed.

Lemma flat_grid_length {X} (g : nat -> nat -> X) D n : forall a,
  length (flat_map (fun e => map (g e) (seq 0 D)) (seq a n)) = (n * D)%nat.
Proof. induction n as [|n IH]; intros a; cbn [seq flat_map]; [reflexivity|]. rewrite app_length, map_length, seq_length, IH. lia. Qed.

Theorem synspike_delayed D sel : cdelay RN c <> 0 ->
  exists vals, synspike RN c s true (cshape RN c ++ [D], sel) = SOk (cshape RN c ++ [D], vals) /\
    length vals = (nel (cshape RN c) * D)%nat /\
    forall e j, (e < nel (cshape RN c))%nat -> (j < D)%nat ->
      nth (e * D + j) vals 0 = delayed_spk c p e (nth (e * D + j) sel 0).
Proof.
  intros Hd. unfold synspike. rewrite (takes_delayed_true c Hd). cbn [fst snd].
  rewrite (spike_at_delayed_D c s p I Hc D sel (delayed_record Hd)).
  eexists. split; [reflexivity|]. split.
  - rewrite map_length. apply flat_grid_length.
  - intros e j He Hj.
    set (g := fun e j => read_one (spk_sel c s) (cdelay RN c) (ctol RN c) (option_map (b2t RN) (cspk_ob RN c)) e (nth (e * D + j) sel 0)).
    assert (Hlen : (e * D + j < length (flat_map (fun e => map (g e) (seq 0 D)) (seq 0 (nel (cshape RN c)))))%nat).
    { rewrite flat_grid_length. nia. }
    rewrite (nth_indep _ 0 (boolify RN 0)) by (rewrite map_length; exact Hlen).
    rewrite map_nth.
    pose proof (nth_flat_grid g 0 D j Hj (nel (cshape RN c)) 0%nat e ltac:(lia)) as H. rewrite Nat.sub_0_r in H.
    etransitivity; [apply (f_equal (boolify RN)); exact H|]. unfold g. apply (read_spk_is_delayed_spk c s p I Hc).
Qed.

(* no delay parameter, or a maximum delay of 0: the present values *)
Theorem views_undelayed h sel : takes_delayed RN c h = false ->
  syncurrent RN c s h sel = SOk (cshape RN c, cur_out RN c p) /\
  synspike RN c s h sel = SOk (cshape RN c, spike_hist RN c p 0).
Proof.
  intros E. unfold syncurrent, synspike, current_shape. rewrite E.
  rewrite (current_of_inv RN c s p I), (rshape_of_wfr _ _ _ (inv_ws _ _ _ _ I)), (rshape_of_wfr _ _ _ (inv_wc _ _ _ _ I)).
  rewrite (peek_spk c s p I). split; [destruct (ckind RN c); reflexivity|reflexivity].
Qed.
End Views.

(* ------------------------------------------------------------------ index lemmas *)
Lemma nel2 a b : nel [a; b] = (a * b)%nat.
Proof. unfold nel. cbn. lia. Qed.
Lemma nel3 a b c : nel [a; b; c] = (a * (b * c))%nat.
Proof. unfold nel. cbn. lia. Qed.

Lemma nth_nest3 (a b c : nat) (l : list R) i j k : (i < a)%nat -> (j < b)%nat -> (k < c)%nat ->
  nth k (nth j (nth i (nest3 RN a b c l) []) []) 0 = nth ((i * b + j) * c + k) l 0.
Proof.
  intros Hi Hj Hk. unfold nest3.
  rewrite (ConnProofs.nth_map_lt _ _ _ []) by (rewrite ConnProofs.chunk_length; exact Hi).
  rewrite ConnProofs.chunk_nth_nth by assumption.
  rewrite ConnProofs.chunk_nth by exact Hi.
  rewrite ConnProofs.nth_firstn_lt by nia. rewrite ConnProofs.nth_skipn'. f_equal. nia.
Qed.
Lemma nest3_length (a b c : nat) (l : list R) : length (nest3 RN a b c l) = a.
Proof. unfold nest3. rewrite map_length. apply ConnProofs.chunk_length. Qed.
Lemma nest3_row_length (a b c : nat) (l : list R) i : (i < a)%nat -> length (nth i (nest3 RN a b c l) []) = b.
Proof.
  intros Hi. unfold nest3. rewrite (ConnProofs.nth_map_lt _ _ _ []) by (rewrite ConnProofs.chunk_length; exact Hi).
  apply ConnProofs.chunk_length.
Qed.

Lemma mat_row_length rows cols (m : list (list R)) i : is_mat rows cols m -> (i < rows)%nat -> length (nth i m []) = cols.
Proof. intros (Hl & Hr) Hi. apply Hr. apply nth_In. lia. Qed.
