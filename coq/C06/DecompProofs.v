(* C06, part 11 (reals): the relational form for HETEROGENEOUS delays at the level of connections, for LinearDirect,
   LinearLateral and Conv2D (LinearDense: ClosedShift.dense_delayed_eq_sum_of_undelayed_connections).

   Split the weights by delay: W_K = W where the synapse's delay is K steps, 0 elsewhere.  Then
       delayed output = bias + sum_{K <= Kmax} (output of the UNDELAYED, unbiased connection of the same class with weights W_K,
                                                 run on the input history shifted by K steps)
   - *_delayed_eq_sum_of_undelayed_connections : the identity, with the K-th summand written as an explicit contraction (..._part)
   - *_part_is_undelayed_forward               : that contraction IS, entry by entry, the forward output of the connection
                                                 without delay parameter and without bias carrying W_K (DecompSpec.direct_part /
                                                 conv_part, DelaySpec.dense_part), from any state of its own synapse that holds
                                                 the shifted history. *)
From Coq Require Import List ZArith Bool Arith Lia Reals Lra.
From Flocq Require Import Core.Raux Core.Generic_fmt.
From Inferno Require Import Base.Num Base.NumR Gen.Infra Gen.Interpolation C01.Ring C01.RingProofs
  C04.Synapse C04.HistProofs C04.ClosedForms C04.SelectProofs C04.SynapseProofs
  C06.Delay C06.DelaySpec C06.DecompSpec C06.ReadProofs C06.ViewProofs C06.DenseProofs C06.DenseShift C06.DirectProofs
  C06.ConvProofs C06.ConvShift C06.ConvPixel C06.ClosedShift.
From Inferno Require C05.Conn C05.ConnSpec C05.ConnProofs.
Import ListNotations.
Open Scope R_scope.

Lemma bias_ok_none n : bias_ok n None.
Proof. intros bv E. discriminate. Qed.

(* ==================================================================== LinearDirect *)
Theorem direct_delayed_eq_sum_of_undelayed_connections
  (k : direct RN) (c : cfgR) (s : synR) (p : pastR) xsh xs inj d (kk : nat -> nat) (Kmax : nat) :
  Inv RN c s p -> cfg_ok c -> cshape RN c = [dr_B RN k; dr_n RN k] ->
  length (dr_w RN k) = dr_n RN k -> bias_ok (dr_n RN k) (dr_b RN k) -> (0 < dr_n RN k)%nat ->
  Conn.flat_shape xsh = [dr_B RN k; dr_n RN k] -> entry_ok RN c (xs, inj) ->
  dr_d RN k = Some d -> cdelay RN c <> 0 ->
  (forall j, (j < dr_n RN k)%nat -> on_grid_delay c (nth j d 0) (kk j) /\ (kk j <= Kmax)%nat) ->
  exists s' out, direct_forward RN k c s xsh xs inj = (s', SOk (dr_B RN k :: dr_shape RN k, out)) /\
    forall b j, (b < dr_B RN k)%nat -> (j < dr_n RN k)%nat ->
      nth (b * dr_n RN k + j) out 0 =
      bias_at (dr_b RN k) j +
      Rsum (S Kmax) (fun K => direct_undelayed_part c ((xs, inj) :: p) (dr_w RN k) kk (dr_n RN k) K b j).
Proof.
  intros I Hc Hshape HW Hb Hn Hxsh Hx Hd Hdel Hg.
  destruct (direct_delayed_eq_undelayed_on_shifted k c s p I Hc Hshape HW Hb Hn xsh xs inj Hxsh Hx d Hd Hdel kk
              (fun j Hj => proj1 (Hg j Hj))) as (s' & out & E & Hv).
  exists s', out. split; [exact E|]. intros b j Hbb Hj. rewrite (Hv b j Hbb Hj). rewrite Rplus_comm. f_equal.
  destruct (Hg j Hj) as (_ & Hk).
  symmetry. etransitivity; [|apply (Rsum_indicator (S Kmax) (kk j)); lia].
  apply ConnProofs.Rsum_ext. intros K HK. unfold direct_undelayed_part, direct_masked_weight.
  rewrite (Nat.eqb_sym (kk j) K). destruct (Nat.eqb_spec K (kk j)) as [->|Hne]; [reflexivity|ring].
Qed.

Theorem direct_part_is_undelayed_forward
  (k : direct RN) (c : cfgR) (p : pastR) xsh (kk : nat -> nat) (K : nat) (s0 : synR) (q : pastR) x0 inj0 :
  cshape RN c = [dr_B RN k; dr_n RN k] -> (0 < dr_n RN k)%nat -> Conn.flat_shape xsh = [dr_B RN k; dr_n RN k] ->
  Forall (entry_ok RN c) p ->
  shifted (undelayed c) p K = (x0, inj0) :: q -> Inv RN (undelayed c) s0 q ->
  exists s0' out, direct_forward RN (direct_part k kk K) (undelayed c) s0 xsh x0 inj0 = (s0', SOk (dr_B RN k :: dr_shape RN k, out)) /\
    forall b j, (b < dr_B RN k)%nat -> (j < dr_n RN k)%nat ->
      nth (b * dr_n RN k + j) out 0 = direct_undelayed_part c p (dr_w RN k) kk (dr_n RN k) K b j.
Proof.
  intros Hshape Hn Hxsh Hp Hsh I0.
  assert (Hx0 : entry_ok RN (undelayed c) (x0, inj0)).
  { pose proof (shifted_entry_ok c p K Hp) as H. rewrite Hsh in H. inversion H; assumption. }
  assert (HW' : length (dr_w RN (direct_part k kk K)) = dr_n RN (direct_part k kk K)).
  { cbn [direct_part dr_w]. rewrite map_length, seq_length. reflexivity. }
  destruct (direct_undelayed_forward (direct_part k kk K) (undelayed c) s0 q I0 Hshape HW' (bias_ok_none _) Hn
              xsh x0 inj0 Hxsh Hx0 eq_refl) as (s0' & out & E & _ & _ & Hv).
  exists s0', out. split; [exact E|]. intros b j Hbb Hj.
  etransitivity; [exact (Hv b j Hbb Hj)|].
  change (dr_n RN (direct_part k kk K)) with (dr_n RN k). change (dr_b RN (direct_part k kk K)) with (@None (list R)).
  cbn [ConnSpec.bias_at direct_part dr_w]. rewrite Rplus_0_r. unfold direct_undelayed_part. rewrite Hsh. f_equal.
  rewrite (ConnProofs.nth_map_lt _ _ _ 0%nat) by (rewrite seq_length; exact Hj). rewrite seq_nth by exact Hj. reflexivity.
Qed.

(* ==================================================================== LinearLateral *)
(* LinearLateral.forward is LinearDense.forward on the masked parameters; the K-step part is DelaySpec.dense_part of those
   (its diagonal is zero because the masked weight's is) *)
Theorem lateral_delayed_eq_sum_of_undelayed_connections
  (l : Conn.lat RN) (c : cfgR) (s : synR) (p : pastR) xsh xs inj d (kk : nat -> nat -> nat) (Kmax : nat) :
  Inv RN c s p -> cfg_ok c -> cshape RN c = [Conn.l_B RN l; Conn.l_n RN l] ->
  is_mat (Conn.l_n RN l) (Conn.l_n RN l) (Conn.l_w RN l) -> bias_ok (Conn.l_n RN l) (Conn.l_b RN l) -> (0 < Conn.l_n RN l)%nat ->
  Conn.flat_shape xsh = [Conn.l_B RN l; Conn.l_n RN l] -> entry_ok RN c (xs, inj) ->
  Conn.l_d RN l = Some d -> cdelay RN c <> 0 ->
  (forall o i, (o < Conn.l_n RN l)%nat -> (i < Conn.l_n RN l)%nat -> on_grid_delay c (mat_at d o i) (kk o i) /\ (kk o i <= Kmax)%nat) ->
  exists s' out, dense_forward RN (lat_dense RN l) c s xsh xs inj = (s', SOk (Conn.l_B RN l :: Conn.l_shape RN l, out)) /\
    forall b o, (b < Conn.l_B RN l)%nat -> (o < Conn.l_n RN l)%nat ->
      nth (b * Conn.l_n RN l + o) out 0 =
      bias_at (Conn.l_b RN l) o +
      Rsum (S Kmax) (fun K => undelayed_part c ((xs, inj) :: p) (Conn.l_w RN l) kk (Conn.l_n RN l) K b o).
Proof. exact (dense_delayed_eq_sum_of_undelayed_connections (lat_dense RN l) c s p xsh xs inj d kk Kmax). Qed.

Theorem lateral_part_is_undelayed_forward
  (l : Conn.lat RN) (c : cfgR) (p : pastR) xsh (kk : nat -> nat -> nat) (K : nat) (s0 : synR) (q : pastR) x0 inj0 :
  cshape RN c = [Conn.l_B RN l; Conn.l_n RN l] -> (0 < Conn.l_n RN l)%nat -> Conn.flat_shape xsh = [Conn.l_B RN l; Conn.l_n RN l] ->
  Forall (entry_ok RN c) p ->
  shifted (undelayed c) p K = (x0, inj0) :: q -> Inv RN (undelayed c) s0 q ->
  exists s0' out, dense_forward RN (dense_part (lat_dense RN l) kk K) (undelayed c) s0 xsh x0 inj0
                  = (s0', SOk (Conn.l_B RN l :: Conn.l_shape RN l, out)) /\
    forall b o, (b < Conn.l_B RN l)%nat -> (o < Conn.l_n RN l)%nat ->
      nth (b * Conn.l_n RN l + o) out 0 = undelayed_part c p (Conn.l_w RN l) kk (Conn.l_n RN l) K b o.
Proof. exact (undelayed_part_is_undelayed_forward (lat_dense RN l) c p xsh kk K s0 q x0 inj0). Qed.
(* the K-step part of a lateral connection has no self-connection either *)
Theorem lateral_part_diag_zero (l : Conn.lat RN) (kk : nat -> nat -> nat) K o :
  ConnSpec.lat_inv l -> masked_weight (Conn.l_w RN l) kk K o o = 0.
Proof. intros (Hd & _). unfold masked_weight. destruct (kk o o =? K)%nat; [apply Hd|reflexivity]. Qed.

(* ==================================================================== Conv2D *)
Section ConvDecomp.
Variable k : conv RN.
Notation g := (cv_g RN k).
Notation B := (cv_B RN k).
Notation NN := (cv_N RN k).
Notation L := (cv_L RN k).
Notation F := (cv_F RN k).
Notation HO := (cv_HO RN k).
Notation WO := (cv_WO RN k).
Notation C := (Z.to_nat (Conn.gC g)).
Notation KH := (Z.to_nat (Conn.kH g)).
Notation KW := (Z.to_nat (Conn.kW g)).
Notation K := (Conn.flatten_kernel RN (cv_w RN k)).
Variable c : cfgR.
Hypothesis Hshape : cshape RN c = [B; NN; L].
Hypothesis Hgeo : (0 <= Conn.gC g)%Z /\ (0 <= Conn.gH g)%Z /\ (0 <= Conn.gW g)%Z /\ (0 < Conn.outH RN g)%Z /\ (0 < Conn.outW RN g)%Z.
Notation xsh := [B; C; Z.to_nat (Conn.gH g); Z.to_nat (Conn.gW g)].

Theorem conv_delayed_eq_sum_of_undelayed_connections
  (s : synR) (p : pastR) xs inj d (kk : nat -> nat -> nat) (Kmax : nat) :
  Inv RN c s p -> cfg_ok c -> is_mat F NN K -> bias_ok F (cv_b RN k) ->
  cv_d RN k = Some d -> cdelay RN c <> 0 ->
  (forall f n, (f < F)%nat -> (n < NN)%nat ->
     on_grid_delay c (mat_at (Conn.flatten_kernel RN d) f n) (kk f n) /\ (kk f n <= Kmax)%nat) ->
  exists s' out, conv_forward RN k c s xsh xs inj = (s', SOk ([B; F; HO; WO], out)) /\
    forall b f oh ow, (b < B)%nat -> (f < F)%nat -> (oh < HO)%nat -> (ow < WO)%nat ->
      nth (((b * F + f) * HO + oh) * WO + ow) out 0 =
      bias_at (cv_b RN k) f +
      Rsum (S Kmax) (fun K0 => conv_undelayed_part c ((conv_unfolded k xs, map (conv_unfolded k) inj) :: p) K kk NN L K0 b f (oh * WO + ow)).
Proof.
  intros I Hc HK Hb Hd Hdel Hg.
  pose proof (conv_entry_ok k c xs inj Hshape) as Hx.
  destruct (conv_delayed_eq_undelayed_on_shifted k c s p I Hc Hshape HK Hb Hgeo xs inj Hx d Hd Hdel kk
              (fun f n Hf Hn => proj1 (Hg f n Hf Hn))) as (s' & out & E & Hv).
  exists s', out. split; [exact E|]. intros b f oh ow Hbb Hff Hoh How.
  rewrite (Hv b f oh ow Hbb Hff Hoh How). rewrite Rplus_comm. f_equal.
  unfold conv_undelayed_part. rewrite Rsum_swap. apply ConnProofs.Rsum_ext. intros n Hn.
  destruct (Hg f n Hff Hn) as (_ & Hk).
  symmetry. etransitivity; [|apply (Rsum_indicator (S Kmax) (kk f n)); lia].
  apply ConnProofs.Rsum_ext. intros K0 HK0. unfold conv_masked_weight.
  rewrite (Nat.eqb_sym (kk f n) K0). destruct (Nat.eqb_spec K0 (kk f n)) as [->|Hne]; [reflexivity|ring].
Qed.

(* the masked kernel is a well-formed F x C x kH x kW kernel whose flattening carries the masked weights *)
Lemma masked_kernel_wf kk K0 : ConnSpec.wf_kernel g (conv_masked_kernel k kk K0).
Proof.
  unfold ConnSpec.wf_kernel, conv_masked_kernel. intros wf Hwf. apply in_map_iff in Hwf. destruct Hwf as (f & <- & _).
  split; [rewrite map_length, seq_length; reflexivity|]. intros wc Hwc. apply in_map_iff in Hwc. destruct Hwc as (cc & <- & _).
  split; [rewrite map_length, seq_length; reflexivity|]. intros row Hrow. apply in_map_iff in Hrow. destruct Hrow as (i & <- & _).
  rewrite map_length, seq_length. reflexivity.
Qed.
Lemma masked_kernel_length kk K0 : length (conv_masked_kernel k kk K0) = F.
Proof. unfold conv_masked_kernel. rewrite map_length, seq_length. reflexivity. Qed.
Lemma masked_kernel_w4 kk K0 f cc i j : (f < F)%nat -> (cc < C)%nat -> (i < KH)%nat -> (j < KW)%nat ->
  ConnSpec.w4 (conv_masked_kernel k kk K0) f cc i j = conv_masked_weight K kk K0 f ((cc * KH + i) * KW + j).
Proof.
  intros Hf Hc Hi Hj. unfold ConnSpec.w4, conv_masked_kernel.
  rewrite (ConnProofs.nth_map_lt _ _ _ 0%nat) by (rewrite seq_length; exact Hf). rewrite seq_nth by exact Hf.
  rewrite (ConnProofs.nth_map_lt _ _ _ 0%nat) by (rewrite seq_length; exact Hc). rewrite seq_nth by exact Hc.
  rewrite (ConnProofs.nth_map_lt _ _ _ 0%nat) by (rewrite seq_length; exact Hi). rewrite seq_nth by exact Hi.
  rewrite (ConnProofs.nth_map_lt _ _ _ 0%nat) by (rewrite seq_length; exact Hj). rewrite seq_nth by exact Hj. reflexivity.
Qed.
Lemma masked_kernel_is_mat kk K0 : is_mat F NN (Conn.flatten_kernel RN (conv_masked_kernel k kk K0)).
Proof.
  split; [rewrite ConnProofs.flatten_kernel_length; apply masked_kernel_length|].
  intros r Hr. apply (In_nth _ _ []) in Hr. destruct Hr as (f & Hf & <-).
  rewrite ConnProofs.flatten_kernel_length in Hf.
  etransitivity; [apply (f_equal (@length R)); exact (ConnProofs.kernel_row_canon g _ f (masked_kernel_wf kk K0) Hf)|].
  unfold cv_N. apply ConnProofs.flat_map_seq_length. intros cc _. apply ConnProofs.kblock_length.
Qed.
Lemma masked_kernel_entry kk K0 f n : (f < F)%nat -> (n < NN)%nat ->
  mat_at (Conn.flatten_kernel RN (conv_masked_kernel k kk K0)) f n = conv_masked_weight K kk K0 f n.
Proof.
  intros Hf Hn. unfold cv_N in Hn.
  destruct (index2 n C (KH * KW) Hn) as (cc & r & Hcc & Hr & ->).
  destruct (index2 r KH KW Hr) as (i & j & Hi & Hj & ->).
  replace (cc * (KH * KW) + (i * KW + j))%nat with ((cc * KH + i) * KW + j)%nat by nia.
  etransitivity; [exact (kernel_entry (conv_part k kk K0) f cc i j (masked_kernel_wf kk K0)
                           ltac:(cbn [conv_part cv_w]; rewrite masked_kernel_length; exact Hf) Hcc Hi Hj)|].
  apply masked_kernel_w4; assumption.
Qed.

(* the undelayed copy's synapse has seen q and now receives the (unfolded) input x0 of the history shifted by K0 steps *)
Theorem conv_part_is_undelayed_forward
  (p : pastR) (kk : nat -> nat -> nat) (K0 : nat) (s0 : synR) (q : pastR) (xs0 : list R) (inj0 : list (list R)) :
  shifted (undelayed c) p K0 = (conv_unfolded k xs0, map (conv_unfolded k) inj0) :: q -> Inv RN (undelayed c) s0 q ->
  exists s0' out, conv_forward RN (conv_part k kk K0) (undelayed c) s0 xsh xs0 inj0 = (s0', SOk ([B; F; HO; WO], out)) /\
    forall b f oh ow, (b < B)%nat -> (f < F)%nat -> (oh < HO)%nat -> (ow < WO)%nat ->
      nth (((b * F + f) * HO + oh) * WO + ow) out 0 = conv_undelayed_part c p K kk NN L K0 b f (oh * WO + ow).
Proof.
  intros Hsh I0.
  pose proof (conv_entry_ok (conv_part k kk K0) (undelayed c) xs0 inj0 Hshape) as Hx0.
  destruct (conv_undelayed_forward (conv_part k kk K0) (undelayed c) s0 q I0 Hshape (masked_kernel_is_mat kk K0)
              (bias_ok_none _) Hgeo xs0 inj0 Hx0 eq_refl) as (s0' & out & E & _ & _ & Hv).
  exists s0', out. split; [exact E|]. intros b f oh ow Hbb Hff Hoh How.
  etransitivity; [exact (Hv b f oh ow Hbb Hff Hoh How)|].
  change (cv_b RN (conv_part k kk K0)) with (@None (list R)). cbn [ConnSpec.bias_at]. rewrite Rplus_0_r.
  change (cv_N RN (conv_part k kk K0)) with NN. change (cv_L RN (conv_part k kk K0)) with L.
  change (cv_WO RN (conv_part k kk K0)) with WO. change (cv_w RN (conv_part k kk K0)) with (conv_masked_kernel k kk K0).
  change (conv_unfolded (conv_part k kk K0)) with (conv_unfolded k).
  unfold conv_undelayed_part. rewrite Hsh. apply ConnProofs.Rsum_ext. intros n Hn. f_equal.
  apply masked_kernel_entry; assumption.
Qed.
End ConvDecomp.
