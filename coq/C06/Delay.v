(* C06: the DELAYED branch of the four shipped connections and the delay-offset learning views, as a
   composition of the finished models
     C04/Synapse.v  (four synapse classes on C01 rings: forward, current_at, spike_at, clear)
     C05/Conn.v     (F.linear, the einsum of the delayed dense branch, direct map, unfold, kernel flattening, matmul)
   Definitions only (no proofs): this file must keep running for the correspondence check when a proof
   elsewhere is broken.  Written once, polymorphic in NM : Num.

   hand-transcribed:
     inferno/neural/base.py:1066-1106        Connection.delayedby / syncurrent / synspike / clear
     inferno/neural/connections/mixins.py:94-141  WeightBiasDelayMixin (delay_ exists iff the constructor got delay != None;
                                              the setter ignores the value when the parameter does not exist)
     inferno/neural/connections/linear.py:67-125, 146-165, 338-354     LinearDense  ctor / selector / forward
     inferno/neural/connections/linear.py:413-456, 477-496, 663-676    LinearDirect ctor / selector / forward
     inferno/neural/connections/linear.py:720-818, 839-854, 992-1025   LinearLateral (masked setters; everything else delegates to LinearDense)
     inferno/neural/connections/conv.py:99-195, 250-283, 551-578       Conv2D ctor / selector / forward

   Tensors are flat row-major lists with an explicit shape.  A selector is the delay parameter broadcast to
   (batch, *synapse shape, D): the synapse (C04 current_at / spike_at) answers with one value per selector entry. *)
From Coq Require Import List ZArith Bool Arith.
From Inferno Require Import Base.Num Gen.Infra Gen.Interpolation C01.Ring C04.Synapse.
From Inferno Require C05.Conn.
Import ListNotations.

Section Delay.
Variable NM : Num.
Notation A := (T NM).
Notation cfg := (cfg NM).
Notation syn := (syn NM).

(* ---------- nested views of flat row-major data ---------- *)
Definition nest3 (a b c : nat) (l : list A) : list (list (list A)) :=
  map (Conn.chunk c b) (Conn.chunk (b * c) a l).
Definition nest4 (a b c d : nat) (l : list A) : list (list (list (list A))) :=
  map (nest3 b c d) (Conn.chunk (b * (c * d)) a l).
Definition flat2 (m : list (list A)) : list A := concat m.
Definition flat3 (m : list (list (list A))) : list A := concat (map flat2 m).
Definition flat4 (m : list (list (list (list A)))) : list A := concat (map flat3 m).
Definition at2 (m : list (list A)) (i j : nat) : A := nth j (nth i m []) (zero NM).

(* ---------- the synapse a connection builds ----------
   Connection.__init__(synapse = synapse(in_size, step_time, 0.0 if delay is None else delay, batch_size));
   everything else comes from the partial constructor *)
Record sparams := mkSP {
  p_kind : kind; p_Q : A; p_tau : A; p_tr : A; p_mode : imode; p_tol : A;
  p_cur_ob : option A; p_spk_ob : option bool; p_inplace : bool }.
Definition conn_cfg (sp : sparams) (bshape : list nat) (dt : A) (delay : option A) : cfg :=
  mkCfg NM (p_kind sp) bshape dt (match delay with Some d => d | None => zero NM end)
        (p_Q sp) (p_tau sp) (p_tr sp) (p_mode sp) (p_tol sp) (p_cur_ob sp) (p_spk_ob sp) (p_inplace sp).

(* `if self.delayedby:`  --  delayedby = synapse.delay when the delay_ parameter exists, else None;
   the test is python truthiness of a float: a maximum delay of 0.0 takes the undelayed branch *)
Definition takes_delayed (c : cfg) (hasdelay : bool) : bool :=
  hasdelay && neb NM (cdelay NM c) (zero NM).

Definition has {X} (o : option X) : bool := match o with Some _ => true | None => false end.

(* ---------- Connection.syncurrent / synspike (base.py:1080-1106) ---------- *)
Definition view := (list nat * list A)%type.
(* synapse.current: shape of the record peeked *)
Definition current_shape (c : cfg) (s : syn) : list nat :=
  match ckind NM c with KDelta => rshape_of NM (spk NM s) | _ => rshape_of NM (cur NM s) end.
Definition syncurrent (c : cfg) (s : syn) (hasdelay : bool) (sel : view) : sres view :=
  if takes_delayed c hasdelay then current_at NM c s (fst sel) (snd sel)
  else SOk (current_shape c s, current_of NM c s).
Definition synspike (c : cfg) (s : syn) (hasdelay : bool) (sel : view) : sres view :=
  if takes_delayed c hasdelay then spike_at NM c s (fst sel) (snd sel)
  else SOk (rshape_of NM (spk NM s), peek_row NM (spk NM s)).

Definition sout_vals (o : sout NM) : list A :=
  match o with SOFloat _ _ v => v | SOBool _ _ v => v | SOUnit _ => [] end.

(* ====================================================================================
   LinearDense (and, through it, LinearLateral)
   ==================================================================================== *)
Record dense := mkDense { dn_in : list nat; dn_out : list nat; dn_B : nat;
                          dn_w : list (list A); dn_b : option (list A); dn_d : option (list (list A)) }.
Definition dn_I (k : dense) : nat := Conn.prodn (dn_in k).
Definition dn_O (k : dense) : nat := Conn.prodn (dn_out k).

(* selector (linear.py:146-165):
     delays = self.delay if self.delayedby is not None else zeros_like(weight)
     ein.rearrange(delays, "o i -> 1 i o").expand(batchsz, -1, -1)                       B x I x O *)
Definition dense_delays (k : dense) : list (list A) :=
  match dn_d k with Some d => d | None => map (map (fun _ => zero NM)) (dn_w k) end.
Definition dense_selector (k : dense) : view :=
  ([dn_B k; dn_I k; dn_O k],
   flat_map (fun _ => flat_map (fun i => map (fun o => at2 (dense_delays k) o i) (seq 0 (dn_O k)))
                               (seq 0 (dn_I k)))
            (seq 0 (dn_B k))).

(* forward (linear.py:338-354).  The synapse steps first; a later failure leaves it stepped. *)
Definition dense_forward (k : dense) (c : cfg) (s : syn) (xsh : list nat) (xs : list A) (inj : list (list A))
  : syn * sres view :=
  match forward NM c s (Conn.flat_shape xsh) xs inj with          (* like_synaptic: "b ... -> b (...)" *)
  | SErr e => (s, SErr e)
  | SOk (s', o) =>
      let osh := Conn.view_shape (dn_B k * dn_O k) (dn_out k) in   (* res.view(-1, *outshape) *)
      if takes_delayed c (has (dn_d k)) then
        match syncurrent c s' (has (dn_d k)) (dense_selector k) with      (* B I O *)
        | SErr e => (s', SErr e)
        | SOk (_, v) =>
            (s', SOk (osh, flat2 (Conn.linear_delayed NM (nest3 (dn_B k) (dn_I k) (dn_O k) v) (dn_w k) (dn_b k))))
        end
      else
        (s', SOk (osh, flat2 (Conn.linear NM (Conn.chunk (dn_I k) (dn_B k) (sout_vals o)) (dn_w k) (dn_b k))))
  end.

(* LinearLateral: selector / forward / views are LinearDense's, on the masked parameters *)
Definition lat_dense (l : Conn.lat NM) : dense :=
  mkDense (Conn.l_shape NM l) (Conn.l_shape NM l) (Conn.l_B NM l) (Conn.l_w NM l) (Conn.l_b NM l) (Conn.l_d NM l).

(* ====================================================================================
   LinearDirect
   ==================================================================================== *)
Record direct := mkDirect { dr_shape : list nat; dr_B : nat;
                            dr_w : list A; dr_b : option (list A); dr_d : option (list A) }.
Definition dr_n (k : direct) : nat := Conn.prodn (dr_shape k).
(* selector (linear.py:477-496): ein.rearrange(delays, "n -> 1 n 1").expand(batchsz, -1, -1)     B x N x 1 *)
Definition direct_delays (k : direct) : list A :=
  match dr_d k with Some d => d | None => map (fun _ => zero NM) (dr_w k) end.
Definition direct_selector (k : direct) : view :=
  ([dr_B k; dr_n k; 1],
   flat_map (fun _ => map (fun n => nth n (direct_delays k) (zero NM)) (seq 0 (dr_n k))) (seq 0 (dr_B k))).
(* forward (linear.py:663-676): if self.delayedby: res = rearrange(self.syncurrent, "b n 1 -> b n");
   res = res * weight (+ bias) *)
Definition direct_forward (k : direct) (c : cfg) (s : syn) (xsh : list nat) (xs : list A) (inj : list (list A))
  : syn * sres view :=
  match forward NM c s (Conn.flat_shape xsh) xs inj with
  | SErr e => (s, SErr e)
  | SOk (s', o) =>
      let osh := Conn.view_shape (dr_B k * dr_n k) (dr_shape k) in
      let fin := fun v => (s', SOk (osh, flat2 (Conn.direct_map NM (Conn.chunk (dr_n k) (dr_B k) v) (dr_w k) (dr_b k)))) in
      if takes_delayed c (has (dr_d k)) then
        match syncurrent c s' (has (dr_d k)) (direct_selector k) with
        | SErr e => (s', SErr e)
        | SOk (_, v) => fin v
        end
      else fin (sout_vals o)
  end.

(* ====================================================================================
   Conv2D
   ==================================================================================== *)
Definition kernel4 := list (list (list (list A))).        (* F x C x kH x kW *)
Record conv := mkConv { cv_g : Conn.geom; cv_B : nat; cv_w : kernel4; cv_b : option (list A); cv_d : option kernel4 }.
Definition cv_N (k : conv) : nat :=
  Z.to_nat (Conn.gC (cv_g k)) * (Z.to_nat (Conn.kH (cv_g k)) * Z.to_nat (Conn.kW (cv_g k))).
Definition cv_HO (k : conv) : nat := Z.to_nat (Conn.outH NM (cv_g k)).
Definition cv_WO (k : conv) : nat := Z.to_nat (Conn.outW NM (cv_g k)).
Definition cv_L (k : conv) : nat := cv_HO k * cv_WO k.
Definition cv_F (k : conv) : nat := Z.to_nat (Conn.gF (cv_g k)).

(* selector (conv.py:250-283):
     ein.rearrange(delays, "f c h w -> 1 (c h w) 1 f").expand(batchsz, -1, synapse.shape[-1], -1)   B x N x L x F *)
Definition conv_delays (k : conv) : list (list A) :=      (* F x N *)
  match cv_d k with
  | Some d => Conn.flatten_kernel NM d
  | None => map (map (fun _ => zero NM)) (Conn.flatten_kernel NM (cv_w k))
  end.
Definition conv_selector (k : conv) : view :=
  ([cv_B k; cv_N k; cv_L k; cv_F k],
   flat_map (fun _ =>
     flat_map (fun n =>
       flat_map (fun _ => map (fun f => at2 (conv_delays k) f n) (seq 0 (cv_F k))) (seq 0 (cv_L k)))
       (seq 0 (cv_N k)))
     (seq 0 (cv_B k))).

(* the delayed branch on one batch element of syncurrent, sc : N x L x F  (conv.py:558-566)
     res = rearrange(syncurrent, "b n l f -> b f n l");  einsum(kernel, res, "f n, b f n l -> b f l")
     -> "b f (oh ow) -> b f oh ow";  + bias "f -> 1 f 1 1" *)
Definition conv_delayed_map (g : Conn.geom) (w : kernel4) (b : option (list A)) (nn : nat)
           (sc : list (list (list A))) : list (list (list A)) :=
  let ho := Z.to_nat (Conn.outH NM g) in
  let wo := Z.to_nat (Conn.outW NM g) in
  let K := Conn.flatten_kernel NM w in
  let r := map (fun fk =>
                  Conn.chunk wo ho
                    (map (fun l => Conn.dot NM (snd fk)
                                     (map (fun n => nth (fst fk) (nth l (nth n sc []) []) (zero NM)) (seq 0 nn)))
                         (seq 0 (ho * wo))))
               (combine (seq 0 (length K)) K) in
  match b with
  | None => r
  | Some bv => Conn.map2 (fun plane bf => map (map (fun a => add NM a bf)) plane) r bv
  end.

(* forward (conv.py:551-578); like_synaptic = F.unfold per batch element.  F.unfold works on the dimensions the
   input actually has (geometry g with the input's own C, H, W): an input of another size is rejected by F.unfold
   when its block grid is empty, otherwise by the synapse when the unfolded shape differs from the synapse's. *)
Definition conv_forward (k : conv) (c : cfg) (s : syn) (xsh : list nat) (xs : list A) (inj : list (list A))
  : syn * sres view :=
  let g := cv_g k in
  let b0 := nth 0 xsh 0 in let C := nth 1 xsh 0 in let H := nth 2 xsh 0 in let W := nth 3 xsh 0 in
  let g' := Conn.mkG (Z.of_nat H) (Z.of_nat W) (Z.of_nat C) (Conn.gF g) (Conn.kH g) (Conn.kW g)
                     (Conn.sH g) (Conn.sW g) (Conn.pH g) (Conn.pW g) (Conn.dH g) (Conn.dW g) in
  let unf := fun (d : list A) => flat3 (map (Conn.unfold NM g') (nest4 b0 C H W d)) in
  if negb (length xsh =? 4) then (s, SErr ERuntime)
  else if (Conn.outH NM g' <=? 0)%Z || (Conn.outW NM g' <=? 0)%Z then (s, SErr ERuntime)
  else
  match forward NM c s [b0; C * (Z.to_nat (Conn.kH g) * Z.to_nat (Conn.kW g));
                        Z.to_nat (Conn.outH NM g') * Z.to_nat (Conn.outW NM g')] (unf xs) (map unf inj) with
  | SErr e => (s, SErr e)
  | SOk (s', o) =>
      let osh := [cv_B k; cv_F k; cv_HO k; cv_WO k] in
      if takes_delayed c (has (cv_d k)) then
        match syncurrent c s' (has (cv_d k)) (conv_selector k) with      (* B N L F *)
        | SErr e => (s', SErr e)
        | SOk (_, v) =>
            (s', SOk (osh, flat4 (map (conv_delayed_map g (cv_w k) (cv_b k) (cv_N k))
                                      (nest4 (cv_B k) (cv_N k) (cv_L k) (cv_F k) v))))
        end
      else
        (s', SOk (osh, flat4 (map (Conn.conv_map NM g (cv_w k) (cv_b k))
                                  (nest3 (cv_B k) (cv_N k) (cv_L k) (sout_vals o)))))
  end.

(* ====================================================================================
   one connection, operations as data
   ==================================================================================== *)
Inductive conn := CDense (k : dense) | CDirect (k : direct) | CLateral (k : Conn.lat NM) | CConv (k : conv).

Definition conn_hasdelay (k : conn) : bool :=
  match k with
  | CDense d => has (dn_d d) | CDirect d => has (dr_d d)
  | CLateral l => has (Conn.l_d NM l) | CConv v => has (cv_d v)
  end.
Definition conn_selector (k : conn) : view :=
  match k with
  | CDense d => dense_selector d | CDirect d => direct_selector d
  | CLateral l => dense_selector (lat_dense l) | CConv v => conv_selector v
  end.
Definition conn_forward (k : conn) (c : cfg) (s : syn) xsh xs inj : syn * sres view :=
  match k with
  | CDense d => dense_forward d c s xsh xs inj
  | CDirect d => direct_forward d c s xsh xs inj
  | CLateral l => dense_forward (lat_dense l) c s xsh xs inj
  | CConv v => conv_forward v c s xsh xs inj
  end.

(* `connection.delay = value` (flat data of the parameter's shape); LinearLateral masks, every class ignores
   the assignment when the parameter does not exist *)
Definition conn_set_delay (k : conn) (d : list A) : conn :=
  match k with
  | CDense x =>
      match dn_d x with
      | None => k
      | Some _ => CDense (mkDense (dn_in x) (dn_out x) (dn_B x) (dn_w x) (dn_b x) (Some (Conn.chunk (dn_I x) (dn_O x) d)))
      end
  | CDirect x =>
      match dr_d x with
      | None => k
      | Some _ => CDirect (mkDirect (dr_shape x) (dr_B x) (dr_w x) (dr_b x) (Some d))
      end
  | CLateral l => CLateral (Conn.lat_set_delay NM l (Conn.VMat NM (Conn.chunk (Conn.l_n NM l) (Conn.l_n NM l) d)))
  | CConv x =>
      match cv_d x with
      | None => k
      | Some _ =>
          let g := cv_g x in
          CConv (mkConv g (cv_B x) (cv_w x) (cv_b x)
                        (Some (nest4 (cv_F x) (Z.to_nat (Conn.gC g)) (Z.to_nat (Conn.kH g)) (Z.to_nat (Conn.kW g)) d)))
      end
  end.

Inductive cop :=
| KStep (xsh : list nat) (xs : list A) (inj : list (list A))
| KSynCurrent | KSynSpike | KSelector
| KSetDelay (d : list A)
| KClear
| KRestore.   (* state_dict() of the connection loaded into a twin connection of the same configuration (fresh, or already
                 run on other data), which then continues the run: every parameter, every record and every record
                 pointer is copied (that the round trip is faithful is property C12), so the continuing state is the same *)

Inductive cout := COUnit | COFloat (v : view) | COBool (v : view) | COErr (e : err).

Definition of_res (f : view -> cout) (r : sres view) : cout :=
  match r with SOk v => f v | SErr e => COErr e end.

Definition cstep (c : cfg) (ks : conn * syn) (o : cop) : (conn * syn) * cout :=
  let '(k, s) := ks in
  match o with
  | KStep xsh xs inj => let '(s', r) := conn_forward k c s xsh xs inj in ((k, s'), of_res COFloat r)
  | KSynCurrent => (ks, of_res COFloat (syncurrent c s (conn_hasdelay k) (conn_selector k)))
  | KSynSpike => (ks, of_res COBool (synspike c s (conn_hasdelay k) (conn_selector k)))
  | KSelector => (ks, COFloat (conn_selector k))
  | KSetDelay d => ((conn_set_delay k d, s), COUnit)
  | KClear => ((k, clear NM c s), COUnit)            (* Connection.clear -> synapse.clear *)
  | KRestore => (ks, COUnit)
  end.

Fixpoint crun (c : cfg) (ks : conn * syn) (ops : list cop) : (conn * syn) * list cout :=
  match ops with
  | [] => (ks, [])
  | o :: tl => let '(ks', out) := cstep c ks o in let '(kf, outs) := crun c ks' tl in (kf, out :: outs)
  end.

End Delay.
