(* C06, part 6 (reals): Conv2D with a delay per kernel element (selector "f c h w -> 1 (c h w) 1 f" expanded over the batch
   and the output positions).  The synapse is indexed by (batch b, kernel element n = (c, i, j) row-major, output position
   l = (oh, ow) row-major) and receives F.unfold of the input; its history p consists of the UNFOLDED inputs (C05:
   unfold_spec says which input pixel each synapse element sees).

     conv_delayed_forward   out[b, f, oh, ow] = sum_n K[f, n] * delayed_cur (history) (b, n, l) D[f, n] + bias[f]
     conv_undelayed_forward out[b, f, oh, ow] = sum_n K[f, n] * current(b, n, l) + bias[f]
   with K = the flattened kernel, D = the flattened delay tensor; then the same corollaries as for the linear classes. *)
From Coq Require Import List ZArith Bool Arith Lia Reals Lra.
From Flocq Require Import Core.Raux Core.Generic_fmt.
From Inferno Require Import Base.Num Base.NumR Gen.Infra Gen.Interpolation C01.Ring C01.RingProofs
  C04.Synapse C04.HistProofs C04.ClosedForms C04.SelectProofs C04.SynapseProofs
  C06.Delay C06.DelaySpec C06.ReadProofs C06.ViewProofs C06.DirectProofs.
From Inferno Require C05.Conn C05.ConnSpec C05.ConnProofs.
Import ListNotations.
Open Scope R_scope.

(* ------------------------------------------------------------------ flattening nested tensors of uniform shape *)
Lemma flat2_uniform (m : list (list R)) Bn : (forall r, In r m -> length r = Bn) ->
  length (flat2 RN m) = (length m * Bn)%nat /\
  forall a b, (a < length m)%nat -> (b < Bn)%nat -> nth (a * Bn + b) (flat2 RN m) 0 = nth b (nth a m []) 0.
Proof.
  intros H. unfold flat2. split; [apply ConnProofs.concat_length_uniform; exact H|].
  intros a b Ha Hb. apply ConnProofs.concat_nth_uniform; assumption.
Qed.
Lemma flat3_uniform (m : list (list (list R))) Bn Cn :
  (forall x, In x m -> length x = Bn /\ forall r, In r x -> length r = Cn) ->
  length (flat3 RN m) = (length m * (Bn * Cn))%nat /\
  forall a b c, (a < length m)%nat -> (b < Bn)%nat -> (c < Cn)%nat ->
    nth ((a * Bn + b) * Cn + c) (flat3 RN m) 0 = nth c (nth b (nth a m []) []) 0.
Proof.
  intros H. unfold flat3.
  assert (Hr : forall r, In r (map (flat2 RN) m) -> length r = (Bn * Cn)%nat).
  { intros r Hin. apply in_map_iff in Hin. destruct Hin as (x & <- & Hx). destruct (H x Hx) as (Hl & Hrr).
    destruct (flat2_uniform x Cn Hrr) as (E & _). rewrite E, Hl. reflexivity. }
  split.
  - etransitivity; [exact (ConnProofs.concat_length_uniform _ _ Hr)|]. rewrite map_length. reflexivity.
  - intros a b c Ha Hb Hc.
    replace ((a * Bn + b) * Cn + c)%nat with (a * (Bn * Cn) + (b * Cn + c))%nat by nia.
    assert (Ha' : (a < length (map (flat2 RN) m))%nat) by (rewrite map_length; exact Ha).
    etransitivity; [exact (ConnProofs.concat_nth_uniform _ (Bn * Cn) a (b * Cn + c) 0 Hr Ha' ltac:(nia))|].
    rewrite (ConnProofs.nth_map_lt _ _ _ []) by exact Ha.
    destruct (H (nth a m []) (nth_In _ _ Ha)) as (Hl & Hrr).
    destruct (flat2_uniform (nth a m []) Cn Hrr) as (_ & E). apply E; [rewrite Hl; exact Hb|exact Hc].
Qed.
Lemma flat4_uniform (m : list (list (list (list R)))) Bn Cn Dn :
  (forall y, In y m -> length y = Bn /\ forall x, In x y -> length x = Cn /\ forall r, In r x -> length r = Dn) ->
  length (flat4 RN m) = (length m * (Bn * (Cn * Dn)))%nat /\
  forall a b c d, (a < length m)%nat -> (b < Bn)%nat -> (c < Cn)%nat -> (d < Dn)%nat ->
    nth (((a * Bn + b) * Cn + c) * Dn + d) (flat4 RN m) 0 = nth d (nth c (nth b (nth a m []) []) []) 0.
Proof.
  intros H. unfold flat4.
  assert (Hr : forall r, In r (map (flat3 RN) m) -> length r = (Bn * (Cn * Dn))%nat).
  { intros r Hin. apply in_map_iff in Hin. destruct Hin as (y & <- & Hy). destruct (H y Hy) as (Hl & Hrr).
    destruct (flat3_uniform y Cn Dn Hrr) as (E & _). rewrite E, Hl. reflexivity. }
  split.
  - etransitivity; [exact (ConnProofs.concat_length_uniform _ _ Hr)|]. rewrite map_length. reflexivity.
  - intros a b c d Ha Hb Hc Hd.
    replace (((a * Bn + b) * Cn + c) * Dn + d)%nat with (a * (Bn * (Cn * Dn)) + ((b * Cn + c) * Dn + d))%nat by nia.
    assert (Ha' : (a < length (map (flat3 RN) m))%nat) by (rewrite map_length; exact Ha).
    assert (Hidx : ((b * Cn + c) * Dn + d < Bn * (Cn * Dn))%nat).
    { pose proof (ConnProofs.flat_index_lt b c Bn Cn Hb Hc) as H1.
      pose proof (ConnProofs.flat_index_lt (b * Cn + c) d (Bn * Cn) Dn H1 Hd) as H2. lia. }
    etransitivity; [exact (ConnProofs.concat_nth_uniform _ (Bn * (Cn * Dn)) a ((b * Cn + c) * Dn + d) 0 Hr Ha' Hidx)|].
    rewrite (ConnProofs.nth_map_lt _ _ _ []) by exact Ha.
    destruct (H (nth a m []) (nth_In _ _ Ha)) as (Hl & Hrr).
    destruct (flat3_uniform (nth a m []) Cn Dn Hrr) as (_ & E). apply E; [rewrite Hl; exact Hb|exact Hc|exact Hd].
Qed.

Lemma nth_nest4 (a b c d : nat) (l : list R) i j k m : (i < a)%nat -> (j < b)%nat -> (k < c)%nat -> (m < d)%nat ->
  nth m (nth k (nth j (nth i (nest4 RN a b c d l) []) []) []) 0 = nth (((i * b + j) * c + k) * d + m) l 0.
Proof.
  intros Hi Hj Hk Hm. unfold nest4.
  rewrite (ConnProofs.nth_map_lt _ _ _ []) by (rewrite ConnProofs.chunk_length; exact Hi).
  rewrite nth_nest3 by assumption.
  rewrite ConnProofs.chunk_nth by exact Hi.
  assert (Hidx : ((j * c + k) * d + m < b * (c * d))%nat).
  { pose proof (ConnProofs.flat_index_lt j k b c Hj Hk) as H1.
    pose proof (ConnProofs.flat_index_lt (j * c + k) m (b * c) d H1 Hm) as H2. lia. }
  rewrite ConnProofs.nth_firstn_lt by exact Hidx. rewrite ConnProofs.nth_skipn'. f_equal. nia.
Qed.
Lemma nest4_length (a b c d : nat) (l : list R) : length (nest4 RN a b c d l) = a.
Proof. unfold nest4. rewrite map_length. apply ConnProofs.chunk_length. Qed.

Lemma In_map2 {X Y Z} (f : X -> Y -> Z) u v z : In z (Conn.map2 f u v) -> exists a b, In a u /\ In b v /\ z = f a b.
Proof.
  revert v. induction u as [|a u IH]; intros [|b v] H; cbn in H; try contradiction.
  destruct H as [<-|H]; [exists a, b; cbn; auto|].
  destruct (IH v H) as (a' & b' & Ha & Hb & E). exists a', b'. cbn. auto.
Qed.

(* ------------------------------------------------------------------ "f (oh ow) -> f oh ow" + bias, shared by both branches *)
Section Planes.
Variables HO WO : nat.
Definition planes (rows : list (list R)) (b : option (list R)) : list (list (list R)) :=
  let r := map (Conn.chunk WO HO) rows in
  match b with
  | None => r
  | Some bv => Conn.map2 (fun plane bf => map (map (fun a => add RN a bf)) plane) r bv
  end.

Variable rows : list (list R).
Variable b : option (list R).
Hypothesis Hrows : forall r, In r rows -> length r = (HO * WO)%nat.
Hypothesis Hb : bias_ok (length rows) b.

Lemma planes_length : length (planes rows b) = length rows.
Proof.
  unfold planes. destruct b as [bv|]; [|apply map_length].
  pose proof (Hb bv eq_refl) as Hlb. rewrite ConnProofs.map2_length, map_length. change (T RN) with R in *. lia.
Qed.
Lemma planes_shape x : In x (planes rows b) -> length x = HO /\ forall r, In r x -> length r = WO.
Proof.
  assert (Hc : forall pl, In pl (map (Conn.chunk WO HO) rows) -> length pl = HO /\ forall r, In r pl -> length r = WO).
  { intros pl Hin. apply in_map_iff in Hin. destruct Hin as (row & <- & Hrow). split; [apply ConnProofs.chunk_length|].
    intros r Hr. apply (chunk_rows_In WO HO row r); [rewrite (Hrows row Hrow); lia|exact Hr]. }
  unfold planes. destruct b as [bv|]; [|apply Hc]. intros Hin.
  apply In_map2 in Hin. destruct Hin as (pl & bf & Hpl & _ & ->). destruct (Hc pl Hpl) as (H1 & H2).
  rewrite map_length. split; [exact H1|]. intros r Hr. apply in_map_iff in Hr. destruct Hr as (r0 & <- & Hr0).
  rewrite map_length. apply H2. exact Hr0.
Qed.
Lemma planes_nth f oh ow : (f < length rows)%nat -> (oh < HO)%nat -> (ow < WO)%nat ->
  nth ow (nth oh (nth f (planes rows b) []) []) 0 = nth (oh * WO + ow) (nth f rows []) 0 + bias_at b f.
Proof.
  intros Hf Hoh How.
  assert (Hcore : nth ow (nth oh (nth f (map (Conn.chunk WO HO) rows) []) []) 0 = nth (oh * WO + ow) (nth f rows []) 0).
  { rewrite (ConnProofs.nth_map_lt _ _ _ []) by exact Hf. apply ConnProofs.chunk_nth_nth; assumption. }
  unfold planes. destruct b as [bv|]; cbn [ConnSpec.bias_at].
  - pose proof (Hb bv eq_refl) as Hlb.
    rewrite (ConnProofs.map2_nth _ _ _ _ [] 0) by (rewrite ?map_length; change (T RN) with R in *; lia).
    assert (Hlp : length (nth f (map (Conn.chunk WO HO) rows) []) = HO).
    { rewrite (ConnProofs.nth_map_lt _ _ _ []) by exact Hf. apply ConnProofs.chunk_length. }
    rewrite (ConnProofs.nth_map_lt _ _ _ []) by (change (T RN) with R in *; lia).
    assert (Hlrow : length (nth oh (nth f (map (Conn.chunk WO HO) rows) []) []) = WO).
    { rewrite (ConnProofs.nth_map_lt _ _ _ []) by exact Hf. apply ConnProofs.chunk_row_length; [exact Hoh|].
      rewrite (Hrows _ (nth_In _ _ Hf)). lia. }
    rewrite (ConnProofs.nth_map_lt _ _ _ 0) by (change (T RN) with R in *; lia). rn_simpl. f_equal. exact Hcore.
  - rewrite Hcore. lra.
Qed.
End Planes.

Lemma matmul_rows (A M : list (list R)) ncols r : In r (Conn.matmul RN A M ncols) -> length r = ncols.
Proof.
  intros Hr. unfold Conn.matmul in Hr. apply in_map_iff in Hr. destruct Hr as (ar & <- & _).
  rewrite map_length, seq_length. reflexivity.
Qed.

(* ------------------------------------------------------------------ the two contractions of Conv2D.forward *)
Section ConvMaps.
Variable g : Conn.geom.
Notation HO := (Z.to_nat (Conn.outH RN g)).
Notation WO := (Z.to_nat (Conn.outW RN g)).
Variable w : kernel4 RN.
Variable b : option (list R).
Variable NN : nat.
Notation K := (Conn.flatten_kernel RN w).
Hypothesis HK : forall r, In r K -> length r = NN.
Hypothesis Hb : bias_ok (length K) b.

(* undelayed: matmul(kernel, cur) with cur : NN x (HO*WO) *)
Lemma conv_map_planes cur : Conn.conv_map RN g w b cur = planes HO WO (Conn.matmul RN K cur (HO * WO)) b.
Proof. reflexivity. Qed.
Lemma conv_map_entry (cur : list (list R)) f oh ow : length cur = NN ->
  (f < length K)%nat -> (oh < HO)%nat -> (ow < WO)%nat ->
  nth ow (nth oh (nth f (Conn.conv_map RN g w b cur) []) []) 0 =
  Rsum NN (fun n => mat_at K f n * nth (oh * WO + ow) (nth n cur []) 0) + bias_at b f.
Proof.
  intros Hcur Hf Hoh How. rewrite conv_map_planes.
  assert (Hlm : length (Conn.matmul RN K cur (HO * WO)) = length K) by (unfold Conn.matmul; apply map_length).
  rewrite planes_nth; try assumption.
  - f_equal. rewrite ConnProofs.matmul_nth by (try exact Hf; nia).
    rewrite (ConnProofs.dot_Rsum _ _ NN).
    + apply ConnProofs.Rsum_ext. intros n Hn. unfold Conn.column.
      rewrite (ConnProofs.nth_map_lt _ _ _ []) by (change (T RN) with R in *; lia). reflexivity.
    + apply HK. apply nth_In. exact Hf.
    + unfold Conn.column. rewrite map_length. exact Hcur.
  - intros r Hr. apply (matmul_rows _ _ _ _ Hr).
  - intros bv Ebv. etransitivity; [exact (Hb bv Ebv)|symmetry; exact Hlm].
  - change (T RN) with R in *. lia.
Qed.
Lemma conv_map_shape' (cur : list (list R)) :
  length (Conn.conv_map RN g w b cur) = length K /\
  forall x, In x (Conn.conv_map RN g w b cur) -> length x = HO /\ forall r, In r x -> length r = WO.
Proof.
  rewrite conv_map_planes.
  assert (Hlm : length (Conn.matmul RN K cur (HO * WO)) = length K) by (unfold Conn.matmul; apply map_length).
  assert (Hrows : forall r, In r (Conn.matmul RN K cur (HO * WO)) -> length r = (HO * WO)%nat).
  { intros r Hr. apply (matmul_rows _ _ _ _ Hr). }
  assert (Hb' : bias_ok (length (Conn.matmul RN K cur (HO * WO))) b).
  { intros bv Ebv. etransitivity; [exact (Hb bv Ebv)|symmetry; exact Hlm]. }
  split.
  - etransitivity; [exact (planes_length HO WO _ b Hrows Hb')|exact Hlm].
  - intros x Hx. apply (planes_shape HO WO _ b Hrows Hb' x Hx).
Qed.

(* delayed: einsum "f n, b f n l -> b f l" on sc : NN x (HO*WO) x F *)
Definition delayed_rows (sc : list (list (list R))) : list (list R) :=
  map (fun fk : nat * list R =>
         map (fun l => Conn.dot RN (snd fk) (map (fun n => nth (fst fk) (nth l (nth n sc []) []) 0) (seq 0 NN)))
             (seq 0 (HO * WO)))
      (combine (seq 0 (length K)) K).
Lemma conv_delayed_map_planes sc : conv_delayed_map RN g w b NN sc = planes HO WO (delayed_rows sc) b.
Proof.
  unfold conv_delayed_map, planes, delayed_rows. rewrite map_map. reflexivity.
Qed.
Lemma delayed_rows_length sc : length (delayed_rows sc) = length K.
Proof. unfold delayed_rows. rewrite map_length, combine_length, seq_length. apply Nat.min_id. Qed.
Lemma delayed_rows_row sc r : In r (delayed_rows sc) -> length r = (HO * WO)%nat.
Proof.
  intros Hr. unfold delayed_rows in Hr. apply in_map_iff in Hr. destruct Hr as (fk & <- & _).
  rewrite map_length, seq_length. reflexivity.
Qed.
Lemma conv_delayed_map_entry (sc : list (list (list R))) f oh ow :
  (f < length K)%nat -> (oh < HO)%nat -> (ow < WO)%nat ->
  nth ow (nth oh (nth f (conv_delayed_map RN g w b NN sc) []) []) 0 =
  Rsum NN (fun n => mat_at K f n * nth f (nth (oh * WO + ow) (nth n sc []) []) 0) + bias_at b f.
Proof.
  intros Hf Hoh How. rewrite conv_delayed_map_planes.
  rewrite planes_nth; try assumption.
  - f_equal. unfold delayed_rows.
    rewrite (ConnProofs.nth_map_lt _ _ _ (0%nat, [])) by (rewrite combine_length, seq_length, Nat.min_id; exact Hf).
    rewrite combine_nth by (apply seq_length). rewrite seq_nth by exact Hf. cbn [fst snd Nat.add].
    rewrite ConnProofs.map_seq_nth by nia. cbn [Nat.add].
    rewrite (ConnProofs.dot_Rsum _ _ NN).
    + apply ConnProofs.Rsum_ext. intros n Hn. rewrite ConnProofs.map_seq_nth by exact Hn. reflexivity.
    + apply HK. apply nth_In. exact Hf.
    + rewrite map_length, seq_length. reflexivity.
  - apply delayed_rows_row.
  - intros bv Ebv. etransitivity; [exact (Hb bv Ebv)|symmetry; apply delayed_rows_length].
  - pose proof (delayed_rows_length sc). change (T RN) with R in *. lia.
Qed.
Lemma conv_delayed_map_shape sc :
  length (conv_delayed_map RN g w b NN sc) = length K /\
  forall x, In x (conv_delayed_map RN g w b NN sc) -> length x = HO /\ forall r, In r x -> length r = WO.
Proof.
  rewrite conv_delayed_map_planes.
  assert (Hb' : bias_ok (length (delayed_rows sc)) b).
  { intros bv Ebv. etransitivity; [exact (Hb bv Ebv)|symmetry; apply delayed_rows_length]. }
  split.
  - etransitivity; [exact (planes_length HO WO _ b (delayed_rows_row sc) Hb')|apply delayed_rows_length].
  - intros x Hx. apply (planes_shape HO WO _ b (delayed_rows_row sc) Hb' x Hx).
Qed.
End ConvMaps.

(* ------------------------------------------------------------------ Conv2D.forward *)
Section Conv.
Variable k : conv RN.
Variable c : cfgR.
Variable s : synR.
Variable p : pastR.
Hypothesis I : Inv RN c s p.
Hypothesis Hc : cfg_ok c.
Notation g := (cv_g RN k).
Notation B := (cv_B RN k).
Notation NN := (cv_N RN k).
Notation L := (cv_L RN k).
Notation F := (cv_F RN k).
Notation HO := (cv_HO RN k).
Notation WO := (cv_WO RN k).
Notation K := (Conn.flatten_kernel RN (cv_w RN k)).
Hypothesis Hshape : cshape RN c = [B; NN; L].
Hypothesis HK : is_mat F NN K.
Hypothesis Hb : bias_ok F (cv_b RN k).
Hypothesis Hgeo : (0 <= Conn.gC g)%Z /\ (0 <= Conn.gH g)%Z /\ (0 <= Conn.gW g)%Z /\ (0 < Conn.outH RN g)%Z /\ (0 < Conn.outW RN g)%Z.
Variables (xs : list R) (inj : list (list R)).
(* the input has the connection's batched input shape *)
Notation xsh := [B; Z.to_nat (Conn.gC g); Z.to_nat (Conn.gH g); Z.to_nat (Conn.gW g)].
(* like_synaptic (F.unfold per batch element), as the model computes it *)
Definition conv_unfolded (d : list R) : list R :=
  flat3 RN (map (Conn.unfold RN g) (nest4 RN B (Z.to_nat (Conn.gC g)) (Z.to_nat (Conn.gH g)) (Z.to_nat (Conn.gW g)) d)).
Notation ux := (conv_unfolded xs).
Notation uinj := (map conv_unfolded inj).
Hypothesis Hx : entry_ok RN c (ux, uinj).
Notation p' := ((ux, uinj) :: p).

Lemma geom_eta : Conn.mkG (Z.of_nat (Z.to_nat (Conn.gH g))) (Z.of_nat (Z.to_nat (Conn.gW g))) (Z.of_nat (Z.to_nat (Conn.gC g)))
    (Conn.gF g) (Conn.kH g) (Conn.kW g) (Conn.sH g) (Conn.sW g) (Conn.pH g) (Conn.pW g) (Conn.dH g) (Conn.dW g) = g.
Proof.
  destruct Hgeo as (H1 & H2 & H3 & _). rewrite !Z2Nat.id by assumption. destruct (cv_g RN k). reflexivity.
Qed.

Lemma conv_selector_nth b n l f : (b < B)%nat -> (n < NN)%nat -> (l < L)%nat -> (f < F)%nat ->
  nth (((b * NN + n) * L + l) * F + f) (snd (conv_selector RN k)) 0 = mat_at (conv_delays RN k) f n.
Proof.
  intros Hb' Hn Hl Hf. unfold conv_selector. cbn [snd].
  set (r3 := fun n => fun _ : nat => map (fun f => at2 RN (conv_delays RN k) f n) (seq 0 F)).
  assert (H3 : forall n j, length (r3 n j) = F) by (intros; unfold r3; rewrite map_length, seq_length; reflexivity).
  set (r2 := fun n => flat_map (r3 n) (seq 0 L)).
  assert (H2 : forall n, length (r2 n) = (L * F)%nat) by (intros; unfold r2; apply ConnProofs.flat_map_seq_length; intros; apply H3).
  set (r1 := fun _ : nat => flat_map r2 (seq 0 NN)).
  assert (H1 : forall j, length (r1 j) = (NN * (L * F))%nat) by (intros; unfold r1; apply ConnProofs.flat_map_seq_length; intros; apply H2).
  replace (((b * NN + n) * L + l) * F + f)%nat with (b * (NN * (L * F)) + (n * (L * F) + (l * F + f)))%nat by nia.
  pose proof (ConnProofs.flat_index_lt l f L F Hl Hf) as Ha.
  pose proof (ConnProofs.flat_index_lt n (l * F + f) NN (L * F) Hn Ha) as Hbb.
  rewrite (ConnProofs.flat_map_seq_nth r1 (NN * (L * F)) 0 B b _ 0) by (try (intros; apply H1); assumption).
  unfold r1. rewrite (ConnProofs.flat_map_seq_nth r2 (L * F) 0 NN n _ 0) by (try (intros; apply H2); assumption).
  unfold r2. rewrite (ConnProofs.flat_map_seq_nth (r3 (0 + n)%nat) F 0 L l f 0) by (try (intros; apply H3); lia).
  unfold r3. rewrite ConnProofs.map_seq_nth by exact Hf. reflexivity.
Qed.

Lemma HOWO_pos : (0 < HO)%nat /\ (0 < WO)%nat.
Proof. destruct Hgeo as (_ & _ & _ & H4 & H5). unfold cv_HO, cv_WO. lia. Qed.

Lemma conv_forward_unfold :
  conv_forward RN k c s xsh xs inj =
  match forward RN c s (cshape RN c) ux uinj with
  | SErr e => (s, SErr e)
  | SOk (s', o) =>
      if takes_delayed RN c (has (cv_d RN k)) then
        match syncurrent RN c s' (has (cv_d RN k)) (conv_selector RN k) with
        | SErr e => (s', SErr e)
        | SOk (_, v) => (s', SOk ([B; F; HO; WO],
                         flat4 RN (map (conv_delayed_map RN g (cv_w RN k) (cv_b RN k) NN) (nest4 RN B NN L F v))))
        end
      else (s', SOk ([B; F; HO; WO],
                     flat4 RN (map (Conn.conv_map RN g (cv_w RN k) (cv_b RN k)) (nest3 RN B NN L (sout_vals RN o)))))
  end.
Proof.
  unfold conv_forward. cbn [nth length Nat.eqb negb]. rewrite geom_eta.
  destruct Hgeo as (_ & _ & _ & H4 & H5).
  replace ((Conn.outH RN g <=? 0)%Z || (Conn.outW RN g <=? 0)%Z) with false
    by (symmetry; apply orb_false_iff; split; apply Z.leb_gt; assumption).
  rewrite Hshape. reflexivity.
Qed.

Lemma batch_shapes (m : list (list (list (list R)))) :
  (forall y, In y m -> length y = F /\ forall x, In x y -> length x = HO /\ forall r, In r x -> length r = WO) ->
  length m = B ->
  length (flat4 RN m) = (B * (F * (HO * WO)))%nat /\
  forall b f oh ow, (b < B)%nat -> (f < F)%nat -> (oh < HO)%nat -> (ow < WO)%nat ->
    nth (((b * F + f) * HO + oh) * WO + ow) (flat4 RN m) 0 = nth ow (nth oh (nth f (nth b m []) []) []) 0.
Proof.
  intros H Hl. destruct (flat4_uniform m F HO WO H) as (E1 & E2). rewrite Hl in E1, E2. split; [exact E1|exact E2].
Qed.

Lemma HKrows : forall r, In r K -> length r = NN.
Proof. apply HK. Qed.
Lemma HbK : bias_ok (length K) (cv_b RN k).
Proof. destruct HK as (E & _). intros bv Ebv. etransitivity; [exact (Hb bv Ebv)|symmetry; exact E]. Qed.

(* the delayed branch *)
Theorem conv_delayed_forward d : cv_d RN k = Some d -> cdelay RN c <> 0 ->
  exists s' out, conv_forward RN k c s xsh xs inj = (s', SOk ([B; F; HO; WO], out)) /\
    Inv RN c s' p' /\ length out = (B * (F * (HO * WO)))%nat /\
    forall b f oh ow, (b < B)%nat -> (f < F)%nat -> (oh < HO)%nat -> (ow < WO)%nat ->
      nth (((b * F + f) * HO + oh) * WO + ow) out 0 =
      Rsum NN (fun n => mat_at K f n *
                        delayed_cur c p' ((b * NN + n) * L + (oh * WO + ow)) (mat_at (Conn.flatten_kernel RN d) f n))
      + bias_at (cv_b RN k) f.
Proof.
  intros Hd Hdel. rewrite conv_forward_unfold.
  destruct (forward_ok RN c s p ux uinj I Hx) as (s' & Hf & I'). rewrite Hf, Hd. cbn [has].
  rewrite (takes_delayed_true c Hdel).
  destruct (syncurrent_delayed c s' p' I' Hc F (snd (conv_selector RN k)) Hdel) as (vals & Hs & Hl & Hv).
  rewrite Hshape in Hs. cbn [app] in Hs.
  replace (conv_selector RN k) with ([B; NN; L; F], snd (conv_selector RN k)) by reflexivity. rewrite Hs.
  set (m := map (conv_delayed_map RN g (cv_w RN k) (cv_b RN k) NN) (nest4 RN B NN L F vals)).
  assert (HlK : length K = F) by apply HK.
  assert (Hm : forall y, In y m -> length y = F /\ forall x, In x y -> length x = HO /\ forall r, In r x -> length r = WO).
  { intros y Hy. unfold m in Hy. apply in_map_iff in Hy. destruct Hy as (sc & <- & _).
    destruct (conv_delayed_map_shape g (cv_w RN k) (cv_b RN k) NN HbK sc) as (E1 & E2). rewrite E1. split; [exact HlK|exact E2]. }
  assert (Hlm : length m = B) by (unfold m; rewrite map_length; apply nest4_length).
  destruct (batch_shapes m Hm Hlm) as (Elen & Enth).
  eexists s', _. split; [reflexivity|]. split; [exact I'|]. split; [exact Elen|].
  intros b f oh ow Hbb Hff Hoh How.
  etransitivity; [exact (Enth b f oh ow Hbb Hff Hoh How)|].
  unfold m. rewrite (ConnProofs.nth_map_lt _ _ _ []) by (rewrite nest4_length; exact Hbb).
  assert (HfK : (f < length K)%nat) by (rewrite HlK; exact Hff).
  etransitivity; [exact (conv_delayed_map_entry g (cv_w RN k) (cv_b RN k) NN HKrows HbK _ f oh ow HfK Hoh How)|].
  f_equal. apply ConnProofs.Rsum_ext. intros n Hn. f_equal.
  assert (Hlt : (oh * WO + ow < L)%nat) by (unfold cv_L; nia).
  rewrite nth_nest4 by assumption.
  assert (He : ((b * NN + n) * L + (oh * WO + ow) < nel (cshape RN c))%nat).
  { rewrite Hshape, nel3. pose proof (ConnProofs.flat_index_lt b n B NN Hbb Hn) as H1.
    pose proof (ConnProofs.flat_index_lt (b * NN + n) (oh * WO + ow) (B * NN) L H1 Hlt) as H2. lia. }
  etransitivity; [exact (Hv _ f He Hff)|]. f_equal.
  etransitivity; [exact (conv_selector_nth b n _ f Hbb Hn Hlt Hff)|]. unfold conv_delays. rewrite Hd. reflexivity.
Qed.

Lemma cur_out_length3 q : Forall (entry_ok RN c) q -> q <> [] -> length (cur_out RN c q) = (B * (NN * L))%nat.
Proof.
  intros Hq Hne. unfold cur_out, spike_hist.
  pose proof (cur_val_length RN c q Hq) as H1. pose proof (neg_val_length RN c q Hq) as H2.
  rewrite Hshape, nel3 in H1, H2.
  destruct q as [|(x0, i0) q]; [contradiction|]. cbn [nth_error].
  inversion Hq as [|? ? (Hxl & _) _]; subst. cbn [fst] in Hxl. rewrite Hshape, nel3 in Hxl.
  destruct (ckind RN c); rewrite ?map_length, ?zipw_length; change (T RN) with R in *; lia.
Qed.

(* no delay parameter, or a maximum delay of 0 *)
Theorem conv_undelayed_forward : takes_delayed RN c (has (cv_d RN k)) = false ->
  exists s' out, conv_forward RN k c s xsh xs inj = (s', SOk ([B; F; HO; WO], out)) /\
    Inv RN c s' p' /\ length out = (B * (F * (HO * WO)))%nat /\
    forall b f oh ow, (b < B)%nat -> (f < F)%nat -> (oh < HO)%nat -> (ow < WO)%nat ->
      nth (((b * F + f) * HO + oh) * WO + ow) out 0 =
      Rsum NN (fun n => mat_at K f n * nth ((b * NN + n) * L + (oh * WO + ow)) (cur_out RN c p') 0)
      + bias_at (cv_b RN k) f.
Proof.
  intros Hnd. rewrite conv_forward_unfold.
  destruct (forward_ok RN c s p ux uinj I Hx) as (s' & Hf & I'). rewrite Hf, Hnd. cbn [sout_vals].
  set (m := map (Conn.conv_map RN g (cv_w RN k) (cv_b RN k)) (nest3 RN B NN L (cur_out RN c p'))).
  assert (HlK : length K = F) by apply HK.
  assert (Hm : forall y, In y m -> length y = F /\ forall x, In x y -> length x = HO /\ forall r, In r x -> length r = WO).
  { intros y Hy. unfold m in Hy. apply in_map_iff in Hy. destruct Hy as (cur & <- & _).
    destruct (conv_map_shape' g (cv_w RN k) (cv_b RN k) HbK cur) as (E1 & E2). rewrite E1. split; [exact HlK|exact E2]. }
  assert (Hlm : length m = B) by (unfold m; rewrite map_length; apply nest3_length).
  destruct (batch_shapes m Hm Hlm) as (Elen & Enth).
  eexists s', _. split; [reflexivity|]. split; [exact I'|]. split; [exact Elen|].
  intros b f oh ow Hbb Hff Hoh How.
  etransitivity; [exact (Enth b f oh ow Hbb Hff Hoh How)|].
  unfold m. rewrite (ConnProofs.nth_map_lt _ _ _ []) by (rewrite nest3_length; exact Hbb).
  assert (HfK : (f < length K)%nat) by (rewrite HlK; exact Hff).
  assert (Hcl : length (nth b (nest3 RN B NN L (cur_out RN c p')) []) = NN) by (apply nest3_row_length; exact Hbb).
  etransitivity; [exact (conv_map_entry g (cv_w RN k) (cv_b RN k) NN HKrows HbK _ f oh ow Hcl HfK Hoh How)|].
  f_equal. apply ConnProofs.Rsum_ext. intros n Hn. f_equal.
  assert (Hlt : (oh * WO + ow < L)%nat) by (unfold cv_L; nia).
  apply nth_nest3; assumption.
Qed.

(* the learning views in the conv selector layout: entry (b, n, l, f) belongs to kernel element n of filter f at output position l *)
Theorem conv_views_delayed d : cv_d RN k = Some d -> cdelay RN c <> 0 ->
  exists vc vs,
    syncurrent RN c s (has (cv_d RN k)) (conv_selector RN k) = SOk ([B; NN; L; F], vc) /\
    synspike RN c s (has (cv_d RN k)) (conv_selector RN k) = SOk ([B; NN; L; F], vs) /\
    forall b n l f, (b < B)%nat -> (n < NN)%nat -> (l < L)%nat -> (f < F)%nat ->
      nth (((b * NN + n) * L + l) * F + f) vc 0 = delayed_cur c p ((b * NN + n) * L + l) (mat_at (Conn.flatten_kernel RN d) f n) /\
      nth (((b * NN + n) * L + l) * F + f) vs 0 = delayed_spk c p ((b * NN + n) * L + l) (mat_at (Conn.flatten_kernel RN d) f n).
Proof.
  intros Hd Hdel. rewrite Hd. cbn [has].
  destruct (syncurrent_delayed c s p I Hc F (snd (conv_selector RN k)) Hdel) as (vc & Hs & _ & Hv).
  destruct (synspike_delayed c s p I Hc F (snd (conv_selector RN k)) Hdel) as (vs & Hs' & _ & Hv').
  rewrite Hshape in Hs, Hs'. cbn [app] in Hs, Hs'.
  exists vc, vs. replace (conv_selector RN k) with ([B; NN; L; F], snd (conv_selector RN k)) by reflexivity.
  split; [exact Hs|]. split; [exact Hs'|]. intros b n l f Hbb Hn Hl Hff.
  assert (He : ((b * NN + n) * L + l < nel (cshape RN c))%nat).
  { rewrite Hshape, nel3. pose proof (ConnProofs.flat_index_lt b n B NN Hbb Hn) as H1.
    pose proof (ConnProofs.flat_index_lt (b * NN + n) l (B * NN) L H1 Hl) as H2. lia. }
  assert (Es : nth (((b * NN + n) * L + l) * F + f) (snd (conv_selector RN k)) 0 = mat_at (Conn.flatten_kernel RN d) f n).
  { etransitivity; [exact (conv_selector_nth b n l f Hbb Hn Hl Hff)|]. unfold conv_delays. rewrite Hd. reflexivity. }
  split.
  - etransitivity; [exact (Hv _ f He Hff)|]. f_equal. exact Es.
  - etransitivity; [exact (Hv' _ f He Hff)|]. f_equal. exact Es.
Qed.
End Conv.
