(* C06, part 5 (reals): LinearDirect (one synapse per neuron, selector "n -> 1 n 1").  Same statements as for
   LinearDense: general delayed forward, undelayed forward, shift on the grid, relational form, zero delay,
   between grid points, views. *)
From Coq Require Import List ZArith Bool Arith Lia Reals Lra.
From Flocq Require Import Core.Raux Core.Generic_fmt.
From Inferno Require Import Base.Num Base.NumR Gen.Infra Gen.Interpolation C01.Ring C01.RingProofs
  C04.Synapse C04.HistProofs C04.ClosedForms C04.SelectProofs C04.SynapseProofs
  C06.Delay C06.DelaySpec C06.ReadProofs C06.ViewProofs.
From Inferno Require C05.Conn C05.ConnSpec C05.ConnProofs.
Import ListNotations.
Open Scope R_scope.

Lemma direct_map_nth (x : list (list R)) (w : list R) b r o n :
  (r < length x)%nat -> length (nth r x []) = n -> length w = n -> bias_ok n b -> (o < n)%nat ->
  nth o (nth r (Conn.direct_map RN x w b) []) 0 = nth o (nth r x []) 0 * nth o w 0 + bias_at b o.
Proof.
  intros Hr Hx Hw Hb Ho. unfold Conn.direct_map. rewrite (ConnProofs.nth_map_lt _ _ _ []) by exact Hr.
  destruct b as [bv|]; cbn [ConnSpec.bias_at].
  - pose proof (Hb bv eq_refl) as Hlb. rn_simpl.
    rewrite (ConnProofs.map2_nth _ _ _ _ 0 0) by (rewrite ?ConnProofs.map2_length; change (T RN) with R in *; lia).
    rewrite (ConnProofs.map2_nth _ _ _ _ 0 0) by (change (T RN) with R in *; lia). reflexivity.
  - rn_simpl. rewrite (ConnProofs.map2_nth _ _ _ _ 0 0) by (change (T RN) with R in *; lia). lra.
Qed.
Lemma direct_map_row_length (x : list (list R)) (w : list R) b n row :
  (forall xr, In xr x -> length xr = n) -> length w = n -> bias_ok n b ->
  In row (Conn.direct_map RN x w b) -> length row = n.
Proof.
  intros Hx Hw Hb Hin. unfold Conn.direct_map in Hin. apply in_map_iff in Hin. destruct Hin as [xr [<- Hxr]].
  pose proof (Hx xr Hxr) as Hl.
  destruct b as [bv|]; [pose proof (Hb bv eq_refl) as Hlb|]; rn_simpl; rewrite ?ConnProofs.map2_length;
    change (T RN) with R in *; lia.
Qed.
Lemma chunk_rows_In {X} w k (l : list X) row : (k * w <= length l)%nat -> In row (Conn.chunk w k l) -> length row = w.
Proof.
  intros Hl Hin. apply (In_nth _ _ []) in Hin. destruct Hin as (r & Hr & <-). rewrite ConnProofs.chunk_length in Hr.
  apply ConnProofs.chunk_row_length; assumption.
Qed.

Section Direct.
Variable k : direct RN.
Variable c : cfgR.
Variable s : synR.
Variable p : pastR.
Hypothesis I : Inv RN c s p.
Hypothesis Hc : cfg_ok c.
Notation B := (dr_B RN k).
Notation n := (dr_n RN k).
Hypothesis Hshape : cshape RN c = [B; n].
Hypothesis HW : length (dr_w RN k) = n.
Hypothesis Hb : bias_ok n (dr_b RN k).
Hypothesis Hn : (0 < n)%nat.
Variables (xsh : list nat) (xs : list R) (inj : list (list R)).
Hypothesis Hxsh : Conn.flat_shape xsh = [B; n].
Hypothesis Hx : entry_ok RN c (xs, inj).
Notation p' := ((xs, inj) :: p).

Lemma direct_selector_nth b j : (b < B)%nat -> (j < n)%nat ->
  nth ((b * n + j) * 1 + 0) (snd (direct_selector RN k)) 0 = nth j (direct_delays RN k) 0.
Proof.
  intros Hb' Hj. unfold direct_selector. cbn [snd]. replace ((b * n + j) * 1 + 0)%nat with (b * n + j)%nat by lia.
  set (row := fun _ : nat => map (fun m => nth m (direct_delays RN k) (zero RN)) (seq 0 n)).
  rewrite (ConnProofs.flat_map_seq_nth row n 0 B b j 0)
    by (try (intros; unfold row; rewrite map_length, seq_length; reflexivity); assumption).
  unfold row. rewrite ConnProofs.map_seq_nth by exact Hj. reflexivity.
Qed.

Lemma view_shape_direct : Conn.view_shape (B * n) (dr_shape RN k) = B :: dr_shape RN k.
Proof. unfold Conn.view_shape. fold n. unfold dr_n in *. rewrite Nat.div_mul by lia. reflexivity. Qed.

(* what forward does with a B x n tensor of currents v *)
Lemma direct_contract (v : list R) : length v = (B * n)%nat ->
  length (flat2 RN (Conn.direct_map RN (Conn.chunk n B v) (dr_w RN k) (dr_b RN k))) = (B * n)%nat /\
  forall b j, (b < B)%nat -> (j < n)%nat ->
    nth (b * n + j) (flat2 RN (Conn.direct_map RN (Conn.chunk n B v) (dr_w RN k) (dr_b RN k))) 0 =
    nth j (dr_w RN k) 0 * nth (b * n + j) v 0 + bias_at (dr_b RN k) j.
Proof.
  intros Hv. set (x := Conn.chunk n B v).
  assert (Hxr : forall xr, In xr x -> length xr = n) by (intros xr Hin; apply (chunk_rows_In n B v xr); [lia|exact Hin]).
  assert (Hrows : forall row, In row (Conn.direct_map RN x (dr_w RN k) (dr_b RN k)) -> length row = n).
  { intros row Hin. apply (direct_map_row_length x (dr_w RN k) (dr_b RN k) n row Hxr HW Hb Hin). }
  assert (Hlx : length x = B) by (unfold x; apply ConnProofs.chunk_length).
  assert (Hlm : length (Conn.direct_map RN x (dr_w RN k) (dr_b RN k)) = B).
  { unfold Conn.direct_map. rewrite map_length. exact Hlx. }
  unfold flat2. split.
  - etransitivity; [exact (ConnProofs.concat_length_uniform _ n Hrows)|]. rewrite Hlm. reflexivity.
  - intros b j Hbb Hj.
    assert (Hbl : (b < length (Conn.direct_map RN x (dr_w RN k) (dr_b RN k)))%nat) by (rewrite Hlm; exact Hbb).
    etransitivity; [exact (ConnProofs.concat_nth_uniform _ n b j 0 Hrows Hbl Hj)|].
    assert (Hbx : (b < length x)%nat) by (rewrite Hlx; exact Hbb).
    assert (Hrl : length (nth b x []) = n) by (apply Hxr; apply nth_In; exact Hbx).
    etransitivity; [exact (direct_map_nth x (dr_w RN k) (dr_b RN k) b j n Hbx Hrl HW Hb Hj)|].
    unfold x. rewrite ConnProofs.chunk_nth_nth by assumption. rewrite Rmult_comm. reflexivity.
Qed.

Theorem direct_delayed_forward d : dr_d RN k = Some d -> cdelay RN c <> 0 ->
  exists s' out, direct_forward RN k c s xsh xs inj = (s', SOk (B :: dr_shape RN k, out)) /\
    Inv RN c s' p' /\ length out = (B * n)%nat /\
    forall b j, (b < B)%nat -> (j < n)%nat ->
      nth (b * n + j) out 0 = nth j (dr_w RN k) 0 * delayed_cur c p' (b * n + j) (nth j d 0) + bias_at (dr_b RN k) j.
Proof.
  intros Hd Hdel.
  destruct (forward_ok RN c s p xs inj I Hx) as (s' & Hf & I').
  destruct (syncurrent_delayed c s' p' I' Hc 1%nat (snd (direct_selector RN k)) Hdel) as (vals & Hs & Hl & Hv).
  rewrite Hshape in Hs. cbn [app] in Hs. rewrite Hshape, nel2 in Hl.
  unfold direct_forward. rewrite Hxsh, <- Hshape, Hf, Hd. cbn [has]. rewrite (takes_delayed_true c Hdel).
  replace (direct_selector RN k) with ([B; n; 1%nat], snd (direct_selector RN k)) by reflexivity.
  rewrite Hs, view_shape_direct.
  assert (Hlv : length vals = (B * n)%nat) by (change (T RN) with R in *; lia).
  destruct (direct_contract vals Hlv) as (Hlo & Ho).
  eexists s', _. split; [reflexivity|]. split; [exact I'|]. split; [exact Hlo|].
  intros b j Hbb Hj. etransitivity; [exact (Ho b j Hbb Hj)|]. f_equal. f_equal.
  assert (He : (b * n + j < nel (cshape RN c))%nat) by (rewrite Hshape, nel2; nia).
  pose proof (Hv (b * n + j)%nat 0%nat He ltac:(lia)) as H1.
  replace ((b * n + j) * 1 + 0)%nat with (b * n + j)%nat in H1 at 1 by lia.
  etransitivity; [exact H1|]. f_equal.
  etransitivity; [exact (direct_selector_nth b j Hbb Hj)|]. unfold direct_delays. rewrite Hd. reflexivity.
Qed.

Lemma cur_out_length q : Forall (entry_ok RN c) q -> q <> [] -> length (cur_out RN c q) = (B * n)%nat.
Proof.
  intros Hq Hne. unfold cur_out, spike_hist.
  pose proof (cur_val_length RN c q Hq) as H1. pose proof (neg_val_length RN c q Hq) as H2.
  rewrite Hshape, nel2 in H1, H2.
  destruct q as [|(x0, i0) q]; [contradiction|]. cbn [nth_error].
  inversion Hq as [|? ? (Hxl & _) _]; subst. cbn [fst] in Hxl. rewrite Hshape, nel2 in Hxl.
  destruct (ckind RN c); rewrite ?map_length, ?zipw_length; change (T RN) with R in *; lia.
Qed.

Theorem direct_undelayed_forward : takes_delayed RN c (has (dr_d RN k)) = false ->
  exists s' out, direct_forward RN k c s xsh xs inj = (s', SOk (B :: dr_shape RN k, out)) /\
    Inv RN c s' p' /\ length out = (B * n)%nat /\
    forall b j, (b < B)%nat -> (j < n)%nat ->
      nth (b * n + j) out 0 = nth j (dr_w RN k) 0 * nth (b * n + j) (cur_out RN c p') 0 + bias_at (dr_b RN k) j.
Proof.
  intros Hnd.
  destruct (forward_ok RN c s p xs inj I Hx) as (s' & Hf & I').
  unfold direct_forward. rewrite Hxsh, <- Hshape, Hf, Hnd, view_shape_direct. cbn [sout_vals].
  assert (Hcl : length (cur_out RN c p') = (B * n)%nat) by (apply cur_out_length; [exact (inv_p _ _ _ _ I')|discriminate]).
  destruct (direct_contract _ Hcl) as (Hlo & Ho).
  eexists s', _. split; [reflexivity|]. split; [exact I'|]. split; [exact Hlo|]. exact Ho.
Qed.

Theorem direct_views_delayed d : dr_d RN k = Some d -> cdelay RN c <> 0 ->
  exists vc vs,
    syncurrent RN c s (has (dr_d RN k)) (direct_selector RN k) = SOk ([B; n; 1%nat], vc) /\
    synspike RN c s (has (dr_d RN k)) (direct_selector RN k) = SOk ([B; n; 1%nat], vs) /\
    forall b j, (b < B)%nat -> (j < n)%nat ->
      nth (b * n + j) vc 0 = delayed_cur c p (b * n + j) (nth j d 0) /\
      nth (b * n + j) vs 0 = delayed_spk c p (b * n + j) (nth j d 0).
Proof.
  intros Hd Hdel. rewrite Hd. cbn [has].
  destruct (syncurrent_delayed c s p I Hc 1%nat (snd (direct_selector RN k)) Hdel) as (vc & Hs & _ & Hv).
  destruct (synspike_delayed c s p I Hc 1%nat (snd (direct_selector RN k)) Hdel) as (vs & Hs' & _ & Hv').
  rewrite Hshape in Hs, Hs'. cbn [app] in Hs, Hs'.
  exists vc, vs. replace (direct_selector RN k) with ([B; n; 1%nat], snd (direct_selector RN k)) by reflexivity.
  split; [exact Hs|]. split; [exact Hs'|]. intros b j Hbb Hj.
  assert (He : (b * n + j < nel (cshape RN c))%nat) by (rewrite Hshape, nel2; nia).
  assert (Es : nth ((b * n + j) * 1 + 0) (snd (direct_selector RN k)) 0 = nth j d 0).
  { etransitivity; [exact (direct_selector_nth b j Hbb Hj)|]. unfold direct_delays. rewrite Hd. reflexivity. }
  pose proof (Hv (b * n + j)%nat 0%nat He ltac:(lia)) as H1. pose proof (Hv' (b * n + j)%nat 0%nat He ltac:(lia)) as H2.
  rewrite Es in H1, H2. replace ((b * n + j) * 1 + 0)%nat with (b * n + j)%nat in H1, H2 by lia.
  split; assumption.
Qed.
End Direct.

(* ==================================================================== the property *)
Section DirectShift.
Variable k : direct RN.
Variable c : cfgR.
Variable s : synR.
Variable p : pastR.
Hypothesis I : Inv RN c s p.
Hypothesis Hc : cfg_ok c.
Notation B := (dr_B RN k).
Notation n := (dr_n RN k).
Hypothesis Hshape : cshape RN c = [B; n].
Hypothesis HW : length (dr_w RN k) = n.
Hypothesis Hb : bias_ok n (dr_b RN k).
Hypothesis Hn : (0 < n)%nat.
Variables (xsh : list nat) (xs : list R) (inj : list (list R)).
Hypothesis Hxsh : Conn.flat_shape xsh = [B; n].
Hypothesis Hx : entry_ok RN c (xs, inj).
Notation p' := ((xs, inj) :: p).
Variable d : list R.
Hypothesis Hd : dr_d RN k = Some d.
Hypothesis Hdel : cdelay RN c <> 0.

Theorem direct_delayed_forward_is_shift (kk : nat -> nat) :
  (forall j, (j < n)%nat -> on_grid_delay c (nth j d 0) (kk j)) ->
  exists s' out, direct_forward RN k c s xsh xs inj = (s', SOk (B :: dr_shape RN k, out)) /\
    Inv RN c s' p' /\ length out = (B * n)%nat /\
    forall b j, (b < B)%nat -> (j < n)%nat ->
      nth (b * n + j) out 0 = nth j (dr_w RN k) 0 * value_ago c p' (kk j) (b * n + j) + bias_at (dr_b RN k) j.
Proof.
  intros Hg.
  destruct (direct_delayed_forward k c s p I Hc Hshape HW Hb Hn xsh xs inj Hxsh Hx d Hd Hdel) as (s' & out & E & I' & Hl & Hv).
  exists s', out. split; [exact E|]. split; [exact I'|]. split; [exact Hl|]. intros b j Hbb Hj.
  rewrite (Hv b j Hbb Hj). f_equal. f_equal. apply (delayed_cur_on_grid c p' Hc). apply Hg; assumption.
Qed.

Theorem direct_delayed_eq_undelayed_on_shifted (kk : nat -> nat) :
  (forall j, (j < n)%nat -> on_grid_delay c (nth j d 0) (kk j)) ->
  exists s' out, direct_forward RN k c s xsh xs inj = (s', SOk (B :: dr_shape RN k, out)) /\
    forall b j, (b < B)%nat -> (j < n)%nat ->
      nth (b * n + j) out 0 =
      nth j (dr_w RN k) 0 * nth (b * n + j) (cur_out RN (undelayed c) (shifted (undelayed c) p' (kk j))) 0
      + bias_at (dr_b RN k) j.
Proof.
  intros Hg. destruct (direct_delayed_forward_is_shift kk Hg) as (s' & out & E & _ & _ & Hv).
  exists s', out. split; [exact E|]. intros b j Hbb Hj. rewrite (Hv b j Hbb Hj). f_equal. f_equal.
  apply value_ago_is_undelayed_on_shifted.
Qed.

Theorem direct_homogeneous_delay_eq_undelayed_connection (K : nat) (s0 : synR) (q : pastR) x0 inj0 :
  (forall j, (j < n)%nat -> on_grid_delay c (nth j d 0) K) ->
  shifted (undelayed c) p' K = (x0, inj0) :: q ->
  Inv RN (undelayed c) s0 q ->
  exists s' s0' out,
    direct_forward RN k c s xsh xs inj = (s', SOk (B :: dr_shape RN k, out)) /\
    direct_forward RN (direct_no_delay k) (undelayed c) s0 xsh x0 inj0 = (s0', SOk (B :: dr_shape RN k, out)).
Proof.
  intros Hg Hsh I0.
  destruct (direct_delayed_forward_is_shift (fun _ => K) Hg) as (s' & out & E & _ & Hl & Hv).
  assert (Hx0 : entry_ok RN (undelayed c) (x0, inj0)).
  { pose proof (shifted_entry_ok c p' K) as H. rewrite Hsh in H.
    assert (Hp' : Forall (entry_ok RN c) p') by (constructor; [exact Hx|exact (inv_p _ _ _ _ I)]).
    specialize (H Hp'). inversion H; assumption. }
  destruct (direct_undelayed_forward (direct_no_delay k) (undelayed c) s0 q I0 Hshape HW Hb Hn
              xsh x0 inj0 Hxsh Hx0 eq_refl) as (s0' & out0 & E0 & _ & Hl0 & Hv0).
  exists s', s0', out. split; [exact E|]. rewrite E0. f_equal. f_equal. f_equal.
  change (dr_n RN (direct_no_delay k)) with n in *. change (dr_B RN (direct_no_delay k)) with B in *.
  change (dr_w RN (direct_no_delay k)) with (dr_w RN k) in *. change (dr_b RN (direct_no_delay k)) with (dr_b RN k) in *.
  apply (nth_ext _ _ 0 0).
  - change (T RN) with R in *. lia.
  - intros m Hm.
    assert (Hm' : (m < B * n)%nat) by (change (T RN) with R in *; lia).
    assert (Hnp : n <> 0%nat) by lia.
    pose proof (Nat.div_mod m n Hnp) as Hdm. pose proof (Nat.mod_upper_bound m n Hnp) as Hmod.
    assert (Hq : (m / n < B)%nat) by (apply Nat.div_lt_upper_bound; lia).
    assert (En : m = (m / n * n + m mod n)%nat) by lia. clear Hdm.
    set (bq := (m / n)%nat) in *. set (om := (m mod n)%nat) in *. clearbody bq om. subst m.
    etransitivity; [exact (Hv0 _ _ Hq Hmod)|]. symmetry. etransitivity; [exact (Hv _ _ Hq Hmod)|]. f_equal. f_equal.
    etransitivity; [apply value_ago_is_undelayed_on_shifted|]. rewrite Hsh. reflexivity.
Qed.

Theorem direct_delay_zero_is_undelayed (s0 : synR) :
  (forall j, (j < n)%nat -> 0 <= nth j d 0 <= cdelay RN c /\ Rabs (nth j d 0) <= ctol RN c) ->
  Inv RN (undelayed c) s0 p ->
  exists s' s0' out,
    direct_forward RN k c s xsh xs inj = (s', SOk (B :: dr_shape RN k, out)) /\
    direct_forward RN (direct_no_delay k) (undelayed c) s0 xsh xs inj = (s0', SOk (B :: dr_shape RN k, out)).
Proof.
  intros Hz I0. apply (direct_homogeneous_delay_eq_undelayed_connection 0%nat s0 p xs inj).
  - intros j Hj. destruct (Hz j Hj) as (Hr & Ha). split; [exact Hr|].
    cbn [INR]. replace (0 * cdt RN c - nth j d 0) with (- nth j d 0) by ring. rewrite Rabs_Ropp. exact Ha.
  - unfold shifted. cbn [skipn Nat.min repeat]. apply app_nil_r.
  - exact I0.
Qed.

Theorem direct_offgrid_reads_interpolated :
  (forall j, (j < n)%nat -> 0 <= nth j d 0 <= cdelay RN c /\ forall z, ctol RN c < Rabs (IZR z * cdt RN c - nth j d 0)) ->
  exists s' out, direct_forward RN k c s xsh xs inj = (s', SOk (B :: dr_shape RN k, out)) /\
    forall b j, (b < B)%nat -> (j < n)%nat ->
      nth (b * n + j) out 0 = nth j (dr_w RN k) 0 * between_cur c p' (b * n + j) (nth j d 0) + bias_at (dr_b RN k) j.
Proof.
  intros Hg.
  destruct (direct_delayed_forward k c s p I Hc Hshape HW Hb Hn xsh xs inj Hxsh Hx d Hd Hdel) as (s' & out & E & I' & Hl & Hv).
  exists s', out. split; [exact E|]. intros b j Hbb Hj. rewrite (Hv b j Hbb Hj). f_equal. f_equal.
  destruct (Hg j Hj) as (Hr & Hoff). apply (delayed_cur_between c p' Hc _ _ Hr Hoff).
Qed.

Theorem direct_views_agree_with_forward (kk : nat -> nat) :
  (forall j, (j < n)%nat -> on_grid_delay c (nth j d 0) (kk j)) ->
  exists s' out vc vs,
    direct_forward RN k c s xsh xs inj = (s', SOk (B :: dr_shape RN k, out)) /\
    syncurrent RN c s' (has (dr_d RN k)) (direct_selector RN k) = SOk ([B; n; 1%nat], vc) /\
    synspike RN c s' (has (dr_d RN k)) (direct_selector RN k) = SOk ([B; n; 1%nat], vs) /\
    (forall b j, (b < B)%nat -> (j < n)%nat ->
       nth (b * n + j) vc 0 = value_ago c p' (kk j) (b * n + j) /\
       nth (b * n + j) vs 0 = spike_ago c p' (kk j) (b * n + j)) /\
    (forall b j, (b < B)%nat -> (j < n)%nat ->
       nth (b * n + j) out 0 = nth j (dr_w RN k) 0 * nth (b * n + j) vc 0 + bias_at (dr_b RN k) j).
Proof.
  intros Hg.
  destruct (direct_delayed_forward_is_shift kk Hg) as (s' & out & E & I' & _ & Hv).
  destruct (direct_views_delayed k c s' p' I' Hc Hshape HW Hn d Hd Hdel) as (vc & vs & Ec & Es & Hvv).
  exists s', out, vc, vs. split; [exact E|]. split; [exact Ec|]. split; [exact Es|].
  assert (Hent : forall b j, (b < B)%nat -> (j < n)%nat ->
       nth (b * n + j) vc 0 = value_ago c p' (kk j) (b * n + j) /\
       nth (b * n + j) vs 0 = spike_ago c p' (kk j) (b * n + j)).
  { intros b j Hbb Hj. destruct (Hvv b j Hbb Hj) as (H1 & H2). rewrite H1, H2. split.
    - apply (delayed_cur_on_grid c p' Hc). apply Hg; assumption.
    - apply (delayed_spk_on_grid c p' Hc). apply Hg; assumption. }
  split; [exact Hent|]. intros b j Hbb Hj. rewrite (Hv b j Hbb Hj). f_equal. f_equal. symmetry. apply (Hent b j Hbb Hj).
Qed.
End DirectShift.
