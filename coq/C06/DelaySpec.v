(* Specification vocabulary of the C06 theorems (definitions only; real-number instance).

   Everything is phrased over the property's own state: p = the connection's inputs since the last clear, newest
   first (C04 HistProofs.past; for a connection these are the like_synaptic-reshaped inputs).  C04 supplies
     value_ago c p k e  = the current synapse element e had k steps ago   (= cur_out of the history without its k newest inputs)
     spike_ago c p k e  = its spike input k steps ago
   both the resting value (0) when k reaches before the start / the last clear.

   past_cur / past_spk : what the property says a read at time b in [0, max delay] before the present returns -
                         the value k steps ago when b is within tolerance of k*dt, the class's interpolation of the
                         two bracketing past values otherwise.  No ring, no pointer, no selector.
   delayed_cur / delayed_spk : the same with the out-of-range rule (clamp + overbound value) of the synapse's API.
   shifted p k : the input history delayed by k steps (k zero inputs first, the k newest inputs not yet arrived). *)
From Coq Require Import List ZArith Bool Arith Reals.
From Flocq Require Import Core.Raux.
From Inferno Require Import Base.Num Base.NumR Gen.Infra C01.Ring C04.Synapse C04.HistProofs C04.ClosedForms
  C04.SelectProofs C04.SynapseProofs C06.Delay.
From Inferno Require C05.Conn C05.ConnSpec.
Import ListNotations.
Open Scope R_scope.

Notation Rsum := ConnSpec.Rsum.
Notation bias_at := ConnSpec.bias_at.
Notation mat_at := ConnSpec.mat_at.

(* ---------------------------------------------------------------- reading the past *)
Definition nearest_step (c : cfgR) (b : R) : Z := rneZ RN (b / cdt RN c).
Definition on_step (c : cfgR) (b : R) : bool :=
  if Rle_dec (Rabs (IZR (nearest_step c b) * cdt RN c - b)) (ctol RN c) then true else false.

(* between two steps: older = ceil(b/dt) steps ago, newer = floor(b/dt) steps ago, since = time elapsed since the older one *)
Definition between_cur (c : cfgR) (p : pastR) (e : nat) (b : R) : R :=
  let dt := cdt RN c in
  let older := Z.to_nat (Zceil (b / dt)) in
  let newer := Z.to_nat (Zfloor (b / dt)) in
  let since := IZR (Zceil (b / dt)) * dt - b in
  match ckind RN c with
  | KDelta | KDeltaPlus =>
      match cmode RN c with
      | IPrevious => value_ago c p older e
      | INearest => if Rlt_dec (dt / 2) since then value_ago c p newer e else value_ago c p older e
      end
  | KSingleExp => value_ago c p older e * Rexp (- since / ctau RN c)
  | KDoubleExp => pos_ago c p older e * Rexp (- since / ctau RN c) - neg_ago c p older e * Rexp (- since / ctr RN c)
  end.
Definition between_spk (c : cfgR) (p : pastR) (e : nat) (b : R) : R :=
  let dt := cdt RN c in
  let older := Z.to_nat (Zceil (b / dt)) in
  let newer := Z.to_nat (Zfloor (b / dt)) in
  let since := IZR (Zceil (b / dt)) * dt - b in
  match cmode RN c with
  | IPrevious => spike_ago c p older e
  | INearest => if Rlt_dec (dt / 2) since then spike_ago c p newer e else spike_ago c p older e
  end.

Definition past_cur (c : cfgR) (p : pastR) (e : nat) (b : R) : R :=
  if on_step c b then value_ago c p (Z.to_nat (nearest_step c b)) e else between_cur c p e b.
Definition past_spk (c : cfgR) (p : pastR) (e : nat) (b : R) : R :=
  if on_step c b then spike_ago c p (Z.to_nat (nearest_step c b)) e else between_spk c p e b.

(* with the API's rule for delays outside [0, max]: clamp; the configured overbound value (if any) when further than the
   tolerance outside *)
Definition delayed_cur (c : cfgR) (p : pastR) (e : nat) (t : R) : R :=
  read_one (past_cur c p) (cdelay RN c) (ctol RN c) (ccur_ob RN c) e t.
Definition delayed_spk (c : cfgR) (p : pastR) (e : nat) (t : R) : R :=
  boolify RN (read_one (past_spk c p) (cdelay RN c) (ctol RN c) (option_map (b2t RN) (cspk_ob RN c)) e t).

(* ---------------------------------------------------------------- the shifted input history *)
(* zero input of a step: no spike on any synapse, nothing injected *)
Definition rest_entry (c : cfgR) : list R * list (list R) := (zrow RN c, []).
(* the history as seen k steps late: the k newest inputs have not arrived, k resting steps precede the first input *)
Definition shifted (c : cfgR) (p : pastR) (k : nat) : pastR :=
  skipn k p ++ repeat (rest_entry c) (Nat.min k (length p)).

(* the same synapse class without delay support (what a connection built with delay = None / 0 holds) *)
Definition undelayed (c : cfgR) : cfgR :=
  mkCfg RN (ckind RN c) (cshape RN c) (cdt RN c) 0 (cQ RN c) (ctau RN c) (ctr RN c)
        (cmode RN c) (ctol RN c) (ccur_ob RN c) (cspk_ob RN c) (cinplace RN c).

(* ---------------------------------------------------------------- shapes of the parameters *)
Definition is_mat (rows cols : nat) (m : list (list R)) : Prop :=
  length m = rows /\ forall r, In r m -> length r = cols.
Definition bias_ok (n : nat) (b : option (list R)) : Prop := forall bv, b = Some bv -> length bv = n.

(* every entry of the delay tensor is within tolerance of a whole number of steps inside the supported range *)
Definition on_grid_delay (c : cfgR) (t : R) (k : nat) : Prop :=
  0 <= t <= cdelay RN c /\ Rabs (INR k * cdt RN c - t) <= ctol RN c.

(* ---------------------------------------------------------------- the same connections built without a delay parameter *)
Definition dense_no_delay (k : dense RN) : dense RN :=
  mkDense RN (dn_in RN k) (dn_out RN k) (dn_B RN k) (dn_w RN k) (dn_b RN k) None.
Definition direct_no_delay (k : direct RN) : direct RN :=
  mkDirect RN (dr_shape RN k) (dr_B RN k) (dr_w RN k) (dr_b RN k) None.
Definition conv_no_delay (k : conv RN) : conv RN :=
  mkConv RN (cv_g RN k) (cv_B RN k) (cv_w RN k) (cv_b RN k) None.

(* ---------------------------------------------------------------- closed forms and the decomposition by delay *)
(* the documented response of each synapse class to the inputs older than k steps, for synapse element e *)
Definition shifted_response (c : cfgR) (p : pastR) (k e : nat) : R :=
  match ckind RN c with
  | KDelta => isum (resp_delta (cQ RN c) (cdt RN c)) (skipn k (btrain p e))
  | KDeltaPlus => isum (resp_delta (cQ RN c) (cdt RN c)) (skipn k (train p e)) + injected (skipn k p) e
  | KSingleExp => isum (resp_exp (cQ RN c / ctau RN c) (cdt RN c) (ctau RN c)) (skipn k (train p e))
  | KDoubleExp => isum (resp_dexp (cQ RN c) (cdt RN c) (ctau RN c) (ctr RN c)) (skipn k (train p e))
  end.

(* time elapsed between the older bracketing step and the delayed instant *)
Definition since_older (c : cfgR) (t : R) : R := IZR (Zceil (t / cdt RN c)) * cdt RN c - t.

(* weights of the synapses delayed by exactly K steps *)
Definition masked_weight (W : list (list R)) (kk : nat -> nat -> nat) (K o i : nat) : R :=
  if (kk o i =? K)%nat then mat_at W o i else 0.
(* entry (b, o) of the undelayed, unbiased dense map with weights W_K applied to the currents of the undelayed synapse on the
   history shifted by K steps (DenseProofs.dense_undelayed_forward: this IS that connection's forward output) *)
Definition undelayed_part (c : cfgR) (p : pastR) (W : list (list R)) (kk : nat -> nat -> nat) (NI K b o : nat) : R :=
  Rsum NI (fun i => masked_weight W kk K o i * nth (b * NI + i) (cur_out RN (undelayed c) (shifted (undelayed c) p K)) 0).
(* the undelayed, unbiased LinearDense with the weights W_K *)
Definition masked_matrix (W : list (list R)) (kk : nat -> nat -> nat) (K NO NI : nat) : list (list R) :=
  map (fun o => map (fun i => masked_weight W kk K o i) (seq 0 NI)) (seq 0 NO).
Definition dense_part (k : dense RN) (kk : nat -> nat -> nat) (K : nat) : dense RN :=
  mkDense RN (dn_in RN k) (dn_out RN k) (dn_B RN k) (masked_matrix (dn_w RN k) kk K (dn_O RN k) (dn_I RN k)) None None.
