(* C06, part 7 (reals): the property for Conv2D: the delay of kernel element n = (c, i, j) of filter f shifts, at every
   output position, the contribution of that kernel element in time.  Same statements as DenseShift.v. *)
From Coq Require Import List ZArith Bool Arith Lia Reals Lra.
From Flocq Require Import Core.Raux Core.Generic_fmt.
From Inferno Require Import Base.Num Base.NumR Gen.Infra Gen.Interpolation C01.Ring C01.RingProofs
  C04.Synapse C04.HistProofs C04.ClosedForms C04.SelectProofs C04.SynapseProofs
  C06.Delay C06.DelaySpec C06.ReadProofs C06.ViewProofs C06.DirectProofs C06.ConvProofs.
From Inferno Require C05.Conn C05.ConnSpec C05.ConnProofs.
Import ListNotations.
Open Scope R_scope.

Lemma index2 m A Bn : (m < A * Bn)%nat -> exists a b, (a < A)%nat /\ (b < Bn)%nat /\ m = (a * Bn + b)%nat.
Proof.
  intros H. assert (HB : Bn <> 0%nat) by (intros ->; lia).
  exists (m / Bn)%nat, (m mod Bn)%nat. pose proof (Nat.div_mod m Bn HB). pose proof (Nat.mod_upper_bound m Bn HB).
  split; [apply Nat.div_lt_upper_bound; lia|]. split; lia.
Qed.
Lemma index4 m A Bn Cn Dn : (m < A * (Bn * (Cn * Dn)))%nat ->
  exists a b c d, (a < A)%nat /\ (b < Bn)%nat /\ (c < Cn)%nat /\ (d < Dn)%nat /\ m = (((a * Bn + b) * Cn + c) * Dn + d)%nat.
Proof.
  intros H. destruct (index2 m (A * Bn * Cn) Dn ltac:(lia)) as (q & d & Hq & Hd & ->).
  destruct (index2 q (A * Bn) Cn Hq) as (r & c & Hr & Hc & ->).
  destruct (index2 r A Bn Hr) as (a & b & Ha & Hb & ->).
  exists a, b, c, d. repeat split; assumption.
Qed.

Section ConvShift.
Variable k : conv RN.
Variable c : cfgR.
Variable s : synR.
Variable p : pastR.
Hypothesis I : Inv RN c s p.
Hypothesis Hc : cfg_ok c.
Notation g := (cv_g RN k).
Notation B := (cv_B RN k).
Notation NN := (cv_N RN k).
Notation L := (cv_L RN k).
Notation F := (cv_F RN k).
Notation HO := (cv_HO RN k).
Notation WO := (cv_WO RN k).
Notation K := (Conn.flatten_kernel RN (cv_w RN k)).
Hypothesis Hshape : cshape RN c = [B; NN; L].
Hypothesis HK : is_mat F NN K.
Hypothesis Hb : bias_ok F (cv_b RN k).
Hypothesis Hgeo : (0 <= Conn.gC g)%Z /\ (0 <= Conn.gH g)%Z /\ (0 <= Conn.gW g)%Z /\ (0 < Conn.outH RN g)%Z /\ (0 < Conn.outW RN g)%Z.
Variables (xs : list R) (inj : list (list R)).
Notation xsh := [B; Z.to_nat (Conn.gC g); Z.to_nat (Conn.gH g); Z.to_nat (Conn.gW g)].
Notation ux := (conv_unfolded k xs).
Notation uinj := (map (conv_unfolded k) inj).
Hypothesis Hx : entry_ok RN c (ux, uinj).
Notation p' := ((ux, uinj) :: p).
Variable d : kernel4 RN.
Hypothesis Hd : cv_d RN k = Some d.
Hypothesis Hdel : cdelay RN c <> 0.
Notation D := (Conn.flatten_kernel RN d).

Theorem conv_delayed_forward_is_shift (kk : nat -> nat -> nat) :
  (forall f n, (f < F)%nat -> (n < NN)%nat -> on_grid_delay c (mat_at D f n) (kk f n)) ->
  exists s' out, conv_forward RN k c s xsh xs inj = (s', SOk ([B; F; HO; WO], out)) /\
    Inv RN c s' p' /\ length out = (B * (F * (HO * WO)))%nat /\
    forall b f oh ow, (b < B)%nat -> (f < F)%nat -> (oh < HO)%nat -> (ow < WO)%nat ->
      nth (((b * F + f) * HO + oh) * WO + ow) out 0 =
      Rsum NN (fun n => mat_at K f n * value_ago c p' (kk f n) ((b * NN + n) * L + (oh * WO + ow))) + bias_at (cv_b RN k) f.
Proof.
  intros Hg.
  destruct (conv_delayed_forward k c s p I Hc Hshape HK Hb Hgeo xs inj Hx d Hd Hdel) as (s' & out & E & I' & Hl & Hv).
  exists s', out. split; [exact E|]. split; [exact I'|]. split; [exact Hl|]. intros b f oh ow Hbb Hff Hoh How.
  rewrite (Hv b f oh ow Hbb Hff Hoh How). f_equal.
  apply ConnProofs.Rsum_ext. intros n Hn. f_equal. apply (delayed_cur_on_grid c p' Hc). apply Hg; assumption.
Qed.

Theorem conv_delayed_eq_undelayed_on_shifted (kk : nat -> nat -> nat) :
  (forall f n, (f < F)%nat -> (n < NN)%nat -> on_grid_delay c (mat_at D f n) (kk f n)) ->
  exists s' out, conv_forward RN k c s xsh xs inj = (s', SOk ([B; F; HO; WO], out)) /\
    forall b f oh ow, (b < B)%nat -> (f < F)%nat -> (oh < HO)%nat -> (ow < WO)%nat ->
      nth (((b * F + f) * HO + oh) * WO + ow) out 0 =
      Rsum NN (fun n => mat_at K f n *
                        nth ((b * NN + n) * L + (oh * WO + ow)) (cur_out RN (undelayed c) (shifted (undelayed c) p' (kk f n))) 0)
      + bias_at (cv_b RN k) f.
Proof.
  intros Hg. destruct (conv_delayed_forward_is_shift kk Hg) as (s' & out & E & _ & _ & Hv).
  exists s', out. split; [exact E|]. intros b f oh ow Hbb Hff Hoh How. rewrite (Hv b f oh ow Hbb Hff Hoh How). f_equal.
  apply ConnProofs.Rsum_ext. intros n Hn. f_equal. apply value_ago_is_undelayed_on_shifted.
Qed.

(* one common delay of K0 steps: the undelayed Conv2D on the input history shifted by K0 steps.  The undelayed copy's synapse
   has seen q and now receives the (unfolded) shifted input x0 : the statement is about the two forward contractions *)
Theorem conv_homogeneous_delay_eq_undelayed_connection (K0 : nat) (s0 : synR) (q : pastR) (xs0 : list R) (inj0 : list (list R)) :
  (forall f n, (f < F)%nat -> (n < NN)%nat -> on_grid_delay c (mat_at D f n) K0) ->
  shifted (undelayed c) p' K0 = (conv_unfolded k xs0, map (conv_unfolded k) inj0) :: q ->
  Inv RN (undelayed c) s0 q ->
  exists s' s0' out,
    conv_forward RN k c s xsh xs inj = (s', SOk ([B; F; HO; WO], out)) /\
    conv_forward RN (conv_no_delay k) (undelayed c) s0 xsh xs0 inj0 = (s0', SOk ([B; F; HO; WO], out)).
Proof.
  intros Hg Hsh I0.
  destruct (conv_delayed_forward_is_shift (fun _ _ => K0) Hg) as (s' & out & E & _ & Hl & Hv).
  assert (Hx0 : entry_ok RN (undelayed c) (conv_unfolded (conv_no_delay k) xs0, map (conv_unfolded (conv_no_delay k)) inj0)).
  { change (conv_unfolded (conv_no_delay k)) with (conv_unfolded k).
    pose proof (shifted_entry_ok c p' K0) as H. rewrite Hsh in H.
    assert (Hp' : Forall (entry_ok RN c) p') by (constructor; [exact Hx|exact (inv_p _ _ _ _ I)]).
    specialize (H Hp'). inversion H; assumption. }
  destruct (conv_undelayed_forward (conv_no_delay k) (undelayed c) s0 q I0 Hshape HK Hb Hgeo xs0 inj0 Hx0 eq_refl)
    as (s0' & out0 & E0 & _ & Hl0 & Hv0).
  change (conv_unfolded (conv_no_delay k)) with (conv_unfolded k) in *.
  change (cv_g RN (conv_no_delay k)) with g in *. change (cv_B RN (conv_no_delay k)) with B in *.
  change (cv_N RN (conv_no_delay k)) with NN in *. change (cv_L RN (conv_no_delay k)) with L in *.
  change (cv_F RN (conv_no_delay k)) with F in *. change (cv_HO RN (conv_no_delay k)) with HO in *.
  change (cv_WO RN (conv_no_delay k)) with WO in *.
  change (cv_w RN (conv_no_delay k)) with (cv_w RN k) in *. change (cv_b RN (conv_no_delay k)) with (cv_b RN k) in *.
  exists s', s0', out. split; [exact E|]. rewrite E0. f_equal. f_equal. f_equal.
  apply (nth_ext _ _ 0 0).
  - change (T RN) with R in *. lia.
  - intros m Hm.
    assert (Hm' : (m < B * (F * (HO * WO)))%nat) by (change (T RN) with R in *; lia).
    destruct (index4 m B F HO WO Hm') as (b & f & oh & ow & Hbb & Hff & Hoh & How & ->).
    etransitivity; [exact (Hv0 b f oh ow Hbb Hff Hoh How)|]. symmetry.
    etransitivity; [exact (Hv b f oh ow Hbb Hff Hoh How)|]. f_equal.
    apply ConnProofs.Rsum_ext. intros n Hn. f_equal.
    etransitivity; [apply value_ago_is_undelayed_on_shifted|]. rewrite Hsh. reflexivity.
Qed.

Theorem conv_delay_zero_is_undelayed (s0 : synR) :
  (forall f n, (f < F)%nat -> (n < NN)%nat -> 0 <= mat_at D f n <= cdelay RN c /\ Rabs (mat_at D f n) <= ctol RN c) ->
  Inv RN (undelayed c) s0 p ->
  exists s' s0' out,
    conv_forward RN k c s xsh xs inj = (s', SOk ([B; F; HO; WO], out)) /\
    conv_forward RN (conv_no_delay k) (undelayed c) s0 xsh xs inj = (s0', SOk ([B; F; HO; WO], out)).
Proof.
  intros Hz I0. apply (conv_homogeneous_delay_eq_undelayed_connection 0%nat s0 p xs inj).
  - intros f n Hf Hn. destruct (Hz f n Hf Hn) as (Hr & Ha). split; [exact Hr|].
    cbn [INR]. replace (0 * cdt RN c - mat_at D f n) with (- mat_at D f n) by ring. rewrite Rabs_Ropp. exact Ha.
  - unfold shifted. cbn [skipn Nat.min repeat]. apply app_nil_r.
  - exact I0.
Qed.

Theorem conv_offgrid_reads_interpolated :
  (forall f n, (f < F)%nat -> (n < NN)%nat ->
     0 <= mat_at D f n <= cdelay RN c /\ forall z, ctol RN c < Rabs (IZR z * cdt RN c - mat_at D f n)) ->
  exists s' out, conv_forward RN k c s xsh xs inj = (s', SOk ([B; F; HO; WO], out)) /\
    forall b f oh ow, (b < B)%nat -> (f < F)%nat -> (oh < HO)%nat -> (ow < WO)%nat ->
      nth (((b * F + f) * HO + oh) * WO + ow) out 0 =
      Rsum NN (fun n => mat_at K f n * between_cur c p' ((b * NN + n) * L + (oh * WO + ow)) (mat_at D f n)) + bias_at (cv_b RN k) f.
Proof.
  intros Hg.
  destruct (conv_delayed_forward k c s p I Hc Hshape HK Hb Hgeo xs inj Hx d Hd Hdel) as (s' & out & E & I' & Hl & Hv).
  exists s', out. split; [exact E|]. intros b f oh ow Hbb Hff Hoh How. rewrite (Hv b f oh ow Hbb Hff Hoh How). f_equal.
  apply ConnProofs.Rsum_ext. intros n Hn. f_equal. destruct (Hg f n Hff Hn) as (Hr & Hoff).
  apply (delayed_cur_between c p' Hc _ _ Hr Hoff).
Qed.

Theorem conv_views_agree_with_forward (kk : nat -> nat -> nat) :
  (forall f n, (f < F)%nat -> (n < NN)%nat -> on_grid_delay c (mat_at D f n) (kk f n)) ->
  exists s' out vc vs,
    conv_forward RN k c s xsh xs inj = (s', SOk ([B; F; HO; WO], out)) /\
    syncurrent RN c s' (has (cv_d RN k)) (conv_selector RN k) = SOk ([B; NN; L; F], vc) /\
    synspike RN c s' (has (cv_d RN k)) (conv_selector RN k) = SOk ([B; NN; L; F], vs) /\
    (forall b n l f, (b < B)%nat -> (n < NN)%nat -> (l < L)%nat -> (f < F)%nat ->
       nth (((b * NN + n) * L + l) * F + f) vc 0 = value_ago c p' (kk f n) ((b * NN + n) * L + l) /\
       nth (((b * NN + n) * L + l) * F + f) vs 0 = spike_ago c p' (kk f n) ((b * NN + n) * L + l)) /\
    (forall b f oh ow, (b < B)%nat -> (f < F)%nat -> (oh < HO)%nat -> (ow < WO)%nat ->
       nth (((b * F + f) * HO + oh) * WO + ow) out 0 =
       Rsum NN (fun n => mat_at K f n * nth (((b * NN + n) * L + (oh * WO + ow)) * F + f) vc 0) + bias_at (cv_b RN k) f).
Proof.
  intros Hg.
  destruct (conv_delayed_forward_is_shift kk Hg) as (s' & out & E & I' & _ & Hv).
  destruct (conv_views_delayed k c s' p' I' Hc Hshape d Hd Hdel) as (vc & vs & Ec & Es & Hvv).
  exists s', out, vc, vs. split; [exact E|]. split; [exact Ec|]. split; [exact Es|].
  assert (Hent : forall b n l f, (b < B)%nat -> (n < NN)%nat -> (l < L)%nat -> (f < F)%nat ->
       nth (((b * NN + n) * L + l) * F + f) vc 0 = value_ago c p' (kk f n) ((b * NN + n) * L + l) /\
       nth (((b * NN + n) * L + l) * F + f) vs 0 = spike_ago c p' (kk f n) ((b * NN + n) * L + l)).
  { intros b n l f Hbb Hn Hl Hff. destruct (Hvv b n l f Hbb Hn Hl Hff) as (H1 & H2). rewrite H1, H2. split.
    - apply (delayed_cur_on_grid c p' Hc). apply Hg; assumption.
    - apply (delayed_spk_on_grid c p' Hc). apply Hg; assumption. }
  split; [exact Hent|]. intros b f oh ow Hbb Hff Hoh How. rewrite (Hv b f oh ow Hbb Hff Hoh How). f_equal.
  apply ConnProofs.Rsum_ext. intros n Hn. f_equal. symmetry.
  assert (Hlt : (oh * WO + ow < L)%nat) by (unfold cv_L; nia).
  apply (Hent b n _ f Hbb Hn Hlt Hff).
Qed.
End ConvShift.
