(* C11 - batch samples never interact: LinearHomeostasis, about the finished model C09/Split.v (reused unchanged), over
   the reals.  The model describes one parameter element: targets / rates are [batch][receptive]; the spike_rate monitor
   (a cumulative average) keeps one row per sample and one shared step counter.

   C1  h_observe_per_sample      row b of the monitor state after a step depends only on row b before and on row b of the
                                 spikes: observing the single row IS the row of the batched observation (no side
                                 condition, any shapes);
   C2  h_forward_parts_sum_persample   with the sum reduction both parts of h_forward are the sums over the samples of the
                                 parts of h_forward on the single rows [nth b targets], [nth b rates];
   C3  h_step_state_per_sample / h_step_parts_sum_persample / h_run_states_per_sample / h_run_parts_sum_persample
                                 the same for a step and at every step of a whole run: the batch-1 trainer run on sample
                                 b's spikes and targets has the row of the batched monitor as its state and the batched
                                 parts are the sums over b of the batch-1 parts.

   Sums over the sample index use C08's [sum_steps]; parts are read through C09's [pv] (None = 0; LinearHomeostasis
   always hands both parts). *)
From Coq Require Import List ZArith Bool Reals Lra Lia Arith.
From Inferno Require Import Base.Num Base.NumR C09.Split C09.HomeoProofs.
From Inferno Require C08.StdpSpec C08.StdpProofs.
Import ListNotations.
Open Scope R_scope.

Local Notation sum_steps := Inferno.C08.StdpSpec.sum_steps.

Lemma tsum_nth {A} (g : A -> R) (d : A) l : tsum RN (map g l) = sum_steps (length l) (fun b => g (nth b l d)).
Proof. rewrite Inferno.C08.StdpProofs.tsum_RN. apply Inferno.C08.StdpProofs.rsum_nth. Qed.
Lemma sum_steps_ext n f g : (forall t, (t < n)%nat -> f t = g t) -> sum_steps n f = sum_steps n g.
Proof. apply Inferno.C08.StdpProofs.sum_steps_ext. Qed.
Lemma sum_steps_zero n : sum_steps n (fun _ => 0) = 0.
Proof. apply Inferno.C08.StdpProofs.sum_steps_zero. Qed.

(* ================================================================== C1. the monitor is per sample *)
(* sample b's view of the monitor state: the shared step counter and row b of the rates *)
Definition row_st (b : nat) (st : hstate RN) : hstate RN :=
  mkH RN (h_count RN st) (option_map (fun r => [nth b r []]) (h_rate RN st)).
Definition row {A} (b : nat) (x : list (list A)) : list (list A) := [nth b x []].

Lemma nth_zip2 {A B C} (F : A -> B -> C) da db dc : (forall y, F da y = dc) -> (forall x, F x db = dc) ->
  forall la lb b, nth b (zip2 F la lb) dc = F (nth b la da) (nth b lb db).
Proof.
  intros H1 H2. induction la as [|a la IH]; intros [|y lb] b; cbn [zip2].
  - destruct b; cbn [nth]; symmetry; apply H1.
  - destruct b; cbn [nth]; symmetry; apply H1.
  - destruct b; cbn [nth]; symmetry; apply H2.
  - destruct b as [|b]; cbn [nth]; [reflexivity|]. apply IH.
Qed.
Lemma zip2_nil_r {A B C} (f : A -> B -> C) la : zip2 f la [] = [].
Proof. destruct la; reflexivity. Qed.

Theorem h_observe_per_sample b st spikes :
  h_observe RN (row_st b st) (row b spikes) = row_st b (h_observe RN st spikes).
Proof.
  unfold h_observe, row_st, row. cbn [h_count h_rate option_map]. f_equal. f_equal.
  destruct (h_rate RN st) as [r|]; cbn [option_map].
  - cbn [zip2]. f_equal. symmetry. apply nth_zip2; [reflexivity | apply zip2_nil_r].
  - cbn [map]. f_equal. symmetry. apply (map_nth (map _) spikes [] b).
Qed.

(* independence proper: two batched monitors that agree on row b stay in agreement on row b, whatever the other rows do *)
Corollary h_observe_independent b st st' spikes spikes' :
  row_st b st = row_st b st' -> nth b spikes [] = nth b spikes' [] ->
  row_st b (h_observe RN st spikes) = row_st b (h_observe RN st' spikes').
Proof. intros E1 E2. rewrite <- !h_observe_per_sample. unfold row. rewrite E1, E2. reflexivity. Qed.

(* ================================================================== C2. one forward, sum reduction *)
Lemma zip2_as_map {A B C} (f : A -> B -> C) la lb : zip2 f la lb = map (fun z => f (fst z) (snd z)) (combine la lb).
Proof. revert lb. induction la as [|a la IH]; intros [|y lb]; cbn [zip2 combine map]; try reflexivity. rewrite IH. reflexivity. Qed.

Theorem h_forward_parts_sum_persample p lam targets rates B : length targets = B -> length rates = B ->
  pv (fst (h_forward RN HSum p lam targets rates))
  = sum_steps B (fun b => pv (fst (h_forward RN HSum p lam (row b targets) (row b rates)))) /\
  pv (snd (h_forward RN HSum p lam targets rates))
  = sum_steps B (fun b => pv (snd (h_forward RN HSum p lam (row b targets) (row b rates)))).
Proof.
  intros H1 H2. unfold h_forward, h_ks, row. cbn [fst snd pv hreduce zip2 map tsum].
  rewrite zip2_as_map, !map_map, !(tsum_nth _ ([], [])), combine_length, H1, H2, Nat.min_id.
  split; apply sum_steps_ext; intros b Hb; rewrite combine_nth by lia; cbn [fst snd]; rn_simpl; change (T RN) with R; lra.
Qed.

(* ================================================================== C3. steps and runs *)
Definition rates_of (st : hstate RN) : list (list R) := match h_rate RN st with Some r => r | None => [] end.
Lemma rates_of_row b st : h_rate RN st <> None -> rates_of (row_st b st) = row b (rates_of st).
Proof. unfold rates_of, row_st, row. cbn [h_rate]. destruct (h_rate RN st); [reflexivity|congruence]. Qed.

(* the monitor state of the batch-1 trainer on sample b is row b of the batched monitor: any reduction, any shapes *)
Theorem h_step_state_per_sample rk p lam targets b st spikes :
  fst (h_step RN rk p lam (row b targets) (row_st b st) (row b spikes)) = row_st b (fst (h_step RN rk p lam targets st spikes)).
Proof. unfold h_step. cbn [fst]. apply h_observe_per_sample. Qed.

(* the monitor holds one row per sample *)
Definition rows_ok (B : nat) (st : hstate RN) : Prop :=
  match h_rate RN st with Some r => length r = B | None => True end.
Lemma zip2_length {A B C} (f : A -> B -> C) la lb : length (zip2 f la lb) = Nat.min (length la) (length lb).
Proof. revert lb. induction la as [|a la IH]; intros [|y lb]; cbn [zip2 length Nat.min]; try reflexivity. rewrite IH. reflexivity. Qed.
Lemma h_observe_rows B st spikes : rows_ok B st -> length spikes = B ->
  length (rates_of (h_observe RN st spikes)) = B /\ rows_ok B (h_observe RN st spikes).
Proof.
  intros Hr Hs. unfold rows_ok, rates_of, h_observe in *. cbn [h_rate].
  destruct (h_rate RN st) as [r|]; split; rewrite ?zip2_length, ?map_length; lia.
Qed.

Lemma h_step_snd rk p lam targets st spikes :
  snd (h_step RN rk p lam targets st spikes) = h_forward RN rk p lam targets (rates_of (h_observe RN st spikes)).
Proof. reflexivity. Qed.

Theorem h_step_parts_sum_persample p lam targets B st spikes :
  length targets = B -> length spikes = B -> rows_ok B st ->
  pv (fst (snd (h_step RN HSum p lam targets st spikes)))
  = sum_steps B (fun b => pv (fst (snd (h_step RN HSum p lam (row b targets) (row_st b st) (row b spikes))))) /\
  pv (snd (snd (h_step RN HSum p lam targets st spikes)))
  = sum_steps B (fun b => pv (snd (snd (h_step RN HSum p lam (row b targets) (row_st b st) (row b spikes))))).
Proof.
  intros Ht Hs Hr. rewrite h_step_snd.
  destruct (h_observe_rows B st spikes Hr Hs) as [Hl _].
  destruct (h_forward_parts_sum_persample p lam targets (rates_of (h_observe RN st spikes)) B Ht Hl) as [E1 E2].
  rewrite E1, E2. split; apply sum_steps_ext; intros b Hb; rewrite h_step_snd, h_observe_per_sample;
    rewrite rates_of_row by (unfold h_observe; cbn [h_rate]; discriminate); reflexivity.
Qed.

Lemma h_run_cons rk p lam targets st s tl :
  h_run RN rk p lam targets st (s :: tl)
  = h_step RN rk p lam targets st s :: h_run RN rk p lam targets (fst (h_step RN rk p lam targets st s)) tl.
Proof. reflexivity. Qed.

Theorem h_run_states_per_sample rk p lam targets b steps : forall st,
  map fst (h_run RN rk p lam (row b targets) (row_st b st) (map (row b) steps))
  = map (row_st b) (map fst (h_run RN rk p lam targets st steps)).
Proof.
  induction steps as [|s tl IH]; intros st; [reflexivity|].
  cbn [map]. rewrite !h_run_cons. cbn [map]. rewrite h_step_state_per_sample. f_equal. apply IH.
Qed.

Definition no_hstep : hstate RN * uparts RN := (h_init RN, (None, None)).

Theorem h_run_parts_sum_persample p lam targets B steps :
  length targets = B -> Forall (fun s => length s = B) steps -> forall st t, rows_ok B st ->
  pv (fst (snd (nth t (h_run RN HSum p lam targets st steps) no_hstep)))
  = sum_steps B (fun b => pv (fst (snd (nth t (h_run RN HSum p lam (row b targets) (row_st b st) (map (row b) steps)) no_hstep)))) /\
  pv (snd (snd (nth t (h_run RN HSum p lam targets st steps) no_hstep)))
  = sum_steps B (fun b => pv (snd (snd (nth t (h_run RN HSum p lam (row b targets) (row_st b st) (map (row b) steps)) no_hstep)))).
Proof.
  intros Ht Hok. induction Hok as [|s tl Hs _ IH]; intros st t Hr.
  - cbn [map h_run]. destruct t; cbn [nth no_hstep snd fst pv]; rewrite sum_steps_zero; split; reflexivity.
  - cbn [map]. rewrite h_run_cons. destruct t as [|t]; cbn [nth].
    + destruct (h_step_parts_sum_persample p lam targets B st s Ht Hs Hr) as [E1 E2]. rewrite E1, E2.
      split; apply sum_steps_ext; intros b Hb; rewrite h_run_cons; reflexivity.
    + assert (Hr' : rows_ok B (fst (h_step RN HSum p lam targets st s)))
        by (unfold h_step; cbn [fst]; apply (h_observe_rows B st s Hr Hs)).
      destruct (IH (fst (h_step RN HSum p lam targets st s)) t Hr') as [E1 E2]. rewrite E1, E2.
      split; apply sum_steps_ext; intros b Hb; rewrite h_run_cons; cbn [nth];
        rewrite h_step_state_per_sample; reflexivity.
Qed.

(* a fresh trainer (no observation yet) *)
Corollary h_run_fresh_sum_persample p lam targets B steps t :
  length targets = B -> Forall (fun s => length s = B) steps ->
  (forall b, map fst (h_run RN HSum p lam (row b targets) (h_init RN) (map (row b) steps))
             = map (row_st b) (map fst (h_run RN HSum p lam targets (h_init RN) steps))) /\
  pv (fst (snd (nth t (h_run RN HSum p lam targets (h_init RN) steps) no_hstep)))
  = sum_steps B (fun b => pv (fst (snd (nth t (h_run RN HSum p lam (row b targets) (h_init RN) (map (row b) steps)) no_hstep)))) /\
  pv (snd (snd (nth t (h_run RN HSum p lam targets (h_init RN) steps) no_hstep)))
  = sum_steps B (fun b => pv (snd (snd (nth t (h_run RN HSum p lam (row b targets) (h_init RN) (map (row b) steps)) no_hstep)))).
Proof.
  intros Ht Hok. split.
  - intros b. exact (h_run_states_per_sample HSum p lam targets b steps (h_init RN)).
  - exact (h_run_parts_sum_persample p lam targets B steps Ht Hok (h_init RN) t I).
Qed.
