(* C11 - batch samples never interact.
   In every model of this development a batched state is the list of its per-sample states and the
   per-sample kernels are the generated element-wise functions, so independence holds by construction;
   the theorems below state that construction explicitly and prove the facts about the few places where
   the code contracts or reduces over the batch dimension (F.linear / einsum rows, sum reduction of
   trainer parts).  They are thin on purpose: the weight of C11 is carried by the translator's
   fail-closed element-wise subset and by the relational differential check on the implementation. *)
From Coq Require Import List Reals Lra Lia.
From Inferno Require Import Base.Num Base.NumR.
Import ListNotations.

Section Generic.
Context {S I O : Type}.
Variable step : S -> I -> S * O.
(* one batched step: every sample advanced by its own input *)
Fixpoint bstep (ss : list S) (xs : list I) : list S * list O :=
  match ss, xs with
  | s :: ss', x :: xs' => let '(s', o) := step s x in let '(r, os) := bstep ss' xs' in (s' :: r, o :: os)
  | _, _ => ([], [])
  end.
Fixpoint run1 (s : S) (xs : list I) : S * list O :=
  match xs with [] => (s, []) | x :: t => let '(s', o) := step s x in let '(sf, os) := run1 s' t in (sf, o :: os) end.
(* inputs are time-major: xss is the list over time of the list over samples *)
Fixpoint brun (ss : list S) (xss : list (list I)) : list S * list (list O) :=
  match xss with [] => (ss, []) | xs :: t => let '(ss', os) := bstep ss xs in let '(sf, oss) := brun ss' t in (sf, os :: oss) end.

Lemma bstep_nth ss xs b s x ds (dx : I) d_o : length ss = length xs ->
  nth_error ss b = Some s -> nth_error xs b = Some x ->
  nth b (fst (bstep ss xs)) ds = fst (step s x) /\ nth b (snd (bstep ss xs)) d_o = snd (step s x).
Proof.
  revert xs b. induction ss as [|s0 ss IH]; intros [|x0 xs] b Hl Hs Hx; try (destruct b; discriminate).
  cbn [bstep]. destruct (step s0 x0) as [s0' o0] eqn:E0. destruct (bstep ss xs) as [r os] eqn:Er.
  destruct b as [|b]; cbn in Hs, Hx.
  - injection Hs as <-. injection Hx as <-. rewrite E0. cbn. auto.
  - cbn [fst snd nth]. specialize (IH xs b ltac:(cbn in Hl; lia) Hs Hx). rewrite Er in IH. exact IH.
Qed.
Lemma bstep_length ss xs : length ss = length xs -> length (fst (bstep ss xs)) = length ss.
Proof.
  revert xs; induction ss as [|s ss IH]; intros [|x xs] Hl; cbn in *; try lia.
  destruct (step s x). specialize (IH xs ltac:(lia)). destruct (bstep ss xs). cbn in *. lia.
Qed.

(* sample b of a batched run, at every step, is the single-sample run of sample b *)
Theorem batch_run_is_per_sample_run : forall xss ss b s ds d_o,
  Forall (fun xs => length xs = length ss) xss -> nth_error ss b = Some s ->
  forall dx,
  nth b (fst (brun ss xss)) ds = fst (run1 s (map (fun xs => nth b xs dx) xss)) /\
  map (fun os => nth b os d_o) (snd (brun ss xss)) = snd (run1 s (map (fun xs => nth b xs dx) xss)).
Proof.
  induction xss as [|xs xss IH]; intros ss b s ds d_o Hall Hs dx; cbn [brun run1 map].
  - cbn. split; [|reflexivity]. apply nth_error_nth. exact Hs.
  - inversion Hall as [|? ? Hl Hall']; subst.
    assert (Hb : (b < length ss)%nat) by (apply nth_error_Some; congruence).
    assert (Hx : nth_error xs b = Some (nth b xs dx)) by (apply nth_error_nth'; lia).
    destruct (bstep_nth ss xs b s (nth b xs dx) ds dx d_o (eq_sym Hl) Hs Hx) as (H1 & H2).
    pose proof (bstep_length ss xs (eq_sym Hl)) as Hlen.
    destruct (bstep ss xs) as [ss' os] eqn:Eb. cbn [fst snd] in *.
    destruct (step s (nth b xs dx)) as [s' o] eqn:Es. cbn [fst snd] in *.
    assert (Hs' : nth_error ss' b = Some s').
    { rewrite <- H1. apply nth_error_nth'. lia. }
    assert (Hall2 : Forall (fun xs0 => length xs0 = length ss') xss).
    { eapply Forall_impl; [|exact Hall']. cbn. intros a Ha. lia. }
    specialize (IH ss' b s' ds d_o Hall2 Hs' dx).
    destruct (brun ss' xss) as [sf oss]. destruct (run1 s' _) as [sf1 os1]. cbn [fst snd map] in *.
    destruct IH as (IH1 & IH2). split; [exact IH1|]. rewrite H2, IH2. reflexivity.
Qed.
End Generic.

(* ---- the places where the code contracts over other axes while keeping the batch axis ---- *)
Open Scope R_scope.
Definition dot (a b : list R) : R := fold_right Rplus 0 (map (fun p => fst p * snd p) (combine a b)).
Definition matvec (W : list (list R)) (x : list R) : list R := map (fun row => dot row x) W.
(* F.linear / einsum 'b i, o i -> b o' on a batch: one row per sample *)
Definition linear_batched (W : list (list R)) (xs : list (list R)) : list (list R) := map (matvec W) xs.

Theorem dense_batched_rowwise W xs b : nth b (linear_batched W xs) [] = if Nat.ltb b (length xs) then matvec W (nth b xs []) else [].
Proof.
  unfold linear_batched. destruct (Nat.ltb_spec b (length xs)) as [Hb|Hb].
  - rewrite (nth_indep _ [] (matvec W [])) by (rewrite map_length; exact Hb). apply map_nth.
  - apply nth_overflow. rewrite map_length. exact Hb.
Qed.

(* trainer parts: the batched outer-product accumulation with a sum reduction is the sum of the
   per-sample parts (einsum 'b o, b i -> o i' versus B runs with B = 1) *)
Definition part1 (post pre : R) : R := post * pre.
Definition part_batched_sum (posts pres : list R) : R := dot posts pres.
Theorem sum_reduction_is_sum_of_samples posts pres :
  part_batched_sum posts pres = fold_right Rplus 0 (map (fun p => part1 (fst p) (snd p)) (combine posts pres)).
Proof. reflexivity. Qed.
Theorem sum_reduction_additive posts1 pres1 posts2 pres2 : length posts1 = length pres1 ->
  part_batched_sum (posts1 ++ posts2) (pres1 ++ pres2) = part_batched_sum posts1 pres1 + part_batched_sum posts2 pres2.
Proof.
  revert pres1; induction posts1 as [|a t IH]; intros [|b u] Hl; cbn in Hl; try lia.
  - unfold part_batched_sum, dot. cbn. lra.
  - unfold part_batched_sum, dot in *. cbn. rewrite IH by lia. lra.
Qed.
