(* C11 - the ONLY cross-sample coupling of the neuron classes: the batch reduction of the adaptation update.
   About the C03 model (coq/C03/Neuron.v), over the reals.

   One forward call with the adaptation update running (adapt = true) on a column with B samples:
     - spikes, voltages, refractory times of sample b are those of the batch-1 instance on sample b's input
       started from the same adaptation ([neuron_forward_sample_dynamics] in NeuronBatch.v, any number type);
     - every entry of the NEW adaptation is the batch mean (torch.mean(value, 0) in the adaptation setter,
       inferno/neural/neurons/mixins.py:52-57, 103-108) of the entries the B batch-1 instances compute
       ([neuron_adaptation_is_batch_mean] below).
   Together: a batched adaptive neuron is B independent batch-1 neurons whose adaptations are averaged after
   every step - nothing else crosses the batch axis. *)
From Coq Require Import List ZArith Bool Arith Lia Reals Lra.
From Inferno Require Import Base.Num Base.NumR Gen.NeuronDynamics Gen.NeuronAdaptation C03.Neuron C11.NeuronBatch.
Import ListNotations.
Open Scope R_scope.

Lemma nth_map3 {A B C D} (f : A -> B -> C -> D) l1 l2 l3 k da db dc dd :
  (k < length l1)%nat -> (k < length l2)%nat -> (k < length l3)%nat ->
  nth k (map3 f l1 l2 l3) dd = f (nth k l1 da) (nth k l2 db) (nth k l3 dc).
Proof.
  revert l2 l3 k; induction l1 as [|a l1 IH]; intros [|b l2] [|c l3] k H1 H2 H3; cbn in *; try lia.
  destruct k; [reflexivity|]. apply IH; lia.
Qed.
Lemma map3_length {A B C D} (f : A -> B -> C -> D) l1 l2 l3 :
  length (map3 f l1 l2 l3) = Nat.min (length l1) (Nat.min (length l2) (length l3)).
Proof. revert l2 l3; induction l1 as [|a l1 IH]; intros [|b l2] [|c l3]; cbn; auto. Qed.
Lemma nth_map4 {A B C D E} (f : A -> B -> C -> D -> E) l1 l2 l3 l4 k da db dc dd de :
  (k < length l1)%nat -> (k < length l2)%nat -> (k < length l3)%nat -> (k < length l4)%nat ->
  nth k (map4 f l1 l2 l3 l4) de = f (nth k l1 da) (nth k l2 db) (nth k l3 dc) (nth k l4 dd).
Proof.
  revert l2 l3 l4 k; induction l1 as [|a l1 IH]; intros [|b l2] [|c l3] [|d l4] k H1 H2 H3 H4; cbn in *; try lia.
  destruct k; [reflexivity|]. apply IH; lia.
Qed.
Lemma map4_length {A B C D E} (f : A -> B -> C -> D -> E) l1 l2 l3 l4 :
  length (map4 f l1 l2 l3 l4) = Nat.min (length l1) (Nat.min (length l2) (Nat.min (length l3) (length l4))).
Proof. revert l2 l3 l4; induction l1 as [|a l1 IH]; intros [|b l2] [|c l3] [|d l4]; cbn; auto. Qed.

Lemma batch_mean_single x : batch_mean RN [x] = x.
Proof. unfold batch_mean. cbn [tsum length Z.of_nat]. rn_simpl. change (IZR (Z.pos (Pos.of_succ_nat 0))) with 1. field. Qed.

(* a list is the list of its entries *)
Lemma map_as_seq {A B} (f : A -> B) l d : map f l = map (fun b => f (nth b l d)) (seq 0 (length l)).
Proof.
  induction l as [|a l IH]; [reflexivity|]. cbn [length seq map nth]. f_equal.
  rewrite <- seq_shift, map_map. exact IH.
Qed.

Section Coupling.
Variables (c : cls) (p : params RN).
Local Notation outs lock col xs := (col_outs RN c p lock col xs).

(* the new adaptation of the batch-1 instance on sample b *)
Definition ad1 (lock : bool) (col : column RN) (xs : list R) (b : nat) : list R :=
  ad RN (snd (col_forward RN c p true lock (pcol RN b col) (prow RN b xs))).

Theorem neuron_adaptation_is_batch_mean lock col xs B :
  length (cells RN col) = B -> length xs = B -> has_adaptation c = true ->
  let a' := ad RN (snd (col_forward RN c p true lock col xs)) in
  (forall b, (b < B)%nat -> length (ad1 lock col xs b) = length a') /\
  (forall k, (k < length a')%nat ->
     nth k a' 0 = batch_mean RN (map (fun b => nth k (ad1 lock col xs b) 0) (seq 0 B))).
Proof.
  intros Hc Hx Ha. cbv zeta. unfold ad1, col_forward. cbn [snd ad].
  assert (Hl : length (outs lock col xs) = B) by (now apply col_outs_length).
  assert (Ho : forall b, (b < B)%nat -> outs lock (pcol RN b col) (prow RN b xs) = [nth b (outs lock col xs) (d_out RN)])
    by (intros b Hb; now apply (col_outs_sample RN c p b B)).
  change (ad RN (pcol RN ?b col)) with (ad RN col).
  destruct c; try discriminate Ha; cbn [cls_adapt].
  - (* ALIF *) unfold adapt_alif. split.
    + intros b Hb. now rewrite !map3_length.
    + intros k Hk. rewrite map3_length in Hk.
      rewrite (nth_map3 _ _ _ _ k 0 0 0 0) by (change (T RN) with R in *; lia).
      rewrite (map_as_seq _ (col_outs RN _ p lock col xs) (d_out RN)), Hl. f_equal. apply map_ext_in. intros b Hb.
      apply in_seq in Hb. rewrite Ho by lia. rewrite (nth_map3 _ _ _ _ k 0 0 0 0) by (change (T RN) with R in *; lia).
      cbn [map]. now rewrite batch_mean_single.
  - (* GLIF2 *) unfold adapt_glif2. split.
    + intros b Hb. now rewrite !map3_length.
    + intros k Hk. rewrite map3_length in Hk.
      rewrite (nth_map3 _ _ _ _ k 0 0 0 0) by (change (T RN) with R in *; lia).
      rewrite (map_as_seq _ (col_outs RN _ p lock col xs) (d_out RN)), Hl. f_equal. apply map_ext_in. intros b Hb.
      apply in_seq in Hb. rewrite Ho by lia. rewrite (nth_map3 _ _ _ _ k 0 0 0 0) by (change (T RN) with R in *; lia).
      cbn [map]. now rewrite batch_mean_single.
  - (* Izhikevich *) unfold adapt_current. split.
    + intros b Hb. now rewrite !map4_length.
    + intros k Hk. rewrite map4_length in Hk.
      rewrite (nth_map4 _ _ _ _ _ k 0 0 0 0 0) by (change (T RN) with R in *; lia).
      rewrite (map_as_seq _ (col_outs RN _ p lock col xs) (d_out RN)), Hl. f_equal. apply map_ext_in. intros b Hb.
      apply in_seq in Hb. rewrite Ho by lia. rewrite (nth_map4 _ _ _ _ _ k 0 0 0 0 0) by (change (T RN) with R in *; lia).
      cbn [map]. now rewrite batch_mean_single.
  - (* AdEx *) unfold adapt_current. split.
    + intros b Hb. now rewrite !map4_length.
    + intros k Hk. rewrite map4_length in Hk.
      rewrite (nth_map4 _ _ _ _ _ k 0 0 0 0 0) by (change (T RN) with R in *; lia).
      rewrite (map_as_seq _ (col_outs RN _ p lock col xs) (d_out RN)), Hl. f_equal. apply map_ext_in. intros b Hb.
      apply in_seq in Hb. rewrite Ho by lia. rewrite (nth_map4 _ _ _ _ _ k 0 0 0 0 0) by (change (T RN) with R in *; lia).
      cbn [map]. now rewrite batch_mean_single.
Qed.

(* the whole population, one forward call, adaptation update running *)
Theorem neuron_forward_coupling lock cs xs B :
  shaped RN B cs -> rows RN B xs -> has_adaptation c = true ->
  let r := forward RN c p true lock cs xs in
  (* sample b: spikes, voltages, refractory times *)
  (forall b, (b < B)%nat ->
     let r1 := forward RN c p true lock (map (pcol RN b) cs) (map (prow RN b) xs) in
     fst r1 = map (pbrow b) (fst r) /\
     map (cells RN) (snd r1) = map (fun col => [nth b (cells RN col) (d_cell RN)]) (snd r)) /\
  (* adaptations: entry k of neuron i is the batch mean of what the B batch-1 instances compute *)
  (forall i col row, nth_error cs i = Some col -> nth_error xs i = Some row ->
     exists col', nth_error (snd r) i = Some col' /\
       forall k, (k < length (ad RN col'))%nat ->
         nth k (ad RN col') 0 = batch_mean RN (map (fun b => nth k (ad1 lock col row b) 0) (seq 0 B))).
Proof.
  intros Hs Hr Ha. cbv zeta. split.
  - intros b Hb. exact (neuron_forward_sample_dynamics RN c p b B true lock cs xs Hb Hs Hr).
  - unfold forward. cbn [snd]. intros i. revert cs xs Hs Hr.
    induction i as [|i IH]; intros [|col0 cs] [|row0 xs] Hs Hr col row Hc Hx; cbn in Hc, Hx; try discriminate.
    + injection Hc as ->. injection Hx as ->.
      inversion Hs as [|? ? Hc0 Hs']; subst. inversion Hr as [|? ? Hr0 Hr']; subst.
      cbn [map2 map nth_error]. eexists. split; [reflexivity|].
      exact (proj2 (neuron_adaptation_is_batch_mean lock col row _ eq_refl Hr0 Ha)).
    + inversion Hs as [|? ? Hc0 Hs']; subst. inversion Hr as [|? ? Hr0 Hr']; subst.
      cbn [map2 map nth_error]. apply IH; assumption.
Qed.

End Coupling.
