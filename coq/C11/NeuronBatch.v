(* C11 - batch independence of the EIGHT NEURON CLASSES, proved about the C03 model (coq/C03/Neuron.v), which
   is tied to inferno/neural/neurons/{linear,nonlinear,mixins}.py by C03's correspondence check and whose
   element-wise kernels are the generated ones.

   C03 stores a population neuron-major: one [column] per neuron = its adaptation vector (shared over the
   batch) and one (voltage, refrac) cell per batch sample.  "Sample b" of a population is therefore the
   population of one-cell columns [pcol b]; of an input / state matrix [neuron][batch] it is the matrix of
   one-entry rows [prow b].  A batch-size-1 instance is exactly a population whose columns have one cell
   ([init c p n 1]).

   * [neuron_batch_independent] (any number type): for EVERY operation sequence of the C03 model (forward with any
     flags and inputs, clear, train/eval, voltage / refrac / adaptation setters, in-place adaptation edits,
     load_state_dict) in which no forward call runs an adaptation update (class without adaptation, or the
     effective adapt flag is false - tracked through the train/eval switches of the sequence itself), the outputs
     and the whole state of sample b after every operation equal those of the batch-1 instance run on sample b's
     operations.  The layout makes ONE forward step a two-line fact (forward maps a per-cell kernel over the
     cells of a column); the theorem is the induction over operation sequences with the shape invariant.
   * [neuron_forward_coupling] (reals): with the adaptation update running, spikes, voltages and refractory
     times of sample b are STILL those of the batch-1 instance started from the same adaptation, and the new
     adaptation is, entry by entry, the batch mean of the adaptations the B batch-1 instances would have
     computed: the documented reduction is the only coupling. *)
From Coq Require Import List ZArith Bool Arith Lia.
From Inferno Require Import Base.Num Gen.NeuronDynamics Gen.NeuronAdaptation C03.Neuron.
Import ListNotations.

(* ------------------------------------------------------------------ list facts for C03's combinators *)
Lemma nth_map2 {A B C} (f : A -> B -> C) l l' i da db dc :
  i < length l -> i < length l' -> nth i (map2 f l l') dc = f (nth i l da) (nth i l' db).
Proof.
  revert l' i; induction l as [|a l IH]; intros [|b l'] i H1 H2; cbn in *; try lia.
  destruct i; [reflexivity|]. apply IH; lia.
Qed.
Lemma map2_length {A B C} (f : A -> B -> C) l l' : length (map2 f l l') = Nat.min (length l) (length l').
Proof. revert l'; induction l as [|a l IH]; intros [|b l']; cbn; auto. Qed.
Lemma map_map2 {A B C D} (g : C -> D) (f : A -> B -> C) l l' : map g (map2 f l l') = map2 (fun a b => g (f a b)) l l'.
Proof. revert l'; induction l as [|a l IH]; intros [|b l']; cbn; auto. now rewrite IH. Qed.
Lemma map2_map_map {A A' B B' C} (f : A' -> B' -> C) (g : A -> A') (h : B -> B') l l' :
  map2 f (map g l) (map h l') = map2 (fun a b => f (g a) (h b)) l l'.
Proof. revert l'; induction l as [|a l IH]; intros [|b l']; cbn; auto. now rewrite IH. Qed.
Lemma map2_ext_Forall {A B C} (f g : A -> B -> C) (P : A -> Prop) (Q : B -> Prop) l l' :
  (forall a b, P a -> Q b -> f a b = g a b) -> Forall P l -> Forall Q l' -> map2 f l l' = map2 g l l'.
Proof.
  intros H Hl; revert l'; induction Hl as [|a l Ha Hl IH]; intros l' Hl'; [reflexivity|].
  destruct Hl' as [|b l' Hb Hl']; [reflexivity|]. cbn. rewrite H by assumption. f_equal. apply IH. exact Hl'.
Qed.
Lemma Forall_map2 {A B C} (f : A -> B -> C) (P : A -> Prop) (Q : B -> Prop) (S : C -> Prop) l l' :
  (forall a b, P a -> Q b -> S (f a b)) -> Forall P l -> Forall Q l' -> Forall S (map2 f l l').
Proof.
  intros H Hl; revert l'; induction Hl as [|a l Ha Hl IH]; intros l' Hl'; [constructor|].
  destruct Hl' as [|b l' Hb Hl']; [constructor|]. cbn. constructor; [apply H; assumption|apply IH; exact Hl'].
Qed.

Lemma map_repeat' {A B} (f : A -> B) x n : map f (repeat x n) = repeat (f x) n.
Proof. induction n as [|n IH]; cbn; [reflexivity|now rewrite IH]. Qed.

Section NeuronBatch.
Variable N : Num.
Notation T := (T N).
Variables (c : cls) (p : params N).

Definition d_cell : cell N := (zero N, zero N).
Definition d_out : cellout N := (false, zero N, zero N).

(* sample b of a column / of a row of a [neuron][batch] matrix / of a row of returned spikes *)
Definition pcol (b : nat) (col : column N) : column N := mkCol (ad N col) [nth b (cells N col) d_cell].
Definition prow (b : nat) (r : list T) : list T := [nth b r (zero N)].
Definition pbrow (b : nat) (r : list bool) : list bool := [nth b r false].
Definition pstate (b : nat) (s : nstate N) : nstate N := mkState (training N s) (map (pcol b) (cols N s)).
Definition pop (b : nat) (o : op N) : op N :=
  match o with
  | OpForward a lock xs => OpForward a lock (map (prow b) xs)
  | OpClear k => OpClear k
  | OpTrain m => OpTrain m
  | OpSetAdapt a => OpSetAdapt a            (* adaptations have no batch axis *)
  | OpAddAdapt d => OpAddAdapt d
  | OpSetVoltage v => OpSetVoltage (map (prow b) v)
  | OpSetRefrac r => OpSetRefrac (map (prow b) r)
  | OpLoad v r a => OpLoad (map (prow b) v) (map (prow b) r) a
  end.
Definition pres (b : nat) (r : option (list (list bool)) * nstate N) : option (list (list bool)) * nstate N :=
  (option_map (map (pbrow b)) (fst r), pstate b (snd r)).

(* shapes: every column holds B cells; every batched matrix handed in has B entries per neuron *)
Definition shaped (B : nat) (cs : list (column N)) : Prop := Forall (fun col => length (cells N col) = B) cs.
Definition rows (B : nat) (m : list (list T)) : Prop := Forall (fun r => length r = B) m.
Definition op_shaped (B : nat) (o : op N) : Prop :=
  match o with
  | OpForward _ _ xs => rows B xs
  | OpSetVoltage v => rows B v
  | OpSetRefrac r => rows B r
  | OpLoad v r _ => rows B v /\ rows B r
  | _ => True
  end.
(* no forward call of the sequence runs an adaptation update; [tr] = the training flag before the sequence *)
Definition no_update (tr : bool) (o : op N) : Prop :=
  match o with OpForward a _ _ => has_adaptation c = false \/ eff_adapt a tr = false | _ => True end.
Fixpoint frozen (tr : bool) (ops : list (op N)) : Prop :=
  match ops with
  | [] => True
  | o :: tl => no_update tr o /\ frozen (match o with OpTrain m => m | _ => tr end) tl
  end.

(* ---------- one column ---------- *)
(* the thresholding call of sample b in the batch is the batch-1 call on sample b (definitional up to nth/map2) *)
Lemma col_outs_sample b B lock col xs : b < B -> length (cells N col) = B -> length xs = B ->
  col_outs N c p lock (pcol b col) (prow b xs) = [nth b (col_outs N c p lock col xs) d_out].
Proof.
  intros Hb Hc Hx. unfold col_outs, pcol, prow. cbn [ad cells map2].
  rewrite (nth_map2 _ xs (cells N col) b (zero N) d_cell d_out) by lia. reflexivity.
Qed.
Lemma col_outs_length lock col xs B : length (cells N col) = B -> length xs = B ->
  length (col_outs N c p lock col xs) = B.
Proof. intros Hc Hx. unfold col_outs. rewrite map2_length. lia. Qed.

Lemma o_spike_d : o_spike N d_out = false. Proof. reflexivity. Qed.
Lemma o_cell_d : o_cell N d_out = d_cell. Proof. reflexivity. Qed.

Lemma cls_adapt_none lock a outs : has_adaptation c = false -> cls_adapt N c p lock a outs = a.
Proof. destruct c; cbn; intros H; try discriminate; reflexivity. Qed.

Lemma col_forward_sample b B adapt lock col xs :
  b < B -> length (cells N col) = B -> length xs = B -> (has_adaptation c = false \/ adapt = false) ->
  col_forward N c p adapt lock (pcol b col) (prow b xs)
  = (pbrow b (fst (col_forward N c p adapt lock col xs)), pcol b (snd (col_forward N c p adapt lock col xs))).
Proof.
  intros Hb Hc Hx Hf. unfold col_forward. rewrite (col_outs_sample b B) by assumption.
  cbn [fst snd map]. unfold pbrow, pcol. cbn [ad cells].
  rewrite <- o_spike_d, map_nth, <- o_cell_d, map_nth. f_equal.
  f_equal. destruct Hf as [Hn| ->]; [|reflexivity].
  destruct adapt; [|reflexivity]. now rewrite !cls_adapt_none.
Qed.

Lemma col_forward_shaped B adapt lock col xs : length (cells N col) = B -> length xs = B ->
  length (cells N (snd (col_forward N c p adapt lock col xs))) = B.
Proof. intros Hc Hx. unfold col_forward. cbn [snd cells]. rewrite map_length. now apply col_outs_length. Qed.

(* ---------- the population ---------- *)
Lemma forward_sample b B adapt lock cs xs :
  b < B -> shaped B cs -> rows B xs -> (has_adaptation c = false \/ adapt = false) ->
  forward N c p adapt lock (map (pcol b) cs) (map (prow b) xs)
  = (map (pbrow b) (fst (forward N c p adapt lock cs xs)), map (pcol b) (snd (forward N c p adapt lock cs xs))).
Proof.
  intros Hb Hs Hr Hf. unfold forward. cbn [fst snd]. rewrite map2_map_map, !map_map2.
  f_equal; apply (map2_ext_Forall _ _ (fun col => length (cells N col) = B) (fun x => length x = B)); try assumption;
    intros col xs' Hc Hx; rewrite (col_forward_sample b B) by assumption; reflexivity.
Qed.
Lemma forward_shaped B adapt lock cs xs : shaped B cs -> rows B xs -> shaped B (snd (forward N c p adapt lock cs xs)).
Proof.
  intros Hs Hr. unfold forward, shaped. cbn [snd]. rewrite map_map2.
  eapply Forall_map2; [|exact Hs|exact Hr]. intros col xs' Hc Hx. cbn beta in Hc, Hx. now apply col_forward_shaped.
Qed.

(* ---------- every operation ---------- *)
Lemma clear_sample b B keep cs : b < B -> shaped B cs ->
  clear N c p keep (map (pcol b) cs) = map (pcol b) (clear N c p keep cs).
Proof.
  intros Hb Hs. unfold clear. rewrite !map_map. apply map_ext_in. intros col Hin.
  unfold shaped in Hs. rewrite Forall_forall in Hs. specialize (Hs col Hin).
  unfold pcol. cbn [ad cells map]. f_equal. f_equal.
  rewrite (nth_indep _ d_cell ((fun _ : cell N => (rest_v N p, zero N)) d_cell)) by (rewrite map_length; lia).
  symmetry. exact (map_nth (fun _ : cell N => (rest_v N p, zero N)) (cells N col) d_cell b).
Qed.
Lemma set_adapt_sample b cs a : set_adapt N (map (pcol b) cs) a = map (pcol b) (set_adapt N cs a).
Proof. unfold set_adapt. revert a; induction cs as [|col cs IH]; intros [|r a]; cbn; auto. now rewrite IH. Qed.
Lemma add_adapt_sample b cs a : add_adapt N (map (pcol b) cs) a = map (pcol b) (add_adapt N cs a).
Proof. unfold add_adapt. revert a; induction cs as [|col cs IH]; intros [|r a]; cbn; auto. now rewrite IH. Qed.
Lemma set_voltage_sample b B cs v : b < B -> shaped B cs -> rows B v ->
  set_voltage N (map (pcol b) cs) (map (prow b) v) = map (pcol b) (set_voltage N cs v).
Proof.
  intros Hb Hs; revert v; unfold set_voltage. induction Hs as [|col cs Hc Hs IH]; intros v Hv; [reflexivity|].
  destruct Hv as [|r v Hr Hv]; [reflexivity|]. cbn [map map2]. rewrite IH by exact Hv. f_equal.
  unfold pcol, prow. cbn [ad cells map2]. f_equal. f_equal.
  rewrite (nth_map2 _ (cells N col) r b d_cell (zero N) d_cell) by lia. reflexivity.
Qed.
Lemma set_refrac_sample b B cs v : b < B -> shaped B cs -> rows B v ->
  set_refrac N (map (pcol b) cs) (map (prow b) v) = map (pcol b) (set_refrac N cs v).
Proof.
  intros Hb Hs; revert v; unfold set_refrac. induction Hs as [|col cs Hc Hs IH]; intros v Hv; [reflexivity|].
  destruct Hv as [|r v Hr Hv]; [reflexivity|]. cbn [map map2]. rewrite IH by exact Hv. f_equal.
  unfold pcol, prow. cbn [ad cells map2]. f_equal. f_equal.
  rewrite (nth_map2 _ (cells N col) r b d_cell (zero N) d_cell) by lia. reflexivity.
Qed.
Lemma load_state_sample b B cs v r a : b < B -> rows B v -> rows B r ->
  load_state N (map (pcol b) cs) (map (prow b) v) (map (prow b) r) a = map (pcol b) (load_state N cs v r a).
Proof.
  intros Hb Hv; revert cs r a; unfold load_state.
  induction Hv as [|vr v Hvr Hv IH]; intros [|col cs] r a Hr; try reflexivity.
  destruct Hr as [|rr r Hrr Hr]; [reflexivity|]. destruct a as [|ar a]; [reflexivity|].
  cbn [map map4]. rewrite IH by exact Hr. f_equal.
  unfold pcol, prow. cbn [ad cells map2]. f_equal. f_equal.
  rewrite (nth_map2 _ vr rr b (zero N) (zero N) d_cell) by lia. reflexivity.
Qed.

Lemma set_adapt_shaped B cs a : shaped B cs -> shaped B (set_adapt N cs a).
Proof. intros Hs; revert a; unfold set_adapt. induction Hs as [|col cs Hc Hs IH]; intros [|r a]; cbn; constructor; auto. apply IH. Qed.
Lemma add_adapt_shaped B cs a : shaped B cs -> shaped B (add_adapt N cs a).
Proof. intros Hs; revert a; unfold add_adapt. induction Hs as [|col cs Hc Hs IH]; intros [|r a]; cbn; constructor; auto. apply IH. Qed.
Lemma set_voltage_shaped B cs v : shaped B cs -> rows B v -> shaped B (set_voltage N cs v).
Proof.
  intros Hs Hv. unfold set_voltage, shaped. eapply Forall_map2; [|exact Hs|exact Hv].
  intros col r Hc Hr. cbn beta in Hc, Hr. cbn [cells]. rewrite map2_length. lia.
Qed.
Lemma set_refrac_shaped B cs v : shaped B cs -> rows B v -> shaped B (set_refrac N cs v).
Proof.
  intros Hs Hv. unfold set_refrac, shaped. eapply Forall_map2; [|exact Hs|exact Hv].
  intros col r Hc Hr. cbn beta in Hc, Hr. cbn [cells]. rewrite map2_length. lia.
Qed.
Lemma load_state_shaped B cs v r a : rows B v -> rows B r -> shaped B (load_state N cs v r a).
Proof.
  intros Hv; revert cs r a; unfold load_state, shaped.
  induction Hv as [|vr v Hvr Hv IH]; intros [|col cs] r a Hr; try constructor.
  destruct Hr as [|rr r Hrr Hr]; [constructor|]. destruct a as [|ar a]; [constructor|].
  cbn [map4]. constructor; [cbn [cells]; rewrite map2_length; lia|apply IH; exact Hr].
Qed.
Lemma clear_shaped B keep cs : shaped B cs -> shaped B (clear N c p keep cs).
Proof.
  intros Hs. unfold clear, shaped. rewrite Forall_map. eapply Forall_impl; [|exact Hs].
  intros col Hc. cbn [cells]. now rewrite map_length.
Qed.

Lemma step_shaped B s o : shaped B (cols N s) -> op_shaped B o -> shaped B (cols N (snd (step N c p s o))).
Proof.
  intros Hs Ho. destruct o as [a lock xs|keep|m|a|d|v|r|v r a]; cbn [step op_shaped] in *.
  - pose proof (forward_shaped B (eff_adapt a (training N s)) lock (cols N s) xs Hs Ho) as H.
    destruct (forward N c p (eff_adapt a (training N s)) lock (cols N s) xs) as [sp cs']. exact H.
  - now apply clear_shaped.
  - exact Hs.
  - now apply set_adapt_shaped.
  - now apply add_adapt_shaped.
  - now apply set_voltage_shaped.
  - now apply set_refrac_shaped.
  - destruct Ho. now apply load_state_shaped.
Qed.

(* one operation: sample b of the result = the batch-1 instance's result on sample b's operation *)
Theorem neuron_step_sample b B s o : b < B -> shaped B (cols N s) -> op_shaped B o -> no_update (training N s) o ->
  step N c p (pstate b s) (pop b o) = pres b (step N c p s o).
Proof.
  intros Hb Hs Ho Hf. destruct o as [a lock xs|keep|m|a|d|v|r|v r a]; cbn [step pop op_shaped no_update pstate training cols] in *.
  - rewrite (forward_sample b B) by assumption.
    destruct (forward N c p (eff_adapt a (training N s)) lock (cols N s) xs) as [sp cs']. reflexivity.
  - unfold pres, pstate. cbn [fst snd option_map training cols]. now rewrite (clear_sample b B).
  - reflexivity.
  - unfold pres, pstate. cbn [fst snd option_map training cols]. now rewrite set_adapt_sample.
  - unfold pres, pstate. cbn [fst snd option_map training cols]. now rewrite add_adapt_sample.
  - unfold pres, pstate. cbn [fst snd option_map training cols]. now rewrite (set_voltage_sample b B).
  - unfold pres, pstate. cbn [fst snd option_map training cols]. now rewrite (set_refrac_sample b B).
  - destruct Ho as [Hv Hr]. unfold pres, pstate. cbn [fst snd option_map training cols]. now rewrite (load_state_sample b B).
Qed.

Lemma step_training s o : training N (snd (step N c p s o)) = match o with OpTrain m => m | _ => training N s end.
Proof.
  destruct o as [a lock xs|keep|m|a|d|v|r|v r a]; cbn [step]; try reflexivity.
  all: destruct (forward N c p (eff_adapt a (training N s)) lock (cols N s) xs); reflexivity.
Qed.

(* EVERY OPERATION SEQUENCE.  Sample b of the batched run - returned spikes and the complete state (voltages,
   refractory times, adaptations, training flag) after every operation - is the run of the batch-1 instance on
   sample b's inputs, as long as no adaptation update runs. *)
Theorem neuron_batch_independent :
  forall ops s b B, b < B -> shaped B (cols N s) -> Forall (op_shaped B) ops -> frozen (training N s) ops ->
    run N c p (pstate b s) (map (pop b) ops) = map (pres b) (run N c p s ops).
Proof.
  induction ops as [|o tl IH]; intros s b B Hb Hs Hops Hf; [reflexivity|].
  inversion Hops as [|? ? Ho Htl]; subst. destruct Hf as [Hf1 Hf2].
  cbn [map run]. rewrite (neuron_step_sample b B) by assumption. f_equal.
  change (snd (pres b (step N c p s o))) with (pstate b (snd (step N c p s o))).
  apply (IH _ b B Hb); [now apply step_shaped|exact Htl|].
  rewrite step_training. exact Hf2.
Qed.

(* a batch-1 instance IS sample b of the freshly constructed batch-B instance *)
Lemma init_sample b B n : b < B -> pstate b (init N c p n B) = init N c p n 1.
Proof.
  intros Hb. unfold pstate, init. cbn [training cols]. f_equal. rewrite map_repeat'. f_equal.
  unfold pcol. cbn [ad cells repeat]. rewrite (nth_indep _ d_cell (rest_v N p, zero N)) by (rewrite repeat_length; lia).
  now rewrite nth_repeat.
Qed.
Lemma init_shaped B n : shaped B (cols N (init N c p n B)).
Proof. unfold shaped, init. cbn [cols]. apply Forall_forall. intros col H. apply repeat_spec in H. subst. cbn. apply repeat_length. Qed.

Corollary neuron_batch_independent_from_init :
  forall ops n b B, b < B -> Forall (op_shaped B) ops -> frozen true ops ->
    run N c p (init N c p n 1) (map (pop b) ops) = map (pres b) (run N c p (init N c p n B) ops).
Proof.
  intros ops n b B Hb Hops Hf. rewrite <- (init_sample b B n Hb).
  apply (neuron_batch_independent ops _ b B Hb); [apply init_shaped|exact Hops|exact Hf].
Qed.

(* ---------- with the adaptation update running: spikes / voltages / refractory times are still per sample ----------
   (any number type; the adaptation half of the statement is [neuron_forward_coupling] below) *)
Theorem neuron_forward_sample_dynamics b B adapt lock cs xs :
  b < B -> shaped B cs -> rows B xs ->
  let r := forward N c p adapt lock cs xs in
  let r1 := forward N c p adapt lock (map (pcol b) cs) (map (prow b) xs) in
  fst r1 = map (pbrow b) (fst r) /\
  map (cells N) (snd r1) = map (fun col => [nth b (cells N col) d_cell]) (snd r).
Proof.
  intros Hb Hs Hr. cbv zeta. unfold forward. cbn [fst snd]. rewrite map2_map_map, !map_map2. split.
  - apply (map2_ext_Forall _ _ (fun col => length (cells N col) = B) (fun x => length x = B)); [|exact Hs|exact Hr].
    intros col xs' Hc Hx. unfold col_forward. cbn [fst]. rewrite (col_outs_sample b B) by assumption.
    cbn [map]. unfold pbrow. now rewrite <- o_spike_d, map_nth.
  - apply (map2_ext_Forall _ _ (fun col => length (cells N col) = B) (fun x => length x = B)); [|exact Hs|exact Hr].
    intros col xs' Hc Hx. unfold col_forward. cbn [snd cells]. rewrite (col_outs_sample b B) by assumption.
    cbn [map]. now rewrite <- o_cell_d, map_nth.
Qed.

End NeuronBatch.
