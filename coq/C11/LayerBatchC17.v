(* C11 - batch samples never interact: the three layer kinds of C17/Layers.v built from the concrete components of
   C17/Components.v (LinearDense + DeltaCurrent connections with whole-step delays, LIF / ALIF neuron groups,
   built-in Biclique combine modes, the transforms of the executable instance).

   The simulation theorem of C11/LayerBatch.v is instantiated on BOTH sides with these components, any number type
   [N : Num], with the relations "is sample b of" (0 <= b < B fixed):
     tensor  t  ~ the (1, *sh) tensor holding slice b of the (B, *sh) tensor t;
     dense   c  ~ c with batch size 1 and every stored spike row replaced by its slice b (same parameters, pointer);
     neuron  n  ~ n with batch size 1 and voltages / refractory times replaced by their slice b (same
                  configuration, same adaptations), PROVIDED the adaptation update cannot run (LIF, or ALIF in
                  eval mode, and no call with adapt=True): the ALIF adaptation is shared by the whole batch and
                  updated with the batch MEAN - the documented coupling.  [neuron_step_coupling_only_adaptation]
                  shows that this is the ONLY coupling: without the frozen condition spikes, voltages and
                  refractory times of one step are still those of the sample alone.
   Adjustment w.r.t. the plain "lengths are B * size" relation: for ALIF the relation also demands
   [length (n_adapt n) = nsize n] (threshold_adaptation has shape [*shape, K] in the code); without it the
   per-neuron thresholds tiled over the batch would be misaligned and the statement is false.
   Axiom-free (no property of the numbers is used: the per-element kernels are applied verbatim on both sides). *)
From Coq Require Import List ZArith Bool Arith Lia.
From Inferno Require Import Base.Num Gen.NeuronDynamics Gen.NeuronAdaptation C17.Layers C17.Components
     C11.Samp C11.LayerBatch.
Import ListNotations.

(* ---------- list facts ---------- *)
Lemma map2_combine {A B C} (f : A -> B -> C) a b :
  map2 f a b = map (fun p => f (fst p) (snd p)) (combine a b).
Proof. revert b; induction a as [|x a IH]; intros [|y b]; cbn; auto. now rewrite IH. Qed.
Lemma samp_map2 {A B C} (f : A -> B -> C) n k a b : samp n k (map2 f a b) = map2 f (samp n k a) (samp n k b).
Proof. now rewrite !map2_combine, samp_map, samp_combine. Qed.
Lemma map2_length {A B C} (f : A -> B -> C) a b : length (map2 f a b) = Nat.min (length a) (length b).
Proof. now rewrite map2_combine, map_length, combine_length. Qed.
Lemma zip4_combine (N : Num) f a b c d :
  zip4 N f a b c d =
  map (fun p => f (fst (fst (fst p))) (snd (fst (fst p))) (snd (fst p)) (snd p)) (combine (combine (combine a b) c) d).
Proof.
  revert b c d; induction a as [|x a IH]; intros [|y b] [|z c] [|w d]; cbn; auto. now rewrite IH.
Qed.
Lemma samp_zip4 (N : Num) f n k a b c d :
  samp n k (zip4 N f a b c d) = zip4 N f (samp n k a) (samp n k b) (samp n k c) (samp n k d).
Proof. now rewrite !zip4_combine, samp_map, !samp_combine. Qed.
Lemma zip4_length' (N : Num) f a b c d n :
  length a = n -> length b = n -> length c = n -> length d = n -> length (zip4 N f a b c d) = n.
Proof. intros. rewrite zip4_combine, map_length, !combine_length. lia. Qed.
Lemma map_upd {X Y} (f : X -> Y) l i x : map f (upd l i x) = upd (map f l) i (f x).
Proof. revert i; induction l as [|h t IH]; intros [|i]; cbn; auto. now rewrite IH. Qed.
Lemma Forall_upd' {X} (P : X -> Prop) (l : list X) i x : Forall P l -> P x -> Forall P (upd l i x).
Proof.
  revert i. induction l as [|h t IH]; intros [|i] Hl Hx; cbn; auto; inversion Hl; subst; constructor; auto.
Qed.
Lemma shape_eqb_eq a : forall c, shape_eqb a c = true -> a = c.
Proof.
  induction a as [|x a IH]; intros [|y c] H; cbn in H; try discriminate; auto.
  apply andb_prop in H as [H1 H2]. apply Nat.eqb_eq in H1. subst. f_equal. auto.
Qed.
Lemma shape_eqb_refl a : shape_eqb a a = true.
Proof. induction a as [|x a IH]; cbn; auto. now rewrite Nat.eqb_refl, IH. Qed.
Lemma concat_repeat_length' {X} (l : list X) k : length (concat (repeat l k)) = k * length l.
Proof. induction k; cbn; auto. rewrite app_length, IHk. reflexivity. Qed.
Lemma samp_concat_repeat {X} (l : list X) n k B : length l = n -> k < B -> samp n k (concat (repeat l B)) = l.
Proof.
  intros Hl Hk. rewrite samp_concat.
  - rewrite (nth_indep _ [] l) by (rewrite repeat_length; exact Hk). apply nth_repeat.
  - apply Forall_forall. intros r Hr. apply repeat_spec in Hr. now subst.
Qed.
Lemma firstn_samp {X} n k (l : list X) : firstn n (samp n k l) = samp n k l.
Proof. unfold samp. now rewrite firstn_firstn, Nat.min_id. Qed.
Lemma Forall2_len {A A'} (R : A -> A' -> Prop) l l' : Forall2 R l l' -> length l = length l'.
Proof. induction 1; cbn; auto. Qed.
Lemma map_repeat' {X Y} (f : X -> Y) x k : map f (repeat x k) = repeat (f x) k.
Proof. induction k; cbn; auto. now rewrite IHk. Qed.
Lemma arel_map_snd {A A'} (R : A -> A' -> Prop) l l' : arel R l l' -> Forall2 R (map snd l) (map snd l').
Proof. induction 1 as [|p q l l' [_ H] _ IH]; cbn; constructor; auto. Qed.

Section C17Batch.
Variable N : Num.
Variables B b : nat.
Hypothesis Hb : b < B.
Notation tens := (tensor N).
Notation dens := (dense N).
Notation neur := (neuron N).

(* ---------- the relations "sample b of" ---------- *)
Definition Rv (t t1 : tens) : Prop :=
  exists sh, tsh t = B :: sh /\ length (tel t) = B * nel sh /\ t1 = mkT (1 :: sh) (samp (nel sh) b (tel t)).

Definition dsamp (c : dens) : dens :=
  mkDense N (d_in N c) (d_out N c) 1 (d_dt N c) (d_charge N c) (d_W N c) (d_bias N c) (d_delay N c)
    (map (samp (insz N c) b) (d_rows N c)) (d_ptr N c).
Definition Rc (c c1 : dens) : Prop :=
  d_B N c = B /\ Forall (fun r => length r = B * insz N c) (d_rows N c) /\ c1 = dsamp c.

Definition nsamp (n : neur) : neur :=
  mkNeuron N (n_shape N n) 1 (n_dt N n) (n_rest N n) (n_reset N n) (n_thresh N n) (n_refrac_t N n) (n_tc N n)
    (n_res N n) (n_acfg N n) (n_training N n)
    (samp (nsize N n) b (n_volt N n)) (samp (nsize N n) b (n_refr N n)) (n_adapt N n).
(* well-formed batched neuron state *)
Definition nwf (n : neur) : Prop :=
  n_B N n = B /\ length (n_volt N n) = B * nsize N n /\ length (n_refr N n) = B * nsize N n /\
  (n_acfg N n <> None -> length (n_adapt N n) = nsize N n).
(* the shared adaptation state is not updated by forward calls without adapt=True *)
Definition nfrozen (n : neur) : Prop := n_acfg N n = None \/ n_training N n = false.
Definition Rn (n n1 : neur) : Prop := nwf n /\ nfrozen n /\ n1 = nsamp n.

Definition Rck (_ _ : unit) : Prop := True.
Definition Rnk (k k1 : nkw) : Prop := k = k1 /\ k_adapt k <> Some true.
Definition Rxk (x x1 : option bool) : Prop := x = x1.

Lemma Rck0 : Rck tt tt.
Proof. exact I. Qed.
Lemma Rnk0 : Rnk nkw0 nkw0.
Proof. split; [reflexivity|discriminate]. Qed.

(* ---------- tensors ---------- *)
Lemma Rv_map (f : T N -> T N) t t1 :
  Rv t t1 -> Rv (mkT (tsh t) (map f (tel t))) (mkT (tsh t1) (map f (tel t1))).
Proof.
  intros (sh & Hsh & Hl & ->). exists sh. cbn [tsh tel]. rewrite map_length, samp_map. auto.
Qed.

Lemma tzeros_like_rel v v1 : Rv v v1 -> Rv (tzeros_like N v) (tzeros_like N v1).
Proof. apply Rv_map. Qed.

Lemma tadd_rel a a1 c c1 r : Rv a a1 -> Rv c c1 -> tadd N a c = Ok r ->
  exists r1, tadd N a1 c1 = Ok r1 /\ Rv r r1.
Proof.
  intros (sh & Hsh & Hl & ->) (sh2 & Hsh2 & Hl2 & ->) H. unfold tadd in *.
  destruct (shape_eqb (tsh a) (tsh c)) eqn:E; [|discriminate]. inversion H; subst; clear H.
  apply shape_eqb_eq in E. rewrite Hsh, Hsh2 in E. inversion E; subst sh2. cbn [tsh tel].
  rewrite shape_eqb_refl. eexists; split; [reflexivity|]. exists sh. cbn [tsh tel].
  rewrite map2_length, samp_map2. repeat split; [exact Hsh|lia].
Qed.

Lemma tr_fn_rel t : trel tens tens Rv (tr_fn N t) (tr_fn N t).
Proof.
  intros v v1 Hv. destruct t as [|c|c|]; cbn [tr_fn]; [exact Hv| | |]; apply Rv_map; exact Hv.
Qed.
Lemma itr_fn_rel t : itrel tens tens Rv (itr_fn N t) (itr_fn N t).
Proof.
  intros v v1 Hv. destruct t; cbn [itr_fn].
  - constructor; [exact Hv|constructor].
  - constructor; [apply Rv_map; exact Hv|constructor].
  - constructor; [exact Hv|]. constructor; [exact Hv|constructor].
Qed.

(* ---------- LinearDense + DeltaCurrent ---------- *)
Definition dense_next (c : dens) (x : tens) : dens :=
  set_syn N c (upd (d_rows N c) (d_ptr N c) (map (nz N) (tel x))) ((d_ptr N c + 1) mod recordsz N c).
Definition dense_outT (c : dens) : tens :=
  mkT (d_B N c :: d_out N c) (concat (map (dense_out_row N c) (seq 0 (d_B N c)))).

Lemma dense_step_inv c k xs c' y : dense_step N c k xs = Ok (c', y) ->
  exists x tl sh, xs = x :: tl /\ tsh x = d_B N c :: sh /\ nel sh = insz N c /\
    length (tel x) = d_B N c * insz N c /\ c' = dense_next c x /\ y = dense_outT (dense_next c x).
Proof.
  unfold dense_step. destruct xs as [|x tl]; [discriminate|].
  destruct (tsh x) as [|b0 rest] eqn:Es; [discriminate|].
  destruct ((b0 =? d_B N c) && (nel rest =? insz N c) && (length (tel x) =? d_B N c * insz N c)) eqn:E;
    cbn [negb]; [|discriminate].
  intros H; inversion H; subst; clear H.
  apply andb_prop in E as [E E3]. apply andb_prop in E as [E1 E2].
  apply Nat.eqb_eq in E1, E2, E3. subst b0. exists x, tl, rest. repeat split; auto.
Qed.
Lemma dense_step_intro c k x tl sh : tsh x = d_B N c :: sh -> nel sh = insz N c ->
  length (tel x) = d_B N c * insz N c ->
  dense_step N c k (x :: tl) = Ok (dense_next c x, dense_outT (dense_next c x)).
Proof.
  intros Hs Hn Hl. unfold dense_step. rewrite Hs, Hn, Hl, !Nat.eqb_refl. reflexivity.
Qed.

Lemma spikes_back_dsamp c k : spikes_back N (dsamp c) k = samp (insz N c) b (spikes_back N c k).
Proof.
  unfold spikes_back. change (recordsz N (dsamp c)) with (recordsz N c).
  change (d_ptr N (dsamp c)) with (d_ptr N c). change (d_rows N (dsamp c)) with (map (samp (insz N c) b) (d_rows N c)).
  apply map_nth_default. apply samp_nil.
Qed.
Lemma addbias_dsamp c o v : addbias N (dsamp c) o v = addbias N c o v.
Proof. reflexivity. Qed.
Lemma to_current_dsamp c s : to_current N (dsamp c) s = to_current N c s.
Proof. reflexivity. Qed.

(* row 0 of the batch-1 copy = row b of the batched connection (F.linear / the delayed einsum never mix rows) *)
Lemma dense_out_row_dsamp c : dense_out_row N (dsamp c) 0 = dense_out_row N c b.
Proof.
  unfold dense_out_row. change (d_delay N (dsamp c)) with (d_delay N c).
  change (insz N (dsamp c)) with (insz N c). change (outsz N (dsamp c)) with (outsz N c).
  change (d_W N (dsamp c)) with (d_W N c).
  assert (Hlin : map (fun o => addbias N (dsamp c) o
                      (dot N (map (to_current N (dsamp c)) (firstn (insz N c) (skipn (0 * insz N c) (spikes_back N (dsamp c) 0))))
                         (nth o (d_W N c) []))) (seq 0 (outsz N c)) =
                 map (fun o => addbias N c o
                      (dot N (map (to_current N c) (firstn (insz N c) (skipn (b * insz N c) (spikes_back N c 0))))
                         (nth o (d_W N c) []))) (seq 0 (outsz N c))).
  { apply map_ext. intros o. rewrite addbias_dsamp. f_equal. f_equal.
    rewrite spikes_back_dsamp. cbn [Nat.mul skipn]. rewrite firstn_samp. reflexivity. }
  destruct (d_delay N c) as [[[|m] D]|]; [exact Hlin| |exact Hlin].
  apply map_ext. intros o. rewrite addbias_dsamp. f_equal. f_equal.
  apply map_ext_in. intros i Hi. apply in_seq in Hi. cbv zeta.
  destruct (nth i (nth o D []) 0 <=? S m); [|reflexivity].
  rewrite to_current_dsamp, spikes_back_dsamp. f_equal. cbn [Nat.mul Nat.add].
  apply nth_samp. lia.
Qed.
Lemma dense_out_row_length c k : length (dense_out_row N c k) = outsz N c.
Proof.
  unfold dense_out_row. destruct (d_delay N c) as [[[|m] D]|]; now rewrite map_length, seq_length.
Qed.

Lemma dense_outT_rel c : d_B N c = B -> Rv (dense_outT c) (dense_outT (dsamp c)).
Proof.
  intros HB. exists (d_out N c). unfold dense_outT. cbn [tsh tel]. rewrite HB.
  change (d_B N (dsamp c)) with 1. change (d_out N (dsamp c)) with (d_out N c).
  change (nel (d_out N c)) with (outsz N c).
  split; [reflexivity|]. split.
  - rewrite (concat_length_const (outsz N c)), map_length, seq_length; [reflexivity|].
    apply Forall_forall. intros r Hr. apply in_map_iff in Hr as (i & <- & _). apply dense_out_row_length.
  - f_equal. cbn [seq map concat]. rewrite app_nil_r, dense_out_row_dsamp.
    rewrite <- flat_map_concat_map', (samp_flat_map_seq (outsz N c) b B); [reflexivity| |exact Hb].
    intros i _. apply dense_out_row_length.
Qed.

Lemma dense_next_dsamp c x sh : nel sh = insz N c ->
  dense_next (dsamp c) (mkT (1 :: sh) (samp (nel sh) b (tel x))) = dsamp (dense_next c x).
Proof.
  intros Hn. unfold dense_next, dsamp, set_syn, insz, recordsz in *.
  cbn [d_in d_out d_B d_dt d_charge d_W d_bias d_delay d_rows d_ptr tel].
  f_equal. rewrite map_upd, samp_map, Hn. reflexivity.
Qed.

Lemma dense_step_rel c c1 k k1 xs xs1 c' y : Rc c c1 -> Rck k k1 -> Forall2 Rv xs xs1 ->
  dense_step N c k xs = Ok (c', y) ->
  exists c1' y1, dense_step N c1 k1 xs1 = Ok (c1', y1) /\ Rc c' c1' /\ Rv y y1.
Proof.
  intros (HB & Hrows & ->) _ Hxs H.
  destruct (dense_step_inv _ _ _ _ _ H) as (x & tl & sh & -> & Hs & Hn & Hl & -> & ->).
  inversion Hxs as [|x0 x1 tl0 tl1 Hx Htl]; subst. destruct Hx as (sh' & Hs' & Hl' & ->).
  rewrite Hs, HB in Hs'. inversion Hs'; subst sh'.
  exists (dense_next (dsamp c) (mkT (1 :: sh) (samp (nel sh) b (tel x)))), (dense_outT (dsamp (dense_next c x))).
  split; [|split].
  - rewrite <- (dense_next_dsamp c x sh Hn). apply (dense_step_intro _ _ _ _ sh).
    + reflexivity.
    + exact Hn.
    + cbn [tel]. change (d_B N (dsamp c)) with 1. change (insz N (dsamp c)) with (insz N c).
      rewrite (samp_length_exact _ _ B) by (try exact Hb; rewrite Hl', Hn; reflexivity). lia.
  - split; [exact HB|]. split; [|apply dense_next_dsamp; exact Hn].
    change (insz N (dense_next c x)) with (insz N c).
    change (d_rows N (dense_next c x)) with (upd (d_rows N c) (d_ptr N c) (map (nz N) (tel x))).
    apply Forall_upd'; [exact Hrows|]. rewrite map_length, Hl, HB. reflexivity.
  - apply dense_outT_rel. exact HB.
Qed.

Lemma dense_clear_rel x x1 c c1 : Rxk x x1 -> Rc c c1 -> Rc (dense_clear N x c) (dense_clear N x1 c1).
Proof.
  intros _ (HB & Hrows & ->). split; [exact HB|]. split.
  - change (insz N (dense_clear N x c)) with (insz N c).
    change (d_rows N (dense_clear N x c)) with (map (map (fun _ : bool => false)) (d_rows N c)).
    rewrite Forall_map. eapply Forall_impl; [|exact Hrows]. cbn beta. intros r Hr. now rewrite map_length.
  - unfold dense_clear, dsamp, set_syn, insz.
    cbn [d_in d_out d_B d_dt d_charge d_W d_bias d_delay d_rows d_ptr]. f_equal.
    rewrite !map_map. apply map_ext. intros r. symmetry. apply samp_map.
Qed.

(* learning: assigning weights / biases leaves the relation alone *)
Lemma set_W_rel W bias : lcrel dens dens Rc (set_W N W bias) (set_W N W bias).
Proof. intros c c1 (HB & Hrows & ->). repeat split; assumption. Qed.

(* ---------- LIF / ALIF ---------- *)
(* the per-element results (spike, voltage, refrac) of one forward call, and the new adaptation state *)
Definition nres (n : neur) (kw : nkw) (x : tens) : list (bool * T N * T N) :=
  zip4 N (lif_elem N n (k_lock kw)) (concat (repeat (thresholds N n) (n_B N n))) (tel x) (n_volt N n) (n_refr N n).
Definition nadapt (n : neur) (kw : nkw) (x : tens) : list (list (T N)) :=
  match n_acfg N n with
  | Some cfg =>
      if (match k_adapt kw with Some a => a | None => n_training N n end)
      then adapt_update N n cfg (k_lock kw) (map (fun p => fst (fst p)) (nres n kw x)) (map snd (nres n kw x))
      else n_adapt N n
  | None => n_adapt N n
  end.
Definition neuron_next (n : neur) (kw : nkw) (x : tens) : neur :=
  set_dyn N n (map (fun p => snd (fst p)) (nres n kw x)) (map snd (nres n kw x)) (nadapt n kw x).
Definition neuron_outT (n : neur) (kw : nkw) (x : tens) : tens :=
  mkT (n_B N n :: n_shape N n) (map (b2t N) (map (fun p => fst (fst p)) (nres n kw x))).

Lemma neuron_step_eq n kw x :
  neuron_step N n kw x =
  if negb (shape_eqb (tsh x) (n_B N n :: n_shape N n) && (length (tel x) =? n_B N n * nsize N n))
  then Err ERuntime else Ok (neuron_next n kw x, neuron_outT n kw x).
Proof. reflexivity. Qed.
Lemma neuron_step_inv n kw x n' z : neuron_step N n kw x = Ok (n', z) ->
  tsh x = n_B N n :: n_shape N n /\ length (tel x) = n_B N n * nsize N n /\
  n' = neuron_next n kw x /\ z = neuron_outT n kw x.
Proof.
  rewrite neuron_step_eq.
  destruct (shape_eqb (tsh x) (n_B N n :: n_shape N n) && (length (tel x) =? n_B N n * nsize N n)) eqn:E;
    cbn [negb]; [|discriminate].
  intros H; inversion H; subst; clear H. apply andb_prop in E as [E1 E2].
  apply shape_eqb_eq in E1. apply Nat.eqb_eq in E2. auto.
Qed.
Lemma neuron_step_intro n kw x : tsh x = n_B N n :: n_shape N n -> length (tel x) = n_B N n * nsize N n ->
  neuron_step N n kw x = Ok (neuron_next n kw x, neuron_outT n kw x).
Proof. intros Hs Hl. rewrite neuron_step_eq, Hs, Hl, shape_eqb_refl, Nat.eqb_refl. reflexivity. Qed.

Lemma thresholds_length' n : (n_acfg N n <> None -> length (n_adapt N n) = nsize N n) ->
  length (thresholds N n) = nsize N n.
Proof.
  intros Ha. unfold thresholds. destruct (n_acfg N n) eqn:E.
  - rewrite map_length. apply Ha. discriminate.
  - apply repeat_length.
Qed.

Lemma nres_length n kw x : nwf n -> length (tel x) = B * nsize N n -> length (nres n kw x) = B * nsize N n.
Proof.
  intros (HB & Hv & Hr & Ha) Hl. unfold nres. apply zip4_length'; auto.
  rewrite concat_repeat_length', thresholds_length', HB by exact Ha. reflexivity.
Qed.

(* the heart of the matter: the element-wise kernel applied to the slice is the slice of the kernel applied to
   the batch (the thresholds are per neuron and tiled over the batch) *)
Lemma nres_nsamp n kw x : nwf n ->
  nres (nsamp n) kw (mkT (1 :: n_shape N n) (samp (nsize N n) b (tel x))) = samp (nsize N n) b (nres n kw x).
Proof.
  intros (HB & Hv & Hr & Ha). unfold nres.
  change (lif_elem N (nsamp n)) with (lif_elem N n). change (thresholds N (nsamp n)) with (thresholds N n).
  change (n_B N (nsamp n)) with 1. change (n_volt N (nsamp n)) with (samp (nsize N n) b (n_volt N n)).
  change (n_refr N (nsamp n)) with (samp (nsize N n) b (n_refr N n)). cbn [tel repeat concat].
  rewrite app_nil_r, samp_zip4, HB.
  rewrite (samp_concat_repeat _ (nsize N n) b B) by (try exact Hb; apply thresholds_length'; exact Ha).
  reflexivity.
Qed.

(* one forward call of the batch-1 copy on the slice of the input: everything but the adaptation state is the slice
   of the batched call.  No condition on the mode or the keyword arguments. *)
Lemma neuron_step_nsamp n kw x x1 n' z : nwf n -> Rv x x1 -> neuron_step N n kw x = Ok (n', z) ->
  neuron_step N (nsamp n) kw x1 =
    Ok (set_dyn N (nsamp n') (n_volt N (nsamp n')) (n_refr N (nsamp n')) (nadapt (nsamp n) kw x1),
        neuron_outT (nsamp n) kw x1) /\
  Rv z (neuron_outT (nsamp n) kw x1) /\ nwf (set_dyn N n' (n_volt N n') (n_refr N n') (n_adapt N n)).
Proof.
  intros Hwf (sh & Hs' & Hl' & ->) H. pose proof Hwf as (HB & Hv & Hr & Ha).
  destruct (neuron_step_inv _ _ _ _ _ H) as (Hs & Hl & -> & ->).
  rewrite Hs, HB in Hs'. inversion Hs'; subst sh. change (nel (n_shape N n)) with (nsize N n) in *.
  rewrite HB in Hl. pose proof (nres_length n kw x Hwf Hl) as Hlen.
  split; [|split].
  - rewrite neuron_step_intro.
    + f_equal. f_equal. unfold neuron_next at 1. rewrite nres_nsamp by exact Hwf.
      unfold nsamp, neuron_next, set_dyn, nsize.
      cbn [n_shape n_B n_dt n_rest n_reset n_thresh n_refrac_t n_tc n_res n_acfg n_training n_volt n_refr n_adapt].
      rewrite !samp_map. reflexivity.
    + reflexivity.
    + cbn [tel]. change (n_B N (nsamp n)) with 1. change (nsize N (nsamp n)) with (nsize N n).
      rewrite (samp_length_exact _ _ B) by (try exact Hb; exact Hl). lia.
  - exists (n_shape N n). unfold neuron_outT. cbn [tsh tel]. rewrite HB. split; [reflexivity|].
    change (nel (n_shape N n)) with (nsize N n). rewrite !map_length, Hlen. split; [reflexivity|].
    change (n_B N (nsamp n)) with 1. change (n_shape N (nsamp n)) with (n_shape N n).
    rewrite nres_nsamp by exact Hwf. rewrite !samp_map. reflexivity.
  - unfold nwf, neuron_next, set_dyn, nsize in *.
    cbn [n_shape n_B n_dt n_rest n_reset n_thresh n_refrac_t n_tc n_res n_acfg n_training n_volt n_refr n_adapt].
    rewrite !map_length, Hlen. auto.
Qed.

Lemma nadapt_frozen n kw x : nfrozen n -> k_adapt kw <> Some true -> nadapt n kw x = n_adapt N n.
Proof.
  intros Hf Hk. unfold nadapt. destruct (n_acfg N n) as [cfg|] eqn:E; [|reflexivity].
  destruct Hf as [Hf|Hf]; [congruence|]. rewrite Hf.
  destruct (k_adapt kw) as [[|]|]; [exfalso; apply Hk; reflexivity|reflexivity|reflexivity].
Qed.

Lemma neuron_step_rel n n1 k k1 x x1 n' z : Rn n n1 -> Rnk k k1 -> Rv x x1 ->
  neuron_step N n k x = Ok (n', z) ->
  exists n1' z1, neuron_step N n1 k1 x1 = Ok (n1', z1) /\ Rn n' n1' /\ Rv z z1.
Proof.
  intros (Hwf & Hfr & ->) (<- & Hk) Hx H.
  destruct (neuron_step_nsamp _ _ _ _ _ _ Hwf Hx H) as (E & Hz & Hwf').
  do 2 eexists. split; [exact E|]. split; [|exact Hz].
  destruct (neuron_step_inv _ _ _ _ _ H) as (_ & _ & Hn' & _).
  assert (Ha : n_adapt N n' = n_adapt N n).
  { rewrite Hn'. unfold neuron_next. cbn [set_dyn n_adapt]. apply nadapt_frozen; assumption. }
  assert (Hfr1 : nfrozen (nsamp n)) by exact Hfr.
  rewrite (nadapt_frozen _ _ _ Hfr1 Hk). change (n_adapt N (nsamp n)) with (n_adapt N n). rewrite <- Ha.
  assert (Hsame : set_dyn N n' (n_volt N n') (n_refr N n') (n_adapt N n) = n').
  { rewrite <- Ha. destruct n'; reflexivity. }
  rewrite Hsame in Hwf'. split; [exact Hwf'|]. split.
  - rewrite Hn'. exact Hfr.
  - destruct n'; reflexivity.
Qed.

(* ALIF in training mode (or adapt=True): the threshold adaptation is one state for the whole batch, updated with
   the batch mean - the documented coupling.  It is the only one: within the step the spikes (the output),
   voltages and refractory times of sample b are those of the sample run alone; only [n_adapt] of the two
   resulting states may differ (which then shifts the thresholds of the FOLLOWING steps). *)
Theorem neuron_step_coupling_only_adaptation n kw x x1 n' z :
  nwf n -> Rv x x1 -> neuron_step N n kw x = Ok (n', z) ->
  exists n1' z1, neuron_step N (nsamp n) kw x1 = Ok (n1', z1) /\ Rv z z1 /\
    n_volt N n1' = samp (nsize N n') b (n_volt N n') /\ n_refr N n1' = samp (nsize N n') b (n_refr N n') /\
    n1' = set_dyn N (nsamp n') (n_volt N (nsamp n')) (n_refr N (nsamp n')) (n_adapt N n1').
Proof.
  intros Hwf Hx H. destruct (neuron_step_nsamp _ _ _ _ _ _ Hwf Hx H) as (E & Hz & _).
  do 2 eexists. split; [exact E|]. split; [exact Hz|]. repeat split.
Qed.

Lemma neuron_spike_rel n n1 : Rn n n1 -> Rv (neuron_spike N n) (neuron_spike N n1).
Proof.
  intros ((HB & Hv & Hr & Ha) & _ & ->). exists (n_shape N n). unfold neuron_spike.
  change (n_B N (nsamp n)) with 1. change (n_shape N (nsamp n)) with (n_shape N n).
  change (n_refrac_t N (nsamp n)) with (n_refrac_t N n).
  change (n_refr N (nsamp n)) with (samp (nsize N n) b (n_refr N n)). cbn [tsh tel].
  rewrite HB, map_length, samp_map. auto.
Qed.

Lemma neuron_clear_rel x x1 n n1 : Rxk x x1 -> Rn n n1 -> Rn (neuron_clear N x n) (neuron_clear N x1 n1).
Proof.
  intros <- ((HB & Hv & Hr & Ha) & Hfr & ->). split; [|split].
  - unfold nwf, neuron_clear, set_dyn, nsize in *.
    cbn [n_shape n_B n_dt n_rest n_reset n_thresh n_refrac_t n_tc n_res n_acfg n_training n_volt n_refr n_adapt].
    rewrite !map_length. repeat split; auto. intros Hc. specialize (Ha Hc).
    destruct (n_acfg N n); [|exact Ha]. destruct x as [[|]|]; rewrite ?map_length; exact Ha.
  - exact Hfr.
  - unfold neuron_clear, nsamp, set_dyn, nsize.
    cbn [n_shape n_B n_dt n_rest n_reset n_thresh n_refrac_t n_tc n_res n_acfg n_training n_volt n_refr n_adapt].
    rewrite !samp_map. reflexivity.
Qed.

(* eval() keeps the relation (train() on an ALIF group would unfreeze the shared adaptation) *)
Lemma set_training_false_rel : lnrel neur neur Rn (set_training N false) (set_training N false).
Proof.
  intros n n1 (Hwf & _ & ->). split; [exact Hwf|]. split; [right; reflexivity|reflexivity].
Qed.

(* ---------- built-in Biclique combine (sum / mean / prod / min / max over the connections, element-wise) ---------- *)
Lemma fold_cop_rel m sh rest rest1 : Forall2 Rv rest rest1 ->
  forallb (fun t => shape_eqb (tsh t) (B :: sh)) rest = true ->
  forall a, length a = B * nel sh ->
    length (fold_left (fun a t => map2 (cop N m) a (tel t)) rest a) = B * nel sh /\
    fold_left (fun a t => map2 (cop N m) a (tel t)) rest1 (samp (nel sh) b a) =
      samp (nel sh) b (fold_left (fun a t => map2 (cop N m) a (tel t)) rest a) /\
    forallb (fun t => shape_eqb (tsh t) (1 :: sh)) rest1 = true.
Proof.
  induction 1 as [|t t1 rest rest1 Ht _ IH]; intros E a Ha; cbn [fold_left forallb] in *.
  - auto.
  - apply andb_prop in E as [E1 E2]. apply shape_eqb_eq in E1.
    destruct Ht as (sh' & Hs' & Hl' & ->). rewrite E1 in Hs'. inversion Hs'; subst sh'. cbn [tsh tel].
    rewrite shape_eqb_refl. cbn [andb].
    assert (Hl2 : length (map2 (cop N m) a (tel t)) = B * nel sh) by (rewrite map2_length; lia).
    destruct (IH E2 _ Hl2) as (I1 & I2 & I3). rewrite <- samp_map2. auto.
Qed.

Lemma combine_builtin_rel m : crel tens tens Rv (combine_builtin N m) (combine_builtin N m).
Proof.
  intros ts ts1 r Hts H. apply arel_map_snd in Hts. unfold combine_builtin in *.
  destruct (map snd ts) as [|t0 rest]; [discriminate|].
  inversion Hts as [|t0' t01 rest' rest1 Ht0 Hrest Ea Eb]; subst. clear Hts.
  destruct (forallb (fun t => shape_eqb (tsh t) (tsh t0)) rest) eqn:E; [|discriminate].
  inversion H; subst; clear H. destruct Ht0 as (sh & Hs & Hl & ->). rewrite Hs in E. cbn [tsh tel].
  destruct (fold_cop_rel m sh rest rest1 Hrest E _ Hl) as (I1 & I2 & I3). rewrite I3, I2.
  eexists; split; [reflexivity|]. exists sh. rewrite Hs. cbn [tsh tel]. split; [reflexivity|].
  rewrite <- (Forall2_len _ _ _ Hrest).
  destruct m; try (split; [exact I1|reflexivity]).
  rewrite map_length, samp_map. split; [exact I1|reflexivity].
Qed.

(* ---------- the layer theorems instantiated ---------- *)
Notation XK := (option bool).
Definition SStep := serial_step tens dens neur unit nkw XK tt nkw0 (dense_step N) (neuron_step N) (dense_clear N) (neuron_clear N).
Definition BStep := biclique_step tens dens neur unit nkw XK tt nkw0 (dense_step N) (neuron_step N) (dense_clear N) (neuron_clear N).
Definition RStep := recurrent_step tens dens neur unit nkw XK tt nkw0 (dense_step N) (neuron_step N) (neuron_spike N)
                      (dense_clear N) (neuron_clear N) (tzeros_like N) (tadd N).
Definition compat (c : dens) (n : neur) : bool := shape_eqb (d_out N c) (n_shape N n).

Definition SRel := serial_rel tens dens neur tens dens neur Rv Rc Rn.
Definition BRel := biclique_rel tens dens neur tens dens neur Rv Rc Rn.
Definition RRel := recurrent_rel tens dens neur tens dens neur Rv Rc Rn.
Definition SOpRel := serial_op_rel tens dens neur unit nkw XK tens dens neur unit nkw XK Rv Rc Rn Rck Rnk Rxk.
Definition BOpRel := biclique_op_rel tens dens neur unit nkw XK tens dens neur unit nkw XK Rv Rc Rn Rck Rnk Rxk.
Definition ROpRel := recurrent_op_rel tens dens neur unit nkw XK tens dens neur unit nkw XK Rv Rc Rn Rck Rnk Rxk.

(* Serial: sample b of every output of any operation sequence on the batched layer is the output of the same
   sequence (inputs sliced) on the batch-1 copy, and the final states are again related *)
Theorem serial_c17_batch_independent ops ops1 S S1 S' outs :
  SRel S S1 -> Forall2 SOpRel ops ops1 -> run SStep S ops = Ok (S', outs) ->
  exists S1' outs1, run SStep S1 ops1 = Ok (S1', outs1) /\ SRel S' S1' /\
    Forall2 (serial_out_rel tens tens Rv) outs outs1.
Proof.
  apply (serial_run_sim tens dens neur unit nkw XK tt nkw0 (dense_step N) (neuron_step N) (dense_clear N)
           (neuron_clear N) tens dens neur unit nkw XK tt nkw0 (dense_step N) (neuron_step N) (dense_clear N)
           (neuron_clear N) Rv Rc Rn Rck Rnk Rxk Rck0 Rnk0 dense_step_rel neuron_step_rel dense_clear_rel
           neuron_clear_rel).
Qed.

Theorem biclique_c17_batch_independent ops ops1 Bq Bq1 B' outs :
  BRel Bq Bq1 -> Forall2 BOpRel ops ops1 -> run BStep Bq ops = Ok (B', outs) ->
  exists B1' outs1, run BStep Bq1 ops1 = Ok (B1', outs1) /\ BRel B' B1' /\
    Forall2 (biclique_out_rel tens tens Rv) outs outs1.
Proof.
  apply (biclique_run_sim tens dens neur unit nkw XK tt nkw0 (dense_step N) (neuron_step N) (dense_clear N)
           (neuron_clear N) tens dens neur unit nkw XK tt nkw0 (dense_step N) (neuron_step N) (dense_clear N)
           (neuron_clear N) Rv Rc Rn Rck Rnk Rxk Rck0 Rnk0 dense_step_rel neuron_step_rel dense_clear_rel
           neuron_clear_rel).
Qed.

Theorem recurrent_c17_batch_independent ops ops1 R R1 R' outs :
  RRel R R1 -> Forall2 ROpRel ops ops1 -> run RStep R ops = Ok (R', outs) ->
  exists R1' outs1, run RStep R1 ops1 = Ok (R1', outs1) /\ RRel R' R1' /\
    Forall2 (recurrent_out_rel tens tens Rv) outs outs1.
Proof.
  apply (recurrent_run_sim tens dens neur unit nkw XK tt nkw0 (dense_step N) (neuron_step N) (neuron_spike N)
           (dense_clear N) (neuron_clear N) (tzeros_like N) (tadd N)
           tens dens neur unit nkw XK tt nkw0 (dense_step N) (neuron_step N) (neuron_spike N)
           (dense_clear N) (neuron_clear N) (tzeros_like N) (tadd N) Rv Rc Rn Rck Rnk Rxk Rck0 Rnk0
           dense_step_rel neuron_step_rel neuron_spike_rel dense_clear_rel neuron_clear_rel tzeros_like_rel tadd_rel).
Qed.

(* layers constructed from related components (constructor succeeds on the batched side) are related *)
Lemma compat_rel c c1 n n1 : Rc c c1 -> Rn n n1 -> compat c n = compat c1 n1.
Proof. intros (_ & _ & ->) (_ & _ & ->). reflexivity. Qed.

Theorem serial_c17_new_related c c1 n n1 t cn nn S :
  Rc c c1 -> Rn n n1 -> serial_new tens dens neur compat c n (option_map (tr_fn N) t) cn nn = Ok S ->
  exists S1, serial_new tens dens neur compat c1 n1 (option_map (tr_fn N) t) cn nn = Ok S1 /\ SRel S S1.
Proof.
  intros Hc Hn. apply (serial_new_sim tens dens neur compat tens dens neur compat Rv Rc Rn compat_rel); auto.
  destruct t; cbn [option_map orel]; [apply tr_fn_rel|exact I].
Qed.

Definition with_tr {A} (p : Z * A * option (tr N)) : Z * A * option (tens -> tens) :=
  (fst p, option_map (tr_fn N) (snd p)).
Lemma erel_with_tr {A} (R : A -> A -> Prop) l l1 :
  Forall2 (fun p q => fst (fst p) = fst (fst q) /\ R (snd (fst p)) (snd (fst q)) /\ snd p = snd q) l l1 ->
  erel tens tens Rv R (map with_tr l) (map with_tr l1).
Proof.
  induction 1 as [|[[k a] t] [[k1 a1] t1] l l1 (Hk & Ha & Ht) _ IH]; cbn [map]; constructor; [|exact IH].
  cbn [fst snd with_tr] in *. subst. repeat split; [exact Ha|].
  destruct t1; cbn [option_map orel]; [apply tr_fn_rel|exact I].
Qed.
Theorem biclique_c17_new_related cs cs1 ns ns1 m Bq :
  Forall2 (fun p q => fst (fst p) = fst (fst q) /\ Rc (snd (fst p)) (snd (fst q)) /\ snd p = snd q) cs cs1 ->
  Forall2 (fun p q => fst (fst p) = fst (fst q) /\ Rn (snd (fst p)) (snd (fst q)) /\ snd p = snd q) ns ns1 ->
  biclique_new tens dens neur compat (map with_tr cs) (map with_tr ns) (combine_builtin N m) = Ok Bq ->
  exists Bq1, biclique_new tens dens neur compat (map with_tr cs1) (map with_tr ns1) (combine_builtin N m) = Ok Bq1 /\
    BRel Bq Bq1.
Proof.
  intros Hcs Hns. apply (biclique_new_sim tens dens neur compat tens dens neur compat Rv Rc Rn compat_rel).
  - apply erel_with_tr; exact Hcs.
  - apply erel_with_tr; exact Hns.
  - apply combine_builtin_rel.
Qed.

Theorem recurrent_c17_new_related cff cff1 clat clat1 cfb cfb1 nff nff1 nfb nfb1 tff tlat tfb ilat ifb
    ffc latc fbc ffn fbn tf R :
  Rc cff cff1 -> Rc clat clat1 -> Rc cfb cfb1 -> Rn nff nff1 -> Rn nfb nfb1 ->
  recurrent_new tens dens neur compat cff clat cfb nff nfb (option_map (tr_fn N) tff) (option_map (tr_fn N) tlat)
    (option_map (tr_fn N) tfb) (option_map (itr_fn N) ilat) (option_map (itr_fn N) ifb)
    ffc latc fbc ffn fbn tf = Ok R ->
  exists R1, recurrent_new tens dens neur compat cff1 clat1 cfb1 nff1 nfb1 (option_map (tr_fn N) tff)
    (option_map (tr_fn N) tlat) (option_map (tr_fn N) tfb) (option_map (itr_fn N) ilat) (option_map (itr_fn N) ifb)
    ffc latc fbc ffn fbn tf = Ok R1 /\ RRel R R1.
Proof.
  intros H1 H2 H3 H4 H5.
  apply (recurrent_new_sim tens dens neur compat tens dens neur compat Rv Rc Rn compat_rel); auto.
  - destruct tff; cbn [option_map orel]; [apply tr_fn_rel|exact I].
  - destruct tlat; cbn [option_map orel]; [apply tr_fn_rel|exact I].
  - destruct tfb; cbn [option_map orel]; [apply tr_fn_rel|exact I].
  - destruct ilat; cbn [option_map orel]; [apply itr_fn_rel|exact I].
  - destruct ifb; cbn [option_map orel]; [apply itr_fn_rel|exact I].
Qed.

(* ---------- the relations are functional: the batch-1 side IS "sample b" ---------- *)
Definition vsamp (t : tens) : tens := mkT (1 :: tl (tsh t)) (samp (nel (tl (tsh t))) b (tel t)).
Definition twf (t : tens) : Prop := exists sh, tsh t = B :: sh /\ length (tel t) = B * nel sh.
Lemma Rv_vsamp t t1 : Rv t t1 <-> twf t /\ t1 = vsamp t.
Proof.
  unfold vsamp. split.
  - intros (sh & Hs & Hl & ->). split; [exists sh; auto|]. rewrite Hs. reflexivity.
  - intros ((sh & Hs & Hl) & ->). exists sh. rewrite Hs. auto.
Qed.
Lemma Rc_dsamp c c1 : Rc c c1 -> c1 = dsamp c.
Proof. intros (_ & _ & H). exact H. Qed.
Lemma Rn_nsamp n n1 : Rn n n1 -> n1 = nsamp n.
Proof. intros (_ & _ & H). exact H. Qed.
Definition dsamp_vs (l : list (Z * tens)) : list (Z * tens) := map (fun p => (fst p, vsamp (snd p))) l.
Lemma arel_Rv_fun l l1 : arel Rv l l1 -> l1 = dsamp_vs l.
Proof.
  induction 1 as [|[k t] [k1 t1] l l1 [Hk Ht] _ IH]; cbn; [reflexivity|]. cbn [fst snd] in *.
  apply Rv_vsamp in Ht as [_ ->]. now subst.
Qed.
Definition serial_osamp (o : option (tens * tens)) : option (tens * tens) :=
  option_map (fun p => (vsamp (fst p), vsamp (snd p))) o.
Definition biclique_osamp (o : option (list (Z * tens) * list (Z * tens))) :=
  option_map (fun p => (dsamp_vs (fst p), dsamp_vs (snd p))) o.
Definition recurrent_osamp (o : option ((tens * tens) * list (Z * tens))) :=
  option_map (fun p => ((vsamp (fst (fst p)), vsamp (snd (fst p))), dsamp_vs (snd p))) o.
Lemma serial_outs_fun outs outs1 : Forall2 (serial_out_rel tens tens Rv) outs outs1 -> outs1 = map serial_osamp outs.
Proof.
  induction 1 as [|o o1 outs outs1 Ho _ IH]; cbn [map]; [reflexivity|]. f_equal; [|exact IH].
  destruct o as [[z y]|], o1 as [[z1 y1]|]; cbn in Ho; try contradiction; [|reflexivity].
  destruct Ho as [Hz Hy]. cbn [fst snd] in *. apply Rv_vsamp in Hz as [_ ->]. apply Rv_vsamp in Hy as [_ ->].
  reflexivity.
Qed.
Lemma biclique_outs_fun outs outs1 :
  Forall2 (biclique_out_rel tens tens Rv) outs outs1 -> outs1 = map biclique_osamp outs.
Proof.
  induction 1 as [|o o1 outs outs1 Ho _ IH]; cbn [map]; [reflexivity|]. f_equal; [|exact IH].
  destruct o as [[z y]|], o1 as [[z1 y1]|]; cbn in Ho; try contradiction; [|reflexivity].
  destruct Ho as [Hz Hy]. cbn [fst snd] in *. apply arel_Rv_fun in Hz, Hy. subst. reflexivity.
Qed.
Lemma recurrent_outs_fun outs outs1 :
  Forall2 (recurrent_out_rel tens tens Rv) outs outs1 -> outs1 = map recurrent_osamp outs.
Proof.
  induction 1 as [|o o1 outs outs1 Ho _ IH]; cbn [map]; [reflexivity|]. f_equal; [|exact IH].
  destruct o as [[[z w] y]|], o1 as [[[z1 w1] y1]|]; cbn in Ho; try contradiction; [|reflexivity].
  destruct Ho as [[Hz Hw] Hy]. cbn [fst snd] in *. apply Rv_vsamp in Hz as [_ ->]. apply Rv_vsamp in Hw as [_ ->].
  apply arel_Rv_fun in Hy. subst. reflexivity.
Qed.

(* the outputs of the batch-1 run ARE the slices b of the batched outputs, step by step *)
Corollary serial_c17_outputs_are_samples ops ops1 S S1 S' outs :
  SRel S S1 -> Forall2 SOpRel ops ops1 -> run SStep S ops = Ok (S', outs) ->
  exists S1', run SStep S1 ops1 = Ok (S1', map serial_osamp outs) /\ SRel S' S1'.
Proof.
  intros HS Hops H. destruct (serial_c17_batch_independent _ _ _ _ _ _ HS Hops H) as (S1' & outs1 & E & HS' & Ho).
  apply serial_outs_fun in Ho. subst. eauto.
Qed.
Corollary biclique_c17_outputs_are_samples ops ops1 Bq Bq1 B' outs :
  BRel Bq Bq1 -> Forall2 BOpRel ops ops1 -> run BStep Bq ops = Ok (B', outs) ->
  exists B1', run BStep Bq1 ops1 = Ok (B1', map biclique_osamp outs) /\ BRel B' B1'.
Proof.
  intros HS Hops H. destruct (biclique_c17_batch_independent _ _ _ _ _ _ HS Hops H) as (S1' & outs1 & E & HS' & Ho).
  apply biclique_outs_fun in Ho. subst. eauto.
Qed.
Corollary recurrent_c17_outputs_are_samples ops ops1 R R1 R' outs :
  RRel R R1 -> Forall2 ROpRel ops ops1 -> run RStep R ops = Ok (R', outs) ->
  exists R1', run RStep R1 ops1 = Ok (R1', map recurrent_osamp outs) /\ RRel R' R1'.
Proof.
  intros HS Hops H. destruct (recurrent_c17_batch_independent _ _ _ _ _ _ HS Hops H) as (S1' & outs1 & E & HS' & Ho).
  apply recurrent_outs_fun in Ho. subst. eauto.
Qed.

(* freshly constructed components: the batch-1 copy of the configuration is related to the batch-B one *)
Lemma dense_fresh_rel c : d_B N c = B -> Rc (dense_fresh N c) (dense_fresh N (dsamp c)).
Proof.
  intros HB. split; [exact HB|]. split.
  - change (insz N (dense_fresh N c)) with (insz N c).
    change (d_rows N (dense_fresh N c)) with (dense_fresh_rows N c). unfold dense_fresh_rows. rewrite HB.
    apply Forall_forall. intros r Hr. apply repeat_spec in Hr. subst. apply repeat_length.
  - unfold dense_fresh, dense_fresh_rows, dsamp, set_syn, insz, recordsz.
    cbn [d_in d_out d_B d_dt d_charge d_W d_bias d_delay d_rows d_ptr]. f_equal.
    rewrite map_repeat', HB, (samp_repeat _ b B) by exact Hb. now rewrite Nat.mul_1_l.
Qed.
Lemma neuron_fresh_rel n : n_B N n = B -> nfrozen n -> (n_acfg N n <> None -> length (n_adapt N n) = nsize N n) ->
  Rn (neuron_fresh N n) (neuron_fresh N (nsamp n)).
Proof.
  intros HB Hf Ha. split; [|split; [exact Hf|]].
  - unfold nwf, neuron_fresh, set_dyn, nsize in *.
    cbn [n_shape n_B n_dt n_rest n_reset n_thresh n_refrac_t n_tc n_res n_acfg n_training n_volt n_refr n_adapt].
    rewrite !repeat_length, HB. auto.
  - unfold neuron_fresh, nsamp, set_dyn, nsize.
    cbn [n_shape n_B n_dt n_rest n_reset n_thresh n_refrac_t n_tc n_res n_acfg n_training n_volt n_refr n_adapt].
    rewrite HB, !(samp_repeat _ b B) by exact Hb. now rewrite Nat.mul_1_l.
Qed.

End C17Batch.
