(* C11 - batch independence of the UNDELAYED forward maps of the four connections, proved about the C05 model
   (coq/C05/Conn.v: F.linear, the direct map, the lateral connection = dense on masked parameters, Conv2D =
   unfold + matmul), which is tied to inferno/neural/connections/{linear,conv}.py by C05's correspondence check.

   C05's connections are stateless maps from the synapse current (a flat batch-major tensor, or a list of images
   for Conv2D) to the output.  Sample b of the batched output is the output of the identically parameterised
   batch-1 connection on sample b of the input.  For LinearDense / LinearDirect / LinearLateral this is a fact about
   chunk / concat of the flat layout (it needs the weight and bias to have the sizes the constructor gives them);
   for Conv2D the model maps a per-image function over the list of images, so the statement is definitional (a fact
   about how C05 represents the batch; C05's correspondence check ties that representation to the code).
   The composition with the synapses, WITH delays, is C11/ConnBatch.v (about the C06 model).  Any number type. *)
From Coq Require Import List ZArith Bool Arith Lia.
From Inferno Require Import Base.Num C05.Conn C11.Samp.
Import ListNotations.

Lemma conn_chunk_eq {X} w k (l : list X) : Conn.chunk w k l = Samp.chunk w k l.
Proof. revert l; induction k as [|k IH]; intros l; cbn; [reflexivity|now rewrite IH]. Qed.
Lemma conn_map2_length {A B C} (f : A -> B -> C) u v : length (Conn.map2 f u v) = Nat.min (length u) (length v).
Proof. revert v; induction u as [|a u IH]; intros [|b v]; cbn; auto. Qed.
Lemma cshape_eqb_eq a b : Conn.shape_eqb a b = true -> a = b.
Proof.
  unfold Conn.shape_eqb. intros H. apply andb_prop in H as (Hl & Hf). apply Nat.eqb_eq in Hl.
  revert b Hl Hf. induction a as [|x a IH]; intros [|y b] Hl Hf; cbn in *; try lia; [reflexivity|].
  apply andb_prop in Hf as (Hxy & Hf). apply Nat.eqb_eq in Hxy. subst. f_equal. apply IH; [lia|exact Hf].
Qed.
Lemma cshape_eqb_refl a : Conn.shape_eqb a a = true.
Proof.
  unfold Conn.shape_eqb. rewrite Nat.eqb_refl. cbn. induction a as [|x a IH]; cbn; [reflexivity|].
  now rewrite Nat.eqb_refl.
Qed.
Lemma nth_map_lt {X Y} (f : X -> Y) l i d d' : i < length l -> nth i (map f l) d' = f (nth i l d).
Proof. intros H. rewrite (nth_indep _ d' (f d)) by (now rewrite map_length). apply map_nth. Qed.
Lemma firstn_samp {X} k b (l : list X) : firstn k (samp k b l) = samp k b l.
Proof. unfold samp. rewrite firstn_firstn. now rewrite Nat.min_id. Qed.

(* sample b of a tensor built row by row from the rows of a chunked flat tensor *)
Lemma samp_concat_map_chunk {X Y} (G : list X -> list Y) w W B b (l : list X) :
  (forall r, length (G r) = W) -> b < B ->
  samp W b (concat (map G (Conn.chunk w B l))) = G (samp w b l).
Proof.
  intros HG Hb. rewrite conn_chunk_eq, samp_concat.
  - rewrite (nth_indep _ [] (G [])) by (now rewrite map_length, chunk_length).
    rewrite map_nth, nth_chunk by exact Hb. reflexivity.
  - apply Forall_forall. intros r Hr. apply in_map_iff in Hr as (x & <- & _). apply HG.
Qed.
Lemma concat_map_chunk_1 {X Y} (G : list X -> list Y) w b (l : list X) :
  concat (map G (Conn.chunk w 1 (samp w b l))) = G (samp w b l).
Proof. cbn. now rewrite firstn_samp, app_nil_r. Qed.

Section C05.
Variable N : Num.
Local Notation T := (T N).

(* ---------- LinearDense ---------- *)
Definition dense_B (c : dense N) (B : nat) : dense N := mkDense N (d_in N c) (d_out N c) B (d_w N c) (d_b N c).
(* the sizes the constructor gives weight and bias *)
Definition dense_sized (c : dense N) : Prop :=
  length (d_w N c) = prodn (d_out N c) /\ (forall bv, d_b N c = Some bv -> length bv = prodn (d_out N c)).

Lemma linear_row_length (W : list (list T)) (bias : option (list T)) O (xr : list T) :
  length W = O -> (forall bv, bias = Some bv -> length bv = O) ->
  length (let y := map (fun wr => dot N xr wr) W in match bias with None => y | Some bv => Conn.map2 (add N) y bv end) = O.
Proof.
  intros HW Hb. cbv zeta. destruct bias as [bv|]; [|now rewrite map_length].
  rewrite conn_map2_length, map_length, (Hb bv eq_refl). lia.
Qed.

Theorem c05_dense_forward_sample c x y b : dense_sized c -> b < d_B N c ->
  dense_forward N c x = Ok y ->
  exists rest, tshape x = d_B N c :: rest /\
    dense_forward N (dense_B c 1) (mkT (1 :: rest) (samp (prodn (d_in N c)) b (tdata x)))
    = Ok (mkT (view_shape (1 * prodn (d_out N c)) (d_out N c)) (samp (prodn (d_out N c)) b (tdata y))).
Proof.
  intros (HW & Hbias) Hb. unfold dense_forward. destruct (tshape x) as [|b0 rest] eqn:Es; [discriminate|].
  destruct ((b0 =? d_B N c) && (prodn rest =? prodn (d_in N c))) eqn:Ec; cbn [negb]; [|discriminate].
  apply andb_prop in Ec as (E1 & E2). apply Nat.eqb_eq in E1. subst b0.
  intros H. injection H as <-. exists rest. split; [reflexivity|].
  cbn [tshape tdata dense_B d_B d_in d_out d_w d_b]. rewrite E2. cbn [Nat.eqb andb negb]. f_equal. f_equal.
  unfold linear. rewrite concat_map_chunk_1, (samp_concat_map_chunk _ _ (prodn (d_out N c)) (d_B N c) b); auto.
  intros r. now apply linear_row_length.
Qed.

(* ---------- LinearLateral: forward is LinearDense's on the masked parameters ---------- *)
Definition lat_B (s : lat N) (B : nat) : lat N := mkLat N (l_shape N s) B (l_w N s) (l_d N s) (l_b N s).
Theorem c05_lat_forward_sample s x y b :
  length (l_w N s) = prodn (l_shape N s) -> (forall bv, l_b N s = Some bv -> length bv = prodn (l_shape N s)) ->
  b < l_B N s -> lat_forward N s x = Ok y ->
  exists rest, tshape x = l_B N s :: rest /\
    lat_forward N (lat_B s 1) (mkT (1 :: rest) (samp (prodn (l_shape N s)) b (tdata x)))
    = Ok (mkT (view_shape (1 * prodn (l_shape N s)) (l_shape N s)) (samp (prodn (l_shape N s)) b (tdata y))).
Proof.
  intros HW Hbias Hb H. unfold lat_forward in *.
  exact (c05_dense_forward_sample (mkDense N (l_shape N s) (l_shape N s) (l_B N s) (l_w N s) (l_b N s)) x y b
           (conj HW Hbias) Hb H).
Qed.

(* ---------- LinearDirect ---------- *)
Definition direct_B (c : direct N) (B : nat) : direct N := mkDirect N (r_shape N c) B (r_w N c) (r_b N c).
Definition direct_sized (c : direct N) : Prop :=
  length (r_w N c) = prodn (r_shape N c) /\ (forall bv, r_b N c = Some bv -> length bv = prodn (r_shape N c)).

Theorem c05_direct_forward_sample c x y b : direct_sized c -> b < r_B N c ->
  length (tdata x) = prodn (tshape x) ->                 (* x is a tensor: as many values as its shape says *)
  direct_forward N c x = Ok y ->
  exists rest, tshape x = r_B N c :: rest /\
    direct_forward N (direct_B c 1) (mkT (1 :: rest) (samp (prodn (r_shape N c)) b (tdata x)))
    = Ok (mkT (view_shape (1 * prodn (r_shape N c)) (r_shape N c)) (samp (prodn (r_shape N c)) b (tdata y))).
Proof.
  intros (HW & Hbias) Hb Hx. unfold direct_forward. destruct (tshape x) as [|b0 rest] eqn:Es; [discriminate|].
  destruct ((b0 =? r_B N c) && (prodn rest =? prodn (r_shape N c))) eqn:Ec; cbn [negb]; [|discriminate].
  apply andb_prop in Ec as (E1 & E2). apply Nat.eqb_eq in E1. subst b0. pose proof E2 as E2'. apply Nat.eqb_eq in E2'.
  intros H. injection H as <-. exists rest. split; [reflexivity|].
  cbn [tshape tdata direct_B r_B r_shape r_w r_b]. rewrite E2. cbn [Nat.eqb andb negb]. f_equal. f_equal.
  set (n := prodn (r_shape N c)) in *.
  assert (Hlen : length (tdata x) = r_B N c * n) by (rewrite Hx; unfold prodn at 1; cbn [fold_right]; fold (prodn rest); now rewrite E2').
  unfold direct_map. rewrite concat_map_chunk_1. rewrite conn_chunk_eq, samp_concat.
  - rewrite (nth_map_lt _ _ _ []) by (now rewrite chunk_length). rewrite nth_chunk by exact Hb. reflexivity.
  - apply Forall_forall. intros r Hr. apply in_map_iff in Hr as (xr & <- & Hin).
    apply (In_nth _ _ []) in Hin as (i & Hi & <-). rewrite chunk_length in Hi. rewrite nth_chunk by exact Hi.
    assert (Hxr : length (samp n i (tdata x)) = n) by (apply (samp_length_exact _ _ (r_B N c)); assumption).
    destruct (r_b N c) as [bv|] eqn:Eb; rewrite ?conn_map2_length, ?Hxr, ?HW, ?(Hbias bv eq_refl); lia.
Qed.

(* ---------- Conv2D: the model maps a per-image function over the batch (definitional) ---------- *)
Definition conv_B (c : conv N) (B : nat) : conv N := mkConv N (c_g N c) B (c_w N c) (c_b N c).
Theorem c05_conv_forward_sample c xshape xs ys b : b < length xs ->
  conv_forward N c xshape xs = Ok ys ->
  conv_forward N (conv_B c 1) (1 :: tl xshape) [nth b xs []] = Ok [nth b ys []].
Proof.
  intros Hb. unfold conv_forward.
  destruct (Conn.shape_eqb xshape _) eqn:Es; cbn [negb]; [|discriminate].
  apply cshape_eqb_eq in Es. subst xshape. cbn [tl conv_B c_B c_g c_w c_b]. rewrite cshape_eqb_refl. cbn [negb].
  destruct ((outH N (c_g N c) <=? 0)%Z || (outW N (c_g N c) <=? 0)%Z); [discriminate|].
  intros H. injection H as <-. cbn [map]. f_equal. f_equal.
  symmetry. exact (nth_map_lt (fun x => conv_map N (c_g N c) (c_w N c) (c_b N c) (unfold N (c_g N c) x)) xs b [] [] Hb).
Qed.

End C05.
