(* C11 - batch samples never interact, for the three layer kinds of C17/Layers.v (Serial, Biclique, RecurrentSerial).

   The layer model of C17/Layers.v is GENERIC in the component models.  This file proves a parametricity /
   forward-simulation theorem about it: take TWO instantiations of the generic parameters (think: the components
   at batch size B, and identically parameterised batch-size-1 copies) and relations between their tensors,
   connection states, neuron states and keyword arguments such that every COMPONENT operation maps related
   arguments to related results (whenever the first one returns normally).  Then every LAYER operation of the
   three kinds does, and so does every operation sequence ([run]).  With the relation "is sample b of"
   (C11/LayerBatchC17.v) this is: a layer never mixes samples unless one of its components does.

   No hypothesis about the first (batched) run other than "it returned Ok" is used.  Axiom-free. *)
From Coq Require Import List ZArith Bool Lia.
From Inferno Require Import C17.Layers.
Import ListNotations.

(* ---------- generic lifting of relations ---------- *)
Lemma bind_ok {A B} (r : res A) (f : A -> res B) b : bind r f = Ok b -> exists a, r = Ok a /\ f a = Ok b.
Proof. destruct r as [a|e]; cbn [bind]; [eauto|discriminate]. Qed.

Definition orel {A A'} (R : A -> A' -> Prop) (o : option A) (o' : option A') : Prop :=
  match o, o' with Some a, Some a' => R a a' | None, None => True | _, _ => False end.
(* association lists: the same keys in the same order, related values *)
Definition arel {A A'} (R : A -> A' -> Prop) : list (Z * A) -> list (Z * A') -> Prop :=
  Forall2 (fun p q => fst p = fst q /\ R (snd p) (snd q)).
Definition prel {A A' B B'} (RA : A -> A' -> Prop) (RB : B -> B' -> Prop) (p : A * B) (q : A' * B') : Prop :=
  RA (fst p) (fst q) /\ RB (snd p) (snd q).

Lemma arel_nil {A A'} (R : A -> A' -> Prop) : arel R [] [].
Proof. constructor. Qed.
Lemma arel_cons {A A'} (R : A -> A' -> Prop) k a a' l l' :
  R a a' -> arel R l l' -> arel R ((k, a) :: l) ((k, a') :: l').
Proof. intros Ha Hl. constructor; [split; [reflexivity|exact Ha]|exact Hl]. Qed.
Lemma arel_app {A A'} (R : A -> A' -> Prop) l1 l1' l2 l2' :
  arel R l1 l1' -> arel R l2 l2' -> arel R (l1 ++ l2) (l1' ++ l2').
Proof. apply Forall2_app. Qed.
Lemma arel_keys {A A'} (R : A -> A' -> Prop) l l' : arel R l l' -> keys l = keys l'.
Proof. induction 1 as [|p q l l' [Hk _] _ IH]; cbn; [reflexivity|]. unfold keys in IH. now rewrite Hk, IH. Qed.

Lemma lookup_rel {A A'} (R : A -> A' -> Prop) k l l' : arel R l l' -> orel R (lookup k l) (lookup k l').
Proof.
  induction 1 as [|[k1 a] [k2 a'] l l' [Hk Ha] _ IH]; cbn [lookup orel]; [exact I|].
  cbn [fst snd] in Hk, Ha. subst k2. destruct (Z.eqb k k1); [exact Ha|exact IH].
Qed.
Lemma lookup_rel_Some {A A'} (R : A -> A' -> Prop) k l l' a :
  arel R l l' -> lookup k l = Some a -> exists a', lookup k l' = Some a' /\ R a a'.
Proof.
  intros Hl Ha. pose proof (lookup_rel R k l l' Hl) as H. rewrite Ha in H.
  destruct (lookup k l') as [a'|]; [|contradiction]. eauto.
Qed.
Lemma lookup_rel_None {A A'} (R : A -> A' -> Prop) k l l' :
  arel R l l' -> lookup k l = None -> lookup k l' = None.
Proof.
  intros Hl Ha. pose proof (lookup_rel R k l l' Hl) as H. rewrite Ha in H.
  destruct (lookup k l') as [a'|]; [contradiction|reflexivity].
Qed.
Lemma update_rel {A A'} (R : A -> A' -> Prop) k a a' l l' :
  arel R l l' -> R a a' -> arel R (update k a l) (update k a' l').
Proof.
  intros Hl Ha. induction Hl as [|[k1 b] [k2 b'] l l' [Hk Hb] Hl IH]; cbn [update]; [constructor|].
  cbn [fst snd] in Hk, Hb. subst k2. destruct (Z.eqb k k1).
  - apply arel_cons; assumption.
  - apply arel_cons; assumption.
Qed.
Lemma getd_rel {A A'} (R : A -> A' -> Prop) k l l' d d' :
  arel R l l' -> R d d' -> R (getd k l d) (getd k l' d').
Proof.
  intros Hl Hd. unfold getd. pose proof (lookup_rel R k l l' Hl) as H.
  destruct (lookup k l), (lookup k l'); cbn [orel] in H; try contradiction; assumption.
Qed.
Lemma okw_rel {A A'} (R : A -> A' -> Prop) k o o' : orel R o o' -> arel R (okw k o) (okw k o').
Proof.
  destruct o, o'; cbn [orel okw]; intros H; try contradiction; [apply arel_cons; [exact H|constructor]|constructor].
Qed.
Lemma dset_rel {A A'} (R : A -> A' -> Prop) k a a' l l' :
  arel R l l' -> R a a' -> arel R (dset k a l) (dset k a' l').
Proof.
  intros Hl Ha. induction Hl as [|[k1 b] [k2 b'] l l' [Hk Hb] Hl IH]; cbn [dset].
  - apply arel_cons; [exact Ha|constructor].
  - cbn [fst snd] in Hk, Hb. subst k2. destruct (Z.eqb k k1); apply arel_cons; assumption.
Qed.
Lemma dmerge_rel {A A'} (R : A -> A' -> Prop) b b' : arel R b b' ->
  forall a a', arel R a a' -> arel R (dmerge a b) (dmerge a' b').
Proof.
  unfold dmerge. induction 1 as [|p q b b' [Hk Hp] _ IH]; intros a a' Ha; cbn [fold_left]; [exact Ha|].
  apply IH. rewrite Hk. apply dset_rel; assumption.
Qed.
Lemma map_snd_rel {A A'} (R : A -> A' -> Prop) (f : A -> A) (f' : A' -> A') l l' :
  (forall a a', R a a' -> R (f a) (f' a')) -> arel R l l' ->
  arel R (map (fun p => (fst p, f (snd p))) l) (map (fun p => (fst p, f' (snd p))) l').
Proof.
  intros Hf. induction 1 as [|p q l l' [Hk Hp] _ IH]; cbn [map]; [constructor|].
  constructor; [cbn [fst snd]; split; [exact Hk|apply Hf; exact Hp]|exact IH].
Qed.

(* a forward simulation between two step functions lifts to runs *)
Lemma run_rel {S S' Op Op' O O'} (step : S -> Op -> res (S * O)) (step' : S' -> Op' -> res (S' * O'))
      (RS : S -> S' -> Prop) (ROp : Op -> Op' -> Prop) (RO : O -> O' -> Prop) :
  (forall s s1 o o1 s' out, RS s s1 -> ROp o o1 -> step s o = Ok (s', out) ->
     exists s1' out1, step' s1 o1 = Ok (s1', out1) /\ RS s' s1' /\ RO out out1) ->
  forall ops ops1, Forall2 ROp ops ops1 -> forall s s1 s' outs, RS s s1 -> run step s ops = Ok (s', outs) ->
     exists s1' outs1, run step' s1 ops1 = Ok (s1', outs1) /\ RS s' s1' /\ Forall2 RO outs outs1.
Proof.
  intros Hstep. induction 1 as [|o o1 ops ops1 Ho _ IH]; intros s s1 s' outs Hs H; cbn [run] in *.
  - inversion H; subst. exists s1, []. repeat split; [exact Hs|constructor].
  - apply bind_ok in H as ([sa out] & E1 & H). apply bind_ok in H as ([sb outs'] & E2 & H).
    inversion H; subst; clear H.
    destruct (Hstep _ _ _ _ _ _ Hs Ho E1) as (sa1 & out1 & E1' & Hsa & Hout).
    destruct (IH _ _ _ _ Hsa E2) as (sb1 & outs1 & E2' & Hsb & Houts).
    exists sb1, (out1 :: outs1). rewrite E1'. cbn [bind]. rewrite E2'. cbn [bind].
    repeat split; [exact Hsb|constructor; assumption].
Qed.

Section Sim.
(* first instantiation (the batched components) *)
Variables V CS NS CK NK XK : Type.
Variable ck0 : CK.
Variable nk0 : NK.
Variable cstep : CS -> CK -> list V -> res (CS * V).
Variable nstep : NS -> NK -> V -> res (NS * V).
Variable nspike : NS -> V.
Variable cclear : XK -> CS -> CS.
Variable nclear : XK -> NS -> NS.
Variable vzeros_like : V -> V.
Variable vadd : V -> V -> res V.
Variable compat : CS -> NS -> bool.
(* second instantiation (the batch-size-1 copies) *)
Variables V' CS' NS' CK' NK' XK' : Type.
Variable ck0' : CK'.
Variable nk0' : NK'.
Variable cstep' : CS' -> CK' -> list V' -> res (CS' * V').
Variable nstep' : NS' -> NK' -> V' -> res (NS' * V').
Variable nspike' : NS' -> V'.
Variable cclear' : XK' -> CS' -> CS'.
Variable nclear' : XK' -> NS' -> NS'.
Variable vzeros_like' : V' -> V'.
Variable vadd' : V' -> V' -> res V'.
Variable compat' : CS' -> NS' -> bool.
(* the relations *)
Variable Rv : V -> V' -> Prop.
Variable Rc : CS -> CS' -> Prop.
Variable Rn : NS -> NS' -> Prop.
Variable Rck : CK -> CK' -> Prop.
Variable Rnk : NK -> NK' -> Prop.
Variable Rxk : XK -> XK' -> Prop.
(* forward simulation of every component operation *)
Hypothesis Hck0 : Rck ck0 ck0'.
Hypothesis Hnk0 : Rnk nk0 nk0'.
Hypothesis Hcstep : forall c c1 k k1 xs xs1 c' y, Rc c c1 -> Rck k k1 -> Forall2 Rv xs xs1 ->
  cstep c k xs = Ok (c', y) -> exists c1' y1, cstep' c1 k1 xs1 = Ok (c1', y1) /\ Rc c' c1' /\ Rv y y1.
Hypothesis Hnstep : forall n n1 k k1 x x1 n' z, Rn n n1 -> Rnk k k1 -> Rv x x1 ->
  nstep n k x = Ok (n', z) -> exists n1' z1, nstep' n1 k1 x1 = Ok (n1', z1) /\ Rn n' n1' /\ Rv z z1.
Hypothesis Hspike : forall n n1, Rn n n1 -> Rv (nspike n) (nspike' n1).
Hypothesis Hcclear : forall x x1 c c1, Rxk x x1 -> Rc c c1 -> Rc (cclear x c) (cclear' x1 c1).
Hypothesis Hnclear : forall x x1 n n1, Rxk x x1 -> Rn n n1 -> Rn (nclear x n) (nclear' x1 n1).
Hypothesis Hzeros : forall v v1, Rv v v1 -> Rv (vzeros_like v) (vzeros_like' v1).
Hypothesis Hvadd : forall a a1 b b1 r, Rv a a1 -> Rv b b1 -> vadd a b = Ok r ->
  exists r1, vadd' a1 b1 = Ok r1 /\ Rv r r1.

(* ---------- lifted relations ---------- *)
(* transforms V -> V, one-to-many input transforms, Biclique combine, learn functions, wiring functions *)
Definition trel (f : V -> V) (f1 : V' -> V') : Prop := forall v v1, Rv v v1 -> Rv (f v) (f1 v1).
Definition itrel (f : V -> list V) (f1 : V' -> list V') : Prop := forall v v1, Rv v v1 -> Forall2 Rv (f v) (f1 v1).
Definition crel (f : list (Z * V) -> res V) (f1 : list (Z * V') -> res V') : Prop :=
  forall ts ts1 r, arel Rv ts ts1 -> f ts = Ok r -> exists r1, f1 ts1 = Ok r1 /\ Rv r r1.
Definition lcrel (f : CS -> CS) (f1 : CS' -> CS') : Prop := forall c c1, Rc c c1 -> Rc (f c) (f1 c1).
Definition lnrel (f : NS -> NS) (f1 : NS' -> NS') : Prop := forall n n1, Rn n n1 -> Rn (f n) (f1 n1).
Definition wrel (w : list (Z * V) -> res (list (Z * V))) (w1 : list (Z * V') -> res (list (Z * V'))) : Prop :=
  forall ys ys1 ws, arel Rv ys ys1 -> w ys = Ok ws -> exists ws1, w1 ys1 = Ok ws1 /\ arel Rv ws ws1.

Definition layer_rel (L : layer CS NS) (L1 : layer CS' NS') : Prop :=
  arel Rc (conns L) (conns L1) /\ arel Rn (neurs L) (neurs L1).

Definition serial_rel (S : serial V CS NS) (S1 : serial V' CS' NS') : Prop :=
  layer_rel (s_layer S) (s_layer S1) /\ s_cn S = s_cn S1 /\ s_nn S = s_nn S1 /\ trel (s_tr S) (s_tr S1).
Definition biclique_rel (Bq : biclique V CS NS) (Bq1 : biclique V' CS' NS') : Prop :=
  layer_rel (b_layer Bq) (b_layer Bq1) /\ arel trel (b_post Bq) (b_post Bq1) /\
  arel trel (b_pre Bq) (b_pre Bq1) /\ crel (b_combine Bq) (b_combine Bq1).
Definition recurrent_rel (R : recurrent V CS NS) (R1 : recurrent V' CS' NS') : Prop :=
  layer_rel (r_layer R) (r_layer R1) /\ orel Rv (r_fbs R) (r_fbs R1) /\
  r_ffc R = r_ffc R1 /\ r_latc R = r_latc R1 /\ r_fbc R = r_fbc R1 /\ r_ffn R = r_ffn R1 /\ r_fbn R = r_fbn R1 /\
  trel (r_tr_ff R) (r_tr_ff R1) /\ trel (r_tr_lat R) (r_tr_lat R1) /\ trel (r_tr_fb R) (r_tr_fb R1) /\
  itrel (r_in_lat R) (r_in_lat R1) /\ itrel (r_in_fb R) (r_in_fb R1).

(* operations: the same constructor, related arguments, equal booleans and names *)
Inductive serial_op_rel : serial_op V CS NS CK NK XK -> serial_op V' CS' NS' CK' NK' XK' -> Prop :=
| SFwd_rel xs xs1 ckw ckw1 nkw nkw1 cap : Forall2 Rv xs xs1 -> orel Rck ckw ckw1 -> orel Rnk nkw nkw1 ->
    serial_op_rel (SFwd xs ckw nkw cap) (SFwd xs1 ckw1 nkw1 cap)
| SClear_rel sub xk xk1 : Rxk xk xk1 -> serial_op_rel (SClear sub xk) (SClear sub xk1)
| SLearnC_rel f f1 : lcrel f f1 -> serial_op_rel (SLearnC f) (SLearnC f1)
| SLearnN_rel f f1 : lnrel f f1 -> serial_op_rel (SLearnN f) (SLearnN f1).
Inductive biclique_op_rel : biclique_op V CS NS CK NK XK -> biclique_op V' CS' NS' CK' NK' XK' -> Prop :=
| BFwd_rel ins ins1 ckw ckw1 nkw nkw1 cap : arel (Forall2 Rv) ins ins1 -> arel Rck ckw ckw1 -> arel Rnk nkw nkw1 ->
    biclique_op_rel (BFwd ins ckw nkw cap) (BFwd ins1 ckw1 nkw1 cap)
| BClear_rel sub xk xk1 : Rxk xk xk1 -> biclique_op_rel (BClear sub xk) (BClear sub xk1)
| BLearnC_rel k f f1 : lcrel f f1 -> biclique_op_rel (BLearnC k f) (BLearnC k f1)
| BLearnN_rel k f f1 : lnrel f f1 -> biclique_op_rel (BLearnN k f) (BLearnN k f1).
Inductive recurrent_op_rel : recurrent_op V CS NS CK NK XK -> recurrent_op V' CS' NS' CK' NK' XK' -> Prop :=
| RFwd_rel xs xs1 la la1 fa fa1 kff kff1 klat klat1 kfb kfb1 nkff nkff1 nkfb nkfb1 cap :
    Forall2 Rv xs xs1 -> Forall2 Rv la la1 -> Forall2 Rv fa fa1 ->
    orel Rck kff kff1 -> orel Rck klat klat1 -> orel Rck kfb kfb1 -> orel Rnk nkff nkff1 -> orel Rnk nkfb nkfb1 ->
    recurrent_op_rel (RFwd xs la fa kff klat kfb nkff nkfb cap) (RFwd xs1 la1 fa1 kff1 klat1 kfb1 nkff1 nkfb1 cap)
| RClear_rel cf sub xk xk1 : Rxk xk xk1 -> recurrent_op_rel (RClear cf sub xk) (RClear cf sub xk1)
| RLearnC_rel k f f1 : lcrel f f1 -> recurrent_op_rel (RLearnC k f) (RLearnC k f1)
| RLearnN_rel k f f1 : lnrel f f1 -> recurrent_op_rel (RLearnN k f) (RLearnN k f1).

(* outputs *)
Definition serial_out_rel : option (V * V) -> option (V' * V') -> Prop := orel (prel Rv Rv).
Definition biclique_out_rel : option (list (Z * V) * list (Z * V)) -> option (list (Z * V') * list (Z * V')) -> Prop :=
  orel (prel (arel Rv) (arel Rv)).
Definition recurrent_out_rel : option ((V * V) * list (Z * V)) -> option ((V' * V') * list (Z * V')) -> Prop :=
  orel (prel (prel Rv Rv) (arel Rv)).

(* ---------- Layer ---------- *)
Lemma run_conns_rel ckw ckw1 : arel Rck ckw ckw1 ->
  forall ins ins1, arel (Forall2 Rv) ins ins1 ->
  forall cs cs1 cs' ys, arel Rc cs cs1 -> run_conns V CS CK ck0 cstep cs ckw ins = Ok (cs', ys) ->
  exists cs1' ys1, run_conns V' CS' CK' ck0' cstep' cs1 ckw1 ins1 = Ok (cs1', ys1) /\
    arel Rc cs' cs1' /\ arel Rv ys ys1.
Proof.
  intros Hkw. induction 1 as [|[k x] [k1 x1] ins ins1 [Hk Hx] _ IH]; intros cs cs1 cs' ys Hcs H; cbn [run_conns] in *.
  - inversion H; subst. exists cs1, []. repeat split; [exact Hcs|constructor].
  - cbn [fst snd] in Hk, Hx. subst k1.
    destruct (lookup k cs) as [c|] eqn:El; [|discriminate].
    destruct (lookup_rel_Some Rc k cs cs1 c Hcs El) as (c1 & El1 & Hc). rewrite El1.
    apply bind_ok in H as ([c' y] & E1 & H). apply bind_ok in H as ([cs2 ys2] & E2 & H).
    inversion H; subst; clear H.
    destruct (Hcstep c c1 (getd k ckw ck0) (getd k ckw1 ck0') x x1 c' y Hc (getd_rel Rck k _ _ _ _ Hkw Hck0) Hx E1)
      as (c1' & y1 & E1' & Hc' & Hy).
    destruct (IH _ _ _ _ (update_rel Rc k c' c1' cs cs1 Hcs Hc') E2) as (cs1' & ys1 & E2' & Hcs' & Hys).
    exists cs1', ((k, y1) :: ys1). rewrite E1'. cbn [bind]. rewrite E2'. cbn [bind].
    repeat split; [exact Hcs'|apply arel_cons; assumption].
Qed.
Lemma run_neurs_rel nkw nkw1 : arel Rnk nkw nkw1 ->
  forall ws ws1, arel Rv ws ws1 ->
  forall ns ns1 ns' zs, arel Rn ns ns1 -> run_neurs V NS NK nk0 nstep ns nkw ws = Ok (ns', zs) ->
  exists ns1' zs1, run_neurs V' NS' NK' nk0' nstep' ns1 nkw1 ws1 = Ok (ns1', zs1) /\
    arel Rn ns' ns1' /\ arel Rv zs zs1.
Proof.
  intros Hkw. induction 1 as [|[k x] [k1 x1] ws ws1 [Hk Hx] _ IH]; intros ns ns1 ns' zs Hns H; cbn [run_neurs] in *.
  - inversion H; subst. exists ns1, []. repeat split; [exact Hns|constructor].
  - cbn [fst snd] in Hk, Hx. subst k1.
    destruct (lookup k ns) as [n|] eqn:El; [|discriminate].
    destruct (lookup_rel_Some Rn k ns ns1 n Hns El) as (n1 & El1 & Hn). rewrite El1.
    apply bind_ok in H as ([n' z] & E1 & H). apply bind_ok in H as ([ns2 zs2] & E2 & H).
    inversion H; subst; clear H.
    destruct (Hnstep n n1 (getd k nkw nk0) (getd k nkw1 nk0') x x1 n' z Hn (getd_rel Rnk k _ _ _ _ Hkw Hnk0) Hx E1)
      as (n1' & z1 & E1' & Hn' & Hz).
    destruct (IH _ _ _ _ (update_rel Rn k n' n1' ns ns1 Hns Hn') E2) as (ns1' & zs1 & E2' & Hns' & Hzs).
    exists ns1', ((k, z1) :: zs1). rewrite E1'. cbn [bind]. rewrite E2'. cbn [bind].
    repeat split; [exact Hns'|apply arel_cons; assumption].
Qed.

Local Notation LF := (layer_forward V CS NS CK NK ck0 nk0 cstep nstep).
Local Notation LF' := (layer_forward V' CS' NS' CK' NK' ck0' nk0' cstep' nstep').

Lemma layer_forward_rel w w1 L L1 ins ins1 ckw ckw1 nkw nkw1 L' zs ys :
  wrel w w1 -> layer_rel L L1 -> arel (Forall2 Rv) ins ins1 -> arel Rck ckw ckw1 -> arel Rnk nkw nkw1 ->
  LF w L ins ckw nkw = Ok (L', (zs, ys)) ->
  exists L1' zs1 ys1, LF' w1 L1 ins1 ckw1 nkw1 = Ok (L1', (zs1, ys1)) /\
    layer_rel L' L1' /\ arel Rv zs zs1 /\ arel Rv ys ys1.
Proof.
  intros Hw [HLc HLn] Hins Hckw Hnkw H. unfold layer_forward in *.
  apply bind_ok in H as ([cs' ys0] & E1 & H). apply bind_ok in H as (ws & E2 & H).
  apply bind_ok in H as ([ns' zs0] & E3 & H). inversion H; subst; clear H.
  destruct (run_conns_rel _ _ Hckw _ _ Hins _ _ _ _ HLc E1) as (cs1' & ys1 & E1' & Hcs' & Hys).
  destruct (Hw _ _ _ Hys E2) as (ws1 & E2' & Hws).
  destruct (run_neurs_rel _ _ Hnkw _ _ Hws _ _ _ _ HLn E3) as (ns1' & zs1 & E3' & Hns' & Hzs).
  exists (mkLayer cs1' ns1'), zs1, ys1. rewrite E1'. cbn [bind]. rewrite E2'. cbn [bind]. rewrite E3'. cbn [bind].
  repeat split; assumption.
Qed.

Lemma layer_clear_rel sub xk xk1 L L1 : Rxk xk xk1 -> layer_rel L L1 ->
  layer_rel (layer_clear CS NS XK cclear nclear sub xk L) (layer_clear CS' NS' XK' cclear' nclear' sub xk1 L1).
Proof.
  intros Hx [Hc Hn]. unfold layer_clear. destruct sub; [|split; assumption].
  split; cbn [conns neurs]; apply map_snd_rel; auto.
Qed.
Lemma layer_learn_c_rel k f f1 L L1 : lcrel f f1 -> layer_rel L L1 ->
  layer_rel (layer_learn_c CS NS k f L) (layer_learn_c CS' NS' k f1 L1).
Proof.
  intros Hf [Hc Hn]. unfold layer_learn_c. pose proof (lookup_rel Rc k _ _ Hc) as Hl.
  destruct (lookup k (conns L)) as [c|], (lookup k (conns L1)) as [c1|]; cbn [orel] in Hl; try contradiction.
  - split; cbn [conns neurs]; [apply update_rel; [exact Hc|apply Hf; exact Hl]|exact Hn].
  - split; assumption.
Qed.
Lemma layer_learn_n_rel k f f1 L L1 : lnrel f f1 -> layer_rel L L1 ->
  layer_rel (layer_learn_n CS NS k f L) (layer_learn_n CS' NS' k f1 L1).
Proof.
  intros Hf [Hc Hn]. unfold layer_learn_n. pose proof (lookup_rel Rn k _ _ Hn) as Hl.
  destruct (lookup k (neurs L)) as [n|], (lookup k (neurs L1)) as [n1|]; cbn [orel] in Hl; try contradiction.
  - split; cbn [conns neurs]; [exact Hc|apply update_rel; [exact Hn|apply Hf; exact Hl]].
  - split; assumption.
Qed.
Lemma get_neuron_rel L L1 k n : layer_rel L L1 -> get_neuron CS NS L k = Ok n ->
  exists n1, get_neuron CS' NS' L1 k = Ok n1 /\ Rn n n1.
Proof.
  intros [_ Hn] H. unfold get_neuron in *. destruct (lookup k (neurs L)) as [n0|] eqn:E; [|discriminate].
  inversion H; subst. destruct (lookup_rel_Some Rn k _ _ _ Hn E) as (n1 & E1 & Hn1). rewrite E1. eauto.
Qed.

(* ---------- Serial ---------- *)
Local Notation SStep := (serial_step V CS NS CK NK XK ck0 nk0 cstep nstep cclear nclear).
Local Notation SStep' := (serial_step V' CS' NS' CK' NK' XK' ck0' nk0' cstep' nstep' cclear' nclear').

Lemma serial_wiring_rel S S1 : serial_rel S S1 -> wrel (serial_wiring V CS NS S) (serial_wiring V' CS' NS' S1).
Proof.
  intros (_ & Hcn & Hnn & Htr) ys ys1 ws Hys H. unfold serial_wiring in *.
  destruct (lookup (s_cn S) ys) as [y|] eqn:E; [|discriminate]. inversion H; subst; clear H.
  destruct (lookup_rel_Some Rv _ _ _ _ Hys E) as (y1 & E1 & Hy). rewrite <- Hcn, E1, <- Hnn.
  eexists; split; [reflexivity|]. apply arel_cons; [apply Htr; exact Hy|constructor].
Qed.

Lemma serial_forward_sim S S1 xs xs1 ckw ckw1 nkw nkw1 S' z y :
  serial_rel S S1 -> Forall2 Rv xs xs1 -> orel Rck ckw ckw1 -> orel Rnk nkw nkw1 ->
  serial_forward V CS NS CK NK ck0 nk0 cstep nstep S xs ckw nkw = Ok (S', (z, y)) ->
  exists S1' z1 y1, serial_forward V' CS' NS' CK' NK' ck0' nk0' cstep' nstep' S1 xs1 ckw1 nkw1 = Ok (S1', (z1, y1)) /\
    serial_rel S' S1' /\ Rv z z1 /\ Rv y y1.
Proof.
  intros HS Hxs Hck Hnk H. pose proof (serial_wiring_rel S S1 HS) as Hw.
  destruct HS as (HL & Hcn & Hnn & Htr). unfold serial_forward in *.
  apply bind_ok in H as ([L' [zs ys]] & E1 & H).
  destruct (lookup (s_nn S) zs) as [z0|] eqn:Ez; [|discriminate].
  destruct (lookup (s_cn S) ys) as [y0|] eqn:Ey; [|discriminate]. inversion H; subst; clear H.
  assert (Hins : arel (Forall2 Rv) [(s_cn S, xs)] [(s_cn S1, xs1)])
    by (rewrite <- Hcn; apply arel_cons; [exact Hxs|constructor]).
  assert (Hckw : arel Rck (okw (s_cn S) ckw) (okw (s_cn S1) ckw1)) by (rewrite <- Hcn; apply okw_rel; exact Hck).
  assert (Hnkw : arel Rnk (okw (s_nn S) nkw) (okw (s_nn S1) nkw1)) by (rewrite <- Hnn; apply okw_rel; exact Hnk).
  destruct (layer_forward_rel _ _ _ _ _ _ _ _ _ _ _ _ _ Hw HL Hins Hckw Hnkw E1)
    as (L1' & zs1 & ys1 & E1' & HL' & Hzs & Hys).
  destruct (lookup_rel_Some Rv _ _ _ _ Hzs Ez) as (z1 & Ez1 & Hz).
  destruct (lookup_rel_Some Rv _ _ _ _ Hys Ey) as (y1 & Ey1 & Hy).
  exists (mkSerial L1' (s_cn S1) (s_nn S1) (s_tr S1)), z1, y1.
  rewrite E1'. cbn [bind]. rewrite <- Hnn, <- Hcn, Ez1, Ey1.
  repeat split; cbn [s_layer s_cn s_nn s_tr]; try assumption; apply HL'.
Qed.

Theorem serial_step_sim S S1 o o1 S' out :
  serial_rel S S1 -> serial_op_rel o o1 -> SStep S o = Ok (S', out) ->
  exists S1' out1, SStep' S1 o1 = Ok (S1', out1) /\ serial_rel S' S1' /\ serial_out_rel out out1.
Proof.
  intros HS Ho H. destruct Ho as [xs xs1 ckw ckw1 nkw nkw1 cap Hxs Hck Hnk|sub xk xk1 Hxk|f f1 Hf|f f1 Hf];
    cbn [serial_step] in *.
  - apply bind_ok in H as ([S2 [z y]] & E & H). inversion H; subst; clear H.
    destruct (serial_forward_sim _ _ _ _ _ _ _ _ _ _ _ HS Hxs Hck Hnk E) as (S1' & z1 & y1 & E' & HS' & Hz & Hy).
    exists S1', (Some (z1, y1)). rewrite E'. cbn [bind]. split; [reflexivity|]. split; [exact HS'|split; assumption].
  - inversion H; subst; clear H. destruct HS as (HL & Hcn & Hnn & Htr).
    eexists _, None. split; [reflexivity|]. split; [|exact I].
    unfold serial_clear. repeat split; cbn [s_layer s_cn s_nn s_tr]; try assumption;
      apply layer_clear_rel; assumption.
  - inversion H; subst; clear H. destruct HS as (HL & Hcn & Hnn & Htr).
    eexists _, None. split; [reflexivity|]. split; [|exact I].
    repeat split; cbn [s_layer s_cn s_nn s_tr]; try assumption; rewrite <- Hcn; apply layer_learn_c_rel; assumption.
  - inversion H; subst; clear H. destruct HS as (HL & Hcn & Hnn & Htr).
    eexists _, None. split; [reflexivity|]. split; [|exact I].
    repeat split; cbn [s_layer s_cn s_nn s_tr]; try assumption; rewrite <- Hnn; apply layer_learn_n_rel; assumption.
Qed.

Theorem serial_run_sim ops ops1 S S1 S' outs :
  serial_rel S S1 -> Forall2 serial_op_rel ops ops1 -> run SStep S ops = Ok (S', outs) ->
  exists S1' outs1, run SStep' S1 ops1 = Ok (S1', outs1) /\ serial_rel S' S1' /\ Forall2 serial_out_rel outs outs1.
Proof.
  intros HS Hops H. eapply (run_rel SStep SStep' serial_rel serial_op_rel serial_out_rel); eauto.
  intros. eapply serial_step_sim; eauto.
Qed.

(* ---------- Biclique ---------- *)
Local Notation BStep := (biclique_step V CS NS CK NK XK ck0 nk0 cstep nstep cclear nclear).
Local Notation BStep' := (biclique_step V' CS' NS' CK' NK' XK' ck0' nk0' cstep' nstep' cclear' nclear').

Lemma post_all_rel post post1 : arel trel post post1 ->
  forall ys ys1, arel Rv ys ys1 -> forall r, post_all V post ys = Ok r ->
  exists r1, post_all V' post1 ys1 = Ok r1 /\ arel Rv r r1.
Proof.
  intros Hp. induction 1 as [|[k y] [k1 y1] ys ys1 [Hk Hy] _ IH]; intros r H; cbn [post_all] in *.
  - inversion H; subst. exists []. split; [reflexivity|constructor].
  - cbn [fst snd] in Hk, Hy. subst k1. destruct (lookup k post) as [f|] eqn:E; [|discriminate].
    destruct (lookup_rel_Some trel _ _ _ _ Hp E) as (f1 & E1 & Hf). rewrite E1.
    apply bind_ok in H as (r0 & E2 & H). inversion H; subst; clear H.
    destruct (IH _ E2) as (r1 & E2' & Hr). rewrite E2'. cbn [bind].
    eexists; split; [reflexivity|]. apply arel_cons; [apply Hf; exact Hy|exact Hr].
Qed.
Lemma pre_all_rel Bq Bq1 ys ys1 : arel trel (b_post Bq) (b_post Bq1) -> crel (b_combine Bq) (b_combine Bq1) ->
  arel Rv ys ys1 ->
  forall pre pre1, arel trel pre pre1 -> forall r, pre_all V CS NS pre Bq ys = Ok r ->
  exists r1, pre_all V' CS' NS' pre1 Bq1 ys1 = Ok r1 /\ arel Rv r r1.
Proof.
  intros Hpost Hcomb Hys. induction 1 as [|[k f] [k1 f1] pre pre1 [Hk Hf] _ IH]; intros r H; cbn [pre_all] in *.
  - inversion H; subst. exists []. split; [reflexivity|constructor].
  - cbn [fst snd] in Hk, Hf. subst k1.
    apply bind_ok in H as (ts & E1 & H). apply bind_ok in H as (u & E2 & H). apply bind_ok in H as (r0 & E3 & H).
    inversion H; subst; clear H.
    destruct (post_all_rel _ _ Hpost _ _ Hys _ E1) as (ts1 & E1' & Hts).
    destruct (Hcomb _ _ _ Hts E2) as (u1 & E2' & Hu).
    destruct (IH _ E3) as (r1 & E3' & Hr).
    rewrite E1'. cbn [bind]. rewrite E2'. cbn [bind]. rewrite E3'. cbn [bind].
    eexists; split; [reflexivity|]. apply arel_cons; [apply Hf; exact Hu|exact Hr].
Qed.
Lemma biclique_wiring_rel Bq Bq1 : biclique_rel Bq Bq1 ->
  wrel (biclique_wiring V CS NS Bq) (biclique_wiring V' CS' NS' Bq1).
Proof.
  intros (_ & Hpost & Hpre & Hcomb) ys ys1 ws Hys H. unfold biclique_wiring in *.
  eapply pre_all_rel; eauto.
Qed.

Theorem biclique_step_sim Bq Bq1 o o1 B' out :
  biclique_rel Bq Bq1 -> biclique_op_rel o o1 -> BStep Bq o = Ok (B', out) ->
  exists B1' out1, BStep' Bq1 o1 = Ok (B1', out1) /\ biclique_rel B' B1' /\ biclique_out_rel out out1.
Proof.
  intros HB Ho H. pose proof (biclique_wiring_rel _ _ HB) as Hw. destruct HB as (HL & Hpost & Hpre & Hcomb).
  destruct Ho as [ins ins1 ckw ckw1 nkw nkw1 cap Hins Hck Hnk|sub xk xk1 Hxk|k f f1 Hf|k f f1 Hf];
    cbn [biclique_step] in *.
  - apply bind_ok in H as ([B2 [zs ys]] & E & H). inversion H; subst; clear H. unfold biclique_forward in *.
    apply bind_ok in E as ([L' [zs0 ys0]] & E & H). inversion H; subst; clear H.
    destruct (layer_forward_rel _ _ _ _ _ _ _ _ _ _ _ _ _ Hw HL Hins Hck Hnk E)
      as (L1' & zs1 & ys1 & E' & HL' & Hzs & Hys).
    rewrite E'. cbn [bind]. eexists _, (Some (zs1, ys1)). split; [reflexivity|].
    split; [|split; assumption]. repeat split; cbn [b_layer b_post b_pre b_combine]; try assumption; apply HL'.
  - inversion H; subst; clear H. eexists _, None. split; [reflexivity|]. split; [|exact I].
    unfold biclique_clear. repeat split; cbn [b_layer b_post b_pre b_combine]; try assumption;
      apply layer_clear_rel; assumption.
  - inversion H; subst; clear H. eexists _, None. split; [reflexivity|]. split; [|exact I].
    repeat split; cbn [b_layer b_post b_pre b_combine]; try assumption; apply layer_learn_c_rel; assumption.
  - inversion H; subst; clear H. eexists _, None. split; [reflexivity|]. split; [|exact I].
    repeat split; cbn [b_layer b_post b_pre b_combine]; try assumption; apply layer_learn_n_rel; assumption.
Qed.

Theorem biclique_run_sim ops ops1 Bq Bq1 B' outs :
  biclique_rel Bq Bq1 -> Forall2 biclique_op_rel ops ops1 -> run BStep Bq ops = Ok (B', outs) ->
  exists B1' outs1, run BStep' Bq1 ops1 = Ok (B1', outs1) /\ biclique_rel B' B1' /\
    Forall2 biclique_out_rel outs outs1.
Proof.
  intros HB Hops H. eapply (run_rel BStep BStep' biclique_rel biclique_op_rel biclique_out_rel); eauto.
  intros. eapply biclique_step_sim; eauto.
Qed.

(* ---------- RecurrentSerial ---------- *)
Local Notation RStep := (recurrent_step V CS NS CK NK XK ck0 nk0 cstep nstep nspike cclear nclear vzeros_like vadd).
Local Notation RStep' :=
  (recurrent_step V' CS' NS' CK' NK' XK' ck0' nk0' cstep' nstep' nspike' cclear' nclear' vzeros_like' vadd').

Lemma recurrent_wiring_rel R R1 fp : recurrent_rel R R1 ->
  wrel (recurrent_wiring V CS NS vadd R fp) (recurrent_wiring V' CS' NS' vadd' R1 fp).
Proof.
  intros (_ & _ & Hffc & Hlatc & Hfbc & Hffn & Hfbn & Hff & Hlat & Hfb & _ & _) ys ys1 ws Hys H.
  unfold recurrent_wiring in *. destruct fp.
  - destruct (lookup (r_ffc R) ys) as [yff|] eqn:E1; [|discriminate].
    destruct (lookup (r_fbc R) ys) as [yfb|] eqn:E2; [|discriminate].
    apply bind_ok in H as (d & E3 & H). inversion H; subst; clear H.
    destruct (lookup_rel_Some Rv _ _ _ _ Hys E1) as (yff1 & E1' & Hyff).
    destruct (lookup_rel_Some Rv _ _ _ _ Hys E2) as (yfb1 & E2' & Hyfb).
    destruct (Hvadd _ _ _ _ _ (Hff _ _ Hyff) (Hfb _ _ Hyfb) E3) as (d1 & E3' & Hd).
    rewrite <- Hffc, E1', <- Hfbc, E2', E3'. cbn [bind]. rewrite <- Hffn.
    eexists; split; [reflexivity|]. apply arel_cons; [exact Hd|constructor].
  - destruct (lookup (r_latc R) ys) as [ylat|] eqn:E1; [|discriminate]. inversion H; subst; clear H.
    destruct (lookup_rel_Some Rv _ _ _ _ Hys E1) as (ylat1 & E1' & Hylat).
    rewrite <- Hlatc, E1', <- Hfbn.
    eexists; split; [reflexivity|]. apply arel_cons; [apply Hlat; exact Hylat|constructor].
Qed.

Lemma recurrent_forward_sim R R1 xs xs1 la la1 fa fa1 kff kff1 klat klat1 kfb kfb1 nkff nkff1 nkfb nkfb1 R' zff zfb ys :
  recurrent_rel R R1 -> Forall2 Rv xs xs1 -> Forall2 Rv la la1 -> Forall2 Rv fa fa1 ->
  orel Rck kff kff1 -> orel Rck klat klat1 -> orel Rck kfb kfb1 -> orel Rnk nkff nkff1 -> orel Rnk nkfb nkfb1 ->
  recurrent_forward V CS NS CK NK ck0 nk0 cstep nstep nspike vzeros_like vadd R xs la fa kff klat kfb nkff nkfb
    = Ok (R', ((zff, zfb), ys)) ->
  exists R1' zff1 zfb1 ys1,
    recurrent_forward V' CS' NS' CK' NK' ck0' nk0' cstep' nstep' nspike' vzeros_like' vadd' R1 xs1 la1 fa1
      kff1 klat1 kfb1 nkff1 nkfb1 = Ok (R1', ((zff1, zfb1), ys1)) /\
    recurrent_rel R' R1' /\ Rv zff zff1 /\ Rv zfb zfb1 /\ arel Rv ys ys1.
Proof.
  intros HR Hxs Hla Hfa Hkff Hklat Hkfb Hnkff Hnkfb H.
  pose proof (recurrent_wiring_rel R R1 true HR) as Hw1. pose proof (recurrent_wiring_rel R R1 false HR) as Hw2.
  destruct HR as (HL & Hfbs & Hffc & Hlatc & Hfbc & Hffn & Hfbn & Hff & Hlat & Hfb & Hilat & Hifb).
  unfold recurrent_forward in *.
  assert (Hckw : arel Rck (okw (r_fbc R) kfb ++ okw (r_latc R) klat ++ okw (r_ffc R) kff)
                          (okw (r_fbc R1) kfb1 ++ okw (r_latc R1) klat1 ++ okw (r_ffc R1) kff1)).
  { rewrite <- Hfbc, <- Hlatc, <- Hffc. repeat apply arel_app; apply okw_rel; assumption. }
  assert (Hnkw : arel Rnk (okw (r_fbn R) nkfb ++ okw (r_ffn R) nkff) (okw (r_fbn R1) nkfb1 ++ okw (r_ffn R1) nkff1)).
  { rewrite <- Hfbn, <- Hffn. repeat apply arel_app; apply okw_rel; assumption. }
  cbv zeta in H. cbv zeta.
  set (ckw := okw (r_fbc R) kfb ++ okw (r_latc R) klat ++ okw (r_ffc R) kff) in *.
  set (nkw := okw (r_fbn R) nkfb ++ okw (r_ffn R) nkff) in *.
  set (ckw1 := okw (r_fbc R1) kfb1 ++ okw (r_latc R1) klat1 ++ okw (r_ffc R1) kff1) in *.
  set (nkw1 := okw (r_fbn R1) nkfb1 ++ okw (r_ffn R1) nkff1) in *.
  apply bind_ok in H as (fbs & E0 & H).
  apply bind_ok in H as ([L1 [zs1 ys1]] & E1 & H).
  apply bind_ok in H as (nff & E2 & H).
  apply bind_ok in H as ([L2 [zs2 ys2]] & E3 & H).
  apply bind_ok in H as (nfb & E4 & H).
  destruct (lookup (r_ffn R) zs1) as [zff0|] eqn:Ez1; [|discriminate].
  destruct (lookup (r_fbn R) zs2) as [zfb0|] eqn:Ez2; [|discriminate]. inversion H; subst; clear H.
  (* the feedback spikes *)
  assert (Hf0 : exists fbs1,
            match r_fbs R1 with
            | Some v => Ok v
            | None => n <- get_neuron CS' NS' (r_layer R1) (r_fbn R1) ;; Ok (vzeros_like' (nspike' n))
            end = Ok fbs1 /\ Rv fbs fbs1).
  { destruct (r_fbs R) as [v|], (r_fbs R1) as [v1|]; cbn [orel] in Hfbs; try contradiction.
    - inversion E0; subst. eauto.
    - apply bind_ok in E0 as (n & En & E0). inversion E0; subst; clear E0.
      destruct (get_neuron_rel _ _ _ _ HL En) as (n1 & En1 & Hn). rewrite <- Hfbn, En1. cbn [bind].
      eexists; split; [reflexivity|]. apply Hzeros, Hspike, Hn. }
  destruct Hf0 as (fbs1 & E0' & Hfbs1). rewrite E0'. cbn [bind].
  (* forward pass *)
  assert (Hins1 : arel (Forall2 Rv) [(r_ffc R, xs); (r_fbc R, r_in_fb R fbs ++ fa)]
                                     [(r_ffc R1, xs1); (r_fbc R1, r_in_fb R1 fbs1 ++ fa1)]).
  { rewrite <- Hffc, <- Hfbc. apply arel_cons; [exact Hxs|]. apply arel_cons; [|constructor].
    apply Forall2_app; [apply Hifb; exact Hfbs1|exact Hfa]. }
  destruct (layer_forward_rel _ _ _ _ _ _ _ _ _ _ _ _ _ Hw1 HL Hins1 Hckw Hnkw E1)
    as (L11 & zs11 & ys11 & E1' & HL1 & Hzs1 & Hys1).
  rewrite E1'. cbn [bind].
  destruct (get_neuron_rel _ _ _ _ HL1 E2) as (nff1 & E2' & Hnff). rewrite <- Hffn, E2'. cbn [bind].
  (* feedback pass *)
  assert (Hins2 : arel (Forall2 Rv) [(r_latc R, r_in_lat R (nspike nff) ++ la)]
                                     [(r_latc R1, r_in_lat R1 (nspike' nff1) ++ la1)]).
  { rewrite <- Hlatc. apply arel_cons; [|constructor].
    apply Forall2_app; [apply Hilat, Hspike; exact Hnff|exact Hla]. }
  destruct (layer_forward_rel _ _ _ _ _ _ _ _ _ _ _ _ _ Hw2 HL1 Hins2 Hckw Hnkw E3)
    as (L21 & zs21 & ys21 & E3' & HL2 & Hzs2 & Hys2).
  rewrite E3'. cbn [bind].
  destruct (get_neuron_rel _ _ _ _ HL2 E4) as (nfb1 & E4' & Hnfb). rewrite <- Hfbn, E4'. cbn [bind].
  destruct (lookup_rel_Some Rv _ _ _ _ Hzs1 Ez1) as (zff1 & Ez1' & Hzff).
  destruct (lookup_rel_Some Rv _ _ _ _ Hzs2 Ez2) as (zfb1 & Ez2' & Hzfb).
  rewrite Ez1', Ez2'. do 4 eexists. split; [reflexivity|].
  split; [|split; [exact Hzff|split; [exact Hzfb|apply dmerge_rel; assumption]]].
  repeat split; cbn [r_layer r_fbs r_ffc r_latc r_fbc r_ffn r_fbn r_tr_ff r_tr_lat r_tr_fb r_in_lat r_in_fb orel];
    try assumption; try apply HL2. apply Hspike; exact Hnfb.
Qed.

Lemma r_with_rel R R1 L L1 fbs fbs1 : recurrent_rel R R1 -> layer_rel L L1 -> orel Rv fbs fbs1 ->
  recurrent_rel (r_with V CS NS R L fbs) (r_with V' CS' NS' R1 L1 fbs1).
Proof.
  intros (_ & _ & Hffc & Hlatc & Hfbc & Hffn & Hfbn & Hff & Hlat & Hfb & Hilat & Hifb) HL Hf.
  unfold r_with. repeat split;
    cbn [r_layer r_fbs r_ffc r_latc r_fbc r_ffn r_fbn r_tr_ff r_tr_lat r_tr_fb r_in_lat r_in_fb];
    try assumption; apply HL.
Qed.

Theorem recurrent_step_sim R R1 o o1 R' out :
  recurrent_rel R R1 -> recurrent_op_rel o o1 -> RStep R o = Ok (R', out) ->
  exists R1' out1, RStep' R1 o1 = Ok (R1', out1) /\ recurrent_rel R' R1' /\ recurrent_out_rel out out1.
Proof.
  intros HR Ho H.
  destruct Ho as [xs xs1 la la1 fa fa1 kff kff1 klat klat1 kfb kfb1 nkff nkff1 nkfb nkfb1 cap
                    Hxs Hla Hfa Hkff Hklat Hkfb Hnkff Hnkfb|cf sub xk xk1 Hxk|k f f1 Hf|k f f1 Hf];
    cbn [recurrent_step] in *.
  - apply bind_ok in H as ([R2 [[zff zfb] ys]] & E & H). inversion H; subst; clear H.
    destruct (recurrent_forward_sim _ _ _ _ _ _ _ _ _ _ _ _ _ _ _ _ _ _ _ _ _ _
                HR Hxs Hla Hfa Hkff Hklat Hkfb Hnkff Hnkfb E) as (R1' & zff1 & zfb1 & ys1 & E' & HR' & Hzff & Hzfb & Hys).
    rewrite E'. cbn [bind]. eexists _, (Some ((zff1, zfb1), ys1)). split; [reflexivity|].
    split; [exact HR'|]. repeat split; assumption.
  - inversion H; subst; clear H. eexists _, None. split; [reflexivity|]. split; [|exact I].
    unfold recurrent_clear. apply r_with_rel; [exact HR|apply layer_clear_rel; [exact Hxk|apply HR]|].
    destruct cf; [exact I|apply HR].
  - inversion H; subst; clear H. eexists _, None. split; [reflexivity|]. split; [|exact I].
    apply r_with_rel; [exact HR|apply layer_learn_c_rel; [exact Hf|apply HR]|apply HR].
  - inversion H; subst; clear H. eexists _, None. split; [reflexivity|]. split; [|exact I].
    apply r_with_rel; [exact HR|apply layer_learn_n_rel; [exact Hf|apply HR]|apply HR].
Qed.

Theorem recurrent_run_sim ops ops1 R R1 R' outs :
  recurrent_rel R R1 -> Forall2 recurrent_op_rel ops ops1 -> run RStep R ops = Ok (R', outs) ->
  exists R1' outs1, run RStep' R1 ops1 = Ok (R1', outs1) /\ recurrent_rel R' R1' /\
    Forall2 recurrent_out_rel outs outs1.
Proof.
  intros HR Hops H. eapply (run_rel RStep RStep' recurrent_rel recurrent_op_rel recurrent_out_rel); eauto.
  intros. eapply recurrent_step_sim; eauto.
Qed.

(* ---------- constructors: related components give related layers ---------- *)
Section Constructors.
Hypothesis Hcompat : forall c c1 n n1, Rc c c1 -> Rn n n1 -> compat c n = compat' c1 n1.

Lemma otr_rel o o1 : orel trel o o1 -> trel (otr V o) (otr V' o1).
Proof.
  destruct o as [f|], o1 as [f1|]; cbn [orel otr]; intros H; try contradiction; [exact H|].
  intros v v1 Hv. exact Hv.
Qed.

Theorem serial_new_sim c c1 n n1 tr tr1 cn nn S :
  Rc c c1 -> Rn n n1 -> orel trel tr tr1 -> serial_new V CS NS compat c n tr cn nn = Ok S ->
  exists S1, serial_new V' CS' NS' compat' c1 n1 tr1 cn nn = Ok S1 /\ serial_rel S S1.
Proof.
  intros Hc Hn Htr H. unfold serial_new in *. rewrite <- (Hcompat _ _ _ _ Hc Hn).
  destruct (compat c n); [|discriminate]. inversion H; subst; clear H.
  eexists; split; [reflexivity|]. repeat split; cbn [s_layer s_cn s_nn s_tr conns neurs].
  - apply arel_cons; [exact Hc|constructor].
  - apply arel_cons; [exact Hn|constructor].
  - destruct tr as [f|], tr1 as [f1|]; cbn [orel] in Htr; try contradiction; [exact Htr|].
    intros v v1 Hv. exact Hv.
Qed.

(* named modules with their optional transforms, as handed to Biclique.__init__ *)
Definition erel {A A'} (R : A -> A' -> Prop)
  : list (Z * A * option (V -> V)) -> list (Z * A' * option (V' -> V')) -> Prop :=
  Forall2 (fun p q => fst (fst p) = fst (fst q) /\ R (snd (fst p)) (snd (fst q)) /\ orel trel (snd p) (snd q)).

Lemma add_all_rel {A A'} (R : A -> A' -> Prop) l l' : erel R l l' ->
  forall acc acc' r, arel R acc acc' -> add_all V l acc = Ok r ->
  exists r', add_all V' l' acc' = Ok r' /\ arel R r r'.
Proof.
  induction 1 as [|[[k a] o] [[k1 a1] o1] l l' (Hk & Ha & _) _ IH]; intros acc acc' r Hacc H; cbn [add_all] in *.
  - inversion H; subst. eauto.
  - cbn [fst snd] in Hk, Ha. subst k1. rewrite <- (arel_keys R _ _ Hacc).
    destruct (mem k (keys acc)); [discriminate|]. eapply IH; [|exact H].
    apply arel_app; [exact Hacc|apply arel_cons; [exact Ha|constructor]].
Qed.
Lemma trs_of_rel {A A'} (R : A -> A' -> Prop) l l' : erel R l l' -> arel trel (trs_of V l) (trs_of V' l').
Proof.
  unfold trs_of. intros H. generalize (arel_nil trel). generalize (@nil (Z * (V -> V))), (@nil (Z * (V' -> V'))).
  induction H as [|p q l l' (Hk & _ & Ho) _ IH]; intros acc acc' Hacc; cbn [fold_left]; [exact Hacc|].
  apply IH. rewrite Hk. apply dset_rel; [exact Hacc|apply otr_rel; exact Ho].
Qed.
Lemma compat_all_rel cl cl1 nl nl1 : arel Rc cl cl1 -> arel Rn nl nl1 ->
  forallb (fun c => forallb (fun n => compat (snd c) (snd n)) nl) cl =
  forallb (fun c => forallb (fun n => compat' (snd c) (snd n)) nl1) cl1.
Proof.
  intros Hc Hn. induction Hc as [|c c1 cl cl1 [_ Hc] _ IH]; cbn [forallb]; [reflexivity|]. rewrite IH. f_equal.
  clear IH. induction Hn as [|n n1 nl nl1 [_ Hn] _ IH]; cbn [forallb]; [reflexivity|].
  now rewrite IH, (Hcompat _ _ _ _ Hc Hn).
Qed.

Theorem biclique_new_sim cs cs1 ns ns1 comb comb1 Bq :
  erel Rc cs cs1 -> erel Rn ns ns1 -> crel comb comb1 -> biclique_new V CS NS compat cs ns comb = Ok Bq ->
  exists Bq1, biclique_new V' CS' NS' compat' cs1 ns1 comb1 = Ok Bq1 /\ biclique_rel Bq Bq1.
Proof.
  intros Hcs Hns Hcomb H. unfold biclique_new in *.
  destruct Hcs as [|pc qc cs cs1 Hpc Hcs]; [discriminate|].
  destruct Hns as [|pn qn ns ns1 Hpn Hns]; [discriminate|].
  assert (Hcs' : erel Rc (pc :: cs) (qc :: cs1)) by (constructor; assumption).
  assert (Hns' : erel Rn (pn :: ns) (qn :: ns1)) by (constructor; assumption).
  apply bind_ok in H as (cl & E1 & H). apply bind_ok in H as (nl & E2 & H).
  destruct (add_all_rel Rc _ _ Hcs' _ _ _ (arel_nil Rc) E1) as (cl1 & E1' & Hcl).
  destruct (add_all_rel Rn _ _ Hns' _ _ _ (arel_nil Rn) E2) as (nl1 & E2' & Hnl).
  rewrite E1'. cbn [bind]. rewrite E2'. cbn [bind]. rewrite <- (compat_all_rel _ _ _ _ Hcl Hnl).
  destruct (forallb _ cl); [|discriminate]. inversion H; subst; clear H.
  eexists; split; [reflexivity|]. repeat split; cbn [b_layer b_post b_pre b_combine conns neurs]; try assumption.
  - apply (trs_of_rel Rc); exact Hcs'.
  - apply (trs_of_rel Rn); exact Hns'.
Qed.

Theorem recurrent_new_sim cff cff1 clat clat1 cfb cfb1 nff nff1 nfb nfb1 tff tff1 tlat tlat1 tfb tfb1
    ilat ilat1 ifb ifb1 ffc latc fbc ffn fbn tf R :
  Rc cff cff1 -> Rc clat clat1 -> Rc cfb cfb1 -> Rn nff nff1 -> Rn nfb nfb1 ->
  orel trel tff tff1 -> orel trel tlat tlat1 -> orel trel tfb tfb1 -> orel itrel ilat ilat1 -> orel itrel ifb ifb1 ->
  recurrent_new V CS NS compat cff clat cfb nff nfb tff tlat tfb ilat ifb ffc latc fbc ffn fbn tf = Ok R ->
  exists R1, recurrent_new V' CS' NS' compat' cff1 clat1 cfb1 nff1 nfb1 tff1 tlat1 tfb1 ilat1 ifb1
               ffc latc fbc ffn fbn tf = Ok R1 /\ recurrent_rel R R1.
Proof.
  intros Hcff Hclat Hcfb Hnff Hnfb Htff Htlat Htfb Hilat Hifb H. unfold recurrent_new in *.
  rewrite <- (Hcompat _ _ _ _ Hcff Hnff), <- (Hcompat _ _ _ _ Hclat Hnfb), <- (Hcompat _ _ _ _ Hcfb Hnff).
  destruct (Z.eqb latc ffc || Z.eqb fbc ffc || Z.eqb fbc latc || Z.eqb fbn ffn); [discriminate|].
  destruct (negb (compat cff nff)); [discriminate|].
  destruct (tf && negb (compat clat nfb && compat cfb nff)); [discriminate|]. inversion H; subst; clear H.
  eexists; split; [reflexivity|].
  assert (Hwrap : itrel (tuplewrap V) (tuplewrap V')).
  { intros v v1 Hv. constructor; [exact Hv|constructor]. }
  repeat split;
    cbn [r_layer r_fbs r_ffc r_latc r_fbc r_ffn r_fbn r_tr_ff r_tr_lat r_tr_fb r_in_lat r_in_fb conns neurs orel];
    try (apply otr_rel; assumption).
  - repeat (apply arel_cons; [assumption|]). constructor.
  - repeat (apply arel_cons; [assumption|]). constructor.
  - destruct ilat as [f|], ilat1 as [f1|]; cbn [orel] in Hilat; try contradiction; assumption.
  - destruct ifb as [f|], ifb1 as [f1|]; cbn [orel] in Hifb; try contradiction; assumption.
Qed.
End Constructors.

End Sim.
