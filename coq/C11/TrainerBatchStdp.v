(* C11 - batch samples never interact: the spike-timing trainers of C08/C09 (STDP, StableSTDP, TripletSTDP,
   StableTripletSTDP, MSTDP, MSTDPET - every value of c_trainer at once), about the finished model C08/Stdp.v
   (reused unchanged), over the reals.

   A1  stdp_states_per_sample        the monitor state (spike records, traces, eligibilities) of sample b along a batched
                                     run is the state of the batch-1 run of sample b alone: no other sample enters;
   A2  stdp_step_parts_sum_persample ONE trainer call, sum reduction, any signal kind (none / scalar / per-sample tensor):
                                     BOTH update parts (pos, neg) are the sums over b of the parts of the batch-1 call
                                     on sample b with its own signal;
   A3  stdp_run_parts_sum_persample  the same at EVERY step of a whole run, stdp_acc_parts_sum_persample for the
                                     accumulated parts (Accumulator.pos / .neg), stdp_weight_change_sum_persample for
                                     the net weight change (re-export of C08's batch_reduction_sum_persample).

   The only coupling between samples is therefore the batch reduction inside `forward`; with the sum reduction a batched
   training step is the sum of the per-sample steps, part by part.  Parts are compared through `ov` (value of an
   optional part, None = 0): with a per-sample signal a part can be absent (None) for one sample and present for
   another. *)
From Coq Require Import List ZArith Bool Reals Lra Lia Arith.
From Inferno Require Import Base.Num Base.NumR C08.Stdp C08.StdpSpec C08.StdpProofs C09.StdpSplitProofs.
Import ListNotations.
Open Scope R_scope.

(* ================================================================== A1. the monitors are per sample *)
(* the state lists after each step of a run (the `fst (step ...)` that `run` threads through) *)
Fixpoint states (c : config RN) (k : nat) (ss : list (sstate RN)) (inps : list (list (bool * bool) * signal RN))
  : list (list (sstate RN)) :=
  match inps with
  | [] => []
  | i :: tl => let ss' := fst (step RN c k ss i) in ss' :: states c k ss' tl
  end.

Lemma states_length c k inps : forall ss, length (states c k ss inps) = length inps.
Proof. induction inps as [|i tl IH]; intros ss; cbn [states length]; [reflexivity|]. rewrite IH. reflexivity. Qed.

(* `run` is the outputs of `step` along `states` *)
Lemma run_states c k inps : forall ss,
  run RN c k ss inps = map (fun x => forward RN c k (snd (fst x)) (snd x)) (combine inps (states c k ss inps)).
Proof.
  induction inps as [|i tl IH]; intros ss; [reflexivity|].
  cbn [run states combine map]. unfold step at 1. cbn [fst snd]. rewrite IH. reflexivity.
Qed.

(* the batch-1 inputs of sample b: its (pre, post) bits and ANY signal sequence (the monitors do not see the signal) *)
Definition col_with (b : nat) (sgs : list (signal RN)) (inps : list (list (bool * bool) * signal RN))
  : list (list (bool * bool) * signal RN) :=
  map (fun x => ([nth b (fst (fst x)) (false, false)], snd x)) (combine inps sgs).

(* Nearly definitional: `step` maps `observe` over `combine ss pqs`, so entry b of the new state list is `observe` of
   entry b of the old one and of entry b of the inputs; the induction over the run is all there is to prove.
   Stated as an equality of whole trajectories: the batch-1 run of sample b IS column b of the batched run. *)
Theorem stdp_states_per_sample_gen c k B b : (b < B)%nat ->
  forall inps sgs ss, length ss = B -> Forall (fun i => length (fst i) = B) inps -> length sgs = length inps ->
  states c k [nth b ss (s_init RN)] (col_with b sgs inps)
  = map (fun sl => [nth b sl (s_init RN)]) (states c k ss inps).
Proof.
  intros Hb. induction inps as [|i tl IH]; intros sgs ss Hl Hok Hs.
  - destruct sgs; reflexivity.
  - destruct sgs as [|sg sgs]; [discriminate|].
    apply Forall_cons_iff in Hok. destruct Hok as [Hli Hok'].
    cbn [col_with combine map states]. unfold step. cbn [fst snd combine map].
    set (ss' := map _ (combine ss (fst i))).
    assert (Hl' : length ss' = B) by (unfold ss'; rewrite map_length, combine_length; lia).
    assert (E : observe RN c k (nth b ss (s_init RN)) (fst (nth b (fst i) (false, false))) (snd (nth b (fst i) (false, false)))
                = nth b ss' (s_init RN)).
    { unfold ss'. symmetry. apply (nth_observe c k B); assumption. }
    rewrite E. f_equal. apply (IH sgs ss' Hl' Hok'). cbn in Hs. lia.
Qed.

Lemma col_ps_col_with b inps : col_ps b inps = col_with b (map (fun i => signal_of_sample b (snd i)) inps) inps.
Proof.
  unfold col_ps, col_with. induction inps as [|i tl IH]; [reflexivity|]. cbn [map combine fst snd]. rewrite IH. reflexivity.
Qed.

Theorem stdp_states_per_sample c k B b inps ss :
  length ss = B -> Forall (fun i => length (fst i) = B) inps -> (b < B)%nat ->
  states c k [nth b ss (s_init RN)] (col_ps b inps) = map (fun sl => [nth b sl (s_init RN)]) (states c k ss inps).
Proof.
  intros Hl Hok Hb. rewrite col_ps_col_with. apply (stdp_states_per_sample_gen c k B b Hb); try assumption.
  apply map_length.
Qed.

(* pointwise form: at every step t, sample b's state in the batch = the state of the batch-1 run of sample b *)
Corollary stdp_states_per_sample_nth c k B b inps ss t :
  length ss = B -> Forall (fun i => length (fst i) = B) inps -> (b < B)%nat -> (t < length inps)%nat ->
  nth b (nth t (states c k ss inps) []) (s_init RN)
  = nth 0 (nth t (states c k [nth b ss (s_init RN)] (col_ps b inps)) []) (s_init RN).
Proof.
  intros Hl Hok Hb Ht. rewrite (stdp_states_per_sample c k B b inps ss Hl Hok Hb).
  rewrite (nth_map_lt _ _ _ []) by (rewrite states_length; exact Ht). reflexivity.
Qed.

(* independence proper: two batched runs that agree on sample b (initial state and inputs; everything else - the other
   samples' states, inputs, and all signals - arbitrary) give sample b the same state at every step *)
Corollary stdp_states_independent c k B b inps inps' ss ss' :
  length ss = B -> length ss' = B -> (b < B)%nat ->
  Forall (fun i => length (fst i) = B) inps -> Forall (fun i => length (fst i) = B) inps' ->
  nth b ss (s_init RN) = nth b ss' (s_init RN) ->
  map (fun i => nth b (fst i) (false, false)) inps = map (fun i => nth b (fst i) (false, false)) inps' ->
  map (fun sl => nth b sl (s_init RN)) (states c k ss inps) = map (fun sl => nth b sl (s_init RN)) (states c k ss' inps').
Proof.
  intros Hl Hl' Hb Hok Hok' E0 Ei.
  assert (Hlen : length inps = length inps') by (rewrite <- (map_length (fun i => nth b (fst i) (false, false)) inps), Ei; apply map_length).
  pose proof (stdp_states_per_sample_gen c k B b Hb inps (map snd inps) ss Hl Hok (map_length _ _)) as H1.
  pose proof (stdp_states_per_sample_gen c k B b Hb inps' (map snd inps) ss' Hl' Hok') as H2.
  rewrite map_length in H2. specialize (H2 Hlen).
  assert (Ec : col_with b (map snd inps) inps = col_with b (map snd inps) inps').
  { unfold col_with. clear - Ei. revert inps' Ei. induction inps as [|i tl IH]; intros [|i' tl'] Ei; try discriminate; [reflexivity|].
    cbn [map combine fst snd] in *. injection Ei as E1 E2. rewrite E1, (IH tl' E2). reflexivity. }
  rewrite Ec, E0, H2 in H1.
  apply (f_equal (map (fun l => nth 0 l (s_init RN)))) in H1. rewrite !map_map in H1. cbn [nth] in H1.
  symmetry. exact H1.
Qed.

(* ================================================================== A2. one trainer call: both parts are sums *)
Theorem stdp_step_parts_sum_persample c k B sg ss :
  c_red RN c = RSum -> sig_ok B sg -> length ss = B ->
  ov (fst (forward RN c k sg ss))
  = sum_steps B (fun b => ov (fst (forward RN c k (signal_of_sample b sg) [nth b ss (s_init RN)]))) /\
  ov (snd (forward RN c k sg ss))
  = sum_steps B (fun b => ov (snd (forward RN c k (signal_of_sample b sg) [nth b ss (s_init RN)]))).
Proof.
  intros Hr Hs Hl. destruct sg as [|sv g|sv g].
  - destruct (batch_parts_sum c k (SigNone RN) ss Hr I) as [E1 E2].
    rewrite E1, E2, !(rsum_nth _ (s_init RN)), Hl. split; reflexivity.
  - destruct (batch_parts_sum c k (SigScalar RN sv g) ss Hr I) as [E1 E2].
    rewrite E1, E2, !(rsum_nth _ (s_init RN)), Hl. split; reflexivity.
  - unfold sig_ok in Hs. destruct (tensor_parts_formula c k Hr sv g ss) as [E1 E2].
    rewrite E1, E2, !(rsum_nth _ (s_init RN, 0)), combine_length, Hl, Hs, Nat.min_id.
    split; apply sum_steps_ext; intros b Hb; rewrite combine_nth by (rewrite Hl; symmetry; exact Hs);
      cbn [signal_of_sample];
      destruct (tensor_parts_formula c k Hr [nth b sv 0] g [nth b ss (s_init RN)]) as [F1 F2];
      [rewrite F1 | rewrite F2]; cbn [combine map rsum].
  all: symmetry; apply Rplus_0_r.
Qed.

(* ================================================================== A3. whole runs *)
Definition part0 : option R * option R := (None, None).

Definition obs_all (c : config RN) (k : nat) (ss : list (sstate RN)) (pqs : list (bool * bool)) : list (sstate RN) :=
  map (fun sx : sstate RN * (bool * bool) => observe RN c k (fst sx) (fst (snd sx)) (snd (snd sx))) (combine ss pqs).
Lemma run_cons c k ss i tl :
  run RN c k ss (i :: tl) = forward RN c k (snd i) (obs_all c k ss (fst i)) :: run RN c k (obs_all c k ss (fst i)) tl.
Proof. reflexivity. Qed.

Section Runs.
Variable c : config RN.
Variable k : nat.
Variable B : nat.
Hypothesis Hr : c_red RN c = RSum.

(* at EVERY step t the two parts the batched trainer hands to the updater are the sums over the samples of the parts the
   batch-1 trainer hands over at step t *)
Lemma run_parts_sum_from : forall inps ss t, length ss = B -> inputs_ok_ps B inps -> (t < length inps)%nat ->
  ov (fst (nth t (run RN c k ss inps) part0))
  = sum_steps B (fun b => ov (fst (nth t (run RN c k [nth b ss (s_init RN)] (col_ps b inps)) part0))) /\
  ov (snd (nth t (run RN c k ss inps) part0))
  = sum_steps B (fun b => ov (snd (nth t (run RN c k [nth b ss (s_init RN)] (col_ps b inps)) part0))).
Proof.
  induction inps as [|i tl IH]; intros ss t Hl Hok Ht; [cbn in Ht; lia|].
  apply Forall_cons_iff in Hok. destruct Hok as [[Hli Hsg] Hok'].
  rewrite run_cons. set (ss' := obs_all c k ss (fst i)).
  assert (Hl' : length ss' = B) by (unfold ss', obs_all; rewrite map_length, combine_length; lia).
  assert (E : forall b, (b < B)%nat ->
            run RN c k [nth b ss (s_init RN)] (col_ps b (i :: tl))
            = forward RN c k (signal_of_sample b (snd i)) [nth b ss' (s_init RN)]
              :: run RN c k [nth b ss' (s_init RN)] (col_ps b tl)).
  { intros b Hb. cbn [col_ps map run]. unfold step. cbn [fst snd combine map].
    unfold ss', obs_all. rewrite (nth_observe c k B) by assumption. reflexivity. }
  destruct t as [|t].
  - cbn [nth]. destruct (stdp_step_parts_sum_persample c k B (snd i) ss' Hr Hsg Hl') as [E1 E2].
    rewrite E1, E2. split; apply sum_steps_ext; intros b Hb; rewrite (E b Hb); reflexivity.
  - cbn [nth]. cbn [length] in Ht. destruct (IH ss' t Hl' Hok' ltac:(lia)) as [E1 E2].
    rewrite E1, E2. split; apply sum_steps_ext; intros b Hb; rewrite (E b Hb); reflexivity.
Qed.

(* the sums of the parts over all calls *)
Lemma run_sum_parts_from : forall inps ss, length ss = B -> inputs_ok_ps B inps ->
  sum_fst (run RN c k ss inps) = sum_steps B (fun b => sum_fst (run RN c k [nth b ss (s_init RN)] (col_ps b inps))) /\
  sum_snd (run RN c k ss inps) = sum_steps B (fun b => sum_snd (run RN c k [nth b ss (s_init RN)] (col_ps b inps))).
Proof.
  induction inps as [|i tl IH]; intros ss Hl Hok.
  - cbn [run col_ps map sum_fst sum_snd]. rewrite sum_steps_zero. split; reflexivity.
  - apply Forall_cons_iff in Hok. destruct Hok as [[Hli Hsg] Hok'].
    rewrite run_cons. cbn [sum_fst sum_snd]. set (ss' := obs_all c k ss (fst i)).
    assert (Hl' : length ss' = B) by (unfold ss', obs_all; rewrite map_length, combine_length; lia).
    destruct (IH ss' Hl' Hok') as [I1 I2].
    destruct (stdp_step_parts_sum_persample c k B (snd i) ss' Hr Hsg Hl') as [E1 E2].
    rewrite I1, I2. change (T RN) with R in *. rewrite E1, E2, <- !sum_steps_plus.
    split; apply sum_steps_ext; intros b Hb; cbn [col_ps map run]; unfold step; cbn [fst snd combine map sum_fst sum_snd];
      unfold ss', obs_all; rewrite (nth_observe c k B) by assumption; reflexivity.
Qed.
End Runs.

(* a fresh cell with B samples against B fresh batch-1 cells, each fed sample b's spikes and sample b's own signal *)
Theorem stdp_run_parts_sum_persample c k B inps t :
  c_red RN c = RSum -> inputs_ok_ps B inps -> (t < length inps)%nat ->
  ov (fst (nth t (run RN c k (init_batch RN B) inps) part0))
  = sum_steps B (fun b => ov (fst (nth t (run RN c k (init_batch RN 1) (inps1 (sample_ps b inps))) part0))) /\
  ov (snd (nth t (run RN c k (init_batch RN B) inps) part0))
  = sum_steps B (fun b => ov (snd (nth t (run RN c k (init_batch RN 1) (inps1 (sample_ps b inps))) part0))).
Proof.
  intros Hr Hok Ht.
  destruct (run_parts_sum_from c k B Hr inps (init_batch RN B) t (repeat_length _ _) Hok Ht) as [E1 E2].
  rewrite E1, E2. split; apply sum_steps_ext; intros b Hb; rewrite nth_init_batch, col_ps_sample; reflexivity.
Qed.

(* the accumulated potentiating / depressing parts (Accumulator.pos / .neg at the end of the run) *)
Theorem stdp_acc_parts_sum_persample c k B inps :
  c_red RN c = RSum -> inputs_ok_ps B inps ->
  ov (fst (final_acc RN (run RN c k (init_batch RN B) inps)))
  = sum_steps B (fun b => ov (fst (final_acc RN (run RN c k (init_batch RN 1) (inps1 (sample_ps b inps)))))) /\
  ov (snd (final_acc RN (run RN c k (init_batch RN B) inps)))
  = sum_steps B (fun b => ov (snd (final_acc RN (run RN c k (init_batch RN 1) (inps1 (sample_ps b inps)))))).
Proof.
  intros Hr Hok.
  destruct (final_acc_sums (run RN c k (init_batch RN B) inps)) as [F1 F2]. rewrite F1, F2.
  destruct (run_sum_parts_from c k B Hr inps (init_batch RN B) (repeat_length _ _) Hok) as [E1 E2].
  rewrite E1, E2. split; apply sum_steps_ext; intros b Hb; rewrite nth_init_batch, col_ps_sample;
    destruct (final_acc_sums (run RN c k (init_batch RN 1) (inps1 (sample_ps b inps)))) as [G1 G2];
    [rewrite G1 | rewrite G2]; reflexivity.
Qed.

(* ... and after every call, not only at the end: the accumulator contents after call t *)
Lemma ov_accumulate_nth outs : forall a t, (t < length outs)%nat ->
  ov (fst (nth t (accumulate RN a outs) part0)) = ov (fst a) + sum_fst (firstn (S t) outs) /\
  ov (snd (nth t (accumulate RN a outs) part0)) = ov (snd a) + sum_snd (firstn (S t) outs).
Proof.
  induction outs as [|o tl IH]; intros a t Ht; [cbn in Ht; lia|].
  cbn [accumulate]. destruct t as [|t].
  - cbn [nth firstn sum_fst sum_snd fst snd]. rewrite !ov_acc_add. change (T RN) with R in *. split; lra.
  - cbn [nth]. cbn [length] in Ht.
    destruct (IH (acc_add RN (fst a) (fst o), acc_add RN (snd a) (snd o)) t ltac:(lia)) as [E1 E2].
    rewrite E1, E2. cbn [fst snd]. rewrite !ov_acc_add.
    change (firstn (S (S t)) (o :: tl)) with (o :: firstn (S t) tl). cbn [sum_fst sum_snd]. change (T RN) with R in *. split; lra.
Qed.

Lemma firstn_run c k n : forall inps ss, firstn n (run RN c k ss inps) = run RN c k ss (firstn n inps).
Proof.
  induction n as [|n IH]; intros inps ss; [reflexivity|]. destruct inps as [|i tl]; [reflexivity|].
  cbn [run firstn]. unfold step. cbn [fst snd]. rewrite IH. reflexivity.
Qed.
Lemma run_length c k : forall inps ss, length (run RN c k ss inps) = length inps.
Proof.
  induction inps as [|i tl IH]; intros ss; [reflexivity|]. cbn [run]. unfold step. cbn [length]. rewrite IH. reflexivity.
Qed.
Lemma firstn_col_ps n b inps : firstn n (col_ps b inps) = col_ps b (firstn n inps).
Proof. unfold col_ps. apply firstn_map. Qed.
Lemma inputs_ok_ps_firstn B n inps : inputs_ok_ps B inps -> inputs_ok_ps B (firstn n inps).
Proof.
  unfold inputs_ok_ps. intros H. revert n. induction H as [|i tl Hi _ IH]; intros [|n]; cbn [firstn]; constructor;
    [exact Hi | apply IH].
Qed.

Theorem stdp_acc_parts_sum_persample_every_call c k B inps t :
  c_red RN c = RSum -> inputs_ok_ps B inps -> (t < length inps)%nat ->
  ov (fst (nth t (accumulate RN part0 (run RN c k (init_batch RN B) inps)) part0))
  = sum_steps B (fun b => ov (fst (nth t (accumulate RN part0 (run RN c k (init_batch RN 1) (inps1 (sample_ps b inps)))) part0))) /\
  ov (snd (nth t (accumulate RN part0 (run RN c k (init_batch RN B) inps)) part0))
  = sum_steps B (fun b => ov (snd (nth t (accumulate RN part0 (run RN c k (init_batch RN 1) (inps1 (sample_ps b inps)))) part0))).
Proof.
  intros Hr Hok Ht.
  destruct (ov_accumulate_nth (run RN c k (init_batch RN B) inps) part0 t ltac:(rewrite run_length; exact Ht)) as [A1 A2].
  rewrite A1, A2, firstn_run.
  destruct (run_sum_parts_from c k B Hr (firstn (S t) inps) (init_batch RN B) (repeat_length _ _)
              (inputs_ok_ps_firstn B _ inps Hok)) as [E1 E2].
  rewrite E1, E2. cbn [part0 fst snd ov]. rewrite !Rplus_0_l.
  split; apply sum_steps_ext; intros b Hb; rewrite nth_init_batch, <- firstn_col_ps, <- firstn_run, col_ps_sample;
    destruct (ov_accumulate_nth (run RN c k (init_batch RN 1) (inps1 (sample_ps b inps))) part0 t) as [G1 G2];
    try (rewrite run_length; unfold inps1, sample_ps; rewrite !map_length; exact Ht);
    [rewrite G1 | rewrite G2]; cbn [part0 fst snd ov].
  all: change (init_batch RN 1) with [s_init RN]; symmetry; apply Rplus_0_l.
Qed.

(* the net weight change (re-export of C08's theorem) *)
Theorem stdp_weight_change_sum_persample c k B inps :
  c_red RN c = RSum -> inputs_ok_ps B inps ->
  weight_change_batch c k B inps = sum_steps B (fun b => weight_change c k (sample_ps b inps)).
Proof. exact (batch_reduction_sum_persample c k B inps). Qed.
