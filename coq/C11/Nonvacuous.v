(* C11 - the hypotheses of the batch-independence theorems are satisfiable by concrete, non-trivial batched
   configurations and operation sequences.  The theorems of SynapseBatch / ConnBatch / NeuronBatch hold for every
   reading [NM : Num] of the numeric signature (they never use a property of the numbers), so the witnesses below use an
   integer reading [ZN] of the signature, which Coq can evaluate (vm_compute) without floats and without axioms.
   Each witness states: the shape / no-raise / frozen hypotheses hold; the batched run does something (a non-zero
   output, different values for the two samples); and - as a direct evaluation, not through the theorem - sample 1 of
   the batched run equals the batch-1 run on sample 1. *)
From Coq Require Import List ZArith Bool Arith Lia.
From Inferno Require Import Base.Num Gen.Infra Gen.Interpolation C01.Ring C04.Synapse.
From Inferno Require C05.Conn C03.Neuron.
From Inferno Require Import C06.Delay C11.Samp C11.SynapseBatch C11.ConnBatch.
From Inferno Require C11.NeuronBatch.
Import ListNotations.
Open Scope Z_scope.

Definition ZN : Num := {|
  T := Z; zero := 0; one := 1;
  add := Z.add; sub := Z.sub; mul := Z.mul; div := Z.div; opp := Z.opp; abs := Z.abs;
  exp := fun x => x; ln := fun x => x; sqrt := Z.sqrt; pow := Z.pow;
  leb := Z.leb; ltb := Z.ltb; eqb := Z.eqb; ofZ := fun z => z; half := 0;
  floorZ := fun x => x; ceilZ := fun x => x; rneZ := fun x => x; truncZ := fun x => x |}.

(* ---------- synapse: B = 2 samples of 2 synapses, record of 3 steps (delay 2 dt), delayed reads ---------- *)
Definition sc0 : cfg ZN := mkCfg ZN KSingleExp [2%nat; 2%nat] 1 2 6 3 1 IPrevious 0 (Some 7) (Some false) false.
Definition sops0 : list (sop ZN) :=
  [OStep ZN [2%nat; 2%nat] [1; 0; 0; 1] []; OStep ZN [2%nat; 2%nat] [0; 0; 1; 1] [];
   OCurrentAt ZN [2%nat; 2%nat] [1; 0; 0; 1];                   (* one selector per synapse *)
   OSpikeAt ZN [2%nat; 2%nat; 2%nat] [0; 1; 1; 2; 0; 0; 1; 1];  (* two selectors per synapse *)
   OCurrent ZN; OSpike ZN; OClear ZN; OStep ZN [2%nat; 2%nat] [1; 1; 0; 0] []; OCurrent ZN].

Theorem nonvacuous_synapse :
  cshape ZN sc0 = [2%nat; 2%nat] /\ Forall (sop_ok ZN 2 [2%nat]) sops0 /\
  no_raise ZN (snd (run ZN sc0 (init ZN sc0) sops0)) /\
  (* the delayed current read differs between the two samples *)
  nth 2 (snd (run ZN sc0 (init ZN sc0) sops0)) (inr ERuntime) = inl (SOFloat ZN [2%nat; 2%nat] [2; 0; 2; 2]) /\
  (* direct evaluation: sample 1 of the batched run = the batch-1 run on sample 1 *)
  run ZN (with_shape ZN sc0 [1%nat; 2%nat]) (init ZN (with_shape ZN sc0 [1%nat; 2%nat])) (map (psop ZN 1) sops0)
  = (psyn ZN 1 (fst (run ZN sc0 (init ZN sc0) sops0)), map (pres ZN 1) (snd (run ZN sc0 (init ZN sc0) sops0))).
Proof.
  split; [reflexivity|]. split.
  { unfold sops0. repeat apply Forall_cons; try apply Forall_nil; cbn [sop_ok]; auto;
      try (split; [reflexivity|repeat constructor]).
    - left. split; reflexivity.
    - right. exists 2%nat. split; reflexivity. }
  split.
  { unfold no_raise. vm_compute. repeat constructor; eexists; reflexivity. }
  split; vm_compute; reflexivity.
Qed.

(* ---------- connection: LinearDense 2 -> 2 with per-synapse delays on B = 2 samples ---------- *)
Definition kc0 : cfg ZN := mkCfg ZN KDelta [2%nat; 2%nat] 1 2 1 1 1 IPrevious 0 (Some 0) (Some false) false.
Definition kd0 : conn ZN :=
  CDense ZN (mkDense ZN [2%nat] [2%nat] 2 [[1; 2]; [3; 4]] (Some [10; 20]) (Some [[0; 1]; [2; 0]])).
Definition kops0 : list (cop ZN) :=
  [KStep ZN [2%nat; 2%nat] [1; 0; 0; 1] []; KStep ZN [2%nat; 2%nat] [0; 1; 1; 1] []; KSynCurrent ZN; KSynSpike ZN;
   KSelector ZN; KStep ZN [2%nat; 2%nat] [1; 1; 0; 0] []; KSetDelay ZN [1; 1; 0; 2]; KStep ZN [2%nat; 2%nat] [0; 0; 0; 1] [];
   KClear ZN; KStep ZN [2%nat; 2%nat] [1; 0; 1; 0] []].

Theorem nonvacuous_connection :
  conn_wf ZN 2 kd0 /\ cshape ZN kc0 = 2%nat :: conn_sh ZN kd0 /\ Forall (cop_ok ZN) kops0 /\
  takes_delayed ZN kc0 (conn_hasdelay ZN kd0) = true /\
  Forall (fun o => ~ raises ZN o) (snd (crun ZN kc0 (kd0, init ZN kc0) kops0)) /\
  (* the delayed forward output differs between the two samples *)
  nth 5 (snd (crun ZN kc0 (kd0, init ZN kc0) kops0)) (COUnit ZN) = COFloat ZN ([2%nat; 2%nat], [13; 27; 12; 20]) /\
  crun ZN (with_shape ZN kc0 [1%nat; 2%nat]) (conn_B1 ZN kd0, init ZN (with_shape ZN kc0 [1%nat; 2%nat])) (map (pcop ZN 1) kops0)
  = ((conn_B1 ZN (fst (fst (crun ZN kc0 (kd0, init ZN kc0) kops0))),
      psyn ZN 1 (snd (fst (crun ZN kc0 (kd0, init ZN kc0) kops0)))),
     map (pcout ZN 1) (snd (crun ZN kc0 (kd0, init ZN kc0) kops0))).
Proof.
  split.
  { unfold kd0, conn_wf, dense_wf, dn_O. cbn. repeat split; auto. intros bv H. injection H as <-. reflexivity. }
  split; [reflexivity|]. split.
  { unfold kops0, cop_ok. repeat constructor. }
  split; [reflexivity|]. split.
  { vm_compute. repeat constructor; intros []. }
  split; vm_compute; reflexivity.
Qed.

(* ---------- neurons: an ALIF population (2 neurons, B = 3) through eval / adapt=False calls and state edits ---------- *)
Import C03.Neuron.
Definition nops0 : list (op ZN) :=
  [OpForward (Some false) true [[1; 2; 3]; [4; 5; 6]];       (* training, adaptation switched off explicitly *)
   OpTrain false;
   OpForward None false [[0; 9; 0]; [9; 0; 9]];              (* eval mode: adapt = None means no update *)
   OpSetVoltage [[1; 1; 2]; [3; 5; 8]]; OpAddAdapt [[1]; [2]]; OpClear true;
   OpLoad [[1; 2; 3]; [4; 5; 6]] [[0; 0; 1]; [1; 0; 0]] [[5]; [6]];
   OpForward (Some false) true [[7; 7; 7]; [1; 1; 1]]].

Theorem nonvacuous_neuron :
  has_adaptation ALIF = true /\ Forall (NeuronBatch.op_shaped ZN 3) nops0 /\ NeuronBatch.frozen ZN ALIF true nops0.
Proof.
  split; [reflexivity|]. split.
  { unfold nops0, NeuronBatch.op_shaped, NeuronBatch.rows. repeat constructor. }
  cbn. repeat split; auto.
Qed.
