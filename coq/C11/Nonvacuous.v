(* C11 - the hypotheses of the batch-independence theorems are satisfiable by concrete, non-trivial batched
   configurations and operation sequences.  The theorems of SynapseBatch / ConnBatch / NeuronBatch hold for every
   reading [NM : Num] of the numeric signature (they never use a property of the numbers), so the witnesses below use an
   integer reading [ZN] of the signature, which Coq can evaluate (vm_compute) without floats and without axioms.
   Each witness states: the shape / no-raise / frozen hypotheses hold; the batched run does something (a non-zero
   output, different values for the two samples); and - as a direct evaluation, not through the theorem - sample 1 of
   the batched run equals the batch-1 run on sample 1. *)
From Coq Require Import List ZArith Bool Arith Lia.
From Inferno Require Import Base.Num Gen.Infra Gen.Interpolation C01.Ring C04.Synapse.
From Inferno Require C05.Conn C03.Neuron.
From Inferno Require Import C06.Delay C11.Samp C11.SynapseBatch C11.ConnBatch.
From Inferno Require C11.NeuronBatch.
Import ListNotations.
Open Scope Z_scope.

Definition ZN : Num := {|
  T := Z; zero := 0; one := 1;
  add := Z.add; sub := Z.sub; mul := Z.mul; div := Z.div; opp := Z.opp; abs := Z.abs;
  exp := fun x => x; ln := fun x => x; sqrt := Z.sqrt; pow := Z.pow;
  leb := Z.leb; ltb := Z.ltb; eqb := Z.eqb; ofZ := fun z => z; half := 0;
  floorZ := fun x => x; ceilZ := fun x => x; rneZ := fun x => x; truncZ := fun x => x |}.

(* serialisers into plain integers (so that evaluated results can be compared cheaply) *)
Definition zs (l : list nat) : list Z := map Z.of_nat l.
Definition ser_ring (r : @ring Z unit) : list (list Z) :=
  match st r with
  | SFull _ sh rows => [Z.of_nat (N r); Z.of_nat (ptr r)] :: zs sh :: rows
  | _ => [[Z.of_nat (N r); Z.of_nat (ptr r)]]
  end.
Definition ser_syn (s : syn ZN) : list (list (list Z)) := [ser_ring (spk ZN s); ser_ring (cur ZN s); ser_ring (neg ZN s)].
Definition ser_sout (o : sout ZN + err) : list (list Z) :=
  match o with
  | inl (SOUnit _) => [[0]]
  | inl (SOFloat _ sh v) => [[1]; zs sh; v]
  | inl (SOBool _ sh v) => [[2]; zs sh; v]
  | inr _ => [[-1]]
  end.
Definition ser_srun (r : syn ZN * list (sout ZN + err)) := (ser_syn (fst r), map ser_sout (snd r)).
Definition is_inl {X Y} (o : X + Y) : bool := match o with inl _ => true | inr _ => false end.
Lemma no_raise_b outs : forallb is_inl outs = true -> no_raise ZN outs.
Proof.
  unfold no_raise. intros H. apply Forall_forall. intros o Ho. rewrite forallb_forall in H. specialize (H o Ho).
  destruct o as [x|e]; [now exists x|discriminate].
Qed.

(* ---------- synapse: B = 2 samples of 2 synapses, record of 3 steps (delay 2 dt), delayed reads ---------- *)
Definition sc0 : cfg ZN := mkCfg ZN KSingleExp [2%nat; 2%nat] 1 2 6 3 1 IPrevious 0 (Some 7) (Some false) false.
Definition sops0 : list (sop ZN) :=
  [OStep ZN [2%nat; 2%nat] [1; 0; 0; 1] []; OStep ZN [2%nat; 2%nat] [0; 0; 1; 1] [];
   OCurrentAt ZN [2%nat; 2%nat] [1; 0; 0; 1];                   (* one selector per synapse *)
   OSpikeAt ZN [2%nat; 2%nat; 2%nat] [0; 1; 1; 2; 0; 0; 1; 1];  (* two selectors per synapse *)
   OCurrent ZN; OSpike ZN; OClear ZN; OStep ZN [2%nat; 2%nat] [1; 1; 0; 0] []; OCurrent ZN].

Theorem nonvacuous_synapse :
  cshape ZN sc0 = [2%nat; 2%nat] /\ Forall (sop_ok ZN 2 [2%nat]) sops0 /\
  no_raise ZN (snd (run ZN sc0 (init ZN sc0) sops0)) /\
  (* the delayed current read (one selector per synapse) differs between the two samples *)
  map ser_sout (firstn 1 (skipn 2 (snd (run ZN sc0 (init ZN sc0) sops0)))) = [[[1]; [2; 2]; [2; 0; 2; 2]]] /\
  (* direct evaluation: sample 1 of the batched run = the batch-1 run on sample 1 *)
  ser_srun (run ZN (with_shape ZN sc0 [1%nat; 2%nat]) (init ZN (with_shape ZN sc0 [1%nat; 2%nat])) (map (psop ZN 1) sops0))
  = ser_srun (psyn ZN 1 (fst (run ZN sc0 (init ZN sc0) sops0)), map (pres ZN 1) (snd (run ZN sc0 (init ZN sc0) sops0))).
Proof.
  split; [reflexivity|]. split.
  { unfold sops0. repeat apply Forall_cons; try apply Forall_nil; cbn [sop_ok]; auto;
      try (split; [reflexivity|repeat constructor]).
    - left. split; reflexivity.
    - right. exists 2%nat. split; reflexivity. }
  split; [apply no_raise_b; vm_compute; reflexivity|].
  split; vm_compute; reflexivity.
Qed.

(* ---------- connection: LinearDense 2 -> 2 with per-synapse delays on B = 2 samples ---------- *)
Definition kc0 : cfg ZN := mkCfg ZN KDelta [2%nat; 2%nat] 1 2 1 1 1 IPrevious 0 (Some 0) (Some false) false.
Definition kd0 : conn ZN :=
  CDense ZN (mkDense ZN [2%nat] [2%nat] 2 [[1; 2]; [3; 4]] (Some [10; 20]) (Some [[0; 1]; [2; 0]])).
Definition kops0 : list (cop ZN) :=
  [KStep ZN [2%nat; 2%nat] [1; 0; 0; 1] []; KStep ZN [2%nat; 2%nat] [0; 1; 1; 1] []; KSynCurrent ZN; KSynSpike ZN;
   KSelector ZN; KStep ZN [2%nat; 2%nat] [1; 1; 0; 0] []; KSetDelay ZN [1; 1; 0; 2]; KStep ZN [2%nat; 2%nat] [0; 0; 0; 1] [];
   KClear ZN; KStep ZN [2%nat; 2%nat] [1; 0; 1; 0] []].
Definition ser_cout (o : cout ZN) : list (list Z) :=
  match o with
  | COUnit _ => [[0]]
  | COFloat _ v => [[1]; zs (fst v); snd v]
  | COBool _ v => [[2]; zs (fst v); snd v]
  | COErr _ _ => [[-1]]
  end.
Definition ser_conn (k : conn ZN) : list (list Z) :=
  match k with
  | CDense _ d => [Z.of_nat (dn_B ZN d)] :: concat (dn_w ZN d) :: (match dn_b ZN d with Some x => x | None => [] end)
                  :: (match dn_d ZN d with Some x => concat x | None => [] end) :: []
  | _ => []
  end.
Definition ser_crun (r : (conn ZN * syn ZN) * list (cout ZN)) := (ser_conn (fst (fst r)), ser_syn (snd (fst r)), map ser_cout (snd r)).
Definition not_err (o : cout ZN) : bool := match o with COErr _ _ => false | _ => true end.
Lemma no_raises_b outs : forallb not_err outs = true -> Forall (fun o => ~ raises ZN o) outs.
Proof.
  intros H. apply Forall_forall. intros o Ho. rewrite forallb_forall in H. specialize (H o Ho).
  destruct o; cbn in *; auto; discriminate.
Qed.

Theorem nonvacuous_connection :
  conn_wf ZN 2 kd0 /\ cshape ZN kc0 = 2%nat :: conn_sh ZN kd0 /\ Forall (cop_ok ZN) kops0 /\
  takes_delayed ZN kc0 (conn_hasdelay ZN kd0) = true /\
  Forall (fun o => ~ raises ZN o) (snd (crun ZN kc0 (kd0, init ZN kc0) kops0)) /\
  (* the delayed forward output (third forward call) differs between the two samples *)
  map ser_cout (firstn 1 (skipn 5 (snd (crun ZN kc0 (kd0, init ZN kc0) kops0)))) = [[[1]; [2; 2]; [13; 27; 12; 20]]] /\
  ser_crun (crun ZN (with_shape ZN kc0 [1%nat; 2%nat]) (conn_B1 ZN kd0, init ZN (with_shape ZN kc0 [1%nat; 2%nat]))
                 (map (pcop ZN 1) kops0))
  = ser_crun ((conn_B1 ZN (fst (fst (crun ZN kc0 (kd0, init ZN kc0) kops0))),
               psyn ZN 1 (snd (fst (crun ZN kc0 (kd0, init ZN kc0) kops0)))),
              map (pcout ZN 1) (snd (crun ZN kc0 (kd0, init ZN kc0) kops0))).
Proof.
  split.
  { unfold kd0, conn_wf, dense_wf, dn_O. cbn. repeat split; auto. intros bv H. injection H as <-. reflexivity. }
  split; [reflexivity|]. split.
  { unfold kops0, cop_ok. repeat constructor. }
  split; [reflexivity|]. split; [apply no_raises_b; vm_compute; reflexivity|].
  split; vm_compute; reflexivity.
Qed.

(* ---------- neurons: an ALIF population (2 neurons, B = 3) through eval / adapt=False calls and state edits ---------- *)
Import C03.Neuron.
Definition nops0 : list (op ZN) :=
  [@OpForward ZN (Some false) true [[1; 2; 3]; [4; 5; 6]];       (* training, adaptation switched off explicitly *)
   @OpTrain ZN false;
   @OpForward ZN None false [[0; 9; 0]; [9; 0; 9]];              (* eval mode: adapt = None means no update *)
   @OpSetVoltage ZN [[1; 1; 2]; [3; 5; 8]]; @OpAddAdapt ZN [[1]; [2]]; @OpClear ZN true;
   @OpLoad ZN [[1; 2; 3]; [4; 5; 6]] [[0; 0; 1]; [1; 0; 0]] [[5]; [6]];
   @OpForward ZN (Some false) true [[7; 7; 7]; [1; 1; 1]]].

Theorem nonvacuous_neuron :
  has_adaptation ALIF = true /\ Forall (NeuronBatch.op_shaped ZN 3) nops0 /\ NeuronBatch.frozen ZN ALIF true nops0.
Proof.
  split; [reflexivity|]. split.
  { unfold nops0, NeuronBatch.op_shaped, NeuronBatch.rows. repeat constructor. }
  lazy beta iota zeta delta [NeuronBatch.frozen NeuronBatch.no_update eff_adapt has_adaptation nops0]. repeat split; auto.
Qed.
