(* C11 - batch independence of the FOUR SYNAPSE CLASSES, proved about the C04 model (coq/C04/Synapse.v), which is
   tied to inferno/neural/synapses/{mixins,current,expcurrent}.py by C04's correspondence check (the records are
   C01 rings, the interpolation kernels and the record size are generated).

   C04 stores a tensor of shape (B, *shape) as ONE flat row-major list of B * n values (n = prod shape), in every
   stored observation of every record.  Sample b of a record is the record with the same size and pointer whose
   observations are the slices [b*n, (b+1)*n) ([pring]); sample b of an operation takes the same slice of the input,
   of the injected currents and of the (per-sample) delay selector ([psop]); sample b of a result likewise ([psout]).

   [synapse_step_sample]: for EVERY operation of the model (forward step of all four classes, current / spike reads, the
   delayed reads current_at / spike_at / pos_current_at / neg_current_at with a selector of the observation's shape
   or with a trailing axis of D selectors per synapse, delayed and undelayed records, with and without out-of-bounds
   values, both write modes, clear) that does not raise on the batch, the batch-1 instance on sample b's operation
   returns sample b of the batched result and ends in sample b of the batched state.
   [synapse_batch_independent]: the same for every operation sequence, from any well-formed state; and from the
   constructor ([synapse_batch_independent_from_init]).
   This needs real work (index arithmetic of the flat layout, the selector block structure, broadcasting of the
   undelayed path); it is not definitional.  The premise "does not raise on the batch" is essential and is the one
   genuine cross-sample effect of batching: one sample's out-of-range selector raises for the whole batch.
   Any number type; no axioms. *)
From Coq Require Import List ZArith Bool Arith Lia.
From Inferno Require Import Base.Num Gen.Infra Gen.Interpolation C01.Ring C01.RingProofs C04.Synapse C04.HistProofs.
From Inferno Require C04.SelectProofs.
From Inferno Require Import C11.Samp.
Import ListNotations.

Lemma nel_cons x s : nel (x :: s) = x * nel s.
Proof. reflexivity. Qed.
Lemma nel_snoc s d : nel (s ++ [d]) = nel s * d.
Proof. rewrite SelectProofs.nel_app. unfold nel at 2. cbn. lia. Qed.
Lemma map_upd {X Y} (f : X -> Y) l i x : map f (upd l i x) = upd (map f l) i (f x).
Proof. revert i; induction l as [|a l IH]; intros [|i]; cbn; auto. now rewrite IH. Qed.
Lemma existsb_firstn {X} (f : X -> bool) k l : existsb f l = false -> existsb f (firstn k l) = false.
Proof.
  revert k; induction l as [|a l IH]; intros [|k] H; cbn in *; auto.
  apply orb_false_iff in H as [H1 H2]. rewrite H1. now apply IH.
Qed.
Lemma existsb_skipn {X} (f : X -> bool) k l : existsb f l = false -> existsb f (skipn k l) = false.
Proof.
  revert k; induction l as [|a l IH]; intros [|k] H; cbn in *; auto.
  apply orb_false_iff in H as [H1 H2]. now apply IH.
Qed.
Lemma existsb_samp {X} (f : X -> bool) n b l : existsb f l = false -> existsb f (samp n b l) = false.
Proof. intros H. unfold samp. now apply existsb_firstn, existsb_skipn. Qed.

Lemma seq_shift_add a n : map (fun e => a + e) (seq 0 n) = seq a n.
Proof.
  revert a; induction n as [|n IH]; intros a; [reflexivity|]. cbn [seq map]. rewrite Nat.add_0_r. f_equal.
  rewrite <- seq_shift, map_map. rewrite <- (IH (S a)). apply map_ext. intros e. lia.
Qed.
(* a tensor generated block by block (B*n blocks of d entries): the blocks of sample b *)
Lemma flat_map_blocks {X} (G : nat -> list X) B n :
  flat_map G (seq 0 (B * n)) = flat_map (fun bb => flat_map (fun e => G (bb * n + e)) (seq 0 n)) (seq 0 B).
Proof.
  induction B as [|B IH]; [reflexivity|].
  replace (S B * n) with (B * n + n) by lia. rewrite seq_app, flat_map_app, IH.
  rewrite seq_S, flat_map_app. cbn [flat_map Nat.add]. rewrite app_nil_r. f_equal.
  rewrite <- (seq_shift_add (B * n) n), !flat_map_concat_map', map_map. reflexivity.
Qed.
Lemma flat_map_length_const {X Y} (G : X -> list Y) d l : (forall e, length (G e) = d) -> length (flat_map G l) = length l * d.
Proof. intros H. induction l as [|x l IH]; cbn; [reflexivity|]. rewrite app_length, IH, H. lia. Qed.
Lemma samp_flat_map_blocks {X} (G : nat -> list X) B n d b :
  (forall e, length (G e) = d) -> b < B ->
  samp (n * d) b (flat_map G (seq 0 (B * n))) = flat_map (fun e => G (b * n + e)) (seq 0 n).
Proof.
  intros HG Hb. rewrite flat_map_blocks. apply (samp_flat_map_seq (n * d) b B); [|exact Hb].
  intros i _. rewrite (flat_map_length_const _ d) by (intros; apply HG). now rewrite seq_length.
Qed.

Section SynapseBatch.
Variable NM : Num.
Notation A := (T NM).
Notation ring := (@ring A unit).
Notation wfr := (wfr NM).
Notation rows := (@RingProofs.rows A unit).
Notation at_ := (@RingProofs.at_ A unit).
Notation syn := (syn NM).
Notation cfg := (cfg NM).

Variables (B : nat) (sh : list nat) (b : nat).
Hypothesis Hb : b < B.
Notation n := (nel sh).

(* ------------------------------------------------------------------ sample b of shapes, values, records, states *)
Definition pshape (s : list nat) : list nat := match s with _ :: t => 1 :: t | [] => [] end.
Definition pvals (s : list nat) (v : list A) : list A := match s with _ :: t => samp (nel t) b v | [] => v end.
Definition pring (r : ring) : ring :=
  match st r with
  | SFull d (_ :: sh') rws => mkRing (N r) (ptr r) (SFull d (1 :: sh') (map (samp (nel sh') b) rws))
  | _ => r
  end.
Definition psyn (s : syn) : syn := mkSyn NM (pring (spk NM s)) (pring (cur NM s)) (pring (neg NM s)).
Definition psout (o : sout NM) : sout NM :=
  match o with
  | SOUnit _ => SOUnit NM
  | SOFloat _ s v => SOFloat NM (pshape s) (pvals s v)
  | SOBool _ s v => SOBool NM (pshape s) (pvals s v)
  end.
Definition psop (o : sop NM) : sop NM :=
  match o with
  | OStep _ xsh xs inj => OStep NM (pshape xsh) (pvals xsh xs) (map (pvals xsh) inj)
  | OCurrent _ => OCurrent NM
  | OSpike _ => OSpike NM
  | OCurrentAt _ ssh sel => OCurrentAt NM (pshape ssh) (pvals ssh sel)
  | OSpikeAt _ ssh sel => OSpikeAt NM (pshape ssh) (pvals ssh sel)
  | OPosAt _ ssh sel => OPosAt NM (pshape ssh) (pvals ssh sel)
  | ONegAt _ ssh sel => ONegAt NM (pshape ssh) (pvals ssh sel)
  | OClear _ => OClear NM
  end.

(* the batched state: three well-formed records of observation shape (B, *sh) *)
Definition bsyn (s : syn) : Prop :=
  wfr (B :: sh) (spk NM s) /\ wfr (B :: sh) (cur NM s) /\ wfr (B :: sh) (neg NM s).
(* selectors: the observation's shape, or one more trailing axis of d selectors per synapse *)
Definition sel_ok (ssh : list nat) (sel : list A) : Prop :=
  (ssh = B :: sh /\ length sel = B * n) \/ (exists d, ssh = (B :: sh) ++ [d] /\ length sel = B * n * d).
Definition sop_ok (o : sop NM) : Prop :=
  match o with
  | OStep _ xsh xs inj => length xs = nel xsh /\ Forall (fun i => length i = nel xsh) inj
  | OCurrentAt _ ssh sel | OSpikeAt _ ssh sel | OPosAt _ ssh sel | ONegAt _ ssh sel => sel_ok ssh sel
  | _ => True
  end.

(* ------------------------------------------------------------------ one record *)
Lemma pring_eq r : wfr (B :: sh) r ->
  pring r = mkRing (N r) (ptr r) (SFull tt (1 :: sh) (map (samp n b) (rows r))).
Proof. intros (_ & Hst & _). unfold pring. rewrite Hst. reflexivity. Qed.

Lemma pring_N r : wfr (B :: sh) r -> N (pring r) = N r.
Proof. intros H. rewrite (pring_eq r H). reflexivity. Qed.
Lemma pring_rows r : wfr (B :: sh) r -> rows (pring r) = map (samp n b) (rows r).
Proof. intros H. rewrite (pring_eq r H). reflexivity. Qed.
Lemma pring_idx r k : wfr (B :: sh) r -> idx (pring r) k = idx r k.
Proof. intros H. rewrite (pring_eq r H). reflexivity. Qed.

Lemma pring_wfr r : wfr (B :: sh) r -> HistProofs.wfr NM (1 :: sh) (pring r).
Proof.
  intros H. pose proof H as ((Hn & Hp & Hl) & Hst & Hall). rewrite Hst in Hl.
  rewrite (pring_eq r H). unfold HistProofs.wfr, RingProofs.wf, RingProofs.rows. cbn [N ptr st].
  rewrite map_length. repeat split; auto.
  rewrite Forall_map. eapply Forall_impl; [|exact Hall]. intros row Hrow. cbn beta in Hrow.
  rewrite nel_cons in Hrow |- *. rewrite (samp_length_exact _ _ B) by assumption. lia.
Qed.

Lemma pring_at r k : wfr (B :: sh) r -> at_ (pring r) k = samp n b (at_ r k).
Proof.
  intros H. unfold RingProofs.at_. rewrite pring_idx, pring_rows by exact H.
  apply map_nth_default. apply samp_nil.
Qed.
Lemma pring_peek r : wfr (B :: sh) r -> peek_row NM (pring r) = samp n b (peek_row NM r).
Proof.
  intros H. rewrite (peek_row_at NM _ _ (pring_wfr r H)), (peek_row_at NM _ _ H). now apply pring_at.
Qed.
Lemma pring_rshape r : wfr (B :: sh) r -> rshape_of NM (pring r) = 1 :: sh /\ rshape_of NM r = B :: sh.
Proof. intros H. split; [apply (rshape_of_wfr NM _ _ (pring_wfr r H))|apply (rshape_of_wfr NM _ _ H)]. Qed.
Lemma peek_length r : wfr (B :: sh) r -> length (peek_row NM r) = B * n.
Proof. intros H. rewrite (peek_row_at NM _ _ H), (at_length NM _ _ _ H). reflexivity. Qed.

(* push: sample b of the pushed record = the batch-1 record after pushing sample b of the observation *)
Lemma rpush_sample c r el r' : wfr (B :: sh) r -> length el = B * n ->
  rpush NM c r (B :: sh) el = SOk r' ->
  rpush NM c (pring r) (1 :: sh) (samp n b el) = SOk (pring r') /\ wfr (B :: sh) r'.
Proof.
  intros Hw Hl Hp.
  assert (Hh : hist_is NM r (fun k => at_ r (Z.of_nat k + 1))) by (intros k _; reflexivity).
  destruct (rpush_ok NM c (B :: sh) r el _ Hw Hh Hl) as (r2 & Hp2 & Hw2 & _).
  rewrite Hp in Hp2. injection Hp2 as <-. split; [|exact Hw2].
  unfold rpush in *. rewrite (push_unfold NM (B :: sh) r el _ Hw) in Hp. injection Hp as <-.
  rewrite (push_unfold NM (1 :: sh) (pring r) _ _ (pring_wfr r Hw)). f_equal.
  rewrite pring_idx, pring_rows by exact Hw. rewrite (pring_eq r Hw) at 1 2 3.
  unfold pring, set_ptr, set_st. cbn [N ptr st]. destruct Hw as (_ & Hst & _).
  now rewrite map_upd.
Qed.

Lemma rreset_sample r : wfr (B :: sh) r -> rreset NM (pring r) = pring (rreset NM r) /\ wfr (B :: sh) (rreset NM r).
Proof.
  intros Hw. destruct (rreset_ok NM _ _ Hw) as (Hw' & _). split; [|exact Hw'].
  rewrite (pring_eq r Hw). destruct Hw as (_ & Hst & _). unfold rreset, reset, pring. rewrite Hst. cbn [st N ptr].
  f_equal. f_equal. rewrite !map_map. apply map_ext. intros row. now rewrite samp_map.
Qed.

(* ------------------------------------------------------------------ values *)
Lemma samp_zipw {X Y Z} (f : X -> Y -> Z) k l1 l2 : samp k b (zipw f l1 l2) = zipw f (samp k b l1) (samp k b l2).
Proof. unfold zipw. now rewrite samp_map, samp_combine. Qed.
Lemma samp_fold_zipw (f : A -> A -> A) k inj acc :
  samp k b (fold_left (zipw f) inj acc) = fold_left (zipw f) (map (samp k b) inj) (samp k b acc).
Proof. revert acc; induction inj as [|i inj IH]; intros acc; cbn [fold_left map]; [reflexivity|]. now rewrite IH, samp_zipw. Qed.
Lemma samp_deltaplus c xs inj : samp n b (deltaplus_val NM c xs inj) = deltaplus_val NM c (samp n b xs) (map (samp n b) inj).
Proof. unfold deltaplus_val. now rewrite samp_fold_zipw, samp_map. Qed.

Lemma current_of_sample c s : bsyn s -> current_of NM c (psyn s) = samp n b (current_of NM c s).
Proof.
  intros (Hs & Hc & Hn). unfold current_of, psyn. cbn [spk cur neg].
  rewrite !pring_peek by assumption. destruct (ckind NM c); now rewrite ?samp_map, ?samp_zipw.
Qed.

(* ------------------------------------------------------------------ forward *)
Theorem synapse_forward_sample c s xs inj s' out : bsyn s -> length xs = B * n -> Forall (fun i => length i = B * n) inj ->
  forward NM c s (B :: sh) xs inj = SOk (s', out) ->
  forward NM c (psyn s) (1 :: sh) (samp n b xs) (map (samp n b) inj) = SOk (psyn s', psout out) /\ bsyn s'.
Proof.
  intros (Hs & Hc & Hn) Hx Hi. unfold forward.
  destruct (rpush NM c (spk NM s) (B :: sh) (map (boolify NM) xs)) as [spk'|e] eqn:E1; [|discriminate].
  assert (Hlb : length (map (boolify NM) xs) = B * n) by now rewrite map_length.
  destruct (rpush_sample c _ _ _ Hs Hlb E1) as (E1' & Hs').
  cbn [psyn spk cur neg]. rewrite <- samp_map, E1'.
  assert (Hpc : length (peek_row NM (cur NM s)) = B * n) by now apply peek_length.
  assert (Hpn : length (peek_row NM (neg NM s)) = B * n) by now apply peek_length.
  destruct (ckind NM c) eqn:Ek.
  - intros H. injection H as <- <-.
    assert (Hb' : bsyn (mkSyn NM spk' (cur NM s) (neg NM s))) by (split; [|split]; assumption).
    split; [|exact Hb']. cbn [psout]. destruct (pring_rshape _ Hs') as [-> ->]. cbn [pshape pvals].
    rewrite <- (current_of_sample c _ Hb'). reflexivity.
  - destruct (rpush NM c (cur NM s) (B :: sh) (deltaplus_val NM c xs inj)) as [cur'|e] eqn:E2; [|discriminate].
    assert (Hl : length (deltaplus_val NM c xs inj) = B * n).
    { unfold deltaplus_val. apply fold_zipw_length; [exact Hi|now rewrite map_length]. }
    destruct (rpush_sample c _ _ _ Hc Hl E2) as (E2' & Hc').
    rewrite <- samp_deltaplus, E2'. intros H. injection H as <- <-.
    assert (Hb' : bsyn (mkSyn NM spk' cur' (neg NM s))) by (split; [|split]; assumption).
    split; [|exact Hb']. cbn [psout]. destruct (pring_rshape _ Hc') as [-> ->]. cbn [pshape pvals].
    rewrite <- (current_of_sample c _ Hb'). reflexivity.
  - destruct (rpush NM c (cur NM s) (B :: sh) (singleexp_val NM c (peek_row NM (cur NM s)) xs)) as [cur'|e] eqn:E2; [|discriminate].
    assert (Hl : length (singleexp_val NM c (peek_row NM (cur NM s)) xs) = B * n).
    { unfold singleexp_val. rewrite zipw_length. lia. }
    destruct (rpush_sample c _ _ _ Hc Hl E2) as (E2' & Hc').
    rewrite (pring_peek _ Hc). unfold singleexp_val in *. rewrite <- samp_zipw, E2'. intros H. injection H as <- <-.
    assert (Hb' : bsyn (mkSyn NM spk' cur' (neg NM s))) by (split; [|split]; assumption).
    split; [|exact Hb']. cbn [psout]. destruct (pring_rshape _ Hc') as [-> ->]. cbn [pshape pvals].
    rewrite <- (current_of_sample c _ Hb'). reflexivity.
  - destruct (rpush NM c (cur NM s) (B :: sh) (doubleexp_pos NM c (peek_row NM (cur NM s)) xs)) as [cur'|e] eqn:E2; [|discriminate].
    destruct (rpush NM c (neg NM s) (B :: sh) (doubleexp_neg NM c (peek_row NM (neg NM s)) xs)) as [neg'|e] eqn:E3; [|discriminate].
    assert (Hl : length (doubleexp_pos NM c (peek_row NM (cur NM s)) xs) = B * n).
    { unfold doubleexp_pos. rewrite zipw_length. lia. }
    assert (Hl2 : length (doubleexp_neg NM c (peek_row NM (neg NM s)) xs) = B * n).
    { unfold doubleexp_neg. rewrite zipw_length. lia. }
    destruct (rpush_sample c _ _ _ Hc Hl E2) as (E2' & Hc').
    destruct (rpush_sample c _ _ _ Hn Hl2 E3) as (E3' & Hn').
    rewrite (pring_peek _ Hc), (pring_peek _ Hn). unfold doubleexp_pos, doubleexp_neg in *.
    rewrite <- !samp_zipw, E2', E3'. intros H. injection H as <- <-.
    assert (Hb' : bsyn (mkSyn NM spk' cur' neg')) by (split; [|split]; assumption).
    split; [|exact Hb']. cbn [psout]. destruct (pring_rshape _ Hc') as [-> ->]. cbn [pshape pvals].
    rewrite <- (current_of_sample c _ Hb'). reflexivity.
Qed.

(* ------------------------------------------------------------------ delayed reads *)
Lemma sel_elem_sample r dt tol interp e t : wfr (B :: sh) r -> e < n ->
  sel_elem NM (pring r) dt tol interp e t = sel_elem NM r dt tol interp (b * n + e) t.
Proof.
  intros Hw He. unfold sel_elem. rewrite (pring_eq r Hw). cbn [st].
  destruct Hw as (Hwf & Hst & Hall). rewrite Hst. unfold idx. cbn [N ptr].
  assert (Hnth : forall i, nth e (nth i (map (samp n b) (rows r)) []) (zero NM) = nth (b * n + e) (nth i (rows r) []) (zero NM)).
  { intros i. rewrite (map_nth_default (samp n b) (rows r) i [] []) by apply samp_nil. apply nth_samp. exact He. }
  rewrite !Hnth. reflexivity.
Qed.

(* torch.where / expand on equal shapes (the shapes a well-formed selector has), any number type *)
Lemma where_bc_same' shp (cond : list bool) (res : list A) o :
  where_bc NM shp cond shp res o =
  SOk (shp, map (fun i => if nth i cond false then nth i res (zero NM) else o) (seq 0 (nel shp))).
Proof.
  unfold where_bc. rewrite SelectProofs.bcast_same. f_equal. f_equal. apply map_ext_in. intros i Hi.
  apply in_seq in Hi. rewrite !SelectProofs.bsrc_same by lia. reflexivity.
Qed.
Lemma expand_ok' shp d (vals : list A) :
  expand_to NM (shp ++ [1]) (shp ++ [d]) vals =
  SOk (shp ++ [d], map (fun i => nth (i / d) vals (zero NM)) (seq 0 (nel shp * d))).
Proof.
  unfold expand_to. rewrite !app_length, Nat.eqb_refl. cbn [andb].
  assert (Hf : forallb (fun p => (fst p =? snd p) || (fst p =? 1)) (combine (shp ++ [1]) (shp ++ [d])) = true).
  { induction shp as [|x shp IH]; cbn [app combine forallb fst snd].
    - rewrite orb_true_r. reflexivity.
    - rewrite Nat.eqb_refl. cbn [orb andb]. exact IH. }
  rewrite Hf, nel_snoc. f_equal. f_equal. apply map_ext_in. intros i Hi. apply in_seq in Hi.
  rewrite SelectProofs.bsrc_expand by lia. reflexivity.
Qed.

Lemma flat_map_ext_in {X Y} (f g : X -> list Y) l : (forall x, In x l -> f x = g x) -> flat_map f l = flat_map g l.
Proof. intros H. rewrite !flat_map_concat_map'. f_equal. now apply map_ext_in. Qed.

Section ParamAt.
Variables (Nrec : nat) (peekv : list A) (selv selv1 : nat -> A -> A) (dt dur tol : A) (ob : option A).
Hypothesis Hselv : forall e t, e < n -> selv1 e t = selv (b * n + e) t.

(* the entry read for synapse e, selector j of its d selectors *)
Definition one_of (sv : nat -> A -> A) (d : nat) (sel : list A) (e j : nat) : A :=
  let t := nth (e * d + j) sel (zero NM) in
  let bt := clamp_sel NM dur t in
  let v := sv e bt in
  match ob with None => v | Some o => if leb NM (abs NM (sub NM t bt)) tol then v else o end.

Lemma one_of_sample d sel e j : e < n -> j < d ->
  one_of selv1 d (samp (n * d) b sel) e j = one_of selv d sel (b * n + e) j.
Proof.
  intros He Hj. unfold one_of. rewrite nth_samp by nia.
  replace (b * (n * d) + (e * d + j)) with ((b * n + e) * d + j) by nia.
  cbv zeta. rewrite Hselv by exact He. reflexivity.
Qed.

Lemma delayed_block_sample d sel :
  samp (n * d) b (flat_map (fun e => map (one_of selv d sel e) (seq 0 d)) (seq 0 (B * n)))
  = flat_map (fun e => map (one_of selv1 d (samp (n * d) b sel) e) (seq 0 d)) (seq 0 n).
Proof.
  rewrite (samp_flat_map_blocks _ B n d b) by (try exact Hb; intros; now rewrite map_length, seq_length).
  apply flat_map_ext_in. intros e He. apply in_seq in He. apply map_ext_in. intros j Hj. apply in_seq in Hj.
  symmetry. apply one_of_sample; lia.
Qed.

Theorem param_at_sample ssh sel osh v : sel_ok ssh sel ->
  param_at NM Nrec (B :: sh) peekv selv dt dur tol ob ssh sel = SOk (osh, v) ->
  param_at NM Nrec (1 :: sh) (samp n b peekv) selv1 dt dur tol ob (pshape ssh) (pvals ssh sel)
  = SOk (pshape osh, pvals osh v).
Proof.
  intros Hok. unfold param_at. destruct (Nrec =? 1).
  - (* undelayed record *)
    destruct Hok as [[-> Hl] | (d & -> & Hl)].
    + cbn [pshape pvals length].
      replace (S (length sh) =? S (S (length sh))) with false by (symmetry; apply Nat.eqb_neq; lia).
      destruct ob as [o|].
      * rewrite !where_bc_same'. intros H. injection H as <- <-. cbn [pshape pvals]. f_equal. f_equal.
        rewrite !nel_cons, (samp_map_seq n b B) by exact Hb. rewrite Nat.mul_1_l.
        apply map_ext_in. intros i Hi. apply in_seq in Hi.
        rewrite <- samp_map, !nth_samp by lia. reflexivity.
      * intros H. injection H as <- <-. reflexivity.
    + change (pshape ((B :: sh) ++ [d])) with ((1 :: sh) ++ [d]).
      change (pvals ((B :: sh) ++ [d]) sel) with (samp (nel (sh ++ [d])) b sel).
      rewrite !app_length. cbn [length].
      replace (S (length sh) + 1 =? S (S (length sh))) with true by (symmetry; apply Nat.eqb_eq; lia).
      rewrite !expand_ok', nel_snoc.
      assert (Hgoal : samp (n * d) b (map (fun i => nth (i / d) peekv (zero NM)) (seq 0 (nel (B :: sh) * d)))
                      = map (fun i => nth (i / d) (samp n b peekv) (zero NM)) (seq 0 (nel (1 :: sh) * d))).
      { rewrite !nel_cons, Nat.mul_1_l. replace (B * n * d) with (B * (n * d)) by lia.
        rewrite (samp_map_seq (n * d) b B) by exact Hb. apply map_ext_in. intros i Hi. apply in_seq in Hi.
        assert (Hd : d <> 0) by (intros ->; lia).
        rewrite nth_samp by (apply Nat.div_lt_upper_bound; lia).
        replace (b * (n * d) + i) with (b * n * d + i) by lia. rewrite Nat.div_add_l by exact Hd. reflexivity. }
      rewrite !nel_cons, Nat.mul_1_l in Hgoal. replace (B * n * d) with (B * (n * d)) in Hgoal by lia.
      destruct ob as [o|].
      * rewrite !where_bc_same'. intros H. injection H as <- <-.
        cbn [app pshape pvals]. f_equal. f_equal.
        rewrite !nel_cons, !nel_snoc, !Nat.mul_1_l. replace (B * n * d) with (B * (n * d)) by lia.
        rewrite (samp_map_seq (n * d) b B) by exact Hb. apply map_ext_in. intros i Hi. apply in_seq in Hi.
        rewrite <- samp_map, nth_samp by lia.
        rewrite <- Hgoal, nth_samp by lia. reflexivity.
      * intros H. injection H as <- <-.
        cbn [app pshape pvals]. rewrite !nel_cons, !nel_snoc, !Nat.mul_1_l.
        replace (B * n * d) with (B * (n * d)) by lia. rewrite Hgoal. reflexivity.
  - (* delayed record *)
    destruct Hok as [[-> Hl] | (d & -> & Hl)].
    + cbn [pshape pvals length]. rewrite Nat.eqb_refl. cbn [orb negb].
      destruct (existsb (out_of_range NM Nrec dt tol) (map (clamp_sel NM dur) sel)) eqn:Er; [discriminate|].
      rewrite <- samp_map, (existsb_samp _ _ _ _ Er).
      intros H. injection H as <- <-. cbn [pshape pvals]. f_equal. f_equal.
      rewrite !nel_cons, Nat.mul_1_l.
      pose proof (delayed_block_sample 1 sel) as Hd. rewrite !Nat.mul_1_r in Hd. exact (eq_sym Hd).
    + change (pshape ((B :: sh) ++ [d])) with ((1 :: sh) ++ [d]).
      change (pvals ((B :: sh) ++ [d]) sel) with (samp (nel (sh ++ [d])) b sel).
      rewrite !app_length. cbn [length].
      replace (S (length sh) + 1 =? S (length sh)) with false by (symmetry; apply Nat.eqb_neq; lia).
      replace (S (length sh) + 1 =? S (S (length sh))) with true by (symmetry; apply Nat.eqb_eq; lia).
      cbn [orb negb].
      destruct (existsb (out_of_range NM Nrec dt tol) (map (clamp_sel NM dur) sel)) eqn:Er; [discriminate|].
      rewrite <- samp_map, (existsb_samp _ _ _ _ Er), !last_last.
      intros H. injection H as <- <-.
      cbn [app pshape pvals]. f_equal. f_equal.
      rewrite !nel_cons, !nel_snoc, !Nat.mul_1_l. exact (eq_sym (delayed_block_sample d sel)).
Qed.
End ParamAt.

(* shape and size of what a delayed read returns (needed by the connections, which re-nest the result) *)
Lemma param_at_length Nrec peekv selv dt dur tol ob ssh sel osh v : sel_ok ssh sel -> length peekv = B * n ->
  param_at NM Nrec (B :: sh) peekv selv dt dur tol ob ssh sel = SOk (osh, v) -> osh = ssh /\ length v = nel ssh.
Proof.
  intros Hok Hp. unfold param_at. destruct (Nrec =? 1).
  - destruct Hok as [[-> Hl] | (d & -> & Hl)].
    + cbn [length]. replace (S (length sh) =? S (S (length sh))) with false by (symmetry; apply Nat.eqb_neq; lia).
      destruct ob as [o|].
      * rewrite where_bc_same'. intros H. injection H as <- <-. split; [reflexivity|]. now rewrite map_length, seq_length.
      * intros H. injection H as <- <-. split; [reflexivity|]. now rewrite nel_cons.
    + rewrite !app_length. cbn [length].
      replace (S (length sh) + 1 =? S (S (length sh))) with true by (symmetry; apply Nat.eqb_eq; lia).
      rewrite expand_ok'. destruct ob as [o|].
      * rewrite where_bc_same'. intros H. injection H as <- <-. split; [reflexivity|]. now rewrite map_length, seq_length.
      * intros H. injection H as <- <-. split; [reflexivity|]. now rewrite map_length, seq_length, nel_snoc.
  - destruct Hok as [[-> Hl] | (d & -> & Hl)].
    + cbn [length]. rewrite Nat.eqb_refl. cbn [orb negb].
      destruct (existsb _ _); [discriminate|]. intros H. injection H as <- <-. split; [reflexivity|].
      rewrite (flat_map_length_const _ 1) by (intros; reflexivity). rewrite seq_length, nel_cons. lia.
    + rewrite !app_length. cbn [length].
      replace (S (length sh) + 1 =? S (length sh)) with false by (symmetry; apply Nat.eqb_neq; lia).
      replace (S (length sh) + 1 =? S (S (length sh))) with true by (symmetry; apply Nat.eqb_eq; lia).
      cbn [orb negb]. destruct (existsb _ _); [discriminate|]. rewrite last_last.
      intros H. injection H as <- <-. split; [reflexivity|].
      rewrite (flat_map_length_const _ d) by (intros; now rewrite map_length, seq_length). now rewrite seq_length, nel_snoc.
Qed.

Lemma current_of_length c s : bsyn s -> length (current_of NM c s) = B * n.
Proof.
  intros (Hs & Hc & Hn). unfold current_of.
  destruct (ckind NM c); rewrite ?map_length, ?zipw_length, !peek_length by assumption; lia.
Qed.

Lemma current_at_length c s ssh sel osh v : bsyn s -> sel_ok ssh sel ->
  current_at NM c s ssh sel = SOk (osh, v) -> osh = ssh /\ length v = nel ssh.
Proof.
  intros (Hs & Hc & Hn) Hok. unfold current_at, synparam_at.
  destruct (ckind NM c); rewrite ?(proj1 (proj2 Hs)), ?(proj1 (proj2 Hc));
    apply param_at_length; try exact Hok; rewrite ?map_length, ?zipw_length, !peek_length by assumption; lia.
Qed.
Lemma spike_at_length c s ssh sel osh v : bsyn s -> sel_ok ssh sel ->
  spike_at NM c s ssh sel = SOk (osh, v) -> osh = ssh /\ length v = nel ssh.
Proof.
  intros (Hs & Hc & Hn) Hok. unfold spike_at, synparam_at. rewrite (proj1 (proj2 Hs)).
  destruct (param_at _ _ _ _ _ _ _ _ _ _ _) as [[osh0 v0]|e] eqn:E; [|discriminate].
  intros H. injection H as <- <-. rewrite map_length. eapply param_at_length; [exact Hok| |exact E].
  now rewrite map_length, peek_length.
Qed.

Lemma pvals_map (f : A -> A) s v : pvals s (map f v) = map f (pvals s v).
Proof. destruct s; cbn [pvals]; [reflexivity|apply samp_map]. Qed.

Lemma synparam_at_sample r dt dur tol interp transform ob ssh sel osh v : wfr (B :: sh) r -> sel_ok ssh sel ->
  synparam_at NM r dt dur tol interp transform ob ssh sel = SOk (osh, v) ->
  synparam_at NM (pring r) dt dur tol interp transform ob (pshape ssh) (pvals ssh sel) = SOk (pshape osh, pvals osh v).
Proof.
  intros Hw Hok. pose proof (pring_wfr r Hw) as Hw1. unfold synparam_at.
  rewrite (proj1 (proj2 Hw)), (proj1 (proj2 Hw1)), (pring_N r Hw), (pring_peek r Hw), <- samp_map.
  apply param_at_sample; [|exact Hok].
  intros e t He. now rewrite (sel_elem_sample r dt tol interp e t Hw He).
Qed.

Lemma current_at_sample c s ssh sel osh v : bsyn s -> sel_ok ssh sel ->
  current_at NM c s ssh sel = SOk (osh, v) ->
  current_at NM c (psyn s) (pshape ssh) (pvals ssh sel) = SOk (pshape osh, pvals osh v).
Proof.
  intros (Hs & Hc & Hn) Hok. unfold current_at, psyn. cbn [spk cur neg].
  destruct (ckind NM c); try (apply synparam_at_sample; assumption).
  pose proof (pring_wfr _ Hc) as Hc1.
  rewrite (proj1 (proj2 Hc)), (proj1 (proj2 Hc1)), (pring_N _ Hs), !pring_peek, <- samp_zipw by assumption.
  apply param_at_sample; [|exact Hok].
  intros e t He. now rewrite !sel_elem_sample by assumption.
Qed.

Lemma spike_at_sample c s ssh sel osh v : bsyn s -> sel_ok ssh sel ->
  spike_at NM c s ssh sel = SOk (osh, v) ->
  spike_at NM c (psyn s) (pshape ssh) (pvals ssh sel) = SOk (pshape osh, pvals osh v).
Proof.
  intros (Hs & Hc & Hn) Hok. unfold spike_at, psyn. cbn [spk cur neg].
  destruct (synparam_at NM (spk NM s) _ _ _ _ _ _ ssh sel) as [[osh0 v0]|e] eqn:E; [|discriminate].
  rewrite (synparam_at_sample _ _ _ _ _ _ _ _ _ _ _ Hs Hok E). intros H. injection H as <- <-.
  now rewrite pvals_map.
Qed.

Lemma clear_sample c s : bsyn s -> clear NM c (psyn s) = psyn (clear NM c s) /\ bsyn (clear NM c s).
Proof.
  intros (Hs & Hc & Hn).
  destruct (rreset_sample _ Hs) as [Es Hs']. destruct (rreset_sample _ Hc) as [Ec Hc']. destruct (rreset_sample _ Hn) as [En Hn'].
  unfold clear, psyn. cbn [spk cur neg]. destruct (ckind NM c); cbn [spk cur neg]; rewrite ?Es, ?Ec, ?En;
    (split; [reflexivity|split; [|split]; assumption]).
Qed.

Lemma lift_f_sample s r s' out : lift_f NM s r = SOk (s', out) ->
  forall r1, (forall osh v, r = SOk (osh, v) -> r1 = SOk (pshape osh, pvals osh v)) ->
  lift_f NM (psyn s) r1 = SOk (psyn s', psout out).
Proof.
  unfold lift_f. destruct r as [[osh v]|e]; [|discriminate]. intros H r1 Hr. injection H as <- <-.
  rewrite (Hr _ _ eq_refl). reflexivity.
Qed.
Lemma lift_b_sample s r s' out : lift_b NM s r = SOk (s', out) ->
  forall r1, (forall osh v, r = SOk (osh, v) -> r1 = SOk (pshape osh, pvals osh v)) ->
  lift_b NM (psyn s) r1 = SOk (psyn s', psout out).
Proof.
  unfold lift_b. destruct r as [[osh v]|e]; [|discriminate]. intros H r1 Hr. injection H as <- <-.
  rewrite (Hr _ _ eq_refl). reflexivity.
Qed.

(* EVERY OPERATION: if it does not raise on the batch, the batch-1 instance on sample b's operation returns
   sample b of the result and ends in sample b of the state *)
Theorem synapse_step_sample c s o s' out : bsyn s -> sop_ok o ->
  sstep NM c s o = SOk (s', out) ->
  sstep NM c (psyn s) (psop o) = SOk (psyn s', psout out) /\ bsyn s'.
Proof.
  intros Hbs Hok. pose proof Hbs as (Hs & Hc & Hn).
  destruct o as [xsh xs inj| | |ssh sel|ssh sel|ssh sel|ssh sel|]; cbn [sstep psop sop_ok] in *.
  - destruct (list_eq_dec Nat.eq_dec xsh (B :: sh)) as [->|Hne].
    + destruct Hok as [Hx Hi]. rewrite nel_cons in Hx, Hi. cbn [pshape pvals]. now apply synapse_forward_sample.
    + unfold forward. rewrite (rpush_bad_shape NM c _ xsh _ _ Hs Hne). discriminate.
  - intros H. injection H as <- <-. split; [|exact Hbs]. cbn [psout].
    rewrite (current_of_sample c s Hbs).
    change (spk NM (psyn s)) with (pring (spk NM s)). change (cur NM (psyn s)) with (pring (cur NM s)).
    destruct (pring_rshape _ Hs) as [-> ->]. destruct (pring_rshape _ Hc) as [-> ->].
    destruct (ckind NM c); reflexivity.
  - intros H. injection H as <- <-. split; [|exact Hbs]. cbn [psout].
    change (spk NM (psyn s)) with (pring (spk NM s)).
    destruct (pring_rshape _ Hs) as [-> ->]. now rewrite (pring_peek _ Hs).
  - intros H. pose proof (lift_f_state NM _ _ _ _ H) as ->. split; [|exact Hbs].
    apply (lift_f_sample _ _ _ _ H). intros osh v. now apply current_at_sample.
  - intros H. pose proof (lift_b_state NM _ _ _ _ H) as ->. split; [|exact Hbs].
    apply (lift_b_sample _ _ _ _ H). intros osh v. now apply spike_at_sample.
  - intros H. pose proof (lift_f_state NM _ _ _ _ H) as ->. split; [|exact Hbs].
    apply (lift_f_sample _ _ _ _ H). intros osh v. unfold pos_current_at, psyn. cbn [cur]. now apply synparam_at_sample.
  - intros H. pose proof (lift_f_state NM _ _ _ _ H) as ->. split; [|exact Hbs].
    apply (lift_f_sample _ _ _ _ H). intros osh v. unfold neg_current_at, psyn. cbn [neg]. now apply synparam_at_sample.
  - intros H. injection H as <- <-. destruct (clear_sample c s Hbs) as [E Hb']. rewrite E. split; [reflexivity|exact Hb'].
Qed.

(* EVERY OPERATION SEQUENCE that does not raise on the batch *)
Definition pres (o : sout NM + err) : sout NM + err := match o with inl x => inl (psout x) | inr e => inr e end.
Definition no_raise (outs : list (sout NM + err)) : Prop := Forall (fun o => exists x, o = inl x) outs.

Theorem synapse_batch_independent c : forall ops s sf outs, bsyn s -> Forall sop_ok ops ->
  run NM c s ops = (sf, outs) -> no_raise outs ->
  run NM c (psyn s) (map psop ops) = (psyn sf, map pres outs) /\ bsyn sf.
Proof.
  induction ops as [|o ops IH]; intros s sf outs Hbs Hok Hrun Hnr; cbn [run map] in *.
  - injection Hrun as <- <-. split; [reflexivity|exact Hbs].
  - inversion Hok as [|? ? Ho Hops]; subst.
    destruct (sstep NM c s o) as [[s' out]|e] eqn:E.
    + destruct (synapse_step_sample c s o s' out Hbs Ho E) as [E' Hbs']. rewrite E'.
      destruct (run NM c s' ops) as [sf' outs'] eqn:Er. injection Hrun as <- <-.
      inversion Hnr as [|? ? _ Hnr']; subst.
      destruct (IH s' sf' outs' Hbs' Hops Er Hnr') as [IH1 IH2]. rewrite IH1. split; [reflexivity|exact IH2].
    + destruct (run NM c s ops) as [sf' outs']. injection Hrun as <- <-.
      inversion Hnr as [|? ? [x Hx] _]; subst. discriminate.
Qed.

End SynapseBatch.

(* ------------------------------------------------------------------ from the constructors *)
Section FromInit.
Variable NM : Num.
Definition with_shape (c : cfg NM) (s : list nat) : cfg NM :=
  mkCfg NM (ckind NM c) s (cdt NM c) (cdelay NM c) (cQ NM c) (ctau NM c) (ctr NM c) (cmode NM c) (ctol NM c)
        (ccur_ob NM c) (cspk_ob NM c) (cinplace NM c).

(* the observation shape is read by the constructor only *)
Lemma run_with_shape c s1 st ops : run NM (with_shape c s1) st ops = run NM c st ops.
Proof.
  revert st; induction ops as [|o ops IH]; intros st; cbn [run]; [reflexivity|].
  assert (E : sstep NM (with_shape c s1) st o = sstep NM c st o) by (destruct c; destruct o; reflexivity).
  rewrite E. destruct (sstep NM c st o) as [[s' out]|e]; rewrite IH; reflexivity.
Qed.

Lemma map_repeat'' {X Y} (f : X -> Y) x k : map f (repeat x k) = repeat (f x) k.
Proof. induction k as [|k IH]; cbn; [reflexivity|now rewrite IH]. Qed.

Lemma synapse_init_sample c B sh b : b < B -> cshape NM c = B :: sh ->
  psyn NM b (init NM c) = init NM (with_shape c (1 :: sh)) /\ bsyn NM B sh (init NM c).
Proof.
  intros Hb Hc. split.
  - unfold init, psyn, fresh, pring. cbn [spk cur neg st N ptr with_shape cshape cdt cdelay]. rewrite Hc.
    rewrite map_repeat'', !nel_cons, (samp_repeat (nel sh) b B) by exact Hb. rewrite Nat.mul_1_l. reflexivity.
  - pose proof (init_inv NM c) as I. unfold bsyn. rewrite <- Hc.
    split; [|split]; [apply (inv_ws NM _ _ _ I)|apply (inv_wc NM _ _ _ I)|apply (inv_wn NM _ _ _ I)].
Qed.

(* a batch-B synapse against the batch-1 synapse with the same parameters, both from their constructors *)
Corollary synapse_batch_independent_from_init c B sh b ops sf outs :
  b < B -> cshape NM c = B :: sh -> Forall (sop_ok NM B sh) ops ->
  run NM c (init NM c) ops = (sf, outs) -> no_raise NM outs ->
  run NM (with_shape c (1 :: sh)) (init NM (with_shape c (1 :: sh))) (map (psop NM b) ops)
  = (psyn NM b sf, map (pres NM b) outs).
Proof.
  intros Hb Hc Hok Hrun Hnr. destruct (synapse_init_sample c B sh b Hb Hc) as [E Hbs].
  rewrite run_with_shape, <- E.
  exact (proj1 (synapse_batch_independent NM B sh b Hb c ops _ sf outs Hbs Hok Hrun Hnr)).
Qed.
End FromInit.
