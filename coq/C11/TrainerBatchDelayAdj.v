(* C11 - batch samples never interact: the delay-adjusted / kernel trainers of C18 (DelayAdjustedSTDP, DelayAdjustedSTDPD,
   KernelSTDP, DelayAdjustedKernelSTDP[D], DelayAdjustedMSTDP, DelayAdjustedMSTDPD - all six constructors of
   C18.DelayAdj.trainer), about the finished model C18/DelayAdj.v (reused unchanged), over the reals.

   B1  da_fwd_parts_sum_persample   ONE trainer forward for one parameter element, sum reduction, any signal (none,
                                    scalar, per-sample tensor): BOTH parts (pos, neg) are the sums over the samples b of the
                                    parts of the forward on the single row b of the t_delta tensor with sample b's signal;
   B2  da_monitor_per_sample        the event monitors are element-wise over the flat (batch, unit) axis: sample b's
                                    slice of the folded state is the fold of the slices;
       da_cell_step_state_per_sample / da_cell_step_parts_sum_persample / da_cell_run_states_per_sample /
       da_cell_run_parts_sum_persample
                                    the batch-1 cell (c_B := 1) run on sample b's slices of the inputs has, at every
                                    step, the slices of the batched monitor state as its state, and - sum reduction - the
                                    batched parts of every parameter element are the sums over b of the batch-1 parts.

   Sums over the sample index are written with C08's [sum_steps] (sum_steps B g = g 0 + ... + g (B-1)), the same
   function the C08/C09 statements use.  Parts are compared through [part_val] (None = 0): with a per-sample signal a
   part may be absent for one sample and present for another.
   Side conditions actually needed: the per-sample signal tensor has one entry per sample; the unit indices of the
   receptive pairs are within the per-sample unit counts (otherwise `b * n + i` addresses another sample's slice).
   NO condition on the lengths of the flat spike tensors is needed. *)
From Coq Require Import List ZArith Bool Reals Lra Lia Arith.
From Inferno Require Import Base.Num Base.NumR C18.DelayAdj C18.EventProofs C18.DelayAdjProofs C11.Samp.
From Inferno Require C08.StdpSpec C08.StdpProofs.
Import ListNotations.
Open Scope R_scope.

Local Notation sum_steps := Inferno.C08.StdpSpec.sum_steps.
Local Notation red := (reduce RN RSum).

(* the signal given to sample b alone *)
Definition sig_b (b : nat) (sg : signal RN) : signal RN :=
  match sg with
  | SigTensor _ ss sc => SigTensor RN [nth b ss 0] sc
  | other => other
  end.
(* a per-sample signal has one entry per sample *)
Definition sig_ok (B : nat) (sg : signal RN) : Prop :=
  match sg with SigTensor _ ss _ => length ss = B | _ => True end.

(* ================================================================== sums over the sample index *)
Lemma tsum_nth {A} (g : A -> R) (d : A) l : tsum RN (map g l) = sum_steps (length l) (fun b => g (nth b l d)).
Proof. rewrite Inferno.C08.StdpProofs.tsum_RN. apply Inferno.C08.StdpProofs.rsum_nth. Qed.
Lemma sum_steps_ext n f g : (forall t, (t < n)%nat -> f t = g t) -> sum_steps n f = sum_steps n g.
Proof. apply Inferno.C08.StdpProofs.sum_steps_ext. Qed.
Lemma sum_steps_plus n f g : sum_steps n (fun t => f t + g t) = sum_steps n f + sum_steps n g.
Proof. apply Inferno.C08.StdpProofs.sum_steps_plus. Qed.
Lemma sum_steps_zero n : sum_steps n (fun _ => 0) = 0.
Proof. apply Inferno.C08.StdpProofs.sum_steps_zero. Qed.

Lemma rsum_single (f : nvR -> nvR) row : rsum RN red f [row] = nansum RN (map f row).
Proof. unfold rsum. cbn [map reduce tsum]. rn_simpl. change (T RN) with R. lra. Qed.
(* the batch-reduced receptive sums are sums over the rows *)
Lemma rsum_rows (f : nvR -> nvR) tds : rsum RN red f tds = sum_steps (length tds) (fun b => rsum RN red f [nth b tds []]).
Proof.
  unfold rsum at 1. cbn [reduce]. rewrite (tsum_nth _ []). apply sum_steps_ext. intros b _. rewrite rsum_single. reflexivity.
Qed.

(* after [rsum_rows]: an identity between linear combinations of sums over the same index range *)
Ltac lin_rows tds :=
  cbn [fst snd part_val]; rn_simpl;
  repeat match goal with |- context [rsum RN ?r ?f tds] => rewrite (rsum_rows f tds) end;
  generalize (length tds); intros n__; induction n__ as [|n__ IH__];
  cbn [Inferno.C08.StdpSpec.sum_steps]; [try ring; try lra | try rewrite <- IH__; try ring; try lra].

Section Forward.
Variables a1 a2 a3 a4 : R.

Lemma da_stdp_rows tds :
  part_val RN (fst (da_stdp RN red a1 a2 a3 a4 tds))
  = sum_steps (length tds) (fun b => part_val RN (fst (da_stdp RN red a1 a2 a3 a4 [nth b tds []]))) /\
  part_val RN (snd (da_stdp RN red a1 a2 a3 a4 tds))
  = sum_steps (length tds) (fun b => part_val RN (snd (da_stdp RN red a1 a2 a3 a4 [nth b tds []]))).
Proof.
  unfold da_stdp. cbv zeta. destruct (geb RN a1 (zero RN)), (geb RN a2 (zero RN)); split; lin_rows tds.
Qed.
Lemma da_stdpd_rows tds :
  part_val RN (fst (da_stdpd RN red a1 a2 a3 a4 tds))
  = sum_steps (length tds) (fun b => part_val RN (fst (da_stdpd RN red a1 a2 a3 a4 [nth b tds []]))) /\
  part_val RN (snd (da_stdpd RN red a1 a2 a3 a4 tds))
  = sum_steps (length tds) (fun b => part_val RN (snd (da_stdpd RN red a1 a2 a3 a4 [nth b tds []]))).
Proof.
  unfold da_stdpd. cbv zeta. destruct (ltb RN a1 (zero RN)), (ltb RN a2 (zero RN)); split; lin_rows tds.
Qed.
Lemma da_mstdp_scalar_rows s sc tds :
  part_val RN (fst (da_mstdp_scalar RN red a1 a2 a3 a4 s sc tds))
  = sum_steps (length tds) (fun b => part_val RN (fst (da_mstdp_scalar RN red a1 a2 a3 a4 s sc [nth b tds []]))) /\
  part_val RN (snd (da_mstdp_scalar RN red a1 a2 a3 a4 s sc tds))
  = sum_steps (length tds) (fun b => part_val RN (snd (da_mstdp_scalar RN red a1 a2 a3 a4 s sc [nth b tds []]))).
Proof.
  unfold da_mstdp_scalar. cbv zeta.
  destruct (geb RN (mul RN a1 s) (zero RN)), (geb RN (mul RN a2 s) (zero RN)); split; lin_rows tds.
Qed.
Lemma da_mstdpd_scalar_rows s sc tds :
  part_val RN (fst (da_mstdpd_scalar RN red a1 a2 a3 a4 s sc tds))
  = sum_steps (length tds) (fun b => part_val RN (fst (da_mstdpd_scalar RN red a1 a2 a3 a4 s sc [nth b tds []]))) /\
  part_val RN (snd (da_mstdpd_scalar RN red a1 a2 a3 a4 s sc tds))
  = sum_steps (length tds) (fun b => part_val RN (snd (da_mstdpd_scalar RN red a1 a2 a3 a4 s sc [nth b tds []]))).
Proof.
  unfold da_mstdpd_scalar. cbv zeta.
  destruct (ltb RN (mul RN a1 s) (zero RN)), (ltb RN (mul RN a2 s) (zero RN)); split; lin_rows tds.
Qed.
End Forward.

(* the kernel trainers negate the second part after reducing: still linear in the rows *)
Lemma kernel_rows (kpost kpre : R -> R) tds :
  part_val RN (fst (kernel_fwd RN red kpost kpre tds))
  = sum_steps (length tds) (fun b => part_val RN (fst (kernel_fwd RN red kpost kpre [nth b tds []]))) /\
  part_val RN (snd (kernel_fwd RN red kpost kpre tds))
  = sum_steps (length tds) (fun b => part_val RN (snd (kernel_fwd RN red kpost kpre [nth b tds []]))).
Proof. unfold kernel_fwd. split; lin_rows tds. Qed.

(* ---- per-sample signals: selection by the sign of the sample's signal, then the sum *)
Lemma map2_as_map {A B C} (f : A -> B -> C) la lb : map2 f la lb = map (fun z => f (fst z) (snd z)) (combine la lb).
Proof. revert lb. induction la as [|a la IH]; intros [|b lb]; cbn [map2 combine map]; try reflexivity. rewrite IH. reflexivity. Qed.

Lemma tsum_select_rows (p : R -> bool) (F : list nvR -> R -> R) tds ss : length ss = length tds ->
  tsum RN (select (map p ss) (map2 F tds ss))
  = sum_steps (length tds) (fun b => tsum RN (select (map p [nth b ss 0]) (map2 F [nth b tds []] [nth b ss 0]))).
Proof.
  intros Hl.
  assert (E : tsum RN (select (map p ss) (map2 F tds ss))
              = tsum RN (map (fun z : list nvR * R => if p (snd z) then F (fst z) (snd z) else 0) (combine tds ss))).
  { clear Hl. revert ss. induction tds as [|row tds IH]; intros [|s ss]; cbn [map map2 select combine]; try reflexivity.
    cbn [fst snd]. destruct (p s); cbn [tsum]; rewrite IH; [reflexivity|]. rn_simpl. change (T RN) with R. lra. }
  rewrite E, (tsum_nth _ ([], 0)), combine_length, Hl, Nat.min_id. apply sum_steps_ext. intros b Hb.
  rewrite combine_nth by (symmetry; exact Hl). cbn [map map2 select fst snd].
  destruct (p (nth b ss 0)); cbn [tsum]; rn_simpl; change (T RN) with R; lra.
Qed.

Section Tensor.
Variables a1 a2 a3 a4 : R.
Lemma scaled_rows_single (f : nvR -> nvR) s sc row :
  scaled_rows RN f [s] sc [row] = map2 (fun row s => mul RN (nansum RN (map f row)) (abs RN (mul RN s sc))) [row] [s].
Proof. reflexivity. Qed.

Ltac tensor_rows ss tds Hl :=
  cbn [fst snd]; rewrite !part_val_red_opt_sum, !tsum_app; unfold scaled_rows;
  rewrite !(tsum_select_rows _ _ tds ss Hl), <- sum_steps_plus; apply sum_steps_ext; intros b Hb;
  cbn [fst snd map]; rewrite !part_val_red_opt_sum, !tsum_app; reflexivity.

Lemma da_mstdp_tensor_rows ss sc tds : length ss = length tds ->
  part_val RN (fst (da_mstdp_tensor RN red a1 a2 a3 a4 ss sc tds))
  = sum_steps (length tds) (fun b => part_val RN (fst (da_mstdp_tensor RN red a1 a2 a3 a4 [nth b ss 0] sc [nth b tds []]))) /\
  part_val RN (snd (da_mstdp_tensor RN red a1 a2 a3 a4 ss sc tds))
  = sum_steps (length tds) (fun b => part_val RN (snd (da_mstdp_tensor RN red a1 a2 a3 a4 [nth b ss 0] sc [nth b tds []]))).
Proof.
  intros Hl. unfold da_mstdp_tensor. cbv zeta.
  destruct (geb RN a1 (zero RN)), (geb RN a2 (zero RN)); split; tensor_rows ss tds Hl.
Qed.
Lemma da_mstdpd_tensor_rows ss sc tds : length ss = length tds ->
  part_val RN (fst (da_mstdpd_tensor RN red a1 a2 a3 a4 ss sc tds))
  = sum_steps (length tds) (fun b => part_val RN (fst (da_mstdpd_tensor RN red a1 a2 a3 a4 [nth b ss 0] sc [nth b tds []]))) /\
  part_val RN (snd (da_mstdpd_tensor RN red a1 a2 a3 a4 ss sc tds))
  = sum_steps (length tds) (fun b => part_val RN (snd (da_mstdpd_tensor RN red a1 a2 a3 a4 [nth b ss 0] sc [nth b tds []]))).
Proof.
  intros Hl. unfold da_mstdpd_tensor. cbv zeta.
  destruct (ltb RN a1 (zero RN)), (ltb RN a2 (zero RN)); split; tensor_rows ss tds Hl.
Qed.
End Tensor.

(* ================================================================== B1. one forward: both parts are sums over the samples *)
Theorem da_fwd_parts_sum_persample (tr : trainer RN) (sg : signal RN) (tds : list (list nvR)) :
  sig_ok (length tds) sg ->
  part_val RN (fst (fwd RN red tr sg tds))
  = sum_steps (length tds) (fun b => part_val RN (fst (fwd RN red tr (sig_b b sg) [nth b tds []]))) /\
  part_val RN (snd (fwd RN red tr sg tds))
  = sum_steps (length tds) (fun b => part_val RN (snd (fwd RN red tr (sig_b b sg) [nth b tds []]))).
Proof.
  intros Hs.
  destruct tr as [a1 a2 a3 a4|a1 a2 a3 a4|kp kq|kp kq|a1 a2 a3 a4|a1 a2 a3 a4]; destruct sg as [|s sc|ss sc];
    cbn [fwd sig_b sig_ok] in *;
    try apply da_stdp_rows; try apply da_stdpd_rows; try apply kernel_rows;
    try apply da_mstdp_scalar_rows; try apply da_mstdpd_scalar_rows;
    try (apply da_mstdp_tensor_rows; exact Hs); try (apply da_mstdpd_tensor_rows; exact Hs);
    cbn [fst snd part_val]; rewrite sum_steps_zero; split; reflexivity.
Qed.

(* ================================================================== B2. monitors and whole cells *)
(* EventReducer.fold is element-wise: the slice of the fold is the fold of the slices (no length condition) *)
Theorem da_monitor_per_sample (dt : R) n b (obs : list bool) (st : option (list nvR)) :
  samp n b (ev_fold_t RN dt obs st) = ev_fold_t RN dt (samp n b obs) (option_map (samp n b) st).
Proof.
  destruct st as [st|]; cbn [ev_fold_t option_map].
  - rewrite !map2_as_map, samp_map, samp_combine. reflexivity.
  - apply samp_map.
Qed.

Section Cell.
Variable c : cellcfg RN.
Local Notation npre := (c_npre RN c).
Local Notation npost := (c_npost RN c).

(* the same cell with a batch of one *)
Definition cfg1 : cellcfg RN := mkCfg RN 1 npre npost (c_syn RN c) (c_dt RN c) (c_tr RN c).
(* sample b's slices of the monitor state and of one step's inputs; the delays are shared, the signal is sample b's *)
Definition samp_st (b : nat) (st : cellstate RN) : cellstate RN :=
  mkCS RN (option_map (samp npre b) (cs_pre RN st)) (option_map (samp npost b) (cs_post RN st)).
Definition samp_in (b : nat) (i : stepin RN) : stepin RN :=
  mkIn RN (samp npre b (si_pre RN i)) (samp npost b (si_post RN i)) (si_delay RN i) (sig_b b (si_sig RN i)).
(* the receptive pairs address units of ONE sample *)
Definition syn_ok : Prop :=
  Forall (Forall (fun io : nat * nat => (fst io < npre)%nat /\ (snd io < npost)%nat)) (c_syn RN c).

(* (i) the monitor state of the batch-1 cell on sample b's slices is the slice of the batched monitor state: for every
   batch reduction, no side condition *)
Theorem da_cell_step_state_per_sample rd b st i :
  fst (cell_step RN rd cfg1 (samp_st b st) (samp_in b i)) = samp_st b (fst (cell_step RN rd c st i)).
Proof.
  unfold cell_step, samp_st, samp_in. cbn [fst cs_pre cs_post si_pre si_post c_dt cfg1 option_map].
  rewrite !da_monitor_per_sample. reflexivity.
Qed.

(* row b of the batched element's t_delta tensor is the single row of the batch-1 cell on the slices
   (nth (b * npre + i) pre = nth i (samp npre b pre) for i < npre) *)
Lemma tds_of_row b pre post s d :
  (b < c_B RN c)%nat -> Forall (fun io : nat * nat => (fst io < npre)%nat /\ (snd io < npost)%nat) s ->
  tds_of RN cfg1 (samp npre b pre) (samp npost b post) s d = [nth b (tds_of RN c pre post s d) []].
Proof.
  intros Hb Hs. unfold tds_of. cbn [cfg1 c_B c_npre c_npost c_tr seq map].
  rewrite (nth_map_seq _ 0 (c_B RN c) b []) by exact Hb. f_equal.
  apply map_ext_in. intros io Hio. rewrite Forall_forall in Hs. destruct (Hs io Hio) as [H1 H2].
  rewrite !nth_samp by assumption. cbn [Nat.mul Nat.add]. reflexivity.
Qed.
Lemma tds_of_length pre post s d : length (tds_of RN c pre post s d) = c_B RN c.
Proof. unfold tds_of. rewrite map_length, seq_length. reflexivity. Qed.

Lemma nth_map2_in {A B C} (f : A -> B -> C) la lb da db dc j : (j < length la)%nat -> (j < length lb)%nat ->
  nth j (map2 f la lb) dc = f (nth j la da) (nth j lb db).
Proof.
  revert lb j. induction la as [|a la IH]; intros [|b lb] j H1 H2; cbn [length] in *; try lia.
  destruct j as [|j]; cbn [map2 nth]; [reflexivity|]. apply IH; lia.
Qed.
Lemma nth_map2_out {A B C} (f : A -> B -> C) la lb dc j : (length la <= j)%nat \/ (length lb <= j)%nat ->
  nth j (map2 f la lb) dc = dc.
Proof.
  revert lb j. induction la as [|a la IH]; intros [|b lb] j H; cbn [map2]; try (destruct j; reflexivity).
  destruct j as [|j]; cbn [length] in H; [lia|]. cbn [nth]. apply IH. lia.
Qed.

Definition no_parts : parts RN := (None, None).

(* (ii) sum reduction: the parts of every parameter element j are the sums over the samples of the batch-1 parts *)
Theorem da_cell_step_parts_sum_persample st i j :
  syn_ok -> sig_ok (c_B RN c) (si_sig RN i) ->
  part_val RN (fst (nth j (snd (cell_step RN red c st i)) no_parts))
  = sum_steps (c_B RN c) (fun b => part_val RN (fst (nth j (snd (cell_step RN red cfg1 (samp_st b st) (samp_in b i))) no_parts))) /\
  part_val RN (snd (nth j (snd (cell_step RN red c st i)) no_parts))
  = sum_steps (c_B RN c) (fun b => part_val RN (snd (nth j (snd (cell_step RN red cfg1 (samp_st b st) (samp_in b i))) no_parts))).
Proof.
  intros Hsyn Hsg. unfold cell_step. cbn [snd].
  cbn [cfg1 c_syn c_dt c_tr samp_in si_delay si_sig si_pre si_post samp_st cs_pre cs_post].
  set (pre := ev_fold_t RN (c_dt RN c) (si_pre RN i) (cs_pre RN st)).
  set (post := ev_fold_t RN (c_dt RN c) (si_post RN i) (cs_post RN st)).
  destruct (Nat.lt_ge_cases j (length (c_syn RN c))) as [H1|H1];
    [destruct (Nat.lt_ge_cases j (length (si_delay RN i))) as [H2|H2]|].
  - rewrite (nth_map2_in _ _ _ ([] : synapse) (0 : T RN) no_parts j H1 H2). cbv beta.
    set (s := nth j (c_syn RN c) ([] : synapse)). set (d := nth j (si_delay RN i) (0 : T RN)).
    assert (Hs : Forall (fun io : nat * nat => (fst io < npre)%nat /\ (snd io < npost)%nat) s).
    { unfold syn_ok in Hsyn. rewrite Forall_forall in Hsyn. apply Hsyn. apply nth_In. exact H1. }
    pose proof (da_fwd_parts_sum_persample (c_tr RN c) (si_sig RN i) (tds_of RN c pre post s d)) as HF.
    rewrite tds_of_length in HF. destruct (HF Hsg) as [E1 E2]. rewrite E1, E2.
    split; apply sum_steps_ext; intros b Hb; rewrite (nth_map2_in _ _ _ ([] : synapse) (0 : T RN) no_parts j H1 H2);
      cbv beta; fold s; fold d; rewrite <- !da_monitor_per_sample; fold pre; fold post;
      rewrite (tds_of_row b pre post s d Hb Hs); reflexivity.
  - rewrite (nth_map2_out _ _ _ no_parts j (or_intror H2)). cbn [no_parts fst snd part_val].
    split; symmetry; (etransitivity; [|apply sum_steps_zero]); apply sum_steps_ext; intros b Hb;
      rewrite (nth_map2_out _ _ _ no_parts j (or_intror H2)); reflexivity.
  - rewrite (nth_map2_out _ _ _ no_parts j (or_introl H1)). cbn [no_parts fst snd part_val].
    split; symmetry; (etransitivity; [|apply sum_steps_zero]); apply sum_steps_ext; intros b Hb;
      rewrite (nth_map2_out _ _ _ no_parts j (or_introl H1)); reflexivity.
Qed.

(* ---- whole runs *)
Lemma cell_run_cons rd cc st i tl :
  cell_run RN rd cc st (i :: tl) = cell_step RN rd cc st i :: cell_run RN rd cc (fst (cell_step RN rd cc st i)) tl.
Proof. reflexivity. Qed.

(* at every step the batch-1 cell run on sample b's slices is in the slice of the batched monitor state *)
Theorem da_cell_run_states_per_sample rd b is : forall st,
  map fst (cell_run RN rd cfg1 (samp_st b st) (map (samp_in b) is)) = map (samp_st b) (map fst (cell_run RN rd c st is)).
Proof.
  induction is as [|i tl IH]; intros st; [reflexivity|].
  cbn [map]. rewrite !cell_run_cons. cbn [map]. rewrite da_cell_step_state_per_sample. f_equal. apply IH.
Qed.

Definition no_step : cellstate RN * list (parts RN) := (mkCS RN None None, []).

(* at every step t and for every parameter element j, both parts of the batched run are the sums over the samples of
   the parts of the batch-1 runs *)
Theorem da_cell_run_parts_sum_persample is : syn_ok -> Forall (fun i => sig_ok (c_B RN c) (si_sig RN i)) is ->
  forall st t j,
  part_val RN (fst (nth j (snd (nth t (cell_run RN red c st is) no_step)) no_parts))
  = sum_steps (c_B RN c)
      (fun b => part_val RN (fst (nth j (snd (nth t (cell_run RN red cfg1 (samp_st b st) (map (samp_in b) is)) no_step)) no_parts))) /\
  part_val RN (snd (nth j (snd (nth t (cell_run RN red c st is) no_step)) no_parts))
  = sum_steps (c_B RN c)
      (fun b => part_val RN (snd (nth j (snd (nth t (cell_run RN red cfg1 (samp_st b st) (map (samp_in b) is)) no_step)) no_parts))).
Proof.
  intros Hsyn Hok. induction Hok as [|i tl Hi _ IH]; intros st t j.
  - cbn [map cell_run]. destruct t, j; cbn [nth no_step snd no_parts fst part_val]; rewrite sum_steps_zero; split; reflexivity.
  - cbn [map]. rewrite cell_run_cons. destruct t as [|t]; cbn [nth].
    + destruct (da_cell_step_parts_sum_persample st i j Hsyn Hi) as [E1 E2]. rewrite E1, E2.
      split; apply sum_steps_ext; intros b Hb; rewrite cell_run_cons; reflexivity.
    + destruct (IH (fst (cell_step RN red c st i)) t j) as [E1 E2]. rewrite E1, E2.
      split; apply sum_steps_ext; intros b Hb; rewrite cell_run_cons; cbn [nth];
        rewrite da_cell_step_state_per_sample; reflexivity.
Qed.

(* a fresh batched cell against fresh batch-1 cells *)
Corollary da_cell_run_fresh_sum_persample is t j : syn_ok -> Forall (fun i => sig_ok (c_B RN c) (si_sig RN i)) is ->
  let fresh := mkCS RN None None in
  (forall b, map fst (cell_run RN red cfg1 fresh (map (samp_in b) is)) = map (samp_st b) (map fst (cell_run RN red c fresh is))) /\
  part_val RN (fst (nth j (snd (nth t (cell_run RN red c fresh is) no_step)) no_parts))
  = sum_steps (c_B RN c)
      (fun b => part_val RN (fst (nth j (snd (nth t (cell_run RN red cfg1 fresh (map (samp_in b) is)) no_step)) no_parts))) /\
  part_val RN (snd (nth j (snd (nth t (cell_run RN red c fresh is) no_step)) no_parts))
  = sum_steps (c_B RN c)
      (fun b => part_val RN (snd (nth j (snd (nth t (cell_run RN red cfg1 fresh (map (samp_in b) is)) no_step)) no_parts))).
Proof.
  intros Hsyn Hok fresh. split.
  - intros b. exact (da_cell_run_states_per_sample red b is fresh).
  - exact (da_cell_run_parts_sum_persample is Hsyn Hok fresh t j).
Qed.

(* the two statements together, under the names of the C11 obligation list *)
Theorem da_cell_step_per_sample st i : syn_ok -> sig_ok (c_B RN c) (si_sig RN i) ->
  (forall b, fst (cell_step RN red cfg1 (samp_st b st) (samp_in b i)) = samp_st b (fst (cell_step RN red c st i))) /\
  (forall j,
   part_val RN (fst (nth j (snd (cell_step RN red c st i)) no_parts))
   = sum_steps (c_B RN c) (fun b => part_val RN (fst (nth j (snd (cell_step RN red cfg1 (samp_st b st) (samp_in b i))) no_parts))) /\
   part_val RN (snd (nth j (snd (cell_step RN red c st i)) no_parts))
   = sum_steps (c_B RN c) (fun b => part_val RN (snd (nth j (snd (cell_step RN red cfg1 (samp_st b st) (samp_in b i))) no_parts)))).
Proof.
  intros Hsyn Hsg. split.
  - intros b. apply da_cell_step_state_per_sample.
  - intros j. apply da_cell_step_parts_sum_persample; assumption.
Qed.
Theorem da_cell_run_sum_persample is st : syn_ok -> Forall (fun i => sig_ok (c_B RN c) (si_sig RN i)) is ->
  (forall b, map fst (cell_run RN red cfg1 (samp_st b st) (map (samp_in b) is)) = map (samp_st b) (map fst (cell_run RN red c st is))) /\
  (forall t j,
   part_val RN (fst (nth j (snd (nth t (cell_run RN red c st is) no_step)) no_parts))
   = sum_steps (c_B RN c)
       (fun b => part_val RN (fst (nth j (snd (nth t (cell_run RN red cfg1 (samp_st b st) (map (samp_in b) is)) no_step)) no_parts))) /\
   part_val RN (snd (nth j (snd (nth t (cell_run RN red c st is) no_step)) no_parts))
   = sum_steps (c_B RN c)
       (fun b => part_val RN (snd (nth j (snd (nth t (cell_run RN red cfg1 (samp_st b st) (map (samp_in b) is)) no_step)) no_parts)))).
Proof.
  intros Hsyn Hok. split.
  - intros b. apply da_cell_run_states_per_sample.
  - intros t j. apply da_cell_run_parts_sum_persample; assumption.
Qed.
End Cell.
