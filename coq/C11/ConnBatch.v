(* C11 - batch independence of the FOUR CONNECTIONS composed with their synapses, WITH and WITHOUT delays, proved
   about the C06 model (coq/C06/Delay.v = C04 synapses + C05 linear maps + the delay selectors and the delayed
   branches of LinearDense / LinearDirect / LinearLateral / Conv2D), which is tied to
   inferno/neural/connections/{linear,conv,mixins}.py and inferno/neural/base.py by C06's correspondence check.

   All tensors of the model are flat batch-major lists; sample b is the slice [samp].  The batch-1 copy of a
   connection [conn_B1] has the same weights, biases and delays and batch size 1; sample b of the synapse state is
   [psyn] of C11/SynapseBatch.v.
   [connection_step_sample]: every operation of the model (forward with the undelayed F.linear / direct / unfold+matmul
   branch or the delayed einsum branch fed by the per-sample delay selector, syncurrent, synspike, selector,
   `connection.delay = ...`, clear) that does not raise on the batch gives, on the batch-1 copy with sample b's
   input, sample b of the batched output and sample b of the batched state.
   [connection_batch_independent]: the same for every operation sequence.
   The delay selector is the delay parameter EXPANDED over the batch (linear.py:163, 488; conv.py:283): the proof
   shows that sample b of the selector of the batched connection is the selector of the batch-1 connection
   ([connection_selector_sample]), which is what "selectors expanded, not mixed" means.
   Any number type; no axioms. *)
From Coq Require Import List ZArith Bool Arith Lia.
From Inferno Require Import Base.Num Gen.Infra Gen.Interpolation C01.Ring C04.Synapse C04.HistProofs.
From Inferno Require C05.Conn.
From Inferno Require Import C06.Delay C11.Samp C11.SynapseBatch.
From Inferno Require C11.ConnBatchC05.
Import ListNotations.

(* ------------------------------------------------------------------ list facts *)
Lemma nth_map_lt {X Y} (f : X -> Y) l i d d' : i < length l -> nth i (map f l) d' = f (nth i l d).
Proof. intros H. rewrite (nth_indep _ d' (f d)) by (now rewrite map_length). apply map_nth. Qed.

(* sample b of a tensor built row by row from the rows of a chunked flat tensor *)
Lemma samp_concat_map_chunk_len {X Y} (G : list X -> list Y) w W B b (l : list X) :
  (forall r, length r = w -> length (G r) = W) -> length l = B * w -> b < B ->
  samp W b (concat (map G (Conn.chunk w B l))) = G (samp w b l).
Proof.
  intros HG Hl Hb. rewrite ConnBatchC05.conn_chunk_eq, samp_concat.
  - rewrite (nth_map_lt _ _ _ []) by (now rewrite chunk_length). now rewrite nth_chunk.
  - apply Forall_forall. intros r Hr. apply in_map_iff in Hr as (x & <- & Hin).
    apply (In_nth _ _ []) in Hin as (i & Hi & <-). rewrite chunk_length in Hi. rewrite nth_chunk by exact Hi.
    apply HG. now apply (samp_length_exact _ _ B).
Qed.
Lemma chunk_rows_length {X} w k (l : list X) : length l = k * w -> Forall (fun r => length r = w) (Conn.chunk w k l).
Proof.
  revert l; induction k as [|k IH]; intros l Hl; cbn [Conn.chunk]; constructor.
  - rewrite firstn_length. lia.
  - apply IH. rewrite skipn_length. lia.
Qed.
Lemma conn_chunk_length {X} w k (l : list X) : length (Conn.chunk w k l) = k.
Proof. rewrite ConnBatchC05.conn_chunk_eq. apply chunk_length. Qed.
Lemma nel_prodn s : nel s = Conn.prodn s.
Proof. reflexivity. Qed.
Lemma flat_map_const_length {X Y} (blk : list Y) (l : list X) : length (flat_map (fun _ => blk) l) = length l * length blk.
Proof. apply flat_map_length_const. reflexivity. Qed.

Section ConnBatch.
Variable NM : Num.
Notation A := (T NM).
Notation syn := (syn NM).
Notation cfg := (cfg NM).
Notation view := (view NM).
Variables (B b : nat).
Hypothesis Hb : b < B.

(* ------------------------------------------------------------------ the batch-1 copy; shapes *)
Definition dense_B1 (d : dense NM) : dense NM :=
  mkDense NM (dn_in NM d) (dn_out NM d) 1 (dn_w NM d) (dn_b NM d) (dn_d NM d).
Definition direct_B1 (d : direct NM) : direct NM :=
  mkDirect NM (dr_shape NM d) 1 (dr_w NM d) (dr_b NM d) (dr_d NM d).
Definition lat_B1 (l : Conn.lat NM) : Conn.lat NM :=
  Conn.mkLat NM (Conn.l_shape NM l) 1 (Conn.l_w NM l) (Conn.l_d NM l) (Conn.l_b NM l).
Definition conv_B1 (v : conv NM) : conv NM := mkConv NM (cv_g NM v) 1 (cv_w NM v) (cv_b NM v) (cv_d NM v).
Definition conn_B1 (k : conn NM) : conn NM :=
  match k with
  | CDense _ d => CDense NM (dense_B1 d)
  | CDirect _ d => CDirect NM (direct_B1 d)
  | CLateral _ l => CLateral NM (lat_B1 l)
  | CConv _ v => CConv NM (conv_B1 v)
  end.
(* per-sample shape of the synapse of a connection *)
Definition conn_sh (k : conn NM) : list nat :=
  match k with
  | CDense _ d => [dn_I NM d]
  | CDirect _ d => [dr_n NM d]
  | CLateral _ l => [Conn.l_n NM l]
  | CConv _ v => [cv_N NM v; cv_L NM v]
  end.
(* the batch size is B and weight / bias have the sizes the constructors give them *)
Definition dense_wf (d : dense NM) : Prop :=
  dn_B NM d = B /\ length (dn_w NM d) = dn_O NM d /\ (forall bv, dn_b NM d = Some bv -> length bv = dn_O NM d) /\
  0 < dn_O NM d.
Definition conn_wf (k : conn NM) : Prop :=
  match k with
  | CDense _ d => dense_wf d
  | CDirect _ d => dr_B NM d = B /\ length (dr_w NM d) = dr_n NM d /\
                   (forall bv, dr_b NM d = Some bv -> length bv = dr_n NM d) /\ 0 < dr_n NM d
  | CLateral _ l => dense_wf (lat_dense NM l)
  | CConv _ v => cv_B NM v = B /\ length (cv_w NM v) = cv_F NM v /\
                 (forall bv, cv_b NM v = Some bv -> length bv = cv_F NM v)
  end.

Definition pview (v : view) : view := (pshape (fst v), pvals NM b (fst v) (snd v)).
Definition pcout (o : cout NM) : cout NM :=
  match o with
  | COUnit _ => COUnit NM
  | COFloat _ v => COFloat NM (pview v)
  | COBool _ v => COBool NM (pview v)
  | COErr _ e => COErr NM e
  end.
Definition pcop (o : cop NM) : cop NM :=
  match o with
  | KStep _ xsh xs inj => KStep NM (pshape xsh) (pvals NM b xsh xs) (map (pvals NM b xsh) inj)
  | KSynCurrent _ => KSynCurrent NM
  | KSynSpike _ => KSynSpike NM
  | KSelector _ => KSelector NM
  | KSetDelay _ d => KSetDelay NM d
  | KClear _ => KClear NM
  | KRestore _ => KRestore NM
  end.
Definition raises (o : cout NM) : Prop := match o with COErr _ _ => True | _ => False end.

(* ------------------------------------------------------------------ selectors: expanded over the batch, not mixed *)
Lemma dense_selector_sample d : dn_B NM d = B ->
  dense_selector NM (dense_B1 d) = pview (dense_selector NM d) /\
  sel_ok NM B [dn_I NM d] (fst (dense_selector NM d)) (snd (dense_selector NM d)).
Proof.
  intros HB. unfold dense_selector, pview, dense_B1, dn_I, dn_O, dense_delays. cbn [dn_B dn_in dn_out dn_w dn_d fst snd pshape pvals].
  rewrite HB.
  set (blk := flat_map _ (seq 0 (Conn.prodn (dn_in NM d)))).
  assert (Hblk : length blk = Conn.prodn (dn_in NM d) * Conn.prodn (dn_out NM d)).
  { unfold blk. rewrite (flat_map_length_const _ (Conn.prodn (dn_out NM d))) by (intros; now rewrite map_length, seq_length).
    now rewrite seq_length. }
  split.
  - f_equal. cbn [seq flat_map]. rewrite app_nil_r.
    replace (nel [Conn.prodn (dn_in NM d); Conn.prodn (dn_out NM d)]) with (length blk) by (rewrite Hblk; unfold nel; cbn; lia).
    symmetry. apply (samp_flat_map_seq _ b B); [reflexivity|exact Hb].
  - right. exists (Conn.prodn (dn_out NM d)). split; [reflexivity|].
    rewrite flat_map_const_length, seq_length, Hblk. unfold nel. cbn. lia.
Qed.

Lemma direct_selector_sample d : dr_B NM d = B ->
  direct_selector NM (direct_B1 d) = pview (direct_selector NM d) /\
  sel_ok NM B [dr_n NM d] (fst (direct_selector NM d)) (snd (direct_selector NM d)).
Proof.
  intros HB. unfold direct_selector, pview, direct_B1, dr_n, direct_delays. cbn [dr_B dr_shape dr_w dr_d fst snd pshape pvals].
  rewrite HB.
  set (blk := map _ (seq 0 (Conn.prodn (dr_shape NM d)))).
  assert (Hblk : length blk = Conn.prodn (dr_shape NM d)) by (unfold blk; now rewrite map_length, seq_length).
  split.
  - f_equal. cbn [seq flat_map]. rewrite app_nil_r.
    replace (nel [Conn.prodn (dr_shape NM d); 1]) with (length blk) by (rewrite Hblk; unfold nel; cbn; lia).
    symmetry. apply (samp_flat_map_seq _ b B); [reflexivity|exact Hb].
  - right. exists 1. split; [reflexivity|].
    rewrite flat_map_const_length, seq_length, Hblk. unfold nel. cbn. lia.
Qed.

Lemma conv_selector_sample v : cv_B NM v = B ->
  conv_selector NM (conv_B1 v) = pview (conv_selector NM v) /\
  sel_ok NM B [cv_N NM v; cv_L NM v] (fst (conv_selector NM v)) (snd (conv_selector NM v)).
Proof.
  intros HB. unfold conv_selector, pview.
  change (cv_N NM (conv_B1 v)) with (cv_N NM v). change (cv_L NM (conv_B1 v)) with (cv_L NM v).
  change (cv_F NM (conv_B1 v)) with (cv_F NM v). change (conv_delays NM (conv_B1 v)) with (conv_delays NM v).
  change (cv_B NM (conv_B1 v)) with 1. cbn [fst snd pshape pvals]. rewrite HB.
  set (blk := flat_map _ (seq 0 (cv_N NM v))).
  assert (Hblk : length blk = cv_N NM v * (cv_L NM v * cv_F NM v)).
  { unfold blk. rewrite (flat_map_length_const _ (cv_L NM v * cv_F NM v)); [now rewrite seq_length|].
    intros e. rewrite (flat_map_length_const _ (cv_F NM v)) by (intros; now rewrite map_length, seq_length).
    now rewrite seq_length. }
  split.
  - f_equal. cbn [seq flat_map]. rewrite app_nil_r.
    replace (nel [cv_N NM v; cv_L NM v; cv_F NM v]) with (length blk) by (rewrite Hblk; unfold nel; cbn; lia).
    symmetry. apply (samp_flat_map_seq _ b B); [reflexivity|exact Hb].
  - right. exists (cv_F NM v). split; [reflexivity|].
    rewrite flat_map_const_length, seq_length, Hblk. unfold nel. cbn. lia.
Qed.

Lemma connection_selector_sample k : conn_wf k ->
  conn_selector NM (conn_B1 k) = pview (conn_selector NM k) /\
  sel_ok NM B (conn_sh k) (fst (conn_selector NM k)) (snd (conn_selector NM k)).
Proof.
  destruct k as [d|d|l|v]; cbn [conn_wf conn_selector conn_B1 conn_sh].
  - intros (HB & _). now apply dense_selector_sample.
  - intros (HB & _). now apply direct_selector_sample.
  - intros (HB & _). exact (dense_selector_sample (lat_dense NM l) HB).
  - intros (HB & _). now apply conv_selector_sample.
Qed.

(* ------------------------------------------------------------------ the synapse step inside a connection *)
Lemma forward_out c sh s xs inj s' o : forward NM c s (B :: sh) xs inj = SOk (s', o) -> bsyn NM B sh s' ->
  exists vals, o = SOFloat NM (B :: sh) vals /\ length vals = B * nel sh.
Proof.
  intros H Hbs'. pose proof Hbs' as (Hs' & Hc' & Hn'). unfold forward in H.
  destruct (rpush NM c (spk NM s) (B :: sh) _) as [spk'|e]; [|discriminate].
  destruct (ckind NM c).
  - injection H as <- <-. eexists. split; [|apply (current_of_length NM B sh b Hb); exact Hbs'].
    f_equal. apply (rshape_of_wfr NM _ _ Hs').
  - destruct (rpush NM c (cur NM s) _ _) as [cur'|e]; [|discriminate]. injection H as <- <-.
    eexists. split; [|apply (current_of_length NM B sh b Hb); exact Hbs']. f_equal. apply (rshape_of_wfr NM _ _ Hc').
  - destruct (rpush NM c (cur NM s) _ _) as [cur'|e]; [|discriminate]. injection H as <- <-.
    eexists. split; [|apply (current_of_length NM B sh b Hb); exact Hbs']. f_equal. apply (rshape_of_wfr NM _ _ Hc').
  - destruct (rpush NM c (cur NM s) _ _) as [cur'|e]; [|discriminate].
    destruct (rpush NM c (neg NM s) _ _) as [neg'|e]; [|discriminate]. injection H as <- <-.
    eexists. split; [|apply (current_of_length NM B sh b Hb); exact Hbs']. f_equal. apply (rshape_of_wfr NM _ _ Hc').
Qed.

(* what every forward starts with: the synapse step on the flattened input.  [fsh] = the shape handed to the synapse *)
Lemma syn_step_sample c sh s fsh xs inj s' o : bsyn NM B sh s ->
  length xs = nel fsh -> Forall (fun i => length i = nel fsh) inj ->
  forward NM c s fsh xs inj = SOk (s', o) ->
  fsh = B :: sh /\
  forward NM c (psyn NM b s) (1 :: sh) (samp (nel sh) b xs) (map (samp (nel sh) b) inj) = SOk (psyn NM b s', psout NM b o) /\
  bsyn NM B sh s' /\ exists vals, o = SOFloat NM (B :: sh) vals /\ length vals = B * nel sh.
Proof.
  intros Hbs Hx Hi H. destruct (list_eq_dec Nat.eq_dec fsh (B :: sh)) as [->|Hne].
  - rewrite nel_cons in Hx, Hi. destruct (synapse_forward_sample NM B sh b Hb c s xs inj s' o Hbs Hx Hi H) as [E Hbs'].
    split; [reflexivity|]. split; [exact E|]. split; [exact Hbs'|]. exact (forward_out c sh s xs inj s' o H Hbs').
  - unfold forward in H. rewrite (rpush_bad_shape NM c _ fsh _ _ (proj1 Hbs) Hne) in H. discriminate.
Qed.

(* ------------------------------------------------------------------ LinearDense (and LinearLateral) *)
Lemma linear_row_len (W : list (list A)) (bias : option (list A)) O (xr : list A) :
  length W = O -> (forall bv, bias = Some bv -> length bv = O) ->
  length (let y := map (fun wr => Conn.dot NM xr wr) W in
          match bias with None => y | Some bv => Conn.map2 (add NM) y bv end) = O.
Proof. exact (ConnBatchC05.linear_row_length NM W bias O xr). Qed.
Lemma linear_delayed_row_len (W : list (list A)) (bias : option (list A)) O (m : list (list A)) :
  length W = O -> (forall bv, bias = Some bv -> length bv = O) ->
  length (let y := map (fun ow => Conn.dot NM (Conn.column NM (fst ow) m) (snd ow)) (combine (seq 0 (length W)) W) in
          match bias with None => y | Some bv => Conn.map2 (add NM) y bv end) = O.
Proof.
  intros HW Hb'. cbv zeta.
  assert (Hy : length (map (fun ow => Conn.dot NM (Conn.column NM (fst ow) m) (snd ow)) (combine (seq 0 (length W)) W)) = O)
    by (rewrite map_length, combine_length, seq_length; lia).
  destruct bias as [bv|]; [|exact Hy]. rewrite ConnBatchC05.conn_map2_length, Hy, (Hb' bv eq_refl). lia.
Qed.

Lemma view_shape_B O s : Conn.prodn s = O -> 0 < O -> Conn.view_shape (B * O) s = B :: s /\ Conn.view_shape (1 * O) s = 1 :: s.
Proof.
  intros <- HO. unfold Conn.view_shape. rewrite Nat.div_mul, Nat.mul_1_l, Nat.div_same by lia. split; reflexivity.
Qed.

Theorem dense_forward_sample d c s xsh xs inj s' out :
  dense_wf d -> bsyn NM B [dn_I NM d] s -> length xs = nel xsh -> Forall (fun i => length i = nel xsh) inj ->
  dense_forward NM d c s xsh xs inj = (s', SOk out) ->
  dense_forward NM (dense_B1 d) c (psyn NM b s) (pshape xsh) (pvals NM b xsh xs) (map (pvals NM b xsh) inj)
  = (psyn NM b s', SOk (pview out)) /\ bsyn NM B [dn_I NM d] s'.
Proof.
  intros (HB & HW & Hbias & HO) Hbs Hx Hi. unfold dense_forward.
  destruct xsh as [|b0 rest].
  { cbn [Conn.flat_shape]. unfold forward. rewrite (rpush_bad_shape NM c _ [] _ _ (proj1 Hbs)) by discriminate. discriminate. }
  cbn [Conn.flat_shape pshape pvals].
  destruct (forward NM c s [b0; Conn.prodn rest] xs inj) as [[s1 o]|e] eqn:Ef; [|discriminate].
  assert (Hx' : length xs = nel [b0; Conn.prodn rest]) by (rewrite Hx; unfold nel; cbn; fold (Conn.prodn rest); lia).
  assert (Hi' : Forall (fun i => length i = nel [b0; Conn.prodn rest]) inj).
  { eapply Forall_impl; [|exact Hi]. cbn beta. intros i ->. unfold nel; cbn; fold (Conn.prodn rest); lia. }
  destruct (syn_step_sample c _ s _ xs inj s1 o Hbs Hx' Hi' Ef) as (Esh & Ef1 & Hbs1 & vals & -> & Hvals).
  injection Esh as -> Hrest.
  assert (En : nel rest = nel [dn_I NM d]) by (rewrite nel_prodn, Hrest; unfold nel; cbn; lia).
  change (pvals NM b (B :: rest)) with (@samp A (nel rest) b). rewrite Hrest, En, Ef1. cbn [psout pshape pvals sout_vals].
  change (dn_d NM (dense_B1 d)) with (dn_d NM d). change (dn_B NM (dense_B1 d)) with 1.
  change (dn_O NM (dense_B1 d)) with (dn_O NM d). change (dn_I NM (dense_B1 d)) with (dn_I NM d).
  change (dn_out NM (dense_B1 d)) with (dn_out NM d). change (dn_w NM (dense_B1 d)) with (dn_w NM d).
  change (dn_b NM (dense_B1 d)) with (dn_b NM d).
  rewrite HB. destruct (view_shape_B (dn_O NM d) (dn_out NM d) eq_refl HO) as [-> ->].
  assert (EI : nel [dn_I NM d] = dn_I NM d) by (unfold nel; cbn; lia).
  destruct (takes_delayed NM c (has (dn_d NM d))) eqn:Etd.
  - (* delayed branch *)
    unfold syncurrent. rewrite Etd.
    destruct (dense_selector_sample d HB) as [Esel Hok]. rewrite Esel. cbn [pview fst snd].
    destruct (current_at NM c s1 _ _) as [[osh v]|e] eqn:Ec; [|discriminate].
    destruct (current_at_length NM B _ b Hb c s1 _ _ _ _ Hbs1 Hok Ec) as [Eosh Hv].
    rewrite (current_at_sample NM B _ b Hb c s1 _ _ _ _ Hbs1 Hok Ec).
    intros H. injection H as <- <-. split; [|exact Hbs1]. f_equal. f_equal. unfold pview. cbn [fst snd pshape pvals]. f_equal.
    subst osh. unfold dense_selector in Hv |- *. cbn [fst pvals] in Hv |- *. rewrite HB in Hv.
    set (I := dn_I NM d) in *. set (O := dn_O NM d) in *.
    replace (nel [I; O]) with (I * O) by (unfold nel; cbn; lia).
    replace (nel [B; I; O]) with (B * (I * O)) in Hv by (unfold nel; cbn; lia).
    rewrite nel_prodn. fold O. unfold flat2, Conn.linear_delayed, nest3. rewrite !map_map.
    rewrite (samp_concat_map_chunk_len _ (I * O) O B b v); [|intros; now apply linear_delayed_row_len|exact Hv|exact Hb].
    cbn [Conn.chunk map concat]. rewrite ConnBatchC05.firstn_samp, app_nil_r. reflexivity.
  - (* undelayed branch *)
    intros H. injection H as <- <-. split; [|exact Hbs1]. f_equal. f_equal. unfold pview. cbn [fst snd pshape pvals]. f_equal.
    set (I := dn_I NM d) in *. set (O := dn_O NM d) in *. rewrite EI in *.
    rewrite nel_prodn. fold O. unfold flat2, Conn.linear.
    rewrite (samp_concat_map_chunk_len _ I O B b vals); [|intros; now apply linear_row_len|exact Hvals|exact Hb].
    cbn [Conn.chunk map concat]. rewrite ConnBatchC05.firstn_samp, app_nil_r. reflexivity.
Qed.

(* ------------------------------------------------------------------ LinearDirect *)
Lemma direct_row_len (w : list A) (bias : option (list A)) n (xr : list A) :
  length w = n -> (forall bv, bias = Some bv -> length bv = n) -> length xr = n ->
  length (let y := Conn.map2 (mul NM) xr w in match bias with None => y | Some bv => Conn.map2 (add NM) y bv end) = n.
Proof.
  intros Hw Hb' Hx. cbv zeta. destruct bias as [bv|]; rewrite !ConnBatchC05.conn_map2_length, ?(Hb' bv eq_refl); lia.
Qed.

Theorem direct_forward_sample d c s xsh xs inj s' out :
  conn_wf (CDirect NM d) -> bsyn NM B [dr_n NM d] s -> length xs = nel xsh -> Forall (fun i => length i = nel xsh) inj ->
  direct_forward NM d c s xsh xs inj = (s', SOk out) ->
  direct_forward NM (direct_B1 d) c (psyn NM b s) (pshape xsh) (pvals NM b xsh xs) (map (pvals NM b xsh) inj)
  = (psyn NM b s', SOk (pview out)) /\ bsyn NM B [dr_n NM d] s'.
Proof.
  intros (HB & HW & Hbias & HO) Hbs Hx Hi. unfold direct_forward.
  destruct xsh as [|b0 rest].
  { cbn [Conn.flat_shape]. unfold forward. rewrite (rpush_bad_shape NM c _ [] _ _ (proj1 Hbs)) by discriminate. discriminate. }
  cbn [Conn.flat_shape pshape pvals].
  destruct (forward NM c s [b0; Conn.prodn rest] xs inj) as [[s1 o]|e] eqn:Ef; [|discriminate].
  assert (Hx' : length xs = nel [b0; Conn.prodn rest]) by (rewrite Hx; unfold nel; cbn; fold (Conn.prodn rest); lia).
  assert (Hi' : Forall (fun i => length i = nel [b0; Conn.prodn rest]) inj).
  { eapply Forall_impl; [|exact Hi]. cbn beta. intros i ->. unfold nel; cbn; fold (Conn.prodn rest); lia. }
  destruct (syn_step_sample c _ s _ xs inj s1 o Hbs Hx' Hi' Ef) as (Esh & Ef1 & Hbs1 & vals & -> & Hvals).
  injection Esh as -> Hrest.
  assert (En : nel rest = nel [dr_n NM d]) by (rewrite nel_prodn, Hrest; unfold nel; cbn; lia).
  change (pvals NM b (B :: rest)) with (@samp A (nel rest) b). rewrite Hrest, En, Ef1. cbn [psout pshape pvals sout_vals].
  change (dr_d NM (direct_B1 d)) with (dr_d NM d). change (dr_B NM (direct_B1 d)) with 1.
  change (dr_n NM (direct_B1 d)) with (dr_n NM d). change (dr_shape NM (direct_B1 d)) with (dr_shape NM d).
  change (dr_w NM (direct_B1 d)) with (dr_w NM d). change (dr_b NM (direct_B1 d)) with (dr_b NM d).
  rewrite HB. destruct (view_shape_B (dr_n NM d) (dr_shape NM d) eq_refl HO) as [-> ->].
  assert (EI : nel [dr_n NM d] = dr_n NM d) by (unfold nel; cbn; lia).
  assert (Hfin : forall v, length v = B * dr_n NM d ->
            flat2 NM (Conn.direct_map NM (Conn.chunk (dr_n NM d) 1 (samp (dr_n NM d) b v)) (dr_w NM d) (dr_b NM d))
            = samp (nel (dr_shape NM d)) b
                (flat2 NM (Conn.direct_map NM (Conn.chunk (dr_n NM d) B v) (dr_w NM d) (dr_b NM d)))).
  { intros v Hv. rewrite nel_prodn. change (Conn.prodn (dr_shape NM d)) with (dr_n NM d). unfold flat2, Conn.direct_map.
    rewrite (samp_concat_map_chunk_len _ (dr_n NM d) (dr_n NM d) B b v); [|intros; now apply direct_row_len|exact Hv|exact Hb].
    cbn [Conn.chunk map concat]. rewrite ConnBatchC05.firstn_samp, app_nil_r. reflexivity. }
  destruct (takes_delayed NM c (has (dr_d NM d))) eqn:Etd.
  - unfold syncurrent. rewrite Etd.
    destruct (direct_selector_sample d HB) as [Esel Hok]. rewrite Esel. cbn [pview fst snd].
    destruct (current_at NM c s1 _ _) as [[osh v]|e] eqn:Ec; [|discriminate].
    destruct (current_at_length NM B _ b Hb c s1 _ _ _ _ Hbs1 Hok Ec) as [Eosh Hv].
    rewrite (current_at_sample NM B _ b Hb c s1 _ _ _ _ Hbs1 Hok Ec).
    intros H. injection H as <- <-. split; [|exact Hbs1]. f_equal. f_equal. unfold pview. cbn [fst snd pshape pvals]. f_equal.
    subst osh. unfold direct_selector in Hv |- *. cbn [fst pvals] in Hv |- *. rewrite HB in Hv.
    replace (nel [dr_n NM d; 1]) with (dr_n NM d) by (unfold nel; cbn; lia).
    apply Hfin. rewrite Hv. unfold nel; cbn; lia.
  - intros H. injection H as <- <-. split; [|exact Hbs1]. f_equal. f_equal. unfold pview. cbn [fst snd pshape pvals]. f_equal.
    rewrite EI in *. now apply Hfin.
Qed.

(* ------------------------------------------------------------------ Conv2D *)
(* sizes of the nested intermediate tensors (independent of the data) *)
Lemma unfold_flat_length g (x : Conn.image NM) :
  length (flat2 NM (Conn.unfold NM g x))
  = (Z.to_nat (Conn.gC g) * (Z.to_nat (Conn.kH g) * Z.to_nat (Conn.kW g)))
    * (Z.to_nat (Conn.outH NM g) * Z.to_nat (Conn.outW NM g)).
Proof.
  unfold flat2. rewrite (concat_length_const (Z.to_nat (Conn.outH NM g) * Z.to_nat (Conn.outW NM g))).
  - f_equal. unfold Conn.unfold.
    rewrite (flat_map_length_const _ (Z.to_nat (Conn.kH g) * Z.to_nat (Conn.kW g))); [now rewrite seq_length|].
    intros c0. rewrite (flat_map_length_const _ (Z.to_nat (Conn.kW g))); [now rewrite seq_length|].
    intros i. now rewrite map_length, seq_length.
  - unfold Conn.unfold. apply Forall_flat_map, Forall_forall. intros c0 _.
    apply Forall_flat_map, Forall_forall. intros i _. apply Forall_map, Forall_forall. intros j _.
    rewrite (flat_map_length_const _ (Z.to_nat (Conn.outW NM g))); [now rewrite seq_length|].
    intros oh. now rewrite map_length, seq_length.
Qed.

Lemma chunk_flat_length {X} wo ho (row : list X) : length row = ho * wo -> length (concat (Conn.chunk wo ho row)) = ho * wo.
Proof. intros H. rewrite (concat_length_const wo) by now apply chunk_rows_length. now rewrite conn_chunk_length. Qed.

Lemma bias_planes_length (r : list (list (list A))) (bv : list A) P :
  Forall (fun plane => length (flat2 NM plane) = P) r ->
  Forall (fun plane => length (flat2 NM plane) = P)
         (Conn.map2 (fun plane bf => map (map (fun a => add NM a bf)) plane) r bv).
Proof.
  intros H; revert bv; induction H as [|pl r Hp Hr IH]; intros [|bf bv]; cbn [Conn.map2]; constructor.
  - rewrite <- Hp. unfold flat2. rewrite <- !flat_map_concat_map'.
    clear. induction pl as [|row pl IH]; cbn; [reflexivity|]. now rewrite !app_length, map_length, IH.
  - apply IH.
Qed.

Lemma conv_map_flat_length g w bias cur F :
  length w = F -> (forall bv, bias = Some bv -> length bv = F) ->
  length (flat3 NM (Conn.conv_map NM g w bias cur)) = F * (Z.to_nat (Conn.outH NM g) * Z.to_nat (Conn.outW NM g)).
Proof.
  intros Hw Hbias. unfold flat3, Conn.conv_map.
  set (ho := Z.to_nat (Conn.outH NM g)). set (wo := Z.to_nat (Conn.outW NM g)).
  set (r := map (Conn.chunk wo ho) _).
  assert (Hr : Forall (fun plane => length (flat2 NM plane) = ho * wo) r).
  { unfold r, Conn.matmul. rewrite map_map. apply Forall_map, Forall_forall. intros ar _.
    unfold flat2. apply chunk_flat_length. now rewrite map_length, seq_length. }
  assert (Hlr : length r = F) by (unfold r, Conn.matmul, Conn.flatten_kernel; now rewrite !map_length).
  destruct bias as [bv|].
  - rewrite (concat_length_const (ho * wo)).
    + now rewrite map_length, ConnBatchC05.conn_map2_length, Hlr, (Hbias bv eq_refl), Nat.min_id.
    + apply Forall_map. now apply bias_planes_length.
  - rewrite (concat_length_const (ho * wo)); [now rewrite map_length, Hlr|now apply Forall_map].
Qed.

Lemma conv_delayed_map_flat_length g w bias nn sc F :
  length w = F -> (forall bv, bias = Some bv -> length bv = F) ->
  length (flat3 NM (conv_delayed_map NM g w bias nn sc)) = F * (Z.to_nat (Conn.outH NM g) * Z.to_nat (Conn.outW NM g)).
Proof.
  intros Hw Hbias. unfold flat3, conv_delayed_map.
  set (ho := Z.to_nat (Conn.outH NM g)). set (wo := Z.to_nat (Conn.outW NM g)).
  set (r := map _ (combine _ _)).
  assert (Hr : Forall (fun plane => length (flat2 NM plane) = ho * wo) r).
  { unfold r. apply Forall_map, Forall_forall. intros fk _.
    unfold flat2. apply chunk_flat_length. now rewrite map_length, seq_length. }
  assert (Hlr : length r = F).
  { unfold r, Conn.flatten_kernel. rewrite map_length, combine_length, seq_length, !map_length. lia. }
  destruct bias as [bv|].
  - rewrite (concat_length_const (ho * wo)).
    + now rewrite map_length, ConnBatchC05.conn_map2_length, Hlr, (Hbias bv eq_refl), Nat.min_id.
    + apply Forall_map. now apply bias_planes_length.
  - rewrite (concat_length_const (ho * wo)); [now rewrite map_length, Hlr|now apply Forall_map].
Qed.

(* like_synaptic = F.unfold per image: sample b of the unfolded batch = the unfolded sample b *)
Lemma unf_sample g C H W (d : list A) :
  let P := (Z.to_nat (Conn.gC g) * (Z.to_nat (Conn.kH g) * Z.to_nat (Conn.kW g)))
           * (Z.to_nat (Conn.outH NM g) * Z.to_nat (Conn.outW NM g)) in
  flat3 NM (map (Conn.unfold NM g) (nest4 NM 1 C H W (samp (C * (H * W)) b d)))
  = samp P b (flat3 NM (map (Conn.unfold NM g) (nest4 NM B C H W d))) /\
  length (flat3 NM (map (Conn.unfold NM g) (nest4 NM B C H W d))) = B * P.
Proof.
  cbv zeta. unfold flat3, nest4. rewrite !map_map. split.
  - rewrite (ConnBatchC05.samp_concat_map_chunk _ _ _ B b); [|intros; apply unfold_flat_length|exact Hb].
    cbn [Conn.chunk map concat]. rewrite ConnBatchC05.firstn_samp, app_nil_r. reflexivity.
  - rewrite (concat_length_const ((Z.to_nat (Conn.gC g) * (Z.to_nat (Conn.kH g) * Z.to_nat (Conn.kW g)))
                                  * (Z.to_nat (Conn.outH NM g) * Z.to_nat (Conn.outW NM g)))).
    + now rewrite map_length, conn_chunk_length.
    + apply Forall_map, Forall_forall. intros r _. apply unfold_flat_length.
Qed.

Theorem conv_forward_sample v c s xsh xs inj s' out :
  conn_wf (CConv NM v) -> bsyn NM B [cv_N NM v; cv_L NM v] s ->
  conv_forward NM v c s xsh xs inj = (s', SOk out) ->
  conv_forward NM (conv_B1 v) c (psyn NM b s) (pshape xsh) (pvals NM b xsh xs) (map (pvals NM b xsh) inj)
  = (psyn NM b s', SOk (pview out)) /\ bsyn NM B [cv_N NM v; cv_L NM v] s'.
Proof.
  intros (HB & HW & Hbias) Hbs. unfold conv_forward.
  destruct (length xsh =? 4) eqn:El; cbn [negb]; [|discriminate].
  apply Nat.eqb_eq in El.
  destruct xsh as [|b0 [|C [|H [|W [|? ?]]]]]; cbn [length] in El; try lia. clear El.
  cbn [nth pshape length Nat.eqb negb].
  change (pvals NM b [b0; C; H; W]) with (@samp A (nel [C; H; W]) b).
  change (cv_g NM (conv_B1 v)) with (cv_g NM v).
  set (g := cv_g NM v).
  set (g' := Conn.mkG (Z.of_nat H) (Z.of_nat W) (Z.of_nat C) (Conn.gF g) (Conn.kH g) (Conn.kW g)
                      (Conn.sH g) (Conn.sW g) (Conn.pH g) (Conn.pW g) (Conn.dH g) (Conn.dW g)).
  destruct ((Conn.outH NM g' <=? 0)%Z || (Conn.outW NM g' <=? 0)%Z); [discriminate|].
  set (Nn := C * (Z.to_nat (Conn.kH g) * Z.to_nat (Conn.kW g))).
  set (L' := Z.to_nat (Conn.outH NM g') * Z.to_nat (Conn.outW NM g')).
  set (unf := fun d0 : list A => flat3 NM (map (Conn.unfold NM g') (nest4 NM b0 C H W d0))).
  set (unf1 := fun d0 : list A => flat3 NM (map (Conn.unfold NM g') (nest4 NM 1 C H W d0))).
  change (flat3 NM (map (Conn.unfold NM g') (nest4 NM b0 C H W xs))) with (unf xs).
  change (flat3 NM (map (Conn.unfold NM g') (nest4 NM 1 C H W (samp (nel [C; H; W]) b xs))))
    with (unf1 (samp (nel [C; H; W]) b xs)).
  destruct (forward NM c s [b0; Nn; L'] (unf xs) (map unf inj)) as [[s1 o]|e] eqn:Ef; [|discriminate].
  assert (HP : (Z.to_nat (Conn.gC g') * (Z.to_nat (Conn.kH g') * Z.to_nat (Conn.kW g')))
               * (Z.to_nat (Conn.outH NM g') * Z.to_nat (Conn.outW NM g')) = Nn * L').
  { unfold g'. cbn [Conn.gC Conn.kH Conn.kW]. now rewrite Nat2Z.id. }
  (* the batch dimension of the input is the synapse's *)
  assert (Eb0 : b0 = B /\ [Nn; L'] = [cv_N NM v; cv_L NM v]).
  { destruct (list_eq_dec Nat.eq_dec [b0; Nn; L'] (B :: [cv_N NM v; cv_L NM v])) as [E|Hne].
    - injection E as -> -> ->. split; reflexivity.
    - unfold forward in Ef. rewrite (rpush_bad_shape NM c _ _ _ _ (proj1 Hbs) Hne) in Ef. discriminate. }
  destruct Eb0 as [-> Esh].
  assert (Hunf : forall d0, unf1 (samp (nel [C; H; W]) b d0) = samp (Nn * L') b (unf d0) /\ length (unf d0) = B * (Nn * L')).
  { intros d0. replace (nel [C; H; W]) with (C * (H * W)) by (unfold nel; cbn; lia).
    rewrite <- HP. exact (unf_sample g' C H W d0). }
  assert (Hx' : length (unf xs) = nel [B; Nn; L']) by (rewrite (proj2 (Hunf xs)); unfold nel; cbn; lia).
  assert (Hi' : Forall (fun i => length i = nel [B; Nn; L']) (map unf inj)).
  { apply Forall_map, Forall_forall. intros i _. rewrite (proj2 (Hunf i)). unfold nel; cbn; lia. }
  destruct (syn_step_sample c _ s _ _ _ s1 o Hbs Hx' Hi' Ef) as (_ & Ef1 & Hbs1 & vals & -> & Hvals).
  injection Esh as EN EL. rewrite EN, EL in *.
  assert (Enl : nel [cv_N NM v; cv_L NM v] = cv_N NM v * cv_L NM v) by (unfold nel; cbn; lia).
  rewrite Enl in Ef1, Hvals.
  rewrite (proj1 (Hunf xs)), map_map.
  rewrite (map_ext (fun x => unf1 (samp (nel [C; H; W]) b x)) (fun x => samp (cv_N NM v * cv_L NM v) b (unf x)))
    by (intros; apply (proj1 (Hunf _))).
  rewrite <- (map_map unf), Ef1. cbn [psout pshape pvals sout_vals].
  change (cv_d NM (conv_B1 v)) with (cv_d NM v). change (cv_B NM (conv_B1 v)) with 1.
  change (cv_F NM (conv_B1 v)) with (cv_F NM v). change (cv_HO NM (conv_B1 v)) with (cv_HO NM v).
  change (cv_WO NM (conv_B1 v)) with (cv_WO NM v). change (cv_N NM (conv_B1 v)) with (cv_N NM v).
  change (cv_L NM (conv_B1 v)) with (cv_L NM v). change (cv_w NM (conv_B1 v)) with (cv_w NM v).
  change (cv_b NM (conv_B1 v)) with (cv_b NM v). rewrite HB, Enl.
  assert (Eo : nel [cv_F NM v; cv_HO NM v; cv_WO NM v] = cv_F NM v * (cv_HO NM v * cv_WO NM v)) by (unfold nel; cbn; lia).
  destruct (takes_delayed NM c (has (cv_d NM v))) eqn:Etd.
  - unfold syncurrent. rewrite Etd.
    destruct (conv_selector_sample v HB) as [Esel Hok]. rewrite Esel. cbn [pview fst snd].
    destruct (current_at NM c s1 _ _) as [[osh vv]|e] eqn:Ec; [|discriminate].
    destruct (current_at_length NM B _ b Hb c s1 _ _ _ _ Hbs1 Hok Ec) as [Eosh Hv].
    rewrite (current_at_sample NM B _ b Hb c s1 _ _ _ _ Hbs1 Hok Ec).
    intros Hres. injection Hres as <- <-. split; [|exact Hbs1]. f_equal. f_equal. unfold pview. cbn [fst snd pshape pvals]. f_equal.
    subst osh. unfold conv_selector in Hv |- *. cbn [fst pvals] in Hv |- *. rewrite HB in Hv.
    replace (nel [cv_N NM v; cv_L NM v; cv_F NM v]) with (cv_N NM v * (cv_L NM v * cv_F NM v)) by (unfold nel; cbn; lia).
    rewrite Eo. unfold flat4, nest4. rewrite !map_map.
    rewrite (ConnBatchC05.samp_concat_map_chunk _ _ _ B b); [|intros; now apply conv_delayed_map_flat_length|exact Hb].
    cbn [Conn.chunk map concat]. rewrite ConnBatchC05.firstn_samp, app_nil_r. reflexivity.
  - intros Hres. injection Hres as <- <-. split; [|exact Hbs1]. f_equal. f_equal. unfold pview. cbn [fst snd pshape pvals]. f_equal.
    rewrite Eo. unfold flat4, nest3. rewrite !map_map.
    rewrite (ConnBatchC05.samp_concat_map_chunk _ _ _ B b); [|intros; now apply conv_map_flat_length|exact Hb].
    cbn [Conn.chunk map concat]. rewrite ConnBatchC05.firstn_samp, app_nil_r. reflexivity.
Qed.

(* ------------------------------------------------------------------ every operation of a connection *)
Definition cop_ok (o : cop NM) : Prop :=
  match o with
  | KStep _ xsh xs inj => length xs = nel xsh /\ Forall (fun i => length i = nel xsh) inj
  | _ => True
  end.

Theorem conn_forward_sample k c s xsh xs inj s' out :
  conn_wf k -> bsyn NM B (conn_sh k) s -> length xs = nel xsh -> Forall (fun i => length i = nel xsh) inj ->
  conn_forward NM k c s xsh xs inj = (s', SOk out) ->
  conn_forward NM (conn_B1 k) c (psyn NM b s) (pshape xsh) (pvals NM b xsh xs) (map (pvals NM b xsh) inj)
  = (psyn NM b s', SOk (pview out)) /\ bsyn NM B (conn_sh k) s'.
Proof.
  destruct k as [d|d|l|v]; cbn [conn_wf conn_sh conn_forward conn_B1]; intros Hwf Hbs Hx Hi H.
  - now apply dense_forward_sample.
  - now apply direct_forward_sample.
  - exact (dense_forward_sample (lat_dense NM l) c s xsh xs inj s' out Hwf Hbs Hx Hi H).
  - now apply conv_forward_sample.
Qed.

Lemma conn_hasdelay_B1 k : conn_hasdelay NM (conn_B1 k) = conn_hasdelay NM k.
Proof. destruct k; reflexivity. Qed.

Lemma set_delay_B1 k d : conn_B1 (conn_set_delay NM k d) = conn_set_delay NM (conn_B1 k) d /\
  conn_sh (conn_set_delay NM k d) = conn_sh k /\ (conn_wf k -> conn_wf (conn_set_delay NM k d)).
Proof.
  destruct k as [x|x|l|x]; cbn [conn_set_delay conn_B1].
  - change (dn_d NM (dense_B1 x)) with (dn_d NM x). destruct (dn_d NM x); (split; [reflexivity|split; [reflexivity|intros Hw; exact Hw]]).
  - change (dr_d NM (direct_B1 x)) with (dr_d NM x). destruct (dr_d NM x); (split; [reflexivity|split; [reflexivity|intros Hw; exact Hw]]).
  - unfold Conn.lat_set_delay. change (Conn.l_d NM (lat_B1 l)) with (Conn.l_d NM l).
    destruct (Conn.l_d NM l); (split; [reflexivity|split; [reflexivity|intros Hw; exact Hw]]).
  - change (cv_d NM (conv_B1 x)) with (cv_d NM x). destruct (cv_d NM x); (split; [reflexivity|split; [reflexivity|intros Hw; exact Hw]]).
Qed.

Theorem connection_step_sample c k s o k' s' out : conn_wf k -> bsyn NM B (conn_sh k) s -> cop_ok o ->
  cstep NM c (k, s) o = ((k', s'), out) -> ~ raises out ->
  cstep NM c (conn_B1 k, psyn NM b s) (pcop o) = ((conn_B1 k', psyn NM b s'), pcout out) /\
  conn_wf k' /\ conn_sh k' = conn_sh k /\ bsyn NM B (conn_sh k) s'.
Proof.
  intros Hwf Hbs Hok. pose proof Hbs as (Hs & Hc & Hn).
  destruct (connection_selector_sample k Hwf) as [Esel Hsel].
  destruct o as [xsh xs inj| | | |d| |]; cbn [cstep pcop cop_ok] in *.
  - destruct (conn_forward NM k c s xsh xs inj) as [s1 [vw|e]] eqn:Ef; intros H Hnr; injection H as <- <- <-;
      [|exfalso; apply Hnr; exact I].
    destruct Hok as [Hx Hi]. destruct (conn_forward_sample k c s xsh xs inj s1 vw Hwf Hbs Hx Hi Ef) as [E Hbs1].
    rewrite E. (split; [try reflexivity|split; [try assumption|split; [try reflexivity|try assumption]]]).
  - rewrite conn_hasdelay_B1, Esel. intros H Hnr. injection H as <- <- <-. (split; [try reflexivity|split; [try assumption|split; [try reflexivity|try assumption]]]). f_equal.
    unfold syncurrent in *. destruct (takes_delayed NM c (conn_hasdelay NM k)).
    + destruct (current_at NM c s _ _) as [[osh v]|e] eqn:Ec; [|exfalso; apply Hnr; exact I].
      cbn [pview fst snd]. rewrite (current_at_sample NM B _ b Hb c s _ _ _ _ Hbs Hsel Ec). reflexivity.
    + cbn [of_res pcout]. f_equal. unfold pview, current_shape. cbn [fst snd].
      rewrite (current_of_sample NM B _ b Hb c s Hbs).
      change (spk NM (psyn NM b s)) with (pring NM b (spk NM s)). change (cur NM (psyn NM b s)) with (pring NM b (cur NM s)).
      destruct (pring_rshape NM B _ b Hb _ Hs) as [-> ->]. destruct (pring_rshape NM B _ b Hb _ Hc) as [-> ->].
      destruct (ckind NM c); reflexivity.
  - rewrite conn_hasdelay_B1, Esel. intros H Hnr. injection H as <- <- <-. (split; [try reflexivity|split; [try assumption|split; [try reflexivity|try assumption]]]). f_equal.
    unfold synspike in *. destruct (takes_delayed NM c (conn_hasdelay NM k)).
    + destruct (spike_at NM c s _ _) as [[osh v]|e] eqn:Ec; [|exfalso; apply Hnr; exact I].
      cbn [pview fst snd]. rewrite (spike_at_sample NM B _ b Hb c s _ _ _ _ Hbs Hsel Ec). reflexivity.
    + cbn [of_res pcout]. f_equal. unfold pview. cbn [fst snd].
      change (spk NM (psyn NM b s)) with (pring NM b (spk NM s)).
      destruct (pring_rshape NM B _ b Hb _ Hs) as [-> ->]. now rewrite (pring_peek NM B _ b Hb _ Hs).
  - intros H Hnr. injection H as <- <- <-. rewrite Esel. (split; [try reflexivity|split; [try assumption|split; [try reflexivity|try assumption]]]).
  - intros H Hnr. injection H as <- <- <-. destruct (set_delay_B1 k d) as (E1 & E2 & E3). rewrite E1.
    split; [reflexivity|split; [exact (E3 Hwf)|split; [exact E2|exact Hbs]]].
  - intros H Hnr. injection H as <- <- <-. destruct (clear_sample NM B _ b c s Hbs) as [E Hbs']. rewrite E.
    (split; [try reflexivity|split; [try assumption|split; [try reflexivity|try assumption]]]).
  - intros H Hnr. injection H as <- <- <-. (split; [reflexivity|split; [assumption|split; [reflexivity|assumption]]]).
Qed.

(* EVERY OPERATION SEQUENCE that does not raise on the batch *)
Theorem connection_batch_independent c : forall ops k s kf sf outs,
  conn_wf k -> bsyn NM B (conn_sh k) s -> Forall cop_ok ops ->
  crun NM c (k, s) ops = ((kf, sf), outs) -> Forall (fun o => ~ raises o) outs ->
  crun NM c (conn_B1 k, psyn NM b s) (map pcop ops) = ((conn_B1 kf, psyn NM b sf), map pcout outs).
Proof.
  induction ops as [|o ops IH]; intros k s kf sf outs Hwf Hbs Hok Hrun Hnr; cbn [crun map] in *.
  - injection Hrun as <- <- <-. reflexivity.
  - inversion Hok as [|? ? Ho Hops]; subst.
    destruct (cstep NM c (k, s) o) as [[k1 s1] out] eqn:E.
    destruct (crun NM c (k1, s1) ops) as [[kf' sf'] outs'] eqn:Er. injection Hrun as <- <- <-.
    inversion Hnr as [|? ? Hnr1 Hnr']; subst.
    destruct (connection_step_sample c k s o k1 s1 out Hwf Hbs Ho E Hnr1) as (E' & Hwf1 & Esh & Hbs1).
    rewrite E'. rewrite <- Esh in Hbs1. rewrite (IH k1 s1 kf' sf' outs' Hwf1 Hbs1 Hops Er Hnr'). reflexivity.
Qed.

End ConnBatch.

(* ------------------------------------------------------------------ from the constructors *)
Section FromInit.
Variable NM : Num.
(* the observation shape of the synapse configuration is read by the synapse constructor only *)
Lemma crun_with_shape c s1 ks ops : crun NM (with_shape NM c s1) ks ops = crun NM c ks ops.
Proof.
  revert ks; induction ops as [|o ops IH]; intros ks; cbn [crun]; [reflexivity|].
  assert (E : cstep NM (with_shape NM c s1) ks o = cstep NM c ks o).
  { destruct c; destruct ks as [k s]; destruct o; try reflexivity; destruct k; reflexivity. }
  rewrite E. destruct (cstep NM c ks o) as [ks' out]. now rewrite IH.
Qed.

(* a batch-B connection with a freshly constructed synapse against its batch-1 copy, same parameters *)
Corollary connection_batch_independent_from_init B b c k ops kf sf outs :
  b < B -> conn_wf NM B k -> cshape NM c = B :: conn_sh NM k -> Forall (cop_ok NM) ops ->
  crun NM c (k, init NM c) ops = ((kf, sf), outs) -> Forall (fun o => ~ raises NM o) outs ->
  crun NM (with_shape NM c (1 :: conn_sh NM k)) (conn_B1 NM k, init NM (with_shape NM c (1 :: conn_sh NM k))) (map (pcop NM b) ops)
  = ((conn_B1 NM kf, psyn NM b sf), map (pcout NM b) outs).
Proof.
  intros Hb Hwf Hc Hok Hrun Hnr. destruct (synapse_init_sample NM c B (conn_sh NM k) b Hb Hc) as [E Hbs].
  rewrite crun_with_shape, <- E.
  exact (connection_batch_independent NM B b Hb c ops k _ kf sf outs Hwf Hbs Hok Hrun Hnr).
Qed.
End FromInit.
