(* C11 - the per-sample view of a batch-major flat tensor.
   Several of the finished models (C04 synapses, C05/C06 connections, C17 components) store a tensor of shape
   (B, *shape) as ONE flat row-major list of B * n elements, n = prod shape.  Sample b of such a tensor is the
   slice [b*n, (b+1)*n): [samp n b l].  This file only contains list facts about that slice (no model, no numbers);
   the batch-independence theorems of C11/*Batch.v are stated with it. *)
From Coq Require Import List Arith Lia.
Import ListNotations.

Definition samp {X} (n b : nat) (l : list X) : list X := firstn n (skipn (b * n) l).

Lemma samp_nil {X} n b : @samp X n b [] = [].
Proof. unfold samp. rewrite skipn_nil. apply firstn_nil. Qed.

Lemma samp_length {X} n b (l : list X) : (b + 1) * n <= length l -> length (samp n b l) = n.
Proof. intros H. unfold samp. rewrite firstn_length, skipn_length. lia. Qed.

Lemma samp_length_le {X} n b (l : list X) : length (samp n b l) <= n.
Proof. unfold samp. rewrite firstn_length. lia. Qed.

Lemma samp_length_exact {X} n b B (l : list X) : length l = B * n -> b < B -> length (samp n b l) = n.
Proof. intros H Hb. apply samp_length. nia. Qed.

Lemma map_skipn' {X Y} (f : X -> Y) k (l : list X) : map f (skipn k l) = skipn k (map f l).
Proof. revert l; induction k as [|k IH]; intros [|x l]; cbn; auto. Qed.
Lemma map_firstn' {X Y} (f : X -> Y) k (l : list X) : map f (firstn k l) = firstn k (map f l).
Proof. revert l; induction k as [|k IH]; intros [|x l]; cbn; auto. now rewrite IH. Qed.

Lemma samp_map {X Y} (f : X -> Y) n b l : samp n b (map f l) = map f (samp n b l).
Proof. unfold samp. now rewrite map_firstn', map_skipn'. Qed.

Lemma skipn_combine {X Y} k (l : list X) (l' : list Y) : skipn k (combine l l') = combine (skipn k l) (skipn k l').
Proof.
  revert l l'; induction k as [|k IH]; intros [|x l] [|y l']; cbn; auto.
  destruct (skipn k l); reflexivity.
Qed.
Lemma firstn_combine {X Y} k (l : list X) (l' : list Y) : firstn k (combine l l') = combine (firstn k l) (firstn k l').
Proof. revert l l'; induction k as [|k IH]; intros [|x l] [|y l']; cbn; auto. now rewrite IH. Qed.

Lemma samp_combine {X Y} n b (l : list X) (l' : list Y) : samp n b (combine l l') = combine (samp n b l) (samp n b l').
Proof. unfold samp. now rewrite skipn_combine, firstn_combine. Qed.

Lemma nth_skipn' {X} k i (l : list X) d : nth i (skipn k l) d = nth (k + i) l d.
Proof. revert l; induction k as [|k IH]; intros [|x l]; cbn; auto. destruct i; reflexivity. Qed.
Lemma nth_firstn' {X} k i (l : list X) d : i < k -> nth i (firstn k l) d = nth i l d.
Proof.
  revert i l; induction k as [|k IH]; intros i [|x l] H; cbn; try lia; auto.
  destruct i; [reflexivity|]. apply IH. lia.
Qed.

Lemma nth_samp {X} n b i (l : list X) d : i < n -> nth i (samp n b l) d = nth (b * n + i) l d.
Proof. intros H. unfold samp. now rewrite nth_firstn', nth_skipn'. Qed.

(* two lists of equal length with equal entries *)
Lemma nth_ext' {X} (l l' : list X) d : length l = length l' -> (forall i, i < length l -> nth i l d = nth i l' d) -> l = l'.
Proof.
  revert l'; induction l as [|x l IH]; intros [|y l'] Hl H; cbn in *; try lia; [reflexivity|].
  f_equal; [apply (H 0); lia|]. apply IH; [lia|]. intros i Hi. apply (H (S i)). lia.
Qed.

Lemma skipn_skipn' {X} a b (l : list X) : skipn a (skipn b l) = skipn (b + a) l.
Proof. revert l; induction b as [|b IH]; intros [|x l]; cbn; auto. destruct a; reflexivity. Qed.

Lemma samp_concat {X} n b (rows : list (list X)) :
  Forall (fun r => length r = n) rows -> samp n b (concat rows) = nth b rows [].
Proof.
  revert b; induction rows as [|r rows IH]; intros b H; cbn [concat].
  - rewrite samp_nil. destruct b; reflexivity.
  - inversion H as [|? ? Hr Hrows]; subst. destruct b as [|b].
    + unfold samp. cbn [Nat.mul skipn nth]. rewrite firstn_app, Nat.sub_diag, firstn_all. cbn. apply app_nil_r.
    + unfold samp in *. cbn [nth]. rewrite <- (IH b Hrows).
      replace (S b * length r) with (length r + b * length r) by lia.
      rewrite <- skipn_skipn', skipn_app, skipn_all, Nat.sub_diag. reflexivity.
Qed.

Lemma concat_length_const {X} n (rows : list (list X)) :
  Forall (fun r => length r = n) rows -> length (concat rows) = length rows * n.
Proof. induction 1 as [|r rows Hr _ IH]; cbn; [reflexivity|]. rewrite app_length, IH, Hr. lia. Qed.

Lemma flat_map_concat_map' {X Y} (g : X -> list Y) l : flat_map g l = concat (map g l).
Proof. induction l as [|x l IH]; cbn; [reflexivity|]. now rewrite IH. Qed.

Lemma nth_map_seq {X} (f : nat -> X) a n i d : i < n -> nth i (map f (seq a n)) d = f (a + i).
Proof.
  intros H. rewrite (nth_indep _ d (f 0)) by (rewrite map_length, seq_length; exact H).
  rewrite map_nth, seq_nth by exact H. reflexivity.
Qed.

Lemma samp_flat_map_seq {X} n b B (g : nat -> list X) :
  (forall i, i < B -> length (g i) = n) -> b < B -> samp n b (flat_map g (seq 0 B)) = g b.
Proof.
  intros Hg Hb. rewrite flat_map_concat_map', samp_concat.
  - rewrite (nth_map_seq g 0 B b []) by exact Hb. reflexivity.
  - apply Forall_forall. intros r Hr. apply in_map_iff in Hr as (i & <- & Hi). apply in_seq in Hi. apply Hg. lia.
Qed.

(* the slice of a tensor generated entry by entry *)
Lemma samp_map_seq {X} n b B (f : nat -> X) :
  b < B -> samp n b (map f (seq 0 (B * n))) = map (fun i => f (b * n + i)) (seq 0 n).
Proof.
  intros Hb. apply (nth_ext' _ _ (f 0)).
  - rewrite samp_length by (rewrite map_length, seq_length; nia). now rewrite map_length, seq_length.
  - intros i Hi. rewrite samp_length in Hi by (rewrite map_length, seq_length; nia).
    rewrite nth_samp by exact Hi. rewrite (nth_map_seq f 0) by nia.
    rewrite (nth_map_seq (fun j => f (b * n + j)) 0) by exact Hi. reflexivity.
Qed.

Lemma samp_repeat {X} n b B (x : X) : b < B -> samp n b (repeat x (B * n)) = repeat x n.
Proof.
  intros Hb. apply (nth_ext' _ _ x).
  - rewrite samp_length by (rewrite repeat_length; nia). now rewrite repeat_length.
  - intros i Hi. rewrite samp_length in Hi by (rewrite repeat_length; nia).
    rewrite nth_samp by exact Hi. now rewrite !nth_repeat.
Qed.

(* a slice of a slice: sample b has k blocks of m entries; block j of it is block b*k+j of the whole *)
Lemma samp_samp {X} m k b j (l : list X) : j < k -> samp m j (samp (k * m) b l) = samp m (b * k + j) l.
Proof.
  intros Hj. unfold samp. rewrite skipn_firstn_comm, firstn_firstn, skipn_skipn'.
  replace (Nat.min m (k * m - j * m)) with m by nia.
  f_equal. f_equal. nia.
Qed.

(* the whole of a one-sample tensor *)
Lemma samp_0_all {X} n (l : list X) : length l = n -> samp n 0 l = l.
Proof. intros <-. unfold samp. cbn. apply firstn_all. Qed.

(* firstn / skipn by whole samples *)
Lemma samp_skipn {X} n b k (l : list X) : samp n b (skipn (k * n) l) = samp n (k + b) l.
Proof. unfold samp. rewrite skipn_skipn'. f_equal. f_equal. nia. Qed.

(* splitting into rows: row b of a chunked tensor is its b-th slice *)
Section Chunk.
Context {X : Type}.
Fixpoint chunk (w k : nat) (l : list X) : list (list X) :=
  match k with O => [] | S k' => firstn w l :: chunk w k' (skipn w l) end.
Lemma nth_chunk w k b l : b < k -> nth b (chunk w k l) [] = samp w b l.
Proof.
  revert b l; induction k as [|k IH]; intros b l Hb; [lia|]. cbn [chunk]. destruct b as [|b]; cbn [nth].
  - reflexivity.
  - rewrite IH by lia. unfold samp. rewrite skipn_skipn'. reflexivity.
Qed.
Lemma chunk_length w k l : length (chunk w k l) = k.
Proof. revert l; induction k as [|k IH]; intros l; cbn; [reflexivity|now rewrite IH]. Qed.
Lemma chunk_1 w l : chunk w 1 l = [firstn w l].
Proof. reflexivity. Qed.
End Chunk.

(* updating one stored row / mapping over stored rows *)
Lemma map_nth_default {X Y} (f : X -> Y) (l : list X) i dx dy : f dx = dy -> nth i (map f l) dy = f (nth i l dx).
Proof. intros <-. apply map_nth. Qed.
