(* C15 - completeness of recording: while a trainer is in training mode every monitor in its pool is hooked, for
   every operation sequence that never deletes a cell / monitor whose monitor object is shared with another entry
   (the unrepaired defect: see LifecycleRefuted.one_obs_del_cell_shared_refuted); and the resulting statement of
   "exactly one observation per training step" - axiom-free. *)
From Coq Require Import List ZArith Bool Arith Lia.
From Inferno Require Import C15.Lifecycle C15.LifecycleLemmas C15.LifecycleProofs C15.LifecycleTI C15.LifecycleIso.
Import ListNotations.

Definition Complete (s : state) : Prop :=
  forall t i, t_training (get_trainer s t) = true -> In i (pool_mids (get_trainer s t)) -> m_reg (get_mon s i) = true.

(* the operations the property's defect concerns: deleting an entry whose monitor another entry still uses *)
Definition group_mids (t : trainer) (cn : nat) : list nat :=
  match alookup cn (t_pool t) with Some g => map snd g | None => [] end.
Definition safe_op (s : state) (o : op) : bool :=
  match o with
  | DelCell t cn =>
      forallb (fun i => negb (mem_nat i (pool_mids (set_pool (adel cn (t_pool (get_trainer s t))) (get_trainer s t)))))
              (group_mids (get_trainer s t) cn)
  | DelMonitor t cn mn =>
      match pool_get (get_trainer s t) cn mn with
      | Some i => negb (mem_nat i (pool_mids (pool_del_entry cn mn (get_trainer s t))))
      | None => true
      end
  | _ => true
  end.

Lemma Complete_init w tys : Complete (init_state w tys).
Proof.
  intros t i _ H. exfalso. destruct (init_trainer w tys t) as (A & _). unfold pool_mids in H. rewrite A in H. destruct H.
Qed.

(* other trainers: untouched by an operation of trainer ti *)
Lemma Complete_frame_other ti s s' k :
  Frame ti s s' -> PV s -> TI s -> Complete s -> k <> ti ->
  forall i, t_training (get_trainer s' k) = true -> In i (pool_mids (get_trainer s' k)) -> m_reg (get_mon s' i) = true.
Proof.
  intros (L & F1 & F2 & F3 & F4) P T C N i Ht Hi. rewrite (F1 k N) in *.
  rewrite F2; [apply (C k i); auto|apply (P k i); auto|].
  intros K. destruct T as (_ & _ & _ & T4 & _). apply N. apply (T4 k ti i); auto.
Qed.

(* MonitorPool.add_monitor while training: nothing is deregistered, the returned monitor is hooked *)
Lemma pool_add_monitor_Complete s ti cn sp s' r :
  pool_add_monitor s ti cn sp = (s', r) -> Inv1 s -> TI s -> Complete s -> Complete s'.
Proof.
  intros E I T C. pose proof (pool_add_monitor_Frame _ _ _ _ _ _ E I T) as F.
  destruct I as [HWs P]. intros k i Ht Hi.
  destruct (Nat.eq_dec k ti) as [->|N]; [|eapply Complete_frame_other; eauto].
  (* the trainer itself *)
  unfold pool_add_monitor in E.
  destruct (alookup cn (t_observed (get_trainer s ti))) as [cell|] eqn:Ec; [|inversion E; subst; apply (C ti i); auto].
  set (existing := pool_get (get_trainer s ti) cn (sp_name sp)) in *.
  set (s0 := match existing with
             | Some _ => upd_trainer ti (pool_del_entry cn (sp_name sp)) s
             | None => s
             end) in *.
  assert (M0 : get_mon s0 = get_mon s) by (unfold s0; destruct existing; reflexivity).
  assert (Sub0 : forall j, In j (pool_mids (get_trainer s0 ti)) -> In j (pool_mids (get_trainer s ti))).
  { unfold s0. destruct existing; auto. intros j. rewrite get_trainer_upd.
    destruct (Nat.eqb ti ti && Nat.ltb ti (length (trainers s))); auto. apply pool_del_entry_mids. }
  assert (Tn0 : t_training (get_trainer s0 ti) = t_training (get_trainer s ti)).
  { unfold s0. destruct existing; auto. rewrite get_trainer_upd.
    destruct (Nat.eqb ti ti && Nat.ltb ti (length (trainers s))); auto.
    unfold pool_del_entry. destruct (alookup cn (t_pool (get_trainer s ti))); auto. }
  assert (K0 : keys_ok (get_trainer s0 ti)).
  { unfold s0. destruct T as (T1 & _). destruct existing; auto. rewrite get_trainer_upd.
    destruct (Nat.eqb ti ti && Nat.ltb ti (length (trainers s))); auto. apply keys_ok_del_entry; auto. }
  assert (MAIN : (let t0 := get_trainer s0 ti in
                  match observable_add_monitor s0 cell sp (if sp_unique sp then None else Some (pool_view t0)) with
                  | None => (s0, Some ERuntime)
                  | Some (s1, i) =>
                      let s2 := if t_training t0 then s1 else deregister i s1 in
                      (upd_trainer ti (pool_put cn (sp_name sp) i) s2, None)
                  end) = (s', r) -> m_reg (get_mon s' i) = true).
  { clear E. cbv zeta. intros E.
    destruct (observable_add_monitor s0 cell sp (if sp_unique sp then None else Some (pool_view (get_trainer s0 ti))))
      as [[s1 j]|] eqn:Eo.
    2:{ inversion E; subst. rewrite M0. apply (C ti i); [rewrite <- Tn0; auto|apply Sub0; auto]. }
    inversion E; subst; clear E.
    assert (Ht0 : t_training (get_trainer s0 ti) = true).
    { rewrite get_trainer_upd in Ht.
      destruct (Nat.eqb ti ti && Nat.ltb ti (length (trainers (if t_training (get_trainer s0 ti) then s1 else deregister j s1)))) eqn:Eb.
      - change (t_training (pool_put cn (sp_name sp) j (get_trainer (if t_training (get_trainer s0 ti) then s1 else deregister j s1) ti)))
          with (t_training (get_trainer (if t_training (get_trainer s0 ti) then s1 else deregister j s1) ti)) in Ht.
        destruct (t_training (get_trainer s0 ti)) eqn:Et; auto.
        destruct (deregister_others j s1) as (A & _). unfold get_trainer in Ht. rewrite A in Ht.
        apply observable_add_monitor_cases in Eo as (attr & _ & [(tg & sN & En & -> & _)|(p & Ep & Ea & ->)]).
        + destruct (new_monitor_spec _ _ _ _ _ _ _ _ En) as (_ & _ & Tr & _). simpl in Ht. rewrite Tr in Ht.
          fold (get_trainer s0 ti) in Ht. congruence.
        + simpl in Ht. fold (get_trainer s0 ti) in Ht. congruence.
      - destruct (t_training (get_trainer s0 ti)) eqn:Et; auto.
        destruct (deregister_others j s1) as (A & _). unfold get_trainer in Ht. rewrite A in Ht.
        apply observable_add_monitor_cases in Eo as (attr & _ & [(tg & sN & En & -> & _)|(p & Ep & Ea & ->)]).
        + destruct (new_monitor_spec _ _ _ _ _ _ _ _ En) as (_ & _ & Tr & _). simpl in Ht. rewrite Tr in Ht.
          fold (get_trainer s0 ti) in Ht. congruence.
        + simpl in Ht. fold (get_trainer s0 ti) in Ht. congruence. }
    rewrite Ht0 in *.
    change (get_mon (upd_trainer ti (pool_put cn (sp_name sp) j) s1) i) with (get_mon s1 i).
    assert (Tr1 : trainers s1 = trainers s0).
    { apply observable_add_monitor_cases in Eo as (attr & _ & [(tg & sN & En & -> & _)|(p & Ep & Ea & ->)]); auto.
      destruct (new_monitor_spec _ _ _ _ _ _ _ _ En) as (_ & _ & Tr & _). exact Tr. }
    rewrite get_trainer_upd in Hi.
    assert (Hi2 : i = j \/ In i (pool_mids (get_trainer s0 ti))).
    { destruct (Nat.eqb ti ti && Nat.ltb ti (length (trainers s1))).
      - apply pool_put_mids in Hi as [->|Hi]; auto. right. unfold get_trainer in Hi. rewrite Tr1 in Hi. exact Hi.
      - right. unfold get_trainer in Hi. rewrite Tr1 in Hi. exact Hi. }
    apply observable_add_monitor_cases in Eo as (attr & _ & [(tg & sN & En & -> & _)|(p & Ep & Ea & ->)]).
    - destruct (new_monitor_spec _ _ _ _ _ _ _ _ En) as (Ej & L & Tr & _ & _ & _ & Old & New & _).
      change (get_mon (cmon_bind cell (sp_name sp) j sN) i) with (get_mon sN i).
      destruct Hi2 as [->|Hi2]; [rewrite New; reflexivity|].
      rewrite Old; [rewrite M0; apply (C ti i); [rewrite <- Tn0; auto|auto]|].
      assert (i < length (mons s)) by (apply (P ti); auto). unfold get_mon in M0.
      assert (mons s0 = mons s) by (unfold s0; destruct existing; reflexivity). rewrite H0. exact H.
    - change (get_mon (cmon_bind cell (sp_name sp) j s0) i) with (get_mon s0 i). rewrite M0.
      apply (C ti i); [rewrite <- Tn0; auto|].
      destruct Hi2 as [->|Hi2]; auto.
      destruct (sp_unique sp); [discriminate|]. inversion Ep; subst p.
      apply alias_in_pool in Ea as (cn' & obs & H1 & _); auto. apply Sub0. apply pool_mids_named. eauto. }
  destruct existing as [k|] eqn:Ex; destruct (sp_unique sp) eqn:Eu; auto.
  inversion E; subst. apply (C ti i); auto.
Qed.

Lemma add_specs_Complete sps : forall s ti cn s' r,
  add_specs s ti cn sps = (s', r) -> Inv1 s -> TI s -> Complete s -> Complete s'.
Proof.
  induction sps as [|sp tl IH]; simpl; intros s ti cn s' r E I T C.
  - inversion E; subst; auto.
  - destruct (pool_add_monitor s ti cn sp) as [s1 [e|]] eqn:Ep.
    + inversion E; subst. eapply pool_add_monitor_Complete; eauto.
    + eapply IH; [exact E| | |].
      * eapply pool_add_monitor_Inv1; eauto.
      * eapply pool_add_monitor_TI; eauto.
      * eapply pool_add_monitor_Complete; eauto.
Qed.

(* changing only cells_/observed_ of a trainer *)
Lemma Complete_upd_trainer ti f s :
  (forall t, pool_mids (f t) = pool_mids t /\ t_training (f t) = t_training t) -> Complete s -> Complete (upd_trainer ti f s).
Proof.
  intros Hf C k i. rewrite get_trainer_upd. change (get_mon (upd_trainer ti f s) i) with (get_mon s i).
  destruct (Nat.eqb ti k && Nat.ltb ti (length (trainers s))) eqn:E; [|apply C].
  apply andb_true_iff in E as [E _]. apply Nat.eqb_eq in E; subst k.
  destruct (Hf (get_trainer s ti)) as [-> ->]. apply C.
Qed.

Lemma register_cell_Complete w s ti cn c hp s' r :
  register_cell w s ti cn c hp = (s', r) -> t_alive (get_trainer s ti) = true -> Inv1 s -> TI s -> Complete s -> Complete s'.
Proof.
  intros E Hal I T C.
  (* replay the structure of register_cell up to add_specs *)
  pose proof (register_cell_TI _ _ _ _ _ _ _ _ E Hal I T) as T'.
  unfold register_cell in E.
  destruct (amem cn (t_cells (get_trainer s ti))) eqn:Em; [inversion E; subst; auto|].
  rewrite (pool_del_observed_absent _ _ _ T Em) in E.
  set (s2 := upd_trainer ti (fun t => set_cells (aset cn c (t_cells t)) t) s) in *.
  assert (C2 : Complete s2) by (apply Complete_upd_trainer; auto).
  destruct (amem cn (t_observed (get_trainer s2 ti))) eqn:E1; [inversion E; subst; auto|].
  destruct (amem cn (t_pool (get_trainer s2 ti))) eqn:E2; [inversion E; subst; auto|].
  set (s3 := upd_trainer ti (fun t => set_observed (aset cn c (t_observed t)) t) s2) in *.
  assert (C3 : Complete s3) by (apply Complete_upd_trainer; auto).
  assert (I3 : Inv1 s3) by (unfold s3, s2; apply Inv1_trainers_only; auto; apply Inv1_trainers_only; auto).
  (* TI s3: registering with an empty spec list *)
  assert (T3 : TI s3).
  { assert (R0 : register_cell w s ti cn c hp = register_cell w s ti cn c hp) by reflexivity.
    pose proof T as (T1 & T2 & T3 & T4 & T5 & T6). destruct (T1 ti) as (A & B & Cc & D).
    assert (Nc : ~ In cn (map fst (t_cells (get_trainer s ti)))) by (intros K; apply amem_In in K; congruence).
    set (g := fun t : trainer => set_observed (aset cn c (t_observed t)) (set_cells (aset cn c (t_cells t)) t)).
    assert (Eq : s3 = upd_trainer ti g s).
    { unfold s3, s2, upd_trainer, set_trainers. simpl. rewrite upd_upd. reflexivity. }
    rewrite Eq.
    assert (G : forall k, get_trainer (upd_trainer ti g s) k = g (get_trainer s ti) /\ k = ti \/
                          get_trainer (upd_trainer ti g s) k = get_trainer s k).
    { intros k. rewrite get_trainer_upd. destruct (Nat.eqb ti k && Nat.ltb ti (length (trainers s))) eqn:E3; auto.
      apply andb_true_iff in E3 as [E3 _]. apply Nat.eqb_eq in E3. auto. }
    unfold TI. change (mons (upd_trainer ti g s)) with (mons s). change (get_mon (upd_trainer ti g s)) with (get_mon s).
    split; [|split; [|split; [|split; [|split]]]].
    - intros k. destruct (G k) as [[-> _]| -> ]; auto. unfold g, keys_ok; simpl.
      split; [apply NoDup_keys_aset; auto|]. split; [rewrite B; reflexivity|]. split; [exact Cc|].
      intros c' g' H. destruct (D c' g' H) as [K1 K2]. split; auto. apply keys_aset. auto.
    - intros k. destruct (G k) as [[-> ->]| -> ]; auto. unfold g; simpl. rewrite Hal. discriminate.
    - intros k c' m j c0. destruct (G k) as [[-> ->]| -> ]; [|apply T3].
      change (pool_named (g (get_trainer s ti))) with (pool_named (get_trainer s ti)). unfold g; simpl.
      intros H1 H2. apply (T3 ti c' m j c0); auto. rewrite alookup_aset_other in H2; auto.
      intros ->. apply Nc. apply pool_named_In in H1 as (g' & H1 & _). apply (D cn g' H1).
    - intros t1 t2 j. destruct (G t1) as [[-> ->]| -> ]; destruct (G t2) as [[-> ->]| -> ]; intros H1 H2.
      + reflexivity.
      + apply (T4 ti t2 j); auto.
      + apply (T4 t1 ti j); auto.
      + apply (T4 t1 t2 j); auto.
    - intros k j. destruct (G k) as [[-> ->]| -> ]; [|apply T5]. intros H1 H2. apply (T5 ti j); auto.
    - exact T6. }
  destruct (conn_info w c) as [dt cdel].
  eapply add_specs_Complete; eauto.
Qed.

Lemma add_monitor_Complete s ti cn sp s' r :
  add_monitor s ti cn sp = (s', r) -> Inv1 s -> TI s -> Complete s -> Complete s'.
Proof.
  unfold add_monitor. intros E I T C. destruct (negb (amem cn (t_cells (get_trainer s ti)))); [inversion E; subst; auto|].
  eapply pool_add_monitor_Complete; eauto.
Qed.

(* deleting a cell whose monitors no other cell of the trainer uses *)
Lemma del_cell_Complete s ti cn s' r :
  del_cell s ti cn = (s', r) -> safe_op s (DelCell ti cn) = true -> Inv1 s -> TI s -> Complete s -> Complete s'.
Proof.
  intros E Safe [_ P] T C. pose proof (del_cell_Frame _ _ _ _ _ E) as F.
  intros k i Ht Hi. destruct (Nat.eq_dec k ti) as [->|N]; [|eapply Complete_frame_other; eauto].
  unfold del_cell in E. destruct (negb (amem cn (t_cells (get_trainer s ti)))); inversion E; subst; clear E; [apply (C ti i); auto|].
  unfold pool_del_observed in *. simpl in Safe. unfold group_mids in Safe.
  destruct (alookup cn (t_pool (get_trainer s ti))) as [g|] eqn:Eg.
  - (* the trainer's record after the three updates *)
    set (sd := deregister_all (map snd g) s) in *.
    destruct (deregister_all_trainers (map snd g) s) as (Trd & _).
    assert (Gd : get_trainer sd = get_trainer s) by (unfold get_trainer, sd; rewrite Trd; auto).
    rewrite !get_trainer_upd in Hi, Ht. simpl in Hi, Ht. rewrite !length_upd in Hi, Ht.
    change (trainers sd) with (trainers (deregister_all (map snd g) s)) in Hi, Ht. rewrite Trd in Hi, Ht.
    destruct (Nat.ltb ti (length (trainers s))) eqn:L; rewrite Nat.eqb_refl in Hi, Ht; simpl in Hi, Ht.
    + rewrite Gd in Hi, Ht.
      change (get_mon _ i) with (get_mon sd i). unfold sd. rewrite deregister_all_mon.
      change (pool_mids (set_cells _ (set_observed _ (set_pool (adel cn (t_pool (get_trainer s ti))) (get_trainer s ti)))))
        with (pool_mids (set_pool (adel cn (t_pool (get_trainer s ti))) (get_trainer s ti))) in Hi.
      destruct (mem_nat i (map snd g)) eqn:Em.
      * exfalso. apply mem_nat_In in Em. rewrite forallb_forall in Safe. specialize (Safe i Em).
        apply negb_true_iff in Safe. apply mem_nat_false in Safe. tauto.
      * apply (C ti i); auto. apply pool_mids_In in Hi as (c' & g' & m & A & B). simpl in A. apply In_adel_weak in A.
        apply pool_mids_In. eauto.
    + rewrite Gd in Hi, Ht. change (get_mon _ i) with (get_mon sd i). unfold sd. rewrite deregister_all_mon.
      apply Nat.ltb_ge in L. rewrite dummy_trainer_oob in Hi by auto. destruct Hi.
  - rewrite !get_trainer_upd in Hi, Ht. simpl in Hi, Ht. rewrite !length_upd in Hi, Ht.
    change (get_mon _ i) with (get_mon s i).
    destruct (Nat.eqb ti ti && Nat.ltb ti (length (trainers s))); simpl in Hi, Ht; apply (C ti i); auto.
Qed.

Lemma pool_del_monitor_Complete s ti cn mn s' r :
  pool_del_monitor s ti cn mn = (s', r) -> safe_op s (DelMonitor ti cn mn) = true -> Inv1 s -> TI s -> Complete s ->
  Complete s'.
Proof.
  intros E Safe [_ P] T C. pose proof (pool_del_monitor_Frame _ _ _ _ _ _ E) as F.
  intros k i Ht Hi. destruct (Nat.eq_dec k ti) as [->|N]; [|eapply Complete_frame_other; eauto].
  unfold pool_del_monitor in E. simpl in Safe. unfold pool_get, pool_del_entry in Safe.
  destruct (alookup cn (t_pool (get_trainer s ti))) as [g|] eqn:Eg; [|inversion E; subst; apply (C ti i); auto].
  destruct (alookup cn (t_observed (get_trainer s ti))); [|inversion E; subst; apply (C ti i); auto].
  destruct (alookup mn g) as [j|] eqn:Ej; [|inversion E; subst; apply (C ti i); auto].
  inversion E; subst; clear E.
  destruct (deregister_others j s) as (Trd & _).
  assert (Gd : get_trainer (deregister j s) = get_trainer s) by (unfold get_trainer; rewrite Trd; auto).
  rewrite get_trainer_upd in Hi, Ht. rewrite Gd in Hi, Ht.
  change (get_mon _ i) with (get_mon (deregister j s) i). rewrite deregister_mon.
  destruct (Nat.eqb ti ti && Nat.ltb ti (length (trainers (deregister j s)))) eqn:Eb.
  - simpl in Ht.
    assert (Hi' : In i (pool_mids (set_pool (aset cn (adel mn g) (t_pool (get_trainer s ti))) (get_trainer s ti)))).
    { destruct (adel mn g) eqn:Ed; [|exact Hi].
      apply pool_mids_In in Hi as (c' & g' & m & A & B). simpl in A.
      apply pool_mids_In. exists c', g', m. split; auto. simpl.
      destruct T as (T1 & _). destruct (T1 ti) as (_ & _ & ND & _).
      apply In_adel in A; auto. destruct A as [A Nn]. apply In_aset; auto. }
    destruct (Nat.eqb j i) eqn:E2.
    + exfalso. apply Nat.eqb_eq in E2; subst j. apply negb_true_iff in Safe. apply mem_nat_false in Safe. tauto.
    + apply (C ti i); auto. apply pool_mids_In in Hi' as (c' & g' & m & A & B). simpl in A.
      apply In_aset_weak in A as [A|A].
      * inversion A; subst. apply In_adel_weak in B. apply pool_mids_In. exists cn, g, m. split; auto. apply alookup_In; auto.
      * apply pool_mids_In. eauto.
  - destruct (Nat.eqb j i) eqn:E2; [|apply (C ti i); auto].
    apply Nat.eqb_eq in E2; subst j.
    (* ti is not a trainer of the state: its record is the dummy, whose pool is empty *)
    apply andb_false_iff in Eb as [Eb|Eb]; [rewrite Nat.eqb_refl in Eb; discriminate|].
    apply Nat.ltb_ge in Eb. rewrite Trd in Eb. rewrite dummy_trainer_oob in Hi by auto. destruct Hi.
Qed.

Lemma trainer_mode_Complete s ti mode : Inv1 s -> TI s -> Complete s -> Complete (trainer_mode s ti mode).
Proof.
  intros I T C. pose proof (trainer_mode_Frame s ti mode I) as F. destruct I as [HWs P].
  intros k i Ht Hi. destruct (Nat.eq_dec k ti) as [->|N]; [|eapply Complete_frame_other; eauto].
  unfold trainer_mode in *. set (s1 := upd_trainer ti (set_training mode) s) in *.
  assert (Pm : pool_mids (get_trainer s1 ti) = pool_mids (get_trainer s ti)).
  { unfold s1. rewrite get_trainer_upd. destruct (Nat.eqb ti ti && Nat.ltb ti (length (trainers s))); auto. }
  destruct mode.
  - destruct (reregister_all_trainers (pool_monitors (get_trainer s1 ti)) s1) as (Tr & _).
    assert (G : get_trainer (reregister_all (pool_monitors (get_trainer s1 ti)) s1) = get_trainer s1)
      by (unfold get_trainer at 1 3; rewrite Tr; reflexivity).
    rewrite G in Hi.
    rewrite reregister_all_mon.
    + assert (mem_nat i (pool_monitors (get_trainer s1 ti)) = true) by (apply mem_nat_In, pool_monitors_In; auto).
      rewrite H. destruct (get_mon s1 i); reflexivity.
    + intros j Hj. apply pool_monitors_In in Hj. rewrite Pm in Hj. apply (P ti); auto.
  - destruct (deregister_all_trainers (pool_monitors (get_trainer s1 ti)) s1) as (Tr & _).
    assert (G : get_trainer (deregister_all (pool_monitors (get_trainer s1 ti)) s1) = get_trainer s1)
      by (unfold get_trainer at 1 3; rewrite Tr; reflexivity).
    rewrite G in Ht, Hi. unfold s1 in Ht.
    rewrite get_trainer_upd in Ht. destruct (Nat.eqb ti ti && Nat.ltb ti (length (trainers s))) eqn:Eb.
    + simpl in Ht. discriminate.
    + rewrite Pm in Hi.
      apply andb_false_iff in Eb as [Eb|Eb]; [rewrite Nat.eqb_refl in Eb; discriminate|].
      apply Nat.ltb_ge in Eb. rewrite dummy_trainer_oob in Hi by auto. destruct Hi.
Qed.

Lemma Complete_mons_same_reg s s' :
  trainers s' = trainers s -> (forall j, m_reg (get_mon s' j) = m_reg (get_mon s j)) -> Complete s -> Complete s'.
Proof. intros Tr M C k i. unfold get_trainer. rewrite Tr. rewrite M. apply C. Qed.

Lemma step_raw_Complete w s o s' r :
  op_enabled s o = true -> safe_op s o = true -> step_raw w s o = (s', r) -> Inv1 s -> TI s -> Complete s -> Complete s'.
Proof.
  destruct o; simpl; intros En Safe E I T C.
  - eapply register_cell_Complete; eauto.
  - eapply del_cell_Complete; eauto.
  - eapply add_monitor_Complete; eauto.
  - eapply pool_del_monitor_Complete; eauto.
  - inversion E; subst. apply trainer_mode_Complete; auto.
  - inversion E; subst. eapply Complete_mons_same_reg; [| |exact C]; reflexivity.
  - destruct I as [H _]. destruct (Nat.lt_ge_cases l (length (layers s))) as [Hl|Hl].
    + destruct (layer_step_frame _ _ _ _ H Hl E) as (Tr & _).
      eapply Complete_mons_same_reg; [exact Tr| |exact C]. intros j.
      destruct (layer_step_at_most_once _ _ _ _ H Hl E j) as [->|(_ & rd & ->)]; auto.
    + unfold layer_step in E. rewrite upd_layer_oob in E by auto. unfold get_layer in E. rewrite nth_overflow in E by auto.
      simpl in E. inversion E; subst. exact C.
  - unfold trainer_step in E. apply trainer_cells_step_frame in E as (A & B & Cm & D).
    eapply Complete_mons_same_reg; [exact B| |exact C]. intros j. unfold get_mon. rewrite Cm. reflexivity.
  - inversion E; subst. eapply Complete_mons_same_reg; [apply clear_all_others| |exact C].
    intros j. rewrite clear_all_mon. destruct (mem_nat j (pool_monitors (get_trainer s t))); auto.
  - inversion E; subst. intros k i. rewrite get_trainer_upd. change (get_mon _ i) with (get_mon s i).
    destruct (Nat.eqb t k && Nat.ltb t (length (trainers s))); [intros _ []|apply C].
Qed.

Lemma collect_Complete s : TI s -> Complete s -> Complete (collect s).
Proof.
  intros T C k i. unfold collect, prune_cmon.
  destruct (collect_from_mon (length (mons s)) 0 s i) as (M & Tr & _).
  match goal with |- context [set_cmon ?c ?x] =>
    change (get_trainer (set_cmon c x) k) with (get_trainer x k); change (get_mon (set_cmon c x) i) with (get_mon x i) end.
  unfold get_trainer. rewrite Tr. fold (get_trainer s k). intros Ht Hi. rewrite M.
  assert (R : referenced s i = true).
  { apply referenced_spec. exists k. split; auto. destruct T as (_ & T2 & _).
    destruct (t_alive (get_trainer s k)) eqn:E; auto. destruct (T2 k E) as [Pe _]. unfold pool_mids in Hi. rewrite Pe in Hi. destruct Hi. }
  rewrite R, andb_false_r. apply (C k i); auto.
Qed.

(* ------------------------------------------------------------------ good runs *)
(* every operation of the sequence is `safe` in the state it is issued in *)
Fixpoint safe_run (w : world) (s : state) (ops : list op) : bool :=
  match ops with
  | [] => true
  | o :: tl => safe_op s o && safe_run w (fst (step w s o)) tl
  end.

Theorem step_Complete w s o : safe_op s o = true -> Inv1 s -> TI s -> Complete s -> Complete (fst (step w s o)).
Proof.
  intros Safe I T C. unfold step. destruct (op_enabled s o) eqn:En; [|exact C].
  destruct (step_raw w s o) as [s1 r] eqn:E. simpl. apply collect_Complete.
  - eapply step_raw_TI; eauto.
  - eapply step_raw_Complete; eauto.
Qed.

Theorem run_Complete w ops : forall s,
  safe_run w s ops = true -> Inv1 s -> TI s -> Complete s -> Complete (run w s ops).
Proof.
  induction ops as [|o tl IH]; simpl; intros s Safe I T C; auto.
  apply andb_true_iff in Safe as [S1 S2]. apply IH; auto.
  - apply step_Inv1; auto.
  - apply step_TI; auto.
  - apply step_Complete; auto.
Qed.

(* ------------------------------------------------------------------ one observation per training step *)
(* In a state reached by a safe operation sequence, a layer call that does not raise gives every monitor of every
   registered cell of that layer, of every live trainer, exactly one new observation (stamped with the new step
   count) if the trainer and the layer are both in training mode - and leaves it untouched otherwise. *)
Theorem one_obs_per_training_step_partial w tys ops l s' t cn mn i c :
  safe_run w (init_state w tys) ops = true ->
  let s := run w (init_state w tys) ops in
  layer_step s l = (s', None) -> l < length (layers s) ->
  In (cn, mn, i) (pool_named (get_trainer s t)) -> alookup cn (t_cells (get_trainer s t)) = Some c -> cell_layer c = l ->
  if t_training (get_trainer s t) && l_training (get_layer s l)
  then exists rd, get_mon s' i = add_obs (S (l_steps (get_layer s l)), rd) (get_mon s i)
  else get_mon s' i = get_mon s i.
Proof.
  intros Safe s E Hl Hin Hc Hlay.
  destruct (run_TI w ops (init_state w tys) (Inv1_init w tys) (TI_init w tys)) as [I T]. fold s in I, T.
  pose proof (run_Complete w ops _ Safe (Inv1_init w tys) (TI_init w tys) (Complete_init w tys)) as C. fold s in C.
  destruct I as [H P]. pose proof T as (_ & _ & T3 & _ & T5 & _).
  assert (Hm : In i (pool_mids (get_trainer s t))) by (apply pool_mids_named; eauto).
  destruct (T3 t cn mn i c Hin Hc) as [_ Lay].
  pose proof (layer_step_exactly_once _ _ _ H Hl E i (P t i Hm)) as X. unfold records in X.
  rewrite Lay, Hlay, Nat.eqb_refl in X.
  destruct (t_training (get_trainer s t)) eqn:Et.
  - rewrite (C t i Et Hm) in X. simpl in *. exact X.
  - simpl. destruct (m_reg (get_mon s i)) eqn:Er; [rewrite (T5 t i Hm Er) in Et; discriminate|]. simpl in X. exact X.
Qed.

(* ------------------------------------------------------------------ "and none otherwise": only layer calls record *)
Lemma step_raw_quiet w s o s' r :
  (forall l, o <> LayerStep l) -> step_raw w s o = (s', r) -> Inv1 s -> quiet s s'.
Proof.
  destruct o; simpl; intros NL E I.
  - eapply register_cell_Inv1; eauto.
  - eapply del_cell_Inv1; eauto.
  - eapply add_monitor_Inv1; eauto.
  - eapply pool_del_monitor_Inv1; eauto.
  - inversion E; subst. apply trainer_mode_Inv1; auto.
  - inversion E; subst. apply quiet_upd_hooks. reflexivity.
  - exfalso. apply (NL l). reflexivity.
  - unfold trainer_step in E. apply trainer_cells_step_frame in E as (A & B & C & D). apply quiet_ext; auto.
  - inversion E; subst. apply clear_all_quiet.
  - inversion E; subst. apply quiet_upd_trainer.
Qed.

(* No operation other than a layer call adds, removes or alters a recorded observation of any existing monitor
   (clear() resets the reducer - modelled by the `fresh` flag - but the ghost log of reducer calls is untouched). *)
Theorem only_layer_calls_record w tys s o i :
  reachable w tys s -> (forall l, o <> LayerStep l) -> i < length (mons s) ->
  m_obs (get_mon (fst (step w s o)) i) = m_obs (get_mon s i).
Proof.
  intros R NL Hi. destruct (reachable_inv _ _ _ R) as [I T]. unfold step.
  destruct (op_enabled s o); [|reflexivity]. destruct (step_raw w s o) as [s1 r] eqn:E. simpl.
  pose proof (step_raw_quiet _ _ _ _ _ NL E I) as (L1 & Q1 & _).
  assert (I1 : Inv1 s1) by (eapply step_raw_Inv1; eauto).
  destruct (collect_Inv1 s1 I1) as [_ (L2 & Q2 & _)].
  destruct (Q2 i) as (_ & _ & _ & _ & _ & O2); [lia|]. rewrite O2.
  destruct (Q1 i Hi) as ((_ & _ & _ & _ & _ & O1) & _). exact O1.
Qed.

(* ------------------------------------------------------------------ whole histories *)
(* number of calls of layer l, in the sequence, made while trainer t and layer l are both in training mode *)
Fixpoint training_steps (w : world) (s : state) (ops : list op) (t l : nat) : nat :=
  match ops with
  | [] => 0
  | o :: tl =>
      (match o with
       | LayerStep l' => if Nat.eqb l' l && t_training (get_trainer s t) && l_training (get_layer s l) then 1 else 0
       | _ => 0
       end) + training_steps w (fst (step w s o)) tl t l
  end.
(* monitor i stays in trainer t's pool throughout, and no layer call raises *)
Fixpoint persists (w : world) (s : state) (ops : list op) (t i : nat) : Prop :=
  In i (pool_mids (get_trainer s t)) /\
  match ops with
  | [] => True
  | o :: tl => (forall l, o = LayerStep l -> snd (step w s o) = None) /\ persists w (fst (step w s o)) tl t i
  end.

Lemma classic_layer_step o : (exists l, o = LayerStep l) \/ (forall l, o <> LayerStep l).
Proof. destruct o; try (right; intros l0; discriminate). left. eexists; reflexivity. Qed.

Lemma step_obs_layer w s o i :
  Inv1 s -> i < length (mons s) ->
  m_layer (get_mon (fst (step w s o)) i) = m_layer (get_mon s i) /\
  ((forall l, o <> LayerStep l) -> m_obs (get_mon (fst (step w s o)) i) = m_obs (get_mon s i)).
Proof.
  intros I Hi. unfold step. destruct (op_enabled s o); [|auto]. destruct (step_raw w s o) as [s1 r] eqn:E. simpl.
  assert (I1 : Inv1 s1) by (eapply step_raw_Inv1; eauto).
  destruct (collect_Inv1 s1 I1) as [_ (L2 & Q2 & _)].
  assert (Hi1 : i < length (mons s1) /\ m_layer (get_mon s1 i) = m_layer (get_mon s i) /\
                ((forall l, o <> LayerStep l) -> m_obs (get_mon s1 i) = m_obs (get_mon s i))).
  { destruct (classic_layer_step o) as [[l ->]|NL].
    - simpl in E. destruct I as [H P]. destruct (Nat.lt_ge_cases l (length (layers s))) as [Hl|Hl].
      + destruct (layer_step_frame _ _ _ _ H Hl E) as (_ & _ & _ & L & _). split; [lia|].
        destruct (layer_step_at_most_once _ _ _ _ H Hl E i) as [->|(_ & rd & ->)].
        * split; auto.
        * split; [destruct (add_obs_core (S (l_steps (get_layer s l)), rd) (get_mon s i)) as (A & _); exact A|].
          intros NL. exfalso. apply (NL l); auto.
      + unfold layer_step in E. rewrite upd_layer_oob in E by auto. unfold get_layer in E. rewrite nth_overflow in E by auto.
        simpl in E. inversion E; subst. auto.
    - pose proof (step_raw_quiet _ _ _ _ _ NL E I) as (L1 & Q1 & _). split; [lia|].
      destruct (Q1 i Hi) as ((A & _ & _ & _ & _ & O1) & _). auto. }
  destruct Hi1 as (Hi1 & Lay1 & Obs1).
  destruct (Q2 i Hi1) as (A & _ & _ & _ & _ & O2). rewrite A, O2. auto.
Qed.

Lemma step_layer_obs_count w s l t i :
  Inv1 s -> TI s -> Complete s -> In i (pool_mids (get_trainer s t)) -> snd (step w s (LayerStep l)) = None ->
  m_layer (get_mon s i) < length (layers s) ->
  length (m_obs (get_mon (fst (step w s (LayerStep l))) i)) =
  length (m_obs (get_mon s i)) +
  (if Nat.eqb l (m_layer (get_mon s i)) && t_training (get_trainer s t) && l_training (get_layer s (m_layer (get_mon s i)))
   then 1 else 0).
Proof.
  intros I T C Hin Hr Hlay. pose proof I as [H P]. pose proof (P t i Hin) as Hi. unfold step in *. simpl in *.
  destruct (layer_step s l) as [s1 r] eqn:E. simpl in *. subst r.
  assert (I1 : Inv1 s1) by (eapply layer_step_Inv1; eauto).
  destruct (collect_Inv1 s1 I1) as [_ (L2 & Q2 & _)].
  destruct (Nat.lt_ge_cases l (length (layers s))) as [Hl|Hl].
  - destruct (layer_step_frame _ _ _ _ H Hl E) as (_ & _ & _ & L & _).
    destruct (Q2 i) as (_ & _ & _ & _ & _ & O2); [lia|]. rewrite O2.
    pose proof (layer_step_exactly_once _ _ _ H Hl E i Hi) as X. unfold records in X.
    pose proof T as (_ & _ & _ & _ & T5 & _).
    assert (RT : m_reg (get_mon s i) = t_training (get_trainer s t)).
    { destruct (t_training (get_trainer s t)) eqn:Et; [apply (C t i); auto|].
      destruct (m_reg (get_mon s i)) eqn:Er; auto. rewrite (T5 t i Hin Er) in Et. discriminate. }
    rewrite RT in X. rewrite (Nat.eqb_sym l).
    destruct (Nat.eqb (m_layer (get_mon s i)) l) eqn:El.
    + apply Nat.eqb_eq in El. rewrite El. rewrite andb_true_r in X. rewrite andb_true_l.
      destruct (t_training (get_trainer s t) && l_training (get_layer s l)).
      * destruct X as [rd ->]. destruct (add_obs_core (S (l_steps (get_layer s l)), rd) (get_mon s i)) as (_ & _ & _ & _ & O & _).
        rewrite O. simpl. lia.
      * rewrite X. lia.
    + rewrite andb_false_r in X. simpl in X. rewrite X. simpl. lia.
  - assert (Es : s1 = s).
    { unfold layer_step in E. rewrite upd_layer_oob in E by auto. unfold get_layer in E. rewrite nth_overflow in E by auto.
      simpl in E. inversion E; auto. }
    rewrite Es in *.
    destruct (Q2 i Hi) as (_ & _ & _ & _ & _ & O2). rewrite O2.
    assert (El : Nat.eqb l (m_layer (get_mon s i)) = false) by (apply Nat.eqb_neq; lia). rewrite El. simpl. lia.
Qed.

(* For every safe operation sequence started in a state reached by a safe sequence: as long as monitor i stays in
   trainer t's pool and no layer call raises, the number of observations it records over the sequence is exactly the
   number of calls of its layer made while the trainer and the layer were both in training mode. *)
Theorem obs_count_is_training_steps w ops : forall s t i,
  Inv1 s -> TI s -> Complete s -> safe_run w s ops = true -> persists w s ops t i ->
  m_layer (get_mon s i) < length (layers s) ->
  length (m_obs (get_mon (run w s ops) i)) =
  length (m_obs (get_mon s i)) + training_steps w s ops t (m_layer (get_mon s i)).
Proof.
  induction ops as [|o tl IH]; simpl; intros s t i I T C Safe Per Hlay; [lia|].
  apply andb_true_iff in Safe as [S1 S2]. destruct Per as (Hin & Hok & Per).
  pose proof I as [_ P]. pose proof (P t i Hin) as Hi.
  destruct (step_obs_layer w s o i I Hi) as [Lay Obs].
  assert (LL : length (layers (fst (step w s o))) = length (layers s)).
  { unfold step. destruct (op_enabled s o); auto. destruct (step_raw w s o) as [s1 r] eqn:E. cbn [fst].
    assert (I1 : Inv1 s1) by (eapply step_raw_Inv1; eauto).
    destruct (collect_Inv1 s1 I1) as [_ (_ & _ & _ & LL2 & _)]. rewrite LL2.
    destruct (classic_layer_step o) as [[l ->]|NL].
    - simpl in E. destruct I as [H _]. destruct (Nat.lt_ge_cases l (length (layers s))) as [Hl|Hl].
      + destruct (layer_step_frame _ _ _ _ H Hl E) as (_ & _ & _ & _ & A & _). exact A.
      + unfold layer_step in E. rewrite upd_layer_oob in E by auto. unfold get_layer in E. rewrite nth_overflow in E by auto.
        simpl in E. inversion E; subst. reflexivity.
    - pose proof (step_raw_quiet _ _ _ _ _ NL E I) as (_ & _ & _ & A & _). exact A. }
  rewrite (IH (fst (step w s o)) t i); auto.
  - rewrite Lay. destruct (classic_layer_step o) as [[l ->]|NL].
    + rewrite (step_layer_obs_count w s l t i); auto; [lia|apply (Hok l); reflexivity].
    + rewrite (Obs NL). destruct o; try lia. exfalso. apply (NL l). reflexivity.
  - apply step_Inv1; auto.
  - apply step_TI; auto.
  - apply step_Complete; auto.
  - rewrite Lay, LL. exact Hlay.
Qed.
