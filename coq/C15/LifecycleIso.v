(* C15 - isolation: the operations of one trainer change neither another trainer nor any monitor in another
   trainer's pool (registration, freshness, recorded observations all unchanged) - axiom-free. *)
From Coq Require Import List ZArith Bool Arith Lia.
From Inferno Require Import C15.Lifecycle C15.LifecycleLemmas C15.LifecycleProofs C15.LifecycleTI.
Import ListNotations.

Definition Frame (ti : nat) (s s' : state) : Prop :=
  length (mons s) <= length (mons s') /\
  (forall k, k <> ti -> get_trainer s' k = get_trainer s k) /\
  (forall j, j < length (mons s) -> ~ In j (pool_mids (get_trainer s ti)) -> get_mon s' j = get_mon s j) /\
  (forall j, In j (pool_mids (get_trainer s' ti)) -> In j (pool_mids (get_trainer s ti)) \/ length (mons s) <= j) /\
  (forall l, l_training (get_layer s' l) = l_training (get_layer s l)).

Lemma Frame_refl ti s : Frame ti s s.
Proof. unfold Frame. repeat split; auto. Qed.

Lemma Frame_trans ti a b c : Frame ti a b -> Frame ti b c -> Frame ti a c.
Proof.
  intros (A1 & A2 & A3 & A4 & A5) (B1 & B2 & B3 & B4 & B5). split; [lia|]. split; [|split; [|split]].
  - intros k N. rewrite B2, A2; auto.
  - intros j Hj N. rewrite B3; [apply A3; auto|lia|].
    intros K. apply A4 in K as [K|K]; [auto|lia].
  - intros j H. apply B4 in H as [H|H]; [apply A4 in H as [H|H]; auto|right; lia].
  - intros l. rewrite B5. apply A5.
Qed.

Lemma Frame_upd_trainer ti f s :
  (forall j, In j (pool_mids (f (get_trainer s ti))) -> In j (pool_mids (get_trainer s ti))) -> Frame ti s (upd_trainer ti f s).
Proof.
  intros Hf. split; [simpl; lia|]. split; [|split; [|split]]; auto.
  - intros k N. apply get_trainer_upd_other; auto.
  - intros j H. left. rewrite get_trainer_upd in H.
    destruct (Nat.eqb ti ti && Nat.ltb ti (length (trainers s))); auto.
Qed.

Lemma Frame_cmon ti c s : Frame ti s (set_cmon c s).
Proof. unfold Frame. repeat split; auto. Qed.

Lemma Frame_deregister ti i s : In i (pool_mids (get_trainer s ti)) \/ length (mons s) <= i -> Frame ti s (deregister i s).
Proof.
  intros Hi. destruct (deregister_others i s) as (Tr & _).
  assert (G : get_trainer (deregister i s) = get_trainer s) by (unfold get_trainer; rewrite Tr; auto).
  split; [rewrite deregister_length; lia|]. rewrite G. split; [auto|]. split; [|split; [auto|]].
  - intros j Hj N. rewrite deregister_mon. destruct (Nat.eqb i j) eqn:E; auto.
    apply Nat.eqb_eq in E; subst j. destruct Hi; [tauto|lia].
  - intros l. apply deregister_layer_flags.
Qed.

Lemma Frame_deregister_all ti l : forall s,
  (forall i, In i l -> In i (pool_mids (get_trainer s ti))) -> Frame ti s (deregister_all l s).
Proof.
  induction l as [|i tl IH]; simpl; intros s Hl; [apply Frame_refl|].
  eapply Frame_trans; [apply Frame_deregister; left; apply Hl; auto|]. apply IH.
  intros j Hj. destruct (deregister_others i s) as (Tr & _). unfold get_trainer. rewrite Tr. apply Hl; auto.
Qed.

Lemma Frame_reregister_all ti l : forall s,
  (forall i, In i l -> In i (pool_mids (get_trainer s ti)) /\ i < length (mons s)) -> Frame ti s (reregister_all l s).
Proof.
  induction l as [|i tl IH]; simpl; intros s Hl; [apply Frame_refl|].
  assert (Tr : trainers (reregister i s) = trainers s) by (unfold reregister; destruct (m_reg (get_mon s i)); auto).
  assert (G : get_trainer (reregister i s) = get_trainer s) by (unfold get_trainer; rewrite Tr; auto).
  eapply Frame_trans; [|apply IH].
  - split; [rewrite reregister_length; lia|]. rewrite G. split; [auto|]. split; [|split; [auto|]].
    + intros j Hj N. destruct (Hl i (or_introl eq_refl)) as [Hi1 Hi2]. rewrite reregister_mon by auto.
      destruct (Nat.eqb i j) eqn:E; auto. apply Nat.eqb_eq in E; subst j. tauto.
    + intros l. unfold reregister. destruct (m_reg (get_mon s i)); auto. apply do_register_layer_flags.
  - intros j Hj. rewrite G, reregister_length. apply Hl; auto.
Qed.

Lemma Frame_clear_all ti l s :
  (forall i, In i l -> In i (pool_mids (get_trainer s ti))) -> Frame ti s (clear_all l s).
Proof.
  intros Hl. destruct (clear_all_others l s) as (La & Tr & _).
  assert (G : get_trainer (clear_all l s) = get_trainer s) by (unfold get_trainer; rewrite Tr; auto).
  pose proof (clear_all_quiet l s) as (L & _).
  split; [exact L|]. rewrite G. split; [auto|]. split; [|split; [auto|]].
  - intros j Hj N. rewrite clear_all_mon. destruct (mem_nat j l) eqn:E; auto. apply mem_nat_In in E. apply Hl in E. tauto.
  - intros k. unfold get_layer. rewrite La. reflexivity.
Qed.

Lemma Frame_new_monitor ti lay attr tg pre reads s s' i :
  new_monitor lay attr tg pre reads s = (s', i) -> Frame ti s s'.
Proof.
  intros E. destruct (new_monitor_spec _ _ _ _ _ _ _ _ E) as (Ei & L & Tr & Cm & Ac & LL & Old & New & Ls & _).
  assert (G : get_trainer s' = get_trainer s) by (unfold get_trainer; rewrite Tr; auto).
  split; [lia|]. rewrite G. split; [auto|]. split; [|split; [auto|]].
  - intros j Hj _. apply Old; auto.
  - intros l. apply Ls.
Qed.

(* MonitorPool.add_monitor *)
Lemma pool_add_monitor_Frame s ti cn sp s' r :
  pool_add_monitor s ti cn sp = (s', r) -> Inv1 s -> TI s -> Frame ti s s'.
Proof.
  unfold pool_add_monitor. intros E I T.
  destruct (alookup cn (t_observed (get_trainer s ti))) as [cell|] eqn:Ec; [|inversion E; subst; apply Frame_refl].
  set (existing := pool_get (get_trainer s ti) cn (sp_name sp)) in *.
  set (s0 := match existing with
             | Some _ => upd_trainer ti (pool_del_entry cn (sp_name sp)) s
             | None => s
             end) in *.
  assert (F0 : Frame ti s s0).
  { unfold s0. destruct existing; [|apply Frame_refl]. apply Frame_upd_trainer. intros j. apply pool_del_entry_mids. }
  assert (K0 : keys_ok (get_trainer s0 ti)).
  { unfold s0. destruct T as (T1 & _). destruct existing; auto. rewrite get_trainer_upd.
    destruct (Nat.eqb ti ti && Nat.ltb ti (length (trainers s))); auto. apply keys_ok_del_entry; auto. }
  assert (MAIN : (let t0 := get_trainer s0 ti in
                  match observable_add_monitor s0 cell sp (if sp_unique sp then None else Some (pool_view t0)) with
                  | None => (s0, Some ERuntime)
                  | Some (s1, i) =>
                      let s2 := if t_training t0 then s1 else deregister i s1 in
                      (upd_trainer ti (pool_put cn (sp_name sp) i) s2, None)
                  end) = (s', r) -> Frame ti s s').
  { clear E. cbv zeta. intros E.
    destruct (observable_add_monitor s0 cell sp (if sp_unique sp then None else Some (pool_view (get_trainer s0 ti))))
      as [[s1 i]|] eqn:Eo; [|inversion E; subst; auto].
    inversion E; subst; clear E. eapply Frame_trans; [exact F0|].
    (* the returned monitor is new or already in this trainer's pool *)
    assert (S1 : Frame ti s0 s1 /\ trainers s1 = trainers s0 /\
                 (In i (pool_mids (get_trainer s0 ti)) \/ length (mons s0) <= i)).
    { apply observable_add_monitor_cases in Eo as (attr & _ & [(tg & sN & En & -> & _)|(p & Ep & Ea & ->)]).
      - destruct (new_monitor_spec _ _ _ _ _ _ _ _ En) as (Ei & L & Tr & _).
        split; [eapply Frame_trans; [eapply Frame_new_monitor; eauto|apply Frame_cmon]|]. split; [exact Tr|]. right. lia.
      - destruct (sp_unique sp); [discriminate|]. inversion Ep; subst p.
        apply alias_in_pool in Ea as (cn' & obs & H1 & _); auto.
        split; [apply Frame_cmon|]. split; [reflexivity|]. left. apply pool_mids_named. eauto. }
    destruct S1 as (F1 & Tr1 & Hi).
    assert (G1 : get_trainer s1 = get_trainer s0) by (unfold get_trainer; rewrite Tr1; auto).
    set (s2 := if t_training (get_trainer s0 ti) then s1 else deregister i s1).
    assert (Tr2 : trainers s2 = trainers s0).
    { unfold s2. destruct (t_training (get_trainer s0 ti)); auto. destruct (deregister_others i s1) as (A & _). congruence. }
    assert (G2 : get_trainer s2 = get_trainer s0) by (unfold get_trainer; rewrite Tr2; auto).
    destruct F1 as (L1 & _ & M1 & _ & Lf1).
    assert (M2 : forall j, j < length (mons s0) -> ~ In j (pool_mids (get_trainer s0 ti)) -> get_mon s2 j = get_mon s0 j).
    { intros j Hj N. unfold s2. destruct (t_training (get_trainer s0 ti)); [apply M1; auto|].
      rewrite deregister_mon. destruct (Nat.eqb i j) eqn:E2; [|apply M1; auto].
      apply Nat.eqb_eq in E2; subst j. destruct Hi; [tauto|lia]. }
    assert (L2 : length (mons s0) <= length (mons s2)).
    { unfold s2. destruct (t_training (get_trainer s0 ti)); auto. rewrite deregister_length. auto. }
    assert (Lf2 : forall l, l_training (get_layer s2 l) = l_training (get_layer s0 l)).
    { intros l. unfold s2. destruct (t_training (get_trainer s0 ti)); auto.
      destruct (deregister_layer_flags i s1 l) as [A _]. rewrite A. auto. }
    split; [simpl; exact L2|]. split; [|split; [|split]].
    - intros k N. rewrite get_trainer_upd_other by auto. rewrite G2. reflexivity.
    - intros j Hj N. change (get_mon (upd_trainer ti (pool_put cn (sp_name sp) i) s2) j) with (get_mon s2 j). apply M2; auto.
    - intros j H. rewrite get_trainer_upd in H. rewrite G2 in H.
      destruct (Nat.eqb ti ti && Nat.ltb ti (length (trainers s2))); auto.
      apply pool_put_mids in H as [->|H]; auto.
    - intros l. change (get_layer (upd_trainer ti (pool_put cn (sp_name sp) i) s2) l) with (get_layer s2 l). apply Lf2. }
  destruct existing as [k|] eqn:Ex; destruct (sp_unique sp) eqn:Eu; auto.
  inversion E; subst; apply Frame_refl.
Qed.

Lemma add_specs_Frame sps : forall s ti cn s' r,
  add_specs s ti cn sps = (s', r) -> Inv1 s -> TI s -> Frame ti s s'.
Proof.
  induction sps as [|sp tl IH]; simpl; intros s ti cn s' r E I T.
  - inversion E; subst. apply Frame_refl.
  - destruct (pool_add_monitor s ti cn sp) as [s1 [e|]] eqn:Ep.
    + inversion E; subst. eapply pool_add_monitor_Frame; eauto.
    + eapply Frame_trans; [eapply pool_add_monitor_Frame; eauto|].
      eapply IH; [exact E| |].
      * eapply pool_add_monitor_Inv1; eauto.
      * eapply pool_add_monitor_TI; eauto.
Qed.

Lemma pool_del_observed_Frame ti cn s : Frame ti s (pool_del_observed ti cn s).
Proof.
  unfold pool_del_observed.
  set (s1 := match alookup cn (t_pool (get_trainer s ti)) with
             | Some g => upd_trainer ti (fun t => set_pool (adel cn (t_pool t)) t) (deregister_all (map snd g) s)
             | None => s
             end).
  assert (F1 : Frame ti s s1).
  { unfold s1. destruct (alookup cn (t_pool (get_trainer s ti))) as [g|] eqn:Eg; [|apply Frame_refl].
    apply Frame_trans with (b := deregister_all (map snd g) s).
    - apply Frame_deregister_all. intros i Hi. apply in_map_iff in Hi as [[mn j] [E1 E2]]. simpl in E1; subst j.
      apply pool_mids_In. exists cn, g, mn. split; auto. apply alookup_In; auto.
    - apply Frame_upd_trainer. intros j. rewrite !pool_mids_In. intros (c & g' & m & A & B). simpl in A.
      apply In_adel_weak in A. eauto. }
  eapply Frame_trans; [exact F1|]. apply Frame_upd_trainer. auto.
Qed.

Lemma register_cell_Frame w s ti cn c hp s' r :
  register_cell w s ti cn c hp = (s', r) -> t_alive (get_trainer s ti) = true -> Inv1 s -> TI s -> Frame ti s s'.
Proof.
  unfold register_cell. intros E Hal I T.
  destruct (amem cn (t_cells (get_trainer s ti))) eqn:Em; [inversion E; subst; apply Frame_refl|].
  rewrite (pool_del_observed_absent _ _ _ T Em) in E.
  set (s2 := upd_trainer ti (fun t => set_cells (aset cn c (t_cells t)) t) s) in *.
  assert (F2 : Frame ti s s2) by (apply Frame_upd_trainer; auto).
  destruct (amem cn (t_observed (get_trainer s2 ti))) eqn:E1; [inversion E; subst; auto|].
  destruct (amem cn (t_pool (get_trainer s2 ti))) eqn:E2; [inversion E; subst; auto|].
  set (s3 := upd_trainer ti (fun t => set_observed (aset cn c (t_observed t)) t) s2) in *.
  assert (F3 : Frame ti s s3) by (eapply Frame_trans; [exact F2|apply Frame_upd_trainer; auto]).
  (* Inv1 / TI of s3: re-run the registration up to s3 through the TI lemma by registering with no monitors *)
  assert (I3 : Inv1 s3) by (unfold s3, s2; apply Inv1_trainers_only; auto; apply Inv1_trainers_only; auto).
  assert (T3 : TI s3).
  { (* s3 is what register_cell yields before add_specs: reuse register_cell_TI's argument on an empty spec list *)
    pose proof T as (T1 & T2 & T3 & T4 & T5 & T6). destruct (T1 ti) as (A & B & C & D).
    assert (Nc : ~ In cn (map fst (t_cells (get_trainer s ti)))) by (intros K; apply amem_In in K; congruence).
    set (g := fun t : trainer => set_observed (aset cn c (t_observed t)) (set_cells (aset cn c (t_cells t)) t)).
    assert (Eq : s3 = upd_trainer ti g s).
    { unfold s3, s2, upd_trainer, set_trainers. simpl. rewrite upd_upd. reflexivity. }
    rewrite Eq.
    assert (G : forall k, get_trainer (upd_trainer ti g s) k = g (get_trainer s ti) /\ k = ti \/
                          get_trainer (upd_trainer ti g s) k = get_trainer s k).
    { intros k. rewrite get_trainer_upd. destruct (Nat.eqb ti k && Nat.ltb ti (length (trainers s))) eqn:E3; auto.
      apply andb_true_iff in E3 as [E3 _]. apply Nat.eqb_eq in E3. auto. }
    unfold TI. change (mons (upd_trainer ti g s)) with (mons s). change (get_mon (upd_trainer ti g s)) with (get_mon s).
    split; [|split; [|split; [|split; [|split]]]].
    - intros k. destruct (G k) as [[-> _]| -> ]; auto. unfold g, keys_ok; simpl.
      split; [apply NoDup_keys_aset; auto|]. split; [rewrite B; reflexivity|]. split; [exact C|].
      intros c' g' H. destruct (D c' g' H) as [K1 K2]. split; auto. apply keys_aset. auto.
    - intros k. destruct (G k) as [[-> ->]| -> ]; auto. unfold g; simpl. rewrite Hal. discriminate.
    - intros k c' m j c0. destruct (G k) as [[-> ->]| -> ]; [|apply T3].
      change (pool_named (g (get_trainer s ti))) with (pool_named (get_trainer s ti)). unfold g; simpl.
      intros H1 H2. apply (T3 ti c' m j c0); auto. rewrite alookup_aset_other in H2; auto.
      intros ->. apply Nc. apply pool_named_In in H1 as (g' & H1 & _). apply (D cn g' H1).
    - intros t1 t2 j. destruct (G t1) as [[-> ->]| -> ]; destruct (G t2) as [[-> ->]| -> ]; intros H1 H2.
      + reflexivity.
      + apply (T4 ti t2 j); auto.
      + apply (T4 t1 ti j); auto.
      + apply (T4 t1 t2 j); auto.
    - intros k j. destruct (G k) as [[-> ->]| -> ]; [|apply T5]. intros H1 H2. apply (T5 ti j); auto.
    - exact T6. }
  destruct (conn_info w c) as [dt cdel].
  eapply Frame_trans; [exact F3|]. eapply add_specs_Frame; eauto.
Qed.

Lemma del_cell_Frame s ti cn s' r : del_cell s ti cn = (s', r) -> Frame ti s s'.
Proof.
  unfold del_cell. intros E. destruct (negb (amem cn (t_cells (get_trainer s ti)))); inversion E; subst; [apply Frame_refl|].
  eapply Frame_trans; [apply pool_del_observed_Frame|apply Frame_upd_trainer; auto].
Qed.

Lemma add_monitor_Frame s ti cn sp s' r : add_monitor s ti cn sp = (s', r) -> Inv1 s -> TI s -> Frame ti s s'.
Proof.
  unfold add_monitor. intros E I T. destruct (negb (amem cn (t_cells (get_trainer s ti)))); [inversion E; subst; apply Frame_refl|].
  eapply pool_add_monitor_Frame; eauto.
Qed.

Lemma pool_del_monitor_Frame s ti cn mn s' r : pool_del_monitor s ti cn mn = (s', r) -> Frame ti s s'.
Proof.
  unfold pool_del_monitor. intros E.
  destruct (alookup cn (t_pool (get_trainer s ti))) as [g|] eqn:Eg; [|inversion E; subst; apply Frame_refl].
  destruct (alookup cn (t_observed (get_trainer s ti))); [|inversion E; subst; apply Frame_refl].
  destruct (alookup mn g) as [i|] eqn:Ei; [|inversion E; subst; apply Frame_refl].
  inversion E; subst; clear E.
  assert (Hin : In i (pool_mids (get_trainer s ti))).
  { apply pool_mids_In. exists cn, g, mn. split; apply alookup_In; auto. }
  apply Frame_trans with (b := deregister i s); [apply Frame_deregister; left; exact Hin|]. apply Frame_upd_trainer.
  destruct (deregister_others i s) as (Tr & _).
  assert (G : get_trainer (deregister i s) = get_trainer s) by (unfold get_trainer; rewrite Tr; auto). rewrite G.
  intros j. rewrite !pool_mids_In. intros (c' & g' & m & A & B). simpl in A.
  destruct (adel mn g) eqn:Ed.
  - apply In_adel_weak in A. eauto.
  - apply In_aset_weak in A as [A|A]; [|eauto]. inversion A; subst. rewrite <- Ed in B. apply In_adel_weak in B.
    exists cn, g, m. split; auto. apply alookup_In; auto.
Qed.

Lemma trainer_mode_Frame s ti mode : Inv1 s -> Frame ti s (trainer_mode s ti mode).
Proof.
  intros [_ P]. unfold trainer_mode. set (s1 := upd_trainer ti (set_training mode) s).
  assert (F1 : Frame ti s s1) by (apply Frame_upd_trainer; auto).
  assert (Pm : pool_mids (get_trainer s1 ti) = pool_mids (get_trainer s ti)).
  { unfold s1. rewrite get_trainer_upd. destruct (Nat.eqb ti ti && Nat.ltb ti (length (trainers s))); auto. }
  eapply Frame_trans; [exact F1|]. destruct mode.
  - apply Frame_reregister_all. intros i Hi. apply pool_monitors_In in Hi. split; auto.
    rewrite Pm in Hi. apply (P ti) in Hi. exact Hi.
  - apply Frame_deregister_all. intros i Hi. apply pool_monitors_In in Hi. exact Hi.
Qed.

(* one raw operation of trainer ti *)
Lemma step_raw_Frame w s o s' r ti :
  op_trainer o = Some ti -> op_enabled s o = true -> step_raw w s o = (s', r) -> Inv1 s -> TI s -> Frame ti s s'.
Proof.
  destruct o; simpl; intros Eo En E I T; inversion Eo; subst.
  - eapply register_cell_Frame; eauto.
  - eapply del_cell_Frame; eauto.
  - eapply add_monitor_Frame; eauto.
  - eapply pool_del_monitor_Frame; eauto.
  - inversion E; subst. apply trainer_mode_Frame; auto.
  - unfold trainer_step in E. apply trainer_cells_step_frame in E as (A & B & C & D).
    unfold Frame, get_trainer, get_mon, get_layer. rewrite A, B, C. repeat split; auto.
  - inversion E; subst. apply Frame_clear_all. intros i Hi. apply pool_monitors_In in Hi. exact Hi.
  - inversion E; subst. apply Frame_upd_trainer. unfold kill_trainer, pool_mids; simpl. tauto.
Qed.

(* ------------------------------------------------------------------ isolation theorem *)
(* Any operation issued on trainer ti (register_cell, del_cell, add_monitor, del_monitor, train/eval, trainer call,
   clear, dropping it) - including the garbage collection that follows - leaves every OTHER live trainer k exactly
   as it was, and every monitor in k's pool exactly as it was: still registered (or not), same freshness, same
   recorded observations. *)
Theorem other_trainers_untouched w tys s o ti k :
  reachable w tys s -> op_trainer o = Some ti -> k <> ti -> t_alive (get_trainer s k) = true ->
  let s' := fst (step w s o) in
  get_trainer s' k = get_trainer s k /\
  forall j, In j (pool_mids (get_trainer s k)) -> get_mon s' j = get_mon s j.
Proof.
  intros R Eo N Hal. destruct (reachable_inv _ _ _ R) as [I T]. cbv zeta. unfold step.
  destruct (op_enabled s o) eqn:En; [|simpl; auto].
  destruct (step_raw w s o) as [s1 r] eqn:E. simpl.
  pose proof (step_raw_Frame _ _ _ _ _ _ Eo En E I T) as (L & F1 & F2 & F3 & F4).
  pose proof (step_raw_TI _ _ _ _ _ En E I T) as T1.
  unfold collect, prune_cmon.
  destruct (collect_from_mon (length (mons s1)) 0 s1 0) as (_ & Tr & _).
  assert (G : get_trainer (set_cmon (map (fun cm => (fst cm, filter (fun e => m_alive (get_mon (collect_from 0 (length (mons s1)) s1) (snd e))) (snd cm)))
                                         (cmon (collect_from 0 (length (mons s1)) s1))) (collect_from 0 (length (mons s1)) s1)) k = get_trainer s k).
  { unfold get_trainer at 1. simpl. rewrite Tr. fold (get_trainer s1 k). apply F1; auto. }
  split; [exact G|].
  intros j Hj.
  match goal with |- get_mon (set_cmon ?c ?x) j = _ => change (get_mon (set_cmon c x) j) with (get_mon x j) end.
  destruct (collect_from_mon (length (mons s1)) 0 s1 j) as (M & _). rewrite M.
  assert (R1 : referenced s1 j = true).
  { apply referenced_spec. exists k. rewrite (F1 k N). auto. }
  rewrite R1, andb_false_r.
  destruct I as [_ P]. pose proof (P k j Hj) as Hlt. apply F2; auto.
  intros K. destruct T as (_ & _ & _ & T4 & _). apply N. apply (T4 k ti j); auto.
Qed.
