(* C15 - trainer / monitor lifecycle.  Pure state-machine model (definitions only, no proofs).

   Mirrors, branch by branch:
     inferno/observe/pooling.py      Observable.add_monitor (alias search), MonitorPool.{pool, add_observed,
                                     del_observed, add_monitor, del_monitor, monitors, named_monitors}
     inferno/learn/base.py           CellTrainer.{add_cell, del_cell, add_monitor, del_monitor, train, clear},
                                     IndependentCellTrainer.__iter__
     inferno/observe/monitors.py     Monitor.register (re-registration through the weak module reference),
                                     StateMonitor / MultiStateMonitor calls
     inferno/core/infrastructure.py  Hook.register / deregister / wrapped (mode gated) hooks, finalizer
     inferno/neural/network.py       Cell.local_remap, Layer._realign_attribute
     inferno/learn/trainers/*.py     the monitor sets of the shipped trainers (register_cell)
   and torch's forward-hook list (register_forward_hook(prepend=...) = push front / push back; hooks run in
   list order after forward).

   Modelled by documented effect, not verified: CPython reference counting / weakref.  After every operation
   `collect` kills the monitors that no live trainer's pool references: their finalizer detaches the hook
   handles and their entries vanish from the WeakValueDictionary behind `cell.monitors`.  (The harness calls
   gc.collect() after every operation, so the timing is the same on both sides.)

   Everything here is over nat / Z / list: the theorems about it are axiom-free. *)
From Coq Require Import List ZArith Bool Arith.
Import ListNotations.

(* ------------------------------------------------------------------ generic list helpers *)
Fixpoint upd {A} (n : nat) (f : A -> A) (l : list A) : list A :=
  match l, n with
  | [], _ => []
  | x :: tl, O => f x :: tl
  | x :: tl, S k => x :: upd k f tl
  end.

(* insertion-ordered dictionaries with nat keys (python dict / nn.ModuleDict) *)
Fixpoint alookup {V} (k : nat) (d : list (nat * V)) : option V :=
  match d with
  | [] => None
  | (k', v) :: tl => if Nat.eqb k k' then Some v else alookup k tl
  end.
Definition amem {V} (k : nat) (d : list (nat * V)) : bool :=
  match alookup k d with Some _ => true | None => false end.
(* d[k] = v : an existing key keeps its position, a new key goes last *)
Fixpoint aset {V} (k : nat) (v : V) (d : list (nat * V)) : list (nat * V) :=
  match d with
  | [] => [(k, v)]
  | (k', v') :: tl => if Nat.eqb k k' then (k, v) :: tl else (k', v') :: aset k v tl
  end.
Fixpoint adel {V} (k : nat) (d : list (nat * V)) : list (nat * V) :=
  match d with
  | [] => []
  | (k', v') :: tl => if Nat.eqb k k' then tl else (k', v') :: adel k tl
  end.

Fixpoint remove_nat (x : nat) (l : list nat) : list nat :=
  match l with
  | [] => []
  | y :: tl => if Nat.eqb x y then remove_nat x tl else y :: remove_nat x tl
  end.
Fixpoint mem_nat (x : nat) (l : list nat) : bool :=
  match l with [] => false | y :: tl => Nat.eqb x y || mem_nat x tl end.
(* inferno._internal.unique (by identity), keeps first occurrences in order *)
Fixpoint uniq_acc (seen l : list nat) : list nat :=
  match l with
  | [] => []
  | x :: tl => if mem_nat x seen then uniq_acc seen tl else x :: uniq_acc (x :: seen) tl
  end.
Definition uniq (l : list nat) : list nat := uniq_acc [] l.

(* ------------------------------------------------------------------ identifiers and attribute paths *)
(* a dot-separated attribute is a list of identifiers *)
Inductive ident :=
| I_connection | I_connection_ | I_neuron | I_neuron_ | I_updater | I_synapse
| I_precurrent | I_prespike | I_postvoltage | I_postspike
| I_syncurrent | I_synspike | I_voltage | I_spike | I_monitors
| I_connections_ | I_neurons_ | I_cells_
| I_conn (c : nat)            (* the name of connection c of the layer *)
| I_neur (n : nat)            (* the name of neuron group n of the layer *)
| I_other (k : nat).          (* any identifier that is not an attribute of Cell *)

Definition ident_eqb (a b : ident) : bool :=
  match a, b with
  | I_connection, I_connection | I_connection_, I_connection_ | I_neuron, I_neuron | I_neuron_, I_neuron_
  | I_updater, I_updater | I_synapse, I_synapse | I_precurrent, I_precurrent | I_prespike, I_prespike
  | I_postvoltage, I_postvoltage | I_postspike, I_postspike | I_syncurrent, I_syncurrent
  | I_synspike, I_synspike | I_voltage, I_voltage | I_spike, I_spike | I_monitors, I_monitors
  | I_connections_, I_connections_ | I_neurons_, I_neurons_ | I_cells_, I_cells_ => true
  | I_conn x, I_conn y | I_neur x, I_neur y | I_other x, I_other y => Nat.eqb x y
  | _, _ => false
  end.
Fixpoint path_eqb (a b : list ident) : bool :=
  match a, b with
  | [], [] => true
  | x :: ta, y :: tb => ident_eqb x y && path_eqb ta tb
  | _, _ => false
  end.

(* a cell = (layer, connection, neuron) - Biclique creates every pair, cells are never deleted *)
Definition cellid := (nat * nat * nat)%type.
Definition cell_layer (c : cellid) : nat := fst (fst c).
Definition cell_conn (c : cellid) : nat := snd (fst c).
Definition cell_neur (c : cellid) : nat := snd c.
Definition cell_eqb (a b : cellid) : bool :=
  Nat.eqb (cell_layer a) (cell_layer b) && Nat.eqb (cell_conn a) (cell_conn b) && Nat.eqb (cell_neur a) (cell_neur b).

(* hasattr(cell, head): the attributes and properties of Cell (network.py:18-183) *)
Definition cell_hasattr (i : ident) : bool :=
  match i with
  | I_connection | I_connection_ | I_neuron | I_neuron_ | I_updater | I_synapse
  | I_precurrent | I_prespike | I_postvoltage | I_postspike | I_monitors => true
  | _ => false
  end.

Inductive rtarget := RConnection | RNeuron | RCell.

(* Cell.local_remap, network.py:50-99.  None = RuntimeError("cell does not have an attribute") *)
Definition local_remap (attr : list ident) : option (rtarget * list ident) :=
  match attr with
  | [] => Some (RCell, [])                       (* "" -> ("cell", "") *)
  | h :: rest =>
      if negb (cell_hasattr h) then None
      else
        let h1 := match h with I_connection_ => I_connection | I_neuron_ => I_neuron | x => x end in
        let chain := match h1 with
                     | I_updater => [I_connection; I_updater]
                     | I_synapse => [I_connection; I_synapse]
                     | I_precurrent => [I_connection; I_syncurrent]
                     | I_prespike => [I_connection; I_synspike]
                     | I_postvoltage => [I_neuron; I_voltage]
                     | I_postspike => [I_neuron; I_spike]
                     | x => [x]
                     end ++ rest in
        match chain with
        | I_connection :: r => Some (RConnection, r)
        | I_neuron :: r => Some (RNeuron, r)
        | r => Some (RCell, r)
        end
  end.

(* Layer._realign_attribute, network.py:421-458 (the cell exists, so none of its error branches is taken) *)
Definition layer_realign (c : cellid) (t : rtarget) (attr : list ident) : list ident :=
  match t with
  | RConnection => I_connections_ :: I_conn (cell_conn c) :: attr
  | RNeuron => I_neurons_ :: I_neur (cell_neur c) :: attr
  | RCell => I_cells_ :: I_conn (cell_conn c) :: I_neur (cell_neur c) :: attr
  end.

(* Observable.realign_attribute, pooling.py:78-98 *)
Definition realign_attribute (c : cellid) (attr : list ident) : option (list ident) :=
  match local_remap attr with
  | None => None
  | Some (t, r) => Some (layer_realign c t r)
  end.

(* ------------------------------------------------------------------ tags *)
Definition tags := list (nat * Z).
Fixpoint tags_sub (a b : tags) : bool :=
  match a with
  | [] => true
  | (k, v) :: tl => match alookup k b with Some v' => Z.eqb v v' | None => false end && tags_sub tl b
  end.
(* python dict equality (keys are unique in both) *)
Definition tags_eqb (a b : tags) : bool := Nat.eqb (length a) (length b) && tags_sub a b.
(* `tags | {"_attr": attr}` is kept as the pair (tags, attr) *)
Definition ftags := (tags * list ident)%type.
Definition ftags_eqb (a b : ftags) : bool := tags_eqb (fst a) (fst b) && path_eqb (snd a) (snd b).

(* ------------------------------------------------------------------ monitors *)
(* one recorded observation: the step stamp of the layer call, and for a monitor that reads other monitors
   through `cell.monitors.<name>.latest` what it found under each name: (monitor id, stamp of that monitor's
   newest observation) *)
Definition obs := (nat * list (nat * option nat))%type.

Record monitor := mkMon {
  m_layer : nat;                       (* module the hooks are registered on: StateMonitor / MultiStateMonitor
                                          register on the basis (the layer) *)
  m_attr : list ident;                 (* realigned (layer relative) attribute *)
  m_tags : option ftags;               (* the _tags attribute (absent on monitors created with pool=None) *)
  m_prepend : bool;
  m_reads : option (cellid * list nat * bool);   (* MultiStateMonitor over <cell>.monitors: names read, and
                                          whether its reducer raises when a read monitor has no data (strict) *)
  m_reg : bool;                        (* hook handle present *)
  m_alive : bool;
  m_fresh : bool;                      (* reducer holds no observation (peek() is None) *)
  m_obs : list obs                     (* newest first; never reset (ghost log of reducer calls) *)
}.
Definition set_reg (b : bool) (m : monitor) : monitor :=
  mkMon (m_layer m) (m_attr m) (m_tags m) (m_prepend m) (m_reads m) b (m_alive m) (m_fresh m) (m_obs m).
Definition set_dead (m : monitor) : monitor :=
  mkMon (m_layer m) (m_attr m) (m_tags m) (m_prepend m) (m_reads m) false false (m_fresh m) (m_obs m).
Definition set_fresh (b : bool) (m : monitor) : monitor :=
  mkMon (m_layer m) (m_attr m) (m_tags m) (m_prepend m) (m_reads m) (m_reg m) (m_alive m) b (m_obs m).
Definition add_obs (o : obs) (m : monitor) : monitor :=
  mkMon (m_layer m) (m_attr m) (m_tags m) (m_prepend m) (m_reads m) (m_reg m) (m_alive m) false (o :: m_obs m).
Definition dummy_mon : monitor := mkMon 0 [] None false None false false true [].

Record layer := mkLayer {
  l_training : bool;
  l_hooks : list nat;                  (* forward hooks, in calling order *)
  l_steps : nat                        (* number of calls so far *)
}.
Definition dummy_layer : layer := mkLayer true [] 0.

(* shipped trainer types (monitor sets transcribed below) *)
Inductive ttype :=
| TSTDP (delayed : bool)               (* learn.STDP and learn.MSTDP register the same monitors *)
| TMSTDPET
| TTriplet (delayed : bool)
| THomeostasis
| TDelayAdjusted                       (* DelayAdjustedSTDP / DelayAdjustedMSTDP *)
| TKernel (delayed : bool).

Record trainer := mkTrainer {
  t_type : ttype;
  t_alive : bool;
  t_training : bool;
  t_cells : list (nat * cellid);                 (* cells_ (weak values; cells never die here) *)
  t_observed : list (nat * cellid);              (* monitor_pool_.observed_ *)
  t_pool : list (nat * list (nat * nat))         (* monitor_pool_.monitors_ : cell name -> monitor name -> id *)
}.
Definition set_training (b : bool) (t : trainer) : trainer :=
  mkTrainer (t_type t) (t_alive t) b (t_cells t) (t_observed t) (t_pool t).
Definition set_cells (c : list (nat * cellid)) (t : trainer) : trainer :=
  mkTrainer (t_type t) (t_alive t) (t_training t) c (t_observed t) (t_pool t).
Definition set_observed (o : list (nat * cellid)) (t : trainer) : trainer :=
  mkTrainer (t_type t) (t_alive t) (t_training t) (t_cells t) o (t_pool t).
Definition set_pool (p : list (nat * list (nat * nat))) (t : trainer) : trainer :=
  mkTrainer (t_type t) (t_alive t) (t_training t) (t_cells t) (t_observed t) p.
Definition kill_trainer (t : trainer) : trainer := mkTrainer (t_type t) false (t_training t) [] [] [].
Definition dummy_trainer : trainer := mkTrainer THomeostasis false false [] [] [].

(* static description of the network: per layer, its connections (code of dt, has a delay) and the number
   of neuron groups *)
Definition world := list (list (Z * bool) * nat).
Definition conn_info (w : world) (c : cellid) : Z * bool :=
  nth (cell_conn c) (fst (nth (cell_layer c) w ([], 0))) (0%Z, false).

Record state := mkState {
  layers : list layer;
  trainers : list trainer;
  mons : list monitor;                           (* indexed by monitor id; append only *)
  cmon : list (cellid * list (nat * nat));       (* Observable.__monitors of every cell: name -> id *)
  accs : list (nat * nat * nat)                  (* (layer, connection, number of updates accumulated) *)
}.
Definition set_layers l s := mkState l (trainers s) (mons s) (cmon s) (accs s).
Definition set_trainers t s := mkState (layers s) t (mons s) (cmon s) (accs s).
Definition set_mons m s := mkState (layers s) (trainers s) m (cmon s) (accs s).
Definition set_cmon c s := mkState (layers s) (trainers s) (mons s) c (accs s).
Definition set_accs a s := mkState (layers s) (trainers s) (mons s) (cmon s) a.

Definition get_mon (s : state) (i : nat) : monitor := nth i (mons s) dummy_mon.
Definition get_layer (s : state) (l : nat) : layer := nth l (layers s) dummy_layer.
Definition get_trainer (s : state) (t : nat) : trainer := nth t (trainers s) dummy_trainer.
Definition upd_mon (i : nat) (f : monitor -> monitor) (s : state) : state := set_mons (upd i f (mons s)) s.
Definition upd_layer (l : nat) (f : layer -> layer) (s : state) : state := set_layers (upd l f (layers s)) s.
Definition upd_trainer (t : nat) (f : trainer -> trainer) (s : state) : state :=
  set_trainers (upd t f (trainers s)) s.
Definition set_hooks (h : list nat) (l : layer) : layer := mkLayer (l_training l) h (l_steps l).

Definition init_state (w : world) (tys : list ttype) : state :=
  mkState (map (fun _ => mkLayer true [] 0) w)
          (map (fun ty => mkTrainer ty true true [] [] []) tys)
          [] [] [].

(* cell.monitors dictionaries *)
Fixpoint cmon_get (c : cellid) (d : list (cellid * list (nat * nat))) : list (nat * nat) :=
  match d with
  | [] => []
  | (c', m) :: tl => if cell_eqb c c' then m else cmon_get c tl
  end.
Fixpoint cmon_put (c : cellid) (m : list (nat * nat)) (d : list (cellid * list (nat * nat))) :=
  match d with
  | [] => [(c, m)]
  | (c', m') :: tl => if cell_eqb c c' then (c, m) :: tl else (c', m') :: cmon_put c m tl
  end.
Definition cmon_bind (c : cellid) (name mid : nat) (s : state) : state :=
  set_cmon (cmon_put c (aset name mid (cmon_get c (cmon s))) (cmon s)) s.

(* ------------------------------------------------------------------ hooks (infrastructure.py:2805-2863) *)
(* Hook.deregister: removes the handles; safe when not registered *)
Definition deregister (i : nat) (s : state) : state :=
  let m := get_mon s i in
  if m_reg m then
    upd_mon i (set_reg false) (upd_layer (m_layer m) (fun l => set_hooks (remove_nat i (l_hooks l)) l) s)
  else s.
(* Hook.register on the monitor's module: register_forward_hook(prepend=...) *)
Definition do_register (i : nat) (s : state) : state :=
  let m := get_mon s i in
  upd_mon i (set_reg true)
    (upd_layer (m_layer m)
       (fun l => set_hooks (if m_prepend m then i :: l_hooks l else l_hooks l ++ [i]) l) s).
(* Monitor.register() without a module: only when not registered (monitors.py:179-188; the layer is alive) *)
Definition reregister (i : nat) (s : state) : state :=
  if m_reg (get_mon s i) then s else do_register i s.

(* constructor(attr, basis): a new monitor, registered at once (monitors.py:96-97) *)
Definition new_monitor (lay : nat) (attr : list ident) (tg : option ftags) (prepend : bool)
           (reads : option (cellid * list nat * bool)) (s : state) : state * nat :=
  let i := length (mons s) in
  let s1 := set_mons (mons s ++ [mkMon lay attr tg prepend reads false true true []]) s in
  (do_register i s1, i).

(* ------------------------------------------------------------------ Observable.add_monitor (pooling.py:100-168) *)
(* what the caller wants constructed *)
Record mspec := mkSpec {
  sp_name : nat;
  sp_attr : list ident;
  sp_unique : bool;
  sp_tags : tags;
  sp_prepend : bool;
  sp_reads : option (list nat * bool)            (* Some: MultiStateMonitor reading <name>.latest *)
}.

(* MonitorPool.pool (pooling.py:218-229): observed_ order, only names that have a monitor group *)
Definition pool_view (t : trainer) : list (cellid * list (nat * nat)) :=
  flat_map (fun oc => match alookup (fst oc) (t_pool t) with
                      | Some g => [(snd oc, g)]
                      | None => []
                      end) (t_observed t).

(* the search loop, lines 143-158.  `found` is threaded; returns the final `found` *)
Fixpoint alias_search (s : state) (self : cellid) (name : nat) (tg : ftags)
         (pool : list (cellid * list (nat * nat))) (found : option nat) : option nat :=
  match pool with
  | [] => found
  | (obs, monitors) :: tl =>
      (* skip invalid cells or cells from a different layer (line 145; bases are alive) *)
      if negb (Nat.eqb (cell_layer obs) (cell_layer self)) then alias_search s self name tg tl found
      else match alookup name monitors with
           | None => alias_search s self name tg tl found          (* line 149 *)
           | Some i =>
               match m_tags (get_mon s i) with
               | Some tg' =>
                   if ftags_eqb tg' tg then
                     if cell_eqb obs self then Some i                (* best match: break *)
                     else alias_search s self name tg tl (Some i)
                   else alias_search s self name tg tl found
               | None => alias_search s self name tg tl found        (* no _tags attribute *)
               end
           end
  end.

(* returns None on RuntimeError from realign_attribute (nothing changed) *)
Definition observable_add_monitor (s : state) (self : cellid) (sp : mspec)
           (pool : option (list (cellid * list (nat * nat)))) : option (state * nat) :=
  match realign_attribute self (sp_attr sp) with
  | None => None
  | Some attr =>
      let reads := match sp_reads sp with Some (ns, strict) => Some (self, ns, strict) | None => None end in
      match pool with
      | None =>
          let '(s1, i) := new_monitor (cell_layer self) attr None (sp_prepend sp) reads s in
          Some (cmon_bind self (sp_name sp) i s1, i)
      | Some p =>
          let tg := (sp_tags sp, attr) in
          match alias_search s self (sp_name sp) tg p None with
          | Some i => Some (cmon_bind self (sp_name sp) i s, i)
          | None =>
              let '(s1, i) := new_monitor (cell_layer self) attr (Some tg) (sp_prepend sp) reads s in
              Some (cmon_bind self (sp_name sp) i s1, i)
          end
      end
  end.

(* ------------------------------------------------------------------ MonitorPool (pooling.py:231-391) *)
Inductive err := ERuntime | EValue | EAttribute | EKey | EOther.

Definition pool_get (t : trainer) (observed name : nat) : option nat :=
  match alookup observed (t_pool t) with
  | Some g => alookup name g
  | None => None
  end.
Definition pool_put (observed name i : nat) (t : trainer) : trainer :=
  let g := match alookup observed (t_pool t) with Some g => g | None => [] end in
  set_pool (aset observed (aset name i g) (t_pool t)) t.
Definition pool_del_entry (observed name : nat) (t : trainer) : trainer :=
  match alookup observed (t_pool t) with
  | Some g => set_pool (aset observed (adel name g) (t_pool t)) t
  | None => t
  end.

(* MonitorPool.add_monitor, lines 290-346 *)
Definition pool_add_monitor (s : state) (ti observed : nat) (sp : mspec) : state * option err :=
  let t := get_trainer s ti in
  match alookup observed (t_observed t) with
  | None => (s, Some EAttribute)
  | Some cell =>
      let existing := pool_get t observed (sp_name sp) in
      match existing, sp_unique sp with
      | Some _, false => (s, None)                                   (* return the existing monitor *)
      | _, _ =>
          (* an existing monitor is deleted from the pool when unique (NOT deregistered) *)
          let s0 := match existing with
                    | Some _ => upd_trainer ti (pool_del_entry observed (sp_name sp)) s
                    | None => s
                    end in
          let t0 := get_trainer s0 ti in
          match observable_add_monitor s0 cell sp (if sp_unique sp then None else Some (pool_view t0)) with
          | None => (s0, Some ERuntime)
          | Some (s1, i) =>
              let s2 := if t_training t0 then s1 else deregister i s1 in
              (upd_trainer ti (pool_put observed (sp_name sp) i) s2, None)
          end
      end
  end.

Fixpoint deregister_all (l : list nat) (s : state) : state :=
  match l with [] => s | i :: tl => deregister_all tl (deregister i s) end.

(* MonitorPool.del_observed, lines 272-288 *)
Definition pool_del_observed (ti name : nat) (s : state) : state :=
  let t := get_trainer s ti in
  let s1 := match alookup name (t_pool t) with
            | Some g => upd_trainer ti (fun t => set_pool (adel name (t_pool t)) t) (deregister_all (map snd g) s)
            | None => s
            end in
  upd_trainer ti (fun t => set_observed (adel name (t_observed t)) t) s1.

(* MonitorPool.del_monitor, lines 360-391 *)
Definition pool_del_monitor (s : state) (ti observed name : nat) : state * option err :=
  let t := get_trainer s ti in
  match alookup observed (t_pool t), alookup observed (t_observed t) with
  | Some g, Some _ =>
      match alookup name g with
      | None => (s, Some EAttribute)
      | Some i =>
          let s1 := deregister i s in
          let g' := adel name g in
          (upd_trainer ti (fun t => set_pool (match g' with
                                              | [] => adel observed (t_pool t)
                                              | _ => aset observed g' (t_pool t)
                                              end) t) s1, None)
      end
  | _, _ => (s, Some EAttribute)
  end.

(* MonitorPool.monitors: unique(chain(values)) *)
Definition pool_monitors (t : trainer) : list nat := uniq (flat_map (fun g => map snd (snd g)) (t_pool t)).
(* MonitorPool.named_monitors *)
Definition pool_named (t : trainer) : list (nat * nat * nat) :=
  flat_map (fun g => map (fun e => (fst g, fst e, snd e)) (snd g)) (t_pool t).

(* ------------------------------------------------------------------ garbage collection (modelled effect) *)
Definition referenced (s : state) (i : nat) : bool :=
  existsb (fun t => t_alive t && mem_nat i (flat_map (fun g => map snd (snd g)) (t_pool t))) (trainers s).

Fixpoint collect_from (k : nat) (n : nat) (s : state) : state :=
  match n with
  | O => s
  | S n' =>
      let m := get_mon s k in
      let s1 := if m_alive m && negb (referenced s k)
                then upd_mon k set_dead (deregister k s)           (* finalizer: _detach_handles *)
                else s in
      collect_from (S k) n' s1
  end.
(* WeakValueDictionary: entries of dead monitors disappear *)
Definition prune_cmon (s : state) : state :=
  set_cmon (map (fun cm => (fst cm, filter (fun e => m_alive (get_mon s (snd e))) (snd cm))) (cmon s)) s.
Definition collect (s : state) : state := prune_cmon (collect_from 0 (length (mons s)) s).

(* ------------------------------------------------------------------ the shipped trainers' monitor sets *)
(* interned names *)
Definition n_trace_post := 1. Definition n_spike_post := 2. Definition n_trace_pre := 3.
Definition n_spike_pre := 4. Definition n_elig_post := 5. Definition n_elig_pre := 6.
Definition n_trace_post_fast := 7. Definition n_trace_post_slow := 8.
Definition n_trace_pre_fast := 9. Definition n_trace_pre_slow := 10. Definition n_spike_rate := 11.
(* interned tag keys *)
Definition k_dt := 1. Definition k_amp := 2. Definition k_tc := 3. Definition k_trace := 4.
Definition k_delayed := 5. Definition k_timing := 6. Definition k_inplace := 7.

Definition zb (b : bool) : Z := if b then 1%Z else 0%Z.
Definition a_post := [I_neuron; I_spike].                          (* "neuron.spike" *)
Definition a_pre (delayed : bool) :=                               (* "synapse.spike" if delayed else "connection.synspike" *)
  if delayed then [I_synapse; I_spike] else [I_connection; I_synspike].

(* register_cell of each type.  dt = code of cell.connection.dt; cdel = cell.connection.delayedby is not None;
   hp = code of the per-cell hyperparameter overrides (see hp_d below).
   hand-transcribed: two_factor_stdp.py:232-334 (STDP), 1012-1227 (TripletSTDP); three_factor_stdp.py:347-483
   (MSTDPET), 790-926 (MSTDP); homeostasis.py:163-194; delay_adj_two_factor_stdp.py:138-229 and
   delay_adj_three_factor_stdp.py:144-235; kernel_stdp.py:199-258 *)
(* per-cell hyperparameter overrides, one decimal digit (0/1) each: hp = d0 + 10 d1 + 100 d2 + 1000 d3 with
   tc_post = base + d0, tc_pre = base + d1, |lr_post| = 1 + d2, |lr_pre| = 1 + d3 *)
Definition hp_d (hp k : Z) : Z := ((hp / k) mod 2)%Z.
Definition trainer_specs (ty : ttype) (dt : Z) (cdel : bool) (hp : Z) : list mspec :=
  let tpost := hp_d hp 1 in let tpre := hp_d hp 10 in
  let alpost := (1 + hp_d hp 100)%Z in let alpre := (1 + hp_d hp 1000)%Z in
  match ty with
  | TSTDP dl =>
      let d := dl && cdel in
      [ mkSpec n_trace_post a_post false [(k_dt, dt); (k_amp, alpre); (k_tc, (20 + tpost)%Z); (k_trace, 0%Z)] true None;
        mkSpec n_spike_post a_post false [(k_dt, dt)] true None;
        mkSpec n_trace_pre (a_pre d) false
               [(k_dt, dt); (k_amp, alpost); (k_tc, (20 + tpre)%Z); (k_trace, 0%Z); (k_delayed, zb d)] true None;
        mkSpec n_spike_pre (a_pre d) false [(k_dt, dt); (k_delayed, zb d)] true None ]
  | TMSTDPET =>
      [ mkSpec n_trace_post a_post false [(k_dt, dt); (k_amp, alpre); (k_tc, (20 + tpost)%Z)] true None;
        mkSpec n_spike_post a_post false [(k_dt, dt)] true None;
        mkSpec n_trace_pre [I_connection; I_synspike] false [(k_dt, dt); (k_amp, alpost); (k_tc, (20 + tpre)%Z)] true None;
        mkSpec n_spike_pre [I_connection; I_synspike] false [(k_dt, dt)] true None;
        mkSpec n_elig_post [I_monitors] true [] false (Some ([n_trace_pre; n_spike_post], true));
        mkSpec n_elig_pre [I_monitors] true [] false (Some ([n_trace_post; n_spike_pre], true)) ]
  | TTriplet dl =>
      let d := dl && cdel in
      [ mkSpec n_trace_post_fast a_post false
               [(k_dt, dt); (k_amp, 1%Z); (k_tc, (10 + tpost)%Z); (k_trace, 0%Z); (k_timing, 0%Z)] true None;
        mkSpec n_trace_post_slow a_post false
               [(k_dt, dt); (k_amp, 1%Z); (k_tc, (20 + tpost)%Z); (k_trace, 0%Z); (k_timing, 1%Z)] true None;
        mkSpec n_spike_post a_post false [(k_dt, dt)] true None;
        mkSpec n_trace_pre_fast (a_pre d) false
               [(k_dt, dt); (k_amp, 1%Z); (k_tc, (10 + tpre)%Z); (k_trace, 0%Z); (k_delayed, zb d); (k_timing, 0%Z)] true None;
        mkSpec n_trace_pre_slow (a_pre d) false
               [(k_dt, dt); (k_amp, 1%Z); (k_tc, (20 + tpre)%Z); (k_trace, 0%Z); (k_delayed, zb d); (k_timing, 1%Z)] true None;
        mkSpec n_spike_pre (a_pre d) false [(k_dt, dt); (k_delayed, zb d)] true None ]
  | THomeostasis =>
      [ mkSpec n_spike_rate a_post false [(k_dt, dt)] true None ]
  | TDelayAdjusted =>
      [ mkSpec n_spike_post a_post false [(k_dt, dt); (k_inplace, 0%Z)] true None;
        mkSpec n_spike_pre [I_synapse; I_spike] false [(k_dt, dt); (k_inplace, 0%Z)] true None ]
  | TKernel dl =>
      let d := dl && cdel in
      [ mkSpec n_spike_post a_post false [(k_dt, dt); (k_inplace, 0%Z)] true None;
        mkSpec n_spike_pre (a_pre d) false [(k_dt, dt); (k_delayed, zb d); (k_inplace, 0%Z)] true None ]
  end.

(* monitors the type's forward() takes from the unit (KeyError when absent) and peeks (fails on None) *)
Definition trainer_needs (ty : ttype) : list nat :=
  match ty with
  | TSTDP _ => [n_trace_post; n_trace_pre; n_spike_post; n_spike_pre]
  | TMSTDPET => [n_elig_post; n_elig_pre]
  | TTriplet _ => [n_trace_post_fast; n_trace_pre_fast; n_trace_post_slow; n_trace_pre_slow; n_spike_post; n_spike_pre]
  | THomeostasis => [n_spike_rate]
  | TDelayAdjusted => [n_spike_post; n_spike_pre]
  | TKernel _ => [n_spike_post; n_spike_pre]
  end.

(* ------------------------------------------------------------------ CellTrainer operations (learn/base.py) *)
Inductive op :=
| RegisterCell (t cn : nat) (c : cellid) (hp : Z)
| DelCell (t cn : nat)
| AddMonitor (t cn : nat) (sp : mspec)
| DelMonitor (t cn mn : nat)
| TrainerMode (t : nat) (mode : bool)
| LayerMode (l : nat) (mode : bool)
| LayerStep (l : nat)
| TrainerStep (t : nat)
| Clear (t : nat)
| DropTrainer (t : nat).

Fixpoint add_specs (s : state) (ti cn : nat) (sps : list mspec) : state * option err :=
  match sps with
  | [] => (s, None)
  | sp :: tl =>
      match pool_add_monitor s ti cn sp with
      | (s1, None) => add_specs s1 ti cn tl
      | (s1, Some e) => (s1, Some e)
      end
  end.

(* <Trainer>.register_cell = add_cell (base.py:94-151) + the type's add_monitor calls *)
Definition register_cell (w : world) (s : state) (ti cn : nat) (c : cellid) (hp : Z) : state * option err :=
  let t := get_trainer s ti in
  if amem cn (t_cells t) then (s, Some EValue)
  else
    (* every connection of the modelled networks has an updater with a weight *)
    let s1 := pool_del_observed ti cn s in                        (* base.py:138 *)
    let s2 := upd_trainer ti (fun t => set_cells (aset cn c (t_cells t)) t) s1 in
    (* MonitorPool.add_observed (pooling.py:246-254) *)
    let t2 := get_trainer s2 ti in
    if amem cn (t_observed t2) then (s2, Some ERuntime)
    else if amem cn (t_pool t2) then (s2, Some ERuntime)
    else
      let s3 := upd_trainer ti (fun t => set_observed (aset cn c (t_observed t)) t) s2 in
      let '(dt, cdel) := conn_info w c in
      add_specs s3 ti cn (trainer_specs (t_type t) dt cdel hp).

(* CellTrainer.del_cell, base.py:164-190 *)
Definition del_cell (s : state) (ti cn : nat) : state * option err :=
  let t := get_trainer s ti in
  if negb (amem cn (t_cells t)) then (s, Some EAttribute)
  else
    let s1 := pool_del_observed ti cn s in
    (upd_trainer ti (fun t => set_cells (adel cn (t_cells t)) t) s1, None).

(* CellTrainer.add_monitor, base.py:192-236 *)
Definition add_monitor (s : state) (ti cn : nat) (sp : mspec) : state * option err :=
  if negb (amem cn (t_cells (get_trainer s ti))) then (s, Some EAttribute)
  else pool_add_monitor s ti cn sp.

Fixpoint reregister_all (l : list nat) (s : state) : state :=
  match l with [] => s | i :: tl => reregister_all tl (reregister i s) end.

(* CellTrainer.train(mode), base.py:263-288 *)
Definition trainer_mode (s : state) (ti : nat) (mode : bool) : state :=
  let s1 := upd_trainer ti (set_training mode) s in
  let ms := pool_monitors (get_trainer s1 ti) in
  if mode then reregister_all ms s1 else deregister_all ms s1.

(* CellTrainer.clear, base.py:290-302: reducer.clear() on every pooled monitor *)
Fixpoint clear_all (l : list nat) (s : state) : state :=
  match l with [] => s | i :: tl => clear_all tl (upd_mon i (set_fresh true) s) end.

(* ------------------------------------------------------------------ a layer call *)
Definition last_stamp (m : monitor) : option nat :=
  match m_obs m with [] => None | o :: _ => Some (fst o) end.

(* what a reading monitor finds under each name of <cell>.monitors; None = AttributeError (MapAccessor) *)
Fixpoint do_reads (s : state) (d : list (nat * nat)) (names : list nat) : option (list (nat * option nat) * bool) :=
  match names with
  | [] => Some ([], false)
  | n :: tl =>
      match alookup n d with
      | None => None
      | Some i =>
          match do_reads s d tl with
          | None => None
          | Some (r, anyfresh) => Some ((i, last_stamp (get_mon s i)) :: r, m_fresh (get_mon s i) || anyfresh)
          end
      end
  end.

(* the monitor's hook body, run when the gate is open *)
Definition monitor_call (s : state) (i stamp : nat) : state * option err :=
  let m := get_mon s i in
  match m_reads m with
  | None => (upd_mon i (add_obs (stamp, [])) s, None)             (* StateMonitor: rgetattr(layer, attr) -> reducer *)
  | Some (cell, names, strict) =>
      match do_reads s (cmon_get cell (cmon s)) names with
      | None => (s, Some EAttribute)
      | Some (r, anyfresh) =>
          if strict && anyfresh then (s, Some ERuntime)              (* reducer fails on a None observation *)
          else (upd_mon i (add_obs (stamp, r)) s, None)
      end
  end.

(* hooks run in list order; the first exception aborts the call (the forward itself has already happened).
   Gate (infrastructure.py:2757-2762) with train_update=True, eval_update=False, which is what every trainer
   passes: the hook body runs iff the hooked module is in training mode *)
Fixpoint run_hooks (s : state) (training : bool) (stamp : nat) (hooks : list nat) : state * option err :=
  match hooks with
  | [] => (s, None)
  | i :: tl =>
      if training then
        match monitor_call s i stamp with
        | (s1, None) => run_hooks s1 training stamp tl
        | (s1, Some e) => (s1, Some e)
        end
      else run_hooks s training stamp tl
  end.

Definition layer_step (s : state) (l : nat) : state * option err :=
  let L := get_layer s l in
  let stamp := S (l_steps L) in
  let s1 := upd_layer l (fun L => mkLayer (l_training L) (l_hooks L) stamp) s in
  run_hooks s1 (l_training L) stamp (l_hooks L).

(* ------------------------------------------------------------------ a trainer call (forward of the shipped types) *)
Fixpoint needs_ok (s : state) (g : list (nat * nat)) (needs : list nat) : option err :=
  match needs with
  | [] => None
  | n :: tl =>
      match alookup n g with
      | None => Some EKey
      | Some i => if m_fresh (get_mon s i) then Some EOther else needs_ok s g tl
      end
  end.
Fixpoint acc_bump (l c : nat) (a : list (nat * nat * nat)) : list (nat * nat * nat) :=
  match a with
  | [] => [(l, c, 1)]
  | (l', c', k) :: tl => if Nat.eqb l l' && Nat.eqb c c' then (l', c', S k) :: tl else (l', c', k) :: acc_bump l c tl
  end.
(* the delay-adjusted rules read cell.connection.delay (None on a connection without delays: AttributeError) *)
Definition needs_delay (ty : ttype) : bool := match ty with TDelayAdjusted => true | _ => false end.
Fixpoint trainer_cells_step (w : world) (s : state) (t : trainer) (cells : list (nat * cellid)) : state * option err :=
  match cells with
  | [] => (s, None)
  | (cn, c) :: tl =>
      (* skip if self or cell is not in training mode *)
      if negb (l_training (get_layer s (cell_layer c))) || negb (t_training t) then trainer_cells_step w s t tl
      else
        let g := match alookup cn (t_pool t) with Some g => g | None => [] end in
        match needs_ok s g (trainer_needs (t_type t)) with
        | Some e => (s, Some e)
        | None =>
            if needs_delay (t_type t) && negb (snd (conn_info w c)) then (s, Some EAttribute)
            else trainer_cells_step w (set_accs (acc_bump (cell_layer c) (cell_conn c) (accs s)) s) t tl
        end
  end.
Definition trainer_step (w : world) (s : state) (ti : nat) : state * option err :=
  let t := get_trainer s ti in trainer_cells_step w s t (t_cells t).

(* ------------------------------------------------------------------ one operation, then garbage collection *)
Definition step_raw (w : world) (s : state) (o : op) : state * option err :=
  match o with
  | RegisterCell t cn c hp => register_cell w s t cn c hp
  | DelCell t cn => del_cell s t cn
  | AddMonitor t cn sp => add_monitor s t cn sp
  | DelMonitor t cn mn => pool_del_monitor s t cn mn
  | TrainerMode t mode => (trainer_mode s t mode, None)
  | LayerMode l mode => (upd_layer l (fun L => mkLayer mode (l_hooks L) (l_steps L)) s, None)
  | LayerStep l => layer_step s l
  | TrainerStep t => trainer_step w s t
  | Clear t => (clear_all (pool_monitors (get_trainer s t)) s, None)
  | DropTrainer t => (upd_trainer t kill_trainer s, None)
  end.
(* operations on a trainer that has been dropped (or never existed) cannot be issued: no effect *)
Definition op_trainer (o : op) : option nat :=
  match o with
  | RegisterCell t _ _ _ | DelCell t _ | AddMonitor t _ _ | DelMonitor t _ _ | TrainerMode t _
  | TrainerStep t | Clear t | DropTrainer t => Some t
  | LayerMode _ _ | LayerStep _ => None
  end.
Definition op_enabled (s : state) (o : op) : bool :=
  match op_trainer o with Some t => t_alive (get_trainer s t) | None => true end.
Definition step (w : world) (s : state) (o : op) : state * option err :=
  if op_enabled s o then let '(s1, r) := step_raw w s o in (collect s1, r) else (s, Some EOther).

Fixpoint run (w : world) (s : state) (ops : list op) : state :=
  match ops with
  | [] => s
  | o :: tl => run w (fst (step w s o)) tl
  end.
