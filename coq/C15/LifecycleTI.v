(* C15 - trainer-level invariant TI: pools reference live monitors of the right layer, every monitor belongs to
   one trainer, nothing records while its trainer is in eval mode, registered monitors are alive and (after
   garbage collection) owned by a live trainer.  Preserved by every operation (axiom-free). *)
From Coq Require Import List ZArith Bool Arith Lia.
From Inferno Require Import C15.Lifecycle C15.LifecycleLemmas C15.LifecycleProofs.
Import ListNotations.

(* ------------------------------------------------------------------ entries of a pool *)
Definition keys_ok (t : trainer) : Prop :=
  NoDup (map fst (t_cells t)) /\ t_observed t = t_cells t /\ NoDup (map fst (t_pool t)) /\
  (forall cn g, In (cn, g) (t_pool t) -> NoDup (map fst g) /\ In cn (map fst (t_cells t))).

Lemma pool_named_In t cn mn i :
  In (cn, mn, i) (pool_named t) <-> exists g, In (cn, g) (t_pool t) /\ In (mn, i) g.
Proof.
  unfold pool_named. rewrite in_flat_map. split.
  - intros [[c g] [H1 H2]]. simpl in H2. apply in_map_iff in H2 as [[m j] [E H2]]. simpl in E. inversion E; subst.
    exists g; auto.
  - intros (g & H1 & H2). exists (cn, g). split; auto. simpl. apply in_map_iff. exists (mn, i); auto.
Qed.

Lemma pool_mids_named t i : In i (pool_mids t) <-> exists cn mn, In (cn, mn, i) (pool_named t).
Proof.
  rewrite pool_mids_In. split.
  - intros (cn & g & mn & H1 & H2). exists cn, mn. apply pool_named_In. eauto.
  - intros (cn & mn & H). apply pool_named_In in H as (g & H1 & H2). eauto.
Qed.

Lemma pool_named_get t cn mn i : keys_ok t -> (In (cn, mn, i) (pool_named t) <-> pool_get t cn mn = Some i).
Proof.
  intros (_ & _ & ND & G). rewrite pool_named_In. unfold pool_get. split.
  - intros (g & H1 & H2). rewrite (In_alookup _ _ _ ND H1). apply In_alookup; auto. apply (G cn g H1).
  - destruct (alookup cn (t_pool t)) as [g|] eqn:E; [|discriminate]. intros H. exists g.
    split; apply alookup_In; auto.
Qed.

Lemma pool_named_put t cn mn i c m j :
  keys_ok t -> In cn (map fst (t_cells t)) ->
  (In (c, m, j) (pool_named (pool_put cn mn i t)) <->
   (c, m, j) = (cn, mn, i) \/ (In (c, m, j) (pool_named t) /\ (c, m) <> (cn, mn))).
Proof.
  intros (_ & _ & ND & G) Hc. rewrite !pool_named_In. unfold pool_put. simpl.
  set (g0 := match alookup cn (t_pool t) with Some g => g | None => [] end).
  assert (ND0 : NoDup (map fst g0)).
  { unfold g0. destruct (alookup cn (t_pool t)) eqn:E; [|constructor]. apply alookup_In in E. apply (G cn l E). }
  split.
  - intros (g & H1 & H2). apply In_aset in H1; auto. destruct H1 as [H1|[H1 N]].
    + inversion H1; subst. apply In_aset in H2; auto. destruct H2 as [H2|[H2 N]].
      * inversion H2; subst. left; reflexivity.
      * right. split; [|simpl in N; congruence]. unfold g0 in H2. destruct (alookup cn (t_pool t)) eqn:E; [|destruct H2].
        exists l. split; auto. apply alookup_In; auto.
    + right. simpl in N. split; [exists g; auto|congruence].
  - intros [E|[(g & H1 & H2) N]].
    + inversion E; subst. exists (aset mn i g0). split; [apply In_aset; auto|apply In_aset; auto].
    + destruct (Nat.eq_dec c cn) as [->|Nc].
      * exists (aset mn i g0). split; [apply In_aset; auto|].
        apply In_aset; auto. right. split; [|simpl; congruence].
        unfold g0. rewrite (In_alookup _ _ _ ND H1). exact H2.
      * exists g. split; auto. apply In_aset; auto.
Qed.

Lemma keys_ok_put t cn mn i : keys_ok t -> In cn (map fst (t_cells t)) -> keys_ok (pool_put cn mn i t).
Proof.
  intros (A & B & C & D) Hc. unfold pool_put, keys_ok. simpl. split; [exact A|]. split; [exact B|].
  split; [apply NoDup_keys_aset; auto|].
  intros c g H. apply In_aset in H; auto. destruct H as [H|[H _]]; [|apply D; auto].
  inversion H; subst. split; auto. apply NoDup_keys_aset.
  destruct (alookup cn (t_pool t)) eqn:E; [|constructor]. apply alookup_In in E. apply (D cn l E).
Qed.

Lemma pool_named_del_entry t cn mn c m j :
  keys_ok t ->
  (In (c, m, j) (pool_named (pool_del_entry cn mn t)) <-> In (c, m, j) (pool_named t) /\ (c, m) <> (cn, mn)).
Proof.
  intros (_ & _ & ND & G). unfold pool_del_entry.
  destruct (alookup cn (t_pool t)) as [g0|] eqn:E0.
  - rewrite !pool_named_In. simpl. pose proof (alookup_In _ _ _ E0) as I0. destruct (G cn g0 I0) as [ND0 _]. split.
    + intros (g & H1 & H2). apply In_aset in H1; auto. destruct H1 as [H1|[H1 N]].
      * inversion H1; subst. apply In_adel in H2; auto. destruct H2 as [H2 N]. split; [eauto|simpl in N; congruence].
      * simpl in N. split; [eauto|congruence].
    + intros [(g & H1 & H2) N]. destruct (Nat.eq_dec c cn) as [->|Nc].
      * exists (adel mn g0). split; [apply In_aset; auto|]. apply In_adel; auto.
        rewrite (In_alookup _ _ _ ND H1) in E0. inversion E0; subst. split; [exact H2|simpl; congruence].
      * exists g. split; auto. apply In_aset; auto.
  - split; [|tauto]. intros H. split; auto. intros E. inversion E; subst.
    apply pool_named_In in H as (g & H1 & _). apply alookup_None in E0. apply E0. apply in_map_iff. exists (cn, g); auto.
Qed.

Lemma keys_ok_del_entry t cn mn : keys_ok t -> keys_ok (pool_del_entry cn mn t).
Proof.
  intros (A & B & C & D). unfold pool_del_entry. destruct (alookup cn (t_pool t)) as [g0|] eqn:E0; [|unfold keys_ok; auto].
  unfold keys_ok. simpl. split; [exact A|]. split; [exact B|]. split; [apply NoDup_keys_aset; auto|].
  intros c g H. apply In_aset in H; auto. destruct H as [H|[H _]]; [|apply D; auto].
  inversion H; subst. apply alookup_In in E0. destruct (D cn g0 E0). split; auto. apply NoDup_keys_adel; auto.
Qed.

Lemma pool_named_adel t cn c m j :
  keys_ok t -> (In (c, m, j) (pool_named (set_pool (adel cn (t_pool t)) t)) <-> In (c, m, j) (pool_named t) /\ c <> cn).
Proof.
  intros (_ & _ & ND & G). rewrite !pool_named_In. simpl. split.
  - intros (g & H1 & H2). apply In_adel in H1; auto. destruct H1 as [H1 N]. split; eauto.
  - intros [(g & H1 & H2) N]. exists g. split; auto. apply In_adel; auto.
Qed.

Lemma keys_ok_adel t cn : keys_ok t -> keys_ok (set_pool (adel cn (t_pool t)) t).
Proof.
  intros (A & B & C & D). unfold keys_ok. simpl. split; [exact A|]. split; [exact B|]. split; [apply NoDup_keys_adel; auto|].
  intros c g H. apply In_adel_weak in H. apply D; auto.
Qed.

(* ------------------------------------------------------------------ exact effect of the bulk operations on monitors *)
Lemma set_reg_idem b m : set_reg b (set_reg b m) = set_reg b m.
Proof. destruct m; reflexivity. Qed.

Lemma deregister_all_mon l : forall s j,
  get_mon (deregister_all l s) j = if mem_nat j l then set_reg false (get_mon s j) else get_mon s j.
Proof.
  induction l as [|i tl IH]; simpl; intros s j; auto.
  rewrite IH, deregister_mon. rewrite (Nat.eqb_sym j i).
  destruct (Nat.eqb i j); simpl; destruct (mem_nat j tl); auto.
Qed.

Lemma do_register_mon i s j : i < length (mons s) ->
  get_mon (do_register i s) j = if Nat.eqb i j then set_reg true (get_mon s j) else get_mon s j.
Proof.
  intros Hi. unfold do_register. destruct (Nat.eqb i j) eqn:E.
  - apply Nat.eqb_eq in E; subst j. rewrite get_mon_upd_same; auto.
  - apply Nat.eqb_neq in E. rewrite get_mon_upd_other; auto.
Qed.

Lemma reregister_mon i s j : i < length (mons s) ->
  get_mon (reregister i s) j = if Nat.eqb i j then set_reg true (get_mon s j) else get_mon s j.
Proof.
  intros Hi. unfold reregister. destruct (m_reg (get_mon s i)) eqn:E; [|apply do_register_mon; auto].
  destruct (Nat.eqb i j) eqn:E2; auto. apply Nat.eqb_eq in E2; subst j. rewrite <- E. symmetry. apply set_reg_same.
Qed.

Lemma reregister_all_mon l : forall s j, (forall i, In i l -> i < length (mons s)) ->
  get_mon (reregister_all l s) j = if mem_nat j l then set_reg true (get_mon s j) else get_mon s j.
Proof.
  induction l as [|i tl IH]; simpl; intros s j Hl; auto.
  rewrite IH.
  - rewrite reregister_mon by auto. rewrite (Nat.eqb_sym j i).
    destruct (Nat.eqb i j); simpl; destruct (mem_nat j tl); auto.
  - intros k Hk. pose proof (quiet_reregister i s) as (L & _). specialize (Hl k (or_intror Hk)). lia.
Qed.

Lemma clear_all_mon l : forall s j,
  get_mon (clear_all l s) j = if mem_nat j l then set_fresh true (get_mon s j) else get_mon s j.
Proof.
  induction l as [|i tl IH]; simpl; intros s j; auto.
  rewrite IH. rewrite (Nat.eqb_sym j i). destruct (Nat.eq_dec i j) as [<-|N].
  - rewrite Nat.eqb_refl. simpl.
    destruct (Nat.lt_ge_cases i (length (mons s))) as [Hi|Hi].
    + rewrite get_mon_upd_same by auto. destruct (mem_nat i tl); auto.
    + rewrite get_mon_upd_oob by auto. destruct (mem_nat i tl); auto.
      unfold get_mon. rewrite nth_overflow by auto. reflexivity.
  - apply Nat.eqb_neq in N. rewrite N. simpl. apply Nat.eqb_neq in N. rewrite get_mon_upd_other by auto. reflexivity.
Qed.

Lemma clear_all_others l s :
  layers (clear_all l s) = layers s /\ trainers (clear_all l s) = trainers s /\ cmon (clear_all l s) = cmon s /\
  accs (clear_all l s) = accs s.
Proof. revert s; induction l as [|i tl IH]; simpl; intros s; auto. destruct (IH (upd_mon i (set_fresh true) s)) as (A&B&C&D). rewrite A,B,C,D. auto. Qed.

(* layers' flags are never touched by the pool operations *)
Lemma deregister_layer_flags i s l :
  l_training (get_layer (deregister i s) l) = l_training (get_layer s l) /\
  l_steps (get_layer (deregister i s) l) = l_steps (get_layer s l).
Proof.
  unfold deregister. destruct (m_reg (get_mon s i)); auto.
  match goal with |- context [upd_mon ?a ?b ?c] => change (get_layer (upd_mon a b c) l) with (get_layer c l) end.
  destruct (Nat.lt_ge_cases (m_layer (get_mon s i)) (length (layers s))) as [Hl|Hl]; [|rewrite upd_layer_oob by auto; auto].
  destruct (Nat.eq_dec (m_layer (get_mon s i)) l) as [<-|N]; [rewrite get_layer_upd_same by auto; auto|
                                                               rewrite get_layer_upd_other by auto; auto].
Qed.

Lemma do_register_layer_flags i s l :
  l_training (get_layer (do_register i s) l) = l_training (get_layer s l) /\
  l_steps (get_layer (do_register i s) l) = l_steps (get_layer s l).
Proof.
  unfold do_register.
  match goal with |- context [upd_mon ?a ?b ?c] => change (get_layer (upd_mon a b c) l) with (get_layer c l) end.
  destruct (Nat.lt_ge_cases (m_layer (get_mon s i)) (length (layers s))) as [Hl|Hl]; [|rewrite upd_layer_oob by auto; auto].
  destruct (Nat.eq_dec (m_layer (get_mon s i)) l) as [<-|N]; [rewrite get_layer_upd_same by auto; auto|
                                                               rewrite get_layer_upd_other by auto; auto].
Qed.

Lemma deregister_all_layer_flags li : forall s l,
  l_training (get_layer (deregister_all li s) l) = l_training (get_layer s l).
Proof.
  induction li as [|i tl IH]; simpl; intros s l; auto. rewrite IH. apply deregister_layer_flags.
Qed.

Lemma reregister_all_layer_flags li : forall s l,
  l_training (get_layer (reregister_all li s) l) = l_training (get_layer s l).
Proof.
  induction li as [|i tl IH]; simpl; intros s l; auto. rewrite IH. unfold reregister.
  destruct (m_reg (get_mon s i)); auto. apply do_register_layer_flags.
Qed.

(* ------------------------------------------------------------------ the trainer-level invariant *)
Definition TI (s : state) : Prop :=
  (forall t, keys_ok (get_trainer s t)) /\
  (forall t, t_alive (get_trainer s t) = false -> t_pool (get_trainer s t) = [] /\ t_cells (get_trainer s t) = []) /\
  (forall t cn mn i c, In (cn, mn, i) (pool_named (get_trainer s t)) -> alookup cn (t_cells (get_trainer s t)) = Some c ->
                       m_alive (get_mon s i) = true /\ m_layer (get_mon s i) = cell_layer c) /\
  (forall t1 t2 i, In i (pool_mids (get_trainer s t1)) -> In i (pool_mids (get_trainer s t2)) -> t1 = t2) /\
  (forall t i, In i (pool_mids (get_trainer s t)) -> m_reg (get_mon s i) = true -> t_training (get_trainer s t) = true) /\
  (forall i, i < length (mons s) -> m_reg (get_mon s i) = true -> m_alive (get_mon s i) = true).

Lemma init_trainer w tys n :
  let t := get_trainer (init_state w tys) n in t_pool t = [] /\ t_cells t = [] /\ t_observed t = [].
Proof.
  unfold get_trainer, init_state; simpl. revert n. induction tys as [|ty tl IH]; intros [|n]; simpl; auto.
Qed.

Lemma TI_init w tys : TI (init_state w tys).
Proof.
  unfold TI. pose proof (init_trainer w tys) as G. cbv zeta in G.
  split; [|split; [|split; [|split; [|split]]]].
  - intros t. destruct (G t) as (A & B & C). unfold keys_ok. rewrite A, B, C. simpl.
    split; [constructor|]. split; [reflexivity|]. split; [constructor|]. intros cn g [].
  - intros t _. destruct (G t) as (A & B & _). auto.
  - intros t cn mn i c H. unfold pool_named in H. destruct (G t) as (A & _). rewrite A in H. destruct H.
  - intros t1 t2 i H. unfold pool_mids in H. destruct (G t1) as (A & _). rewrite A in H. destruct H.
  - intros t i H. unfold pool_mids in H. destruct (G t) as (A & _). rewrite A in H. destruct H.
  - intros i Hi. simpl in Hi. lia.
Qed.

(* ------------------------------------------------------------------ helpers about one trainer being updated *)
Lemma get_trainer_upd t f s k :
  get_trainer (upd_trainer t f s) k = if Nat.eqb t k && Nat.ltb t (length (trainers s)) then f (get_trainer s t) else get_trainer s k.
Proof.
  destruct (Nat.ltb t (length (trainers s))) eqn:L.
  - apply Nat.ltb_lt in L. destruct (Nat.eqb t k) eqn:E; simpl.
    + apply Nat.eqb_eq in E; subst k. apply get_trainer_upd_same; auto.
    + apply Nat.eqb_neq in E. apply get_trainer_upd_other; auto.
  - apply Nat.ltb_ge in L. rewrite andb_false_r. unfold upd_trainer, get_trainer; simpl. rewrite upd_oob; auto.
Qed.

Lemma dummy_trainer_oob s t : length (trainers s) <= t -> get_trainer s t = dummy_trainer.
Proof. intros H. unfold get_trainer. apply nth_overflow; auto. Qed.

Lemma upd_id {A} n (f : A -> A) l d : f (nth n l d) = nth n l d -> upd n f l = l.
Proof.
  revert n; induction l as [|x tl IH]; intros [|n] H; simpl in *; auto; [congruence|f_equal; auto].
Qed.

(* exact result of Observable.add_monitor *)
Lemma observable_add_monitor_cases s self sp pool s' i :
  observable_add_monitor s self sp pool = Some (s', i) ->
  exists attr, realign_attribute self (sp_attr sp) = Some attr /\
  ((* created *)
   (exists tg s1, new_monitor (cell_layer self) attr tg (sp_prepend sp)
                 (match sp_reads sp with Some (ns, strict) => Some (self, ns, strict) | None => None end) s = (s1, i)
               /\ s' = cmon_bind self (sp_name sp) i s1
               /\ (pool = None \/ exists p, pool = Some p /\ alias_search s self (sp_name sp) (sp_tags sp, attr) p None = None)) \/
   (* aliased *)
   (exists p, pool = Some p /\ alias_search s self (sp_name sp) (sp_tags sp, attr) p None = Some i /\
              s' = cmon_bind self (sp_name sp) i s)).
Proof.
  unfold observable_add_monitor. destruct (realign_attribute self (sp_attr sp)) as [attr|]; [|discriminate].
  intros E. exists attr. split; auto.
  set (reads := match sp_reads sp with Some (ns, strict) => Some (self, ns, strict) | None => None end) in *.
  destruct pool as [p|].
  - destruct (alias_search s self (sp_name sp) (sp_tags sp, attr) p None) as [k|] eqn:Ea.
    + inversion E; subst. right; exists p; auto.
    + destruct (new_monitor (cell_layer self) attr (Some (sp_tags sp, attr)) (sp_prepend sp) reads s) as [s1 k] eqn:En.
      inversion E; subst. left. exists (Some (sp_tags sp, attr)), s1. split; auto. split; auto. right. exists p; auto.
  - destruct (new_monitor (cell_layer self) attr None (sp_prepend sp) reads s) as [s1 k] eqn:En.
    inversion E; subst. left. exists None, s1. auto.
Qed.

(* ------------------------------------------------------------------ generic preservation lemmas for TI *)
(* monitors change without anything new being registered or dying; trainers untouched *)
Lemma TI_mons_change s s' :
  trainers s' = trainers s -> length (mons s') = length (mons s) ->
  (forall j, m_alive (get_mon s' j) = m_alive (get_mon s j) /\ m_layer (get_mon s' j) = m_layer (get_mon s j) /\
             (m_reg (get_mon s' j) = true -> m_reg (get_mon s j) = true)) ->
  TI s -> TI s'.
Proof.
  intros Tr L M (T1 & T2 & T3 & T4 & T5 & T6). unfold TI, get_trainer in *. rewrite Tr.
  split; [exact T1|]. split; [exact T2|]. split; [|split; [exact T4|split]].
  - intros t cn mn i c H1 H2. destruct (M i) as (A & B & _). rewrite A, B. eapply T3; eauto.
  - intros t i H1 H2. apply (T5 t i H1). apply M; auto.
  - intros i Hi H. destruct (M i) as (A & _ & C). rewrite A. apply T6; [lia|auto].
Qed.

(* one trainer's pool shrinks (or stays), nothing else changes *)
Lemma TI_shrink ti f s :
  (let t := get_trainer s ti in
   keys_ok (f t) /\ t_alive (f t) = t_alive t /\ t_training (f t) = t_training t /\ t_cells (f t) = t_cells t /\
   (forall e, In e (pool_named (f t)) -> In e (pool_named t)) /\ (t_alive t = false -> t_pool (f t) = [])) ->
  TI s -> TI (upd_trainer ti f s).
Proof.
  cbv zeta. intros (K & Al & Trn & Ce & Sub & Dead) (T1 & T2 & T3 & T4 & T5 & T6).
  assert (Sub2 : forall i, In i (pool_mids (f (get_trainer s ti))) -> In i (pool_mids (get_trainer s ti))).
  { intros i. rewrite !pool_mids_named. intros (cn & mn & H). exists cn, mn. auto. }
  assert (G : forall t, get_trainer (upd_trainer ti f s) t = f (get_trainer s ti) /\ t = ti \/
                        get_trainer (upd_trainer ti f s) t = get_trainer s t).
  { intros t. rewrite get_trainer_upd. destruct (Nat.eqb ti t && Nat.ltb ti (length (trainers s))) eqn:E; auto.
    apply andb_true_iff in E as [E _]. apply Nat.eqb_eq in E. auto. }
  unfold TI. change (mons (upd_trainer ti f s)) with (mons s). change (get_mon (upd_trainer ti f s)) with (get_mon s).
  split; [|split; [|split; [|split; [|split]]]].
  - intros t. destruct (G t) as [[-> _]| -> ]; auto.
  - intros t. destruct (G t) as [[-> ->]| -> ]; auto. rewrite Al, Ce. intros H. split; auto. apply T2; auto.
  - intros t cn mn i c. destruct (G t) as [[-> ->]| -> ]; [|apply T3]. rewrite Ce. intros H1 H2. eapply T3; eauto.
  - intros t1 t2 i. destruct (G t1) as [[-> ->]| -> ]; destruct (G t2) as [[-> ->]| -> ]; intros H1 H2.
    + reflexivity.
    + apply (T4 ti t2 i); auto.
    + apply (T4 t1 ti i); auto.
    + apply (T4 t1 t2 i); auto.
  - intros t i. destruct (G t) as [[-> ->]| -> ]; [|apply T5]. rewrite Trn. intros H1 H2. apply (T5 ti i); auto.
  - exact T6.
Qed.

(* the trainers a state can mention *)
Lemma TI_alive_of_cell s ti cn c :
  TI s -> alookup cn (t_observed (get_trainer s ti)) = Some c -> t_alive (get_trainer s ti) = true.
Proof.
  intros (T1 & T2 & _) H. destruct (t_alive (get_trainer s ti)) eqn:E; auto.
  destruct (T2 ti E) as [_ C]. destruct (T1 ti) as (_ & B & _). rewrite B, C in H. discriminate.
Qed.

Lemma TI_deregister i s : TI s -> TI (deregister i s).
Proof.
  apply TI_mons_change.
  - apply deregister_others.
  - pose proof (quiet_deregister i s) as (L & Q & _). unfold deregister. destruct (m_reg (get_mon s i)); auto.
    rewrite length_mons_upd_mon. reflexivity.
  - intros j. rewrite deregister_mon. destruct (Nat.eqb i j); auto. destruct (get_mon s j); simpl. repeat split; auto. discriminate.
Qed.

Lemma TI_deregister_all l s : TI s -> TI (deregister_all l s).
Proof. revert s; induction l as [|i tl IH]; simpl; intros s H; auto. apply IH, TI_deregister; auto. Qed.

Lemma TI_cmon c s : TI s -> TI (set_cmon c s).
Proof. intros H. exact H. Qed.

Lemma TI_new_monitor lay attr tg pre reads s s' i :
  new_monitor lay attr tg pre reads s = (s', i) -> PV s -> TI s -> TI s'.
Proof.
  intros E P (T1 & T2 & T3 & T4 & T5 & T6).
  destruct (new_monitor_spec _ _ _ _ _ _ _ _ E) as (Ei & L & Tr & Cm & Ac & LL & Old & New & Ls & _).
  assert (Hp : forall t j, In j (pool_mids (get_trainer s t)) -> get_mon s' j = get_mon s j).
  { intros t j Hj. apply Old. eapply P; eauto. }
  unfold TI, get_trainer in *. rewrite Tr.
  split; [exact T1|]. split; [exact T2|]. split; [|split; [exact T4|split]].
  - intros t cn mn j c H1 H2. rewrite (Hp t j); [eapply T3; eauto|]. apply pool_mids_named. eauto.
  - intros t j H1 H2. rewrite (Hp t j H1) in H2. eapply T5; eauto.
  - intros j Hj H. destruct (Nat.eq_dec j i) as [->|N]; [rewrite New; reflexivity|].
    assert (j < length (mons s)) by lia. rewrite Old in * by auto. apply T6; auto.
Qed.

(* adding / overwriting one entry *)
Lemma TI_put s ti cn mn i cell :
  TI s -> i < length (mons s) ->
  alookup cn (t_cells (get_trainer s ti)) = Some cell -> t_alive (get_trainer s ti) = true ->
  m_alive (get_mon s i) = true -> m_layer (get_mon s i) = cell_layer cell ->
  (forall t2, In i (pool_mids (get_trainer s t2)) -> t2 = ti) ->
  (m_reg (get_mon s i) = true -> t_training (get_trainer s ti) = true) ->
  TI (upd_trainer ti (pool_put cn mn i) s).
Proof.
  intros (T1 & T2 & T3 & T4 & T5 & T6) Hi Hc Hal Hali Hlay Hown Hreg.
  assert (Hcn : In cn (map fst (t_cells (get_trainer s ti)))).
  { apply alookup_In in Hc. apply in_map_iff. exists (cn, cell); auto. }
  assert (Ht : ti < length (trainers s)).
  { destruct (Nat.lt_ge_cases ti (length (trainers s))); auto. rewrite dummy_trainer_oob in Hal by auto. discriminate. }
  assert (G : forall t, get_trainer (upd_trainer ti (pool_put cn mn i) s) t = pool_put cn mn i (get_trainer s ti) /\ t = ti \/
                        get_trainer (upd_trainer ti (pool_put cn mn i) s) t = get_trainer s t /\ t <> ti).
  { intros t. rewrite get_trainer_upd. destruct (Nat.eqb ti t) eqn:E; simpl.
    - apply Nat.eqb_eq in E. apply Nat.ltb_lt in Ht. rewrite Ht. auto.
    - apply Nat.eqb_neq in E. auto. }
  assert (M : forall j, In j (pool_mids (pool_put cn mn i (get_trainer s ti))) -> j = i \/ In j (pool_mids (get_trainer s ti))).
  { intros j. apply pool_put_mids. }
  unfold TI. change (mons (upd_trainer ti (pool_put cn mn i) s)) with (mons s).
  change (get_mon (upd_trainer ti (pool_put cn mn i) s)) with (get_mon s).
  split; [|split; [|split; [|split; [|split]]]].
  - intros t. destruct (G t) as [[-> _]|[-> _]]; auto. apply keys_ok_put; auto.
  - intros t. destruct (G t) as [[-> ->]|[-> _]]; auto. unfold pool_put at 1; simpl. rewrite Hal. discriminate.
  - intros t c m j c0. destruct (G t) as [[-> ->]|[-> _]]; [|apply T3].
    intros H1 H2. change (t_cells (pool_put cn mn i (get_trainer s ti))) with (t_cells (get_trainer s ti)) in H2.
    apply pool_named_put in H1; auto. destruct H1 as [H1|[H1 _]].
    + inversion H1; subst. rewrite Hc in H2. inversion H2; subst. auto.
    + eapply T3; eauto.
  - intros t1 t2 j. destruct (G t1) as [[-> ->]|[-> N1]]; destruct (G t2) as [[-> ->]|[-> N2]]; intros H1 H2.
    + reflexivity.
    + apply M in H1 as [->|H1]; [symmetry; apply Hown; auto|apply (T4 ti t2 j); auto].
    + apply M in H2 as [->|H2]; [apply Hown; auto|apply (T4 t1 ti j); auto].
    + apply (T4 t1 t2 j); auto.
  - intros t j. destruct (G t) as [[-> ->]|[-> _]]; [|apply T5].
    change (t_training (pool_put cn mn i (get_trainer s ti))) with (t_training (get_trainer s ti)).
    intros H1 H2. apply M in H1 as [->|H1]; auto. apply (T5 ti j); auto.
  - exact T6.
Qed.

Lemma alias_in_pool s t self name tg i :
  keys_ok t ->
  alias_search s self name tg (pool_view t) None = Some i ->
  exists cn obs, In (cn, name, i) (pool_named t) /\ alookup cn (t_cells t) = Some obs /\ cell_layer obs = cell_layer self.
Proof.
  intros (A & B & C & D) H. apply alias_search_spec in H as [H|(obs & monitors & tg' & H1 & H2 & H3 & _)]; [discriminate|].
  apply pool_view_In in H1 as (cn & H1 & H4). exists cn, obs. split; [|split; auto].
  - apply pool_named_In. exists monitors. split; apply alookup_In; auto.
  - rewrite B in H1. apply In_alookup; auto.
Qed.

Lemma pool_add_monitor_TI s ti cn sp s' r :
  pool_add_monitor s ti cn sp = (s', r) -> Inv1 s -> TI s -> TI s'.
Proof.
  unfold pool_add_monitor. intros E I T.
  destruct (alookup cn (t_observed (get_trainer s ti))) as [cell|] eqn:Ec; [|inversion E; subst; auto].
  pose proof (TI_alive_of_cell _ _ _ _ T Ec) as Hal.
  assert (Hc : alookup cn (t_cells (get_trainer s ti)) = Some cell).
  { destruct T as (T1 & _). destruct (T1 ti) as (_ & B & _). rewrite <- B. exact Ec. }
  assert (Ht : ti < length (trainers s)).
  { destruct (Nat.lt_ge_cases ti (length (trainers s))); auto. rewrite dummy_trainer_oob in Hal by auto. discriminate. }
  set (existing := pool_get (get_trainer s ti) cn (sp_name sp)) in *.
  set (s0 := match existing with
             | Some _ => upd_trainer ti (pool_del_entry cn (sp_name sp)) s
             | None => s
             end) in *.
  assert (I0 : Inv1 s0).
  { unfold s0. destruct existing; auto. apply Inv1_trainers_only; auto. intros i. apply pool_del_entry_mids. }
  assert (T0 : TI s0).
  { unfold s0. destruct existing; auto. apply TI_shrink; auto. cbv zeta.
    destruct T as (T1 & _). pose proof (T1 ti) as K.
    split; [apply keys_ok_del_entry; auto|].
    assert (Same : t_alive (pool_del_entry cn (sp_name sp) (get_trainer s ti)) = t_alive (get_trainer s ti) /\
                   t_training (pool_del_entry cn (sp_name sp) (get_trainer s ti)) = t_training (get_trainer s ti) /\
                   t_cells (pool_del_entry cn (sp_name sp) (get_trainer s ti)) = t_cells (get_trainer s ti)).
    { unfold pool_del_entry. destruct (alookup cn (t_pool (get_trainer s ti))); auto. }
    destruct Same as (S1 & S2 & S3). split; [exact S1|]. split; [exact S2|]. split; [exact S3|]. split.
    - intros [[c m] j] H. apply pool_named_del_entry in H; tauto.
    - rewrite Hal. discriminate. }
  assert (F0 : t_alive (get_trainer s0 ti) = true /\ alookup cn (t_cells (get_trainer s0 ti)) = Some cell /\
               t_training (get_trainer s0 ti) = t_training (get_trainer s ti)).
  { unfold s0. destruct existing; auto. rewrite get_trainer_upd_same by auto.
    unfold pool_del_entry. destruct (alookup cn (t_pool (get_trainer s ti))); auto. }
  destruct F0 as (Hal0 & Hc0 & Htr0).
  assert (MAIN : (let t0 := get_trainer s0 ti in
                  match observable_add_monitor s0 cell sp (if sp_unique sp then None else Some (pool_view t0)) with
                  | None => (s0, Some ERuntime)
                  | Some (s1, i) =>
                      let s2 := if t_training t0 then s1 else deregister i s1 in
                      (upd_trainer ti (pool_put cn (sp_name sp) i) s2, None)
                  end) = (s', r) -> TI s').
  { clear E. cbv zeta. intros E.
    destruct (observable_add_monitor s0 cell sp (if sp_unique sp then None else Some (pool_view (get_trainer s0 ti))))
      as [[s1 i]|] eqn:Eo; [|inversion E; subst; auto].
    inversion E; subst; clear E.
    destruct I0 as [H0 P0].
    (* facts about the returned monitor in s1 *)
    assert (S1 : TI s1 /\ trainers s1 = trainers s0 /\ i < length (mons s1) /\ m_alive (get_mon s1 i) = true /\
                 m_layer (get_mon s1 i) = cell_layer cell /\
                 (forall t2, In i (pool_mids (get_trainer s0 t2)) -> t2 = ti)).
    { apply observable_add_monitor_cases in Eo as (attr & _ & [(tg & sN & En & -> & _)|(p & Ep & Ea & ->)]).
      - destruct (new_monitor_spec _ _ _ _ _ _ _ _ En) as (Ei & L & Tr & Cm & Ac & LL & Old & New & Ls & _).
        split; [apply TI_cmon; eapply TI_new_monitor; eauto|].
        split; [simpl; exact Tr|]. split; [simpl; lia|].
        change (get_mon (cmon_bind cell (sp_name sp) i sN)) with (get_mon sN). rewrite New. simpl.
        split; auto. split; auto.
        intros t2 H. apply (P0 t2) in H. lia.
      - destruct (sp_unique sp); [discriminate|]. inversion Ep; subst p.
        pose proof T0 as (T1 & T2 & T3 & T4 & T5 & T6).
        apply alias_in_pool in Ea as (cn' & obs & H1 & H2 & H3); auto.
        destruct (T3 ti cn' (sp_name sp) i obs H1 H2) as [Al Lay].
        split; [apply TI_cmon; exact T0|]. split; [reflexivity|].
        assert (Hin : In i (pool_mids (get_trainer s0 ti))) by (apply pool_mids_named; eauto).
        split; [simpl; apply (P0 ti); auto|].
        change (get_mon (cmon_bind cell (sp_name sp) i s0)) with (get_mon s0).
        split; auto. split; [congruence|]. intros t2 H. apply (T4 t2 ti i); auto. }
    destruct S1 as (T1' & Tr1 & Hi1 & Al1 & Lay1 & Own1).
    set (s2 := if t_training (get_trainer s0 ti) then s1 else deregister i s1).
    assert (Tr2 : trainers s2 = trainers s0).
    { unfold s2. destruct (t_training (get_trainer s0 ti)); auto. destruct (deregister_others i s1) as (A & _). congruence. }
    assert (G2 : forall t, get_trainer s2 t = get_trainer s0 t) by (intros t; unfold get_trainer; rewrite Tr2; auto).
    apply TI_put with (cell := cell).
    - unfold s2. destruct (t_training (get_trainer s0 ti)); auto. apply TI_deregister; auto.
    - unfold s2. destruct (t_training (get_trainer s0 ti)); auto. pose proof (quiet_deregister i s1) as (L & _). lia.
    - rewrite G2. exact Hc0.
    - rewrite G2. exact Hal0.
    - unfold s2. destruct (t_training (get_trainer s0 ti)); auto. rewrite deregister_mon, Nat.eqb_refl.
      destruct (get_mon s1 i); simpl in *; auto.
    - unfold s2. destruct (t_training (get_trainer s0 ti)); auto. rewrite deregister_mon, Nat.eqb_refl.
      destruct (get_mon s1 i); simpl in *; auto.
    - intros t2. rewrite G2. apply Own1.
    - rewrite G2. unfold s2. destruct (t_training (get_trainer s0 ti)) eqn:Et; auto.
      rewrite deregister_mon, Nat.eqb_refl. destruct (get_mon s1 i); simpl. discriminate. }
  destruct existing as [k|] eqn:Ex; destruct (sp_unique sp) eqn:Eu; auto.
  inversion E; subst; auto.
Qed.

Lemma add_specs_TI sps : forall s ti cn s' r,
  add_specs s ti cn sps = (s', r) -> Inv1 s -> TI s -> TI s'.
Proof.
  induction sps as [|sp tl IH]; simpl; intros s ti cn s' r E I T.
  - inversion E; subst; auto.
  - destruct (pool_add_monitor s ti cn sp) as [s1 [e|]] eqn:Ep.
    + inversion E; subst. eapply pool_add_monitor_TI; eauto.
    + eapply IH; [exact E| |].
      * eapply pool_add_monitor_Inv1; eauto.
      * eapply pool_add_monitor_TI; eauto.
Qed.

(* deleting a whole group (MonitorPool.del_observed) together with the cell entry *)
Lemma del_cell_TI s ti cn s' r : del_cell s ti cn = (s', r) -> TI s -> TI s'.
Proof.
  unfold del_cell. intros E T.
  destruct (amem cn (t_cells (get_trainer s ti))) eqn:Em; simpl in E; [|inversion E; subst; auto].
  inversion E; subst; clear E. unfold pool_del_observed.
  set (t := get_trainer s ti).
  set (s1 := match alookup cn (t_pool t) with
             | Some g => upd_trainer ti (fun t => set_pool (adel cn (t_pool t)) t) (deregister_all (map snd g) s)
             | None => s
             end).
  (* everything the three trainer updates do, as one update *)
  set (f := fun t : trainer => set_cells (adel cn (t_cells t)) (set_observed (adel cn (t_observed t)) (set_pool (adel cn (t_pool t)) t))).
  set (sm := match alookup cn (t_pool t) with Some g => deregister_all (map snd g) s | None => s end).
  assert (Tm : TI sm) by (unfold sm; destruct (alookup cn (t_pool t)); auto; apply TI_deregister_all; auto).
  assert (Trm : trainers sm = trainers s).
  { unfold sm. destruct (alookup cn (t_pool t)); auto. apply deregister_all_trainers. }
  assert (Eq : upd_trainer ti (fun t => set_cells (adel cn (t_cells t)) t)
                 (upd_trainer ti (fun t => set_observed (adel cn (t_observed t)) t) s1) = upd_trainer ti f sm).
  { unfold s1, sm. pose proof T as (T1 & _). destruct (T1 ti) as (_ & _ & ND & _). fold t in ND.
    destruct (alookup cn (t_pool t)) as [g|] eqn:Eg.
    - unfold upd_trainer, set_trainers. simpl. rewrite !upd_upd. reflexivity.
    - unfold upd_trainer, set_trainers. simpl. rewrite upd_upd. f_equal.
      apply upd_ext_at with (d := dummy_trainer). fold (get_trainer s ti). fold t. unfold f.
      rewrite (adel_absent cn (t_pool t)) by (apply alookup_None; auto). destruct t; reflexivity. }
  rewrite Eq. clear Eq.
  (* the group's monitors were deregistered in sm; now remove the entries *)
  pose proof Tm as (T1 & T2 & T3 & T4 & T5 & T6).
  assert (Gm : get_trainer sm = get_trainer s) by (unfold get_trainer; rewrite Trm; reflexivity).
  pose proof (T1 ti) as K. rewrite Gm in K. fold t in K. destruct K as (KA & KB & KC & KD).
  assert (G : forall k, get_trainer (upd_trainer ti f sm) k = f t /\ k = ti \/
                        get_trainer (upd_trainer ti f sm) k = get_trainer sm k).
  { intros k. rewrite get_trainer_upd. destruct (Nat.eqb ti k && Nat.ltb ti (length (trainers sm))) eqn:E2; auto.
    apply andb_true_iff in E2 as [E2 _]. apply Nat.eqb_eq in E2. rewrite Gm. auto. }
  assert (Ent : forall c m j, In (c, m, j) (pool_named (f t)) <-> In (c, m, j) (pool_named t) /\ c <> cn).
  { intros c m j. unfold f. change (pool_named (set_cells _ (set_observed _ (set_pool (adel cn (t_pool t)) t))))
      with (pool_named (set_pool (adel cn (t_pool t)) t)). apply pool_named_adel. exact (conj KA (conj KB (conj KC KD))). }
  assert (Sub : forall j, In j (pool_mids (f t)) -> In j (pool_mids t)).
  { intros j. rewrite !pool_mids_named. intros (c & m & H). apply Ent in H. exists c, m. tauto. }
  unfold TI. change (mons (upd_trainer ti f sm)) with (mons sm). change (get_mon (upd_trainer ti f sm)) with (get_mon sm).
  split; [|split; [|split; [|split; [|split]]]].
  - intros k. destruct (G k) as [[-> _]| -> ]; auto. unfold f, keys_ok. simpl.
    split; [apply NoDup_keys_adel; auto|]. split; [rewrite KB; reflexivity|]. split; [apply NoDup_keys_adel; auto|].
    intros c g H. pose proof H as H'. apply In_adel in H; auto. destruct H as [H N]. destruct (KD c g H) as [K1 K2]. split; auto.
    simpl in N. apply in_map_iff in K2 as [[c' v] [E1 E2]]. simpl in E1; subst c'. apply in_map_iff. exists (c, v). split; auto.
    apply In_adel; auto.
  - intros k. destruct (G k) as [[-> ->]| -> ]; auto. unfold f; simpl. intros Hd.
    specialize (T2 ti). rewrite Gm in T2. fold t in T2. destruct (T2 Hd) as [P C]. rewrite P, C. auto.
  - intros k c m j c0. destruct (G k) as [[-> ->]| -> ]; [|apply T3]. intros H1 H2. apply Ent in H1 as [H1 N].
    unfold f in H2; simpl in H2. rewrite alookup_adel_other in H2 by auto.
    apply (T3 ti c m j c0); rewrite Gm; auto.
  - intros t1 t2 j. destruct (G t1) as [[-> ->]| -> ]; destruct (G t2) as [[-> ->]| -> ]; intros H1 H2.
    + reflexivity.
    + apply (T4 ti t2 j); auto. rewrite Gm. auto.
    + apply (T4 t1 ti j); auto. rewrite Gm. auto.
    + apply (T4 t1 t2 j); auto.
  - intros k j. destruct (G k) as [[-> ->]| -> ]; [|apply T5]. intros H1 H2.
    change (t_training (f t)) with (t_training t). specialize (T5 ti j). rewrite Gm in T5. apply T5; auto.
  - exact T6.
Qed.

Lemma state_upd_trainer_id ti f s : f (get_trainer s ti) = get_trainer s ti -> upd_trainer ti f s = s.
Proof.
  intros H. unfold upd_trainer. rewrite (upd_id ti f (trainers s) dummy_trainer H). destruct s; reflexivity.
Qed.

Lemma pool_del_observed_absent s ti cn :
  TI s -> amem cn (t_cells (get_trainer s ti)) = false -> pool_del_observed ti cn s = s.
Proof.
  intros (T1 & _) Hm. destruct (T1 ti) as (A & B & C & D).
  assert (Nc : ~ In cn (map fst (t_cells (get_trainer s ti)))).
  { intros K. apply amem_In in K. congruence. }
  unfold pool_del_observed.
  assert (E : alookup cn (t_pool (get_trainer s ti)) = None).
  { apply alookup_None. intros K. apply in_map_iff in K as [[c g] [E1 E2]]. simpl in E1; subst c. apply Nc. apply (D cn g E2). }
  rewrite E. apply state_upd_trainer_id. rewrite adel_absent by (rewrite B; auto). destruct (get_trainer s ti); reflexivity.
Qed.

Lemma register_cell_TI w s ti cn c hp s' r :
  register_cell w s ti cn c hp = (s', r) -> t_alive (get_trainer s ti) = true -> Inv1 s -> TI s -> TI s'.
Proof.
  unfold register_cell. intros E Hal I T.
  destruct (amem cn (t_cells (get_trainer s ti))) eqn:Em; [inversion E; subst; auto|].
  rewrite (pool_del_observed_absent _ _ _ T Em) in E.
  pose proof T as (T1 & T2 & T3 & T4 & T5 & T6). destruct (T1 ti) as (A & B & C & D).
  assert (Nc : ~ In cn (map fst (t_cells (get_trainer s ti)))).
  { intros K. apply amem_In in K. congruence. }
  assert (Ht : ti < length (trainers s)).
  { destruct (Nat.lt_ge_cases ti (length (trainers s))); auto. rewrite dummy_trainer_oob in Hal by auto. discriminate. }
  set (s2 := upd_trainer ti (fun t => set_cells (aset cn c (t_cells t)) t) s) in *.
  assert (G2 : get_trainer s2 ti = set_cells (aset cn c (t_cells (get_trainer s ti))) (get_trainer s ti)).
  { unfold s2. rewrite get_trainer_upd_same; auto. }
  rewrite G2 in E. simpl in E.
  assert (E1 : amem cn (t_observed (get_trainer s ti)) = false) by (rewrite B; exact Em).
  rewrite E1 in E.
  assert (E2 : amem cn (t_pool (get_trainer s ti)) = false).
  { destruct (amem cn (t_pool (get_trainer s ti))) eqn:K; auto. apply amem_In in K.
    apply in_map_iff in K as [[c' g] [K1 K2]]. simpl in K1; subst c'. exfalso. apply Nc. apply (D cn g K2). }
  rewrite E2 in E.
  set (s3 := upd_trainer ti (fun t => set_observed (aset cn c (t_observed t)) t) s2) in *.
  set (g := fun t : trainer => set_observed (aset cn c (t_observed t)) (set_cells (aset cn c (t_cells t)) t)).
  assert (Eq : s3 = upd_trainer ti g s).
  { unfold s3, s2, upd_trainer, set_trainers. simpl. rewrite upd_upd. reflexivity. }
  assert (T3' : TI s3).
  { rewrite Eq.
    assert (G : forall k, get_trainer (upd_trainer ti g s) k = g (get_trainer s ti) /\ k = ti \/
                          get_trainer (upd_trainer ti g s) k = get_trainer s k).
    { intros k. rewrite get_trainer_upd. destruct (Nat.eqb ti k && Nat.ltb ti (length (trainers s))) eqn:E3; auto.
      apply andb_true_iff in E3 as [E3 _]. apply Nat.eqb_eq in E3. auto. }
    unfold TI. change (mons (upd_trainer ti g s)) with (mons s). change (get_mon (upd_trainer ti g s)) with (get_mon s).
    split; [|split; [|split; [|split; [|split]]]].
    - intros k. destruct (G k) as [[-> _]| -> ]; auto. unfold g, keys_ok; simpl.
      split; [apply NoDup_keys_aset; auto|]. split; [rewrite B; reflexivity|]. split; [exact C|].
      intros c' g' H. destruct (D c' g' H) as [K1 K2]. split; auto. apply keys_aset. auto.
    - intros k. destruct (G k) as [[-> ->]| -> ]; auto. unfold g; simpl. rewrite Hal. discriminate.
    - intros k c' m j c0. destruct (G k) as [[-> ->]| -> ]; [|apply T3].
      change (pool_named (g (get_trainer s ti))) with (pool_named (get_trainer s ti)). unfold g; simpl.
      intros H1 H2. apply (T3 ti c' m j c0); auto. rewrite alookup_aset_other in H2; auto.
      intros ->. apply Nc. apply pool_named_In in H1 as (g' & H1 & _). apply (D cn g' H1).
    - intros t1 t2 j. destruct (G t1) as [[-> ->]| -> ]; destruct (G t2) as [[-> ->]| -> ]; intros H1 H2.
      + reflexivity.
      + apply (T4 ti t2 j); auto.
      + apply (T4 t1 ti j); auto.
      + apply (T4 t1 t2 j); auto.
    - intros k j. destruct (G k) as [[-> ->]| -> ]; [|apply T5]. intros H1 H2. apply (T5 ti j); auto.
    - exact T6. }
  assert (I3 : Inv1 s3).
  { unfold s3. apply Inv1_trainers_only; auto. apply Inv1_trainers_only; auto. }
  destruct (conn_info w c) as [dt cdel].
  eapply add_specs_TI; eauto.
Qed.

Lemma add_monitor_TI s ti cn sp s' r : add_monitor s ti cn sp = (s', r) -> Inv1 s -> TI s -> TI s'.
Proof.
  unfold add_monitor. intros E I T.
  destruct (negb (amem cn (t_cells (get_trainer s ti)))); [inversion E; subst; auto|].
  eapply pool_add_monitor_TI; eauto.
Qed.

Lemma pool_del_monitor_TI s ti cn mn s' r : pool_del_monitor s ti cn mn = (s', r) -> TI s -> TI s'.
Proof.
  unfold pool_del_monitor. intros E T.
  destruct (alookup cn (t_pool (get_trainer s ti))) as [g|] eqn:Eg; [|inversion E; subst; auto].
  destruct (alookup cn (t_observed (get_trainer s ti))) as [cell|] eqn:Ec; [|inversion E; subst; auto].
  destruct (alookup mn g) as [i|] eqn:Ei; [|inversion E; subst; auto].
  inversion E; subst; clear E.
  pose proof (TI_alive_of_cell _ _ _ _ T Ec) as Hal.
  pose proof (TI_deregister i s T) as Td.
  assert (Gd : get_trainer (deregister i s) = get_trainer s).
  { unfold get_trainer. destruct (deregister_others i s) as (A & _). rewrite A. reflexivity. }
  apply TI_shrink; auto. cbv zeta. rewrite Gd.
  destruct T as (T1 & _). destruct (T1 ti) as (A & B & C & D).
  pose proof (alookup_In _ _ _ Eg) as Ig. destruct (D cn g Ig) as [NDg Hcn].
  (* the result equals deleting the entry, possibly dropping the emptied group *)
  assert (Ent : forall c m j,
            In (c, m, j) (pool_named (set_pool match adel mn g with
                                               | [] => adel cn (t_pool (get_trainer s ti))
                                               | _ :: _ => aset cn (adel mn g) (t_pool (get_trainer s ti))
                                               end (get_trainer s ti))) ->
            In (c, m, j) (pool_named (get_trainer s ti))).
  { intros c m j. rewrite !pool_named_In. simpl. intros (g' & H1 & H2).
    destruct (adel mn g) eqn:Ed.
    - apply In_adel_weak in H1. eauto.
    - apply In_aset in H1; auto. destruct H1 as [H1|[H1 _]]; [|eauto].
      inversion H1; subst. rewrite <- Ed in H2. apply In_adel_weak in H2. eauto. }
  split.
  { unfold keys_ok; simpl. split; [exact A|]. split; [exact B|].
    destruct (adel mn g) eqn:Ed.
    - split; [apply NoDup_keys_adel; auto|]. intros c g' H. apply In_adel_weak in H. apply D; auto.
    - split; [apply NoDup_keys_aset; auto|]. intros c g' H. apply In_aset in H; auto.
      destruct H as [H|[H _]]; [|apply D; auto]. inversion H; subst. split; auto. rewrite <- Ed. apply NoDup_keys_adel; auto. }
  split; [reflexivity|]. split; [reflexivity|]. split; [reflexivity|]. split.
  - intros [[c m] j]. apply Ent.
  - rewrite Hal. discriminate.
Qed.

Lemma TI_pool_alive s t i : TI s -> In i (pool_mids (get_trainer s t)) -> m_alive (get_mon s i) = true.
Proof.
  intros (T1 & _ & T3 & _) H. apply pool_mids_named in H as (cn & mn & H).
  destruct (T1 t) as (_ & _ & _ & D). pose proof H as H'. apply pool_named_In in H' as (g & H1 & _).
  destruct (D cn g H1) as [_ K]. apply in_map_iff in K as [[c' c] [E1 E2]]. simpl in E1; subst c'.
  destruct (T1 t) as (A & _). apply (In_alookup _ _ _ A) in E2. destruct (T3 t cn mn i c H E2); auto.
Qed.

Lemma deregister_length i s : length (mons (deregister i s)) = length (mons s).
Proof. unfold deregister. destruct (m_reg (get_mon s i)); auto. rewrite length_mons_upd_mon. reflexivity. Qed.
Lemma reregister_length i s : length (mons (reregister i s)) = length (mons s).
Proof.
  unfold reregister. destruct (m_reg (get_mon s i)); auto. unfold do_register. rewrite length_mons_upd_mon. reflexivity.
Qed.
Lemma deregister_all_length l : forall s, length (mons (deregister_all l s)) = length (mons s).
Proof. induction l as [|a tl IH]; simpl; intros s; auto. rewrite IH. apply deregister_length. Qed.
Lemma reregister_all_length l : forall s, length (mons (reregister_all l s)) = length (mons s).
Proof. induction l as [|a tl IH]; simpl; intros s; auto. rewrite IH. apply reregister_length. Qed.

Lemma trainer_mode_TI s ti mode : Inv1 s -> TI s -> TI (trainer_mode s ti mode).
Proof.
  intros [HWs P] T. pose proof T as (T1 & T2 & T3 & T4 & T5 & T6). unfold trainer_mode.
  set (s1 := upd_trainer ti (set_training mode) s).
  set (ms := pool_monitors (get_trainer s1 ti)).
  assert (G : forall k, get_trainer s1 k = set_training mode (get_trainer s ti) /\ k = ti \/
                        get_trainer s1 k = get_trainer s k /\ (k <> ti \/ length (trainers s) <= ti)).
  { intros k. unfold s1. rewrite get_trainer_upd. destruct (Nat.eqb ti k) eqn:E; simpl.
    - apply Nat.eqb_eq in E. destruct (Nat.ltb ti (length (trainers s))) eqn:L; auto.
      apply Nat.ltb_ge in L. auto.
    - apply Nat.eqb_neq in E. auto. }
  assert (Pm : forall k, pool_mids (get_trainer s1 k) = pool_mids (get_trainer s k) /\
                         pool_named (get_trainer s1 k) = pool_named (get_trainer s k) /\
                         t_cells (get_trainer s1 k) = t_cells (get_trainer s k) /\
                         t_alive (get_trainer s1 k) = t_alive (get_trainer s k) /\
                         t_pool (get_trainer s1 k) = t_pool (get_trainer s k) /\
                         (keys_ok (get_trainer s k) -> keys_ok (get_trainer s1 k))).
  { intros k. destruct (G k) as [[-> ->]|[-> _]]; [|tauto].
    split; [reflexivity|]. split; [reflexivity|]. split; [reflexivity|]. split; [reflexivity|]. split; [reflexivity|].
    intros K. exact K. }
  assert (Hms : forall j, mem_nat j ms = true <-> In j (pool_mids (get_trainer s ti))).
  { intros j. unfold ms. rewrite mem_nat_In, pool_monitors_In. destruct (Pm ti) as (-> & _). reflexivity. }
  assert (Tr : forall (sx : state), trainers sx = trainers s1 -> get_trainer sx = get_trainer s1).
  { intros sx E. unfold get_trainer. rewrite E. reflexivity. }
  destruct mode.
  - (* train(): register everything in the pool *)
    assert (V : forall i, In i ms -> i < length (mons s1)).
    { intros i Hi. apply mem_nat_In in Hi. apply Hms in Hi. apply (P ti); auto. }
    pose proof (reregister_all_mon ms s1) as M. destruct (reregister_all_trainers ms s1) as (Trs & _).
    pose proof (reregister_all_quiet ms s1) as (L1 & _ & L3 & _).
    set (s' := reregister_all ms s1) in *.
    unfold TI. rewrite (Tr s' Trs).
    split; [|split; [|split; [|split; [|split]]]].
    + intros k. destruct (Pm k) as (_ & _ & _ & _ & _ & K). auto.
    + intros k. destruct (Pm k) as (_ & _ & A & B & C & _). rewrite A, B, C. apply T2.
    + intros k cn mn i c. destruct (Pm k) as (_ & A & B & _). rewrite A, B. intros H1 H2.
      rewrite M by auto. change (get_mon s1 i) with (get_mon s i).
      destruct (T3 k cn mn i c H1 H2). destruct (mem_nat i ms); auto.
    + intros t1 t2 i. destruct (Pm t1) as (-> & _). destruct (Pm t2) as (-> & _). apply T4.
    + intros k i. destruct (Pm k) as (-> & _). intros H1 H2. rewrite M in H2 by auto. change (get_mon s1 i) with (get_mon s i) in H2.
      destruct (G k) as [[-> ->]|[-> N]]; [reflexivity|].
      destruct (mem_nat i ms) eqn:Em.
      * apply Hms in Em. destruct N as [N|N]; [exfalso; apply N; apply (T4 k ti i); auto|].
        rewrite (dummy_trainer_oob s ti) in Em by auto. destruct Em.
      * apply (T5 k i); auto.
    + intros i Hi. rewrite M by auto. change (get_mon s1 i) with (get_mon s i).
      destruct (mem_nat i ms) eqn:Em.
      * apply Hms in Em. intros _. pose proof (TI_pool_alive _ _ _ T Em) as Al. destruct (get_mon s i); simpl in *; auto.
      * intros H. apply T6; auto. unfold s' in Hi. rewrite reregister_all_length in Hi. exact Hi.
  - (* eval(): deregister everything in the pool *)
    pose proof (deregister_all_mon ms s1) as M. destruct (deregister_all_trainers ms s1) as (Trs & _).
    set (s' := deregister_all ms s1) in *.
    unfold TI. rewrite (Tr s' Trs).
    split; [|split; [|split; [|split; [|split]]]].
    + intros k. destruct (Pm k) as (_ & _ & _ & _ & _ & K). auto.
    + intros k. destruct (Pm k) as (_ & _ & A & B & C & _). rewrite A, B, C. apply T2.
    + intros k cn mn i c. destruct (Pm k) as (_ & A & B & _). rewrite A, B. intros H1 H2.
      rewrite M. change (get_mon s1 i) with (get_mon s i).
      destruct (T3 k cn mn i c H1 H2). destruct (mem_nat i ms); auto.
    + intros t1 t2 i. destruct (Pm t1) as (-> & _). destruct (Pm t2) as (-> & _). apply T4.
    + intros k i. destruct (Pm k) as (-> & _). intros H1 H2. rewrite M in H2. change (get_mon s1 i) with (get_mon s i) in H2.
      destruct (mem_nat i ms) eqn:Em; [destruct (get_mon s i); simpl in H2; discriminate|].
      destruct (G k) as [[-> ->]|[-> _]]; [|apply (T5 k i); auto].
      exfalso. assert (mem_nat i ms = true) by (apply Hms; auto). congruence.
    + intros i Hi. rewrite M. change (get_mon s1 i) with (get_mon s i).
      pose proof (deregister_all_quiet ms s1) as (L1 & _).
      destruct (mem_nat i ms); [destruct (get_mon s i); simpl; discriminate|].
      intros H. apply T6; auto. unfold s' in Hi. rewrite deregister_all_length in Hi. exact Hi.
Qed.

(* ------------------------------------------------------------------ garbage collection *)
Lemma referenced_ext s s' i : trainers s' = trainers s -> referenced s' i = referenced s i.
Proof. intros E. unfold referenced. rewrite E. reflexivity. Qed.

Lemma referenced_spec s i :
  referenced s i = true <-> exists t, t_alive (get_trainer s t) = true /\ In i (pool_mids (get_trainer s t)).
Proof.
  unfold referenced. rewrite existsb_exists. split.
  - intros (t & H1 & H2). apply andb_true_iff in H2 as [H2 H3]. apply mem_nat_In in H3.
    apply In_nth with (d := dummy_trainer) in H1 as (n & Hn & E). exists n. unfold get_trainer. rewrite E. auto.
  - intros (n & H1 & H2). destruct (Nat.lt_ge_cases n (length (trainers s))) as [Hn|Hn].
    + exists (get_trainer s n). split; [apply nth_In; auto|]. rewrite H1. simpl. apply mem_nat_In. exact H2.
    + rewrite dummy_trainer_oob in H1 by auto. discriminate.
Qed.

Lemma kill_mon k s j :
  get_mon (upd_mon k set_dead (deregister k s)) j = if Nat.eqb k j then set_dead (get_mon s j) else get_mon s j.
Proof.
  destruct (Nat.eqb k j) eqn:E.
  - apply Nat.eqb_eq in E; subst j. destruct (Nat.lt_ge_cases k (length (mons s))) as [Hk|Hk].
    + rewrite get_mon_upd_same by (rewrite deregister_length; auto). rewrite deregister_mon, Nat.eqb_refl.
      destruct (get_mon s k); reflexivity.
    + rewrite get_mon_upd_oob by (rewrite deregister_length; auto). rewrite deregister_mon, Nat.eqb_refl.
      unfold get_mon. rewrite nth_overflow by auto. reflexivity.
  - apply Nat.eqb_neq in E. rewrite get_mon_upd_other by auto. rewrite deregister_mon.
    apply Nat.eqb_neq in E. rewrite E. reflexivity.
Qed.

Lemma collect_from_mon n : forall k s j,
  get_mon (collect_from k n s) j =
  (if Nat.leb k j && Nat.ltb j (k + n) && m_alive (get_mon s j) && negb (referenced s j)
   then set_dead (get_mon s j) else get_mon s j) /\
  trainers (collect_from k n s) = trainers s /\ length (mons (collect_from k n s)) = length (mons s) /\
  cmon (collect_from k n s) = cmon s /\ accs (collect_from k n s) = accs s.
Proof.
  induction n as [|n IH]; simpl; intros k s j.
  - replace (Nat.ltb j (k + 0)) with (negb (Nat.leb k j)).
    + destruct (Nat.leb k j); simpl; auto.
    + rewrite Nat.add_0_r. destruct (Nat.leb k j) eqn:A; destruct (Nat.ltb j k) eqn:B; auto;
        [apply Nat.leb_le in A; apply Nat.ltb_lt in B; lia|apply Nat.leb_gt in A; apply Nat.ltb_ge in B; lia].
  - set (s1 := if m_alive (get_mon s k) && negb (referenced s k) then upd_mon k set_dead (deregister k s) else s).
    assert (Tr1 : trainers s1 = trainers s /\ length (mons s1) = length (mons s) /\ cmon s1 = cmon s /\ accs s1 = accs s).
    { unfold s1. destruct (m_alive (get_mon s k) && negb (referenced s k)); auto. simpl.
      destruct (deregister_others k s) as (A & B & C). rewrite length_upd, deregister_length. auto. }
    destruct Tr1 as (Tr1 & L1 & C1 & A1).
    assert (M1 : forall x, get_mon s1 x = if Nat.eqb k x && m_alive (get_mon s x) && negb (referenced s x)
                                          then set_dead (get_mon s x) else get_mon s x).
    { intros x. unfold s1. destruct (Nat.eqb k x) eqn:E.
      - apply Nat.eqb_eq in E; subst x. simpl. destruct (m_alive (get_mon s k) && negb (referenced s k)); auto.
        rewrite kill_mon, Nat.eqb_refl. reflexivity.
      - simpl. destruct (m_alive (get_mon s k) && negb (referenced s k)); auto. rewrite kill_mon, E. reflexivity. }
    destruct (IH (S k) s1 j) as (IH1 & IH2 & IH3 & IH4 & IH5).
    split; [|rewrite IH2, IH3, IH4, IH5; auto].
    rewrite IH1. rewrite (referenced_ext s s1 j Tr1). rewrite M1.
    destruct (Nat.eqb k j) eqn:E.
    + apply Nat.eqb_eq in E; subst j.
      assert (H : Nat.leb (S k) k = false) by (apply Nat.leb_gt; lia). rewrite H.
      assert (H0 : Nat.leb k k = true) by (apply Nat.leb_le; lia). rewrite H0.
      assert (H1 : Nat.ltb k (k + S n) = true) by (apply Nat.ltb_lt; lia). rewrite H1.
      cbn [andb]. reflexivity.
    + apply Nat.eqb_neq in E.
      assert (H : Nat.leb (S k) j = Nat.leb k j).
      { destruct (Nat.leb (S k) j) eqn:A; destruct (Nat.leb k j) eqn:B; auto;
          [apply Nat.leb_le in A; apply Nat.leb_gt in B; lia|apply Nat.leb_gt in A; apply Nat.leb_le in B; lia]. }
      rewrite H. replace (S k + n) with (k + S n) by lia. cbn [andb]. reflexivity.
Qed.

Lemma collect_TI s : TI s -> TI (collect s).
Proof.
  intros T. pose proof T as (T1 & T2 & T3 & T4 & T5 & T6). unfold collect, prune_cmon. apply TI_cmon.
  set (s' := collect_from 0 (length (mons s)) s).
  assert (M : forall j, get_mon s' j = if m_alive (get_mon s j) && negb (referenced s j) then set_dead (get_mon s j) else get_mon s j).
  { intros j. destruct (collect_from_mon (length (mons s)) 0 s j) as (A & _). unfold s'. rewrite A. simpl.
    destruct (Nat.lt_ge_cases j (length (mons s))) as [Hj|Hj].
    - apply Nat.ltb_lt in Hj. rewrite Hj. reflexivity.
    - unfold get_mon. rewrite nth_overflow by auto. simpl. destruct (Nat.ltb j (length (mons s))); reflexivity. }
  destruct (collect_from_mon (length (mons s)) 0 s 0) as (_ & Tr & L & _). fold s' in Tr, L.
  assert (Ref : forall t i, In i (pool_mids (get_trainer s t)) -> get_mon s' i = get_mon s i).
  { intros t i H. rewrite M. assert (R : referenced s i = true).
    { apply referenced_spec. exists t. split; auto. destruct (t_alive (get_trainer s t)) eqn:E; auto.
      destruct (T2 t E) as [P _]. unfold pool_mids in H. rewrite P in H. destruct H. }
    rewrite R. rewrite andb_false_r. reflexivity. }
  unfold TI, get_trainer. rewrite Tr. fold (get_trainer s).
  split; [exact T1|]. split; [exact T2|]. split; [|split; [exact T4|split]].
  - intros t cn mn i c H1 H2. rewrite (Ref t i); [eapply T3; eauto|]. apply pool_mids_named. eauto.
  - intros t i H1 H2. rewrite (Ref t i H1) in H2. eapply T5; eauto.
  - intros i Hi. rewrite L in Hi. rewrite M. destruct (m_alive (get_mon s i) && negb (referenced s i)).
    + destruct (get_mon s i); simpl; discriminate.
    + apply T6; auto.
Qed.

(* after collection every live monitor is in the pool of a live trainer *)
Definition Collected (s : state) : Prop :=
  forall i, i < length (mons s) -> m_alive (get_mon s i) = true -> referenced s i = true.

Lemma collect_Collected s : Collected (collect s).
Proof.
  unfold Collected, collect, prune_cmon. intros i Hi.
  change (get_mon (set_cmon _ (collect_from 0 (length (mons s)) s))) with (get_mon (collect_from 0 (length (mons s)) s)).
  destruct (collect_from_mon (length (mons s)) 0 s i) as (A & Tr & L & _). simpl in Hi. rewrite L in Hi.
  rewrite A. simpl. apply Nat.ltb_lt in Hi. rewrite Hi. simpl.
  assert (R : forall x, referenced (set_cmon x (collect_from 0 (length (mons s)) s)) i = referenced s i).
  { intros x. apply referenced_ext. simpl. exact Tr. }
  rewrite R. destruct (m_alive (get_mon s i)) eqn:Al; simpl.
  - destruct (referenced s i); simpl; auto.
  - rewrite Al. discriminate.
Qed.

(* ------------------------------------------------------------------ the remaining operations *)
Lemma clear_all_TI l s : TI s -> TI (clear_all l s).
Proof.
  apply TI_mons_change.
  - apply clear_all_others.
  - pose proof (clear_all_quiet l s) as (L & _). revert s L. induction l as [|a tl IH]; simpl; intros s L; auto.
    rewrite IH; [apply length_mons_upd_mon|]. pose proof (clear_all_quiet tl (upd_mon a (set_fresh true) s)) as (L2 & _). exact L2.
  - intros j. rewrite clear_all_mon. destruct (mem_nat j l); auto.
Qed.

Lemma layer_step_TI s l s' r : HW s -> layer_step s l = (s', r) -> TI s -> TI s'.
Proof.
  intros H E T. destruct (Nat.lt_ge_cases l (length (layers s))) as [Hl|Hl].
  - destruct (layer_step_frame _ _ _ _ H Hl E) as (Tr & _ & _ & L & _).
    eapply TI_mons_change; eauto. intros j.
    destruct (layer_step_at_most_once _ _ _ _ H Hl E j) as [->|(_ & rd & ->)]; auto.
  - unfold layer_step in E. rewrite upd_layer_oob in E by auto. unfold get_layer in E. rewrite nth_overflow in E by auto.
    simpl in E. inversion E; subst. exact T.
Qed.

Lemma TI_ext s s' : trainers s' = trainers s -> mons s' = mons s -> TI s -> TI s'.
Proof.
  intros Tr M. apply TI_mons_change; auto; [rewrite M; auto|]. intros j. unfold get_mon. rewrite M. auto.
Qed.

Lemma step_raw_TI w s o s' r : op_enabled s o = true -> step_raw w s o = (s', r) -> Inv1 s -> TI s -> TI s'.
Proof.
  destruct o; simpl; intros En E I T.
  - eapply register_cell_TI; eauto.
  - eapply del_cell_TI; eauto.
  - eapply add_monitor_TI; eauto.
  - eapply pool_del_monitor_TI; eauto.
  - inversion E; subst. apply trainer_mode_TI; auto.
  - inversion E; subst. eapply TI_ext; [| |exact T]; reflexivity.
  - destruct I as [H _]. eapply layer_step_TI; eauto.
  - unfold trainer_step in E. apply trainer_cells_step_frame in E as (A & B & C & D). eapply TI_ext; eauto.
  - inversion E; subst. apply clear_all_TI; auto.
  - inversion E; subst. unfold op_enabled in En. simpl in En.
    pose proof T as (T1 & T2 & T3 & T4 & T5 & T6).
    assert (G : forall k, get_trainer (upd_trainer t kill_trainer s) k = kill_trainer (get_trainer s t) /\ k = t \/
                          get_trainer (upd_trainer t kill_trainer s) k = get_trainer s k).
    { intros k. rewrite get_trainer_upd. destruct (Nat.eqb t k && Nat.ltb t (length (trainers s))) eqn:E3; auto.
      apply andb_true_iff in E3 as [E3 _]. apply Nat.eqb_eq in E3. auto. }
    unfold TI. change (mons (upd_trainer t kill_trainer s)) with (mons s).
    change (get_mon (upd_trainer t kill_trainer s)) with (get_mon s).
    split; [|split; [|split; [|split; [|split]]]].
    + intros k. destruct (G k) as [[-> _]| -> ]; auto. unfold kill_trainer, keys_ok; simpl.
      split; [constructor|]. split; [reflexivity|]. split; [constructor|]. intros cn g [].
    + intros k. destruct (G k) as [[-> _]| -> ]; auto.
    + intros k cn mn i c. destruct (G k) as [[-> _]| -> ]; [intros []|apply T3].
    + intros t1 t2 i. destruct (G t1) as [[-> _]| -> ]; [intros []|]. destruct (G t2) as [[-> _]| -> ]; [intros _ []|apply T4].
    + intros k i. destruct (G k) as [[-> _]| -> ]; [intros []|apply T5].
    + exact T6.
Qed.

Theorem step_TI w s o : Inv1 s -> TI s -> TI (fst (step w s o)).
Proof.
  intros I T. unfold step. destruct (op_enabled s o) eqn:En; [|exact T].
  destruct (step_raw w s o) as [s1 r] eqn:E. simpl. apply collect_TI. eapply step_raw_TI; eauto.
Qed.

Theorem run_TI w ops : forall s, Inv1 s -> TI s -> Inv1 (run w s ops) /\ TI (run w s ops).
Proof.
  induction ops as [|o tl IH]; simpl; intros s I T; auto. apply IH; [apply step_Inv1; auto|apply step_TI; auto].
Qed.

(* ------------------------------------------------------------------ headline consequences, for every operation
   sequence from the initial state *)
Definition reachable (w : world) (tys : list ttype) (s : state) : Prop := exists ops, s = run w (init_state w tys) ops.

Lemma reachable_inv w tys s : reachable w tys s -> Inv1 s /\ TI s.
Proof. intros [ops ->]. apply run_TI; [apply Inv1_init|apply TI_init]. Qed.

(* No monitor of a trainer that is in eval mode is hooked; hence (layer_step_at_most_once) it records nothing. *)
Theorem eval_trainer_records_nothing w tys s t i l s' r :
  reachable w tys s -> In i (pool_mids (get_trainer s t)) -> t_training (get_trainer s t) = false ->
  layer_step s l = (s', r) -> get_mon s' i = get_mon s i.
Proof.
  intros R Hin Hev E. destruct (reachable_inv _ _ _ R) as [[H P] T].
  destruct T as (_ & _ & _ & _ & T5 & _).
  destruct (Nat.lt_ge_cases l (length (layers s))) as [Hl|Hl].
  - destruct (layer_step_at_most_once _ _ _ _ H Hl E i) as [K|(K & _)]; auto.
    unfold records in K. apply andb_true_iff in K as [K _]. apply andb_true_iff in K as [K _].
    specialize (T5 t i Hin K). congruence.
  - unfold layer_step in E. rewrite upd_layer_oob in E by auto. unfold get_layer in E. rewrite nth_overflow in E by auto.
    simpl in E. inversion E; subst. reflexivity.
Qed.

(* every monitor belongs to exactly one trainer: pools of different trainers are disjoint *)
Theorem pools_disjoint w tys s t1 t2 i :
  reachable w tys s -> In i (pool_mids (get_trainer s t1)) -> In i (pool_mids (get_trainer s t2)) -> t1 = t2.
Proof. intros R. destruct (reachable_inv _ _ _ R) as [_ (_ & _ & _ & T4 & _)]. apply T4. Qed.

Lemma Collected_init w tys : Collected (init_state w tys).
Proof. intros i Hi. simpl in Hi. lia. Qed.

Lemma step_Collected w s o : Collected s -> Collected (fst (step w s o)).
Proof.
  intros C. unfold step. destruct (op_enabled s o); [|exact C].
  destruct (step_raw w s o) as [s1 r]. simpl. apply collect_Collected.
Qed.

Lemma run_Collected w ops : forall s, Collected s -> Collected (run w s ops).
Proof. induction ops as [|o tl IH]; simpl; intros s C; auto. apply IH, step_Collected; auto. Qed.

(* No dangling recorder: whatever was removed, dropped or replaced, every monitor that is still hooked on a layer
   belongs to the pool of a live trainer which is in training mode. *)
Theorem registered_monitor_has_training_owner w tys s i :
  reachable w tys s -> i < length (mons s) -> m_reg (get_mon s i) = true ->
  exists t, t_alive (get_trainer s t) = true /\ t_training (get_trainer s t) = true /\ In i (pool_mids (get_trainer s t)).
Proof.
  intros R Hi Hr. destruct (reachable_inv _ _ _ R) as [_ T]. destruct R as [ops ->].
  pose proof (run_Collected w ops _ (Collected_init w tys)) as C.
  destruct T as (_ & _ & _ & _ & T5 & T6).
  specialize (C i Hi (T6 i Hi Hr)). apply referenced_spec in C as (t & A & B). exists t. split; auto. split; auto.
  apply (T5 t i); auto.
Qed.
