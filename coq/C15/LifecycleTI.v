(* C15 - trainer-level invariant TI: pools reference live monitors of the right layer, every monitor belongs to
   one trainer, nothing records while its trainer is in eval mode, registered monitors are alive and (after
   garbage collection) owned by a live trainer.  Preserved by every operation (axiom-free). *)
From Coq Require Import List ZArith Bool Arith Lia.
From Inferno Require Import C15.Lifecycle C15.LifecycleLemmas C15.LifecycleProofs.
Import ListNotations.

(* ------------------------------------------------------------------ entries of a pool *)
Definition keys_ok (t : trainer) : Prop :=
  NoDup (map fst (t_cells t)) /\ t_observed t = t_cells t /\ NoDup (map fst (t_pool t)) /\
  (forall cn g, In (cn, g) (t_pool t) -> NoDup (map fst g) /\ In cn (map fst (t_cells t))).

Lemma pool_named_In t cn mn i :
  In (cn, mn, i) (pool_named t) <-> exists g, In (cn, g) (t_pool t) /\ In (mn, i) g.
Proof.
  unfold pool_named. rewrite in_flat_map. split.
  - intros [[c g] [H1 H2]]. simpl in H2. apply in_map_iff in H2 as [[m j] [E H2]]. simpl in E. inversion E; subst.
    exists g; auto.
  - intros (g & H1 & H2). exists (cn, g). split; auto. simpl. apply in_map_iff. exists (mn, i); auto.
Qed.

Lemma pool_mids_named t i : In i (pool_mids t) <-> exists cn mn, In (cn, mn, i) (pool_named t).
Proof.
  rewrite pool_mids_In. split.
  - intros (cn & g & mn & H1 & H2). exists cn, mn. apply pool_named_In. eauto.
  - intros (cn & mn & H). apply pool_named_In in H as (g & H1 & H2). eauto.
Qed.

Lemma pool_named_get t cn mn i : keys_ok t -> (In (cn, mn, i) (pool_named t) <-> pool_get t cn mn = Some i).
Proof.
  intros (_ & _ & ND & G). rewrite pool_named_In. unfold pool_get. split.
  - intros (g & H1 & H2). rewrite (In_alookup _ _ _ ND H1). apply In_alookup; auto. apply (G cn g H1).
  - destruct (alookup cn (t_pool t)) as [g|] eqn:E; [|discriminate]. intros H. exists g.
    split; apply alookup_In; auto.
Qed.

Lemma pool_named_put t cn mn i c m j :
  keys_ok t -> In cn (map fst (t_cells t)) ->
  (In (c, m, j) (pool_named (pool_put cn mn i t)) <->
   (c, m, j) = (cn, mn, i) \/ (In (c, m, j) (pool_named t) /\ (c, m) <> (cn, mn))).
Proof.
  intros (_ & _ & ND & G) Hc. rewrite !pool_named_In. unfold pool_put. simpl.
  set (g0 := match alookup cn (t_pool t) with Some g => g | None => [] end).
  assert (ND0 : NoDup (map fst g0)).
  { unfold g0. destruct (alookup cn (t_pool t)) eqn:E; [|constructor]. apply alookup_In in E. apply (G cn l E). }
  split.
  - intros (g & H1 & H2). apply In_aset in H1; auto. destruct H1 as [H1|[H1 N]].
    + inversion H1; subst. apply In_aset in H2; auto. destruct H2 as [H2|[H2 N]].
      * inversion H2; subst. left; reflexivity.
      * right. split; [|simpl in N; congruence]. unfold g0 in H2. destruct (alookup cn (t_pool t)) eqn:E; [|destruct H2].
        exists l. split; auto. apply alookup_In; auto.
    + right. simpl in N. split; [exists g; auto|congruence].
  - intros [E|[(g & H1 & H2) N]].
    + inversion E; subst. exists (aset mn i g0). split; [apply In_aset; auto|apply In_aset; auto].
    + destruct (Nat.eq_dec c cn) as [->|Nc].
      * exists (aset mn i g0). split; [apply In_aset; auto|].
        apply In_aset; auto. right. split; [|simpl; congruence].
        unfold g0. rewrite (In_alookup _ _ _ ND H1). exact H2.
      * exists g. split; auto. apply In_aset; auto.
Qed.

Lemma keys_ok_put t cn mn i : keys_ok t -> In cn (map fst (t_cells t)) -> keys_ok (pool_put cn mn i t).
Proof.
  intros (A & B & C & D) Hc. unfold pool_put, keys_ok. simpl. split; [exact A|]. split; [exact B|].
  split; [apply NoDup_keys_aset; auto|].
  intros c g H. apply In_aset in H; auto. destruct H as [H|[H _]]; [|apply D; auto].
  inversion H; subst. split; auto. apply NoDup_keys_aset.
  destruct (alookup cn (t_pool t)) eqn:E; [|constructor]. apply alookup_In in E. apply (D cn l E).
Qed.

Lemma pool_named_del_entry t cn mn c m j :
  keys_ok t ->
  (In (c, m, j) (pool_named (pool_del_entry cn mn t)) <-> In (c, m, j) (pool_named t) /\ (c, m) <> (cn, mn)).
Proof.
  intros (_ & _ & ND & G). unfold pool_del_entry.
  destruct (alookup cn (t_pool t)) as [g0|] eqn:E0.
  - rewrite !pool_named_In. simpl. pose proof (alookup_In _ _ _ E0) as I0. destruct (G cn g0 I0) as [ND0 _]. split.
    + intros (g & H1 & H2). apply In_aset in H1; auto. destruct H1 as [H1|[H1 N]].
      * inversion H1; subst. apply In_adel in H2; auto. destruct H2 as [H2 N]. split; [eauto|simpl in N; congruence].
      * simpl in N. split; [eauto|congruence].
    + intros [(g & H1 & H2) N]. destruct (Nat.eq_dec c cn) as [->|Nc].
      * exists (adel mn g0). split; [apply In_aset; auto|]. apply In_adel; auto.
        rewrite (In_alookup _ _ _ ND H1) in E0. inversion E0; subst. split; [exact H2|simpl; congruence].
      * exists g. split; auto. apply In_aset; auto.
  - split; [|tauto]. intros H. split; auto. intros E. inversion E; subst.
    apply pool_named_In in H as (g & H1 & _). apply alookup_None in E0. apply E0. apply in_map_iff. exists (cn, g); auto.
Qed.

Lemma keys_ok_del_entry t cn mn : keys_ok t -> keys_ok (pool_del_entry cn mn t).
Proof.
  intros (A & B & C & D). unfold pool_del_entry. destruct (alookup cn (t_pool t)) as [g0|] eqn:E0; [|unfold keys_ok; auto].
  unfold keys_ok. simpl. split; [exact A|]. split; [exact B|]. split; [apply NoDup_keys_aset; auto|].
  intros c g H. apply In_aset in H; auto. destruct H as [H|[H _]]; [|apply D; auto].
  inversion H; subst. apply alookup_In in E0. destruct (D cn g0 E0). split; auto. apply NoDup_keys_adel; auto.
Qed.

Lemma pool_named_adel t cn c m j :
  keys_ok t -> (In (c, m, j) (pool_named (set_pool (adel cn (t_pool t)) t)) <-> In (c, m, j) (pool_named t) /\ c <> cn).
Proof.
  intros (_ & _ & ND & G). rewrite !pool_named_In. simpl. split.
  - intros (g & H1 & H2). apply In_adel in H1; auto. destruct H1 as [H1 N]. split; eauto.
  - intros [(g & H1 & H2) N]. exists g. split; auto. apply In_adel; auto.
Qed.

Lemma keys_ok_adel t cn : keys_ok t -> keys_ok (set_pool (adel cn (t_pool t)) t).
Proof.
  intros (A & B & C & D). unfold keys_ok. simpl. split; [exact A|]. split; [exact B|]. split; [apply NoDup_keys_adel; auto|].
  intros c g H. apply In_adel_weak in H. apply D; auto.
Qed.

(* ------------------------------------------------------------------ exact effect of the bulk operations on monitors *)
Lemma set_reg_idem b m : set_reg b (set_reg b m) = set_reg b m.
Proof. destruct m; reflexivity. Qed.

Lemma deregister_all_mon l : forall s j,
  get_mon (deregister_all l s) j = if mem_nat j l then set_reg false (get_mon s j) else get_mon s j.
Proof.
  induction l as [|i tl IH]; simpl; intros s j; auto.
  rewrite IH, deregister_mon. rewrite (Nat.eqb_sym j i).
  destruct (Nat.eqb i j); simpl; destruct (mem_nat j tl); auto.
Qed.

Lemma do_register_mon i s j : i < length (mons s) ->
  get_mon (do_register i s) j = if Nat.eqb i j then set_reg true (get_mon s j) else get_mon s j.
Proof.
  intros Hi. unfold do_register. destruct (Nat.eqb i j) eqn:E.
  - apply Nat.eqb_eq in E; subst j. rewrite get_mon_upd_same; auto.
  - apply Nat.eqb_neq in E. rewrite get_mon_upd_other; auto.
Qed.

Lemma reregister_mon i s j : i < length (mons s) ->
  get_mon (reregister i s) j = if Nat.eqb i j then set_reg true (get_mon s j) else get_mon s j.
Proof.
  intros Hi. unfold reregister. destruct (m_reg (get_mon s i)) eqn:E; [|apply do_register_mon; auto].
  destruct (Nat.eqb i j) eqn:E2; auto. apply Nat.eqb_eq in E2; subst j. rewrite <- E. symmetry. apply set_reg_same.
Qed.

Lemma reregister_all_mon l : forall s j, (forall i, In i l -> i < length (mons s)) ->
  get_mon (reregister_all l s) j = if mem_nat j l then set_reg true (get_mon s j) else get_mon s j.
Proof.
  induction l as [|i tl IH]; simpl; intros s j Hl; auto.
  rewrite IH.
  - rewrite reregister_mon by auto. rewrite (Nat.eqb_sym j i).
    destruct (Nat.eqb i j); simpl; destruct (mem_nat j tl); auto.
  - intros k Hk. pose proof (quiet_reregister i s) as (L & _). specialize (Hl k (or_intror Hk)). lia.
Qed.

Lemma clear_all_mon l : forall s j,
  get_mon (clear_all l s) j = if mem_nat j l then set_fresh true (get_mon s j) else get_mon s j.
Proof.
  induction l as [|i tl IH]; simpl; intros s j; auto.
  rewrite IH. rewrite (Nat.eqb_sym j i). destruct (Nat.eq_dec i j) as [<-|N].
  - rewrite Nat.eqb_refl. simpl.
    destruct (Nat.lt_ge_cases i (length (mons s))) as [Hi|Hi].
    + rewrite get_mon_upd_same by auto. destruct (mem_nat i tl); auto.
    + rewrite get_mon_upd_oob by auto. destruct (mem_nat i tl); auto.
      unfold get_mon. rewrite nth_overflow by auto. reflexivity.
  - apply Nat.eqb_neq in N. rewrite N. simpl. apply Nat.eqb_neq in N. rewrite get_mon_upd_other by auto. reflexivity.
Qed.

Lemma clear_all_others l s :
  layers (clear_all l s) = layers s /\ trainers (clear_all l s) = trainers s /\ cmon (clear_all l s) = cmon s /\
  accs (clear_all l s) = accs s.
Proof. revert s; induction l as [|i tl IH]; simpl; intros s; auto. destruct (IH (upd_mon i (set_fresh true) s)) as (A&B&C&D). rewrite A,B,C,D. auto. Qed.

(* layers' flags are never touched by the pool operations *)
Lemma deregister_layer_flags i s l :
  l_training (get_layer (deregister i s) l) = l_training (get_layer s l) /\
  l_steps (get_layer (deregister i s) l) = l_steps (get_layer s l).
Proof.
  unfold deregister. destruct (m_reg (get_mon s i)); auto.
  match goal with |- context [upd_mon ?a ?b ?c] => change (get_layer (upd_mon a b c) l) with (get_layer c l) end.
  destruct (Nat.lt_ge_cases (m_layer (get_mon s i)) (length (layers s))) as [Hl|Hl]; [|rewrite upd_layer_oob by auto; auto].
  destruct (Nat.eq_dec (m_layer (get_mon s i)) l) as [<-|N]; [rewrite get_layer_upd_same by auto; auto|
                                                               rewrite get_layer_upd_other by auto; auto].
Qed.

Lemma do_register_layer_flags i s l :
  l_training (get_layer (do_register i s) l) = l_training (get_layer s l) /\
  l_steps (get_layer (do_register i s) l) = l_steps (get_layer s l).
Proof.
  unfold do_register.
  match goal with |- context [upd_mon ?a ?b ?c] => change (get_layer (upd_mon a b c) l) with (get_layer c l) end.
  destruct (Nat.lt_ge_cases (m_layer (get_mon s i)) (length (layers s))) as [Hl|Hl]; [|rewrite upd_layer_oob by auto; auto].
  destruct (Nat.eq_dec (m_layer (get_mon s i)) l) as [<-|N]; [rewrite get_layer_upd_same by auto; auto|
                                                               rewrite get_layer_upd_other by auto; auto].
Qed.

Lemma deregister_all_layer_flags li : forall s l,
  l_training (get_layer (deregister_all li s) l) = l_training (get_layer s l).
Proof.
  induction li as [|i tl IH]; simpl; intros s l; auto. rewrite IH. apply deregister_layer_flags.
Qed.

Lemma reregister_all_layer_flags li : forall s l,
  l_training (get_layer (reregister_all li s) l) = l_training (get_layer s l).
Proof.
  induction li as [|i tl IH]; simpl; intros s l; auto. rewrite IH. unfold reregister.
  destruct (m_reg (get_mon s i)); auto. apply do_register_layer_flags.
Qed.

(* ------------------------------------------------------------------ the trainer-level invariant *)
Definition TI (s : state) : Prop :=
  (forall t, keys_ok (get_trainer s t)) /\
  (forall t, t_alive (get_trainer s t) = false -> t_pool (get_trainer s t) = [] /\ t_cells (get_trainer s t) = []) /\
  (forall t cn mn i c, In (cn, mn, i) (pool_named (get_trainer s t)) -> alookup cn (t_cells (get_trainer s t)) = Some c ->
                       m_alive (get_mon s i) = true /\ m_layer (get_mon s i) = cell_layer c) /\
  (forall t1 t2 i, In i (pool_mids (get_trainer s t1)) -> In i (pool_mids (get_trainer s t2)) -> t1 = t2) /\
  (forall t i, In i (pool_mids (get_trainer s t)) -> m_reg (get_mon s i) = true -> t_training (get_trainer s t) = true) /\
  (forall i, i < length (mons s) -> m_reg (get_mon s i) = true -> m_alive (get_mon s i) = true).

Lemma init_trainer w tys n :
  let t := get_trainer (init_state w tys) n in t_pool t = [] /\ t_cells t = [] /\ t_observed t = [].
Proof.
  unfold get_trainer, init_state; simpl. revert n. induction tys as [|ty tl IH]; intros [|n]; simpl; auto.
Qed.

Lemma TI_init w tys : TI (init_state w tys).
Proof.
  unfold TI. pose proof (init_trainer w tys) as G. cbv zeta in G.
  split; [|split; [|split; [|split; [|split]]]].
  - intros t. destruct (G t) as (A & B & C). unfold keys_ok. rewrite A, B, C. simpl.
    split; [constructor|]. split; [reflexivity|]. split; [constructor|]. intros cn g [].
  - intros t _. destruct (G t) as (A & B & _). auto.
  - intros t cn mn i c H. unfold pool_named in H. destruct (G t) as (A & _). rewrite A in H. destruct H.
  - intros t1 t2 i H. unfold pool_mids in H. destruct (G t1) as (A & _). rewrite A in H. destruct H.
  - intros t i H. unfold pool_mids in H. destruct (G t) as (A & _). rewrite A in H. destruct H.
  - intros i Hi. simpl in Hi. lia.
Qed.

(* ------------------------------------------------------------------ helpers about one trainer being updated *)
Lemma get_trainer_upd t f s k :
  get_trainer (upd_trainer t f s) k = if Nat.eqb t k && Nat.ltb t (length (trainers s)) then f (get_trainer s t) else get_trainer s k.
Proof.
  destruct (Nat.ltb t (length (trainers s))) eqn:L.
  - apply Nat.ltb_lt in L. destruct (Nat.eqb t k) eqn:E; simpl.
    + apply Nat.eqb_eq in E; subst k. apply get_trainer_upd_same; auto.
    + apply Nat.eqb_neq in E. apply get_trainer_upd_other; auto.
  - apply Nat.ltb_ge in L. rewrite andb_false_r. unfold upd_trainer, get_trainer; simpl. rewrite upd_oob; auto.
Qed.

Lemma dummy_trainer_oob s t : length (trainers s) <= t -> get_trainer s t = dummy_trainer.
Proof. intros H. unfold get_trainer. apply nth_overflow; auto. Qed.

Lemma upd_id {A} n (f : A -> A) l d : f (nth n l d) = nth n l d -> upd n f l = l.
Proof.
  revert n; induction l as [|x tl IH]; intros [|n] H; simpl in *; auto; [congruence|f_equal; auto].
Qed.

(* exact result of Observable.add_monitor *)
Lemma observable_add_monitor_cases s self sp pool s' i :
  observable_add_monitor s self sp pool = Some (s', i) ->
  exists attr, realign_attribute self (sp_attr sp) = Some attr /\
  ((* created *)
   (exists tg s1, new_monitor (cell_layer self) attr tg (sp_prepend sp)
                 (match sp_reads sp with Some (ns, strict) => Some (self, ns, strict) | None => None end) s = (s1, i)
               /\ s' = cmon_bind self (sp_name sp) i s1
               /\ (pool = None \/ exists p, pool = Some p /\ alias_search s self (sp_name sp) (sp_tags sp, attr) p None = None)) \/
   (* aliased *)
   (exists p, pool = Some p /\ alias_search s self (sp_name sp) (sp_tags sp, attr) p None = Some i /\
              s' = cmon_bind self (sp_name sp) i s)).
Proof.
  unfold observable_add_monitor. destruct (realign_attribute self (sp_attr sp)) as [attr|]; [|discriminate].
  intros E. exists attr. split; auto.
  set (reads := match sp_reads sp with Some (ns, strict) => Some (self, ns, strict) | None => None end) in *.
  destruct pool as [p|].
  - destruct (alias_search s self (sp_name sp) (sp_tags sp, attr) p None) as [k|] eqn:Ea.
    + inversion E; subst. right; exists p; auto.
    + destruct (new_monitor (cell_layer self) attr (Some (sp_tags sp, attr)) (sp_prepend sp) reads s) as [s1 k] eqn:En.
      inversion E; subst. left. exists (Some (sp_tags sp, attr)), s1. split; auto. split; auto. right. exists p; auto.
  - destruct (new_monitor (cell_layer self) attr None (sp_prepend sp) reads s) as [s1 k] eqn:En.
    inversion E; subst. left. exists None, s1. auto.
Qed.

(* ------------------------------------------------------------------ generic preservation lemmas for TI *)
(* monitors change without anything new being registered or dying; trainers untouched *)
Lemma TI_mons_change s s' :
  trainers s' = trainers s -> length (mons s') = length (mons s) ->
  (forall j, m_alive (get_mon s' j) = m_alive (get_mon s j) /\ m_layer (get_mon s' j) = m_layer (get_mon s j) /\
             (m_reg (get_mon s' j) = true -> m_reg (get_mon s j) = true)) ->
  TI s -> TI s'.
Proof.
  intros Tr L M (T1 & T2 & T3 & T4 & T5 & T6). unfold TI, get_trainer in *. rewrite Tr.
  split; [exact T1|]. split; [exact T2|]. split; [|split; [exact T4|split]].
  - intros t cn mn i c H1 H2. destruct (M i) as (A & B & _). rewrite A, B. eapply T3; eauto.
  - intros t i H1 H2. apply (T5 t i H1). apply M; auto.
  - intros i Hi H. destruct (M i) as (A & _ & C). rewrite A. apply T6; [lia|auto].
Qed.

(* one trainer's pool shrinks (or stays), nothing else changes *)
Lemma TI_shrink ti f s :
  (let t := get_trainer s ti in
   keys_ok (f t) /\ t_alive (f t) = t_alive t /\ t_training (f t) = t_training t /\ t_cells (f t) = t_cells t /\
   (forall e, In e (pool_named (f t)) -> In e (pool_named t)) /\ (t_alive t = false -> t_pool (f t) = [])) ->
  TI s -> TI (upd_trainer ti f s).
Proof.
  cbv zeta. intros (K & Al & Trn & Ce & Sub & Dead) (T1 & T2 & T3 & T4 & T5 & T6).
  assert (Sub2 : forall i, In i (pool_mids (f (get_trainer s ti))) -> In i (pool_mids (get_trainer s ti))).
  { intros i. rewrite !pool_mids_named. intros (cn & mn & H). exists cn, mn. auto. }
  assert (G : forall t, get_trainer (upd_trainer ti f s) t = f (get_trainer s ti) /\ t = ti \/
                        get_trainer (upd_trainer ti f s) t = get_trainer s t).
  { intros t. rewrite get_trainer_upd. destruct (Nat.eqb ti t && Nat.ltb ti (length (trainers s))) eqn:E; auto.
    apply andb_true_iff in E as [E _]. apply Nat.eqb_eq in E. auto. }
  unfold TI. change (mons (upd_trainer ti f s)) with (mons s). change (get_mon (upd_trainer ti f s)) with (get_mon s).
  split; [|split; [|split; [|split; [|split]]]].
  - intros t. destruct (G t) as [[-> _]| -> ]; auto.
  - intros t. destruct (G t) as [[-> ->]| -> ]; auto. rewrite Al, Ce. intros H. split; auto. apply T2; auto.
  - intros t cn mn i c. destruct (G t) as [[-> ->]| -> ]; [|apply T3]. rewrite Ce. intros H1 H2. eapply T3; eauto.
  - intros t1 t2 i. destruct (G t1) as [[-> ->]| -> ]; destruct (G t2) as [[-> ->]| -> ]; intros H1 H2.
    + reflexivity.
    + apply (T4 ti t2 i); auto.
    + apply (T4 t1 ti i); auto.
    + apply (T4 t1 t2 i); auto.
  - intros t i. destruct (G t) as [[-> ->]| -> ]; [|apply T5]. rewrite Trn. intros H1 H2. apply (T5 ti i); auto.
  - exact T6.
Qed.

(* the trainers a state can mention *)
Lemma TI_alive_of_cell s ti cn c :
  TI s -> alookup cn (t_observed (get_trainer s ti)) = Some c -> t_alive (get_trainer s ti) = true.
Proof.
  intros (T1 & T2 & _) H. destruct (t_alive (get_trainer s ti)) eqn:E; auto.
  destruct (T2 ti E) as [_ C]. destruct (T1 ti) as (_ & B & _). rewrite B, C in H. discriminate.
Qed.

Lemma TI_deregister i s : TI s -> TI (deregister i s).
Proof.
  apply TI_mons_change.
  - apply deregister_others.
  - pose proof (quiet_deregister i s) as (L & Q & _). unfold deregister. destruct (m_reg (get_mon s i)); auto.
    rewrite length_mons_upd_mon. reflexivity.
  - intros j. rewrite deregister_mon. destruct (Nat.eqb i j); auto. destruct (get_mon s j); simpl. repeat split; auto. discriminate.
Qed.

Lemma TI_deregister_all l s : TI s -> TI (deregister_all l s).
Proof. revert s; induction l as [|i tl IH]; simpl; intros s H; auto. apply IH, TI_deregister; auto. Qed.

Lemma TI_cmon c s : TI s -> TI (set_cmon c s).
Proof. intros H. exact H. Qed.

Lemma TI_new_monitor lay attr tg pre reads s s' i :
  new_monitor lay attr tg pre reads s = (s', i) -> PV s -> TI s -> TI s'.
Proof.
  intros E P (T1 & T2 & T3 & T4 & T5 & T6).
  destruct (new_monitor_spec _ _ _ _ _ _ _ _ E) as (Ei & L & Tr & Cm & Ac & LL & Old & New & Ls & _).
  assert (Hp : forall t j, In j (pool_mids (get_trainer s t)) -> get_mon s' j = get_mon s j).
  { intros t j Hj. apply Old. eapply P; eauto. }
  unfold TI, get_trainer in *. rewrite Tr.
  split; [exact T1|]. split; [exact T2|]. split; [|split; [exact T4|split]].
  - intros t cn mn j c H1 H2. rewrite (Hp t j); [eapply T3; eauto|]. apply pool_mids_named. eauto.
  - intros t j H1 H2. rewrite (Hp t j H1) in H2. eapply T5; eauto.
  - intros j Hj H. destruct (Nat.eq_dec j i) as [->|N]; [rewrite New; reflexivity|].
    assert (j < length (mons s)) by lia. rewrite Old in * by auto. apply T6; auto.
Qed.

(* adding / overwriting one entry *)
Lemma TI_put s ti cn mn i cell :
  TI s -> i < length (mons s) ->
  alookup cn (t_cells (get_trainer s ti)) = Some cell -> t_alive (get_trainer s ti) = true ->
  m_alive (get_mon s i) = true -> m_layer (get_mon s i) = cell_layer cell ->
  (forall t2, In i (pool_mids (get_trainer s t2)) -> t2 = ti) ->
  (m_reg (get_mon s i) = true -> t_training (get_trainer s ti) = true) ->
  TI (upd_trainer ti (pool_put cn mn i) s).
Proof.
  intros (T1 & T2 & T3 & T4 & T5 & T6) Hi Hc Hal Hali Hlay Hown Hreg.
  assert (Hcn : In cn (map fst (t_cells (get_trainer s ti)))).
  { apply alookup_In in Hc. apply in_map_iff. exists (cn, cell); auto. }
  assert (Ht : ti < length (trainers s)).
  { destruct (Nat.lt_ge_cases ti (length (trainers s))); auto. rewrite dummy_trainer_oob in Hal by auto. discriminate. }
  assert (G : forall t, get_trainer (upd_trainer ti (pool_put cn mn i) s) t = pool_put cn mn i (get_trainer s ti) /\ t = ti \/
                        get_trainer (upd_trainer ti (pool_put cn mn i) s) t = get_trainer s t /\ t <> ti).
  { intros t. rewrite get_trainer_upd. destruct (Nat.eqb ti t) eqn:E; simpl.
    - apply Nat.eqb_eq in E. apply Nat.ltb_lt in Ht. rewrite Ht. auto.
    - apply Nat.eqb_neq in E. auto. }
  assert (M : forall j, In j (pool_mids (pool_put cn mn i (get_trainer s ti))) -> j = i \/ In j (pool_mids (get_trainer s ti))).
  { intros j. apply pool_put_mids. }
  unfold TI. change (mons (upd_trainer ti (pool_put cn mn i) s)) with (mons s).
  change (get_mon (upd_trainer ti (pool_put cn mn i) s)) with (get_mon s).
  split; [|split; [|split; [|split; [|split]]]].
  - intros t. destruct (G t) as [[-> _]|[-> _]]; auto. apply keys_ok_put; auto.
  - intros t. destruct (G t) as [[-> ->]|[-> _]]; auto. unfold pool_put at 1; simpl. rewrite Hal. discriminate.
  - intros t c m j c0. destruct (G t) as [[-> ->]|[-> _]]; [|apply T3].
    intros H1 H2. change (t_cells (pool_put cn mn i (get_trainer s ti))) with (t_cells (get_trainer s ti)) in H2.
    apply pool_named_put in H1; auto. destruct H1 as [H1|[H1 _]].
    + inversion H1; subst. rewrite Hc in H2. inversion H2; subst. auto.
    + eapply T3; eauto.
  - intros t1 t2 j. destruct (G t1) as [[-> ->]|[-> N1]]; destruct (G t2) as [[-> ->]|[-> N2]]; intros H1 H2.
    + reflexivity.
    + apply M in H1 as [->|H1]; [symmetry; apply Hown; auto|apply (T4 ti t2 j); auto].
    + apply M in H2 as [->|H2]; [apply Hown; auto|apply (T4 t1 ti j); auto].
    + apply (T4 t1 t2 j); auto.
  - intros t j. destruct (G t) as [[-> ->]|[-> _]]; [|apply T5].
    change (t_training (pool_put cn mn i (get_trainer s ti))) with (t_training (get_trainer s ti)).
    intros H1 H2. apply M in H1 as [->|H1]; auto. apply (T5 ti j); auto.
  - exact T6.
Qed.

Lemma alias_in_pool s t self name tg i :
  keys_ok t ->
  alias_search s self name tg (pool_view t) None = Some i ->
  exists cn obs, In (cn, name, i) (pool_named t) /\ alookup cn (t_cells t) = Some obs /\ cell_layer obs = cell_layer self.
Proof.
  intros (A & B & C & D) H. apply alias_search_spec in H as [H|(obs & monitors & tg' & H1 & H2 & H3 & _)]; [discriminate|].
  apply pool_view_In in H1 as (cn & H1 & H4). exists cn, obs. split; [|split; auto].
  - apply pool_named_In. exists monitors. split; apply alookup_In; auto.
  - rewrite B in H1. apply In_alookup; auto.
Qed.

Lemma pool_add_monitor_TI s ti cn sp s' r :
  pool_add_monitor s ti cn sp = (s', r) -> Inv1 s -> TI s -> TI s'.
Proof.
  unfold pool_add_monitor. intros E I T.
  destruct (alookup cn (t_observed (get_trainer s ti))) as [cell|] eqn:Ec; [|inversion E; subst; auto].
  pose proof (TI_alive_of_cell _ _ _ _ T Ec) as Hal.
  assert (Hc : alookup cn (t_cells (get_trainer s ti)) = Some cell).
  { destruct T as (T1 & _). destruct (T1 ti) as (_ & B & _). rewrite <- B. exact Ec. }
  assert (Ht : ti < length (trainers s)).
  { destruct (Nat.lt_ge_cases ti (length (trainers s))); auto. rewrite dummy_trainer_oob in Hal by auto. discriminate. }
  set (existing := pool_get (get_trainer s ti) cn (sp_name sp)) in *.
  set (s0 := match existing with
             | Some _ => upd_trainer ti (pool_del_entry cn (sp_name sp)) s
             | None => s
             end) in *.
  assert (I0 : Inv1 s0).
  { unfold s0. destruct existing; auto. apply Inv1_trainers_only; auto. intros i. apply pool_del_entry_mids. }
  assert (T0 : TI s0).
  { unfold s0. destruct existing; auto. apply TI_shrink; auto. cbv zeta.
    destruct T as (T1 & _). pose proof (T1 ti) as K.
    split; [apply keys_ok_del_entry; auto|].
    assert (Same : t_alive (pool_del_entry cn (sp_name sp) (get_trainer s ti)) = t_alive (get_trainer s ti) /\
                   t_training (pool_del_entry cn (sp_name sp) (get_trainer s ti)) = t_training (get_trainer s ti) /\
                   t_cells (pool_del_entry cn (sp_name sp) (get_trainer s ti)) = t_cells (get_trainer s ti)).
    { unfold pool_del_entry. destruct (alookup cn (t_pool (get_trainer s ti))); auto. }
    destruct Same as (S1 & S2 & S3). split; [exact S1|]. split; [exact S2|]. split; [exact S3|]. split.
    - intros [[c m] j] H. apply pool_named_del_entry in H; tauto.
    - rewrite Hal. discriminate. }
  assert (F0 : t_alive (get_trainer s0 ti) = true /\ alookup cn (t_cells (get_trainer s0 ti)) = Some cell /\
               t_training (get_trainer s0 ti) = t_training (get_trainer s ti)).
  { unfold s0. destruct existing; auto. rewrite get_trainer_upd_same by auto.
    unfold pool_del_entry. destruct (alookup cn (t_pool (get_trainer s ti))); auto. }
  destruct F0 as (Hal0 & Hc0 & Htr0).
  assert (MAIN : (let t0 := get_trainer s0 ti in
                  match observable_add_monitor s0 cell sp (if sp_unique sp then None else Some (pool_view t0)) with
                  | None => (s0, Some ERuntime)
                  | Some (s1, i) =>
                      let s2 := if t_training t0 then s1 else deregister i s1 in
                      (upd_trainer ti (pool_put cn (sp_name sp) i) s2, None)
                  end) = (s', r) -> TI s').
  { clear E. cbv zeta. intros E.
    destruct (observable_add_monitor s0 cell sp (if sp_unique sp then None else Some (pool_view (get_trainer s0 ti))))
      as [[s1 i]|] eqn:Eo; [|inversion E; subst; auto].
    inversion E; subst; clear E.
    destruct I0 as [H0 P0].
    (* facts about the returned monitor in s1 *)
    assert (S1 : TI s1 /\ trainers s1 = trainers s0 /\ i < length (mons s1) /\ m_alive (get_mon s1 i) = true /\
                 m_layer (get_mon s1 i) = cell_layer cell /\
                 (forall t2, In i (pool_mids (get_trainer s0 t2)) -> t2 = ti)).
    { apply observable_add_monitor_cases in Eo as (attr & _ & [(tg & sN & En & -> & _)|(p & Ep & Ea & ->)]).
      - destruct (new_monitor_spec _ _ _ _ _ _ _ _ En) as (Ei & L & Tr & Cm & Ac & LL & Old & New & Ls & _).
        split; [apply TI_cmon; eapply TI_new_monitor; eauto|].
        split; [simpl; exact Tr|]. split; [simpl; lia|].
        change (get_mon (cmon_bind cell (sp_name sp) i sN)) with (get_mon sN). rewrite New. simpl.
        split; auto. split; auto.
        intros t2 H. apply (P0 t2) in H. lia.
      - destruct (sp_unique sp); [discriminate|]. inversion Ep; subst p.
        destruct T0 as (T1 & T2 & T3 & T4 & T5 & T6).
        apply alias_in_pool in Ea as (cn' & obs & H1 & H2 & H3); auto.
        destruct (T3 ti cn' (sp_name sp) i obs H1 H2) as [Al Lay].
        split; [apply TI_cmon; repeat split; auto|]. split; [reflexivity|].
        assert (Hin : In i (pool_mids (get_trainer s0 ti))) by (apply pool_mids_named; eauto).
        split; [simpl; apply (P0 ti); auto|].
        change (get_mon (cmon_bind cell (sp_name sp) i s0)) with (get_mon s0).
        split; auto. split; [congruence|]. intros t2 H. apply (T4 t2 ti i); auto. }
    destruct S1 as (T1' & Tr1 & Hi1 & Al1 & Lay1 & Own1).
    set (s2 := if t_training (get_trainer s0 ti) then s1 else deregister i s1).
    assert (Tr2 : trainers s2 = trainers s0).
    { unfold s2. destruct (t_training (get_trainer s0 ti)); auto. destruct (deregister_others i s1) as (A & _). congruence. }
    assert (G2 : forall t, get_trainer s2 t = get_trainer s0 t) by (intros t; unfold get_trainer; rewrite Tr2; auto).
    apply TI_put with (cell := cell).
    - unfold s2. destruct (t_training (get_trainer s0 ti)); auto. apply TI_deregister; auto.
    - unfold s2. destruct (t_training (get_trainer s0 ti)); auto. pose proof (quiet_deregister i s1) as (L & _). lia.
    - rewrite G2. exact Hc0.
    - rewrite G2. exact Hal0.
    - unfold s2. destruct (t_training (get_trainer s0 ti)); auto. rewrite deregister_mon, Nat.eqb_refl.
      destruct (get_mon s1 i); simpl in *; auto.
    - unfold s2. destruct (t_training (get_trainer s0 ti)); auto. rewrite deregister_mon, Nat.eqb_refl.
      destruct (get_mon s1 i); simpl in *; auto.
    - intros t2. rewrite G2. apply Own1.
    - rewrite G2. unfold s2. destruct (t_training (get_trainer s0 ti)) eqn:Et; auto.
      rewrite deregister_mon, Nat.eqb_refl. destruct (get_mon s1 i); simpl. discriminate. }
  destruct existing as [k|] eqn:Ex; destruct (sp_unique sp) eqn:Eu; auto.
  inversion E; subst; auto.
Qed.
