(* C15 - the trainer's listings (named_monitors, monitors, cells) reflect exactly what is registered - axiom-free. *)
From Coq Require Import List ZArith Bool Arith Lia.
From Inferno Require Import C15.Lifecycle C15.LifecycleLemmas C15.LifecycleProofs C15.LifecycleTI.
Import ListNotations.

Definition has_key (t : trainer) (c m : nat) : Prop := exists j, In (c, m, j) (pool_named t).

(* the successful outcomes of MonitorPool.add_monitor: afterwards the (cell, name) entry exists, nothing else changed *)
Lemma pool_add_monitor_keys s ti cn sp s' :
  pool_add_monitor s ti cn sp = (s', None) -> TI s ->
  t_cells (get_trainer s' ti) = t_cells (get_trainer s ti) /\
  forall c m, has_key (get_trainer s' ti) c m <-> (c, m) = (cn, sp_name sp) \/ has_key (get_trainer s ti) c m.
Proof.
  unfold pool_add_monitor. intros E T.
  destruct (alookup cn (t_observed (get_trainer s ti))) as [cell|] eqn:Ec; [|discriminate].
  pose proof (TI_alive_of_cell _ _ _ _ T Ec) as Hal.
  pose proof T as (T1 & _). pose proof (T1 ti) as K. destruct K as (KA & KB & KC & KD).
  assert (Hcn : In cn (map fst (t_cells (get_trainer s ti)))).
  { rewrite <- KB. apply alookup_In in Ec. apply in_map_iff. exists (cn, cell); auto. }
  assert (Ht : ti < length (trainers s)).
  { destruct (Nat.lt_ge_cases ti (length (trainers s))); auto. rewrite dummy_trainer_oob in Hal by auto. discriminate. }
  set (existing := pool_get (get_trainer s ti) cn (sp_name sp)) in *.
  assert (Ex : forall k, existing = Some k -> has_key (get_trainer s ti) cn (sp_name sp)).
  { intros k Hk. exists k. apply pool_named_get; auto. }
  set (s0 := match existing with
             | Some _ => upd_trainer ti (pool_del_entry cn (sp_name sp)) s
             | None => s
             end) in *.
  assert (G0 : get_trainer s0 ti = match existing with Some _ => pool_del_entry cn (sp_name sp) (get_trainer s ti)
                                                     | None => get_trainer s ti end).
  { unfold s0. destruct existing; auto. apply get_trainer_upd_same; auto. }
  assert (K0 : keys_ok (get_trainer s0 ti) /\ t_cells (get_trainer s0 ti) = t_cells (get_trainer s ti)).
  { rewrite G0. destruct existing; auto. split; [apply keys_ok_del_entry; auto|].
    unfold pool_del_entry. destruct (alookup cn (t_pool (get_trainer s ti))); auto. }
  destruct K0 as [K0 C0].
  assert (H0 : forall c m, (c, m) <> (cn, sp_name sp) -> (has_key (get_trainer s0 ti) c m <-> has_key (get_trainer s ti) c m)).
  { intros c m N. rewrite G0. destruct existing; [|reflexivity]. unfold has_key. split; intros [j H]; exists j.
    - apply pool_named_del_entry in H; [tauto|exact (T1 ti)].
    - apply pool_named_del_entry; [exact (T1 ti)|auto]. }
  assert (MAIN : (let t0 := get_trainer s0 ti in
                  match observable_add_monitor s0 cell sp (if sp_unique sp then None else Some (pool_view t0)) with
                  | None => (s0, Some ERuntime)
                  | Some (s1, i) =>
                      let s2 := if t_training t0 then s1 else deregister i s1 in
                      (upd_trainer ti (pool_put cn (sp_name sp) i) s2, None)
                  end) = (s', None) ->
          t_cells (get_trainer s' ti) = t_cells (get_trainer s ti) /\
          forall c m, has_key (get_trainer s' ti) c m <-> (c, m) = (cn, sp_name sp) \/ has_key (get_trainer s ti) c m).
  { clear E. cbv zeta. intros E.
    destruct (observable_add_monitor s0 cell sp (if sp_unique sp then None else Some (pool_view (get_trainer s0 ti))))
      as [[s1 i]|] eqn:Eo; [|discriminate].
    inversion E; subst; clear E.
    assert (Tr1 : trainers s1 = trainers s0).
    { apply observable_add_monitor_cases in Eo as (attr & _ & [(tg & sN & En & -> & _)|(p & Ep & Ea & ->)]); auto.
      destruct (new_monitor_spec _ _ _ _ _ _ _ _ En) as (_ & _ & Tr & _). exact Tr. }
    set (s2 := if t_training (get_trainer s0 ti) then s1 else deregister i s1).
    assert (Tr2 : trainers s2 = trainers s0).
    { unfold s2. destruct (t_training (get_trainer s0 ti)); auto. destruct (deregister_others i s1) as (A & _). congruence. }
    assert (L0 : length (trainers s0) = length (trainers s)).
    { unfold s0. destruct existing; auto. apply length_trainers_upd. }
    assert (G' : get_trainer (upd_trainer ti (pool_put cn (sp_name sp) i) s2) ti = pool_put cn (sp_name sp) i (get_trainer s0 ti)).
    { rewrite get_trainer_upd_same by (rewrite Tr2, L0; auto). unfold get_trainer. rewrite Tr2. reflexivity. }
    rewrite G'. split; [exact C0|].
    intros c m. unfold has_key. split.
    - intros [j H]. apply pool_named_put in H; auto; [|rewrite C0; auto]. destruct H as [H|[H N]].
      + inversion H; subst. left; reflexivity.
      + right. apply H0; auto. exists j; auto.
    - intros [H|H].
      + inversion H; subst. exists i. apply pool_named_put; auto. rewrite C0; auto.
      + destruct (Nat.eq_dec c cn) as [->|N1]; [destruct (Nat.eq_dec m (sp_name sp)) as [->|N2]|].
        * exists i. apply pool_named_put; auto. rewrite C0; auto.
        * assert (N : (cn, m) <> (cn, sp_name sp)) by congruence. apply H0 in H; auto. destruct H as [j H].
          exists j. apply pool_named_put; auto. rewrite C0; auto.
        * assert (N : (c, m) <> (cn, sp_name sp)) by congruence. apply H0 in H; auto. destruct H as [j H].
          exists j. apply pool_named_put; auto. rewrite C0; auto. }
  destruct existing as [k|] eqn:Ex'; destruct (sp_unique sp) eqn:Eu; auto.
  inversion E; subst. split; auto. intros c m. split; [tauto|]. intros [H|H]; auto. inversion H; subst. eapply Ex; eauto.
Qed.

Lemma add_specs_keys sps : forall s ti cn s',
  add_specs s ti cn sps = (s', None) -> Inv1 s -> TI s ->
  t_cells (get_trainer s' ti) = t_cells (get_trainer s ti) /\
  forall c m, has_key (get_trainer s' ti) c m <-> (c = cn /\ In m (map sp_name sps)) \/ has_key (get_trainer s ti) c m.
Proof.
  induction sps as [|sp tl IH]; simpl; intros s ti cn s' E I T.
  - inversion E; subst. split; auto. intros c m. tauto.
  - destruct (pool_add_monitor s ti cn sp) as [s1 [e|]] eqn:Ep; [discriminate|].
    destruct (pool_add_monitor_keys _ _ _ _ _ Ep T) as [C1 K1].
    assert (I1 : Inv1 s1) by (eapply pool_add_monitor_Inv1; eauto).
    assert (T1 : TI s1) by (eapply pool_add_monitor_TI; eauto).
    destruct (IH _ _ _ _ E I1 T1) as [C2 K2]. split; [congruence|].
    intros c m. rewrite K2, K1. split.
    + intros [[-> H]|[H|H]]; auto. inversion H; subst. auto.
    + intros [[-> [<-|H]]|H]; auto.
Qed.

(* register_cell: afterwards the cell is listed, and under its name exactly the monitors of the trainer's type *)
Theorem register_cell_listing w s ti cn c hp s' :
  register_cell w s ti cn c hp = (s', None) -> t_alive (get_trainer s ti) = true -> Inv1 s -> TI s ->
  let t := get_trainer s ti in
  let specs := trainer_specs (t_type t) (fst (conn_info w c)) (snd (conn_info w c)) hp in
  alookup cn (t_cells t) = None /\
  t_cells (get_trainer s' ti) = t_cells t ++ [(cn, c)] /\
  forall c' m, has_key (get_trainer s' ti) c' m <-> (c' = cn /\ In m (map sp_name specs)) \/ has_key t c' m.
Proof.
  unfold register_cell. intros E Hal I T. cbv zeta.
  destruct (amem cn (t_cells (get_trainer s ti))) eqn:Em; [discriminate|].
  rewrite (pool_del_observed_absent _ _ _ T Em) in E.
  pose proof T as (T1 & _). destruct (T1 ti) as (A & B & C & D).
  assert (Nc : ~ In cn (map fst (t_cells (get_trainer s ti)))) by (intros K; apply amem_In in K; congruence).
  assert (Ht : ti < length (trainers s)).
  { destruct (Nat.lt_ge_cases ti (length (trainers s))); auto. rewrite dummy_trainer_oob in Hal by auto. discriminate. }
  set (s2 := upd_trainer ti (fun t => set_cells (aset cn c (t_cells t)) t) s) in *.
  destruct (amem cn (t_observed (get_trainer s2 ti))) eqn:E1; [discriminate|].
  destruct (amem cn (t_pool (get_trainer s2 ti))) eqn:E2; [discriminate|].
  set (s3 := upd_trainer ti (fun t => set_observed (aset cn c (t_observed t)) t) s2) in *.
  assert (G3 : get_trainer s3 ti = set_observed (aset cn c (t_observed (get_trainer s ti)))
                                     (set_cells (aset cn c (t_cells (get_trainer s ti))) (get_trainer s ti))).
  { unfold s3. rewrite get_trainer_upd_same by (unfold s2; rewrite length_trainers_upd; auto).
    unfold s2. rewrite get_trainer_upd_same by auto. reflexivity. }
  assert (I3 : Inv1 s3) by (unfold s3, s2; apply Inv1_trainers_only; auto; apply Inv1_trainers_only; auto).
  (* TI of s3 through register_cell_TI on the same call is circular; rebuild it from an empty registration *)
  assert (T3 : TI s3).
  { set (g := fun t : trainer => set_observed (aset cn c (t_observed t)) (set_cells (aset cn c (t_cells t)) t)).
    assert (Eq : s3 = upd_trainer ti g s).
    { unfold s3, s2, upd_trainer, set_trainers. simpl. rewrite upd_upd. reflexivity. }
    rewrite Eq. pose proof T as (_ & T2 & T3 & T4 & T5 & T6).
    assert (G : forall k, get_trainer (upd_trainer ti g s) k = g (get_trainer s ti) /\ k = ti \/
                          get_trainer (upd_trainer ti g s) k = get_trainer s k).
    { intros k. rewrite get_trainer_upd. destruct (Nat.eqb ti k && Nat.ltb ti (length (trainers s))) eqn:E3; auto.
      apply andb_true_iff in E3 as [E3 _]. apply Nat.eqb_eq in E3. auto. }
    unfold TI. change (mons (upd_trainer ti g s)) with (mons s). change (get_mon (upd_trainer ti g s)) with (get_mon s).
    split; [|split; [|split; [|split; [|split]]]].
    - intros k. destruct (G k) as [[-> _]| -> ]; auto. unfold g, keys_ok; simpl.
      split; [apply NoDup_keys_aset; auto|]. split; [rewrite B; reflexivity|]. split; [exact C|].
      intros c' g' H. destruct (D c' g' H) as [K1 K2]. split; auto. apply keys_aset. auto.
    - intros k. destruct (G k) as [[-> ->]| -> ]; auto. unfold g; simpl. rewrite Hal. discriminate.
    - intros k c' m j c0. destruct (G k) as [[-> ->]| -> ]; [|apply T3].
      change (pool_named (g (get_trainer s ti))) with (pool_named (get_trainer s ti)). unfold g; simpl.
      intros H1 H2. apply (T3 ti c' m j c0); auto. rewrite alookup_aset_other in H2; auto.
      intros ->. apply Nc. apply pool_named_In in H1 as (g' & H1 & _). apply (D cn g' H1).
    - intros t1 t2 j. destruct (G t1) as [[-> ->]| -> ]; destruct (G t2) as [[-> ->]| -> ]; intros H1 H2.
      + reflexivity.
      + apply (T4 ti t2 j); auto.
      + apply (T4 t1 ti j); auto.
      + apply (T4 t1 t2 j); auto.
    - intros k j. destruct (G k) as [[-> ->]| -> ]; [|apply T5]. intros H1 H2. apply (T5 ti j); auto.
    - exact T6. }
  destruct (conn_info w c) as [dt cdel] eqn:Eci. simpl.
  destruct (add_specs_keys _ _ _ _ _ E I3 T3) as [C4 K4].
  split; [apply alookup_None; auto|]. split.
  - rewrite C4, G3. simpl. clear - Nc. induction (t_cells (get_trainer s ti)) as [|[k v] tl IH]; simpl in *; auto.
    destruct (Nat.eqb cn k) eqn:E; [apply Nat.eqb_eq in E; subst; tauto|]. f_equal. apply IH. tauto.
  - intros c' m. rewrite K4. rewrite G3.
    change (has_key (set_observed _ (set_cells _ (get_trainer s ti))) c' m) with (has_key (get_trainer s ti) c' m). tauto.
Qed.

(* del_cell: the cell and every monitor listed under it are gone, the rest is unchanged *)
Theorem del_cell_listing s ti cn s' :
  del_cell s ti cn = (s', None) -> TI s -> ti < length (trainers s) ->
  t_cells (get_trainer s' ti) = adel cn (t_cells (get_trainer s ti)) /\
  forall c m j, In (c, m, j) (pool_named (get_trainer s' ti)) <-> In (c, m, j) (pool_named (get_trainer s ti)) /\ c <> cn.
Proof.
  unfold del_cell. intros E T Ht.
  destruct (negb (amem cn (t_cells (get_trainer s ti)))); [discriminate|]. inversion E; subst; clear E.
  unfold pool_del_observed. pose proof T as (T1 & _). pose proof (T1 ti) as K.
  destruct (alookup cn (t_pool (get_trainer s ti))) as [g|] eqn:Eg.
  - destruct (deregister_all_trainers (map snd g) s) as (Trd & _).
    assert (Gd : get_trainer (deregister_all (map snd g) s) ti = get_trainer s ti) by (unfold get_trainer; rewrite Trd; auto).
    rewrite !get_trainer_upd_same; [|rewrite Trd; auto|rewrite length_trainers_upd, Trd; auto|
                                    rewrite !length_trainers_upd, Trd; auto].
    rewrite Gd. simpl. split; auto. intros c m j.
    change (pool_named (set_cells _ (set_observed _ (set_pool (adel cn (t_pool (get_trainer s ti))) (get_trainer s ti)))))
      with (pool_named (set_pool (adel cn (t_pool (get_trainer s ti))) (get_trainer s ti))).
    apply pool_named_adel; auto.
  - rewrite !get_trainer_upd_same; [|auto|rewrite length_trainers_upd; auto]. simpl. split; auto.
    intros c m j.
    change (pool_named (set_cells _ (set_observed _ (get_trainer s ti)))) with (pool_named (get_trainer s ti)).
    split; [|tauto]. intros H. split; auto. intros ->. apply pool_named_In in H as (g & H1 & _).
    apply alookup_None in Eg. apply Eg. apply in_map_iff. exists (cn, g); auto.
Qed.

(* del_monitor: exactly that entry is gone *)
Theorem del_monitor_listing s ti cn mn s' :
  pool_del_monitor s ti cn mn = (s', None) -> TI s -> ti < length (trainers s) ->
  t_cells (get_trainer s' ti) = t_cells (get_trainer s ti) /\
  forall c m j, In (c, m, j) (pool_named (get_trainer s' ti)) <->
                In (c, m, j) (pool_named (get_trainer s ti)) /\ (c, m) <> (cn, mn).
Proof.
  unfold pool_del_monitor. intros E T Ht. pose proof T as (T1 & _). destruct (T1 ti) as (A & B & C & D).
  destruct (alookup cn (t_pool (get_trainer s ti))) as [g|] eqn:Eg; [|discriminate].
  destruct (alookup cn (t_observed (get_trainer s ti))) as [cell0|]; [|discriminate].
  destruct (alookup mn g) as [i|] eqn:Ei; [|discriminate]. inversion E; subst; clear E.
  destruct (deregister_others i s) as (Trd & _).
  assert (Gd : get_trainer (deregister i s) ti = get_trainer s ti) by (unfold get_trainer; rewrite Trd; auto).
  rewrite get_trainer_upd_same by (rewrite Trd; auto). rewrite Gd. simpl. split; auto.
  pose proof (alookup_In _ _ _ Eg) as Ig. destruct (D cn g Ig) as [NDg _].
  intros c m j. rewrite !pool_named_In. simpl. split.
  - intros (g' & H1 & H2). destruct (adel mn g) eqn:Ed.
    + apply In_adel in H1; auto. destruct H1 as [H1 N]. simpl in N. split; [eauto|congruence].
    + apply In_aset in H1; auto. destruct H1 as [H1|[H1 N]].
      * inversion H1; subst. rewrite <- Ed in H2. apply In_adel in H2; auto. destruct H2 as [H2 N]. simpl in N.
        split; [eauto|congruence].
      * simpl in N. split; [eauto|congruence].
  - intros [(g' & H1 & H2) N]. destruct (Nat.eq_dec c cn) as [->|Nc].
    + rewrite (In_alookup _ _ _ C H1) in Eg. inversion Eg; subst g'.
      assert (Hm : m <> mn) by congruence.
      assert (In (m, j) (adel mn g)) by (apply In_adel; auto).
      destruct (adel mn g) eqn:Ed; [destruct H|]. exists (p :: l). split; auto. apply In_aset; auto.
    + destruct (adel mn g) eqn:Ed.
      * exists g'. split; auto. apply In_adel; auto.
      * exists g'. split; auto. apply In_aset; auto.
Qed.

(* `monitors` is the duplicate-free list of the monitors in `named_monitors`; entry keys are unique; every listed
   cell name is a registered cell - in every reachable state *)
Theorem listings_consistent w tys s t :
  reachable w tys s ->
  NoDup (pool_monitors (get_trainer s t)) /\
  (forall i, In i (pool_monitors (get_trainer s t)) <-> exists cn mn, In (cn, mn, i) (pool_named (get_trainer s t))) /\
  (forall cn mn i j, In (cn, mn, i) (pool_named (get_trainer s t)) -> In (cn, mn, j) (pool_named (get_trainer s t)) -> i = j) /\
  (forall cn mn i, In (cn, mn, i) (pool_named (get_trainer s t)) -> exists c, alookup cn (t_cells (get_trainer s t)) = Some c).
Proof.
  intros R. destruct (reachable_inv _ _ _ R) as [_ (T1 & _)]. pose proof (T1 t) as K.
  split; [apply uniq_NoDup|]. split; [|split].
  - intros i. rewrite pool_monitors_In. apply pool_mids_named.
  - intros cn mn i j H1 H2. apply pool_named_get in H1; auto. apply pool_named_get in H2; auto. congruence.
  - intros cn mn i H. apply pool_named_In in H as (g & H1 & _). destruct K as (A & _ & _ & D).
    destruct (D cn g H1) as [_ K2]. apply in_map_iff in K2 as [[c' c] [E1 E2]]. simpl in E1; subst c'.
    exists c. apply In_alookup; auto.
Qed.
