(* C15 - generic list / dictionary lemmas used by the lifecycle proofs (axiom-free). *)
From Coq Require Import List ZArith Bool Arith Lia.
From Inferno Require Import C15.Lifecycle.
Import ListNotations.

(* ------------------------------------------------------------------ upd *)
Lemma length_upd {A} n (f : A -> A) l : length (upd n f l) = length l.
Proof. revert n; induction l as [|x tl IH]; intros [|n]; simpl; auto. Qed.

Lemma nth_upd_same {A} n (f : A -> A) l d : n < length l -> nth n (upd n f l) d = f (nth n l d).
Proof. revert n; induction l as [|x tl IH]; intros [|n] H; simpl in *; try lia; auto. apply IH; lia. Qed.

Lemma nth_upd_other {A} n m (f : A -> A) l d : n <> m -> nth m (upd n f l) d = nth m l d.
Proof.
  revert n m; induction l as [|x tl IH]; intros [|n] [|m] H; simpl; auto; try congruence.
Qed.

Lemma upd_oob {A} n (f : A -> A) l : length l <= n -> upd n f l = l.
Proof. revert n; induction l as [|x tl IH]; intros [|n] H; simpl in *; auto; try lia. f_equal; apply IH; lia. Qed.

Lemma nth_app_new {A} (l : list A) x d : nth (length l) (l ++ [x]) d = x.
Proof. rewrite app_nth2 by lia. rewrite Nat.sub_diag. reflexivity. Qed.

Lemma nth_app_old {A} (l : list A) x d i : i < length l -> nth i (l ++ [x]) d = nth i l d.
Proof. intros; apply app_nth1; auto. Qed.

(* ------------------------------------------------------------------ nat lists *)
Lemma mem_nat_In x l : mem_nat x l = true <-> In x l.
Proof.
  induction l as [|y tl IH]; simpl; [split; [discriminate|tauto]|].
  rewrite orb_true_iff, IH, Nat.eqb_eq. split; intros [H|H]; auto.
Qed.

Lemma mem_nat_false x l : mem_nat x l = false <-> ~ In x l.
Proof. rewrite <- mem_nat_In. destruct (mem_nat x l); split; intros; congruence. Qed.

Lemma In_remove_nat x y l : In x (remove_nat y l) <-> In x l /\ x <> y.
Proof.
  induction l as [|z tl IH]; simpl; [tauto|].
  destruct (Nat.eqb y z) eqn:E.
  - apply Nat.eqb_eq in E; subst. rewrite IH. split; [tauto|]. intros [[H|H] N]; [congruence|tauto].
  - apply Nat.eqb_neq in E. simpl. rewrite IH. split.
    + intros [H|[H N]]; subst; auto.
    + intros [[H|H] N]; auto.
Qed.

Lemma NoDup_remove_nat y l : NoDup l -> NoDup (remove_nat y l).
Proof.
  induction 1 as [|z tl N ND IH]; simpl; [constructor|].
  destruct (Nat.eqb y z); auto. constructor; auto. rewrite In_remove_nat. tauto.
Qed.

Lemma remove_nat_notin y l : ~ In y l -> remove_nat y l = l.
Proof.
  induction l as [|z tl IH]; simpl; auto. intros H.
  destruct (Nat.eqb y z) eqn:E; [apply Nat.eqb_eq in E; subst; tauto|]. f_equal; apply IH; tauto.
Qed.

Lemma uniq_acc_In seen l x : In x (uniq_acc seen l) <-> In x l /\ ~ In x seen.
Proof.
  revert seen; induction l as [|y tl IH]; intros seen; simpl; [tauto|].
  destruct (mem_nat y seen) eqn:E.
  - apply mem_nat_In in E. rewrite IH. split; [tauto|]. intros [[H|H] N]; [subst; tauto|tauto].
  - apply mem_nat_false in E. simpl. rewrite IH. simpl. split.
    + intros [H|[H N]]; [subst; tauto|tauto].
    + intros [[H|H] N]; [auto|]. destruct (Nat.eq_dec y x); [auto|right; tauto].
Qed.

Lemma uniq_In l x : In x (uniq l) <-> In x l.
Proof. unfold uniq. rewrite uniq_acc_In. simpl. tauto. Qed.

Lemma uniq_acc_NoDup seen l : NoDup (uniq_acc seen l).
Proof.
  revert seen; induction l as [|y tl IH]; intros seen; simpl; [constructor|].
  destruct (mem_nat y seen); auto. constructor; auto. rewrite uniq_acc_In. simpl. tauto.
Qed.

Lemma uniq_NoDup l : NoDup (uniq l).
Proof. apply uniq_acc_NoDup. Qed.

(* ------------------------------------------------------------------ dictionaries *)
Section Dict.
  Context {V : Type}.
  Implicit Types d : list (nat * V).

  Lemma alookup_In k v d : alookup k d = Some v -> In (k, v) d.
  Proof.
    induction d as [|[k' v'] tl IH]; simpl; [discriminate|].
    destruct (Nat.eqb k k') eqn:E; [apply Nat.eqb_eq in E; subst; intros [= ->]; auto|auto].
  Qed.

  Lemma In_alookup k v d : NoDup (map fst d) -> In (k, v) d -> alookup k d = Some v.
  Proof.
    induction d as [|[k' v'] tl IH]; simpl; [tauto|]. intros ND [H|H].
    - inversion H; subst. rewrite Nat.eqb_refl. reflexivity.
    - inversion ND as [|? ? N ND']; subst. destruct (Nat.eqb k k') eqn:E; auto.
      apply Nat.eqb_eq in E; subst. exfalso; apply N. apply in_map_iff. exists (k', v); auto.
  Qed.

  Lemma alookup_None k d : alookup k d = None <-> ~ In k (map fst d).
  Proof.
    induction d as [|[k' v'] tl IH]; simpl; [tauto|].
    destruct (Nat.eqb k k') eqn:E.
    - apply Nat.eqb_eq in E; subst. split; [discriminate|tauto].
    - apply Nat.eqb_neq in E. rewrite IH. split; [intros H [H1|H1]; auto|tauto].
  Qed.

  Lemma amem_In k d : amem k d = true <-> In k (map fst d).
  Proof.
    unfold amem. destruct (alookup k d) eqn:E.
    - split; auto. intros _. apply alookup_In in E. apply in_map_iff. exists (k, v); auto.
    - apply alookup_None in E. split; [discriminate|tauto].
  Qed.

  Lemma alookup_aset_same k v d : alookup k (aset k v d) = Some v.
  Proof.
    induction d as [|[k' v'] tl IH]; simpl; [rewrite Nat.eqb_refl; auto|].
    destruct (Nat.eqb k k') eqn:E; simpl; [rewrite Nat.eqb_refl; auto|rewrite E; auto].
  Qed.

  Lemma alookup_aset_other k k2 v d : k2 <> k -> alookup k2 (aset k v d) = alookup k2 d.
  Proof.
    intros N. induction d as [|[k' v'] tl IH]; simpl.
    - destruct (Nat.eqb k2 k) eqn:E; auto. apply Nat.eqb_eq in E; congruence.
    - destruct (Nat.eqb k k') eqn:E; simpl.
      + apply Nat.eqb_eq in E; subst. destruct (Nat.eqb k2 k') eqn:E2; auto. apply Nat.eqb_eq in E2; congruence.
      + rewrite IH. reflexivity.
  Qed.

  Lemma keys_aset k v d : forall x, In x (map fst (aset k v d)) <-> x = k \/ In x (map fst d).
  Proof.
    induction d as [|[k' v'] tl IH]; simpl; intros x; [intuition|].
    destruct (Nat.eqb k k') eqn:E; simpl.
    - apply Nat.eqb_eq in E; subst. intuition.
    - rewrite IH. intuition.
  Qed.

  Lemma NoDup_keys_aset k v d : NoDup (map fst d) -> NoDup (map fst (aset k v d)).
  Proof.
    induction d as [|[k' v'] tl IH]; simpl; intros ND.
    - constructor; [simpl; tauto|constructor].
    - inversion ND as [|? ? N ND']; subst. destruct (Nat.eqb k k') eqn:E; simpl.
      + apply Nat.eqb_eq in E; subst. constructor; auto.
      + apply Nat.eqb_neq in E. constructor; auto. rewrite keys_aset. intros [H|H]; auto.
  Qed.

  Lemma In_aset k v d e : NoDup (map fst d) -> (In e (aset k v d) <-> e = (k, v) \/ (In e d /\ fst e <> k)).
  Proof.
    induction d as [|[k' v'] tl IH]; simpl; intros ND.
    - split; [intros [H|[]]; auto|intros [H|[[] _]]; auto].
    - inversion ND as [|? ? N ND']; subst. destruct (Nat.eqb k k') eqn:E; simpl.
      + apply Nat.eqb_eq in E; subst. split.
        * intros [H|H]; auto. right. split; auto. intros E2. apply N. apply in_map_iff. exists e; auto.
        * intros [H|[[H|H] N2]]; auto. subst e. simpl in N2. congruence.
      + apply Nat.eqb_neq in E. rewrite IH by auto. split.
        * intros [H|[H|[H N2]]]; auto. subst e. right. split; auto.
        * intros [H|[[H|H] N2]]; auto.
  Qed.

  Lemma alookup_adel_same k d : NoDup (map fst d) -> alookup k (adel k d) = None.
  Proof.
    induction d as [|[k' v'] tl IH]; simpl; intros ND; auto.
    inversion ND as [|? ? N ND']; subst. destruct (Nat.eqb k k') eqn:E; simpl.
    - apply Nat.eqb_eq in E; subst. apply alookup_None. auto.
    - rewrite E. auto.
  Qed.

  Lemma alookup_adel_other k k2 d : k2 <> k -> alookup k2 (adel k d) = alookup k2 d.
  Proof.
    intros N. induction d as [|[k' v'] tl IH]; simpl; auto.
    destruct (Nat.eqb k k') eqn:E; simpl.
    - apply Nat.eqb_eq in E; subst. destruct (Nat.eqb k2 k') eqn:E2; auto. apply Nat.eqb_eq in E2; congruence.
    - rewrite IH; auto.
  Qed.

  Lemma In_adel k d e : NoDup (map fst d) -> (In e (adel k d) <-> In e d /\ fst e <> k).
  Proof.
    induction d as [|[k' v'] tl IH]; simpl; intros ND; [tauto|].
    inversion ND as [|? ? N ND']; subst. destruct (Nat.eqb k k') eqn:E; simpl.
    - apply Nat.eqb_eq in E; subst. split.
      + intros H. split; auto. intros <-. apply N. apply in_map_iff. exists e; auto.
      + intros [[H|H] N2]; auto. subst e; simpl in N2; congruence.
    - apply Nat.eqb_neq in E. rewrite IH by auto. split.
      + intros [H|[H N2]]; auto. subst e; auto.
      + intros [[H|H] N2]; auto.
  Qed.

  Lemma In_adel_weak k d e : In e (adel k d) -> In e d.
  Proof.
    induction d as [|[k' v'] tl IH]; simpl; auto.
    destruct (Nat.eqb k k'); simpl; intuition.
  Qed.

  Lemma keys_adel_weak k d x : In x (map fst (adel k d)) -> In x (map fst d).
  Proof.
    rewrite !in_map_iff. intros [e [H1 H2]]. exists e; split; auto. eapply In_adel_weak; eauto.
  Qed.

  Lemma NoDup_keys_adel k d : NoDup (map fst d) -> NoDup (map fst (adel k d)).
  Proof.
    induction d as [|[k' v'] tl IH]; simpl; intros ND; auto.
    inversion ND as [|? ? N ND']; subst. destruct (Nat.eqb k k'); simpl; auto.
    constructor; auto. intros H; apply N. eapply keys_adel_weak; eauto.
  Qed.

  Lemma adel_absent k d : ~ In k (map fst d) -> adel k d = d.
  Proof.
    induction d as [|[k' v'] tl IH]; simpl; auto. intros H.
    destruct (Nat.eqb k k') eqn:E; [apply Nat.eqb_eq in E; subst; tauto|]. f_equal; apply IH; tauto.
  Qed.
End Dict.

Lemma In_aset_weak {V} k (v : V) d e : In e (aset k v d) -> e = (k, v) \/ In e d.
Proof.
  induction d as [|[k' v'] tl IH]; simpl.
  - intros [H|[]]; auto.
  - destruct (Nat.eqb k k'); simpl; intros [H|H]; auto. apply IH in H as [H|H]; auto.
Qed.

Lemma NoDup_app_l {A} (a b : list A) : NoDup (a ++ b) -> NoDup a.
Proof.
  induction a as [|x tl IH]; simpl; intros H; [constructor|].
  inversion H as [|? ? N ND]; subst. constructor; auto. intros K; apply N; apply in_or_app; auto.
Qed.
Lemma NoDup_app_r {A} (a b : list A) : NoDup (a ++ b) -> NoDup b.
Proof. induction a as [|x tl IH]; simpl; intros H; auto. inversion H; auto. Qed.

Lemma Forall2_mono {A B} (P Q : A -> B -> Prop) l1 l2 :
  (forall a b, P a b -> Q a b) -> Forall2 P l1 l2 -> Forall2 Q l1 l2.
Proof. intros H F; induction F; constructor; auto. Qed.

Lemma upd_upd {A} n (f g : A -> A) l : upd n f (upd n g l) = upd n (fun x => f (g x)) l.
Proof. revert n; induction l as [|x tl IH]; intros [|n]; simpl; auto. f_equal; auto. Qed.

Lemma upd_ext_at {A} n (f g : A -> A) l d : f (nth n l d) = g (nth n l d) -> upd n f l = upd n g l.
Proof.
  revert n; induction l as [|x tl IH]; intros [|n] H; simpl in *; auto; [congruence|f_equal; auto].
Qed.
