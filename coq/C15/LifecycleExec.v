(* Executable instance of the C15 lifecycle model for the correspondence check: runs an operation sequence
   and serialises, after every operation, the error class and every observable the harness reads off the real
   objects (modes, step counts, number of forward hooks, listings, per-monitor registered / fresh / observation
   log, cell.monitors bindings, accumulated updates). *)
From Coq Require Import List ZArith Bool Arith.
From Inferno Require Import Base.NumF C15.Lifecycle.
Import ListNotations.

Definition ser_err (e : option err) : tree :=
  match e with
  | None => L 0
  | Some ERuntime => L 1 | Some EValue => L 2 | Some EAttribute => L 5 | Some EKey => L 6 | Some EOther => L 9
  end%Z.
Definition ser_cell (c : cellid) : tree := Nd [ser_nat (cell_layer c); ser_nat (cell_conn c); ser_nat (cell_neur c)].
Definition ser_obs (o : obs) : tree :=
  Nd [ser_nat (fst o); ser_list (fun r => Nd [ser_nat (fst r); ser_option ser_nat (snd r)]) (snd o)].

Definition ser_layer (l : layer) : tree :=
  Nd [ser_bool (l_training l); ser_nat (l_steps l); ser_nat (length (l_hooks l))].
Definition ser_trainer (t : trainer) : tree :=
  if t_alive t then
    Nd [ser_bool (t_training t);
        ser_list (fun e => Nd [ser_nat (fst e); ser_cell (snd e)]) (t_cells t);
        ser_list (fun e => Nd [ser_nat (fst (fst e)); ser_nat (snd (fst e)); ser_nat (snd e)]) (pool_named t);
        ser_list ser_nat (pool_monitors t)]
  else Nd [].
Fixpoint ser_mons (k : nat) (l : list monitor) : list tree :=
  match l with
  | [] => []
  | m :: tl =>
      (if m_alive m then [Nd [ser_nat k; ser_bool (m_reg m); ser_bool (m_fresh m); ser_list ser_obs (rev (m_obs m))]]
       else []) ++ ser_mons (S k) tl
  end.

Fixpoint seq_cells_n (l c n : nat) : list cellid :=
  match n with O => [] | S n' => seq_cells_n l c n' ++ [(l, c, n')] end.
Fixpoint seq_cells_c (l c nn : nat) : list cellid :=
  match c with O => [] | S c' => seq_cells_c l c' nn ++ seq_cells_n l c' nn end.
Fixpoint all_cells_from (l : nat) (w : world) : list cellid :=
  match w with
  | [] => []
  | (conns, nn) :: tl => seq_cells_c l (length conns) nn ++ all_cells_from (S l) tl
  end.
Definition all_cells (w : world) : list cellid := all_cells_from 0 w.

Fixpoint acc_get (l c : nat) (a : list (nat * nat * nat)) : nat :=
  match a with
  | [] => 0
  | (l', c', k) :: tl => if Nat.eqb l l' && Nat.eqb c c' then k else acc_get l c tl
  end.
Fixpoint all_conns_from (l : nat) (w : world) : list (nat * nat) :=
  match w with
  | [] => []
  | (conns, _) :: tl => map (fun c => (l, c)) (seq 0 (length conns)) ++ all_conns_from (S l) tl
  end.

Definition ser_state (w : world) (s : state) : tree :=
  Nd [ser_list ser_layer (layers s);
      ser_list ser_trainer (trainers s);
      Nd (ser_mons 0 (mons s));
      ser_list (fun c => ser_list (fun e => Nd [ser_nat (fst e); ser_nat (snd e)]) (cmon_get c (cmon s))) (all_cells w);
      ser_list (fun lc => ser_nat (acc_get (fst lc) (snd lc) (accs s))) (all_conns_from 0 w)].

Fixpoint trace (w : world) (s : state) (ops : list op) : list tree :=
  match ops with
  | [] => []
  | o :: tl => let '(s1, r) := step w s o in Nd [ser_err r; ser_state w s1] :: trace w s1 tl
  end.
Definition run_case (w : world) (tys : list ttype) (ops : list op) : tree :=
  Nd (trace w (init_state w tys) ops).

