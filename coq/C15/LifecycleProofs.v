(* C15 - proofs about the lifecycle state machine (axiom-free: nat / list / lia only).

   Part 1: structural invariant HW (the layers' hook lists are duplicate free, contain exactly the registered
           monitors of that layer, prepended monitors come before appended ones, observation stamps never exceed
           the layer's step counter), preserved by every operation, for every operation sequence.
   Part 2: the effect of one layer call. *)
From Coq Require Import List ZArith Bool Arith Lia.
From Inferno Require Import C15.Lifecycle C15.LifecycleLemmas.
Import ListNotations.

(* ------------------------------------------------------------------ accessors after updates *)
Lemma get_mon_upd_same i f s : i < length (mons s) -> get_mon (upd_mon i f s) i = f (get_mon s i).
Proof. intros H. unfold get_mon, upd_mon; simpl. apply nth_upd_same; auto. Qed.
Lemma get_mon_upd_other i j f s : i <> j -> get_mon (upd_mon i f s) j = get_mon s j.
Proof. intros H. unfold get_mon, upd_mon; simpl. apply nth_upd_other; auto. Qed.
Lemma get_mon_upd_oob i f s : length (mons s) <= i -> upd_mon i f s = s.
Proof. intros H. unfold upd_mon. rewrite upd_oob by auto. destruct s; reflexivity. Qed.
Lemma length_mons_upd_mon i f s : length (mons (upd_mon i f s)) = length (mons s).
Proof. unfold upd_mon; simpl. apply length_upd. Qed.
Lemma get_layer_upd_same l f s : l < length (layers s) -> get_layer (upd_layer l f s) l = f (get_layer s l).
Proof. intros H. unfold get_layer, upd_layer; simpl. apply nth_upd_same; auto. Qed.
Lemma get_layer_upd_other l k f s : l <> k -> get_layer (upd_layer l f s) k = get_layer s k.
Proof. intros H. unfold get_layer, upd_layer; simpl. apply nth_upd_other; auto. Qed.
Lemma length_layers_upd_layer l f s : length (layers (upd_layer l f s)) = length (layers s).
Proof. unfold upd_layer; simpl. apply length_upd. Qed.
Lemma upd_layer_oob l f s : length (layers s) <= l -> upd_layer l f s = s.
Proof. intros H. unfold upd_layer. rewrite upd_oob by auto. destruct s; reflexivity. Qed.
Lemma get_trainer_upd_same t f s : t < length (trainers s) -> get_trainer (upd_trainer t f s) t = f (get_trainer s t).
Proof. intros H. unfold get_trainer, upd_trainer; simpl. apply nth_upd_same; auto. Qed.
Lemma get_trainer_upd_other t k f s : t <> k -> get_trainer (upd_trainer t f s) k = get_trainer s k.
Proof. intros H. unfold get_trainer, upd_trainer; simpl. apply nth_upd_other; auto. Qed.
Lemma length_trainers_upd t f s : length (trainers (upd_trainer t f s)) = length (trainers s).
Proof. unfold upd_trainer; simpl. apply length_upd. Qed.

(* ------------------------------------------------------------------ prepended before appended *)
Fixpoint pp_sorted (p : nat -> bool) (l : list nat) : bool :=
  match l with
  | [] => true
  | x :: tl => if p x then pp_sorted p tl else forallb (fun y => negb (p y)) tl
  end.

Lemma forallb_ext_in {A} (p q : A -> bool) l : (forall x, In x l -> p x = q x) -> forallb p l = forallb q l.
Proof.
  induction l as [|x tl IH]; simpl; auto. intros H. rewrite (H x) by auto. f_equal. apply IH. auto.
Qed.

Lemma pp_sorted_ext p q l : (forall x, In x l -> p x = q x) -> pp_sorted p l = pp_sorted q l.
Proof.
  induction l as [|x tl IH]; simpl; auto. intros H.
  rewrite <- (H x) by auto. destruct (p x).
  - apply IH; auto.
  - apply forallb_ext_in. intros y Hy. rewrite (H y) by auto. reflexivity.
Qed.

Lemma forallb_remove p y l : forallb p l = true -> forallb p (remove_nat y l) = true.
Proof.
  induction l as [|x tl IH]; simpl; auto. rewrite andb_true_iff. intros [H1 H2].
  destruct (Nat.eqb y x); simpl; auto. rewrite H1; auto.
Qed.

Lemma pp_sorted_remove p y l : pp_sorted p l = true -> pp_sorted p (remove_nat y l) = true.
Proof.
  induction l as [|x tl IH]; simpl; auto.
  destruct (p x) eqn:E; intros H.
  - destruct (Nat.eqb y x); simpl; auto. rewrite E; auto.
  - destruct (Nat.eqb y x); simpl.
    + clear IH. induction tl as [|z tl IH]; simpl in *; auto. apply andb_true_iff in H as [H1 H2].
      destruct (Nat.eqb y z); simpl; auto.
      destruct (p z) eqn:Ez; simpl in H1; [discriminate|]. apply forallb_remove; auto.
    + rewrite E. apply forallb_remove; auto.
Qed.

Lemma pp_sorted_cons_true p x l : p x = true -> pp_sorted p l = true -> pp_sorted p (x :: l) = true.
Proof. intros H1 H2; simpl; rewrite H1; auto. Qed.

Lemma pp_sorted_app_false p x l : p x = false -> pp_sorted p l = true -> pp_sorted p (l ++ [x]) = true.
Proof.
  intros Hx. induction l as [|y tl IH]; simpl; [rewrite Hx; auto|].
  destruct (p y); auto. intros H. rewrite forallb_app, H. simpl. rewrite Hx; auto.
Qed.

(* the use: once an appended monitor is met, nothing prepended follows *)
Lemma pp_sorted_split p l1 x l2 :
  pp_sorted p (l1 ++ x :: l2) = true -> p x = false -> forall y, In y l2 -> p y = false.
Proof.
  induction l1 as [|z tl IH]; simpl; intros H Hx y Hy.
  - rewrite Hx in H. rewrite forallb_forall in H. apply H in Hy. destruct (p y); auto; discriminate.
  - destruct (p z); [eapply IH; eauto|].
    rewrite forallb_forall in H. assert (In y (tl ++ x :: l2)) by (apply in_or_app; right; right; auto).
    apply H in H0. destruct (p y); auto; discriminate.
Qed.

(* ------------------------------------------------------------------ the structural invariant *)
Definition hooks_wf (s : state) : Prop :=
  forall l, l < length (layers s) ->
    NoDup (l_hooks (get_layer s l)) /\
    forall i, In i (l_hooks (get_layer s l)) <->
              (i < length (mons s) /\ m_reg (get_mon s i) = true /\ m_layer (get_mon s i) = l).
Definition hooks_sorted (s : state) : Prop :=
  forall l, l < length (layers s) ->
    pp_sorted (fun i => m_prepend (get_mon s i)) (l_hooks (get_layer s l)) = true.
Definition stamps_ok (s : state) : Prop :=
  forall i, i < length (mons s) ->
    forall o, In o (m_obs (get_mon s i)) -> fst o <= l_steps (get_layer s (m_layer (get_mon s i))).
Definition HW (s : state) : Prop := hooks_wf s /\ hooks_sorted s /\ stamps_ok s.

(* HW only looks at layers and monitors *)
Lemma HW_ext s s' : layers s' = layers s -> mons s' = mons s -> HW s -> HW s'.
Proof.
  intros El Em (H1 & H2 & H3). unfold HW, hooks_wf, hooks_sorted, stamps_ok, get_layer, get_mon in *.
  rewrite El, Em. auto.
Qed.

Lemma nth_map_const {A B} (c : B) (l : list A) n : nth n (map (fun _ => c) l) c = c.
Proof. revert n; induction l as [|x tl IH]; intros [|n]; simpl; auto. Qed.

Lemma HW_init w tys : HW (init_state w tys).
Proof.
  assert (G : forall l, get_layer (init_state w tys) l = mkLayer true [] 0).
  { intros l. unfold get_layer, init_state; simpl. apply (nth_map_const (mkLayer true [] 0)). }
  unfold HW, hooks_wf, hooks_sorted, stamps_ok. split; [|split].
  - intros l Hl. rewrite G. simpl. split; [constructor|]. intros i. split; [tauto|]. intros (H1 & _). simpl in H1. lia.
  - intros l Hl. rewrite G. reflexivity.
  - intros i Hi. simpl in Hi. lia.
Qed.

(* a monitor-local change that keeps layer / prepend / registration and only adds bounded stamps *)
Lemma HW_upd_mon i f s :
  (forall m, m_layer (f m) = m_layer m /\ m_prepend (f m) = m_prepend m /\ m_reg (f m) = m_reg m) ->
  (forall o, In o (m_obs (f (get_mon s i))) ->
             In o (m_obs (get_mon s i)) \/ fst o <= l_steps (get_layer s (m_layer (get_mon s i)))) ->
  HW s -> HW (upd_mon i f s).
Proof.
  intros Hf Hobs (H1 & H2 & H3).
  destruct (Nat.lt_ge_cases i (length (mons s))) as [Hi|Hi];
    [|rewrite get_mon_upd_oob by auto; split; [|split]; auto].
  assert (G : forall j, m_layer (get_mon (upd_mon i f s) j) = m_layer (get_mon s j) /\
                        m_prepend (get_mon (upd_mon i f s) j) = m_prepend (get_mon s j) /\
                        m_reg (get_mon (upd_mon i f s) j) = m_reg (get_mon s j)).
  { intros j. destruct (Nat.eq_dec i j) as [->|N]; [rewrite get_mon_upd_same by auto; apply Hf|
                                                    rewrite get_mon_upd_other by auto; auto]. }
  split; [|split].
  - intros l Hl. change (get_layer (upd_mon i f s) l) with (get_layer s l).
    change (length (layers (upd_mon i f s))) with (length (layers s)) in Hl.
    destruct (H1 l Hl) as [ND IFF]. split; auto. intros j. rewrite length_mons_upd_mon.
    destruct (G j) as (G1 & G2 & G3). rewrite G1, G3. apply IFF.
  - intros l Hl. change (get_layer (upd_mon i f s) l) with (get_layer s l).
    rewrite <- (H2 l Hl). apply pp_sorted_ext. intros x _. apply G.
  - intros j Hj o Ho. rewrite length_mons_upd_mon in Hj.
    change (get_layer (upd_mon i f s)) with (get_layer s). destruct (G j) as (G1 & _). rewrite G1.
    destruct (Nat.eq_dec i j) as [->|N].
    + rewrite get_mon_upd_same in Ho by auto. apply Hobs in Ho as [Ho|Ho]; auto.
    + rewrite get_mon_upd_other in Ho by auto. auto.
Qed.

Lemma HW_set_fresh i b s : HW s -> HW (upd_mon i (set_fresh b) s).
Proof. apply HW_upd_mon; [intros m; destruct m; simpl; auto|intros o Ho; left; destruct (get_mon s i); auto]. Qed.

(* a change of one layer's hook list and of one monitor's registration flag, described pointwise *)
Lemma HW_rehook s s' (i lm : nat) (b : bool) (newh : list nat -> list nat) :
  length (layers s') = length (layers s) -> length (mons s') = length (mons s) ->
  (forall j, get_mon s' j = if Nat.eqb i j then set_reg b (get_mon s j) else get_mon s j) ->
  (forall l, l < length (layers s) ->
     l_hooks (get_layer s' l) = if Nat.eqb lm l then newh (l_hooks (get_layer s l)) else l_hooks (get_layer s l)) ->
  (forall l, l_steps (get_layer s' l) = l_steps (get_layer s l)) ->
  lm = m_layer (get_mon s i) -> i < length (mons s) ->
  (* the new hook list of layer lm *)
  (forall h, NoDup h -> (b = true -> ~ In i h) -> NoDup (newh h)) ->
  (forall h j, In j (newh h) <-> (if b then j = i \/ In j h else In j h /\ j <> i)) ->
  (forall p h, p i = m_prepend (get_mon s i) -> pp_sorted p h = true -> pp_sorted p (newh h) = true) ->
  (b = true -> m_reg (get_mon s i) = false) ->
  HW s -> HW s'.
Proof.
  intros LL LM M Lh Ls Elm Hi ND IN PP Hb (H1 & H2 & H3).
  assert (St : forall j, m_layer (get_mon s' j) = m_layer (get_mon s j) /\
                         m_prepend (get_mon s' j) = m_prepend (get_mon s j) /\
                         m_obs (get_mon s' j) = m_obs (get_mon s j)).
  { intros j. rewrite M. destruct (Nat.eqb i j); auto; destruct (get_mon s j); auto. }
  assert (Rg : forall j, m_reg (get_mon s' j) = if Nat.eqb i j then b else m_reg (get_mon s j)).
  { intros j. rewrite M. destruct (Nat.eqb i j); auto; destruct (get_mon s j); auto. }
  split; [|split].
  - intros l Hl. rewrite LL in Hl. destruct (H1 l Hl) as [NDl IFF]. rewrite Lh by auto. split.
    + destruct (Nat.eqb lm l) eqn:E; auto. apply Nat.eqb_eq in E; subst l. apply ND; auto.
      intros Hbt Hin. apply IFF in Hin as (_ & B & _). rewrite Hb in B by auto. discriminate.
    + intros j. rewrite LM. destruct (St j) as (S1 & _). rewrite S1, Rg.
      destruct (Nat.eqb lm l) eqn:E.
      * apply Nat.eqb_eq in E; subst l. rewrite IN. destruct b.
        -- rewrite IFF. destruct (Nat.eqb i j) eqn:E2.
           ++ apply Nat.eqb_eq in E2; subst j. split; auto.
           ++ apply Nat.eqb_neq in E2. split; [intros [->|K]; [congruence|auto]|auto].
        -- rewrite IFF. destruct (Nat.eqb i j) eqn:E2.
           ++ apply Nat.eqb_eq in E2; subst j. split; [intros [_ K]; congruence|intros (_ & K & _); discriminate].
           ++ apply Nat.eqb_neq in E2. split; [tauto|intros K; split; auto].
      * apply Nat.eqb_neq in E. rewrite IFF. destruct (Nat.eqb i j) eqn:E2; [|tauto].
        apply Nat.eqb_eq in E2; subst j. split; [intros (_ & _ & K); congruence|intros (_ & _ & K); congruence].
  - intros l Hl. rewrite LL in Hl. rewrite Lh by auto.
    rewrite pp_sorted_ext with (q := fun j => m_prepend (get_mon s j)) by (intros x _; apply St).
    destruct (Nat.eqb lm l); [apply PP; auto|]; apply (H2 l Hl).
  - intros j Hj o Ho. rewrite LM in Hj. rewrite Ls. destruct (St j) as (S1 & _ & S3). rewrite S1. rewrite S3 in Ho. auto.
Qed.

(* Hook.deregister *)
Lemma HW_deregister i s : HW s -> HW (deregister i s).
Proof.
  intros H. unfold deregister.
  destruct (m_reg (get_mon s i)) eqn:Er; auto.
  assert (Hi : i < length (mons s)).
  { destruct (Nat.lt_ge_cases i (length (mons s))); auto. unfold get_mon in Er. rewrite nth_overflow in Er by auto.
    discriminate. }
  set (lm := m_layer (get_mon s i)).
  set (s1 := upd_layer lm (fun l => set_hooks (remove_nat i (l_hooks l)) l) s).
  eapply (HW_rehook s _ i lm false (remove_nat i)).
  - change (layers (upd_mon i (set_reg false) s1)) with (layers s1). apply length_layers_upd_layer.
  - rewrite length_mons_upd_mon. reflexivity.
  - intros j. destruct (Nat.eqb i j) eqn:E.
    + apply Nat.eqb_eq in E; subst j. rewrite get_mon_upd_same; auto.
    + apply Nat.eqb_neq in E. rewrite get_mon_upd_other; auto.
  - intros l Hl. change (get_layer (upd_mon i (set_reg false) s1) l) with (get_layer s1 l). unfold s1.
    destruct (Nat.eqb lm l) eqn:E.
    + apply Nat.eqb_eq in E; subst l. rewrite get_layer_upd_same by auto. reflexivity.
    + apply Nat.eqb_neq in E. rewrite get_layer_upd_other by auto. reflexivity.
  - intros l. change (get_layer (upd_mon i (set_reg false) s1) l) with (get_layer s1 l). unfold s1.
    destruct (Nat.lt_ge_cases lm (length (layers s))) as [Hl|Hl]; [|rewrite upd_layer_oob by auto; auto].
    destruct (Nat.eq_dec lm l) as [<-|N]; [rewrite get_layer_upd_same by auto; reflexivity|
                                            rewrite get_layer_upd_other by auto; reflexivity].
  - reflexivity.
  - exact Hi.
  - intros h ND _. apply NoDup_remove_nat; auto.
  - intros h j. apply In_remove_nat.
  - intros p h _. apply pp_sorted_remove.
  - discriminate.
  - exact H.
Qed.

(* Hook.register of an unregistered, existing monitor *)
Lemma HW_do_register i s :
  i < length (mons s) -> m_reg (get_mon s i) = false -> HW s -> HW (do_register i s).
Proof.
  intros Hi Er H. unfold do_register.
  set (lm := m_layer (get_mon s i)).
  set (pre := m_prepend (get_mon s i)).
  set (s1 := upd_layer lm (fun l => set_hooks (if pre then i :: l_hooks l else l_hooks l ++ [i]) l) s).
  eapply (HW_rehook s _ i lm true (fun h => if pre then i :: h else h ++ [i])).
  - change (layers (upd_mon i (set_reg true) s1)) with (layers s1). apply length_layers_upd_layer.
  - rewrite length_mons_upd_mon. reflexivity.
  - intros j. destruct (Nat.eqb i j) eqn:E.
    + apply Nat.eqb_eq in E; subst j. rewrite get_mon_upd_same; auto.
    + apply Nat.eqb_neq in E. rewrite get_mon_upd_other; auto.
  - intros l Hl. change (get_layer (upd_mon i (set_reg true) s1) l) with (get_layer s1 l). unfold s1.
    destruct (Nat.eqb lm l) eqn:E.
    + apply Nat.eqb_eq in E; subst l. rewrite get_layer_upd_same by auto. reflexivity.
    + apply Nat.eqb_neq in E. rewrite get_layer_upd_other by auto. reflexivity.
  - intros l. change (get_layer (upd_mon i (set_reg true) s1) l) with (get_layer s1 l). unfold s1.
    destruct (Nat.lt_ge_cases lm (length (layers s))) as [Hl|Hl]; [|rewrite upd_layer_oob by auto; auto].
    destruct (Nat.eq_dec lm l) as [<-|N]; [rewrite get_layer_upd_same by auto; reflexivity|
                                            rewrite get_layer_upd_other by auto; reflexivity].
  - reflexivity.
  - exact Hi.
  - intros h ND Nin. specialize (Nin eq_refl). destruct pre.
    + constructor; auto.
    + apply NoDup_app_remove_r_inv; auto.
  - intros h j. destruct pre; simpl.
    + split; intros [K|K]; auto.
    + rewrite in_app_iff. simpl. split; [intros [K|[K|[]]]; auto|intros [K|K]; auto].
  - intros p h Hp Hs. fold pre in Hp. destruct pre.
    + apply pp_sorted_cons_true; auto.
    + apply pp_sorted_app_false; auto.
  - intros _. exact Er.
  - exact H.
Qed.
