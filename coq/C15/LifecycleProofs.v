(* C15 - proofs about the lifecycle state machine (axiom-free: nat / list / lia only).

   Part 1: structural invariant HW (the layers' hook lists are duplicate free, contain exactly the registered
           monitors of that layer, prepended monitors come before appended ones, observation stamps never exceed
           the layer's step counter), preserved by every operation, for every operation sequence.
   Part 2: the effect of one layer call. *)
From Coq Require Import List ZArith Bool Arith Lia.
From Inferno Require Import C15.Lifecycle C15.LifecycleLemmas.
Import ListNotations.

(* ------------------------------------------------------------------ accessors after updates *)
Lemma get_mon_upd_same i f s : i < length (mons s) -> get_mon (upd_mon i f s) i = f (get_mon s i).
Proof. intros H. unfold get_mon, upd_mon; simpl. apply nth_upd_same; auto. Qed.
Lemma get_mon_upd_other i j f s : i <> j -> get_mon (upd_mon i f s) j = get_mon s j.
Proof. intros H. unfold get_mon, upd_mon; simpl. apply nth_upd_other; auto. Qed.
Lemma get_mon_upd_oob i f s : length (mons s) <= i -> upd_mon i f s = s.
Proof. intros H. unfold upd_mon. rewrite upd_oob by auto. destruct s; reflexivity. Qed.
Lemma length_mons_upd_mon i f s : length (mons (upd_mon i f s)) = length (mons s).
Proof. unfold upd_mon; simpl. apply length_upd. Qed.
Lemma get_layer_upd_same l f s : l < length (layers s) -> get_layer (upd_layer l f s) l = f (get_layer s l).
Proof. intros H. unfold get_layer, upd_layer; simpl. apply nth_upd_same; auto. Qed.
Lemma get_layer_upd_other l k f s : l <> k -> get_layer (upd_layer l f s) k = get_layer s k.
Proof. intros H. unfold get_layer, upd_layer; simpl. apply nth_upd_other; auto. Qed.
Lemma length_layers_upd_layer l f s : length (layers (upd_layer l f s)) = length (layers s).
Proof. unfold upd_layer; simpl. apply length_upd. Qed.
Lemma upd_layer_oob l f s : length (layers s) <= l -> upd_layer l f s = s.
Proof. intros H. unfold upd_layer. rewrite upd_oob by auto. destruct s; reflexivity. Qed.
Lemma get_trainer_upd_same t f s : t < length (trainers s) -> get_trainer (upd_trainer t f s) t = f (get_trainer s t).
Proof. intros H. unfold get_trainer, upd_trainer; simpl. apply nth_upd_same; auto. Qed.
Lemma get_trainer_upd_other t k f s : t <> k -> get_trainer (upd_trainer t f s) k = get_trainer s k.
Proof. intros H. unfold get_trainer, upd_trainer; simpl. apply nth_upd_other; auto. Qed.
Lemma length_trainers_upd t f s : length (trainers (upd_trainer t f s)) = length (trainers s).
Proof. unfold upd_trainer; simpl. apply length_upd. Qed.

(* ------------------------------------------------------------------ prepended before appended *)
Fixpoint pp_sorted (p : nat -> bool) (l : list nat) : bool :=
  match l with
  | [] => true
  | x :: tl => if p x then pp_sorted p tl else forallb (fun y => negb (p y)) tl
  end.

Lemma forallb_ext_in {A} (p q : A -> bool) l : (forall x, In x l -> p x = q x) -> forallb p l = forallb q l.
Proof.
  induction l as [|x tl IH]; simpl; auto. intros H. rewrite (H x) by auto. f_equal. apply IH. auto.
Qed.

Lemma pp_sorted_ext p q l : (forall x, In x l -> p x = q x) -> pp_sorted p l = pp_sorted q l.
Proof.
  induction l as [|x tl IH]; simpl; auto. intros H.
  rewrite <- (H x) by auto. destruct (p x).
  - apply IH; auto.
  - apply forallb_ext_in. intros y Hy. rewrite (H y) by auto. reflexivity.
Qed.

Lemma forallb_remove p y l : forallb p l = true -> forallb p (remove_nat y l) = true.
Proof.
  induction l as [|x tl IH]; simpl; auto. rewrite andb_true_iff. intros [H1 H2].
  destruct (Nat.eqb y x); simpl; auto. rewrite H1; auto.
Qed.

Lemma pp_sorted_remove p y l : pp_sorted p l = true -> pp_sorted p (remove_nat y l) = true.
Proof.
  induction l as [|x tl IH]; simpl; auto.
  destruct (p x) eqn:E; intros H.
  - destruct (Nat.eqb y x); simpl; auto. rewrite E; auto.
  - destruct (Nat.eqb y x); simpl.
    + clear IH. induction tl as [|z tl IH]; simpl in *; auto. apply andb_true_iff in H as [H1 H2].
      destruct (Nat.eqb y z); simpl; auto.
      destruct (p z) eqn:Ez; simpl in H1; [discriminate|]. apply forallb_remove; auto.
    + rewrite E. apply forallb_remove; auto.
Qed.

Lemma pp_sorted_cons_true p x l : p x = true -> pp_sorted p l = true -> pp_sorted p (x :: l) = true.
Proof. intros H1 H2; simpl; rewrite H1; auto. Qed.

Lemma pp_sorted_app_false p x l : p x = false -> pp_sorted p l = true -> pp_sorted p (l ++ [x]) = true.
Proof.
  intros Hx. induction l as [|y tl IH]; simpl; [rewrite Hx; auto|].
  destruct (p y); auto. intros H. rewrite forallb_app, H. simpl. rewrite Hx; auto.
Qed.

(* the use: once an appended monitor is met, nothing prepended follows *)
Lemma pp_sorted_split p l1 x l2 :
  pp_sorted p (l1 ++ x :: l2) = true -> p x = false -> forall y, In y l2 -> p y = false.
Proof.
  induction l1 as [|z tl IH]; simpl; intros H Hx y Hy.
  - rewrite Hx in H. rewrite forallb_forall in H. apply H in Hy. destruct (p y); auto; discriminate.
  - destruct (p z); [eapply IH; eauto|].
    rewrite forallb_forall in H. assert (In y (tl ++ x :: l2)) by (apply in_or_app; right; right; auto).
    apply H in H0. destruct (p y); auto; discriminate.
Qed.

Lemma NoDup_snoc {A} (l : list A) x : NoDup l -> ~ In x l -> NoDup (l ++ [x]).
Proof.
  induction 1 as [|y tl N ND IH]; simpl; intros H.
  - constructor; [tauto|constructor].
  - constructor; [|apply IH; tauto]. rewrite in_app_iff. simpl. intros [K|[K|[]]]; [tauto|subst; tauto].
Qed.

(* ------------------------------------------------------------------ the structural invariant *)
Definition hooks_wf (s : state) : Prop :=
  forall l, l < length (layers s) ->
    NoDup (l_hooks (get_layer s l)) /\
    forall i, In i (l_hooks (get_layer s l)) <->
              (i < length (mons s) /\ m_reg (get_mon s i) = true /\ m_layer (get_mon s i) = l).
Definition hooks_sorted (s : state) : Prop :=
  forall l, l < length (layers s) ->
    pp_sorted (fun i => m_prepend (get_mon s i)) (l_hooks (get_layer s l)) = true.
Definition stamps_ok (s : state) : Prop :=
  forall i, i < length (mons s) ->
    forall o, In o (m_obs (get_mon s i)) -> fst o <= l_steps (get_layer s (m_layer (get_mon s i))).
Definition HW (s : state) : Prop := hooks_wf s /\ hooks_sorted s /\ stamps_ok s.

(* HW only looks at layers and monitors *)
Lemma HW_ext s s' : layers s' = layers s -> mons s' = mons s -> HW s -> HW s'.
Proof.
  intros El Em (H1 & H2 & H3). unfold HW, hooks_wf, hooks_sorted, stamps_ok, get_layer, get_mon in *.
  rewrite El, Em. auto.
Qed.

Lemma nth_map_const {A B} (c : B) (l : list A) n : nth n (map (fun _ => c) l) c = c.
Proof. revert n; induction l as [|x tl IH]; intros [|n]; simpl; auto. Qed.

Lemma HW_init w tys : HW (init_state w tys).
Proof.
  assert (G : forall l, get_layer (init_state w tys) l = mkLayer true [] 0).
  { intros l. unfold get_layer, init_state; simpl. apply (nth_map_const (mkLayer true [] 0)). }
  unfold HW, hooks_wf, hooks_sorted, stamps_ok. split; [|split].
  - intros l Hl. rewrite G. simpl. split; [constructor|]. intros i. split; [tauto|]. intros (H1 & _). simpl in H1. lia.
  - intros l Hl. rewrite G. reflexivity.
  - intros i Hi. simpl in Hi. lia.
Qed.

(* a monitor-local change that keeps layer / prepend / registration and only adds bounded stamps *)
Lemma HW_upd_mon i f s :
  (let m := get_mon s i in m_layer (f m) = m_layer m /\ m_prepend (f m) = m_prepend m /\ m_reg (f m) = m_reg m) ->
  (forall o, In o (m_obs (f (get_mon s i))) ->
             In o (m_obs (get_mon s i)) \/ fst o <= l_steps (get_layer s (m_layer (get_mon s i)))) ->
  HW s -> HW (upd_mon i f s).
Proof.
  intros Hf Hobs (H1 & H2 & H3).
  destruct (Nat.lt_ge_cases i (length (mons s))) as [Hi|Hi];
    [|rewrite get_mon_upd_oob by auto; split; [|split]; auto].
  assert (G : forall j, m_layer (get_mon (upd_mon i f s) j) = m_layer (get_mon s j) /\
                        m_prepend (get_mon (upd_mon i f s) j) = m_prepend (get_mon s j) /\
                        m_reg (get_mon (upd_mon i f s) j) = m_reg (get_mon s j)).
  { intros j. destruct (Nat.eq_dec i j) as [->|N]; [rewrite get_mon_upd_same by auto; apply Hf|
                                                    rewrite get_mon_upd_other by auto; auto]. }
  split; [|split].
  - intros l Hl. change (get_layer (upd_mon i f s) l) with (get_layer s l).
    change (length (layers (upd_mon i f s))) with (length (layers s)) in Hl.
    destruct (H1 l Hl) as [ND IFF]. split; auto. intros j. rewrite length_mons_upd_mon.
    destruct (G j) as (G1 & G2 & G3). rewrite G1, G3. apply IFF.
  - intros l Hl. change (get_layer (upd_mon i f s) l) with (get_layer s l).
    rewrite <- (H2 l Hl). apply pp_sorted_ext. intros x _. apply G.
  - intros j Hj o Ho. rewrite length_mons_upd_mon in Hj.
    change (get_layer (upd_mon i f s)) with (get_layer s). destruct (G j) as (G1 & _). rewrite G1.
    destruct (Nat.eq_dec i j) as [->|N].
    + rewrite get_mon_upd_same in Ho by auto. apply Hobs in Ho as [Ho|Ho]; auto.
    + rewrite get_mon_upd_other in Ho by auto. auto.
Qed.

Lemma HW_set_fresh i b s : HW s -> HW (upd_mon i (set_fresh b) s).
Proof. apply HW_upd_mon; [destruct (get_mon s i); simpl; auto|intros o Ho; left; destruct (get_mon s i); auto]. Qed.

(* a change of one layer's hook list and of one monitor's registration flag, described pointwise *)
Lemma HW_rehook s s' (i lm : nat) (b : bool) (newh : list nat -> list nat) :
  length (layers s') = length (layers s) -> length (mons s') = length (mons s) ->
  (forall j, get_mon s' j = if Nat.eqb i j then set_reg b (get_mon s j) else get_mon s j) ->
  (forall l, l < length (layers s) ->
     l_hooks (get_layer s' l) = if Nat.eqb lm l then newh (l_hooks (get_layer s l)) else l_hooks (get_layer s l)) ->
  (forall l, l_steps (get_layer s' l) = l_steps (get_layer s l)) ->
  lm = m_layer (get_mon s i) -> i < length (mons s) ->
  (* the new hook list of layer lm *)
  (forall h, NoDup h -> (b = true -> ~ In i h) -> NoDup (newh h)) ->
  (forall h j, In j (newh h) <-> (if b then j = i \/ In j h else In j h /\ j <> i)) ->
  (forall p h, p i = m_prepend (get_mon s i) -> pp_sorted p h = true -> pp_sorted p (newh h) = true) ->
  (b = true -> m_reg (get_mon s i) = false) ->
  HW s -> HW s'.
Proof.
  intros LL LM M Lh Ls Elm Hi ND IN PP Hb (H1 & H2 & H3).
  assert (St : forall j, m_layer (get_mon s' j) = m_layer (get_mon s j) /\
                         m_prepend (get_mon s' j) = m_prepend (get_mon s j) /\
                         m_obs (get_mon s' j) = m_obs (get_mon s j)).
  { intros j. rewrite M. destruct (Nat.eqb i j); auto; destruct (get_mon s j); auto. }
  assert (Rg : forall j, m_reg (get_mon s' j) = if Nat.eqb i j then b else m_reg (get_mon s j)).
  { intros j. rewrite M. destruct (Nat.eqb i j); auto; destruct (get_mon s j); auto. }
  split; [|split].
  - intros l Hl. rewrite LL in Hl. destruct (H1 l Hl) as [NDl IFF]. rewrite Lh by auto. split.
    + destruct (Nat.eqb lm l) eqn:E; auto. apply Nat.eqb_eq in E; subst l. apply ND; auto.
      intros Hbt Hin. apply IFF in Hin as (_ & B & _). rewrite Hb in B by auto. discriminate.
    + intros j. rewrite LM. destruct (St j) as (S1 & _). rewrite S1, Rg.
      destruct (Nat.eqb lm l) eqn:E.
      * apply Nat.eqb_eq in E; subst l. rewrite IN. destruct b.
        -- rewrite IFF. destruct (Nat.eqb i j) eqn:E2.
           ++ apply Nat.eqb_eq in E2; subst j. split; auto.
           ++ apply Nat.eqb_neq in E2. split; [intros [->|K]; [congruence|auto]|auto].
        -- rewrite IFF. destruct (Nat.eqb i j) eqn:E2.
           ++ apply Nat.eqb_eq in E2; subst j. split; [intros [_ K]; congruence|intros (_ & K & _); discriminate].
           ++ apply Nat.eqb_neq in E2. split; [tauto|intros K; split; auto].
      * apply Nat.eqb_neq in E. rewrite IFF. destruct (Nat.eqb i j) eqn:E2; [|tauto].
        apply Nat.eqb_eq in E2; subst j. split; [intros (_ & _ & K); congruence|intros (_ & _ & K); congruence].
  - intros l Hl. rewrite LL in Hl. rewrite Lh by auto.
    rewrite pp_sorted_ext with (q := fun j => m_prepend (get_mon s j)) by (intros x _; apply St).
    destruct (Nat.eqb lm l); [apply PP; auto|]; apply (H2 l Hl).
  - intros j Hj o Ho. rewrite LM in Hj. rewrite Ls. destruct (St j) as (S1 & _ & S3). rewrite S1. rewrite S3 in Ho. auto.
Qed.

(* Hook.deregister *)
Lemma HW_deregister i s : HW s -> HW (deregister i s).
Proof.
  intros H. unfold deregister.
  destruct (m_reg (get_mon s i)) eqn:Er; auto.
  assert (Hi : i < length (mons s)).
  { destruct (Nat.lt_ge_cases i (length (mons s))); auto. unfold get_mon in Er. rewrite nth_overflow in Er by auto.
    discriminate. }
  set (lm := m_layer (get_mon s i)).
  set (s1 := upd_layer lm (fun l => set_hooks (remove_nat i (l_hooks l)) l) s).
  eapply (HW_rehook s _ i lm false (remove_nat i)).
  - change (layers (upd_mon i (set_reg false) s1)) with (layers s1). apply length_layers_upd_layer.
  - rewrite length_mons_upd_mon. reflexivity.
  - intros j. destruct (Nat.eqb i j) eqn:E.
    + apply Nat.eqb_eq in E; subst j. rewrite get_mon_upd_same; auto.
    + apply Nat.eqb_neq in E. rewrite get_mon_upd_other; auto.
  - intros l Hl. change (get_layer (upd_mon i (set_reg false) s1) l) with (get_layer s1 l). unfold s1.
    destruct (Nat.eqb lm l) eqn:E.
    + apply Nat.eqb_eq in E; subst l. rewrite get_layer_upd_same by auto. reflexivity.
    + apply Nat.eqb_neq in E. rewrite get_layer_upd_other by auto. reflexivity.
  - intros l. change (get_layer (upd_mon i (set_reg false) s1) l) with (get_layer s1 l). unfold s1.
    destruct (Nat.lt_ge_cases lm (length (layers s))) as [Hl|Hl]; [|rewrite upd_layer_oob by auto; auto].
    destruct (Nat.eq_dec lm l) as [<-|N]; [rewrite get_layer_upd_same by auto; reflexivity|
                                            rewrite get_layer_upd_other by auto; reflexivity].
  - reflexivity.
  - exact Hi.
  - intros h ND _. apply NoDup_remove_nat; auto.
  - intros h j. apply In_remove_nat.
  - intros p h _. apply pp_sorted_remove.
  - discriminate.
  - exact H.
Qed.

(* Hook.register of an unregistered, existing monitor *)
Lemma HW_do_register i s :
  i < length (mons s) -> m_reg (get_mon s i) = false -> HW s -> HW (do_register i s).
Proof.
  intros Hi Er H. unfold do_register.
  set (lm := m_layer (get_mon s i)).
  set (pre := m_prepend (get_mon s i)).
  set (s1 := upd_layer lm (fun l => set_hooks (if pre then i :: l_hooks l else l_hooks l ++ [i]) l) s).
  eapply (HW_rehook s _ i lm true (fun h => if pre then i :: h else h ++ [i])).
  - change (layers (upd_mon i (set_reg true) s1)) with (layers s1). apply length_layers_upd_layer.
  - rewrite length_mons_upd_mon. reflexivity.
  - intros j. destruct (Nat.eqb i j) eqn:E.
    + apply Nat.eqb_eq in E; subst j. rewrite get_mon_upd_same; auto.
    + apply Nat.eqb_neq in E. rewrite get_mon_upd_other; auto.
  - intros l Hl. change (get_layer (upd_mon i (set_reg true) s1) l) with (get_layer s1 l). unfold s1.
    destruct (Nat.eqb lm l) eqn:E.
    + apply Nat.eqb_eq in E; subst l. rewrite get_layer_upd_same by auto. reflexivity.
    + apply Nat.eqb_neq in E. rewrite get_layer_upd_other by auto. reflexivity.
  - intros l. change (get_layer (upd_mon i (set_reg true) s1) l) with (get_layer s1 l). unfold s1.
    destruct (Nat.lt_ge_cases lm (length (layers s))) as [Hl|Hl]; [|rewrite upd_layer_oob by auto; auto].
    destruct (Nat.eq_dec lm l) as [<-|N]; [rewrite get_layer_upd_same by auto; reflexivity|
                                            rewrite get_layer_upd_other by auto; reflexivity].
  - reflexivity.
  - exact Hi.
  - intros h ND Nin. specialize (Nin eq_refl). destruct pre.
    + constructor; auto.
    + apply NoDup_snoc; auto.
  - intros h j. destruct pre; simpl.
    + split; intros [K|K]; auto.
    + rewrite in_app_iff. simpl. split; [intros [K|[K|[]]]; auto|intros [K|K]; auto].
  - intros p h Hp Hs. fold pre in Hp. destruct pre.
    + apply pp_sorted_cons_true; auto.
    + apply pp_sorted_app_false; auto.
  - intros _. exact Er.
  - exact H.
Qed.

(* appending a fresh, unregistered monitor *)
Lemma HW_append m s : m_reg m = false -> m_obs m = [] -> HW s -> HW (set_mons (mons s ++ [m]) s).
Proof.
  intros Er Eo (H1 & H2 & H3).
  assert (G : forall j, j < length (mons s) -> get_mon (set_mons (mons s ++ [m]) s) j = get_mon s j).
  { intros j Hj. unfold get_mon; simpl. apply nth_app_old; auto. }
  assert (Gn : get_mon (set_mons (mons s ++ [m]) s) (length (mons s)) = m).
  { unfold get_mon; simpl. apply nth_app_new. }
  assert (LM : length (mons (set_mons (mons s ++ [m]) s)) = S (length (mons s))).
  { simpl. rewrite app_length. simpl. lia. }
  split; [|split].
  - intros l Hl. change (get_layer (set_mons (mons s ++ [m]) s) l) with (get_layer s l).
    destruct (H1 l Hl) as [ND IFF]. split; auto. intros j. rewrite LM. rewrite IFF. split.
    + intros (A & B & C). rewrite G by auto. split; auto.
    + intros (A & B & C). destruct (Nat.eq_dec j (length (mons s))) as [->|N].
      * rewrite Gn in B. congruence.
      * assert (j < length (mons s)) by lia. rewrite G in B, C by auto. auto.
  - intros l Hl. change (get_layer (set_mons (mons s ++ [m]) s) l) with (get_layer s l).
    rewrite <- (H2 l Hl). apply pp_sorted_ext. intros x Hx. apply (H1 l Hl) in Hx as (A & _). rewrite G; auto.
  - intros j Hj o Ho. rewrite LM in Hj. change (get_layer (set_mons (mons s ++ [m]) s)) with (get_layer s).
    destruct (Nat.eq_dec j (length (mons s))) as [->|N].
    + rewrite Gn in Ho. rewrite Eo in Ho. destruct Ho.
    + assert (j < length (mons s)) by lia. rewrite G in * by auto. auto.
Qed.

Lemma new_monitor_spec lay attr tg pre reads s s' i :
  new_monitor lay attr tg pre reads s = (s', i) ->
  i = length (mons s) /\ length (mons s') = S (length (mons s)) /\
  trainers s' = trainers s /\ cmon s' = cmon s /\ accs s' = accs s /\
  length (layers s') = length (layers s) /\
  (forall j, j < length (mons s) -> get_mon s' j = get_mon s j) /\
  get_mon s' i = mkMon lay attr tg pre reads true true true [] /\
  (forall l, l_training (get_layer s' l) = l_training (get_layer s l) /\ l_steps (get_layer s' l) = l_steps (get_layer s l)) /\
  (HW s -> HW s').
Proof.
  unfold new_monitor. intros E. inversion E; subst; clear E.
  set (m := mkMon lay attr tg pre reads false true true []).
  set (s1 := set_mons (mons s ++ [m]) s).
  assert (L1 : length (mons s1) = S (length (mons s))) by (simpl; rewrite app_length; simpl; lia).
  assert (Gn : get_mon s1 (length (mons s)) = m) by (unfold get_mon; simpl; apply nth_app_new).
  assert (Hi : length (mons s) < length (mons s1)) by lia.
  split; auto. unfold do_register. rewrite Gn. simpl m_layer. simpl m_prepend.
  split; [rewrite length_mons_upd_mon; auto|].
  split; [reflexivity|]. split; [reflexivity|]. split; [reflexivity|].
  split; [simpl; apply length_upd|].
  split.
  { intros j Hj. rewrite get_mon_upd_other by lia.
    unfold get_mon; simpl. apply nth_app_old; auto. }
  split.
  { rewrite get_mon_upd_same by (simpl; rewrite app_length; simpl; lia).
    change (get_mon (upd_layer lay (fun l => set_hooks (if pre then length (mons s) :: l_hooks l else l_hooks l ++ [length (mons s)]) l) s1) (length (mons s))) with (get_mon s1 (length (mons s))).
    rewrite Gn. reflexivity. }
  split.
  { intros l. match goal with |- context [upd_mon ?a ?b ?c] => change (get_layer (upd_mon a b c) l) with (get_layer c l) end.
    destruct (Nat.lt_ge_cases lay (length (layers s1))) as [Hl|Hl]; [|rewrite upd_layer_oob by auto; auto].
    destruct (Nat.eq_dec lay l) as [<-|N]; [rewrite get_layer_upd_same by auto; auto|rewrite get_layer_upd_other by auto; auto]. }
  intros H. assert (HW s1) by (apply HW_append; auto).
  pose proof (HW_do_register (length (mons s)) s1 Hi) as K. unfold do_register in K. rewrite Gn in K. simpl in K.
  apply K; auto.
Qed.

(* ------------------------------------------------------------------ pools reference existing monitors *)
Definition pool_mids (t : trainer) : list nat := flat_map (fun g => map snd (snd g)) (t_pool t).
Definition PV (s : state) : Prop := forall t i, In i (pool_mids (get_trainer s t)) -> i < length (mons s).

Lemma pool_mids_In t i :
  In i (pool_mids t) <-> exists cn g mn, In (cn, g) (t_pool t) /\ In (mn, i) g.
Proof.
  unfold pool_mids. rewrite in_flat_map. split.
  - intros [[cn g] [H1 H2]]. simpl in H2. apply in_map_iff in H2 as [[mn j] [E H2]]. simpl in E; subst.
    exists cn, g, mn; auto.
  - intros (cn & g & mn & H1 & H2). exists (cn, g). split; auto. simpl. apply in_map_iff. exists (mn, i); auto.
Qed.

Lemma pool_get_mids t cn mn i : pool_get t cn mn = Some i -> In i (pool_mids t).
Proof.
  unfold pool_get. destruct (alookup cn (t_pool t)) eqn:E; [|discriminate]. intros H.
  apply pool_mids_In. exists cn, l, mn. split; apply alookup_In; auto.
Qed.

Lemma pool_put_mids cn mn i t j : In j (pool_mids (pool_put cn mn i t)) -> j = i \/ In j (pool_mids t).
Proof.
  rewrite !pool_mids_In. intros (cn' & g & mn' & H1 & H2). unfold pool_put in H1. simpl in H1.
  apply In_aset_weak in H1 as [H1|H1].
  - inversion H1; subst. apply In_aset_weak in H2 as [H2|H2]; [inversion H2; auto|].
    right. destruct (alookup cn (t_pool t)) eqn:E; [|destruct H2]. exists cn, l, mn'. split; auto. apply alookup_In; auto.
  - right. exists cn', g, mn'; auto.
Qed.

Lemma pool_del_entry_mids cn mn t j : In j (pool_mids (pool_del_entry cn mn t)) -> In j (pool_mids t).
Proof.
  unfold pool_del_entry. destruct (alookup cn (t_pool t)) eqn:E; auto.
  rewrite !pool_mids_In. intros (cn' & g & mn' & H1 & H2). simpl in H1.
  apply In_aset_weak in H1 as [H1|H1].
  - inversion H1; subst. apply In_adel_weak in H2. exists cn, l, mn'. split; auto. apply alookup_In; auto.
  - exists cn', g, mn'; auto.
Qed.

Lemma PV_mono s s' :
  length (mons s) <= length (mons s') ->
  (forall t i, In i (pool_mids (get_trainer s' t)) -> In i (pool_mids (get_trainer s t)) \/ i < length (mons s')) ->
  PV s -> PV s'.
Proof. intros L H P t i Hi. apply H in Hi as [Hi|Hi]; auto. apply P in Hi. lia. Qed.

(* the alias search only ever returns a monitor out of the pool it is given *)
Lemma alias_search_spec s self name tg pool found i :
  alias_search s self name tg pool found = Some i ->
  found = Some i \/
  exists obs monitors tg', In (obs, monitors) pool /\ cell_layer obs = cell_layer self /\
                           alookup name monitors = Some i /\ m_tags (get_mon s i) = Some tg' /\ ftags_eqb tg' tg = true.
Proof.
  revert found. induction pool as [|[obs monitors] tl IH]; simpl; intros found H; auto.
  assert (R : forall f, alias_search s self name tg tl f = Some i ->
              f = Some i \/ exists obs0 monitors0 tg', (((obs, monitors) = (obs0, monitors0)) \/ In (obs0, monitors0) tl) /\
                cell_layer obs0 = cell_layer self /\ alookup name monitors0 = Some i /\
                m_tags (get_mon s i) = Some tg' /\ ftags_eqb tg' tg = true).
  { intros f Hf. apply IH in Hf as [Hf|(o & m & t' & A & B)]; auto. right. exists o, m, t'. tauto. }
  destruct (Nat.eqb (cell_layer obs) (cell_layer self)) eqn:El; simpl in H; [|apply R; auto].
  apply Nat.eqb_eq in El.
  destruct (alookup name monitors) as [k|] eqn:Ek; [|apply R; auto].
  destruct (m_tags (get_mon s k)) as [tg'|] eqn:Et; [|apply R; auto].
  destruct (ftags_eqb tg' tg) eqn:Ef; [|apply R; auto].
  assert (Here : exists obs0 monitors0 tg'0, (((obs, monitors) = (obs0, monitors0)) \/ In (obs0, monitors0) tl) /\
                cell_layer obs0 = cell_layer self /\ alookup name monitors0 = Some k /\
                m_tags (get_mon s k) = Some tg'0 /\ ftags_eqb tg'0 tg = true).
  { exists obs, monitors, tg'. auto. }
  destruct (cell_eqb obs self).
  - inversion H; subst. right; auto.
  - apply R in H as [H|H]; auto. inversion H; subst. right; auto.
Qed.

Lemma pool_view_In t obs monitors :
  In (obs, monitors) (pool_view t) -> exists cn, In (cn, obs) (t_observed t) /\ alookup cn (t_pool t) = Some monitors.
Proof.
  unfold pool_view. rewrite in_flat_map. intros [[cn c] [H1 H2]]. simpl in H2.
  destruct (alookup cn (t_pool t)) eqn:E; simpl in H2; [|destruct H2]. destruct H2 as [H2|[]]. inversion H2; subst.
  exists cn; auto.
Qed.

(* ------------------------------------------------------------------ "nothing was observed": the relation between
   the states before and after any operation other than a layer call *)
Definition same_core0 (m m' : monitor) : Prop :=
  m_layer m' = m_layer m /\ m_attr m' = m_attr m /\ m_tags m' = m_tags m /\ m_prepend m' = m_prepend m /\
  m_reads m' = m_reads m /\ m_obs m' = m_obs m.
Definition same_core (m m' : monitor) : Prop := same_core0 m m' /\ m_alive m' = m_alive m.
(* quiet0: what also holds across garbage collection; quiet: nothing died either *)
Definition quietP (P : monitor -> monitor -> Prop) (al : bool) (s s' : state) : Prop :=
  length (mons s) <= length (mons s') /\
  (forall j, j < length (mons s) -> P (get_mon s j) (get_mon s' j)) /\
  (forall j, length (mons s) <= j -> j < length (mons s') ->
             m_obs (get_mon s' j) = [] /\ (al = true -> m_alive (get_mon s' j) = true)) /\
  length (layers s') = length (layers s) /\
  (forall l, l_steps (get_layer s' l) = l_steps (get_layer s l)).
Definition quiet := quietP same_core true.
Definition quiet0 := quietP same_core0 false.

Lemma same_core0_refl m : same_core0 m m.
Proof. unfold same_core0; tauto. Qed.
Lemma same_core0_trans a b c : same_core0 a b -> same_core0 b c -> same_core0 a c.
Proof. unfold same_core0; intros (A1&A2&A3&A4&A5&A6) (B1&B2&B3&B4&B5&B6). repeat split; congruence. Qed.
Lemma same_core_refl m : same_core m m.
Proof. split; [apply same_core0_refl|reflexivity]. Qed.
Lemma same_core_trans a b c : same_core a b -> same_core b c -> same_core a c.
Proof. intros [A1 A2] [B1 B2]. split; [eapply same_core0_trans; eauto|congruence]. Qed.

Lemma quiet_quiet0 s s' : quiet s s' -> quiet0 s s'.
Proof.
  intros (A1 & A2 & A3 & A4 & A5). split; [auto|]. split; [|split; [|split]]; auto.
  - intros j Hj. apply A2; auto.
  - intros j H1 H2. destruct (A3 j H1 H2) as [K _]. split; [exact K|discriminate].
Qed.

Lemma quiet_refl s : quiet s s.
Proof.
  unfold quiet, quietP. split; [lia|]. split; [intros; apply same_core_refl|]. split; [intros; lia|]. split; auto.
Qed.
Lemma quiet0_refl s : quiet0 s s.
Proof. apply quiet_quiet0, quiet_refl. Qed.

Lemma quiet_trans a b c : quiet a b -> quiet b c -> quiet a c.
Proof.
  intros (A1 & A2 & A3 & A4 & A5) (B1 & B2 & B3 & B4 & B5). split; [lia|]. split; [|split; [|split]].
  - intros j Hj. eapply same_core_trans; [apply A2; auto|apply B2; lia].
  - intros j H1 H2. destruct (Nat.lt_ge_cases j (length (mons b))) as [K|K].
    + destruct (B2 j K) as ((_ & _ & _ & _ & _ & E) & E2). rewrite E, E2. apply A3; auto.
    + apply B3; auto.
  - congruence.
  - intros l. rewrite B5. apply A5.
Qed.
Lemma quiet0_trans a b c : quiet0 a b -> quiet0 b c -> quiet0 a c.
Proof.
  intros (A1 & A2 & A3 & A4 & A5) (B1 & B2 & B3 & B4 & B5). split; [lia|]. split; [|split; [|split]].
  - intros j Hj. eapply same_core0_trans; [apply A2; auto|apply B2; lia].
  - intros j H1 H2. split; [|discriminate]. destruct (Nat.lt_ge_cases j (length (mons b))) as [K|K].
    + destruct (B2 j K) as (_ & _ & _ & _ & _ & E). rewrite E. apply A3; auto.
    + apply B3; auto.
  - congruence.
  - intros l. rewrite B5. apply A5.
Qed.

(* only trainers / cmon / accs changed *)
Lemma quiet_ext s s' : layers s' = layers s -> mons s' = mons s -> quiet s s'.
Proof.
  intros El Em. unfold quiet, quietP, get_mon, get_layer. rewrite El, Em.
  split; [lia|]. split; [intros; apply same_core_refl|]. split; [intros; lia|]. split; auto.
Qed.

Lemma quiet_upd_mon i f s : (forall m, same_core m (f m)) -> quiet s (upd_mon i f s).
Proof.
  intros Hf. unfold quiet, quietP. rewrite length_mons_upd_mon. split; [lia|]. split; [|split; [|split]]; auto; try lia.
  intros j Hj. destruct (Nat.eq_dec i j) as [->|N]; [rewrite get_mon_upd_same by auto; apply Hf|
                                                     rewrite get_mon_upd_other by auto; apply same_core_refl].
Qed.

Lemma quiet_upd_hooks lm f s : (forall l, l_steps (f l) = l_steps l) -> quiet s (upd_layer lm f s).
Proof.
  intros Hf. unfold quiet, quietP. split; [simpl; lia|]. split; [|split; [|split]].
  - intros j Hj. apply same_core_refl.
  - intros j H1 H2. simpl in H2. lia.
  - apply length_layers_upd_layer.
  - intros l. destruct (Nat.lt_ge_cases lm (length (layers s))) as [Hl|Hl]; [|rewrite upd_layer_oob by auto; auto].
    destruct (Nat.eq_dec lm l) as [<-|N]; [rewrite get_layer_upd_same by auto; auto|rewrite get_layer_upd_other by auto; auto].
Qed.

Lemma quiet_deregister i s : quiet s (deregister i s).
Proof.
  unfold deregister. destruct (m_reg (get_mon s i)); [|apply quiet_refl].
  eapply quiet_trans;
    [apply quiet_upd_hooks with (f := fun l => set_hooks (remove_nat i (l_hooks l)) l); reflexivity|].
  apply quiet_upd_mon. intros m; destruct m; unfold same_core, same_core0; simpl; tauto.
Qed.

Lemma quiet_do_register i s : quiet s (do_register i s).
Proof.
  unfold do_register.
  eapply quiet_trans;
    [apply quiet_upd_hooks with
       (f := fun l => set_hooks (if m_prepend (get_mon s i) then i :: l_hooks l else l_hooks l ++ [i]) l); reflexivity|].
  apply quiet_upd_mon. intros m; destruct m; unfold same_core, same_core0; simpl; tauto.
Qed.

Lemma quiet_reregister i s : quiet s (reregister i s).
Proof. unfold reregister. destruct (m_reg (get_mon s i)); [apply quiet_refl|apply quiet_do_register]. Qed.

Lemma quiet_set_fresh i b s : quiet s (upd_mon i (set_fresh b) s).
Proof. apply quiet_upd_mon. intros m; destruct m; unfold same_core, same_core0; simpl; tauto. Qed.

Lemma quiet0_set_dead i s : quiet0 s (upd_mon i set_dead s).
Proof.
  unfold quiet0, quietP. rewrite length_mons_upd_mon. split; [lia|]. split; [|split; [|split]]; auto; try lia.
  intros j Hj. destruct (Nat.eq_dec i j) as [->|N]; [rewrite get_mon_upd_same by auto|
                                                     rewrite get_mon_upd_other by auto; apply same_core0_refl].
  destruct (get_mon s j); unfold same_core0; simpl; tauto.
Qed.

Lemma quiet_new_monitor lay attr tg pre reads s s' i :
  new_monitor lay attr tg pre reads s = (s', i) -> quiet s s'.
Proof.
  intros E. destruct (new_monitor_spec _ _ _ _ _ _ _ _ E) as (Ei & L & _ & _ & _ & LL & Old & New & Ls & _).
  unfold quiet, quietP. split; [lia|]. split; [|split; [|split]]; auto.
  - intros j Hj. rewrite Old by auto. apply same_core_refl.
  - intros j H1 H2. assert (j = i) by lia. subst j. rewrite New. split; reflexivity.
  - intros l. apply Ls.
Qed.

(* ------------------------------------------------------------------ Inv1 = HW + PV through the pool operations *)
Definition Inv1 (s : state) : Prop := HW s /\ PV s.

Lemma Inv1_trainers_only s f t :
  (forall i, In i (pool_mids (f (get_trainer s t))) -> In i (pool_mids (get_trainer s t))) ->
  Inv1 s -> Inv1 (upd_trainer t f s).
Proof.
  intros Hf [H P]. split; [eapply HW_ext; eauto; reflexivity|].
  intros t' i Hi. change (length (mons (upd_trainer t f s))) with (length (mons s)).
  destruct (Nat.lt_ge_cases t (length (trainers s))) as [Ht|Ht].
  - destruct (Nat.eq_dec t t') as [<-|N].
    + rewrite get_trainer_upd_same in Hi by auto. apply (P t). auto.
    + rewrite get_trainer_upd_other in Hi by auto. apply (P t'); auto.
  - unfold upd_trainer in Hi. rewrite upd_oob in Hi by auto. apply (P t'). destruct s; auto.
Qed.

Lemma Inv1_cmon c s : Inv1 s -> Inv1 (set_cmon c s).
Proof. intros [H P]. split; [eapply HW_ext; eauto; reflexivity|exact P]. Qed.

Lemma Inv1_deregister i s : Inv1 s -> Inv1 (deregister i s).
Proof.
  intros [H P]. split; [apply HW_deregister; auto|].
  pose proof (quiet_deregister i s) as (L & _).
  intros t j Hj. assert (trainers (deregister i s) = trainers s) by (unfold deregister; destruct (m_reg (get_mon s i)); reflexivity).
  unfold get_trainer in Hj. rewrite H0 in Hj. apply P in Hj. lia.
Qed.

Lemma Inv1_reregister i s : i < length (mons s) -> Inv1 s -> Inv1 (reregister i s).
Proof.
  intros Hi [H P]. unfold reregister. destruct (m_reg (get_mon s i)) eqn:E; [split; auto|].
  split; [apply HW_do_register; auto|].
  intros t j Hj. change (get_trainer (do_register i s) t) with (get_trainer s t) in Hj.
  apply P in Hj. pose proof (quiet_do_register i s) as (L & _). lia.
Qed.

Lemma Inv1_set_fresh i b s : Inv1 s -> Inv1 (upd_mon i (set_fresh b) s).
Proof.
  intros [H P]. split; [apply HW_set_fresh; auto|].
  intros t j Hj. rewrite length_mons_upd_mon. apply (P t); auto.
Qed.

Lemma deregister_all_Inv1 l s : Inv1 s -> Inv1 (deregister_all l s).
Proof. revert s; induction l as [|i tl IH]; simpl; intros s H; auto. apply IH. apply Inv1_deregister; auto. Qed.

Lemma deregister_all_quiet l s : quiet s (deregister_all l s).
Proof.
  revert s; induction l as [|i tl IH]; simpl; intros s; [apply quiet_refl|].
  eapply quiet_trans; [apply quiet_deregister|apply IH].
Qed.

Lemma deregister_all_trainers l s : trainers (deregister_all l s) = trainers s /\ cmon (deregister_all l s) = cmon s
                                    /\ accs (deregister_all l s) = accs s.
Proof.
  revert s; induction l as [|i tl IH]; simpl; intros s; auto.
  destruct (IH (deregister i s)) as (A & B & C). rewrite A, B, C.
  unfold deregister; destruct (m_reg (get_mon s i)); auto.
Qed.

Lemma reregister_all_Inv1 l s : (forall i, In i l -> i < length (mons s)) -> Inv1 s -> Inv1 (reregister_all l s).
Proof.
  revert s; induction l as [|i tl IH]; simpl; intros s Hl H; auto. apply IH.
  - intros j Hj. pose proof (quiet_reregister i s) as (L & _). specialize (Hl j (or_intror Hj)). lia.
  - apply Inv1_reregister; auto.
Qed.

Lemma reregister_all_quiet l s : quiet s (reregister_all l s).
Proof.
  revert s; induction l as [|i tl IH]; simpl; intros s; [apply quiet_refl|].
  eapply quiet_trans; [apply quiet_reregister|apply IH].
Qed.

Lemma reregister_all_trainers l s : trainers (reregister_all l s) = trainers s /\ cmon (reregister_all l s) = cmon s
                                    /\ accs (reregister_all l s) = accs s.
Proof.
  revert s; induction l as [|i tl IH]; simpl; intros s; auto.
  destruct (IH (reregister i s)) as (A & B & C). rewrite A, B, C.
  unfold reregister; destruct (m_reg (get_mon s i)); auto.
Qed.

Lemma clear_all_Inv1 l s : Inv1 s -> Inv1 (clear_all l s).
Proof. revert s; induction l as [|i tl IH]; simpl; intros s H; auto. apply IH. apply Inv1_set_fresh; auto. Qed.

Lemma clear_all_quiet l s : quiet s (clear_all l s).
Proof.
  revert s; induction l as [|i tl IH]; simpl; intros s; [apply quiet_refl|].
  eapply quiet_trans; [apply quiet_set_fresh|apply IH].
Qed.

(* Observable.add_monitor *)
Lemma observable_add_monitor_Inv1 s self sp t s' i :
  Inv1 s ->
  observable_add_monitor s self sp (if sp_unique sp then None else Some (pool_view t)) = Some (s', i) ->
  (forall j, In j (pool_mids t) -> j < length (mons s)) ->
  Inv1 (set_trainers (trainers s) s') /\ i < length (mons s') /\ quiet s s' /\ trainers s' = trainers s /\ accs s' = accs s.
Proof.
  intros [H P] E Ht. unfold observable_add_monitor in E.
  destruct (realign_attribute self (sp_attr sp)) as [attr|]; [|discriminate].
  set (reads := match sp_reads sp with Some (ns, strict) => Some (self, ns, strict) | None => None end) in *.
  assert (NEW : forall tg, (let '(s1, i) := new_monitor (cell_layer self) attr tg (sp_prepend sp) reads s in
                            Some (cmon_bind self (sp_name sp) i s1, i)) = Some (s', i) ->
          Inv1 (set_trainers (trainers s) s') /\ i < length (mons s') /\ quiet s s' /\ trainers s' = trainers s /\ accs s' = accs s).
  { intros tg E1. destruct (new_monitor (cell_layer self) attr tg (sp_prepend sp) reads s) as [s1 k] eqn:En.
    inversion E1; subst; clear E1.
    destruct (new_monitor_spec _ _ _ _ _ _ _ _ En) as (Ei & L & Tr & Cm & Ac & LL & Old & New & Ls & HWn).
    split; [split|].
    - eapply HW_ext; [| |apply HWn; auto]; reflexivity.
    - intros t' j Hj. simpl. unfold get_trainer in Hj; simpl in Hj. apply (P t') in Hj. lia.
    - split; [simpl; lia|]. split; [|split; [simpl; auto|simpl; auto]].
      eapply quiet_trans; [eapply quiet_new_monitor; eauto|apply quiet_ext; reflexivity]. }
  destruct (sp_unique sp).
  - apply NEW in E. auto.
  - destruct (alias_search s self (sp_name sp) (sp_tags sp, attr) (pool_view t) None) as [k|] eqn:Ea.
    + inversion E; subst; clear E. apply alias_search_spec in Ea as [Ea|(obs & monitors & tg' & A & B & C & D)]; [discriminate|].
      apply pool_view_In in A as (cn & A1 & A2).
      assert (Hk : i < length (mons s)).
      { apply Ht. apply pool_mids_In. exists cn, monitors, (sp_name sp). split; apply alookup_In; auto. }
      split; [split|].
      * eapply HW_ext; [| |apply H]; reflexivity.
      * intros t' j Hj. apply (P t'). exact Hj.
      * split; [exact Hk|]. split; [apply quiet_ext; reflexivity|split; reflexivity].
    + apply NEW in E. auto.
Qed.

Lemma set_trainers_same s : set_trainers (trainers s) s = s.
Proof. destruct s; reflexivity. Qed.

Lemma quiet_upd_trainer t f s : quiet s (upd_trainer t f s).
Proof. apply quiet_ext; reflexivity. Qed.

(* MonitorPool.add_monitor *)
Lemma pool_add_monitor_Inv1 s ti cn sp s' r :
  pool_add_monitor s ti cn sp = (s', r) -> Inv1 s -> Inv1 s' /\ quiet s s'.
Proof.
  unfold pool_add_monitor. intros E I.
  destruct (alookup cn (t_observed (get_trainer s ti))) as [cell|]; [|inversion E; subst; split; auto; apply quiet_refl].
  set (existing := pool_get (get_trainer s ti) cn (sp_name sp)) in *.
  set (s0 := match existing with
             | Some _ => upd_trainer ti (pool_del_entry cn (sp_name sp)) s
             | None => s
             end) in *.
  assert (I0 : Inv1 s0).
  { unfold s0. destruct existing; auto. apply Inv1_trainers_only; auto. intros i. apply pool_del_entry_mids. }
  assert (Q0 : quiet s s0) by (unfold s0; destruct existing; [apply quiet_upd_trainer|apply quiet_refl]).
  assert (MAIN : (let t0 := get_trainer s0 ti in
                  match observable_add_monitor s0 cell sp (if sp_unique sp then None else Some (pool_view t0)) with
                  | None => (s0, Some ERuntime)
                  | Some (s1, i) =>
                      let s2 := if t_training t0 then s1 else deregister i s1 in
                      (upd_trainer ti (pool_put cn (sp_name sp) i) s2, None)
                  end) = (s', r) -> Inv1 s' /\ quiet s s').
  { clear E. intros E. cbv zeta in E.
    destruct (observable_add_monitor s0 cell sp (if sp_unique sp then None else Some (pool_view (get_trainer s0 ti))))
      as [[s1 i]|] eqn:Eo; [|inversion E; subst; auto].
    destruct (observable_add_monitor_Inv1 _ _ _ _ _ _ I0 Eo) as (I1 & Hi & Q1 & Tr & Ac).
    { intros j Hj. destruct I0 as [_ P0]. apply (P0 ti). exact Hj. }
    rewrite <- Tr in I1. rewrite set_trainers_same in I1.
    set (s2 := if t_training (get_trainer s0 ti) then s1 else deregister i s1) in *.
    assert (I2 : Inv1 s2) by (unfold s2; destruct (t_training (get_trainer s0 ti)); auto; apply Inv1_deregister; auto).
    assert (Q2 : quiet s1 s2) by (unfold s2; destruct (t_training (get_trainer s0 ti)); [apply quiet_refl|apply quiet_deregister]).
    assert (Hi2 : i < length (mons s2)) by (destruct Q2 as (L & _); lia).
    assert (Tr2 : trainers s2 = trainers s1).
    { unfold s2. destruct (t_training (get_trainer s0 ti)); auto. unfold deregister. destruct (m_reg (get_mon s1 i)); auto. }
    inversion E; subst; clear E. split.
    - destruct I2 as [H2 P2]. split; [eapply HW_ext; eauto; reflexivity|].
      intros t' j Hj. change (length (mons (upd_trainer ti (pool_put cn (sp_name sp) i) s2))) with (length (mons s2)).
      destruct (Nat.lt_ge_cases ti (length (trainers s2))) as [Ht|Ht].
      + destruct (Nat.eq_dec ti t') as [<-|N].
        * rewrite get_trainer_upd_same in Hj by auto. apply pool_put_mids in Hj as [->|Hj]; auto. apply (P2 ti); auto.
        * rewrite get_trainer_upd_other in Hj by auto. apply (P2 t'); auto.
      + unfold upd_trainer in Hj. rewrite upd_oob in Hj by auto. apply (P2 t'). destruct s2; auto.
    - eapply quiet_trans; [exact Q0|]. eapply quiet_trans; [exact Q1|]. eapply quiet_trans; [exact Q2|].
      apply quiet_upd_trainer. }
  destruct existing as [k|] eqn:Ex; destruct (sp_unique sp) eqn:Eu; auto.
  inversion E; subst; split; auto; apply quiet_refl.
Qed.

Lemma add_specs_Inv1 sps : forall s ti cn s' r,
  add_specs s ti cn sps = (s', r) -> Inv1 s -> Inv1 s' /\ quiet s s'.
Proof.
  induction sps as [|sp tl IH]; simpl; intros s ti cn s' r E I.
  - inversion E; subst. split; auto. apply quiet_refl.
  - destruct (pool_add_monitor s ti cn sp) as [s1 [e|]] eqn:Ep.
    + inversion E; subst. eapply pool_add_monitor_Inv1; eauto.
    + destruct (pool_add_monitor_Inv1 _ _ _ _ _ _ Ep I) as [I1 Q1].
      destruct (IH _ _ _ _ _ E I1) as [I2 Q2]. split; auto. eapply quiet_trans; eauto.
Qed.

(* MonitorPool.del_observed *)
Lemma pool_del_observed_Inv1 ti cn s : Inv1 s -> Inv1 (pool_del_observed ti cn s) /\ quiet s (pool_del_observed ti cn s).
Proof.
  intros I. unfold pool_del_observed.
  set (s1 := match alookup cn (t_pool (get_trainer s ti)) with
             | Some g => upd_trainer ti (fun t => set_pool (adel cn (t_pool t)) t) (deregister_all (map snd g) s)
             | None => s
             end).
  assert (I1 : Inv1 s1 /\ quiet s s1).
  { unfold s1. destruct (alookup cn (t_pool (get_trainer s ti))) as [g|]; [|split; auto; apply quiet_refl]. split.
    - apply Inv1_trainers_only; [|apply deregister_all_Inv1; auto].
      intros i. rewrite !pool_mids_In. intros (cn' & g' & mn & A & B). simpl in A. apply In_adel_weak in A. eauto.
    - eapply quiet_trans; [apply deregister_all_quiet|apply quiet_upd_trainer]. }
  destruct I1 as [I1 Q1]. split.
  - apply Inv1_trainers_only; auto.
  - eapply quiet_trans; [exact Q1|apply quiet_upd_trainer].
Qed.

(* MonitorPool.del_monitor *)
Lemma pool_del_monitor_Inv1 s ti cn mn s' r :
  pool_del_monitor s ti cn mn = (s', r) -> Inv1 s -> Inv1 s' /\ quiet s s'.
Proof.
  unfold pool_del_monitor. intros E I.
  destruct (alookup cn (t_pool (get_trainer s ti))) as [g|] eqn:Eg;
    [|inversion E; subst; split; auto; apply quiet_refl].
  destruct (alookup cn (t_observed (get_trainer s ti))); [|inversion E; subst; split; auto; apply quiet_refl].
  destruct (alookup mn g) as [i|] eqn:Ei; [|inversion E; subst; split; auto; apply quiet_refl].
  inversion E; subst; clear E. split.
  - apply Inv1_trainers_only; [|apply Inv1_deregister; auto].
    assert (Tr : get_trainer (deregister i s) ti = get_trainer s ti).
    { unfold deregister. destruct (m_reg (get_mon s i)); reflexivity. }
    rewrite Tr. intros j. rewrite !pool_mids_In. intros (cn' & g' & mn' & A & B). simpl in A.
    destruct (adel mn g) eqn:Ed.
    + apply In_adel_weak in A. eauto.
    + apply In_aset_weak in A as [A|A]; [|eauto]. inversion A; subst. rewrite <- Ed in B. apply In_adel_weak in B.
      exists cn, g, mn'. split; auto. apply alookup_In; auto.
  - eapply quiet_trans; [apply quiet_deregister|apply quiet_upd_trainer].
Qed.

(* register_cell / del_cell / add_monitor *)
Lemma register_cell_Inv1 w s ti cn c hp s' r :
  register_cell w s ti cn c hp = (s', r) -> Inv1 s -> Inv1 s' /\ quiet s s'.
Proof.
  unfold register_cell. intros E I.
  destruct (amem cn (t_cells (get_trainer s ti))); [inversion E; subst; split; auto; apply quiet_refl|].
  destruct (pool_del_observed_Inv1 ti cn s I) as [I1 Q1].
  set (s1 := pool_del_observed ti cn s) in *.
  set (s2 := upd_trainer ti (fun t => set_cells (aset cn c (t_cells t)) t) s1) in *.
  assert (I2 : Inv1 s2) by (apply Inv1_trainers_only; auto).
  assert (Q2 : quiet s s2) by (eapply quiet_trans; [exact Q1|apply quiet_upd_trainer]).
  destruct (amem cn (t_observed (get_trainer s2 ti))); [inversion E; subst; auto|].
  destruct (amem cn (t_pool (get_trainer s2 ti))); [inversion E; subst; auto|].
  set (s3 := upd_trainer ti (fun t => set_observed (aset cn c (t_observed t)) t) s2) in *.
  assert (I3 : Inv1 s3) by (apply Inv1_trainers_only; auto).
  destruct (conn_info w c) as [dt cdel].
  destruct (add_specs_Inv1 _ _ _ _ _ _ E I3) as [I4 Q4]. split; auto.
  eapply quiet_trans; [exact Q2|]. eapply quiet_trans; [apply quiet_upd_trainer|exact Q4].
Qed.

Lemma del_cell_Inv1 s ti cn s' r : del_cell s ti cn = (s', r) -> Inv1 s -> Inv1 s' /\ quiet s s'.
Proof.
  unfold del_cell. intros E I.
  destruct (negb (amem cn (t_cells (get_trainer s ti)))); [inversion E; subst; split; auto; apply quiet_refl|].
  inversion E; subst; clear E. destruct (pool_del_observed_Inv1 ti cn s I) as [I1 Q1]. split.
  - apply Inv1_trainers_only; auto.
  - eapply quiet_trans; [exact Q1|apply quiet_upd_trainer].
Qed.

Lemma add_monitor_Inv1 s ti cn sp s' r : add_monitor s ti cn sp = (s', r) -> Inv1 s -> Inv1 s' /\ quiet s s'.
Proof.
  unfold add_monitor. intros E I.
  destruct (negb (amem cn (t_cells (get_trainer s ti)))); [inversion E; subst; split; auto; apply quiet_refl|].
  eapply pool_add_monitor_Inv1; eauto.
Qed.

Lemma pool_monitors_In t i : In i (pool_monitors t) <-> In i (pool_mids t).
Proof. unfold pool_monitors. rewrite uniq_In. reflexivity. Qed.

Lemma trainer_mode_Inv1 s ti mode : Inv1 s -> Inv1 (trainer_mode s ti mode) /\ quiet s (trainer_mode s ti mode).
Proof.
  intros I. unfold trainer_mode.
  set (s1 := upd_trainer ti (set_training mode) s).
  assert (I1 : Inv1 s1) by (apply Inv1_trainers_only; auto).
  assert (Q1 : quiet s s1) by apply quiet_upd_trainer.
  destruct mode.
  - split; [|eapply quiet_trans; [exact Q1|apply reregister_all_quiet]].
    apply reregister_all_Inv1; auto. intros i Hi. apply pool_monitors_In in Hi. destruct I1 as [_ P1]. apply (P1 ti); auto.
  - split; [apply deregister_all_Inv1; auto|eapply quiet_trans; [exact Q1|apply deregister_all_quiet]].
Qed.

Lemma set_reg_same m : set_reg (m_reg m) m = m.
Proof. destruct m; reflexivity. Qed.

Lemma deregister_mon i s j :
  get_mon (deregister i s) j = if Nat.eqb i j then set_reg false (get_mon s j) else get_mon s j.
Proof.
  unfold deregister. destruct (m_reg (get_mon s i)) eqn:E.
  - destruct (Nat.lt_ge_cases i (length (mons s))) as [Hi|Hi].
    + destruct (Nat.eqb i j) eqn:E2.
      * apply Nat.eqb_eq in E2; subst j. rewrite get_mon_upd_same; auto.
      * apply Nat.eqb_neq in E2. rewrite get_mon_upd_other; auto.
    + unfold get_mon in E. rewrite nth_overflow in E by auto. discriminate.
  - destruct (Nat.eqb i j) eqn:E2; auto. apply Nat.eqb_eq in E2; subst j. rewrite <- E. symmetry. apply set_reg_same.
Qed.

Lemma deregister_others i s :
  trainers (deregister i s) = trainers s /\ cmon (deregister i s) = cmon s /\ accs (deregister i s) = accs s.
Proof. unfold deregister. destruct (m_reg (get_mon s i)); auto. Qed.

(* garbage collection *)
Lemma kill_Inv1 k s : Inv1 s -> Inv1 (upd_mon k set_dead (deregister k s)) /\ quiet0 s (upd_mon k set_dead (deregister k s)).
Proof.
  intros I. pose proof (Inv1_deregister k s I) as [H P]. split; [split|].
  - apply HW_upd_mon; [| |exact H].
    + cbv zeta. rewrite deregister_mon, Nat.eqb_refl. destruct (get_mon s k); simpl; auto.
    + intros o Ho. left. destruct (get_mon (deregister k s) k); auto.
  - intros t j Hj. rewrite length_mons_upd_mon. apply (P t). exact Hj.
  - eapply quiet0_trans; [apply quiet_quiet0, quiet_deregister|apply quiet0_set_dead].
Qed.

Lemma collect_from_Inv1 n : forall k s, Inv1 s -> Inv1 (collect_from k n s) /\ quiet0 s (collect_from k n s).
Proof.
  induction n as [|n IH]; simpl; intros k s I; [split; auto; apply quiet0_refl|].
  set (s1 := if m_alive (get_mon s k) && negb (referenced s k) then upd_mon k set_dead (deregister k s) else s).
  assert (I1 : Inv1 s1 /\ quiet0 s s1).
  { unfold s1. destruct (m_alive (get_mon s k) && negb (referenced s k)); [apply kill_Inv1; auto|split; auto; apply quiet0_refl]. }
  destruct I1 as [I1 Q1]. destruct (IH (S k) s1 I1) as [I2 Q2]. split; auto. eapply quiet0_trans; eauto.
Qed.

Lemma collect_Inv1 s : Inv1 s -> Inv1 (collect s) /\ quiet0 s (collect s).
Proof.
  intros I. unfold collect, prune_cmon. destruct (collect_from_Inv1 (length (mons s)) 0 s I) as [I1 Q1]. split.
  - apply Inv1_cmon; auto.
  - eapply quiet0_trans; [exact Q1|apply quiet_quiet0, quiet_ext; reflexivity].
Qed.

(* ------------------------------------------------------------------ Part 2: one layer call *)
Lemma monitor_call_spec s i stamp s' r :
  monitor_call s i stamp = (s', r) ->
  (r = None /\ exists rd, s' = upd_mon i (add_obs (stamp, rd)) s) \/ (r <> None /\ s' = s).
Proof.
  unfold monitor_call. destruct (m_reads (get_mon s i)) as [[[cell names] strict]|].
  - destruct (do_reads s (cmon_get cell (cmon s)) names) as [[rd anyfresh]|].
    + destruct (strict && anyfresh); intros E; inversion E; subst; [right; split; [discriminate|auto]|left; eauto].
    + intros E; inversion E; subst. right; split; [discriminate|auto].
  - intros E; inversion E; subst. left; eauto.
Qed.

Lemma add_obs_core o m : m_layer (add_obs o m) = m_layer m /\ m_prepend (add_obs o m) = m_prepend m /\
                         m_reg (add_obs o m) = m_reg m /\ m_alive (add_obs o m) = m_alive m /\
                         m_obs (add_obs o m) = o :: m_obs m /\ m_fresh (add_obs o m) = false /\
                         m_tags (add_obs o m) = m_tags m /\ m_reads (add_obs o m) = m_reads m /\ m_attr (add_obs o m) = m_attr m.
Proof. destruct m; simpl; repeat split. Qed.

Lemma run_hooks_spec hooks : forall s tr stamp s' r,
  NoDup hooks -> run_hooks s tr stamp hooks = (s', r) ->
  layers s' = layers s /\ trainers s' = trainers s /\ cmon s' = cmon s /\ accs s' = accs s /\
  length (mons s') = length (mons s) /\
  (forall j, get_mon s' j = get_mon s j \/
             (In j hooks /\ tr = true /\ j < length (mons s) /\ exists rd, get_mon s' j = add_obs (stamp, rd) (get_mon s j))) /\
  (r = None -> tr = true -> forall j, In j hooks -> j < length (mons s) ->
                            exists rd, get_mon s' j = add_obs (stamp, rd) (get_mon s j)).
Proof.
  induction hooks as [|i tl IH]; simpl; intros s tr stamp s' r ND E.
  - inversion E; subst. repeat split; auto. intros _ _ j [].
  - inversion ND as [|? ? Ni ND']; subst.
    destruct tr.
    + destruct (monitor_call s i stamp) as [s1 [e|]] eqn:Em.
      * inversion E; subst. apply monitor_call_spec in Em as [[K _]|[_ ->]]; [discriminate|].
        repeat split; auto. intros K; discriminate.
      * apply monitor_call_spec in Em as [[_ [rd ->]]|[K _]]; [|congruence].
        destruct (IH _ _ _ _ _ ND' E) as (A & B & C & D & L & F & G).
        split; [exact A|]. split; [exact B|]. split; [exact C|]. split; [exact D|].
        split; [rewrite L; apply length_mons_upd_mon|].
        split.
        -- intros j. destruct (F j) as [Fj|(Fi & _ & Fl & rd' & Fj)].
           ++ destruct (Nat.eq_dec i j) as [<-|N]; [|left; rewrite Fj; apply get_mon_upd_other; auto].
              destruct (Nat.lt_ge_cases i (length (mons s))) as [Hi|Hi].
              ** right. split; auto. split; auto. split; auto. exists rd. rewrite Fj. apply get_mon_upd_same; auto.
              ** left. rewrite Fj. rewrite get_mon_upd_oob by auto. reflexivity.
           ++ right. split; auto. split; auto. rewrite length_mons_upd_mon in Fl. split; auto. exists rd'.
              rewrite Fj. rewrite get_mon_upd_other; auto. intros ->. tauto.
        -- intros Er _ j [<-|Hj] Hl.
           ++ destruct (F i) as [Fj|(Fi & _)]; [|tauto]. exists rd. rewrite Fj. apply get_mon_upd_same; auto.
           ++ destruct (G Er eq_refl j Hj) as [rd' Gj]; [rewrite length_mons_upd_mon; auto|].
              exists rd'. rewrite Gj. rewrite get_mon_upd_other; auto. intros ->. tauto.
    + destruct (IH _ _ _ _ _ ND' E) as (A & B & C & D & L & F & G).
      repeat split; auto.
      * intros j. destruct (F j) as [Fj|(_ & K & _)]; [auto|discriminate].
      * intros _ K; discriminate.
Qed.

(* HW through the hooks: every stamp written is the layer's new step count *)
Lemma run_hooks_HW hooks : forall s tr stamp s' r,
  run_hooks s tr stamp hooks = (s', r) ->
  (forall i, In i hooks -> i < length (mons s) -> stamp <= l_steps (get_layer s (m_layer (get_mon s i)))) ->
  HW s -> HW s'.
Proof.
  induction hooks as [|i tl IH]; simpl; intros s tr stamp s' r E Hs H.
  - inversion E; subst; auto.
  - destruct tr.
    + destruct (monitor_call s i stamp) as [s1 [e|]] eqn:Em.
      * inversion E; subst. apply monitor_call_spec in Em as [[K _]|[_ ->]]; [discriminate|auto].
      * apply monitor_call_spec in Em as [[_ [rd ->]]|[K _]]; [|congruence].
        eapply IH; [exact E| |].
        -- intros j Hj Hl. rewrite length_mons_upd_mon in Hl.
           change (get_layer (upd_mon i (add_obs (stamp, rd)) s)) with (get_layer s).
           destruct (Nat.eq_dec i j) as [<-|N].
           ++ rewrite get_mon_upd_same by auto. destruct (add_obs_core (stamp, rd) (get_mon s i)) as (A & _). rewrite A. auto.
           ++ rewrite get_mon_upd_other by auto. auto.
        -- destruct (Nat.lt_ge_cases i (length (mons s))) as [Hi|Hi]; [|rewrite get_mon_upd_oob by auto; exact H].
           apply HW_upd_mon; [| |exact H].
           ++ cbv zeta. destruct (add_obs_core (stamp, rd) (get_mon s i)) as (A & B & C & _). auto.
           ++ intros o Ho. destruct (add_obs_core (stamp, rd) (get_mon s i)) as (_ & _ & _ & _ & A & _). rewrite A in Ho.
              destruct Ho as [<-|Ho]; [right; simpl; apply Hs; auto|left; exact Ho].
    + eapply IH; eauto.
Qed.

Lemma layer_step_Inv1 s l s' r : layer_step s l = (s', r) -> Inv1 s -> Inv1 s'.
Proof.
  unfold layer_step. intros E [H P].
  set (stamp := S (l_steps (get_layer s l))) in *.
  set (s1 := upd_layer l (fun L => mkLayer (l_training L) (l_hooks L) stamp) s) in *.
  destruct (Nat.lt_ge_cases l (length (layers s))) as [Hl|Hl].
  2:{ unfold s1 in E. rewrite upd_layer_oob in E by auto. unfold get_layer in E. rewrite nth_overflow in E by auto.
      simpl in E. inversion E; subst. split; auto. }
  assert (G1 : forall k, get_layer s1 k = if Nat.eqb l k then mkLayer (l_training (get_layer s l)) (l_hooks (get_layer s l)) stamp
                                          else get_layer s k).
  { intros k. unfold s1. destruct (Nat.eqb l k) eqn:E2.
    - apply Nat.eqb_eq in E2; subst k. rewrite get_layer_upd_same; auto.
    - apply Nat.eqb_neq in E2. rewrite get_layer_upd_other; auto. }
  assert (H1 : HW s1).
  { destruct H as (A & B & C). split; [|split].
    - intros k Hk. unfold s1 in Hk. rewrite length_layers_upd_layer in Hk. rewrite G1.
      change (mons s1) with (mons s). change (get_mon s1) with (get_mon s).
      destruct (Nat.eqb l k) eqn:E2; [apply Nat.eqb_eq in E2; subst k; simpl|]; apply A; auto.
    - intros k Hk. unfold s1 in Hk. rewrite length_layers_upd_layer in Hk. rewrite G1.
      change (get_mon s1) with (get_mon s).
      destruct (Nat.eqb l k) eqn:E2; [apply Nat.eqb_eq in E2; subst k; simpl|]; apply B; auto.
    - intros i Hi o Ho. change (mons s1) with (mons s) in Hi. change (get_mon s1) with (get_mon s) in *.
      rewrite G1. specialize (C i Hi o Ho). destruct (Nat.eqb l (m_layer (get_mon s i))) eqn:E2; auto.
      apply Nat.eqb_eq in E2. rewrite <- E2 in C. simpl. unfold stamp. lia. }
  split.
  - eapply run_hooks_HW; [exact E| |exact H1].
    intros i Hi Hlen. change (get_mon s1) with (get_mon s). destruct H as (A & _).
    apply (A l Hl) in Hi as (_ & _ & <-). rewrite G1, Nat.eqb_refl. simpl. lia.
  - destruct H as (A & _). destruct (A l Hl) as [ND _].
    destruct (run_hooks_spec _ _ _ _ _ _ ND E) as (_ & Tr & _ & _ & L & _).
    intros t i Hi. unfold get_trainer in Hi. rewrite Tr in Hi. rewrite L. apply (P t). exact Hi.
Qed.

Lemma trainer_cells_step_frame w t cells : forall s s' r,
  trainer_cells_step w s t cells = (s', r) ->
  layers s' = layers s /\ trainers s' = trainers s /\ mons s' = mons s /\ cmon s' = cmon s.
Proof.
  induction cells as [|[cn c] tl IH]; simpl; intros s s' r E.
  - inversion E; subst; auto.
  - destruct (negb (l_training (get_layer s (cell_layer c))) || negb (t_training t)); [eapply IH; eauto|].
    destruct (needs_ok s _ _); [inversion E; subst; auto|].
    destruct (needs_delay (t_type t) && negb (snd (conn_info w c))); [inversion E; subst; auto|].
    apply IH in E. simpl in E. exact E.
Qed.

Lemma quiet_same s s' : layers s' = layers s -> mons s' = mons s -> quiet s s'.
Proof. apply quiet_ext. Qed.

(* ------------------------------------------------------------------ every operation preserves Inv1 *)
Lemma step_raw_Inv1 w s o s' r : step_raw w s o = (s', r) -> Inv1 s -> Inv1 s'.
Proof.
  destruct o; simpl; intros E I.
  - eapply register_cell_Inv1; eauto.
  - eapply del_cell_Inv1; eauto.
  - eapply add_monitor_Inv1; eauto.
  - eapply pool_del_monitor_Inv1; eauto.
  - inversion E; subst. apply trainer_mode_Inv1; auto.
  - inversion E; subst. destruct I as [(A & B & C) P]. split; [|exact P].
    assert (G : forall k, l_hooks (get_layer (upd_layer l (fun L => mkLayer mode (l_hooks L) (l_steps L)) s) k) = l_hooks (get_layer s k)
                          /\ l_steps (get_layer (upd_layer l (fun L => mkLayer mode (l_hooks L) (l_steps L)) s) k) = l_steps (get_layer s k)).
    { intros k. destruct (Nat.lt_ge_cases l (length (layers s))) as [Hl|Hl]; [|rewrite upd_layer_oob by auto; auto].
      destruct (Nat.eq_dec l k) as [<-|N]; [rewrite get_layer_upd_same by auto; auto|rewrite get_layer_upd_other by auto; auto]. }
    split; [|split].
    + intros k Hk. rewrite length_layers_upd_layer in Hk. destruct (G k) as [G1 _]. rewrite G1. apply A; auto.
    + intros k Hk. rewrite length_layers_upd_layer in Hk. destruct (G k) as [G1 _]. rewrite G1. apply B; auto.
    + intros i Hi o Ho. destruct (G (m_layer (get_mon s i))) as [_ G2].
      change (get_mon (upd_layer l (fun L => mkLayer mode (l_hooks L) (l_steps L)) s)) with (get_mon s) in *.
      rewrite G2. apply C; auto.
  - eapply layer_step_Inv1; eauto.
  - unfold trainer_step in E. apply trainer_cells_step_frame in E as (A & B & C & D).
    destruct I as [H P]. split; [eapply HW_ext; eauto|].
    intros t' i Hi. unfold get_trainer in Hi. rewrite B in Hi. rewrite C. apply (P t'); auto.
  - inversion E; subst. apply clear_all_Inv1; auto.
  - inversion E; subst. apply Inv1_trainers_only; auto. intros i. unfold kill_trainer, pool_mids; simpl. tauto.
Qed.

Theorem step_Inv1 w s o : Inv1 s -> Inv1 (fst (step w s o)).
Proof.
  intros I. unfold step. destruct (op_enabled s o); [|exact I].
  destruct (step_raw w s o) as [s1 r] eqn:E. simpl. apply collect_Inv1. eapply step_raw_Inv1; eauto.
Qed.

Theorem run_Inv1 w ops : forall s, Inv1 s -> Inv1 (run w s ops).
Proof. induction ops as [|o tl IH]; simpl; intros s I; auto. apply IH. apply step_Inv1; auto. Qed.

Lemma init_pool_empty tys n : t_pool (nth n (map (fun ty => mkTrainer ty true true [] [] []) tys) dummy_trainer) = [].
Proof. revert n. induction tys as [|ty tl IH]; intros [|n]; simpl; auto. Qed.

Lemma Inv1_init w tys : Inv1 (init_state w tys).
Proof.
  split; [apply HW_init|]. intros t i Hi. exfalso.
  unfold get_trainer, init_state, pool_mids in Hi; simpl in Hi. rewrite init_pool_empty in Hi. destruct Hi.
Qed.

(* the hook lists are well formed after ANY operation sequence, from the initial state *)
Theorem hooks_wf_always w tys ops : HW (run w (init_state w tys) ops).
Proof. apply run_Inv1. apply Inv1_init. Qed.

(* ------------------------------------------------------------------ the effect of one layer call *)
Definition records (s : state) (l i : nat) : bool :=
  m_reg (get_mon s i) && Nat.eqb (m_layer (get_mon s i)) l && l_training (get_layer s l).

Lemma layer_step_frame s l s' r :
  HW s -> l < length (layers s) -> layer_step s l = (s', r) ->
  trainers s' = trainers s /\ cmon s' = cmon s /\ accs s' = accs s /\ length (mons s') = length (mons s) /\
  length (layers s') = length (layers s) /\
  (forall k, l_training (get_layer s' k) = l_training (get_layer s k) /\ l_hooks (get_layer s' k) = l_hooks (get_layer s k) /\
             l_steps (get_layer s' k) = if Nat.eqb l k then S (l_steps (get_layer s l)) else l_steps (get_layer s k)).
Proof.
  unfold layer_step. intros (A & _) Hl E. destruct (A l Hl) as [ND _].
  destruct (run_hooks_spec _ _ _ _ _ _ ND E) as (La & Tr & Cm & Ac & L & _).
  repeat split; auto.
  - rewrite La. apply length_layers_upd_layer.
  - unfold get_layer at 1. rewrite La. fold (get_layer (upd_layer l (fun L0 => mkLayer (l_training L0) (l_hooks L0) (S (l_steps (get_layer s l)))) s) k).
    destruct (Nat.eq_dec l k) as [<-|N]; [rewrite get_layer_upd_same by auto; auto|rewrite get_layer_upd_other by auto; auto].
  - unfold get_layer at 1. rewrite La. fold (get_layer (upd_layer l (fun L0 => mkLayer (l_training L0) (l_hooks L0) (S (l_steps (get_layer s l)))) s) k).
    destruct (Nat.eq_dec l k) as [<-|N]; [rewrite get_layer_upd_same by auto; auto|rewrite get_layer_upd_other by auto; auto].
  - unfold get_layer at 1. rewrite La. fold (get_layer (upd_layer l (fun L0 => mkLayer (l_training L0) (l_hooks L0) (S (l_steps (get_layer s l)))) s) k).
    destruct (Nat.eqb l k) eqn:E2.
    + apply Nat.eqb_eq in E2; subst k. rewrite get_layer_upd_same by auto. reflexivity.
    + apply Nat.eqb_neq in E2. rewrite get_layer_upd_other by auto. reflexivity.
Qed.

(* Whatever happens (also when a hook raises): a monitor is either untouched or - only if it is registered on
   this layer and the layer trains - has received exactly ONE new observation, stamped with the new step. *)
Theorem layer_step_at_most_once s l s' r :
  HW s -> l < length (layers s) -> layer_step s l = (s', r) ->
  forall i, get_mon s' i = get_mon s i \/
            (records s l i = true /\ exists rd, get_mon s' i = add_obs (S (l_steps (get_layer s l)), rd) (get_mon s i)).
Proof.
  intros H Hl E i. pose proof H as (A & _). destruct (A l Hl) as [ND IFF]. unfold layer_step in E.
  destruct (run_hooks_spec _ _ _ _ _ _ ND E) as (_ & _ & _ & _ & _ & F & _).
  destruct (F i) as [Fi|(Hin & Ht & _ & rd & Fi)]; [left; exact Fi|right].
  split; [|exists rd; exact Fi].
  apply IFF in Hin as (_ & B & C). unfold records. rewrite B, C, Nat.eqb_refl, Ht. reflexivity.
Qed.

(* When no hook raises: exactly the registered monitors of a training layer record, once each. *)
Theorem layer_step_exactly_once s l s' :
  HW s -> l < length (layers s) -> layer_step s l = (s', None) ->
  forall i, i < length (mons s) ->
    if records s l i then exists rd, get_mon s' i = add_obs (S (l_steps (get_layer s l)), rd) (get_mon s i)
    else get_mon s' i = get_mon s i.
Proof.
  intros H Hl E i Hi. pose proof H as (A & _). destruct (A l Hl) as [ND IFF].
  pose proof (layer_step_at_most_once _ _ _ _ H Hl E i) as AM. unfold layer_step in E.
  destruct (run_hooks_spec _ _ _ _ _ _ ND E) as (_ & _ & _ & _ & _ & _ & G).
  destruct (records s l i) eqn:R.
  - unfold records in R. apply andb_true_iff in R as [R R3]. apply andb_true_iff in R as [R1 R2].
    apply Nat.eqb_eq in R2. apply (G eq_refl R3 i); auto. apply IFF. auto.
  - destruct AM as [AM|[AM _]]; [exact AM|congruence].
Qed.

(* ------------------------------------------------------------------ hook order: a monitor registered with
   prepend=False that reads other monitors by name reads SAME-STEP data of every registered prepend=True monitor
   of its layer (this is what MSTDPET's eligibility monitors rely on, at first registration and after every
   eval()/train() re-registration) *)
Lemma run_hooks_app a : forall b s tr stamp,
  run_hooks s tr stamp (a ++ b) =
  match run_hooks s tr stamp a with
  | (s1, None) => run_hooks s1 tr stamp b
  | (s1, Some e) => (s1, Some e)
  end.
Proof.
  induction a as [|i tl IH]; simpl; intros b s tr stamp; auto.
  destruct tr; [|apply IH]. destruct (monitor_call s i stamp) as [s1 [e|]]; auto.
Qed.

Lemma do_reads_spec s d names : forall rd af,
  do_reads s d names = Some (rd, af) ->
  Forall2 (fun n r => alookup n d = Some (fst r) /\ snd r = last_stamp (get_mon s (fst r))) names rd.
Proof.
  induction names as [|n tl IH]; simpl; intros rd af E.
  - inversion E; subst. constructor.
  - destruct (alookup n d) as [i|] eqn:En; [|discriminate].
    destruct (do_reads s d tl) as [[r a]|]; [|discriminate]. inversion E; subst. constructor; auto.
    eapply IH; reflexivity.
Qed.

Theorem reads_current s l s' i cell names strict :
  HW s -> l < length (layers s) -> layer_step s l = (s', None) -> l_training (get_layer s l) = true ->
  i < length (mons s) -> m_reg (get_mon s i) = true -> m_layer (get_mon s i) = l ->
  m_prepend (get_mon s i) = false -> m_reads (get_mon s i) = Some (cell, names, strict) ->
  exists rd, get_mon s' i = add_obs (S (l_steps (get_layer s l)), rd) (get_mon s i) /\
    Forall2 (fun n r =>
               alookup n (cmon_get cell (cmon s)) = Some (fst r) /\
               (fst r < length (mons s) -> m_reg (get_mon s (fst r)) = true -> m_layer (get_mon s (fst r)) = l ->
                m_prepend (get_mon s (fst r)) = true -> snd r = Some (S (l_steps (get_layer s l))))) names rd.
Proof.
  intros H Hl E Ht Hi Hr Hlay Hp Hrd. pose proof H as (A & B & _). destruct (A l Hl) as [ND IFF].
  assert (Hin : In i (l_hooks (get_layer s l))) by (apply IFF; auto).
  apply in_split in Hin as (pre & post & Eh).
  unfold layer_step in E. set (stamp := S (l_steps (get_layer s l))) in *.
  set (s0 := upd_layer l (fun L => mkLayer (l_training L) (l_hooks L) stamp) s) in *.
  rewrite Eh, Ht in E. rewrite run_hooks_app in E.
  rewrite Eh in ND. pose proof (NoDup_remove_2 _ _ _ ND) as Ni. pose proof (NoDup_remove_1 _ _ _ ND) as ND2.
  assert (NDpre : NoDup pre) by (eapply NoDup_app_l; eauto).
  assert (NDpost : NoDup post) by (eapply NoDup_app_r; eauto).
  destruct (run_hooks s0 true stamp pre) as [s1 [e|]] eqn:E1; [inversion E|].
  destruct (run_hooks_spec _ _ _ _ _ _ NDpre E1) as (_ & _ & Cm1 & _ & L1 & F1 & G1).
  simpl in E. destruct (monitor_call s1 i stamp) as [s2 [e|]] eqn:Em; [inversion E|].
  assert (Gi : get_mon s1 i = get_mon s i).
  { destruct (F1 i) as [K|(K & _)]; [exact K|]. exfalso. apply Ni. apply in_or_app. auto. }
  unfold monitor_call in Em. rewrite Gi, Hrd in Em.
  destruct (do_reads s1 (cmon_get cell (cmon s1)) names) as [[rd af]|] eqn:Ed; [|inversion Em].
  destruct (strict && af); inversion Em; subst s2; clear Em.
  destruct (run_hooks_spec _ _ _ _ _ _ NDpost E) as (_ & _ & _ & _ & _ & F2 & _).
  exists rd. split.
  - destruct (F2 i) as [K|(K & _)]; [|exfalso; apply Ni; apply in_or_app; auto].
    rewrite K. rewrite get_mon_upd_same by (rewrite L1; exact Hi). rewrite Gi. reflexivity.
  - apply do_reads_spec in Ed. rewrite Cm1 in Ed. change (cmon s0) with (cmon s) in Ed.
    eapply Forall2_mono; [|exact Ed]. intros n r [R1 R2]. split; auto.
    intros Hj Hjr Hjl Hjp. rewrite R2.
    assert (Hjin : In (fst r) (l_hooks (get_layer s l))) by (apply IFF; auto).
    rewrite Eh in Hjin. apply in_app_or in Hjin as [Hjin|[Hjin|Hjin]].
    + destruct (G1 eq_refl eq_refl (fst r) Hjin) as [rd' K]; [exact Hj|]. rewrite K.
      unfold last_stamp. destruct (add_obs_core (stamp, rd') (get_mon s0 (fst r))) as (_ & _ & _ & _ & O & _). rewrite O. reflexivity.
    + subst i. congruence.
    + exfalso. specialize (B l Hl). rewrite Eh in B.
      pose proof (pp_sorted_split _ _ _ _ B Hp (fst r) Hjin) as K. simpl in K. congruence.
Qed.
