(* C15 - witnesses: the two lifecycle defects that are NOT repaired in the code, exhibited on the faithful model
   (proved by computation; the same operation sequences are replayed on the real implementation by the harness,
   tools/props/c15.py: witness_cases). *)
From Coq Require Import List ZArith Bool Arith Lia.
From Inferno Require Import C15.Lifecycle C15.LifecycleProofs C15.LifecycleTI.
Import ListNotations.

(* one Biclique layer: two connections onto one neuron group; the cells (0,0,0) and (0,1,0) share the neurons *)
Definition w1 : world := [([(1%Z, false); (1%Z, false)], 1)].
Definition cA : cellid := (0, 0, 0).
Definition cB : cellid := (0, 1, 0).

(* DESIGN section 8 row 13.  One STDP trainer, two cells sharing the postsynaptic population: "a" and "b" share
   the pooled monitors trace_post / spike_post (ids 0 and 1).  After del_cell("a") the trainer is still training,
   the layer is training, "b" still lists monitor 0 as its trace_post - but the monitor is no longer hooked, and
   the next layer call records nothing into it (while b's private monitors do record). *)
Definition ops13 : list op := [RegisterCell 0 0 cA 0%Z; RegisterCell 0 1 cB 0%Z; LayerStep 0; DelCell 0 0].

Theorem one_obs_del_cell_shared_refuted :
  exists w tys ops t cn mn i,
    let s := run w (init_state w tys) ops in
    let s' := fst (step w s (LayerStep 0)) in
    t_alive (get_trainer s t) = true /\ t_training (get_trainer s t) = true /\
    l_training (get_layer s 0) = true /\ m_layer (get_mon s i) = 0 /\
    In (cn, mn, i) (pool_named (get_trainer s t)) /\
    (* the still-registered cell's monitor is deregistered and misses the step ... *)
    m_reg (get_mon s i) = false /\ snd (step w s (LayerStep 0)) = None /\ m_obs (get_mon s' i) = m_obs (get_mon s i) /\
    (* ... which another monitor of the same cell does record *)
    exists mn2 i2, In (cn, mn2, i2) (pool_named (get_trainer s t)) /\
                   m_obs (get_mon s' i2) = (S (l_steps (get_layer s 0)), []) :: m_obs (get_mon s i2).
Proof.
  exists w1, [TSTDP false], ops13, 0, 1, n_trace_post, 0. vm_compute.
  repeat split; auto. exists n_trace_pre, 4. vm_compute. split; auto.
Qed.

(* DESIGN section 8 row 15.  MSTDPET (trainer 0) and a plain STDP trainer (trainer 1) on the SAME cell.  The second
   registration rebinds cell.monitors.trace_pre / spike_post / trace_post / spike_pre to trainer 1's monitors, so
   trainer 0's eligibility monitors (ids 4, 5), which read them by name, fold trainer 1's traces. *)
Definition ops15 : list op := [RegisterCell 0 0 cA 0%Z; RegisterCell 1 0 cA 0%Z; LayerStep 0].

Theorem elig_reads_own_traces_refuted :
  exists w tys ops i stamp rd r,
    let s := run w (init_state w tys) ops in
    In i (pool_mids (get_trainer s 0)) /\ m_obs (get_mon s i) = [(stamp, rd)] /\ In r rd /\
    In (fst r) (pool_mids (get_trainer s 1)) /\ ~ In (fst r) (pool_mids (get_trainer s 0)).
Proof.
  exists w1, [TMSTDPET; TSTDP false], ops15, 4, 1, [(8, Some 1); (7, Some 1)], (8, Some 1). vm_compute.
  split; [tauto|]. split; [reflexivity|]. split; [tauto|]. split; [tauto|].
  intros H. repeat (destruct H as [H|H]; [discriminate H|]). exact H.
Qed.

(* and its consequences: with trainer 1 in eval mode its monitors never record, the eligibility reducer is handed
   None and the LAYER CALL RAISES; after dropping trainer 1 the names vanish from cell.monitors and the layer call
   raises AttributeError. *)
Theorem second_trainer_breaks_layer_call_refuted :
  exists w tys,
    snd (step w (run w (init_state w tys) [RegisterCell 0 0 cA 0%Z; TrainerMode 1 false; RegisterCell 1 0 cA 0%Z])
              (LayerStep 0)) = Some ERuntime /\
    snd (step w (run w (init_state w tys) [RegisterCell 0 0 cA 0%Z; RegisterCell 1 0 cA 0%Z; DropTrainer 1])
              (LayerStep 0)) = Some EAttribute.
Proof. exists w1, [TMSTDPET; TSTDP false]. vm_compute. split; reflexivity. Qed.
