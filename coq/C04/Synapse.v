(* Model of the four shipped synapses (inferno/neural/synapses/{mixins,current,expcurrent}.py on top of
   inferno/neural/base.py InfernoSynapse and inferno/neural/mixins.py DelayedMixin), mirroring the code
   branch by branch.  Definitions only (no proofs): this file must keep running for the
   correspondence check when a proof elsewhere is broken.  Written once, polymorphic in NM : Num.

   The spike / current histories are RecordTensors: the C01 ring model (Inferno.C01.Ring) is reused
   unchanged (push = write at offset 0 + incr, peek = read 1, reset).  A tensor of shape
   (batch, *shape) is a flat row-major list; every tensor function used by the synapses is
   element-wise, except expand / the broadcasting torch.where of the undelayed path, which are
   modelled with torch's right-aligned broadcasting rule.

   Booleans stored in a bool tensor are the numbers 0 / 1 (b2t); `.bool()` is (x != 0);
   `.to(dtype=float)` of a bool tensor is the identity on that encoding.

   RecordTensor.select with a tensor time (infrastructure.py:2075-2136) is hand-transcribed below
   (sel_elem); property C02 owns the full model of select/insert, this file only needs the tensor
   path with offset = 1 and must not depend on C02.  The interpolation kernels are the GENERATED ones
   (Gen/Interpolation.v), the record size is the GENERATED recordsz_expr, pointer arithmetic the
   GENERATED _unwind_ptr (through C01's idx). *)
From Coq Require Import List ZArith Bool Arith.
From Inferno Require Import Base.Num Gen.Infra Gen.Interpolation C01.Ring.
Import ListNotations.

Section Synapse.
Variable NM : Num.
Notation A := (T NM).

(* a single storage data type per record: casts are the identity *)
Definition castU (_ : unit) (x : A) : A := x.
Definition promU (_ _ : unit) : unit := tt.
Definition eqbU (_ _ : unit) : bool := true.

Notation ring := (@ring A unit).

Inductive kind := KDelta | KDeltaPlus | KSingleExp | KDoubleExp.
Inductive imode := IPrevious | INearest.

(* constructor arguments.  ctau is time_constant (single exponential) / tc_decay (double exponential),
   ctr is tc_rise; cshape is the batched shape (batch_size, *shape). *)
Record cfg := mkCfg {
  ckind : kind; cshape : list nat;
  cdt : A; cdelay : A; cQ : A; ctau : A; ctr : A;
  cmode : imode; ctol : A;
  ccur_ob : option A;          (* current_overbound *)
  cspk_ob : option bool;       (* spike_overbound *)
  cinplace : bool }.

(* spike_ ; current_ (pos_current_ for the double exponential) ; neg_current_ (double exponential only).
   Records a class does not have are carried along untouched. *)
Record syn := mkSyn { spk : ring; cur : ring; neg : ring }.

Inductive sout :=
| SOUnit
| SOFloat (shape : list nat) (vals : list A)
| SOBool (shape : list nat) (vals : list A).      (* values are 0 / 1 *)

Inductive sres (X : Type) := SOk (x : X) | SErr (e : err).
Arguments SOk {X} x.
Arguments SErr {X} e.

(* ---------- helpers ---------- *)
Definition zipw {X Y Z} (f : X -> Y -> Z) (l1 : list X) (l2 : list Y) : list Z :=
  map (fun p => f (fst p) (snd p)) (combine l1 l2).
Definition to_bool (x : A) : bool := neb NM x (zero NM).          (* tensor.bool() *)
Definition boolify (x : A) : A := b2t NM (to_bool x).

(* DelayedMixin / RecordTensor.create(..., self.dt, self.delay, ..., inclusive=True):
   recordsz = max(ceil(delay / dt) + 1, 1)   (neural/mixins.py:139-163, infrastructure.py:928) *)
Definition recordsz (dt delay : A) : nat := Z.to_nat (recordsz_expr NM delay dt true).

(* RecordTensor.create with value torch.zeros of the batched shape: storage = the value repeated recordsz times *)
Definition fresh (n : nat) (shape : list nat) : ring :=
  mkRing n 0 (SFull tt shape (repeat (repeat (zero NM) (nel shape)) n)).
Definition init (c : cfg) : syn :=
  let n := recordsz (cdt c) (cdelay c) in
  mkSyn (fresh n (cshape c)) (fresh n (cshape c)) (fresh n (cshape c)).

(* RecordTensor.peek() *)
Definition peek_row (r : ring) : list A :=
  match st r with SFull _ _ rows => nth (idx r 1) rows [] | _ => [] end.
Definition rshape_of (r : ring) : list nat :=
  match st r with SFull _ sh _ => sh | _ => [] end.

(* self.<record>.push(value, self.inplace) *)
Definition rpush (c : cfg) (r : ring) (sh : list nat) (el : list A) : sres ring :=
  match push castU (zero NM) r (mkObs tt sh el) (cinplace c) with
  | Ok r' _ => SOk r'
  | Err e => SErr e
  end.

(* ---------- per-step recurrences (element-wise) ---------- *)
(* DeltaPlusCurrent.forward (current.py:338-339): sum((inputs[0] * (Q / dt), *inputs[1:])), python sum
   starts from the integer 0 *)
Definition deltaplus_val (c : cfg) (xs : list A) (inj : list (list A)) : list A :=
  fold_left (zipw (add NM)) inj (map (fun x => add NM (zero NM) (mul NM x (div NM (cQ c) (cdt c)))) xs).
(* SingleExponentialCurrent.forward (expcurrent.py:165-168) *)
Definition sexp_step (dt tau k : A) (i x : A) : A :=
  add NM (mul NM i (exp NM (div NM (opp NM dt) tau))) (mul NM k x).
Definition singleexp_val (c : cfg) (prev xs : list A) : list A :=
  zipw (sexp_step (cdt c) (ctau c) (div NM (cQ c) (ctau c))) prev xs.
(* DoubleExponentialCurrent.forward (expcurrent.py:560-567) *)
Definition dexp_k (c : cfg) : A := div NM (cQ c) (sub NM (ctau c) (ctr c)).
Definition doubleexp_pos (c : cfg) (prev xs : list A) : list A :=
  zipw (sexp_step (cdt c) (ctau c) (dexp_k c)) prev xs.
Definition doubleexp_neg (c : cfg) (prev xs : list A) : list A :=
  zipw (sexp_step (cdt c) (ctr c) (dexp_k c)) prev xs.

(* DeltaCurrent: spikes.to(dtype) * (Q / dt)  (current.py:85-87) *)
Definition delta_to_current (c : cfg) (s : A) : A := mul NM s (div NM (cQ c) (cdt c)).

(* the `current` property *)
Definition current_of (c : cfg) (s : syn) : list A :=
  match ckind c with
  | KDelta => map (delta_to_current c) (peek_row (spk s))
  | KDeltaPlus | KSingleExp => peek_row (cur s)
  | KDoubleExp => zipw (sub NM) (peek_row (cur s)) (peek_row (neg s))
  end.

(* forward of inputs: inputs[0] has shape xsh and flat values xs, inputs[1:] = inj (same shape; only
   DeltaPlusCurrent reads them).  The spike push comes first in every class, so an input of the wrong
   shape raises before any state changes. *)
Definition forward (c : cfg) (s : syn) (xsh : list nat) (xs : list A) (inj : list (list A)) : sres (syn * sout) :=
  match rpush c (spk s) xsh (map boolify xs) with
  | SErr e => SErr e
  | SOk spk' =>
      match ckind c with
      | KDelta =>
          let s' := mkSyn spk' (cur s) (neg s) in
          SOk (s', SOFloat (rshape_of spk') (current_of c s'))
      | KDeltaPlus =>
          match rpush c (cur s) xsh (deltaplus_val c xs inj) with
          | SErr e => SErr e
          | SOk cur' => let s' := mkSyn spk' cur' (neg s) in SOk (s', SOFloat (rshape_of cur') (current_of c s'))
          end
      | KSingleExp =>
          match rpush c (cur s) xsh (singleexp_val c (peek_row (cur s)) xs) with
          | SErr e => SErr e
          | SOk cur' => let s' := mkSyn spk' cur' (neg s) in SOk (s', SOFloat (rshape_of cur') (current_of c s'))
          end
      | KDoubleExp =>
          match rpush c (cur s) xsh (doubleexp_pos c (peek_row (cur s)) xs) with
          | SErr e => SErr e
          | SOk cur' =>
              match rpush c (neg s) xsh (doubleexp_neg c (peek_row (neg s)) xs) with
              | SErr e => SErr e
              | SOk neg' => let s' := mkSyn spk' cur' neg' in SOk (s', SOFloat (rshape_of cur') (current_of c s'))
              end
          end
      end
  end.

(* clear(): spike_.reset(False) [, current_.reset(0.0) | pos_current_.reset(0.0), neg_current_.reset(0.0)] *)
Definition rreset (r : ring) : ring :=
  match reset castU r (Some (zero NM)) with Ok r' _ => r' | Err _ => r end.
Definition clear (c : cfg) (s : syn) : syn :=
  match ckind c with
  | KDelta => mkSyn (rreset (spk s)) (cur s) (neg s)
  | KDeltaPlus | KSingleExp => mkSyn (rreset (spk s)) (rreset (cur s)) (neg s)
  | KDoubleExp => mkSyn (rreset (spk s)) (rreset (cur s)) (rreset (neg s))
  end.

(* ---------- RecordTensor.select, tensor time, offset = 1 (hand-transcribed: infrastructure.py:2075-2136) ---------- *)
(* tmin < -tolerance or tmax > dt * (recordsz - 1) + tolerance *)
Definition out_of_range (n : nat) (dt tol t : A) : bool :=
  ltb NM t (opp NM tol) || gtb NM t (add NM (mul NM dt (ofZ NM (Z.of_nat n - 1))) tol).
Definition shift_of (dt t : A) : A := div NM t dt.
Definition on_grid (dt tol t : A) : bool :=
  leb NM (abs NM (sub NM (mul NM dt (ofZ NM (rneZ NM (shift_of dt t)))) t)) tol.
(* x % 1 *)
Definition frac1 (x : A) : A := sub NM x (ofZ NM (floorZ NM x)).
(* dt - dt * (shift % 1) *)
Definition sample_at (dt shift : A) : A := sub NM dt (mul NM dt (frac1 shift)).
(* torch.where(abs(dt * shiftr - time) <= tolerance, shiftr, shift) *)
Definition snapped (dt tol t : A) : A :=
  if on_grid dt tol t then ofZ NM (rneZ NM (shift_of dt t)) else shift_of dt t.

Definition interp_fn := A -> A -> A -> A -> A.      (* prev_data next_data sample_at step_time *)

(* one value of the result: element e of an observation, time t *)
Definition sel_elem (r : ring) (dt tol : A) (interp : interp_fn) (e : nat) (t : A) : A :=
  match st r with
  | SFull _ _ rows =>
      let shift := snapped dt tol t in
      let o := add NM (ofZ NM 1) shift in                           (* offset = offset + shift *)
      let pk := ceilZ NM o in
      let nk := floorZ NM o in
      let p := nth e (nth (idx r pk) rows []) (zero NM) in          (* torch.gather *)
      let n := nth e (nth (idx r nk) rows []) (zero NM) in
      let res := interp p n (sample_at dt shift) dt in
      if Z.eqb pk nk then p else res                                (* bypass for exact indices *)
  | _ => zero NM
  end.

(* ---------- torch broadcasting (right-aligned), used by torch.where in the undelayed path ---------- *)
(* on reversed shapes *)
Fixpoint bc_rev (a b : list nat) : option (list nat) :=
  match a with
  | [] => Some b
  | x :: a' =>
      match b with
      | [] => Some a
      | y :: b' =>
          match bc_rev a' b' with
          | None => None
          | Some r =>
              if x =? y then Some (x :: r)
              else if x =? 1 then Some (y :: r)
              else if y =? 1 then Some (x :: r)
              else None
          end
      end
  end.
Definition bcast (a b : list nat) : option (list nat) :=
  match bc_rev (rev a) (rev b) with Some r => Some (rev r) | None => None end.
(* flat index into a tensor of (reversed) shape s of the element that lands on flat index i of the
   broadcast result of (reversed) shape o *)
Fixpoint src_rev (o s : list nat) (i stride : nat) : nat :=
  match o, s with
  | od :: o', sd :: s' =>
      (if sd =? 1 then 0 else (i mod od) * stride) + src_rev o' s' (i / od) (stride * sd)
  | _, _ => 0
  end.
Definition bsrc (o s : list nat) (i : nat) : nat := src_rev (rev o) (rev s) i 1.

(* tensor.expand(tgt) of a tensor of shape src with the same number of dimensions: every dimension
   must agree or be 1 in the source *)
Definition expand_to (src tgt : list nat) (vals : list A) : sres (list nat * list A) :=
  if (length src =? length tgt) && forallb (fun p => (fst p =? snd p) || (fst p =? 1)) (combine src tgt)
  then SOk (tgt, map (fun i => nth (bsrc tgt src i) vals (zero NM)) (seq 0 (nel tgt)))
  else SErr ERuntime.

(* torch.where(cond, res, scalar) with cond of shape csh and res of shape rsh *)
Definition where_bc (csh : list nat) (cond : list bool) (rsh : list nat) (res : list A) (o : A)
  : sres (list nat * list A) :=
  match bcast csh rsh with
  | None => SErr ERuntime
  | Some osh =>
      SOk (osh, map (fun i => if nth (bsrc osh csh i) cond false then nth (bsrc osh rsh i) res (zero NM) else o)
                    (seq 0 (nel osh)))
  end.

(* ---------- _synparam_at (synapses/mixins.py:10-73) and DoubleExponentialCurrent.current_at
   (expcurrent.py:409-444), which repeats it around a difference of two selects ----------
   n      : value.recordsz
   sh     : shape of an observation
   peekv  : transform(value.peek())                      (undelayed branch)
   selv   : e, bounded time |-> transform(select(...))   (delayed branch)
   ssh/sel: the selector's shape and flat values.  A selector with the observation's number of
            dimensions plus one has the trailing axis D; only the number of dimensions is checked by
            the code, the leading dimensions are assumed equal to the observation's. *)
Definition clamp_sel (dur t : A) : A := tmin NM (tmax NM t (zero NM)) dur.   (* selector.clamp(min=0, max=duration) *)

Definition param_at (n : nat) (sh : list nat) (peekv : list A) (selv : nat -> A -> A)
           (dt dur tol : A) (ob : option A) (ssh : list nat) (sel : list A) : sres (list nat * list A) :=
  if n =? 1 then
    (* undelayed access: bounded_selector = 0, res = transform(value.peek());
       if selector.ndim == res.ndim + 1: res = res.unsqueeze(-1).expand(selector.shape) *)
    let res := if length ssh =? S (length sh) then expand_to (sh ++ [1]) ssh peekv else SOk (sh, peekv) in
    match res with
    | SErr e => SErr e
    | SOk (rsh, rv) =>
        match ob with
        | None => SOk (rsh, rv)
        | Some o => where_bc ssh (map (fun t => leb NM (abs NM (sub NM t (zero NM))) tol) sel) rsh rv o
        end
    end
  else
    let squeeze := length ssh =? length sh in
    if negb (squeeze || (length ssh =? S (length sh))) then SErr EValue
    else
      let bsel := map (clamp_sel dur) sel in
      if existsb (out_of_range n dt tol) bsel then SErr EValue
      else
        let d := if squeeze then 1 else last ssh 0 in
        let one := fun e j =>
          let t := nth (e * d + j) sel (zero NM) in
          let b := clamp_sel dur t in
          let v := selv e b in
          match ob with
          | None => v
          | Some o => if leb NM (abs NM (sub NM t b)) tol then v else o
          end in
        SOk (if squeeze then sh else sh ++ [d],
             flat_map (fun e => map (one e) (seq 0 d)) (seq 0 (nel sh)))
  .

Definition interp_of_mode (m : imode) : interp_fn :=
  match m with IPrevious => interp_previous NM | INearest => interp_nearest NM end.
Definition interp_decay (tau : A) : interp_fn := fun p n sa st => interp_expdecay NM p n sa st tau.

(* _synparam_at on one record *)
Definition synparam_at (r : ring) (dt dur tol : A) (interp : interp_fn) (transform : A -> A) (ob : option A)
           (ssh : list nat) (sel : list A) : sres (list nat * list A) :=
  match st r with
  | SFull _ sh _ =>
      param_at (N r) sh (map transform (peek_row r)) (fun e b => transform (sel_elem r dt tol interp e b))
               dt dur tol ob ssh sel
  | _ => SErr ERuntime
  end.

(* current_at, per class: which record, which interpolation, which transform, as coded *)
Definition current_at (c : cfg) (s : syn) (ssh : list nat) (sel : list A) : sres (list nat * list A) :=
  match ckind c with
  | KDelta =>      (* SpikeDerivedCurrentMixin.current_at: the spike record, transform = spike_to_current *)
      synparam_at (spk s) (cdt c) (cdelay c) (ctol c) (interp_of_mode (cmode c)) (delta_to_current c)
                  (ccur_ob c) ssh sel
  | KDeltaPlus =>  (* CurrentMixin.current_at *)
      synparam_at (cur s) (cdt c) (cdelay c) (ctol c) (interp_of_mode (cmode c)) (fun x => x) (ccur_ob c) ssh sel
  | KSingleExp =>
      synparam_at (cur s) (cdt c) (cdelay c) (ctol c) (interp_decay (ctau c)) (fun x => x) (ccur_ob c) ssh sel
  | KDoubleExp =>  (* expcurrent.py:409-444; spike_.recordsz decides the branch *)
      match st (cur s) with
      | SFull _ sh _ =>
          param_at (N (spk s)) sh (zipw (sub NM) (peek_row (cur s)) (peek_row (neg s)))
                   (fun e b => sub NM (sel_elem (cur s) (cdt c) (ctol c) (interp_decay (ctau c)) e b)
                                      (sel_elem (neg s) (cdt c) (ctol c) (interp_decay (ctr c)) e b))
                   (cdt c) (cdelay c) (ctol c) (ccur_ob c) ssh sel
      | _ => SErr ERuntime
      end
  end.

(* SpikeMixin.spike_at (all four classes): the spike record, the spike interpolation mode, bool overbound,
   result converted to bool *)
Definition spike_at (c : cfg) (s : syn) (ssh : list nat) (sel : list A) : sres (list nat * list A) :=
  match synparam_at (spk s) (cdt c) (cdelay c) (ctol c) (interp_of_mode (cmode c)) (fun x => x)
                    (option_map (b2t NM) (cspk_ob c)) ssh sel with
  | SOk (sh, v) => SOk (sh, map boolify v)
  | SErr e => SErr e
  end.

(* DoubleExponentialCurrent.pos_current_at / neg_current_at *)
Definition pos_current_at (c : cfg) (s : syn) (ssh : list nat) (sel : list A) :=
  synparam_at (cur s) (cdt c) (cdelay c) (ctol c) (interp_decay (ctau c)) (fun x => x) (ccur_ob c) ssh sel.
Definition neg_current_at (c : cfg) (s : syn) (ssh : list nat) (sel : list A) :=
  synparam_at (neg s) (cdt c) (cdelay c) (ctol c) (interp_decay (ctr c)) (fun x => x) (ccur_ob c) ssh sel.

(* ---------- operations as data, runs ---------- *)
Inductive sop :=
| OStep (xsh : list nat) (xs : list A) (inj : list (list A))
| OCurrent | OSpike
| OCurrentAt (ssh : list nat) (sel : list A)
| OSpikeAt (ssh : list nat) (sel : list A)
| OPosAt (ssh : list nat) (sel : list A)       (* double exponential only *)
| ONegAt (ssh : list nat) (sel : list A)       (* double exponential only *)
| OClear.

Definition lift_f (s : syn) (r : sres (list nat * list A)) : sres (syn * sout) :=
  match r with SOk (sh, v) => SOk (s, SOFloat sh v) | SErr e => SErr e end.
Definition lift_b (s : syn) (r : sres (list nat * list A)) : sres (syn * sout) :=
  match r with SOk (sh, v) => SOk (s, SOBool sh v) | SErr e => SErr e end.

Definition sstep (c : cfg) (s : syn) (o : sop) : sres (syn * sout) :=
  match o with
  | OStep xsh xs inj => forward c s xsh xs inj
  | OCurrent =>
      SOk (s, SOFloat (match ckind c with KDelta => rshape_of (spk s) | _ => rshape_of (cur s) end) (current_of c s))
  | OSpike => SOk (s, SOBool (rshape_of (spk s)) (peek_row (spk s)))
  | OCurrentAt ssh sel => lift_f s (current_at c s ssh sel)
  | OSpikeAt ssh sel => lift_b s (spike_at c s ssh sel)
  | OPosAt ssh sel => lift_f s (pos_current_at c s ssh sel)
  | ONegAt ssh sel => lift_f s (neg_current_at c s ssh sel)
  | OClear => SOk (clear c s, SOUnit)
  end.

(* an operation that raises leaves the state unchanged *)
Fixpoint run (c : cfg) (s : syn) (ops : list sop) : syn * list (sout + err) :=
  match ops with
  | [] => (s, [])
  | o :: tl =>
      match sstep c s o with
      | SOk (s', out) => let '(sf, outs) := run c s' tl in (sf, inl out :: outs)
      | SErr e => let '(sf, outs) := run c s tl in (sf, inr e :: outs)
      end
  end.

End Synapse.

Arguments SOk {X} x.
Arguments SErr {X} e.
