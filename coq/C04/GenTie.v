(* C04 - tie of the hand-written synapse model (C04/Synapse.v) to the definitions GENERATED from the synapse classes
   (Gen/SynapseClasses.v, re-translated from inferno/neural/synapses/*.py on every check).  This file: what is common
   to the four classes; one file per class / for the mixin follows (GenTie<Class>.v), so that an edit of one class
   breaks only that class's obligations.  No axioms, any numeric reading. *)
From Coq Require Import List ZArith Bool Arith Lia.
From Inferno Require Import Base.Num Gen.Infra Gen.SynapseClasses C01.Ring C04.Synapse C04.HistProofs.
Import ListNotations.

Section GenTie.
Variable NM : Num.
Notation A := (T NM).

(* records by index, as the generated lists name them: 0 spike_, 1 current_ / pos_current_, 2 neg_current_ *)
Definition has (i : nat) (l : list nat) : bool := existsb (Nat.eqb i) l.
Definition apply_resets (l : list nat) (s : syn NM) : syn NM :=
  mkSyn NM (if has 0 l then rreset NM (spk NM s) else spk NM s)
           (if has 1 l then rreset NM (cur NM s) else cur NM s)
           (if has 2 l then rreset NM (neg NM s) else neg NM s).
Definition kind_writes (k : kind) : list nat :=
  match k with KDelta => [0] | KDeltaPlus | KSingleExp => [0; 1] | KDoubleExp => [0; 1; 2] end.

(* clear resets exactly the records the class writes *)
Theorem clear_resets c s : clear NM c s = apply_resets (kind_writes (ckind NM c)) s.
Proof. unfold clear, apply_resets. destruct (ckind NM c); reflexivity. Qed.

(* forward leaves every record outside kind_writes untouched, and writes the spike record first: an input of
   the wrong shape (the only way the first push fails) raises before anything is written *)
Theorem forward_writes c s xsh xs inj s' o : forward NM c s xsh xs inj = SOk (s', o) ->
  (has 1 (kind_writes (ckind NM c)) = false -> cur NM s' = cur NM s) /\
  (has 2 (kind_writes (ckind NM c)) = false -> neg NM s' = neg NM s).
Proof.
  unfold forward. destruct (rpush NM c (spk NM s) xsh (map (boolify NM) xs)) as [spk'|e]; [|discriminate].
  destruct (ckind NM c); cbn [kind_writes has existsb Nat.eqb orb].
  - intros H. injection H as <- _. split; reflexivity.
  - destruct (rpush NM c (cur NM s) xsh _) as [cur'|e]; [|discriminate]. intros H. injection H as <- _.
    split; [discriminate|reflexivity].
  - destruct (rpush NM c (cur NM s) xsh _) as [cur'|e]; [|discriminate]. intros H. injection H as <- _.
    split; [discriminate|reflexivity].
  - destruct (rpush NM c (cur NM s) xsh _) as [cur'|e]; [|discriminate].
    destruct (rpush NM c (neg NM s) xsh _) as [neg'|e]; [|discriminate]. intros H. injection H as <- _.
    split; discriminate.
Qed.

(* element e of a left fold of element-wise sums *)
Lemma nth_fold_zipw_gen (f : A -> A -> A) (z : A) e inj : forall acc n,
  Forall (fun i : list A => length i = n) inj -> length acc = n -> e < n ->
  nth e (fold_left (zipw f) inj acc) z = fold_left f (map (fun i => nth e i z) inj) (nth e acc z).
Proof.
  induction inj as [|i inj IH]; intros acc n Hall Hacc He; cbn [fold_left map]; [reflexivity|].
  inversion Hall as [|? ? Hi Hinj]; subst.
  assert (Hz : length (zipw f acc i) = length acc) by (rewrite zipw_length; lia).
  rewrite (IH (zipw f acc i) (length acc) Hinj Hz He).
  rewrite (nth_zipw f acc i e z z z) by lia. reflexivity.
Qed.

(* ---------- what a caller gets by leaving the optional constructor / partialconstructor arguments out: the values the
   C04 harness hard-codes for omitted arguments (tools/props/c04.py DEFAULTS).  Each class's generated defaults are
   proved equal to these in its own tie file, so a changed default breaks that class's obligation. *)
Definition mode_of_code (n : nat) : imode := match n with 0 => IPrevious | _ => INearest end.
Definition dflt_mode : imode := IPrevious.
Definition dflt_delay : A := zero NM.
Definition dflt_tol : A := zero NM.
Definition dflt_cur_ob : option A := Some (zero NM).
Definition dflt_spk_ob : option bool := Some false.
Definition dflt_batch : nat := 1.
Definition dflt_inplace : bool := false.

End GenTie.
