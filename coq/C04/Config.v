(* Synapse configuration changes at run time, on top of C04/Synapse.v (definitions only, polymorphic in NM).
   The configuration becomes part of the state:
     dt / delay setters   InfernoSynapse.dt / .delay (neural/base.py:654-671): DelayedMixin's setter re-sizes every
                          registered record (RecordTensor.dt / .duration setters: size = max(ceil(duration/dt)+inclusive,1),
                          align(0) + reconstrain when the size changes), then self.clear() - so every record the class
                          has ends zero-filled, pointer 0, with the new record size: the constructor's state for the new
                          configuration;
     inplace setter       a flag (neural/base.py:689-691);
     batchsz setter       BatchMixin.batchsz (neural/mixins.py:51-57): RecordTensor.reconstrain(0, B') on every batched
                          record = align() then resize of the batch axis keeping the LAST samples / prepending zero
                          samples (ShapedTensor.__make_compatible, infrastructure.py:409-421); no clear;
     spike_charge, time_constant, tc_decay, tc_rise are plain attributes read by forward at every step
                          (assignment has no other effect); SingleExponentialCurrent.current_at interpolates with the
                          time constant captured in interp_kwargs at construction (expcurrent.py:89), the double
                          exponential reads tc_decay / tc_rise when called (expcurrent.py:427-432). *)
From Coq Require Import List ZArith Bool Arith.
From Inferno Require Import Base.Num Gen.Infra C01.Ring C04.Synapse.
Import ListNotations.

Section Config.
Variable NM : Num.
Notation A := (T NM).
Notation cfg := (cfg NM).
Notation syn := (syn NM).
Notation ring := (@ring A unit).

Definition set_dt (c : cfg) (v : A) : cfg :=
  mkCfg NM (ckind NM c) (cshape NM c) v (cdelay NM c) (cQ NM c) (ctau NM c) (ctr NM c) (cmode NM c) (ctol NM c)
        (ccur_ob NM c) (cspk_ob NM c) (cinplace NM c).
Definition set_delay (c : cfg) (v : A) : cfg :=
  mkCfg NM (ckind NM c) (cshape NM c) (cdt NM c) v (cQ NM c) (ctau NM c) (ctr NM c) (cmode NM c) (ctol NM c)
        (ccur_ob NM c) (cspk_ob NM c) (cinplace NM c).
Definition set_inplace (c : cfg) (b : bool) : cfg :=
  mkCfg NM (ckind NM c) (cshape NM c) (cdt NM c) (cdelay NM c) (cQ NM c) (ctau NM c) (ctr NM c) (cmode NM c) (ctol NM c)
        (ccur_ob NM c) (cspk_ob NM c) b.
Definition set_shape (c : cfg) (sh : list nat) : cfg :=
  mkCfg NM (ckind NM c) sh (cdt NM c) (cdelay NM c) (cQ NM c) (ctau NM c) (ctr NM c) (cmode NM c) (ctol NM c)
        (ccur_ob NM c) (cspk_ob NM c) (cinplace NM c).
Definition set_Q (c : cfg) (v : A) : cfg :=
  mkCfg NM (ckind NM c) (cshape NM c) (cdt NM c) (cdelay NM c) v (ctau NM c) (ctr NM c) (cmode NM c) (ctol NM c)
        (ccur_ob NM c) (cspk_ob NM c) (cinplace NM c).
Definition set_tau (c : cfg) (v : A) : cfg :=
  mkCfg NM (ckind NM c) (cshape NM c) (cdt NM c) (cdelay NM c) (cQ NM c) v (ctr NM c) (cmode NM c) (ctol NM c)
        (ccur_ob NM c) (cspk_ob NM c) (cinplace NM c).
Definition set_tr (c : cfg) (v : A) : cfg :=
  mkCfg NM (ckind NM c) (cshape NM c) (cdt NM c) (cdelay NM c) (cQ NM c) (ctau NM c) v (cmode NM c) (ctol NM c)
        (ccur_ob NM c) (cspk_ob NM c) (cinplace NM c).

(* configuration in force, the time constant captured by SingleExponentialCurrent's interp_kwargs, the records *)
Record cst := mkCst { ccfg : cfg; ctau_i : A; csyn : syn }.

Definition cinit (c : cfg) : cst := mkCst c (ctau NM c) (init NM c).

Inductive cop :=
| CSyn (o : sop NM)
| CSetDt (v : A) | CSetDelay (v : A) | CSetInplace (b : bool) | CSetBatch (b : nat)
| CSetQ (v : A) | CSetTau (v : A) | CSetTr (v : A).

(* the configuration current_at reads: as in force, except the single exponential's interpolation constant *)
Definition query_cfg (cs : cst) : cfg :=
  match ckind NM (ccfg cs) with
  | KSingleExp => set_tau (ccfg cs) (ctau_i cs)
  | _ => ccfg cs
  end.

(* batch axis resize of one record: align(), then keep the last b samples / prepend zero samples *)
Definition rebatch_row (per bold bnew : nat) (row : list A) : list A :=
  if bnew <=? bold then skipn ((bold - bnew) * per) row
  else repeat (zero NM) ((bnew - bold) * per) ++ row.
Definition rebatch (bnew : nat) (r : ring) : ring :=
  match align r 0 with
  | Ok r' _ =>
      match st r' with
      | SFull d (bold :: sh) rows =>
          mkRing (N r') (ptr r') (SFull d (bnew :: sh) (map (rebatch_row (nel sh) bold bnew) rows))
      | _ => r'
      end
  | Err _ => r
  end.

Definition cstep (cs : cst) (o : cop) : sres (cst * sout NM) :=
  let c := ccfg cs in
  match o with
  | CSyn (OCurrentAt _ ssh sel) =>
      match sstep NM (query_cfg cs) (csyn cs) (OCurrentAt NM ssh sel) with
      | SOk (s', out) => SOk (mkCst c (ctau_i cs) s', out)
      | SErr e => SErr e
      end
  | CSyn o' =>
      match sstep NM c (csyn cs) o' with
      | SOk (s', out) => SOk (mkCst c (ctau_i cs) s', out)
      | SErr e => SErr e
      end
  | CSetDt v =>
      if leb NM v (zero NM) then SErr EValue            (* argtest.gt("dt", value, 0, float) *)
      else let c' := set_dt c v in SOk (mkCst c' (ctau_i cs) (init NM c'), SOUnit NM)
  | CSetDelay v =>
      if ltb NM v (zero NM) then SErr EValue            (* argtest.gte("delay", value, 0, float) *)
      else let c' := set_delay c v in SOk (mkCst c' (ctau_i cs) (init NM c'), SOUnit NM)
  | CSetInplace b => SOk (mkCst (set_inplace c b) (ctau_i cs) (csyn cs), SOUnit NM)
  | CSetBatch b =>
      if b =? 0 then SErr EValue                        (* argtest.gt("batchsz", value, 0, int) *)
      else if b =? hd 0 (cshape NM c) then SOk (cs, SOUnit NM)   (* if value != self.__batch_size *)
      else
        let s := csyn cs in
        SOk (mkCst (set_shape c (b :: tl (cshape NM c))) (ctau_i cs)
                   (mkSyn NM (rebatch b (spk NM s)) (rebatch b (cur NM s)) (rebatch b (neg NM s))), SOUnit NM)
  | CSetQ v => SOk (mkCst (set_Q c v) (ctau_i cs) (csyn cs), SOUnit NM)
  | CSetTau v => SOk (mkCst (set_tau c v) (ctau_i cs) (csyn cs), SOUnit NM)
  | CSetTr v => SOk (mkCst (set_tr c v) (ctau_i cs) (csyn cs), SOUnit NM)
  end.

(* an operation that raises leaves the state unchanged *)
Fixpoint crun (cs : cst) (ops : list cop) : cst * list (sout NM + err) :=
  match ops with
  | [] => (cs, [])
  | o :: tl =>
      match cstep cs o with
      | SOk (cs', out) => let '(sf, outs) := crun cs' tl in (sf, inl out :: outs)
      | SErr e => let '(sf, outs) := crun cs tl in (sf, inr e :: outs)
      end
  end.

End Config.
