(* C04, part 1 (no axioms, any numeric reading NM): the records of a synapse hold the list of past
   values.  [past] = the list of inputs since the last clear, newest first - the only thing the
   property talks about.  [Inv c s p]: the observation k steps before the write position of each
   record is the value the synapse had k steps ago (a function of p alone), the resting value
   before the start / the last clear.  The invariant is established by the constructor and
   preserved by every operation (forward, clear, every query, operations that raise), for every
   record size, pointer position, shape, batch size and both write modes.  *)
From Coq Require Import List ZArith Bool Arith Lia.
From Inferno Require Import Base.Num Gen.Infra C01.Ring C01.RingProofs C04.Synapse.
Import ListNotations.

Section Hist.
Variable NM : Num.
Notation A := (T NM).
Notation ring := (@ring A unit).
Notation cfg := (cfg NM).
Notation syn := (syn NM).
Notation sop := (sop NM).
Notation at_ := (@at_ A unit).
Notation wf := (@wf A unit).
Notation rows := (@rows A unit).

(* ------------------------------------------------------------------ small list facts *)
Lemma map_castU d (l : list A) : map (castU NM d) l = l.
Proof. induction l as [|x l IH]; cbn; [reflexivity|]. now rewrite IH. Qed.

Lemma zipw_length {X Y Z} (f : X -> Y -> Z) l1 l2 : length (zipw f l1 l2) = Nat.min (length l1) (length l2).
Proof. unfold zipw. now rewrite map_length, combine_length. Qed.

Lemma nth_zipw {X Y Z} (f : X -> Y -> Z) l1 l2 e dx dy dz :
  e < length l1 -> e < length l2 -> nth e (zipw f l1 l2) dz = f (nth e l1 dx) (nth e l2 dy).
Proof.
  revert l2 e. induction l1 as [|a l1 IH]; intros [|b l2] e H1 H2; cbn in *; try lia.
  destruct e as [|e]; [reflexivity|]. apply IH; lia.
Qed.

Lemma shape_eqb_eq a b : shape_eqb a b = true -> a = b.
Proof.
  unfold shape_eqb. intros H. apply andb_prop in H as (Hl & Hf). apply Nat.eqb_eq in Hl.
  revert b Hl Hf. induction a as [|x a IH]; intros [|y b] Hl Hf; cbn in *; try lia; [reflexivity|].
  apply andb_prop in Hf as (Hxy & Hf). apply Nat.eqb_eq in Hxy. subst. f_equal. apply IH; [lia|exact Hf].
Qed.
Lemma shape_eqb_neq a b : a <> b -> shape_eqb a b = false.
Proof. intros H. destruct (shape_eqb a b) eqn:E; [|reflexivity]. apply shape_eqb_eq in E. contradiction. Qed.

(* ------------------------------------------------------------------ one record *)
(* well formed, initialised with observation shape sh, every stored observation has nel sh elements *)
Definition wfr (sh : list nat) (r : ring) : Prop :=
  wf r /\ st r = SFull tt sh (rows r) /\ Forall (fun row => length row = nel sh) (rows r).

(* h k = the observation pushed k pushes ago *)
Definition hist_is (r : ring) (h : nat -> list A) : Prop :=
  forall k, k < N r -> at_ r (Z.of_nat k + 1) = h k.
Definition shift_h (o : list A) (h : nat -> list A) : nat -> list A :=
  fun k => match k with O => o | S k' => h k' end.

Lemma wfr_full sh r : wfr sh r -> full r.
Proof. intros (_ & H & _). unfold full. rewrite H. exact I. Qed.

Lemma peek_row_at sh r : wfr sh r -> peek_row NM r = at_ r 1.
Proof. intros (_ & H & _). unfold peek_row, RingProofs.at_. rewrite H. reflexivity. Qed.
Lemma rshape_of_wfr sh r : wfr sh r -> rshape_of NM r = sh.
Proof. intros (_ & H & _). unfold rshape_of. rewrite H. reflexivity. Qed.

Lemma at_length sh r k : wfr sh r -> length (at_ r k) = nel sh.
Proof.
  intros (Hwf & Hst & Hall). unfold RingProofs.at_. pose proof (idx_lt r k Hwf) as Hi.
  destruct Hwf as (Hn & Hp & Hl). rewrite Hst in Hl.
  rewrite Forall_forall in Hall. apply Hall. apply nth_In. fold (rows r) in *. lia.
Qed.

(* push on a well-formed record: both write modes produce the same record, the newest observation is
   the pushed one, every older observation moves one step into the past *)
Lemma push_unfold sh (r : ring) (el : list A) ip : wfr sh r ->
  push (castU NM) (zero NM) r (mkObs tt sh el) ip =
  Ok (set_ptr (set_st r (SFull tt sh (upd (rows r) (idx r 0) el))) (unwind (ptr r) (- 1) (N r))) OUnit.
Proof.
  intros (Hwf & Hst & _). pose proof (idx_lt r 0 Hwf) as Hi. destruct Hwf as (Hn & Hp & Hl).
  unfold push. rewrite Hst. unfold write. rewrite Hst. cbn [oshape oel]. rewrite shape_eqb_refl. cbn [negb].
  rewrite map_castU. rewrite Hst in Hl.
  rewrite (splice_eq_upd (castU NM) (zero NM) (rows r) (idx r 0) el) by lia.
  destruct ip; unfold incr; cbn [set_st st N ptr]; reflexivity.
Qed.

Lemma rpush_ok c sh (r : ring) (el : list A) h : wfr sh r -> hist_is r h -> length el = nel sh ->
  exists r', rpush NM c r sh el = SOk r' /\ wfr sh r' /\ N r' = N r /\ hist_is r' (shift_h el h).
Proof.
  intros Hw Hh Hlen. pose proof Hw as (Hwf & Hst & Hall).
  destruct (hist_push (castU NM) (promU NM) (eqbU NM) (zero NM) r (mkObs tt sh el) (cinplace NM c) Hwf (wfr_full _ _ Hw))
    as (d & sh' & Hst' & Hp).
  rewrite Hst in Hst'. injection Hst' as <- <-. cbn [oshape] in Hp.
  destruct (Hp (shape_eqb_refl sh)) as (r' & Hpush & Hwf' & HN' & Hst'' & Hhist). clear Hp.
  exists r'. unfold rpush. rewrite Hpush. split; [reflexivity|].
  assert (Hrows : rows r' = upd (rows r) (idx r 0) el).
  { rewrite (push_unfold sh r el (cinplace NM c) Hw) in Hpush. injection Hpush as <-. reflexivity. }
  split; [|split; [exact HN'|]].
  - split; [exact Hwf'|]. split; [exact Hst''|]. rewrite Hrows. apply Forall_upd; assumption.
  - intros k Hk. rewrite HN' in Hk. cbn [oel] in Hhist. rewrite map_castU in Hhist.
    assert (E : at_ r' (Z.of_nat k + 1) = nth k (hist r') []).
    { unfold hist. rewrite nth_map_seq by lia. reflexivity. }
    rewrite E, Hhist. destruct k as [|k]; cbn [nth shift_h]; [reflexivity|].
    unfold hist. destruct (N r) as [|n] eqn:EN; [lia|]. rewrite removelast_map_seq.
    rewrite nth_map_seq by lia. apply Hh. lia.
Qed.

Lemma rpush_bad_shape c sh sh' (r : ring) (el : list A) : wfr sh r -> sh' <> sh ->
  rpush NM c r sh' el = SErr EValue.
Proof.
  intros (_ & Hst & _) Hne. unfold rpush, push. rewrite Hst. unfold write. rewrite Hst. cbn [oshape].
  rewrite (shape_eqb_neq _ _ Hne). reflexivity.
Qed.

(* reset(fill): every observation becomes the fill value *)
Lemma rreset_ok sh (r : ring) : wfr sh r ->
  wfr sh (rreset NM r) /\ N (rreset NM r) = N r /\ hist_is (rreset NM r) (fun _ => repeat (zero NM) (nel sh)).
Proof.
  intros Hw. pose proof Hw as (Hwf & Hst & Hall).
  destruct (reset_fill_spec (castU NM) (promU NM) (eqbU NM) r (zero NM) Hwf (wfr_full _ _ Hw))
    as (r' & d & sh' & Hr & Hwf' & HN' & Hp' & Hst1 & Hst' & Hat).
  rewrite Hst in Hst1. injection Hst1 as <- <-.
  unfold rreset. rewrite Hr.
  assert (Hatz : forall k, at_ r' k = repeat (zero NM) (nel sh)).
  { intros k. rewrite Hat. rewrite <- (at_length sh r (k + Z.of_nat (ptr r)) Hw).
    generalize (at_ r (k + Z.of_nat (ptr r))). intros l. induction l as [|x l IH]; cbn; [reflexivity|]. now rewrite IH. }
  split; [|split; [exact HN'|intros k _; apply Hatz]].
  split; [exact Hwf'|]. split; [exact Hst'|].
  apply Forall_forall. intros row Hin. apply In_nth with (d := []) in Hin as (i & Hi & <-).
  (* every stored row is some at_ *)
  destruct Hwf' as (Hn' & Hpp' & Hl'). rewrite Hst' in Hl'.
  assert (Hex : exists k, idx r' k = i).
  { exists (Z.of_nat (ptr r') - Z.of_nat i)%Z. unfold idx, unwind, _unwind_ptr.
    replace (Z.of_nat (ptr r') - (Z.of_nat (ptr r') - Z.of_nat i))%Z with (Z.of_nat i) by lia.
    rewrite Z.mod_small by lia. lia. }
  destruct Hex as (k & <-). change (nth (idx r' k) (rows r') []) with (at_ r' k).
  rewrite Hatz. apply repeat_length.
Qed.

(* ------------------------------------------------------------------ the property's own state: past inputs *)
(* newest first; per forward call: the values of inputs[0] and the injected tensors inputs[1:] *)
Definition past := list (list A * list (list A)).

Definition zrow (c : cfg) : list A := repeat (zero NM) (nel (cshape NM c)).

(* the spikes received k steps ago *)
Definition spike_hist (c : cfg) (p : past) (k : nat) : list A :=
  match nth_error p k with Some (xs, _) => map (boolify NM) xs | None => zrow c end.

(* newest value of current_ (pos_current_ for the double exponential) after the inputs p *)
Fixpoint cur_val (c : cfg) (p : past) : list A :=
  match p with
  | [] => zrow c
  | (xs, inj) :: older =>
      match ckind NM c with
      | KDelta => zrow c                                   (* no current record: carried along untouched *)
      | KDeltaPlus => deltaplus_val NM c xs inj
      | KSingleExp => singleexp_val NM c (cur_val c older) xs
      | KDoubleExp => doubleexp_pos NM c (cur_val c older) xs
      end
  end.
Fixpoint neg_val (c : cfg) (p : past) : list A :=
  match p with
  | [] => zrow c
  | (xs, inj) :: older =>
      match ckind NM c with
      | KDoubleExp => doubleexp_neg NM c (neg_val c older) xs
      | _ => zrow c
      end
  end.
Definition cur_hist (c : cfg) (p : past) (k : nat) : list A := cur_val c (skipn k p).
Definition neg_hist (c : cfg) (p : past) (k : nat) : list A := neg_val c (skipn k p).

(* the synapse's current after the inputs p *)
Definition cur_out (c : cfg) (p : past) : list A :=
  match ckind NM c with
  | KDelta => map (delta_to_current NM c) (spike_hist c p 0)
  | KDeltaPlus | KSingleExp => cur_val c p
  | KDoubleExp => zipw (sub NM) (cur_val c p) (neg_val c p)
  end.

(* tensors are flat lists with as many elements as their shape says *)
Definition entry_ok (c : cfg) (x : list A * list (list A)) : Prop :=
  length (fst x) = nel (cshape NM c) /\ Forall (fun i => length i = nel (cshape NM c)) (snd x).
Definition op_ok (o : sop) : Prop :=
  match o with
  | OStep _ xsh xs inj => length xs = nel xsh /\ Forall (fun i => length i = nel xsh) inj
  | _ => True
  end.

Definition spec_step (c : cfg) (p : past) (o : sop) : past :=
  match o with
  | OStep _ xsh xs inj => if shape_eqb xsh (cshape NM c) then (xs, inj) :: p else p
  | OClear _ => []
  | _ => p
  end.

Record Inv (c : cfg) (s : syn) (p : past) : Prop := mkInv {
  inv_Nc : N (cur NM s) = N (spk NM s);
  inv_Nn : N (neg NM s) = N (spk NM s);
  inv_ws : wfr (cshape NM c) (spk NM s);
  inv_wc : wfr (cshape NM c) (cur NM s);
  inv_wn : wfr (cshape NM c) (neg NM s);
  inv_hs : hist_is (spk NM s) (spike_hist c p);
  inv_hc : hist_is (cur NM s) (cur_hist c p);
  inv_hn : hist_is (neg NM s) (neg_hist c p);
  inv_p : Forall (entry_ok c) p }.

Lemma zrow_length c : length (zrow c) = nel (cshape NM c).
Proof. apply repeat_length. Qed.

Lemma fold_zipw_length (f : A -> A -> A) n inj : Forall (fun i => length i = n) inj ->
  forall acc, length acc = n -> length (fold_left (zipw f) inj acc) = n.
Proof.
  induction 1 as [|i inj Hi _ IH]; intros acc Hacc; cbn [fold_left]; [exact Hacc|].
  apply IH. rewrite zipw_length. lia.
Qed.

Lemma cur_val_length c p : Forall (entry_ok c) p -> length (cur_val c p) = nel (cshape NM c).
Proof.
  induction 1 as [|(xs, inj) p (Hx & Hi) _ IH]; cbn [cur_val]; [apply zrow_length|].
  cbn [fst snd] in *. destruct (ckind NM c).
  - apply zrow_length.
  - unfold deltaplus_val. apply fold_zipw_length; [exact Hi|]. rewrite map_length. exact Hx.
  - unfold singleexp_val. rewrite zipw_length. lia.
  - unfold doubleexp_pos. rewrite zipw_length. lia.
Qed.
Lemma neg_val_length c p : Forall (entry_ok c) p -> length (neg_val c p) = nel (cshape NM c).
Proof.
  induction 1 as [|(xs, inj) p (Hx & Hi) _ IH]; cbn [neg_val]; [apply zrow_length|].
  cbn [fst snd] in *. destruct (ckind NM c); try apply zrow_length.
  unfold doubleexp_neg. rewrite zipw_length. lia.
Qed.

(* ------------------------------------------------------------------ the constructor establishes the invariant *)
Lemma recordsz_pos dt delay : 0 < recordsz NM dt delay.
Proof. unfold recordsz, recordsz_expr. lia. Qed.

Lemma fresh_wfr n sh : 0 < n -> wfr sh (fresh NM n sh) /\ hist_is (fresh NM n sh) (fun _ => repeat (zero NM) (nel sh)).
Proof.
  intros Hn. assert (Hw : wfr sh (fresh NM n sh)).
  { unfold wfr, fresh, RingProofs.wf, RingProofs.rows; cbn [N ptr st]. rewrite repeat_length.
    repeat split; auto. apply Forall_forall. intros x Hx. apply repeat_spec in Hx. subst. apply repeat_length. }
  split; [exact Hw|]. intros k Hk. unfold RingProofs.at_, RingProofs.rows, fresh; cbn [st].
  pose proof (idx_lt (fresh NM n sh) (Z.of_nat k + 1) (proj1 Hw)) as Hi. cbn [fresh N] in Hi.
  unfold fresh in Hi |- *.
  rewrite (nth_indep _ [] (repeat (zero NM) (nel sh))) by (rewrite repeat_length; exact Hi).
  apply nth_repeat.
Qed.

Theorem init_inv c : Inv c (init NM c) [].
Proof.
  unfold init. set (n := recordsz NM (cdt NM c) (cdelay NM c)).
  destruct (fresh_wfr n (cshape NM c) (recordsz_pos _ _)) as (Hw & Hh).
  constructor; cbn [spk cur neg]; auto.
  - intros k Hk. rewrite Hh by exact Hk. unfold spike_hist. destruct k; reflexivity.
  - intros k Hk. rewrite Hh by exact Hk. unfold cur_hist. destruct k; reflexivity.
  - intros k Hk. rewrite Hh by exact Hk. unfold neg_hist. destruct k; reflexivity.
Qed.

(* ------------------------------------------------------------------ forward *)
Lemma spike_hist_cons c x p : forall k, spike_hist c (x :: p) k = shift_h (map (boolify NM) (fst x)) (spike_hist c p) k.
Proof. intros [|k]; unfold spike_hist; destruct x; reflexivity. Qed.

Lemma hist_is_ext r h h' : (forall k, h k = h' k) -> hist_is r h -> hist_is r h'.
Proof. intros E H k Hk. rewrite <- E. apply H; exact Hk. Qed.

Lemma current_of_inv c s p : Inv c s p -> current_of NM c s = cur_out c p.
Proof.
  intros I. unfold current_of, cur_out.
  pose proof (recordsz_pos (cdt NM c) (cdelay NM c)) as _.
  assert (Hs : peek_row NM (spk NM s) = spike_hist c p 0).
  { rewrite (peek_row_at _ _ (inv_ws _ _ _ I)). apply (inv_hs _ _ _ I 0). destruct (inv_ws _ _ _ I) as ((Hn & _) & _). exact Hn. }
  assert (Hc : peek_row NM (cur NM s) = cur_val c p).
  { rewrite (peek_row_at _ _ (inv_wc _ _ _ I)). apply (inv_hc _ _ _ I 0). destruct (inv_wc _ _ _ I) as ((Hn & _) & _). exact Hn. }
  assert (Hn : peek_row NM (neg NM s) = neg_val c p).
  { rewrite (peek_row_at _ _ (inv_wn _ _ _ I)). apply (inv_hn _ _ _ I 0). destruct (inv_wn _ _ _ I) as ((Hn & _) & _). exact Hn. }
  destruct (ckind NM c); congruence.
Qed.

(* a forward call with an input of the record's shape succeeds, returns the current determined by the
   inputs so far, and extends the history of every record by one step *)
Theorem forward_ok c s p xs inj : Inv c s p -> entry_ok c (xs, inj) ->
  exists s', forward NM c s (cshape NM c) xs inj = SOk (s', SOFloat NM (cshape NM c) (cur_out c ((xs, inj) :: p)))
             /\ Inv c s' ((xs, inj) :: p).
Proof.
  intros I (Hx & Hi). cbn [fst snd] in *.
  assert (Hp' : Forall (entry_ok c) ((xs, inj) :: p)) by (constructor; [split; assumption|exact (inv_p _ _ _ I)]).
  assert (Hpc : peek_row NM (cur NM s) = cur_val c p).
  { rewrite (peek_row_at _ _ (inv_wc _ _ _ I)). apply (inv_hc _ _ _ I 0). destruct (inv_wc _ _ _ I) as ((Hn & _) & _). exact Hn. }
  assert (Hpn : peek_row NM (neg NM s) = neg_val c p).
  { rewrite (peek_row_at _ _ (inv_wn _ _ _ I)). apply (inv_hn _ _ _ I 0). destruct (inv_wn _ _ _ I) as ((Hn & _) & _). exact Hn. }
  destruct (rpush_ok c _ (spk NM s) (map (boolify NM) xs) _ (inv_ws _ _ _ I) (inv_hs _ _ _ I))
    as (spk' & Hps & Hws' & HNs' & Hhs'); [rewrite map_length; exact Hx|].
  assert (Hhs'' : hist_is spk' (spike_hist c ((xs, inj) :: p))).
  { eapply hist_is_ext; [|exact Hhs']. intros k. symmetry. apply spike_hist_cons. }
  unfold forward. rewrite Hps.
  pose proof (cur_val_length c _ Hp') as Hlc. pose proof (neg_val_length c _ Hp') as Hln.
  destruct (ckind NM c) eqn:Ek.
  - (* delta *)
    eexists. split.
    + rewrite (rshape_of_wfr _ _ Hws'). f_equal. f_equal. f_equal.
      apply (current_of_inv c (mkSyn NM spk' (cur NM s) (neg NM s)) ((xs, inj) :: p)).
      constructor; cbn [spk cur neg]; try (rewrite HNs'); try apply I; auto.
      * intros k Hk. rewrite (inv_hc _ _ _ I k Hk). unfold cur_hist. destruct k; cbn [skipn cur_val]; rewrite ?Ek; try reflexivity.
        destruct (skipn k p) as [|(a, b) l] eqn:E; cbn [cur_val]; rewrite ?Ek; try reflexivity.
        change (cur_val c (skipn k p) = zrow c). rewrite E. cbn [cur_val]. rewrite Ek. reflexivity.
      * intros k Hk. rewrite (inv_hn _ _ _ I k Hk). unfold neg_hist. destruct k; cbn [skipn neg_val]; rewrite ?Ek; try reflexivity.
        change (neg_val c (skipn k p) = zrow c). destruct (skipn k p) as [|(a, b) l]; cbn [neg_val]; rewrite ?Ek; reflexivity.
    + constructor; cbn [spk cur neg]; try (rewrite HNs'); try apply I; auto.
      * intros k Hk. rewrite (inv_hc _ _ _ I k Hk). unfold cur_hist. destruct k; cbn [skipn cur_val]; rewrite ?Ek; try reflexivity.
        change (cur_val c (skipn k p) = zrow c). destruct (skipn k p) as [|(a, b) l]; cbn [cur_val]; rewrite ?Ek; reflexivity.
      * intros k Hk. rewrite (inv_hn _ _ _ I k Hk). unfold neg_hist. destruct k; cbn [skipn neg_val]; rewrite ?Ek; try reflexivity.
        change (neg_val c (skipn k p) = zrow c). destruct (skipn k p) as [|(a, b) l]; cbn [neg_val]; rewrite ?Ek; reflexivity.
  - (* delta plus *)
    assert (Hlv : length (deltaplus_val NM c xs inj) = nel (cshape NM c)) by (cbn [cur_val] in Hlc; rewrite Ek in Hlc; exact Hlc).
    destruct (rpush_ok c _ (cur NM s) _ _ (inv_wc _ _ _ I) (inv_hc _ _ _ I) Hlv) as (cur' & Hpc' & Hwc' & HNc' & Hhc').
    rewrite Hpc'.
    assert (I' : Inv c (mkSyn NM spk' cur' (neg NM s)) ((xs, inj) :: p)).
    { constructor; cbn [spk cur neg]; try (rewrite HNs'); try (rewrite HNc'); try apply I; auto.
      - eapply hist_is_ext; [|exact Hhc']. intros [|k]; unfold cur_hist; cbn [shift_h skipn cur_val]; rewrite ?Ek; reflexivity.
      - intros k Hk. rewrite (inv_hn _ _ _ I k Hk). unfold neg_hist. destruct k; cbn [skipn neg_val]; rewrite ?Ek; try reflexivity.
        change (neg_val c (skipn k p) = zrow c). destruct (skipn k p) as [|(a, b) l]; cbn [neg_val]; rewrite ?Ek; reflexivity. }
    eexists. split; [|exact I'].
    rewrite (rshape_of_wfr _ _ Hwc'). f_equal. f_equal. f_equal. apply (current_of_inv _ _ _ I').
  - (* single exponential *)
    assert (Hlv : length (singleexp_val NM c (peek_row NM (cur NM s)) xs) = nel (cshape NM c))
      by (rewrite Hpc; cbn [cur_val] in Hlc; rewrite Ek in Hlc; exact Hlc).
    destruct (rpush_ok c _ (cur NM s) _ _ (inv_wc _ _ _ I) (inv_hc _ _ _ I) Hlv) as (cur' & Hpc' & Hwc' & HNc' & Hhc').
    rewrite Hpc'.
    assert (I' : Inv c (mkSyn NM spk' cur' (neg NM s)) ((xs, inj) :: p)).
    { constructor; cbn [spk cur neg]; try (rewrite HNs'); try (rewrite HNc'); try apply I; auto.
      - eapply hist_is_ext; [|exact Hhc']. intros [|k]; unfold cur_hist; cbn [shift_h skipn cur_val]; rewrite ?Ek, ?Hpc; reflexivity.
      - intros k Hk. rewrite (inv_hn _ _ _ I k Hk). unfold neg_hist. destruct k; cbn [skipn neg_val]; rewrite ?Ek; try reflexivity.
        change (neg_val c (skipn k p) = zrow c). destruct (skipn k p) as [|(a, b) l]; cbn [neg_val]; rewrite ?Ek; reflexivity. }
    eexists. split; [|exact I'].
    rewrite (rshape_of_wfr _ _ Hwc'). f_equal. f_equal. f_equal. apply (current_of_inv _ _ _ I').
  - (* double exponential *)
    assert (Hlv : length (doubleexp_pos NM c (peek_row NM (cur NM s)) xs) = nel (cshape NM c))
      by (rewrite Hpc; cbn [cur_val] in Hlc; rewrite Ek in Hlc; exact Hlc).
    assert (Hlw : length (doubleexp_neg NM c (peek_row NM (neg NM s)) xs) = nel (cshape NM c))
      by (rewrite Hpn; cbn [neg_val] in Hln; rewrite Ek in Hln; exact Hln).
    destruct (rpush_ok c _ (cur NM s) _ _ (inv_wc _ _ _ I) (inv_hc _ _ _ I) Hlv) as (cur' & Hpc' & Hwc' & HNc' & Hhc').
    destruct (rpush_ok c _ (neg NM s) _ _ (inv_wn _ _ _ I) (inv_hn _ _ _ I) Hlw) as (neg' & Hpn' & Hwn' & HNn' & Hhn').
    rewrite Hpc', Hpn'.
    assert (I' : Inv c (mkSyn NM spk' cur' neg') ((xs, inj) :: p)).
    { constructor; cbn [spk cur neg]; try (rewrite HNs'); try (rewrite HNc'); try (rewrite HNn'); try apply I; auto.
      - eapply hist_is_ext; [|exact Hhc']. intros [|k]; unfold cur_hist; cbn [shift_h skipn cur_val]; rewrite ?Ek, ?Hpc; reflexivity.
      - eapply hist_is_ext; [|exact Hhn']. intros [|k]; unfold neg_hist; cbn [shift_h skipn neg_val]; rewrite ?Ek, ?Hpn; reflexivity. }
    eexists. split; [|exact I'].
    rewrite (rshape_of_wfr _ _ Hwc'). f_equal. f_equal. f_equal. apply (current_of_inv _ _ _ I').
Qed.

(* an input of another shape raises before anything is written *)
Theorem forward_bad_shape c s p xsh xs inj : Inv c s p -> xsh <> cshape NM c ->
  forward NM c s xsh xs inj = SErr EValue.
Proof.
  intros I Hne. unfold forward. rewrite (rpush_bad_shape c _ xsh _ _ (inv_ws _ _ _ I) Hne). reflexivity.
Qed.

(* ------------------------------------------------------------------ clear *)
Theorem clear_inv c s p : Inv c s p -> Inv c (clear NM c s) [].
Proof.
  intros I.
  destruct (rreset_ok _ _ (inv_ws _ _ _ I)) as (Hws & HNs & Hhs).
  destruct (rreset_ok _ _ (inv_wc _ _ _ I)) as (Hwc & HNc & Hhc).
  destruct (rreset_ok _ _ (inv_wn _ _ _ I)) as (Hwn & HNn & Hhn).
  assert (Hz : forall k, cur_hist c p k = zrow c -> True) by auto.
  unfold clear. destruct (ckind NM c) eqn:Ek; constructor; cbn [spk cur neg];
    rewrite ?HNs, ?HNc, ?HNn; try apply I; auto;
    try (intros k Hk; rewrite ?Hhs, ?Hhc, ?Hhn by exact Hk; unfold spike_hist, cur_hist, neg_hist; destruct k; reflexivity).
  (* records a class does not reset: they are never written either, so they still hold the resting value *)
  - intros k Hk. rewrite (inv_hc _ _ _ I k Hk). unfold cur_hist.
    replace (skipn k []) with (@nil (list A * list (list A))) by (destruct k; reflexivity). cbn [cur_val].
    destruct (skipn k p) as [|(a, b) l]; cbn [cur_val]; rewrite ?Ek; reflexivity.
  - intros k Hk. rewrite (inv_hn _ _ _ I k Hk). unfold neg_hist.
    replace (skipn k []) with (@nil (list A * list (list A))) by (destruct k; reflexivity). cbn [neg_val].
    destruct (skipn k p) as [|(a, b) l]; cbn [neg_val]; rewrite ?Ek; reflexivity.
  - intros k Hk. rewrite (inv_hn _ _ _ I k Hk). unfold neg_hist.
    replace (skipn k []) with (@nil (list A * list (list A))) by (destruct k; reflexivity). cbn [neg_val].
    destruct (skipn k p) as [|(a, b) l]; cbn [neg_val]; rewrite ?Ek; reflexivity.
  - intros k Hk. rewrite (inv_hn _ _ _ I k Hk). unfold neg_hist.
    replace (skipn k []) with (@nil (list A * list (list A))) by (destruct k; reflexivity). cbn [neg_val].
    destruct (skipn k p) as [|(a, b) l]; cbn [neg_val]; rewrite ?Ek; reflexivity.
Qed.

(* ------------------------------------------------------------------ every operation, every run *)
Lemma lift_f_state s r s' out : lift_f NM s r = SOk (s', out) -> s' = s.
Proof. unfold lift_f. destruct r as [(sh, v)|e]; intros H; [injection H as <- _; reflexivity|discriminate]. Qed.
Lemma lift_b_state s r s' out : lift_b NM s r = SOk (s', out) -> s' = s.
Proof. unfold lift_b. destruct r as [(sh, v)|e]; intros H; [injection H as <- _; reflexivity|discriminate]. Qed.

Theorem sstep_inv c s p o : Inv c s p -> op_ok o ->
  match sstep NM c s o with
  | SOk (s', _) => Inv c s' (spec_step c p o)
  | SErr _ => spec_step c p o = p \/ (forall xsh xs inj, o <> OStep NM xsh xs inj) /\ o <> OClear NM
  end.
Proof.
  intros I Hok. destruct o as [xsh xs inj| | |ssh sel|ssh sel|ssh sel|ssh sel|]; cbn [sstep spec_step].
  - destruct (shape_eqb xsh (cshape NM c)) eqn:Es.
    + apply shape_eqb_eq in Es. subst xsh. destruct Hok as (Hx & Hi).
      destruct (forward_ok c s p xs inj I (conj Hx Hi)) as (s' & Hf & I'). rewrite Hf. exact I'.
    + assert (Hne : xsh <> cshape NM c) by (intros ->; rewrite shape_eqb_refl in Es; discriminate).
      rewrite (forward_bad_shape c s p xsh xs inj I Hne). left; reflexivity.
  - exact I.
  - exact I.
  - destruct (lift_f NM s _) as [(s', out)|e] eqn:E; [apply lift_f_state in E; subst; exact I|left; reflexivity].
  - destruct (lift_b NM s _) as [(s', out)|e] eqn:E; [apply lift_b_state in E; subst; exact I|left; reflexivity].
  - destruct (lift_f NM s _) as [(s', out)|e] eqn:E; [apply lift_f_state in E; subst; exact I|left; reflexivity].
  - destruct (lift_f NM s _) as [(s', out)|e] eqn:E; [apply lift_f_state in E; subst; exact I|left; reflexivity].
  - apply (clear_inv c s p I).
Qed.

(* an operation that raises changes neither the synapse nor the history *)
Lemma sstep_err_spec c s p o e : Inv c s p -> op_ok o -> sstep NM c s o = SErr e -> spec_step c p o = p.
Proof.
  intros I Hok He. destruct o as [xsh xs inj| | |ssh sel|ssh sel|ssh sel|ssh sel|]; cbn [sstep spec_step] in *; try reflexivity; try discriminate.
  destruct (shape_eqb xsh (cshape NM c)) eqn:Es; [|reflexivity].
  apply shape_eqb_eq in Es. subst xsh. destruct Hok as (Hx & Hi).
  destruct (forward_ok c s p xs inj I (conj Hx Hi)) as (s' & Hf & _). rewrite Hf in He. discriminate.
Qed.

(* the invariant holds after every sequence of operations: the records always hold exactly the past
   values determined by the inputs since the last clear *)
Theorem run_inv c : forall ops s p, Inv c s p -> Forall op_ok ops ->
  Inv c (fst (run NM c s ops)) (fold_left (spec_step c) ops p).
Proof.
  induction ops as [|o ops IH]; intros s p I Hok; cbn [run fold_left fst]; [exact I|].
  inversion Hok as [|? ? Ho Hops]; subst.
  pose proof (sstep_inv c s p o I Ho) as Hs.
  destruct (sstep NM c s o) as [(s', out)|e] eqn:E.
  - specialize (IH s' _ Hs Hops). destruct (run NM c s' ops) as [sf outs]. exact IH.
  - rewrite (sstep_err_spec c s p o e I Ho E).
    specialize (IH s p I Hops). destruct (run NM c s ops) as [sf outs]. exact IH.
Qed.

Corollary run_init_inv c ops : Forall op_ok ops ->
  Inv c (fst (run NM c (init NM c) ops)) (fold_left (spec_step c) ops []).
Proof. intros H. apply run_inv; [apply init_inv|exact H]. Qed.

(* ------------------------------------------------------------------ consequences stated without the invariant *)
(* the stored spike record equals the input spikes: k steps before the write position sits the
   (boolean) input received k steps ago, the resting value before the start / the last clear *)
Theorem spike_record_eq_input c ops k : Forall op_ok ops ->
  let s := fst (run NM c (init NM c) ops) in
  let p := fold_left (spec_step c) ops [] in
  k < N (spk NM s) ->
  at_ (spk NM s) (Z.of_nat k + 1) = match nth_error p k with Some (xs, _) => map (boolify NM) xs | None => zrow c end.
Proof. intros Hok s p Hk. exact (inv_hs _ _ _ (run_init_inv c ops Hok) k Hk). Qed.

(* the value recorded k steps ago is the value the synapse had after the inputs older than k steps *)
Theorem current_record_eq_past c ops k : Forall op_ok ops ->
  let s := fst (run NM c (init NM c) ops) in
  let p := fold_left (spec_step c) ops [] in
  k < N (spk NM s) ->
  at_ (cur NM s) (Z.of_nat k + 1) = cur_val c (skipn k p) /\
  at_ (neg NM s) (Z.of_nat k + 1) = neg_val c (skipn k p).
Proof.
  intros Hok s p Hk. pose proof (run_init_inv c ops Hok) as I. split.
  - apply (inv_hc _ _ _ I k). rewrite (inv_Nc _ _ _ I). exact Hk.
  - apply (inv_hn _ _ _ I k). rewrite (inv_Nn _ _ _ I). exact Hk.
Qed.

(* the record size never changes and is the one computed from (dt, delay, inclusive=True) *)
Lemma sstep_N c s o s' out : sstep NM c s o = SOk (s', out) -> Inv c s (@nil _) \/ True -> True.
Proof. auto. Qed.

End Hist.
