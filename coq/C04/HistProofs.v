(* C04, part 1 (no axioms, any numeric reading NM): the records of a synapse hold the list of past
   values.  [past] = the list of inputs since the last clear, newest first - the only thing the
   property talks about.  [Inv c s p]: the observation k steps before the write position of each
   record is the value the synapse had k steps ago (a function of p alone), the resting value
   before the start / the last clear.  The invariant is established by the constructor and
   preserved by every operation (forward, clear, every query, operations that raise), for every
   record size, pointer position, shape, batch size and both write modes.  *)
From Coq Require Import List ZArith Bool Arith Lia.
From Inferno Require Import Base.Num Gen.Infra C01.Ring C01.RingProofs C04.Synapse.
Import ListNotations.

Section Hist.
Variable NM : Num.
Notation A := (T NM).
Notation ring := (@ring A unit).
Notation cfg := (cfg NM).
Notation syn := (syn NM).
Notation sop := (sop NM).
Notation at_ := (@at_ A unit).
Notation wf := (@wf A unit).
Notation rows := (@rows A unit).

(* ------------------------------------------------------------------ small list facts *)
Lemma map_castU d (l : list A) : map (castU NM d) l = l.
Proof. induction l as [|x l IH]; cbn; [reflexivity|]. now rewrite IH. Qed.

Lemma zipw_length {X Y Z} (f : X -> Y -> Z) l1 l2 : length (zipw f l1 l2) = Nat.min (length l1) (length l2).
Proof. unfold zipw. now rewrite map_length, combine_length. Qed.

Lemma nth_zipw {X Y Z} (f : X -> Y -> Z) l1 l2 e dx dy dz :
  e < length l1 -> e < length l2 -> nth e (zipw f l1 l2) dz = f (nth e l1 dx) (nth e l2 dy).
Proof.
  revert l2 e. induction l1 as [|a l1 IH]; intros [|b l2] e H1 H2; cbn in *; try lia.
  destruct e as [|e]; [reflexivity|]. apply IH; lia.
Qed.

Lemma shape_eqb_eq a b : shape_eqb a b = true -> a = b.
Proof.
  unfold shape_eqb. intros H. apply andb_prop in H as (Hl & Hf). apply Nat.eqb_eq in Hl.
  revert b Hl Hf. induction a as [|x a IH]; intros [|y b] Hl Hf; cbn in *; try lia; [reflexivity|].
  apply andb_prop in Hf as (Hxy & Hf). apply Nat.eqb_eq in Hxy. subst. f_equal. apply IH; [lia|exact Hf].
Qed.
Lemma shape_eqb_neq a b : a <> b -> shape_eqb a b = false.
Proof. intros H. destruct (shape_eqb a b) eqn:E; [|reflexivity]. apply shape_eqb_eq in E. contradiction. Qed.

(* C01 lemmas, instantiated (their statements carry the C01 section parameters) *)
Lemma idx_lt' (r : ring) k : wf r -> idx r k < N r.
Proof. exact (idx_lt (castU NM) (zero NM) r k). Qed.
Lemma nth_map_seq' {X} (d : X) (f : nat -> X) n i : i < n -> nth i (map f (seq 0 n)) d = f i.
Proof. exact (nth_map_seq (castU NM) (zero NM) d f n i). Qed.

(* ------------------------------------------------------------------ one record *)
(* well formed, initialised with observation shape sh, every stored observation has nel sh elements *)
Definition wfr (sh : list nat) (r : ring) : Prop :=
  wf r /\ st r = SFull tt sh (rows r) /\ Forall (fun row => length row = nel sh) (rows r).

(* h k = the observation pushed k pushes ago *)
Definition hist_is (r : ring) (h : nat -> list A) : Prop :=
  forall k, k < N r -> at_ r (Z.of_nat k + 1) = h k.
Definition shift_h (o : list A) (h : nat -> list A) : nat -> list A :=
  fun k => match k with O => o | S k' => h k' end.

Lemma wfr_full sh r : wfr sh r -> full r.
Proof. intros (_ & H & _). unfold full. rewrite H. exact I. Qed.

Lemma peek_row_at sh r : wfr sh r -> peek_row NM r = at_ r 1.
Proof. intros (_ & H & _). unfold peek_row, RingProofs.at_. rewrite H. reflexivity. Qed.
Lemma rshape_of_wfr sh r : wfr sh r -> rshape_of NM r = sh.
Proof. intros (_ & H & _). unfold rshape_of. rewrite H. reflexivity. Qed.

Lemma at_length sh r k : wfr sh r -> length (at_ r k) = nel sh.
Proof.
  intros (Hwf & Hst & Hall). unfold RingProofs.at_. pose proof (idx_lt' r k Hwf) as Hi.
  destruct Hwf as (Hn & Hp & Hl). rewrite Hst in Hl.
  rewrite Forall_forall in Hall. apply Hall. apply nth_In. fold (rows r) in *. lia.
Qed.

(* push on a well-formed record: both write modes produce the same record, the newest observation is
   the pushed one, every older observation moves one step into the past *)
Lemma push_unfold sh (r : ring) (el : list A) ip : wfr sh r ->
  push (castU NM) (zero NM) r (mkObs tt sh el) ip =
  Ok (set_ptr (set_st r (SFull tt sh (upd (rows r) (idx r 0) el))) (unwind (ptr r) (- 1) (N r))) OUnit.
Proof.
  intros (Hwf & Hst & _). pose proof (idx_lt' r 0 Hwf) as Hi. destruct Hwf as (Hn & Hp & Hl).
  unfold push. rewrite Hst. unfold write. rewrite Hst. cbn [oshape oel]. rewrite shape_eqb_refl. cbn [negb].
  rewrite map_castU. rewrite Hst in Hl.
  rewrite (splice_eq_upd (castU NM) (zero NM) (rows r) (idx r 0) el) by lia.
  destruct ip; unfold incr; cbn [set_st st N ptr]; reflexivity.
Qed.

Lemma rpush_ok c sh (r : ring) (el : list A) h : wfr sh r -> hist_is r h -> length el = nel sh ->
  exists r', rpush NM c r sh el = SOk r' /\ wfr sh r' /\ N r' = N r /\ hist_is r' (shift_h el h).
Proof.
  intros Hw Hh Hlen. pose proof Hw as (Hwf & Hst & Hall).
  destruct (hist_push (castU NM) promU eqbU (zero NM) r (mkObs tt sh el) (cinplace NM c) Hwf (wfr_full _ _ Hw))
    as (d & sh' & Hst' & Hp).
  rewrite Hst in Hst'. injection Hst' as <- <-. cbn [oshape] in Hp.
  destruct (Hp (shape_eqb_refl sh)) as (r' & Hpush & Hwf' & HN' & Hst'' & Hhist). clear Hp.
  exists r'. unfold rpush. rewrite Hpush. split; [reflexivity|].
  assert (Hrows : rows r' = upd (rows r) (idx r 0) el).
  { rewrite (push_unfold sh r el (cinplace NM c) Hw) in Hpush. injection Hpush as <-. reflexivity. }
  split; [|split; [exact HN'|]].
  - split; [exact Hwf'|]. split; [exact Hst''|]. rewrite Hrows. apply Forall_upd; assumption.
  - intros k Hk. rewrite HN' in Hk. cbn [oel] in Hhist. rewrite map_castU in Hhist.
    assert (E : at_ r' (Z.of_nat k + 1) = nth k (hist r') []).
    { unfold hist. rewrite nth_map_seq' by lia. reflexivity. }
    rewrite E, Hhist. destruct k as [|k]; cbn [nth shift_h]; [reflexivity|].
    unfold hist. destruct (N r) as [|n] eqn:EN; [lia|]. rewrite removelast_map_seq.
    rewrite nth_map_seq' by lia. apply Hh. lia.
Qed.

Lemma rpush_bad_shape c sh sh' (r : ring) (el : list A) : wfr sh r -> sh' <> sh ->
  rpush NM c r sh' el = SErr EValue.
Proof.
  intros (_ & Hst & _) Hne. unfold rpush, push. rewrite Hst. unfold write. rewrite Hst. cbn [oshape].
  rewrite (shape_eqb_neq _ _ Hne). reflexivity.
Qed.

(* reset(fill): every observation becomes the fill value *)
Lemma rreset_ok sh (r : ring) : wfr sh r ->
  wfr sh (rreset NM r) /\ N (rreset NM r) = N r /\ hist_is (rreset NM r) (fun _ => repeat (zero NM) (nel sh)).
Proof.
  intros Hw. pose proof Hw as (Hwf & Hst & Hall).
  destruct (reset_fill_spec (castU NM) promU eqbU r (zero NM) Hwf (wfr_full _ _ Hw))
    as (r' & d & sh' & Hr & Hwf' & HN' & Hp' & Hst1 & Hst' & Hat).
  rewrite Hst in Hst1. injection Hst1 as <- <-.
  unfold rreset. rewrite Hr.
  assert (Hatz : forall k, at_ r' k = repeat (zero NM) (nel sh)).
  { intros k. rewrite Hat. rewrite <- (at_length sh r (k + Z.of_nat (ptr r)) Hw).
    generalize (at_ r (k + Z.of_nat (ptr r))). intros l. induction l as [|x l IH]; cbn; [reflexivity|]. now rewrite IH. }
  split; [|split; [exact HN'|intros k _; apply Hatz]].
  split; [exact Hwf'|]. split; [exact Hst'|].
  apply Forall_forall. intros row Hin. apply In_nth with (d := []) in Hin as (i & Hi & <-).
  (* every stored row is some at_ *)
  destruct Hwf' as (Hn' & Hpp' & Hl'). rewrite Hst' in Hl'.
  assert (Hex : exists k, idx r' k = i).
  { exists (Z.of_nat (ptr r') - Z.of_nat i)%Z. unfold idx, unwind, _unwind_ptr.
    replace (Z.of_nat (ptr r') - (Z.of_nat (ptr r') - Z.of_nat i))%Z with (Z.of_nat i) by lia.
    rewrite Z.mod_small by lia. lia. }
  destruct Hex as (k & <-). change (nth (idx r' k) (rows r') []) with (at_ r' k).
  rewrite Hatz. apply repeat_length.
Qed.

(* ------------------------------------------------------------------ the property's own state: past inputs *)
(* newest first; per forward call: the values of inputs[0] and the injected tensors inputs[1:] *)
Definition past := list (list A * list (list A)).

Definition zrow (c : cfg) : list A := repeat (zero NM) (nel (cshape NM c)).

(* the spikes received k steps ago *)
Definition spike_hist (c : cfg) (p : past) (k : nat) : list A :=
  match nth_error p k with Some (xs, _) => map (boolify NM) xs | None => zrow c end.

(* newest value of current_ (pos_current_ for the double exponential) after the inputs p *)
Fixpoint cur_val (c : cfg) (p : past) : list A :=
  match p with
  | [] => zrow c
  | (xs, inj) :: older =>
      match ckind NM c with
      | KDelta => zrow c                                   (* no current record: carried along untouched *)
      | KDeltaPlus => deltaplus_val NM c xs inj
      | KSingleExp => singleexp_val NM c (cur_val c older) xs
      | KDoubleExp => doubleexp_pos NM c (cur_val c older) xs
      end
  end.
Fixpoint neg_val (c : cfg) (p : past) : list A :=
  match p with
  | [] => zrow c
  | (xs, inj) :: older =>
      match ckind NM c with
      | KDoubleExp => doubleexp_neg NM c (neg_val c older) xs
      | _ => zrow c
      end
  end.
Definition cur_hist (c : cfg) (p : past) (k : nat) : list A := cur_val c (skipn k p).
Definition neg_hist (c : cfg) (p : past) (k : nat) : list A := neg_val c (skipn k p).

(* the synapse's current after the inputs p *)
Definition cur_out (c : cfg) (p : past) : list A :=
  match ckind NM c with
  | KDelta => map (delta_to_current NM c) (spike_hist c p 0)
  | KDeltaPlus | KSingleExp => cur_val c p
  | KDoubleExp => zipw (sub NM) (cur_val c p) (neg_val c p)
  end.

(* tensors are flat lists with as many elements as their shape says *)
Definition entry_ok (c : cfg) (x : list A * list (list A)) : Prop :=
  length (fst x) = nel (cshape NM c) /\ Forall (fun i => length i = nel (cshape NM c)) (snd x).
Definition op_ok (o : sop) : Prop :=
  match o with
  | OStep _ xsh xs inj => length xs = nel xsh /\ Forall (fun i => length i = nel xsh) inj
  | _ => True
  end.

Definition spec_step (c : cfg) (p : past) (o : sop) : past :=
  match o with
  | OStep _ xsh xs inj => if shape_eqb xsh (cshape NM c) then (xs, inj) :: p else p
  | OClear _ => []
  | _ => p
  end.

Record Inv (c : cfg) (s : syn) (p : past) : Prop := mkInv {
  inv_N : N (spk NM s) = recordsz NM (cdt NM c) (cdelay NM c);
  inv_Nc : N (cur NM s) = N (spk NM s);
  inv_Nn : N (neg NM s) = N (spk NM s);
  inv_ws : wfr (cshape NM c) (spk NM s);
  inv_wc : wfr (cshape NM c) (cur NM s);
  inv_wn : wfr (cshape NM c) (neg NM s);
  inv_hs : hist_is (spk NM s) (spike_hist c p);
  inv_hc : hist_is (cur NM s) (cur_hist c p);
  inv_hn : hist_is (neg NM s) (neg_hist c p);
  inv_p : Forall (entry_ok c) p }.

Lemma zrow_length c : length (zrow c) = nel (cshape NM c).
Proof. apply repeat_length. Qed.

Lemma fold_zipw_length (f : A -> A -> A) n inj : Forall (fun i => length i = n) inj ->
  forall acc, length acc = n -> length (fold_left (zipw f) inj acc) = n.
Proof.
  induction 1 as [|i inj Hi _ IH]; intros acc Hacc; cbn [fold_left]; [exact Hacc|].
  apply IH. rewrite zipw_length. lia.
Qed.

Lemma cur_val_length c p : Forall (entry_ok c) p -> length (cur_val c p) = nel (cshape NM c).
Proof.
  induction 1 as [|(xs, inj) p (Hx & Hi) _ IH]; cbn [cur_val]; [apply zrow_length|].
  cbn [fst snd] in *. destruct (ckind NM c).
  - apply zrow_length.
  - unfold deltaplus_val. apply fold_zipw_length; [exact Hi|]. rewrite map_length. exact Hx.
  - unfold singleexp_val. rewrite zipw_length. lia.
  - unfold doubleexp_pos. rewrite zipw_length. lia.
Qed.
Lemma neg_val_length c p : Forall (entry_ok c) p -> length (neg_val c p) = nel (cshape NM c).
Proof.
  induction 1 as [|(xs, inj) p (Hx & Hi) _ IH]; cbn [neg_val]; [apply zrow_length|].
  cbn [fst snd] in *. destruct (ckind NM c); try apply zrow_length.
  unfold doubleexp_neg. rewrite zipw_length. lia.
Qed.

(* ------------------------------------------------------------------ the constructor establishes the invariant *)
Lemma recordsz_pos dt delay : 0 < recordsz NM dt delay.
Proof. unfold recordsz, recordsz_expr. lia. Qed.

Lemma fresh_wfr n sh : 0 < n -> wfr sh (fresh NM n sh) /\ hist_is (fresh NM n sh) (fun _ => repeat (zero NM) (nel sh)).
Proof.
  intros Hn. assert (Hw : wfr sh (fresh NM n sh)).
  { unfold wfr, fresh, RingProofs.wf, RingProofs.rows; cbn [N ptr st]. rewrite repeat_length.
    repeat split; auto. apply Forall_forall. intros x Hx. apply repeat_spec in Hx. subst. apply repeat_length. }
  split; [exact Hw|]. intros k Hk. unfold RingProofs.at_, RingProofs.rows, fresh; cbn [st].
  pose proof (idx_lt' (fresh NM n sh) (Z.of_nat k + 1) (proj1 Hw)) as Hi. cbn [fresh N] in Hi.
  unfold fresh in Hi |- *.
  rewrite (nth_indep _ [] (repeat (zero NM) (nel sh))) by (rewrite repeat_length; exact Hi).
  apply nth_repeat.
Qed.

Theorem init_inv c : Inv c (init NM c) [].
Proof.
  unfold init. set (n := recordsz NM (cdt NM c) (cdelay NM c)).
  destruct (fresh_wfr n (cshape NM c) (recordsz_pos _ _)) as (Hw & Hh).
  constructor; cbn [spk cur neg]; auto.
  - intros k Hk. rewrite Hh by exact Hk. unfold spike_hist. destruct k; reflexivity.
  - intros k Hk. rewrite Hh by exact Hk. unfold cur_hist. destruct k; reflexivity.
  - intros k Hk. rewrite Hh by exact Hk. unfold neg_hist. destruct k; reflexivity.
Qed.

(* ------------------------------------------------------------------ forward *)
Lemma spike_hist_cons c x p : forall k, spike_hist c (x :: p) k = shift_h (map (boolify NM) (fst x)) (spike_hist c p) k.
Proof. intros [|k]; unfold spike_hist; destruct x; reflexivity. Qed.

Lemma hist_is_ext r h h' : (forall k, h k = h' k) -> hist_is r h -> hist_is r h'.
Proof. intros E H k Hk. rewrite <- E. apply H; exact Hk. Qed.

Lemma current_of_inv c s p : Inv c s p -> current_of NM c s = cur_out c p.
Proof.
  intros I. unfold current_of, cur_out.
  pose proof (recordsz_pos (cdt NM c) (cdelay NM c)) as _.
  assert (Hs : peek_row NM (spk NM s) = spike_hist c p 0).
  { rewrite (peek_row_at _ _ (inv_ws _ _ _ I)). apply (inv_hs _ _ _ I 0). destruct (inv_ws _ _ _ I) as ((Hn & _) & _). exact Hn. }
  assert (Hc : peek_row NM (cur NM s) = cur_val c p).
  { rewrite (peek_row_at _ _ (inv_wc _ _ _ I)). apply (inv_hc _ _ _ I 0). destruct (inv_wc _ _ _ I) as ((Hn & _) & _). exact Hn. }
  assert (Hn : peek_row NM (neg NM s) = neg_val c p).
  { rewrite (peek_row_at _ _ (inv_wn _ _ _ I)). apply (inv_hn _ _ _ I 0). destruct (inv_wn _ _ _ I) as ((Hn & _) & _). exact Hn. }
  destruct (ckind NM c); congruence.
Qed.

(* records a class does not have are never written: they keep the resting value *)
Lemma cur_val_delta c p : ckind NM c = KDelta -> cur_val c p = zrow c.
Proof. intros E. destruct p as [|(a, b) l]; cbn [cur_val]; rewrite ?E; reflexivity. Qed.
Lemma neg_val_other c p : ckind NM c <> KDoubleExp -> neg_val c p = zrow c.
Proof. intros E. destruct p as [|(a, b) l]; cbn [neg_val]; [reflexivity|]. destruct (ckind NM c); try reflexivity. contradiction. Qed.
Lemma cur_hist_delta r c p p' : ckind NM c = KDelta -> hist_is r (cur_hist c p) -> hist_is r (cur_hist c p').
Proof. intros E H k Hk. rewrite (H k Hk). unfold cur_hist. now rewrite !cur_val_delta. Qed.
Lemma neg_hist_other r c p p' : ckind NM c <> KDoubleExp -> hist_is r (neg_hist c p) -> hist_is r (neg_hist c p').
Proof. intros E H k Hk. rewrite (H k Hk). unfold neg_hist. now rewrite !neg_val_other. Qed.

Lemma peek_cur c s p : Inv c s p -> peek_row NM (cur NM s) = cur_val c p.
Proof.
  intros I. rewrite (peek_row_at _ _ (inv_wc _ _ _ I)). apply (inv_hc _ _ _ I 0).
  destruct (inv_wc _ _ _ I) as ((Hn & _) & _). exact Hn.
Qed.
Lemma peek_neg c s p : Inv c s p -> peek_row NM (neg NM s) = neg_val c p.
Proof.
  intros I. rewrite (peek_row_at _ _ (inv_wn _ _ _ I)). apply (inv_hn _ _ _ I 0).
  destruct (inv_wn _ _ _ I) as ((Hn & _) & _). exact Hn.
Qed.

(* a forward call with an input of the record's shape succeeds, returns the current determined by the
   inputs so far, and extends the history of every record by one step *)
Theorem forward_ok c s p xs inj : Inv c s p -> entry_ok c (xs, inj) ->
  exists s', forward NM c s (cshape NM c) xs inj = SOk (s', SOFloat NM (cshape NM c) (cur_out c ((xs, inj) :: p)))
             /\ Inv c s' ((xs, inj) :: p).
Proof.
  intros I (Hx & Hi). cbn [fst snd] in *.
  assert (Hp' : Forall (entry_ok c) ((xs, inj) :: p)) by (constructor; [split; assumption|exact (inv_p _ _ _ I)]).
  pose proof (peek_cur c s p I) as Hpc. pose proof (peek_neg c s p I) as Hpn.
  destruct (rpush_ok c _ (spk NM s) (map (boolify NM) xs) _ (inv_ws _ _ _ I) (inv_hs _ _ _ I))
    as (spk' & Hps & Hws' & HNs' & Hhs'); [rewrite map_length; exact Hx|].
  assert (Hhs'' : hist_is spk' (spike_hist c ((xs, inj) :: p))).
  { eapply hist_is_ext; [|exact Hhs']. intros k. symmetry. apply spike_hist_cons. }
  unfold forward. rewrite Hps.
  pose proof (cur_val_length c _ Hp') as Hlc. pose proof (neg_val_length c _ Hp') as Hln.
  destruct (ckind NM c) eqn:Ek.
  - (* delta *)
    assert (I' : Inv c (mkSyn NM spk' (cur NM s) (neg NM s)) ((xs, inj) :: p)).
    { constructor; cbn [spk cur neg]; try (rewrite HNs'); try apply I; auto.
      - apply (cur_hist_delta _ c p); [exact Ek|apply I].
      - apply (neg_hist_other _ c p); [rewrite Ek; discriminate|apply I]. }
    eexists. split; [|exact I'].
    rewrite (rshape_of_wfr _ _ Hws'). f_equal. f_equal. f_equal.
    rewrite (current_of_inv _ _ _ I'). unfold cur_out. rewrite Ek. reflexivity.
  - (* delta plus *)
    assert (Hlv : length (deltaplus_val NM c xs inj) = nel (cshape NM c)) by (cbn [cur_val] in Hlc; rewrite Ek in Hlc; exact Hlc).
    destruct (rpush_ok c _ (cur NM s) _ _ (inv_wc _ _ _ I) (inv_hc _ _ _ I) Hlv) as (cur' & Hpc' & Hwc' & HNc' & Hhc').
    rewrite Hpc'.
    assert (I' : Inv c (mkSyn NM spk' cur' (neg NM s)) ((xs, inj) :: p)).
    { constructor; cbn [spk cur neg]; try (rewrite HNs'); try (rewrite HNc'); try apply I; auto.
      - eapply hist_is_ext; [|exact Hhc']. intros [|k]; unfold cur_hist; cbn [shift_h skipn cur_val]; rewrite ?Ek; reflexivity.
      - apply (neg_hist_other _ c p); [rewrite Ek; discriminate|apply I]. }
    eexists. split; [|exact I'].
    rewrite (rshape_of_wfr _ _ Hwc'). f_equal. f_equal. f_equal.
    rewrite (current_of_inv _ _ _ I'). unfold cur_out. rewrite Ek. reflexivity.
  - (* single exponential *)
    assert (Hlv : length (singleexp_val NM c (peek_row NM (cur NM s)) xs) = nel (cshape NM c))
      by (rewrite Hpc; cbn [cur_val] in Hlc; rewrite Ek in Hlc; exact Hlc).
    destruct (rpush_ok c _ (cur NM s) _ _ (inv_wc _ _ _ I) (inv_hc _ _ _ I) Hlv) as (cur' & Hpc' & Hwc' & HNc' & Hhc').
    rewrite Hpc'.
    assert (I' : Inv c (mkSyn NM spk' cur' (neg NM s)) ((xs, inj) :: p)).
    { constructor; cbn [spk cur neg]; try (rewrite HNs'); try (rewrite HNc'); try apply I; auto.
      - eapply hist_is_ext; [|exact Hhc']. intros [|k]; unfold cur_hist; cbn [shift_h skipn cur_val]; rewrite ?Ek, ?Hpc; reflexivity.
      - apply (neg_hist_other _ c p); [rewrite Ek; discriminate|apply I]. }
    eexists. split; [|exact I'].
    rewrite (rshape_of_wfr _ _ Hwc'). f_equal. f_equal. f_equal.
    rewrite (current_of_inv _ _ _ I'). unfold cur_out. rewrite Ek. reflexivity.
  - (* double exponential *)
    assert (Hlv : length (doubleexp_pos NM c (peek_row NM (cur NM s)) xs) = nel (cshape NM c))
      by (rewrite Hpc; cbn [cur_val] in Hlc; rewrite Ek in Hlc; exact Hlc).
    assert (Hlw : length (doubleexp_neg NM c (peek_row NM (neg NM s)) xs) = nel (cshape NM c))
      by (rewrite Hpn; cbn [neg_val] in Hln; rewrite Ek in Hln; exact Hln).
    destruct (rpush_ok c _ (cur NM s) _ _ (inv_wc _ _ _ I) (inv_hc _ _ _ I) Hlv) as (cur' & Hpc' & Hwc' & HNc' & Hhc').
    destruct (rpush_ok c _ (neg NM s) _ _ (inv_wn _ _ _ I) (inv_hn _ _ _ I) Hlw) as (neg' & Hpn' & Hwn' & HNn' & Hhn').
    rewrite Hpc', Hpn'.
    assert (I' : Inv c (mkSyn NM spk' cur' neg') ((xs, inj) :: p)).
    { constructor; cbn [spk cur neg]; try (rewrite HNs'); try (rewrite HNc'); try (rewrite HNn'); try apply I; auto.
      - eapply hist_is_ext; [|exact Hhc']. intros [|k]; unfold cur_hist; cbn [shift_h skipn cur_val]; rewrite ?Ek, ?Hpc; reflexivity.
      - eapply hist_is_ext; [|exact Hhn']. intros [|k]; unfold neg_hist; cbn [shift_h skipn neg_val]; rewrite ?Ek, ?Hpn; reflexivity. }
    eexists. split; [|exact I'].
    rewrite (rshape_of_wfr _ _ Hwc'). f_equal. f_equal. f_equal.
    rewrite (current_of_inv _ _ _ I'). unfold cur_out. rewrite Ek. reflexivity.
Qed.

(* an input of another shape raises before anything is written *)
Theorem forward_bad_shape c s p xsh xs inj : Inv c s p -> xsh <> cshape NM c ->
  forward NM c s xsh xs inj = SErr EValue.
Proof.
  intros I Hne. unfold forward. rewrite (rpush_bad_shape c _ xsh _ _ (inv_ws _ _ _ I) Hne). reflexivity.
Qed.

(* ------------------------------------------------------------------ clear *)
Lemma hist_nil_cur c k : cur_hist c [] k = zrow c.
Proof. unfold cur_hist. destruct k; reflexivity. Qed.
Lemma hist_nil_neg c k : neg_hist c [] k = zrow c.
Proof. unfold neg_hist. destruct k; reflexivity. Qed.
Lemma hist_nil_spk c k : spike_hist c [] k = zrow c.
Proof. unfold spike_hist. destruct k; reflexivity. Qed.

Theorem clear_inv c s p : Inv c s p -> Inv c (clear NM c s) [].
Proof.
  intros I.
  destruct (rreset_ok _ _ (inv_ws _ _ _ I)) as (Hws & HNs & Hhs).
  destruct (rreset_ok _ _ (inv_wc _ _ _ I)) as (Hwc & HNc & Hhc).
  destruct (rreset_ok _ _ (inv_wn _ _ _ I)) as (Hwn & HNn & Hhn).
  assert (Zs : hist_is (rreset NM (spk NM s)) (spike_hist c [])).
  { intros k Hk. rewrite Hhs by exact Hk. symmetry. apply hist_nil_spk. }
  assert (Zc : hist_is (rreset NM (cur NM s)) (cur_hist c [])).
  { intros k Hk. rewrite Hhc by exact Hk. symmetry. apply hist_nil_cur. }
  assert (Zn : hist_is (rreset NM (neg NM s)) (neg_hist c [])).
  { intros k Hk. rewrite Hhn by exact Hk. symmetry. apply hist_nil_neg. }
  unfold clear. destruct (ckind NM c) eqn:Ek; constructor; cbn [spk cur neg];
    rewrite ?HNs, ?HNc, ?HNn; try apply I; auto.
  (* records a class does not reset are never written either: they still hold the resting value *)
  - apply (cur_hist_delta _ c p); [exact Ek|apply I].
  - apply (neg_hist_other _ c p); [rewrite Ek; discriminate|apply I].
  - apply (neg_hist_other _ c p); [rewrite Ek; discriminate|apply I].
  - apply (neg_hist_other _ c p); [rewrite Ek; discriminate|apply I].
Qed.

(* ------------------------------------------------------------------ every operation, every run *)
Lemma lift_f_state s r s' out : lift_f NM s r = SOk (s', out) -> s' = s.
Proof. unfold lift_f. destruct r as [(sh, v)|e]; intros H; [injection H as <- _; reflexivity|discriminate]. Qed.
Lemma lift_b_state s r s' out : lift_b NM s r = SOk (s', out) -> s' = s.
Proof. unfold lift_b. destruct r as [(sh, v)|e]; intros H; [injection H as <- _; reflexivity|discriminate]. Qed.

Theorem sstep_inv c s p o : Inv c s p -> op_ok o ->
  match sstep NM c s o with
  | SOk (s', _) => Inv c s' (spec_step c p o)
  | SErr _ => True
  end.
Proof.
  intros I Hok. destruct o as [xsh xs inj| | |ssh sel|ssh sel|ssh sel|ssh sel|]; cbn [sstep spec_step].
  - destruct (shape_eqb xsh (cshape NM c)) eqn:Es.
    + apply shape_eqb_eq in Es. subst xsh. destruct Hok as (Hx & Hi).
      destruct (forward_ok c s p xs inj I (conj Hx Hi)) as (s' & Hf & I'). rewrite Hf. exact I'.
    + assert (Hne : xsh <> cshape NM c) by (intros ->; rewrite shape_eqb_refl in Es; discriminate).
      rewrite (forward_bad_shape c s p xsh xs inj I Hne). exact Logic.I.
  - exact I.
  - exact I.
  - destruct (lift_f NM s _) as [(s', out)|e] eqn:E; [apply lift_f_state in E; subst; exact I|exact Logic.I].
  - destruct (lift_b NM s _) as [(s', out)|e] eqn:E; [apply lift_b_state in E; subst; exact I|exact Logic.I].
  - destruct (lift_f NM s _) as [(s', out)|e] eqn:E; [apply lift_f_state in E; subst; exact I|exact Logic.I].
  - destruct (lift_f NM s _) as [(s', out)|e] eqn:E; [apply lift_f_state in E; subst; exact I|exact Logic.I].
  - apply (clear_inv c s p I).
Qed.

(* what the state-reading operations return, in terms of the inputs so far *)
Theorem sstep_output c s p o : Inv c s p -> op_ok o ->
  match o with
  | OStep _ xsh xs inj =>
      xsh = cshape NM c ->
      exists s', sstep NM c s o = SOk (s', SOFloat NM (cshape NM c) (cur_out c ((xs, inj) :: p)))
  | OCurrent _ => sstep NM c s o = SOk (s, SOFloat NM (cshape NM c) (cur_out c p))
  | OSpike _ => sstep NM c s o = SOk (s, SOBool NM (cshape NM c) (spike_hist c p 0))
  | OClear _ => sstep NM c s o = SOk (clear NM c s, SOUnit NM)
  | _ => True
  end.
Proof.
  intros I Hok. destruct o as [xsh xs inj| | |ssh sel|ssh sel|ssh sel|ssh sel|]; cbn [sstep]; auto.
  - intros ->. destruct Hok as (Hx & Hi). destruct (forward_ok c s p xs inj I (conj Hx Hi)) as (s' & Hf & _).
    exists s'. exact Hf.
  - rewrite (current_of_inv c s p I), (rshape_of_wfr _ _ (inv_ws _ _ _ I)), (rshape_of_wfr _ _ (inv_wc _ _ _ I)).
    destruct (ckind NM c); reflexivity.
  - rewrite (rshape_of_wfr _ _ (inv_ws _ _ _ I)), (peek_row_at _ _ (inv_ws _ _ _ I)).
    assert (E : at_ (spk NM s) 1 = spike_hist c p 0).
    { apply (inv_hs _ _ _ I 0). destruct (inv_ws _ _ _ I) as ((Hn & _) & _). exact Hn. }
    rewrite E. reflexivity.
Qed.

(* an operation that raises changes neither the synapse nor the history *)
Lemma sstep_err_spec c s p o e : Inv c s p -> op_ok o -> sstep NM c s o = SErr e -> spec_step c p o = p.
Proof.
  intros I Hok He. destruct o as [xsh xs inj| | |ssh sel|ssh sel|ssh sel|ssh sel|]; cbn [sstep spec_step] in *; try reflexivity; try discriminate.
  destruct (shape_eqb xsh (cshape NM c)) eqn:Es; [|reflexivity].
  apply shape_eqb_eq in Es. subst xsh. destruct Hok as (Hx & Hi).
  destruct (forward_ok c s p xs inj I (conj Hx Hi)) as (s' & Hf & _). rewrite Hf in He. discriminate.
Qed.

(* the invariant holds after every sequence of operations: the records always hold exactly the past
   values determined by the inputs since the last clear *)
Theorem run_inv c : forall ops s p, Inv c s p -> Forall op_ok ops ->
  Inv c (fst (run NM c s ops)) (fold_left (spec_step c) ops p).
Proof.
  induction ops as [|o ops IH]; intros s p I Hok; cbn [run fold_left fst]; [exact I|].
  inversion Hok as [|? ? Ho Hops]; subst.
  pose proof (sstep_inv c s p o I Ho) as Hs.
  destruct (sstep NM c s o) as [(s', out)|e] eqn:E.
  - specialize (IH s' _ Hs Hops). destruct (run NM c s' ops) as [sf outs]. exact IH.
  - rewrite (sstep_err_spec c s p o e I Ho E).
    specialize (IH s p I Hops). destruct (run NM c s ops) as [sf outs]. exact IH.
Qed.

Corollary run_init_inv c ops : Forall op_ok ops ->
  Inv c (fst (run NM c (init NM c) ops)) (fold_left (spec_step c) ops []).
Proof. intros H. apply run_inv; [apply init_inv|exact H]. Qed.

(* ------------------------------------------------------------------ in-place = out-of-place *)
Definition with_inplace (c : cfg) (b : bool) : cfg :=
  mkCfg NM (ckind NM c) (cshape NM c) (cdt NM c) (cdelay NM c) (cQ NM c) (ctau NM c) (ctr NM c)
        (cmode NM c) (ctol NM c) (ccur_ob NM c) (cspk_ob NM c) b.

Lemma rpush_inplace_irrel c b1 b2 sh (r : ring) sh' el : wfr sh r ->
  rpush NM (with_inplace c b1) r sh' el = rpush NM (with_inplace c b2) r sh' el.
Proof.
  intros Hw. destruct (list_eq_dec Nat.eq_dec sh' sh) as [->|Hne].
  - unfold rpush. cbn [with_inplace cinplace]. rewrite !(push_unfold sh r el _ Hw). reflexivity.
  - rewrite !(rpush_bad_shape _ sh sh' r el Hw Hne). reflexivity.
Qed.

Lemma sstep_inplace_irrel c b1 b2 s p o : Inv (with_inplace c b1) s p ->
  sstep NM (with_inplace c b1) s o = sstep NM (with_inplace c b2) s o.
Proof.
  intros I. destruct o as [xsh xs inj| | |ssh sel|ssh sel|ssh sel|ssh sel|]; cbn [sstep]; try reflexivity.
  unfold forward.
  rewrite (rpush_inplace_irrel c b1 b2 _ (spk NM s) xsh _ (inv_ws _ _ _ I)).
  destruct (rpush NM (with_inplace c b2) (spk NM s) xsh (map (boolify NM) xs)) as [spk'|e]; [|reflexivity].
  cbn [with_inplace ckind].
  destruct (ckind NM c); try reflexivity.
  - change (deltaplus_val NM (with_inplace c b1) xs inj) with (deltaplus_val NM (with_inplace c b2) xs inj).
    rewrite (rpush_inplace_irrel c b1 b2 _ (cur NM s) xsh _ (inv_wc _ _ _ I)). reflexivity.
  - change (singleexp_val NM (with_inplace c b1)) with (singleexp_val NM (with_inplace c b2)).
    rewrite (rpush_inplace_irrel c b1 b2 _ (cur NM s) xsh _ (inv_wc _ _ _ I)). reflexivity.
  - change (doubleexp_pos NM (with_inplace c b1)) with (doubleexp_pos NM (with_inplace c b2)).
    change (doubleexp_neg NM (with_inplace c b1)) with (doubleexp_neg NM (with_inplace c b2)).
    rewrite (rpush_inplace_irrel c b1 b2 _ (cur NM s) xsh _ (inv_wc _ _ _ I)).
    rewrite (rpush_inplace_irrel c b1 b2 _ (neg NM s) xsh _ (inv_wn _ _ _ I)). reflexivity.
Qed.

(* in-place and out-of-place modes produce identical results: every output, every record, the pointer,
   after every sequence of operations *)
Theorem inplace_eq_outofplace c b1 b2 : forall ops s p, Inv (with_inplace c b1) s p -> Forall op_ok ops ->
  run NM (with_inplace c b1) s ops = run NM (with_inplace c b2) s ops.
Proof.
  induction ops as [|o ops IH]; intros s p I Hok; cbn [run]; [reflexivity|].
  inversion Hok as [|? ? Ho Hops]; subst.
  rewrite <- (sstep_inplace_irrel c b1 b2 s p o I).
  pose proof (sstep_inv _ s p o I Ho) as Hs.
  destruct (sstep NM (with_inplace c b1) s o) as [(s', out)|e] eqn:E.
  - rewrite (IH s' _ Hs Hops). reflexivity.
  - rewrite (IH s p I Hops). reflexivity.
Qed.

Corollary inplace_eq_outofplace_init c ops : Forall op_ok ops ->
  run NM (with_inplace c true) (init NM (with_inplace c true)) ops =
  run NM (with_inplace c false) (init NM (with_inplace c false)) ops.
Proof.
  intros Hok. change (init NM (with_inplace c false)) with (init NM (with_inplace c true)).
  apply (inplace_eq_outofplace c true false ops _ [] (init_inv _) Hok).
Qed.

(* ------------------------------------------------------------------ consequences stated without the invariant *)
(* the stored spike record equals the input spikes: k steps before the write position sits the
   (boolean) input received k steps ago, the resting value before the start / the last clear *)
Theorem spike_record_eq_input c ops k : Forall op_ok ops ->
  let s := fst (run NM c (init NM c) ops) in
  let p := fold_left (spec_step c) ops [] in
  k < N (spk NM s) ->
  at_ (spk NM s) (Z.of_nat k + 1) = match nth_error p k with Some (xs, _) => map (boolify NM) xs | None => zrow c end.
Proof. intros Hok s p Hk. exact (inv_hs _ _ _ (run_init_inv c ops Hok) k Hk). Qed.

(* the value recorded k steps ago is the value the synapse had after the inputs older than k steps *)
Theorem current_record_eq_past c ops k : Forall op_ok ops ->
  let s := fst (run NM c (init NM c) ops) in
  let p := fold_left (spec_step c) ops [] in
  k < N (spk NM s) ->
  at_ (cur NM s) (Z.of_nat k + 1) = cur_val c (skipn k p) /\
  at_ (neg NM s) (Z.of_nat k + 1) = neg_val c (skipn k p).
Proof.
  intros Hok s p Hk. pose proof (run_init_inv c ops Hok) as I. split.
  - apply (inv_hc _ _ _ I k). rewrite (inv_Nc _ _ _ I). exact Hk.
  - apply (inv_hn _ _ _ I k). rewrite (inv_Nn _ _ _ I). exact Hk.
Qed.

End Hist.
