(* C04, part 4 (reals): the flagship statements, for the synapse reached by ANY sequence of operations
   from the constructor (forward steps with arbitrary inputs, clears, queries, raising operations).
   p = the inputs since the last clear, newest first (HistProofs.spec_step folds the operations).

   value_ago c p k e  = the current synapse e had k steps ago = cur_out of the history without its k newest
   inputs; HistProofs.forward_ok shows it is what forward returned at that step, ClosedForms shows it is the
   impulse-response sum over the inputs older than k steps.

   current_at / spike_at (delayed record):  result has the selector's shape; every entry is
   read_one (...) of its own selector value (SelectProofs.overbound_spec: inside [-tol, delay+tol] the value
   selected at the clamped time, outside the configured value / the value at the limit), and the value
   selected at a time b in [0, delay] is
     - exactly value_ago k       when b is within tol of k*dt                         (read_at_delay)
     - the class's interpolation rule between value_ago ceil(b/dt) and value_ago floor(b/dt) otherwise
       (previous / nearest for the delta classes, exponential decay from the older sample for the
       exponential classes - which is the exact continuous-time impulse-response sum).              *)
From Coq Require Import List ZArith Bool Arith Lia Reals Lra.
From Flocq Require Import Core.Raux Core.Generic_fmt.
From Inferno Require Import Base.Num Base.NumR Gen.Infra Gen.Interpolation C01.Ring C01.RingProofs
  C04.Synapse C04.HistProofs C04.ClosedForms C04.SelectProofs.
Import ListNotations.
Open Scope R_scope.

Notation synR := (syn RN).
(* list (T RN) and list R are the same type: make it syntactically so before arithmetic *)
Ltac zl := change (T RN) with R in *; lia.

(* constructor preconditions (argtest in the constructors) and the proviso tol < dt/2 under which "within
   tolerance of a step" is unambiguous *)
Definition cfg_ok (c : cfgR) : Prop := 0 < cdt RN c /\ 0 <= cdelay RN c /\ 0 <= ctol RN c < cdt RN c / 2.

(* the current synapse e had k steps ago / its spike input k steps ago *)
Definition value_ago (c : cfgR) (p : pastR) (k : nat) (e : nat) : R := nth e (cur_out RN c (skipn k p)) 0.
Definition pos_ago (c : cfgR) (p : pastR) (k : nat) (e : nat) : R := nth e (cur_val RN c (skipn k p)) 0.
Definition neg_ago (c : cfgR) (p : pastR) (k : nat) (e : nat) : R := nth e (neg_val RN c (skipn k p)) 0.
Definition spike_ago (c : cfgR) (p : pastR) (k : nat) (e : nat) : R := nth e (spike_hist RN c p k) 0.

(* what current_at / spike_at select for synapse e at the (clamped) time b, as coded per class *)
Definition cur_sel (c : cfgR) (s : synR) (e : nat) (b : R) : R :=
  match ckind RN c with
  | KDelta => delta_to_current RN c (sel_elem RN (spk RN s) (cdt RN c) (ctol RN c) (interp_of_mode RN (cmode RN c)) e b)
  | KDeltaPlus => sel_elem RN (cur RN s) (cdt RN c) (ctol RN c) (interp_of_mode RN (cmode RN c)) e b
  | KSingleExp => sel_elem RN (cur RN s) (cdt RN c) (ctol RN c) (interp_decay RN (ctau RN c)) e b
  | KDoubleExp => sel_elem RN (cur RN s) (cdt RN c) (ctol RN c) (interp_decay RN (ctau RN c)) e b
                  - sel_elem RN (neg RN s) (cdt RN c) (ctol RN c) (interp_decay RN (ctr RN c)) e b
  end.
Definition spk_sel (c : cfgR) (s : synR) (e : nat) (b : R) : R :=
  sel_elem RN (spk RN s) (cdt RN c) (ctol RN c) (interp_of_mode RN (cmode RN c)) e b.

Lemma nth_error_skipn0 {X} (l : list X) k : nth_error (skipn k l) 0 = nth_error l k.
Proof. revert k. induction l as [|x l IH]; intros [|k]; cbn; try reflexivity. apply IH. Qed.
Lemma Forall_skipn {X} (P : X -> Prop) (l : list X) k : Forall P l -> Forall P (skipn k l).
Proof.
  revert k. induction l as [|x l IH]; intros [|k] H; cbn; auto. inversion H; subst. apply IH; assumption.
Qed.
Lemma map_skipn {X Y} (f : X -> Y) (l : list X) k : map f (skipn k l) = skipn k (map f l).
Proof. revert k. induction l as [|x l IH]; intros [|k]; cbn; auto. Qed.

Lemma nth_map_dtc (c : cfgR) (l : list R) e :
  nth e (map (delta_to_current RN c) l) 0 = delta_to_current RN c (nth e l 0).
Proof.
  destruct (Nat.lt_ge_cases e (length l)) as [Hl|Hl].
  - rewrite (nth_indep (map (delta_to_current RN c) l) 0 (delta_to_current RN c 0)) by (rewrite map_length; exact Hl).
    apply map_nth.
  - rewrite (nth_overflow (map (delta_to_current RN c) l)) by (rewrite map_length; exact Hl).
    rewrite (nth_overflow l) by exact Hl. unfold delta_to_current. rn_simpl. ring.
Qed.

Lemma nth_cur_out_dexp (c : cfgR) (q : pastR) e : ckind RN c = KDoubleExp -> Forall (entry_ok RN c) q ->
  nth e (cur_out RN c q) 0 = nth e (cur_val RN c q) 0 - nth e (neg_val RN c q) 0.
Proof.
  intros Ek Hq. unfold cur_out. rewrite Ek.
  pose proof (cur_val_length RN c q Hq) as H1. pose proof (neg_val_length RN c q Hq) as H2.
  destruct (Nat.lt_ge_cases e (nel (cshape RN c))) as [Hl|Hl].
  - rewrite (nth_zipw _ _ _ e 0 0 0) by first [lia | change (T RN) with R in *; lia]. reflexivity.
  - rewrite (nth_overflow (zipw _ _ _)) by (rewrite zipw_length; first [lia | change (T RN) with R in *; lia]).
    rewrite (nth_overflow (cur_val RN c q)), (nth_overflow (neg_val RN c q)) by first [lia | change (T RN) with R in *; lia].
    rn_simpl. ring.
Qed.

Section Flagship.
Variable c : cfgR.
Variable s : synR.
Variable p : pastR.
Hypothesis I : Inv RN c s p.
Hypothesis Hc : cfg_ok c.

Notation dt := (cdt RN c).
Notation delay := (cdelay RN c).
Notation tol := (ctol RN c).
Notation Nrec := (N (spk RN s)).

Lemma Hdt : 0 < dt. Proof. apply Hc. Qed.
Lemma Htol : 0 <= tol < dt / 2. Proof. apply Hc. Qed.
Lemma Hdelay : 0 <= delay <= dt * IZR (Z.of_nat Nrec - 1).
Proof.
  destruct Hc as (H1 & H2 & _). destruct (recordsz_spec dt delay H1 H2) as (_ & H & _).
  rewrite (inv_N _ _ _ _ I). split; [exact H2|exact H].
Qed.
Lemma Nrec_pos : (0 < Nrec)%nat.
Proof. destruct (inv_ws _ _ _ _ I) as ((H & _) & _). exact H. Qed.
(* maximum delay 0  <->  a single-slot record *)
Lemma undelayed_iff : Nrec = 1%nat <-> delay = 0.
Proof.
  destruct Hc as (H1 & H2 & _). destruct (recordsz_spec dt delay H1 H2) as (_ & _ & _ & H).
  rewrite (inv_N _ _ _ _ I). exact H.
Qed.

(* ------------------------------------------------------------------ records -> past values *)
Lemma at_spk z : (1 <= z <= Z.of_nat Nrec)%Z -> atR (spk RN s) z = spike_hist RN c p (Z.to_nat (z - 1)).
Proof.
  intros Hz. rewrite <- (inv_hs _ _ _ _ I (Z.to_nat (z - 1))) by zl.
  replace (Z.of_nat (Z.to_nat (z - 1)) + 1)%Z with z by lia. reflexivity.
Qed.
Lemma at_cur z : (1 <= z <= Z.of_nat Nrec)%Z -> atR (cur RN s) z = cur_hist RN c p (Z.to_nat (z - 1)).
Proof.
  intros Hz. rewrite <- (inv_hc _ _ _ _ I (Z.to_nat (z - 1))) by (rewrite (inv_Nc _ _ _ _ I); zl).
  replace (Z.of_nat (Z.to_nat (z - 1)) + 1)%Z with z by lia. reflexivity.
Qed.
Lemma at_neg z : (1 <= z <= Z.of_nat Nrec)%Z -> atR (neg RN s) z = neg_hist RN c p (Z.to_nat (z - 1)).
Proof.
  intros Hz. rewrite <- (inv_hn _ _ _ _ I (Z.to_nat (z - 1))) by (rewrite (inv_Nn _ _ _ _ I); zl).
  replace (Z.of_nat (Z.to_nat (z - 1)) + 1)%Z with z by lia. reflexivity.
Qed.

Lemma spike_hist_skipn k : spike_hist RN c (skipn k p) 0 = spike_hist RN c p k.
Proof.
  unfold spike_hist. rewrite nth_error_skipn0. reflexivity.
Qed.

(* a grid index within tolerance of a time in [0, delay] is a valid record offset *)
Lemma grid_index_range b k : 0 <= b <= delay -> Rabs (IZR k * dt - b) <= tol -> (0 <= k < Z.of_nat Nrec)%Z.
Proof.
  intros Hb Hk. pose proof Hdt. pose proof Htol. pose proof Hdelay as (_ & Hd).
  apply Rabs_le_inv in Hk.
  split.
  - apply le_IZR. assert (-1 < IZR k) by nra.
    destruct (Z_lt_le_dec k 0) as [Hneg|]; [|apply IZR_le; assumption].
    assert (IZR k <= -1) by (apply IZR_le; lia). lra.
  - assert (Hlt : IZR k < IZR (Z.of_nat Nrec - 1) + 1) by nra.
    apply lt_IZR. rewrite minus_IZR in Hlt. lra.
Qed.
Lemma bracket_range b : 0 <= b <= delay ->
  (0 <= Zfloor (b / dt))%Z /\ (Zceil (b / dt) <= Z.of_nat Nrec - 1)%Z.
Proof.
  intros Hb. pose proof Hdt. pose proof Hdelay as (_ & Hd).
  assert (Hi : 0 < / dt) by (apply Rinv_0_lt_compat; lra).
  assert (H1 : dt * / dt = 1) by (field; lra).
  split.
  - apply Zfloor_lub. unfold Rdiv. cbn [IZR]. nra.
  - apply Zceil_glb. unfold Rdiv. nra.
Qed.

(* ------------------------------------------------------------------ read_at_delay: on the step grid *)
(* querying the current at a delay within tolerance of k steps returns exactly what was current k steps ago *)
Theorem current_read_at_delay e b k : 0 <= b <= delay -> Rabs (IZR k * dt - b) <= tol ->
  cur_sel c s e b = value_ago c p (Z.to_nat k) e.
Proof.
  intros Hb Hk. pose proof (grid_index_range b k Hb Hk) as Hr.
  unfold cur_sel, value_ago, cur_out.
  destruct (ckind RN c) eqn:Ek.
  - rewrite (sel_elem_h dt tol _ _ _ e b (inv_ws _ _ _ _ I)).
    rewrite (sel_h_on_grid dt tol Hdt Htol _ _ b k Hk). rewrite at_spk by lia.
    replace (1 + k - 1)%Z with k by lia. rewrite spike_hist_skipn. symmetry. apply nth_map_dtc.
  - rewrite (sel_elem_h dt tol _ _ _ e b (inv_wc _ _ _ _ I)).
    rewrite (sel_h_on_grid dt tol Hdt Htol _ _ b k Hk). rewrite at_cur by lia.
    replace (1 + k - 1)%Z with k by lia. reflexivity.
  - rewrite (sel_elem_h dt tol _ _ _ e b (inv_wc _ _ _ _ I)).
    rewrite (sel_h_on_grid dt tol Hdt Htol _ _ b k Hk). rewrite at_cur by lia.
    replace (1 + k - 1)%Z with k by lia. reflexivity.
  - rewrite (sel_elem_h dt tol _ _ _ e b (inv_wc _ _ _ _ I)), (sel_elem_h dt tol _ _ _ e b (inv_wn _ _ _ _ I)).
    rewrite !(sel_h_on_grid dt tol Hdt Htol _ _ b k Hk). rewrite at_cur, at_neg by lia.
    replace (1 + k - 1)%Z with k by lia. unfold cur_hist, neg_hist.
    set (q := skipn (Z.to_nat k) p).
    assert (Hq : Forall (entry_ok RN c) q) by (apply Forall_skipn; exact (inv_p _ _ _ _ I)).
    pose proof (nth_cur_out_dexp c q e Ek Hq) as Hx. unfold cur_out in Hx. rewrite Ek in Hx. symmetry. exact Hx.
Qed.

(* the same for spikes *)
Theorem spike_read_at_delay e b k : 0 <= b <= delay -> Rabs (IZR k * dt - b) <= tol ->
  spk_sel c s e b = spike_ago c p (Z.to_nat k) e.
Proof.
  intros Hb Hk. pose proof (grid_index_range b k Hb Hk) as Hr. unfold spk_sel, spike_ago.
  rewrite (sel_elem_h dt tol _ _ _ e b (inv_ws _ _ _ _ I)).
  rewrite (sel_h_on_grid dt tol Hdt Htol _ _ b k Hk). rewrite at_spk by lia.
  replace (1 + k - 1)%Z with k by lia. reflexivity.
Qed.

(* ------------------------------------------------------------------ read_between_steps *)
Section Between.
Variables (e : nat) (b : R).
Hypothesis Hb : 0 <= b <= delay.
Hypothesis Hoff : forall k, tol < Rabs (IZR k * dt - b).
Notation older := (Z.to_nat (Zceil (b / dt))).
Notation newer := (Z.to_nat (Zfloor (b / dt))).
Notation since := (IZR (Zceil (b / dt)) * dt - b).       (* time elapsed since the older sample *)

Lemma between_facts : older = S newer /\ 0 < since < dt /\
  (1 <= 1 + Zceil (b / dt) <= Z.of_nat Nrec)%Z /\ (1 <= 1 + Zfloor (b / dt) <= Z.of_nat Nrec)%Z.
Proof.
  destruct (sel_h_off_grid dt tol Hdt Htol (fun _ => 0) (interp_previous RN) b Hoff) as (Hcf & Hs & _).
  destruct (bracket_range b Hb) as (Hf & Hcl). repeat split; try lia. exact (proj1 Hs). exact (proj2 Hs).
Qed.

(* spikes: the older sample (previous) or the nearer one (nearest) *)
Theorem spike_between_steps :
  spk_sel c s e b =
  match cmode RN c with
  | IPrevious => spike_ago c p older e
  | INearest => if Rlt_dec (dt / 2) since then spike_ago c p newer e else spike_ago c p older e
  end.
Proof.
  destruct between_facts as (_ & _ & Ho & Hn). unfold spk_sel, spike_ago.
  rewrite (sel_elem_h dt tol _ _ _ e b (inv_ws _ _ _ _ I)).
  destruct (cmode RN c); cbn [interp_of_mode].
  - rewrite (sel_h_previous dt tol Hdt Htol _ b Hoff). rewrite at_spk by lia.
    replace (1 + Zceil (b / dt) - 1)%Z with (Zceil (b / dt)) by lia. reflexivity.
  - rewrite (sel_h_nearest dt tol Hdt Htol _ b Hoff).
    destruct (Rlt_dec (dt / 2) since); rewrite at_spk by lia.
    + replace (1 + Zfloor (b / dt) - 1)%Z with (Zfloor (b / dt)) by lia. reflexivity.
    + replace (1 + Zceil (b / dt) - 1)%Z with (Zceil (b / dt)) by lia. reflexivity.
Qed.

(* currents, per class *)
Theorem current_between_steps :
  cur_sel c s e b =
  match ckind RN c with
  | KDelta | KDeltaPlus =>
      match cmode RN c with
      | IPrevious => value_ago c p older e
      | INearest => if Rlt_dec (dt / 2) since then value_ago c p newer e else value_ago c p older e
      end
  | KSingleExp => value_ago c p older e * Rexp (- since / ctau RN c)
  | KDoubleExp => pos_ago c p older e * Rexp (- since / ctau RN c) - neg_ago c p older e * Rexp (- since / ctr RN c)
  end.
Proof.
  destruct between_facts as (_ & _ & Ho & Hn).
  assert (Ek1 : forall k, (1 <= 1 + k <= Z.of_nat Nrec)%Z -> Z.to_nat (1 + k - 1) = Z.to_nat k) by (intros; f_equal; lia).
  unfold cur_sel, value_ago, pos_ago, neg_ago, cur_out.
  destruct (ckind RN c) eqn:Ek.
  - (* delta: interpolate the spike record, then convert *)
    rewrite (sel_elem_h dt tol _ _ _ e b (inv_ws _ _ _ _ I)).
    assert (Hconv : forall k, (1 <= 1 + k <= Z.of_nat Nrec)%Z ->
              delta_to_current RN c (nth e (atR (spk RN s) (1 + k)) 0) =
              nth e (map (delta_to_current RN c) (spike_hist RN c (skipn (Z.to_nat k) p) 0)) 0).
    { intros k Hk. rewrite at_spk by lia. rewrite (Ek1 k Hk), spike_hist_skipn. symmetry. apply nth_map_dtc. }
    destruct (cmode RN c); cbn [interp_of_mode].
    + rewrite (sel_h_previous dt tol Hdt Htol _ b Hoff). apply Hconv; lia.
    + rewrite (sel_h_nearest dt tol Hdt Htol _ b Hoff).
      destruct (Rlt_dec (dt / 2) since); apply Hconv; lia.
  - rewrite (sel_elem_h dt tol _ _ _ e b (inv_wc _ _ _ _ I)).
    destruct (cmode RN c); cbn [interp_of_mode].
    + rewrite (sel_h_previous dt tol Hdt Htol _ b Hoff). rewrite at_cur by lia. rewrite Ek1 by lia. reflexivity.
    + rewrite (sel_h_nearest dt tol Hdt Htol _ b Hoff).
      destruct (Rlt_dec (dt / 2) since); rewrite at_cur by lia; rewrite Ek1 by lia; reflexivity.
  - rewrite (sel_elem_h dt tol _ _ _ e b (inv_wc _ _ _ _ I)).
    rewrite (sel_h_expdecay dt tol Hdt Htol _ _ b Hoff). rewrite at_cur by lia. rewrite Ek1 by lia. reflexivity.
  - rewrite (sel_elem_h dt tol _ _ _ e b (inv_wc _ _ _ _ I)), (sel_elem_h dt tol _ _ _ e b (inv_wn _ _ _ _ I)).
    rewrite !(sel_h_expdecay dt tol Hdt Htol _ _ b Hoff). rewrite at_cur, at_neg by lia. rewrite Ek1 by lia. reflexivity.
Qed.
End Between.

(* ------------------------------------------------------------------ whole results: shape and entries *)
Lemma st_of sh (r : @ring (T RN) unit) : wfr RN sh r -> st r = SFull tt sh (RingProofs.rows r).
Proof. intros (_ & H & _). exact H. Qed.

(* delayed record, selector with the trailing axis of d delays per synapse *)
Theorem current_at_delayed_D d sel : Nrec <> 1%nat ->
  current_at RN c s (cshape RN c ++ [d]) sel =
  SOk (cshape RN c ++ [d],
       flat_map (fun e => map (fun j => read_one (cur_sel c s) delay tol (ccur_ob RN c) e (nth (e * d + j) sel 0)) (seq 0 d))
                (seq 0 (nel (cshape RN c)))).
Proof.
  intros Hn. pose proof Hdt. pose proof Htol. pose proof Hdelay as Hd.
  unfold current_at, cur_sel, synparam_at.
  destruct (ckind RN c) eqn:Ek.
  - rewrite (st_of _ _ (inv_ws _ _ _ _ I)). apply param_at_delayed_D; auto; lra.
  - rewrite (st_of _ _ (inv_wc _ _ _ _ I)). apply param_at_delayed_D; rewrite ?(inv_Nc _ _ _ _ I); auto; lra.
  - rewrite (st_of _ _ (inv_wc _ _ _ _ I)). apply param_at_delayed_D; rewrite ?(inv_Nc _ _ _ _ I); auto; lra.
  - rewrite (st_of _ _ (inv_wc _ _ _ _ I)). apply param_at_delayed_D; auto; lra.
Qed.

(* delayed record, one delay per synapse (selector of the synapse's batched shape) *)
Theorem current_at_delayed_flat sel : Nrec <> 1%nat ->
  current_at RN c s (cshape RN c) sel =
  SOk (cshape RN c,
       map (fun e => read_one (cur_sel c s) delay tol (ccur_ob RN c) e (nth e sel 0)) (seq 0 (nel (cshape RN c)))).
Proof.
  intros Hn. pose proof Hdt. pose proof Htol. pose proof Hdelay as Hd.
  unfold current_at, cur_sel, synparam_at.
  destruct (ckind RN c) eqn:Ek.
  - rewrite (st_of _ _ (inv_ws _ _ _ _ I)). apply param_at_delayed_flat; auto; lra.
  - rewrite (st_of _ _ (inv_wc _ _ _ _ I)). apply param_at_delayed_flat; rewrite ?(inv_Nc _ _ _ _ I); auto; lra.
  - rewrite (st_of _ _ (inv_wc _ _ _ _ I)). apply param_at_delayed_flat; rewrite ?(inv_Nc _ _ _ _ I); auto; lra.
  - rewrite (st_of _ _ (inv_wc _ _ _ _ I)). apply param_at_delayed_flat; auto; lra.
Qed.

(* undelayed record (maximum delay 0): the present current for selectors within tolerance of 0, the
   configured value elsewhere, in the selector's shape *)
Theorem current_at_undelayed_D d sel : Nrec = 1%nat -> length sel = (nel (cshape RN c) * d)%nat ->
  current_at RN c s (cshape RN c ++ [d]) sel =
  SOk (cshape RN c ++ [d],
       map (fun i => read_now tol (ccur_ob RN c) (value_ago c p 0 (i / d)) (nth i sel 0)) (seq 0 (nel (cshape RN c) * d))).
Proof.
  intros Hn Hl. unfold value_ago. cbn [skipn]. rewrite <- (current_of_inv RN c s p I).
  unfold current_at, current_of, synparam_at.
  destruct (ckind RN c) eqn:Ek.
  - rewrite (st_of _ _ (inv_ws _ _ _ _ I)). apply param_at_undelayed_D; auto.
  - rewrite (st_of _ _ (inv_wc _ _ _ _ I)). rewrite map_id. apply param_at_undelayed_D; rewrite ?(inv_Nc _ _ _ _ I); auto.
  - rewrite (st_of _ _ (inv_wc _ _ _ _ I)). rewrite map_id. apply param_at_undelayed_D; rewrite ?(inv_Nc _ _ _ _ I); auto.
  - rewrite (st_of _ _ (inv_wc _ _ _ _ I)). apply param_at_undelayed_D; auto.
Qed.

Theorem current_at_undelayed_flat sel : Nrec = 1%nat -> length sel = nel (cshape RN c) ->
  current_at RN c s (cshape RN c) sel =
  SOk (cshape RN c,
       match ccur_ob RN c with
       | None => cur_out RN c p
       | Some _ => map (fun e => read_now tol (ccur_ob RN c) (value_ago c p 0 e) (nth e sel 0)) (seq 0 (nel (cshape RN c)))
       end).
Proof.
  intros Hn Hl. unfold value_ago. cbn [skipn]. rewrite <- (current_of_inv RN c s p I).
  unfold current_at, current_of, synparam_at.
  destruct (ckind RN c) eqn:Ek.
  - rewrite (st_of _ _ (inv_ws _ _ _ _ I)). apply param_at_undelayed_flat; auto.
  - rewrite (st_of _ _ (inv_wc _ _ _ _ I)). rewrite map_id. apply param_at_undelayed_flat; rewrite ?(inv_Nc _ _ _ _ I); auto.
  - rewrite (st_of _ _ (inv_wc _ _ _ _ I)). rewrite map_id. apply param_at_undelayed_flat; rewrite ?(inv_Nc _ _ _ _ I); auto.
  - rewrite (st_of _ _ (inv_wc _ _ _ _ I)). apply param_at_undelayed_flat; auto.
Qed.

(* spikes *)
Theorem spike_at_delayed_D d sel : Nrec <> 1%nat ->
  spike_at RN c s (cshape RN c ++ [d]) sel =
  SOk (cshape RN c ++ [d],
       map (boolify RN)
         (flat_map (fun e => map (fun j => read_one (spk_sel c s) delay tol (option_map (b2t RN) (cspk_ob RN c)) e
                                                    (nth (e * d + j) sel 0)) (seq 0 d))
                   (seq 0 (nel (cshape RN c))))).
Proof.
  intros Hn. pose proof Hdt. pose proof Htol. pose proof Hdelay as Hd.
  unfold spike_at, spk_sel, synparam_at. rewrite (st_of _ _ (inv_ws _ _ _ _ I)).
  rewrite param_at_delayed_D; try reflexivity; try assumption; lra.
Qed.
Theorem spike_at_delayed_flat sel : Nrec <> 1%nat ->
  spike_at RN c s (cshape RN c) sel =
  SOk (cshape RN c,
       map (boolify RN)
         (map (fun e => read_one (spk_sel c s) delay tol (option_map (b2t RN) (cspk_ob RN c)) e (nth e sel 0))
              (seq 0 (nel (cshape RN c))))).
Proof.
  intros Hn. pose proof Hdt. pose proof Htol. pose proof Hdelay as Hd.
  unfold spike_at, spk_sel, synparam_at. rewrite (st_of _ _ (inv_ws _ _ _ _ I)).
  rewrite param_at_delayed_flat; try reflexivity; try assumption; lra.
Qed.

Lemma peek_spk : peek_row RN (spk RN s) = spike_hist RN c p 0.
Proof.
  rewrite (peek_row_at RN _ _ (inv_ws _ _ _ _ I)). apply (inv_hs _ _ _ _ I 0%nat). exact Nrec_pos.
Qed.

Theorem spike_at_undelayed_D d sel : Nrec = 1%nat -> length sel = (nel (cshape RN c) * d)%nat ->
  spike_at RN c s (cshape RN c ++ [d]) sel =
  SOk (cshape RN c ++ [d],
       map (boolify RN)
         (map (fun i => read_now tol (option_map (b2t RN) (cspk_ob RN c)) (spike_ago c p 0 (i / d)) (nth i sel 0))
              (seq 0 (nel (cshape RN c) * d)))).
Proof.
  intros Hn Hl. unfold spike_at, synparam_at, spike_ago. rewrite (st_of _ _ (inv_ws _ _ _ _ I)).
  rewrite map_id, peek_spk. rewrite param_at_undelayed_D; try reflexivity; assumption.
Qed.
Theorem spike_at_undelayed_flat sel : Nrec = 1%nat -> length sel = nel (cshape RN c) ->
  spike_at RN c s (cshape RN c) sel =
  SOk (cshape RN c,
       map (boolify RN)
         match cspk_ob RN c with
         | None => spike_hist RN c p 0
         | Some _ => map (fun e => read_now tol (option_map (b2t RN) (cspk_ob RN c)) (spike_ago c p 0 e) (nth e sel 0))
                         (seq 0 (nel (cshape RN c)))
         end).
Proof.
  intros Hn Hl. unfold spike_at, synparam_at, spike_ago. rewrite (st_of _ _ (inv_ws _ _ _ _ I)).
  rewrite map_id, peek_spk. rewrite param_at_undelayed_flat; try assumption.
  destruct (cspk_ob RN c); reflexivity.
Qed.

End Flagship.

(* ------------------------------------------------------------------ spikes are bits, so the final .to(bool) loses nothing *)
Lemma boolify_idem x : boolify RN (boolify RN x) = boolify RN x.
Proof.
  unfold boolify, to_bool, neb, b2t. rn_simpl.
  destruct (Reqb'_spec x 0); cbn [negb].
  - destruct (Reqb'_spec 0 0); [reflexivity|contradiction].
  - destruct (Reqb'_spec 1 0); [lra|reflexivity].
Qed.
Lemma spike_ago_bit c p k e : boolify RN (spike_ago c p k e) = spike_ago c p k e.
Proof.
  unfold spike_ago, spike_hist. destruct (nth_error p k) as [(xs, inj)|].
  - destruct (Nat.lt_ge_cases e (length xs)) as [Hl|Hl].
    + rewrite (nth_indep _ 0 (boolify RN 0)) by (rewrite map_length; exact Hl). rewrite map_nth. apply boolify_idem.
    + rewrite nth_overflow by (rewrite map_length; exact Hl). apply boolify_bit. left; reflexivity.
  - rewrite nth_zrow. apply boolify_bit. left; reflexivity.
Qed.

(* ------------------------------------------------------------------ the exponential interpolation is exact *)
(* between steps, the single exponential synapse's delayed current is the impulse-response sum evaluated at
   the true (continuous) age of every input: age = (j steps) + (time since the older sample) *)
Theorem single_exp_between_steps_exact c p k e since : ckind RN c = KSingleExp -> Forall (entry_ok RN c) p ->
  (e < nel (cshape RN c))%nat ->
  value_ago c p k e * Rexp (- since / ctau RN c) =
  isum (fun j => cQ RN c / ctau RN c * Rexp (- (INR j * cdt RN c + since) / ctau RN c)) (skipn k (train p e)).
Proof.
  intros Ek Hp He. unfold value_ago.
  assert (Hq : Forall (entry_ok RN c) (skipn k p)) by (apply Forall_skipn; exact Hp).
  rewrite (single_exp_closed_form c (skipn k p) e Ek Hq He).
  replace (train (skipn k p) e) with (skipn k (train p e)) by (unfold train; symmetry; apply map_skipn).
  rewrite Rmult_comm, <- isum_scale. apply isum_ext. intros j. unfold resp_exp.
  replace (- (INR j * cdt RN c + since) / ctau RN c) with (- since / ctau RN c + - (INR j * cdt RN c) / ctau RN c)
    by (unfold Rdiv; ring).
  rewrite exp_plus. ring.
Qed.

(* ------------------------------------------------------------------ value_ago is the impulse-response sum over the inputs older than k steps *)
Lemma train_skipn (p : pastR) k e : train (skipn k p) e = skipn k (train p e).
Proof. unfold train. apply map_skipn. Qed.
Lemma btrain_skipn (p : pastR) k e : btrain (skipn k p) e = skipn k (btrain p e).
Proof. unfold btrain. apply map_skipn. Qed.

Theorem value_ago_closed_form (c : cfgR) (p : pastR) k e : Forall (entry_ok RN c) p -> (e < nel (cshape RN c))%nat ->
  value_ago c p k e =
  match ckind RN c with
  | KDelta => isum (resp_delta (cQ RN c) (cdt RN c)) (skipn k (btrain p e))
  | KDeltaPlus => isum (resp_delta (cQ RN c) (cdt RN c)) (skipn k (train p e)) + injected (skipn k p) e
  | KSingleExp => isum (resp_exp (cQ RN c / ctau RN c) (cdt RN c) (ctau RN c)) (skipn k (train p e))
  | KDoubleExp => isum (resp_dexp (cQ RN c) (cdt RN c) (ctau RN c) (ctr RN c)) (skipn k (train p e))
  end.
Proof.
  intros Hp He. unfold value_ago. pose proof (Forall_skipn _ p k Hp) as Hq.
  destruct (ckind RN c) eqn:Ek.
  - rewrite (delta_closed_form c _ e Ek Hq He), btrain_skipn. reflexivity.
  - rewrite (deltaplus_closed_form c _ e Ek Hq He), train_skipn. reflexivity.
  - rewrite (single_exp_closed_form c _ e Ek Hq He), train_skipn. reflexivity.
  - rewrite (double_exp_closed_form c _ e Ek Hq He), train_skipn. reflexivity.
Qed.

(* ------------------------------------------------------------------ the same, for every synapse reachable from the constructor *)
Section Reachable.
Variable c : cfgR.
Variable ops : list (sop RN).
Hypothesis Hc : cfg_ok c.
Hypothesis Hok : Forall (op_ok RN) ops.
Let s := fst (run RN c (init RN c) ops).
Let p := fold_left (spec_step RN c) ops [].

(* what forward returned / what `current` reports now: the impulse-response sum over all inputs since the last clear *)
Theorem reachable_current_closed_form e : (e < nel (cshape RN c))%nat ->
  nth e (current_of RN c s) 0 = value_ago c p 0 e /\ Forall (entry_ok RN c) p.
Proof.
  intros He. pose proof (run_init_inv RN c ops Hok) as I. fold s p in I.
  rewrite (current_of_inv RN c s p I). split; [reflexivity|exact (inv_p _ _ _ _ I)].
Qed.

Theorem reachable_read_at_delay e b k : 0 <= b <= cdelay RN c -> Rabs (IZR k * cdt RN c - b) <= ctol RN c ->
  cur_sel c s e b = value_ago c p (Z.to_nat k) e /\ spk_sel c s e b = spike_ago c p (Z.to_nat k) e.
Proof.
  intros Hb Hk. pose proof (run_init_inv RN c ops Hok) as I. fold s p in I. split.
  - exact (current_read_at_delay c s p I Hc e b k Hb Hk).
  - exact (spike_read_at_delay c s p I Hc e b k Hb Hk).
Qed.

Theorem reachable_recordsz : N (spk RN s) = recordsz RN (cdt RN c) (cdelay RN c) /\
  (N (spk RN s) = 1%nat <-> cdelay RN c = 0).
Proof.
  pose proof (run_init_inv RN c ops Hok) as I. fold s p in I. split; [exact (inv_N _ _ _ _ I)|].
  exact (undelayed_iff c s p I Hc).
Qed.
End Reachable.

(* ------------------------------------------------------------------ entries of a result with the trailing axis *)
Lemma nth_flat_grid {X} (g : nat -> nat -> X) (dflt : X) d j : (j < d)%nat ->
  forall n a e, (a <= e < a + n)%nat ->
  nth ((e - a) * d + j) (flat_map (fun e => map (g e) (seq 0 d)) (seq a n)) dflt = g e j.
Proof.
  intros Hj. induction n as [|n IH]; intros a e He; [lia|].
  cbn [seq flat_map].
  destruct (Nat.eq_dec e a) as [->|Hne].
  - rewrite Nat.sub_diag. cbn [Nat.mul Nat.add]. rewrite app_nth1 by (rewrite map_length, seq_length; exact Hj).
    apply nth_map_seq0. exact Hj.
  - rewrite app_nth2 by (rewrite map_length, seq_length; nia). rewrite map_length, seq_length.
    replace ((e - a) * d + j - d)%nat with ((e - S a) * d + j)%nat by nia.
    apply IH. lia.
Qed.

(* entry (e, j) of current_at on a delayed record: the synapse e's value for its j-th delay *)
Corollary current_at_entry (c : cfgR) (s : synR) (p : pastR) d sel : Inv RN c s p -> cfg_ok c -> N (spk RN s) <> 1%nat ->
  exists vals, current_at RN c s (cshape RN c ++ [d]) sel = SOk (cshape RN c ++ [d], vals) /\
    length vals = (nel (cshape RN c) * d)%nat /\
    forall e j, (e < nel (cshape RN c))%nat -> (j < d)%nat ->
      nth (e * d + j) vals 0 = read_one (cur_sel c s) (cdelay RN c) (ctol RN c) (ccur_ob RN c) e (nth (e * d + j) sel 0).
Proof.
  intros I Hc Hn. eexists. split; [apply (current_at_delayed_D c s p I Hc d sel Hn)|]. split.
  - generalize (nel (cshape RN c)). intros n.
    assert (G : forall a, length (flat_map (fun e => map (fun j => read_one (cur_sel c s) (cdelay RN c) (ctol RN c) (ccur_ob RN c) e
                                       (nth (e * d + j) sel 0)) (seq 0 d)) (seq a n)) = (n * d)%nat).
    { induction n as [|n IH]; intros a; cbn [seq flat_map]; [reflexivity|]. rewrite app_length, map_length, seq_length, IH. lia. }
    apply G.
  - intros e j He Hj.
    pose proof (nth_flat_grid (fun e j => read_one (cur_sel c s) (cdelay RN c) (ctol RN c) (ccur_ob RN c) e (nth (e * d + j) sel 0))
                  0 d j Hj (nel (cshape RN c)) 0%nat e ltac:(lia)) as H.
    rewrite Nat.sub_0_r in H. exact H.
Qed.

(* ------------------------------------------------------------------ the double exponential interpolation is exact as well *)
Theorem double_exp_between_steps_exact c p k e since : ckind RN c = KDoubleExp -> Forall (entry_ok RN c) p ->
  (e < nel (cshape RN c))%nat ->
  pos_ago c p k e * Rexp (- since / ctau RN c) - neg_ago c p k e * Rexp (- since / ctr RN c) =
  isum (fun j => cQ RN c / (ctau RN c - ctr RN c) *
                 (Rexp (- (INR j * cdt RN c + since) / ctau RN c) - Rexp (- (INR j * cdt RN c + since) / ctr RN c)))
       (skipn k (train p e)).
Proof.
  intros Ek Hp He. unfold pos_ago, neg_ago. pose proof (Forall_skipn _ p k Hp) as Hq.
  rewrite (pos_closed_form c (skipn k p) e Ek Hq He), (neg_closed_form c (skipn k p) e Ek Hq He), train_skipn.
  rewrite (Rmult_comm (isum _ _)), (Rmult_comm (isum _ _) (Rexp (- since / ctr RN c))), <- !isum_scale, <- isum_minus.
  apply isum_ext. intros j. unfold resp_exp.
  replace (- (INR j * cdt RN c + since) / ctau RN c) with (- since / ctau RN c + - (INR j * cdt RN c) / ctau RN c)
    by (unfold Rdiv; ring).
  replace (- (INR j * cdt RN c + since) / ctr RN c) with (- since / ctr RN c + - (INR j * cdt RN c) / ctr RN c)
    by (unfold Rdiv; ring).
  rewrite !exp_plus. ring.
Qed.

(* ------------------------------------------------------------------ the double exponential's component readers *)
Section Components.
Variable c : cfgR.
Variable s : synR.
Variable p : pastR.
Hypothesis I : Inv RN c s p.
Hypothesis Hc : cfg_ok c.

Theorem pos_neg_at_delayed_D d sel : N (spk RN s) <> 1%nat ->
  pos_current_at RN c s (cshape RN c ++ [d]) sel =
    SOk (cshape RN c ++ [d],
         flat_map (fun e => map (fun j => read_one (fun e b => sel_elem RN (cur RN s) (cdt RN c) (ctol RN c) (interp_decay RN (ctau RN c)) e b)
                                                   (cdelay RN c) (ctol RN c) (ccur_ob RN c) e (nth (e * d + j) sel 0)) (seq 0 d))
                  (seq 0 (nel (cshape RN c)))) /\
  neg_current_at RN c s (cshape RN c ++ [d]) sel =
    SOk (cshape RN c ++ [d],
         flat_map (fun e => map (fun j => read_one (fun e b => sel_elem RN (neg RN s) (cdt RN c) (ctol RN c) (interp_decay RN (ctr RN c)) e b)
                                                   (cdelay RN c) (ctol RN c) (ccur_ob RN c) e (nth (e * d + j) sel 0)) (seq 0 d))
                  (seq 0 (nel (cshape RN c)))).
Proof.
  intros Hn. pose proof (Hdt c Hc). pose proof (Htol c Hc). pose proof (Hdelay c s p I Hc) as Hd.
  unfold pos_current_at, neg_current_at, synparam_at.
  rewrite (st_of _ _ (inv_wc _ _ _ _ I)), (st_of _ _ (inv_wn _ _ _ _ I)). split.
  - apply param_at_delayed_D; rewrite ?(inv_Nc _ _ _ _ I); auto; lra.
  - apply param_at_delayed_D; rewrite ?(inv_Nn _ _ _ _ I); auto; lra.
Qed.

Theorem pos_neg_read_at_delay e b k : 0 <= b <= cdelay RN c -> Rabs (IZR k * cdt RN c - b) <= ctol RN c ->
  sel_elem RN (cur RN s) (cdt RN c) (ctol RN c) (interp_decay RN (ctau RN c)) e b = pos_ago c p (Z.to_nat k) e /\
  sel_elem RN (neg RN s) (cdt RN c) (ctol RN c) (interp_decay RN (ctr RN c)) e b = neg_ago c p (Z.to_nat k) e.
Proof.
  intros Hb Hk. pose proof (grid_index_range c s p I Hc b k Hb Hk) as Hr. unfold pos_ago, neg_ago.
  rewrite (sel_elem_h _ _ _ _ _ e b (inv_wc _ _ _ _ I)), (sel_elem_h _ _ _ _ _ e b (inv_wn _ _ _ _ I)).
  rewrite !(sel_h_on_grid _ _ (Hdt c Hc) (Htol c Hc) _ _ b k Hk).
  rewrite (at_cur c s p I), (at_neg c s p I) by lia.
  replace (1 + k - 1)%Z with k by lia. split; reflexivity.
Qed.
End Components.
