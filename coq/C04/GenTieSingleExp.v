(* C04 - tie of the model to the definitions generated from class SingleExponentialCurrent. *)
From Coq Require Import List ZArith Bool Arith Lia.
From Inferno Require Import Base.Num Gen.Infra Gen.SynapseClasses C01.Ring C04.Synapse C04.HistProofs C04.GenTie.
Import ListNotations.

Arguments SingleExponentialCurrent_forward_spike N inputs_0 : assert.
Arguments SingleExponentialCurrent_forward_current N self_current self_dt self_spike_charge self_time_constant inputs_0 : assert.

Section Tie.
Variable NM : Num.

Theorem tie_SingleExp_forward_spike : forall x, boolify NM x = b2t NM (SingleExponentialCurrent_forward_spike NM x).
Proof. reflexivity. Qed.

(* the per-element update I' = I exp(-dt/tau) + Q/tau x *)
Theorem tie_SingleExp_forward_current : forall c i x,
  sexp_step NM (cdt NM c) (ctau NM c) (div NM (cQ NM c) (ctau NM c)) i x =
  SingleExponentialCurrent_forward_current NM i (cdt NM c) (cQ NM c) (ctau NM c) x.
Proof. reflexivity. Qed.

Theorem tie_SingleExp_forward : forall c s xsh xs inj, ckind NM c = KSingleExp ->
  forward NM c s xsh xs inj =
  match rpush NM c (spk NM s) xsh (map (fun x => b2t NM (SingleExponentialCurrent_forward_spike NM x)) xs) with
  | SErr e => SErr e
  | SOk spk' =>
      match rpush NM c (cur NM s) xsh
              (zipw (fun i x => SingleExponentialCurrent_forward_current NM i (cdt NM c) (cQ NM c) (ctau NM c) x)
                    (peek_row NM (cur NM s)) xs) with
      | SErr e => SErr e
      | SOk cur' => SOk (mkSyn NM spk' cur' (neg NM s), SOFloat NM (rshape_of NM cur') (peek_row NM cur'))
      end
  end.
Proof. intros c s xsh xs inj Ek. unfold forward, current_of. rewrite Ek. reflexivity. Qed.

Theorem tie_SingleExp_records :
  kind_writes KSingleExp = SingleExponentialCurrent_forward_writes /\ kind_writes KSingleExp = SingleExponentialCurrent_clear_resets.
Proof. split; reflexivity. Qed.

End Tie.
