(* C04 - tie of the model to the definitions generated from class SingleExponentialCurrent. *)
From Coq Require Import List ZArith Bool Arith Lia.
From Inferno Require Import Base.Num Gen.Infra Gen.SynapseClasses C01.Ring C04.Synapse C04.HistProofs C04.GenTie.
Import ListNotations.

Arguments SingleExponentialCurrent_forward_spike N inputs_0 : assert.
Arguments SingleExponentialCurrent_forward_current N self_current self_dt self_spike_charge self_time_constant inputs_0 : assert.

Section Tie.
Variable NM : Num.

Theorem tie_SingleExp_forward_spike : forall x, boolify NM x = b2t NM (SingleExponentialCurrent_forward_spike NM x).
Proof. reflexivity. Qed.

(* the per-element update I' = I exp(-dt/tau) + Q/tau x *)
Theorem tie_SingleExp_forward_current : forall c i x,
  sexp_step NM (cdt NM c) (ctau NM c) (div NM (cQ NM c) (ctau NM c)) i x =
  SingleExponentialCurrent_forward_current NM i (cdt NM c) (cQ NM c) (ctau NM c) x.
Proof. reflexivity. Qed.

Theorem tie_SingleExp_forward : forall c s xsh xs inj, ckind NM c = KSingleExp ->
  forward NM c s xsh xs inj =
  match rpush NM c (spk NM s) xsh (map (fun x => b2t NM (SingleExponentialCurrent_forward_spike NM x)) xs) with
  | SErr e => SErr e
  | SOk spk' =>
      match rpush NM c (cur NM s) xsh
              (zipw (fun i x => SingleExponentialCurrent_forward_current NM i (cdt NM c) (cQ NM c) (ctau NM c) x)
                    (peek_row NM (cur NM s)) xs) with
      | SErr e => SErr e
      | SOk cur' => SOk (mkSyn NM spk' cur' (neg NM s), SOFloat NM (rshape_of NM cur') (peek_row NM cur'))
      end
  end.
Proof. intros c s xsh xs inj Ek. unfold forward, current_of. rewrite Ek. reflexivity. Qed.

Theorem tie_SingleExp_records :
  kind_writes KSingleExp = SingleExponentialCurrent_forward_writes /\ kind_writes KSingleExp = SingleExponentialCurrent_clear_resets.
Proof. split; reflexivity. Qed.

(* the optional constructor arguments default to the values the harness assumes, for the constructor and for
   partialconstructor alike *)
Theorem tie_SingleExp_defaults :
  mode_of_code SingleExponentialCurrent_default_interp_mode = dflt_mode /\ SingleExponentialCurrent_default_delay NM = dflt_delay NM /\
  SingleExponentialCurrent_default_interp_tol NM = dflt_tol NM /\ SingleExponentialCurrent_default_current_overbound NM = dflt_cur_ob NM /\
  SingleExponentialCurrent_default_spike_overbound = dflt_spk_ob /\ SingleExponentialCurrent_default_batch_size = dflt_batch /\ SingleExponentialCurrent_default_inplace = dflt_inplace /\
  mode_of_code SingleExponentialCurrent_partial_default_interp_mode = dflt_mode /\ SingleExponentialCurrent_partial_default_interp_tol NM = dflt_tol NM /\
  SingleExponentialCurrent_partial_default_current_overbound NM = dflt_cur_ob NM /\ SingleExponentialCurrent_partial_default_spike_overbound = dflt_spk_ob /\
  SingleExponentialCurrent_partial_default_inplace = dflt_inplace.
Proof. repeat split; reflexivity. Qed.

End Tie.
