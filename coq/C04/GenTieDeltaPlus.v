(* C04 - tie of the model to the definitions generated from class DeltaPlusCurrent. *)
From Coq Require Import List ZArith Bool Arith Lia.
From Inferno Require Import Base.Num Gen.Infra Gen.SynapseClasses C01.Ring C04.Synapse C04.HistProofs C04.GenTie.
Import ListNotations.

Arguments DeltaPlusCurrent_forward_spike N inputs_0 : assert.
Arguments DeltaPlusCurrent_forward_current N self_dt self_spike_charge inputs_0 inputs_rest : assert.

Section Tie.
Variable NM : Num.

Theorem tie_DeltaPlus_forward_spike : forall x, boolify NM x = b2t NM (DeltaPlusCurrent_forward_spike NM x).
Proof. reflexivity. Qed.

(* the value pushed to the current record, element e: the generated sum of the pulse and the injected currents *)
Theorem tie_DeltaPlus_forward_current : forall c xs inj e n,
  length xs = n -> Forall (fun i => length i = n) inj -> e < n ->
  nth e (deltaplus_val NM c xs inj) (zero NM) =
  DeltaPlusCurrent_forward_current NM (cdt NM c) (cQ NM c) (nth e xs (zero NM)) (map (fun i => nth e i (zero NM)) inj).
Proof.
  intros c xs inj e n Hx Hi He. unfold deltaplus_val, DeltaPlusCurrent_forward_current.
  rewrite (nth_fold_zipw_gen NM (add NM) (zero NM) e inj _ n Hi) by (rewrite ?map_length; auto).
  f_equal.
  rewrite (nth_indep _ (zero NM) ((fun x => add NM (zero NM) (mul NM x (div NM (cQ NM c) (cdt NM c)))) (zero NM)))
    by (rewrite map_length; lia).
  apply (map_nth (fun x => add NM (zero NM) (mul NM x (div NM (cQ NM c) (cdt NM c))))).
Qed.

Theorem tie_DeltaPlus_forward : forall c s xsh xs inj, ckind NM c = KDeltaPlus ->
  forward NM c s xsh xs inj =
  match rpush NM c (spk NM s) xsh (map (fun x => b2t NM (DeltaPlusCurrent_forward_spike NM x)) xs) with
  | SErr e => SErr e
  | SOk spk' =>
      match rpush NM c (cur NM s) xsh (deltaplus_val NM c xs inj) with
      | SErr e => SErr e
      | SOk cur' => SOk (mkSyn NM spk' cur' (neg NM s), SOFloat NM (rshape_of NM cur') (peek_row NM cur'))
      end
  end.
Proof. intros c s xsh xs inj Ek. unfold forward, current_of. rewrite Ek. reflexivity. Qed.

Theorem tie_DeltaPlus_records :
  kind_writes KDeltaPlus = DeltaPlusCurrent_forward_writes /\ kind_writes KDeltaPlus = DeltaPlusCurrent_clear_resets.
Proof. split; reflexivity. Qed.

(* the optional constructor arguments default to the values the harness assumes, for the constructor and for
   partialconstructor alike *)
Theorem tie_DeltaPlus_defaults :
  mode_of_code DeltaPlusCurrent_default_interp_mode = dflt_mode /\ DeltaPlusCurrent_default_delay NM = dflt_delay NM /\
  DeltaPlusCurrent_default_interp_tol NM = dflt_tol NM /\ DeltaPlusCurrent_default_current_overbound NM = dflt_cur_ob NM /\
  DeltaPlusCurrent_default_spike_overbound = dflt_spk_ob /\ DeltaPlusCurrent_default_batch_size = dflt_batch /\ DeltaPlusCurrent_default_inplace = dflt_inplace /\
  mode_of_code DeltaPlusCurrent_partial_default_interp_mode = dflt_mode /\ DeltaPlusCurrent_partial_default_interp_tol NM = dflt_tol NM /\
  DeltaPlusCurrent_partial_default_current_overbound NM = dflt_cur_ob NM /\ DeltaPlusCurrent_partial_default_spike_overbound = dflt_spk_ob /\
  DeltaPlusCurrent_partial_default_inplace = dflt_inplace.
Proof. repeat split; reflexivity. Qed.

End Tie.
