(* C04, part 5 (no axioms, any numeric reading): configuration changes at run time (C04/Config.v).
   The invariant of HistProofs - the records hold exactly the past values determined by the inputs since the
   last clear, under the configuration IN FORCE - survives every run that mixes synapse operations with the
   configuration changes the property names (step time, maximum delay, in-place flag):
     - a dt / delay setter leaves the synapse in the constructor's state for the new configuration (all
       history resting, record size recomputed), so everything proved from the constructor applies again
       with the new step time / delay;
     - the in-place flag changes nothing observable;
     - while the time constant has not been reassigned, current_at reads the configuration in force.
   (batch-size changes and reassignment of spike_charge / time constants are modelled and covered by the
   correspondence check only.) *)
From Coq Require Import List ZArith Bool Arith Lia.
From Inferno Require Import Base.Num Gen.Infra C01.Ring C01.RingProofs C04.Synapse C04.Config C04.HistProofs.
Import ListNotations.

Section ConfigProofs.
Variable NM : Num.
Notation A := (T NM).
Notation cfg := (cfg NM).
Notation cst := (cst NM).
Notation cop := (cop NM).

(* ------------------------------------------------------------------ the in-place flag is not part of the invariant *)
Lemma cur_val_inplace c b p : cur_val NM (set_inplace NM c b) p = cur_val NM c p.
Proof. induction p as [|(xs, inj) p IH]; cbn [cur_val]; [reflexivity|]. cbn [set_inplace ckind]. rewrite IH. reflexivity. Qed.
Lemma neg_val_inplace c b p : neg_val NM (set_inplace NM c b) p = neg_val NM c p.
Proof. induction p as [|(xs, inj) p IH]; cbn [neg_val]; [reflexivity|]. cbn [set_inplace ckind]. rewrite IH. reflexivity. Qed.

Lemma Inv_set_inplace c s p b : Inv NM c s p -> Inv NM (set_inplace NM c b) s p.
Proof.
  intros I. constructor; try exact (inv_N _ _ _ _ I); try exact (inv_Nc _ _ _ _ I); try exact (inv_Nn _ _ _ _ I);
    try exact (inv_ws _ _ _ _ I); try exact (inv_wc _ _ _ _ I); try exact (inv_wn _ _ _ _ I).
  - exact (inv_hs _ _ _ _ I).
  - intros k Hk. rewrite (inv_hc _ _ _ _ I k Hk). unfold cur_hist. symmetry. apply cur_val_inplace.
  - intros k Hk. rewrite (inv_hn _ _ _ _ I k Hk). unfold neg_hist. symmetry. apply neg_val_inplace.
  - exact (inv_p _ _ _ _ I).
Qed.

(* ------------------------------------------------------------------ invariant of a configured synapse *)
Definition CInv (cs : cst) (p : past NM) : Prop :=
  Inv NM (ccfg NM cs) (csyn NM cs) p /\ ctau_i NM cs = ctau NM (ccfg NM cs).

(* the operations covered by the theorems below *)
Definition cop_ok (o : cop) : Prop :=
  match o with
  | CSyn _ o' => op_ok NM o'
  | CSetDt _ _ | CSetDelay _ _ | CSetInplace _ _ => True
  | _ => False
  end.

(* the inputs since the last clear: a successful dt / delay setter clears *)
Definition cspec_step (cs : cst) (p : past NM) (o : cop) : past NM :=
  match o with
  | CSyn _ o' => spec_step NM (ccfg NM cs) p o'
  | CSetDt _ v => if leb NM v (zero NM) then p else []
  | CSetDelay _ v => if ltb NM v (zero NM) then p else []
  | _ => p
  end.

Theorem cinit_inv c : CInv (cinit NM c) [].
Proof. split; [apply init_inv|reflexivity]. Qed.

(* a step-time / maximum-delay change: the constructor's state for the new configuration *)
Theorem set_dt_state cs v : leb NM v (zero NM) = false ->
  cstep NM cs (CSetDt NM v) =
  SOk (mkCst NM (set_dt NM (ccfg NM cs) v) (ctau_i NM cs) (init NM (set_dt NM (ccfg NM cs) v)), SOUnit NM).
Proof. intros H. cbn [cstep]. rewrite H. reflexivity. Qed.
Theorem set_delay_state cs v : ltb NM v (zero NM) = false ->
  cstep NM cs (CSetDelay NM v) =
  SOk (mkCst NM (set_delay NM (ccfg NM cs) v) (ctau_i NM cs) (init NM (set_delay NM (ccfg NM cs) v)), SOUnit NM).
Proof. intros H. cbn [cstep]. rewrite H. reflexivity. Qed.

(* while the time constant has not been reassigned, current_at reads the configuration in force *)
Lemma query_cfg_current_at cs ssh sel : ctau_i NM cs = ctau NM (ccfg NM cs) ->
  current_at NM (query_cfg NM cs) (csyn NM cs) ssh sel = current_at NM (ccfg NM cs) (csyn NM cs) ssh sel.
Proof.
  intros H. unfold query_cfg. destruct (ckind NM (ccfg NM cs)) eqn:Ek; try reflexivity.
  unfold current_at. cbn [set_tau ckind cdt cdelay ctol ctau ccur_ob]. rewrite Ek, H. reflexivity.
Qed.

Theorem cstep_inv cs p o : CInv cs p -> cop_ok o ->
  match cstep NM cs o with
  | SOk (cs', _) => CInv cs' (cspec_step cs p o)
  | SErr _ => cspec_step cs p o = p
  end.
Proof.
  intros (I & Ht) Hok. destruct o as [o'|v|v|b|b|v|v|v]; cbn [cop_ok] in Hok; try contradiction.
  - (* a synapse operation under the configuration in force *)
    assert (G : match sstep NM (ccfg NM cs) (csyn NM cs) o' with
                | SOk (s', _) => Inv NM (ccfg NM cs) s' (spec_step NM (ccfg NM cs) p o')
                | SErr _ => spec_step NM (ccfg NM cs) p o' = p
                end).
    { pose proof (sstep_inv NM _ _ _ o' I Hok) as H1.
      destruct (sstep NM (ccfg NM cs) (csyn NM cs) o') as [(s', out)|e] eqn:E; [exact H1|].
      apply (sstep_err_spec NM _ _ _ o' e I Hok E). }
    destruct o' as [xsh xs inj| | |ssh sel|ssh sel|ssh sel|ssh sel|]; cbn [cstep cspec_step];
      try (destruct (sstep NM (ccfg NM cs) (csyn NM cs) _) as [(s', out)|e]; [split; [exact G|exact Ht]|exact G]).
    (* current_at: the queried configuration *)
    cbn [sstep] in *. rewrite (query_cfg_current_at cs ssh sel Ht).
    destruct (lift_f NM (csyn NM cs) (current_at NM (ccfg NM cs) (csyn NM cs) ssh sel)) as [(s', out)|e];
      [split; [exact G|exact Ht]|exact G].
  - cbn [cstep cspec_step]. destruct (leb NM v (zero NM)); [reflexivity|]. split; [apply init_inv|exact Ht].
  - cbn [cstep cspec_step]. destruct (ltb NM v (zero NM)); [reflexivity|]. split; [apply init_inv|exact Ht].
  - cbn [cstep cspec_step]. split; [apply Inv_set_inplace; exact I|exact Ht].
Qed.

(* every run from the constructor that mixes synapse operations with step-time, maximum-delay and in-place
   changes: the records hold the past values determined by the inputs since the last clear (a dt / delay
   change clears), under the configuration in force *)
Theorem crun_inv : forall ops cs p, CInv cs p -> Forall cop_ok ops ->
  let final := fst (crun NM cs ops) in
  exists p', CInv final p'.
Proof.
  induction ops as [|o ops IH]; intros cs p I Hok; cbn [crun fst]; [exists p; exact I|].
  inversion Hok as [|? ? Ho Hops]; subst.
  pose proof (cstep_inv cs p o I Ho) as Hs.
  destruct (cstep NM cs o) as [(cs', out)|e] eqn:E.
  - destruct (IH cs' _ Hs Hops) as (p' & Hp'). destruct (crun NM cs' ops) as [sf outs]. exists p'. exact Hp'.
  - destruct (IH cs p I Hops) as (p' & Hp'). destruct (crun NM cs ops) as [sf outs]. exists p'. exact Hp'.
Qed.

(* the same with the history made explicit *)
Fixpoint cpast (cs : cst) (p : past NM) (ops : list cop) : past NM :=
  match ops with
  | [] => p
  | o :: tl =>
      match cstep NM cs o with
      | SOk (cs', _) => cpast cs' (cspec_step cs p o) tl
      | SErr _ => cpast cs p tl
      end
  end.

Theorem crun_inv_past : forall ops cs p, CInv cs p -> Forall cop_ok ops ->
  CInv (fst (crun NM cs ops)) (cpast cs p ops).
Proof.
  induction ops as [|o ops IH]; intros cs p I Hok; cbn [crun cpast fst]; [exact I|].
  inversion Hok as [|? ? Ho Hops]; subst.
  pose proof (cstep_inv cs p o I Ho) as Hs.
  destruct (cstep NM cs o) as [(cs', out)|e] eqn:E.
  - specialize (IH cs' _ Hs Hops). destruct (crun NM cs' ops) as [sf outs]. exact IH.
  - specialize (IH cs p I Hops). destruct (crun NM cs ops) as [sf outs]. exact IH.
Qed.

(* after a successful dt change nothing of the old configuration is left: the pulse of the next spike, the
   record size and every delayed read are those of a freshly constructed synapse with the new step time *)
Corollary after_set_dt cs v ops : leb NM v (zero NM) = false ->
  crun NM cs (CSetDt NM v :: ops) =
  let c' := set_dt NM (ccfg NM cs) v in
  let '(sf, outs) := crun NM (mkCst NM c' (ctau_i NM cs) (init NM c')) ops in (sf, inl (SOUnit NM) :: outs).
Proof. intros H. cbn [crun]. rewrite (set_dt_state cs v H). reflexivity. Qed.
Corollary after_set_delay cs v ops : ltb NM v (zero NM) = false ->
  crun NM cs (CSetDelay NM v :: ops) =
  let c' := set_delay NM (ccfg NM cs) v in
  let '(sf, outs) := crun NM (mkCst NM c' (ctau_i NM cs) (init NM c')) ops in (sf, inl (SOUnit NM) :: outs).
Proof. intros H. cbn [crun]. rewrite (set_delay_state cs v H). reflexivity. Qed.

(* a current_at query on a configured synapse is current_at under the configuration in force (so the
   read_at_delay / between-steps / overbound theorems of SynapseProofs apply to it verbatim) *)
Theorem cstep_current_at cs p ssh sel : CInv cs p ->
  cstep NM cs (CSyn NM (OCurrentAt NM ssh sel)) =
  match current_at NM (ccfg NM cs) (csyn NM cs) ssh sel with
  | SOk (sh, v) => SOk (cs, SOFloat NM sh v)
  | SErr e => SErr e
  end.
Proof.
  intros (I & Ht). cbn [cstep sstep]. rewrite (query_cfg_current_at cs ssh sel Ht).
  destruct (current_at NM (ccfg NM cs) (csyn NM cs) ssh sel) as [(sh, v)|e]; cbn [lift_f]; [|reflexivity].
  destruct cs; reflexivity.
Qed.

End ConfigProofs.
