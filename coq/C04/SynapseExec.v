(* Executable (binary64) instance of the synapse model for the correspondence check: operations as
   data, exact serialisation of every output and of the three records after every operation. *)
From Coq Require Import List ZArith Bool PrimFloat.
From Inferno Require Import Base.Num Base.NumF Gen.Infra Gen.Interpolation C01.Ring C04.Synapse C04.Config.
Import ListNotations.

Definition ringF := @ring float unit.

Definition kind_of (z : Z) : kind :=
  match z with 0%Z => KDelta | 1%Z => KDeltaPlus | 2%Z => KSingleExp | _ => KDoubleExp end.
Definition mode_of (z : Z) : imode := match z with 0%Z => IPrevious | _ => INearest end.

Definition ser_err (e : err) : tree := match e with ERuntime => L 1 | EValue => L 2 | EIndex => L 3 end%Z.
Definition ser_shape (s : list nat) : tree := ser_list ser_nat s.
Definition ser_b (x : float) : tree := ser_bool (to_bool FN x).
Definition ser_out (o : sout FN) : tree :=
  match o with
  | SOUnit _ => Nd [L 0]
  | SOFloat _ sh v => Nd [L 1; ser_shape sh; ser_list ser_float v]
  | SOBool _ sh v => Nd [L 2; ser_shape sh; ser_list ser_b v]
  end%Z.
Definition ser_ring (r : ringF) : tree :=
  match st r with
  | SFull _ sh rows => Nd [ser_nat (N r); ser_nat (ptr r); ser_shape sh; ser_list (ser_list ser_float) rows]
  | _ => Nd [ser_nat (N r); ser_nat (ptr r)]
  end.
Definition ser_state (s : syn FN) : tree := Nd [ser_ring (spk FN s); ser_ring (cur FN s); ser_ring (neg FN s)].

Fixpoint trace (c : cfg FN) (s : syn FN) (ops : list (sop FN)) : list tree :=
  match ops with
  | [] => []
  | o :: tl =>
      match sstep FN c s o with
      | SOk (s', out) => Nd [Nd [L 0; ser_out out]; ser_state s'] :: trace c s' tl
      | SErr e => Nd [Nd [L 1; ser_err e]; ser_state s] :: trace c s tl
      end
  end%Z.

Definition run_case (c : cfg FN) (ops : list (sop FN)) : tree :=
  Nd (Nd [ser_nat (recordsz FN (cdt FN c) (cdelay FN c))] :: trace c (init FN c) ops).

(* ---------- runs with configuration changes (C04/Config.v) ---------- *)
Fixpoint ctrace (cs : cst FN) (ops : list (cop FN)) : list tree :=
  match ops with
  | [] => []
  | o :: tl =>
      match cstep FN cs o with
      | SOk (cs', out) => Nd [Nd [L 0; ser_out out]; ser_state (csyn FN cs')] :: ctrace cs' tl
      | SErr e => Nd [Nd [L 1; ser_err e]; ser_state (csyn FN cs)] :: ctrace cs tl
      end
  end%Z.
Definition run_ccase (c : cfg FN) (ops : list (cop FN)) : tree :=
  Nd (Nd [ser_nat (recordsz FN (cdt FN c) (cdelay FN c))] :: ctrace (cinit FN c) ops).
