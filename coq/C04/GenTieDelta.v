(* C04 - tie of the model to the definitions generated from class DeltaCurrent. *)
From Coq Require Import List ZArith Bool Arith Lia.
From Inferno Require Import Base.Num Gen.Infra Gen.SynapseClasses C01.Ring C04.Synapse C04.HistProofs C04.GenTie.
Import ListNotations.

Arguments DeltaCurrent_forward_spike N inputs_0 : assert.
Arguments DeltaCurrent_spike_to_current N self_dt self_spike_charge spikes : assert.

Section Tie.
Variable NM : Num.

Theorem tie_Delta_forward_spike : forall x, boolify NM x = b2t NM (DeltaCurrent_forward_spike NM x).
Proof. reflexivity. Qed.

(* the derived current of a stored spike *)
Theorem tie_Delta_spike_to_current : forall c b,
  delta_to_current NM c (b2t NM b) = DeltaCurrent_spike_to_current NM (cdt NM c) (cQ NM c) b.
Proof. reflexivity. Qed.

(* forward: the spike is stored, nothing else; the derived current of the newest spikes is returned *)
Theorem tie_Delta_forward : forall c s xsh xs inj, ckind NM c = KDelta ->
  forward NM c s xsh xs inj =
  match rpush NM c (spk NM s) xsh (map (fun x => b2t NM (DeltaCurrent_forward_spike NM x)) xs) with
  | SErr e => SErr e
  | SOk spk' => SOk (mkSyn NM spk' (cur NM s) (neg NM s),
                     SOFloat NM (rshape_of NM spk') (map (delta_to_current NM c) (peek_row NM spk')))
  end.
Proof. intros c s xsh xs inj Ek. unfold forward, current_of. rewrite Ek. reflexivity. Qed.

Theorem tie_Delta_records : kind_writes KDelta = DeltaCurrent_forward_writes /\ kind_writes KDelta = DeltaCurrent_clear_resets.
Proof. split; reflexivity. Qed.

(* the optional constructor arguments default to the values the harness assumes, for the constructor and for
   partialconstructor alike *)
Theorem tie_Delta_defaults :
  mode_of_code DeltaCurrent_default_interp_mode = dflt_mode /\ DeltaCurrent_default_delay NM = dflt_delay NM /\
  DeltaCurrent_default_interp_tol NM = dflt_tol NM /\ DeltaCurrent_default_current_overbound NM = dflt_cur_ob NM /\
  DeltaCurrent_default_spike_overbound = dflt_spk_ob /\ DeltaCurrent_default_batch_size = dflt_batch /\ DeltaCurrent_default_inplace = dflt_inplace /\
  mode_of_code DeltaCurrent_partial_default_interp_mode = dflt_mode /\ DeltaCurrent_partial_default_interp_tol NM = dflt_tol NM /\
  DeltaCurrent_partial_default_current_overbound NM = dflt_cur_ob NM /\ DeltaCurrent_partial_default_spike_overbound = dflt_spk_ob /\
  DeltaCurrent_partial_default_inplace = dflt_inplace.
Proof. repeat split; reflexivity. Qed.

End Tie.
