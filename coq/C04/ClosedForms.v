(* C04, part 2 (reals): the value every synapse class holds after ANY input train equals the sum over
   past inputs of the documented impulse response.

   Independent spec: [isum resp xs] = sum over the inputs xs (newest first) of  x_j * resp j, where j is
   the age of the input in steps (0 = the input of the present step).  The synapse-side values
   ([cur_val], [neg_val], [cur_out] of HistProofs) are the recurrences the code runs; HistProofs shows
   that they are what forward returns and what the records hold.  *)
From Coq Require Import List ZArith Bool Arith Lia Reals Lra.
From Inferno Require Import Base.Num Base.NumR Gen.Infra C01.Ring C04.Synapse C04.HistProofs.
Import ListNotations.
Open Scope R_scope.
Notation Rexp := Rtrigo_def.exp.

Notation cfgR := (cfg RN).
Notation pastR := (past RN).

(* ------------------------------------------------------------------ the spec *)
Fixpoint isum (resp : nat -> R) (xs : list R) : R :=
  match xs with
  | [] => 0
  | x :: older => x * resp 0%nat + isum (fun j => resp (S j)) older
  end.

Lemma isum_ext r1 r2 xs : (forall j, r1 j = r2 j) -> isum r1 xs = isum r2 xs.
Proof.
  revert r1 r2. induction xs as [|x xs IH]; intros r1 r2 H; cbn; [reflexivity|].
  rewrite H. f_equal. apply IH. intros j. apply H.
Qed.
Lemma isum_scale a resp xs : isum (fun j => a * resp j) xs = a * isum resp xs.
Proof.
  revert resp. induction xs as [|x xs IH]; intros resp; cbn; [ring|].
  rewrite (IH (fun j => resp (S j))). ring.
Qed.
Lemma isum_minus r1 r2 xs : isum (fun j => r1 j - r2 j) xs = isum r1 xs - isum r2 xs.
Proof.
  revert r1 r2. induction xs as [|x xs IH]; intros r1 r2; cbn; [ring|].
  rewrite (IH (fun j => r1 (S j)) (fun j => r2 (S j))). ring.
Qed.
(* the same sum written with explicit indices *)
Lemma isum_as_indexed resp xs :
  isum resp xs = fold_right Rplus 0 (map (fun j => nth j xs 0 * resp j) (seq 0 (length xs))).
Proof.
  revert resp. induction xs as [|x xs IH]; intros resp; cbn [isum length seq map fold_right nth]; [reflexivity|].
  rewrite IH. f_equal. rewrite <- seq_shift, map_map. reflexivity.
Qed.

(* the inputs one synapse (element e of the flattened batch x shape tensor) received, newest first *)
Definition train (p : pastR) (e : nat) : list R := map (fun x => nth e (fst x) 0) p.
(* the same as spikes (inputs[0].bool()) *)
Definition btrain (p : pastR) (e : nat) : list R := map (fun x => boolify RN (nth e (fst x) 0)) p.
(* the current injected into synapse e at the newest step *)
Definition injected (p : pastR) (e : nat) : R :=
  match p with [] => 0 | (_, inj) :: _ => fold_left Rplus (map (fun i => nth e i 0) inj) 0 end.

(* documented responses, age j steps = j * dt ms *)
Definition resp_delta (Q dt : R) (j : nat) : R := match j with O => Q / dt | S _ => 0 end.
Definition resp_exp (k dt tau : R) (j : nat) : R := k * Rexp (- (INR j * dt) / tau).

Lemma isum_zero l : isum (fun _ => 0) l = 0.
Proof. induction l as [|y l IH]; cbn [isum]; [reflexivity|]. rewrite IH. ring. Qed.
Lemma resp_delta_tail Q dt l : isum (fun j => resp_delta Q dt (S j)) l = 0.
Proof. rewrite (isum_ext _ (fun _ => 0)) by reflexivity. apply isum_zero. Qed.

(* ------------------------------------------------------------------ the scalar recurrence *)
Lemma resp_exp_S k dt tau j : resp_exp k dt tau (S j) = Rexp (- dt / tau) * resp_exp k dt tau j.
Proof.
  unfold resp_exp. rewrite S_INR.
  replace (- ((INR j + 1) * dt) / tau) with (- dt / tau + - (INR j * dt) / tau) by (unfold Rdiv; ring).
  rewrite exp_plus. ring.
Qed.

Lemma sexp_step_closed (dt tau k x : R) (older : list R) :
  sexp_step RN dt tau k (isum (resp_exp k dt tau) older) x = isum (resp_exp k dt tau) (x :: older).
Proof.
  unfold sexp_step. rn_simpl. cbn [isum].
  rewrite (isum_ext (fun j => resp_exp k dt tau (S j)) (fun j => Rexp (- dt / tau) * resp_exp k dt tau j))
    by (intros j; apply resp_exp_S).
  rewrite isum_scale. unfold resp_exp at 2. cbn [INR].
  replace (- (0 * dt) / tau) with 0 by (unfold Rdiv; ring). rewrite exp_0. ring.
Qed.

(* ------------------------------------------------------------------ rows -> elements *)
Lemma nth_zrow c e : nth e (zrow RN c) 0 = 0.
Proof. unfold zrow. rn_simpl. destruct (Nat.lt_ge_cases e (nel (cshape RN c))); [apply nth_repeat|apply nth_overflow; rewrite repeat_length; lia]. Qed.

Lemma nth_fold_zipw e inj : forall acc n, Forall (fun i : list R => length i = n) inj -> length acc = n -> (e < n)%nat ->
  nth e (fold_left (zipw Rplus) inj acc) 0 = fold_left Rplus (map (fun i => nth e i 0) inj) (nth e acc 0).
Proof.
  induction inj as [|i inj IH]; intros acc n Hall Hacc He; cbn [fold_left map]; [reflexivity|].
  inversion Hall as [|? ? Hi Hinj]; subst.
  assert (Hz : length (zipw Rplus acc i) = length acc) by (rewrite zipw_length; lia).
  rewrite (IH (zipw Rplus acc i) (length acc) Hinj Hz He).
  rewrite (nth_zipw Rplus acc i e 0 0 0) by lia. reflexivity.
Qed.
Lemma fold_left_Rplus_acc l a : fold_left Rplus l a = a + fold_left Rplus l 0.
Proof.
  revert a. induction l as [|x l IH]; intros a; cbn [fold_left]; [ring|].
  rewrite (IH (a + x)), (IH (0 + x)). ring.
Qed.

Section Closed.
Variable c : cfgR.
(* length side conditions: list (T RN) and list R are the same type, make it syntactically so for lia *)
Ltac lens :=
  repeat match goal with
  | Hp : Forall (entry_ok RN c) ?p |- _ =>
      lazymatch goal with
      | _ : length (cur_val RN c p) = _ |- _ => fail
      | _ => pose proof (cur_val_length RN c p Hp); pose proof (neg_val_length RN c p Hp)
      end
  end;
  change (T RN) with R in *; rewrite ?map_length; lia.
Notation n := (nel (cshape RN c)).

(* single exponential: I = sum over past inputs of  Q/tau * exp(-age/tau) *)
Theorem single_exp_closed_form (p : pastR) e : ckind RN c = KSingleExp -> Forall (entry_ok RN c) p -> (e < n)%nat ->
  nth e (cur_out RN c p) 0 = isum (resp_exp (cQ RN c / ctau RN c) (cdt RN c) (ctau RN c)) (train p e).
Proof.
  intros Ek Hp He. unfold cur_out. rewrite Ek.
  induction Hp as [|(xs, inj) p (Hx & Hi) Hp IH]; cbn [cur_val train map].
  - apply nth_zrow.
  - rewrite Ek. unfold singleexp_val. cbn [fst snd] in *.
    rewrite (nth_zipw _ _ _ e 0 0 0) by lens.
    change (T RN) with R in *. rewrite IH. rn_simpl. apply sexp_step_closed.
Qed.

(* double exponential: I = sum over past inputs of  Q/(tau_d - tau_r) * (exp(-age/tau_d) - exp(-age/tau_r)) *)
Lemma pos_closed_form (p : pastR) e : ckind RN c = KDoubleExp -> Forall (entry_ok RN c) p -> (e < n)%nat ->
  nth e (cur_val RN c p) 0 = isum (resp_exp (cQ RN c / (ctau RN c - ctr RN c)) (cdt RN c) (ctau RN c)) (train p e).
Proof.
  intros Ek Hp He.
  induction Hp as [|(xs, inj) p (Hx & Hi) Hp IH]; cbn [cur_val train map].
  - apply nth_zrow.
  - rewrite Ek. unfold doubleexp_pos, dexp_k. cbn [fst snd] in *.
    rewrite (nth_zipw _ _ _ e 0 0 0) by lens.
    change (T RN) with R in *. rewrite IH. rn_simpl. apply sexp_step_closed.
Qed.
Lemma neg_closed_form (p : pastR) e : ckind RN c = KDoubleExp -> Forall (entry_ok RN c) p -> (e < n)%nat ->
  nth e (neg_val RN c p) 0 = isum (resp_exp (cQ RN c / (ctau RN c - ctr RN c)) (cdt RN c) (ctr RN c)) (train p e).
Proof.
  intros Ek Hp He.
  induction Hp as [|(xs, inj) p (Hx & Hi) Hp IH]; cbn [neg_val train map].
  - apply nth_zrow.
  - rewrite Ek. unfold doubleexp_neg, dexp_k. cbn [fst snd] in *.
    rewrite (nth_zipw _ _ _ e 0 0 0) by lens.
    change (T RN) with R in *. rewrite IH. rn_simpl. apply sexp_step_closed.
Qed.

Definition resp_dexp (Q dt td tr : R) (j : nat) : R :=
  Q / (td - tr) * (Rexp (- (INR j * dt) / td) - Rexp (- (INR j * dt) / tr)).

Theorem double_exp_closed_form (p : pastR) e : ckind RN c = KDoubleExp -> Forall (entry_ok RN c) p -> (e < n)%nat ->
  nth e (cur_out RN c p) 0 = isum (resp_dexp (cQ RN c) (cdt RN c) (ctau RN c) (ctr RN c)) (train p e).
Proof.
  intros Ek Hp He. unfold cur_out. rewrite Ek.
  rewrite (nth_zipw _ _ _ e 0 0 0) by lens.
  pose proof (pos_closed_form p e Ek Hp He) as H1. pose proof (neg_closed_form p e Ek Hp He) as H2.
  change (T RN) with R in *. rewrite H1, H2. rn_simpl.
  rewrite <- isum_minus. apply isum_ext. intros j. unfold resp_exp, resp_dexp. ring.
Qed.

(* delta: I = Q/dt if there was a spike in the present step, else 0 - i.e. the impulse-response sum with
   a pulse of one step *)
Theorem delta_closed_form (p : pastR) e : ckind RN c = KDelta -> Forall (entry_ok RN c) p -> (e < n)%nat ->
  nth e (cur_out RN c p) 0 = isum (resp_delta (cQ RN c) (cdt RN c)) (btrain p e).
Proof.
  intros Ek Hp He. unfold cur_out. rewrite Ek. unfold spike_hist.
  destruct Hp as [|(xs, inj) p (Hx & Hi) Hp]; cbn [nth_error btrain map isum].
  - rewrite (nth_indep _ 0 (delta_to_current RN c 0)), map_nth, nth_zrow.
    + unfold delta_to_current. rn_simpl. ring.
    + rewrite map_length. apply Nat.lt_le_trans with (1 := He). unfold zrow. rewrite repeat_length. lia.
  - cbn [fst] in *. rewrite (nth_indep _ 0 (delta_to_current RN c (boolify RN 0))) by lens.
    rewrite map_nth, map_nth. unfold delta_to_current. rn_simpl.
    rewrite resp_delta_tail. unfold resp_delta. ring.
Qed.

(* delta plus: the pulse response plus the current injected in the present step *)
Theorem deltaplus_closed_form (p : pastR) e : ckind RN c = KDeltaPlus -> Forall (entry_ok RN c) p -> (e < n)%nat ->
  nth e (cur_out RN c p) 0 = isum (resp_delta (cQ RN c) (cdt RN c)) (train p e) + injected p e.
Proof.
  intros Ek Hp He. unfold cur_out. rewrite Ek.
  destruct Hp as [|(xs, inj) p (Hx & Hi) Hp]; cbn [cur_val train map isum injected].
  - rewrite nth_zrow. rn_simpl. lra.
  - rewrite Ek. unfold deltaplus_val. cbn [fst snd] in *. rn_simpl.
    rewrite (nth_fold_zipw e inj _ n Hi) by (rewrite ?map_length; auto).
    rewrite fold_left_Rplus_acc.
    rewrite (nth_indep _ 0 ((fun x => 0 + x * (cQ RN c / cdt RN c)) 0)) by lens.
    rewrite (map_nth (fun x : R => 0 + x * (cQ RN c / cdt RN c)) xs 0 e).
    rewrite resp_delta_tail. unfold resp_delta. ring.
Qed.

End Closed.

(* for a genuine spike train (inputs 0 / 1) the boolean train is the train *)
Lemma boolify_bit x : x = 0 \/ x = 1 -> boolify RN x = x.
Proof.
  intros [->| ->]; unfold boolify, to_bool, neb, b2t; rn_simpl.
  - destruct (Reqb'_spec 0 0); [reflexivity|contradiction].
  - destruct (Reqb'_spec 1 0); [lra|reflexivity].
Qed.
Lemma btrain_bits (p : pastR) e : Forall (fun x => nth e (fst x) 0 = 0 \/ nth e (fst x) 0 = 1) p -> btrain p e = train p e.
Proof.
  induction 1 as [|x p Hx _ IH]; cbn [btrain train map]; [reflexivity|].
  rewrite boolify_bit by exact Hx. f_equal. exact IH.
Qed.
