(* C04, part 3 (reals): the arithmetic of a delayed read.
   - record size from (dt, delay, inclusive=True): covers the delay, is 1 exactly when the delay is 0;
   - RecordTensor.select (tensor path, offset 1): a time within tolerance of k*dt reads exactly the
     observation k steps ago; any other time interpolates between the two bracketing observations with
     sample time = time since the older one;
   - _synparam_at: clamp + overbound: a selector in [-tol, delay+tol] returns the value selected at the
     clamped time, anything else the configured out-of-bounds value (the value at the limit when None);
     the range check of select can never fire; result has the selector's shape (delayed and undelayed). *)
From Coq Require Import List ZArith Bool Arith Lia Reals Lra.
From Flocq Require Import Core.Raux Core.Generic_fmt.
From Inferno Require Import Base.Num Base.NumR Gen.Infra Gen.Interpolation C01.Ring C01.RingProofs C04.Synapse C04.HistProofs.
Import ListNotations.
Open Scope R_scope.
Notation Rexp := Rtrigo_def.exp.

Notation ringR := (@ring R unit).
Notation atR := (@at_ R unit).

(* ------------------------------------------------------------------ record size *)
Lemma recordsz_spec dt delay : 0 < dt -> 0 <= delay ->
  let n := recordsz RN dt delay in
  (1 <= n)%nat /\ delay <= dt * IZR (Z.of_nat n - 1) /\ dt * IZR (Z.of_nat n - 1) < delay + dt /\
  (n = 1%nat <-> delay = 0).
Proof.
  intros Hdt Hd n. unfold n, recordsz, recordsz_expr. rn_simpl. cbn [Z.b2z].
  set (q := delay / dt).
  assert (Hq : 0 <= q) by (unfold q; apply Rmult_le_pos; [lra|]; left; apply Rinv_0_lt_compat; lra).
  assert (Hqd : q * dt = delay) by (unfold q; field; lra).
  pose proof (Zceil_ub q) as Hub. pose proof (Zceil_lb q) as Hlb.
  assert (Hc : (0 <= Zceil q)%Z) by (apply le_IZR; lra).
  rewrite Z.max_l by lia.
  replace (Z.of_nat (Z.to_nat (Zceil q + 1)) - 1)%Z with (Zceil q) by lia.
  repeat split.
  - lia.
  - nra.
  - nra.
  - intros H. assert (E : Zceil q = 0%Z) by lia. rewrite E in Hub. nra.
  - intros ->. unfold q. replace (0 / dt) with (IZR 0) by (unfold Rdiv; rewrite Rmult_0_l; reflexivity).
    rewrite Zceil_IZR. reflexivity.
Qed.

(* ------------------------------------------------------------------ select: on / off the step grid *)
Section Grid.
Variables dt tol : R.
Hypothesis Hdt : 0 < dt.
Hypothesis Htol : 0 <= tol < dt / 2.

Lemma rne_on_grid t k : Rabs (IZR k * dt - t) <= tol -> rneZ RN (shift_of RN dt t) = k.
Proof.
  intros H. unfold shift_of. rn_simpl. apply Znearest_imp.
  apply Rabs_le_inv in H.
  assert (Hi : 0 < / dt) by (apply Rinv_0_lt_compat; lra).
  assert (H1 : dt * / dt = 1) by (field; lra).
  replace (t / dt - IZR k) with ((t - IZR k * dt) * / dt) by (field; lra).
  apply Rabs_def1; nra.
Qed.

Lemma on_grid_true t k : Rabs (IZR k * dt - t) <= tol -> on_grid RN dt tol t = true.
Proof.
  intros H. unfold on_grid. rewrite (rne_on_grid t k H). rn_simpl.
  destruct (Rleb'_spec (Rabs (dt * IZR k - t)) tol) as [_|Hn]; [reflexivity|].
  exfalso. apply Hn. replace (dt * IZR k - t) with (IZR k * dt - t) by ring. exact H.
Qed.

Lemma on_grid_false t : (forall k, tol < Rabs (IZR k * dt - t)) -> on_grid RN dt tol t = false.
Proof.
  intros H. unfold on_grid. set (k0 := rneZ RN (shift_of RN dt t)). rn_simpl.
  destruct (Rleb'_spec (Rabs (dt * IZR k0 - t)) tol) as [Hy|_]; [|reflexivity].
  exfalso. specialize (H k0). replace (IZR k0 * dt - t) with (dt * IZR k0 - t) in H by ring. lra.
Qed.

(* select, with the record abstracted to "h z = the value z steps before the write position" *)
Definition sel_h (h : Z -> R) (interp : interp_fn RN) (t : R) : R :=
  let shift := snapped RN dt tol t in
  let o := 1 + shift in
  let pk := Zceil o in
  let nk := Zfloor o in
  if Z.eqb pk nk then h pk else interp (h pk) (h nk) (sample_at RN dt shift) dt.

Lemma sel_elem_h sh (r : ringR) interp e t : wfr RN sh r ->
  sel_elem RN r dt tol interp e t = sel_h (fun z => nth e (atR r z) 0) interp t.
Proof.
  intros (_ & Hst & _). unfold sel_elem, sel_h, RingProofs.at_, RingProofs.rows. rewrite Hst. rn_simpl. reflexivity.
Qed.

(* a time within tolerance of k steps reads exactly the observation k steps ago: no interpolation *)
Theorem sel_h_on_grid h interp t k : Rabs (IZR k * dt - t) <= tol -> sel_h h interp t = h (1 + k)%Z.
Proof.
  intros H. unfold sel_h, snapped. rewrite (on_grid_true t k H), (rne_on_grid t k H). rn_simpl.
  replace (1 + IZR k) with (IZR (1 + k)) by (rewrite plus_IZR; ring).
  rewrite Zceil_IZR, Zfloor_IZR, Z.eqb_refl. reflexivity.
Qed.

(* any other time: interpolation between the bracketing observations - the older one (ceil) as prev_data,
   the newer one (floor) as next_data, sample time = time elapsed since the older observation *)
Theorem sel_h_off_grid h interp t : (forall k, tol < Rabs (IZR k * dt - t)) ->
  let q := t / dt in
  Zceil q = (Zfloor q + 1)%Z /\
  0 < IZR (Zceil q) * dt - t < dt /\
  sel_h h interp t = interp (h (1 + Zceil q)%Z) (h (1 + Zfloor q)%Z) (IZR (Zceil q) * dt - t) dt.
Proof.
  intros H q. unfold sel_h, snapped. rewrite (on_grid_false t H). unfold shift_of. rn_simpl. fold q.
  assert (Hqd : q * dt = t) by (unfold q; field; lra).
  assert (Hni : IZR (Zfloor q) <> q).
  { intros E. specialize (H (Zfloor q)). rewrite E, Hqd in H.
    replace (t - t) with 0 in H by ring. rewrite Rabs_R0 in H. lra. }
  pose proof (Zceil_floor_neq q Hni) as Hcf.
  pose proof (Zfloor_lb q) as Hfl. pose proof (Zfloor_ub q) as Hfu.
  assert (Hc : Zceil (1 + q) = (1 + Zceil q)%Z).
  { apply Zceil_imp. rewrite Hcf. rewrite !minus_IZR, !plus_IZR. cbn [IZR IPR]. split; lra. }
  assert (Hf : Zfloor (1 + q) = (1 + Zfloor q)%Z).
  { apply Zfloor_imp. rewrite !plus_IZR. cbn [IZR IPR]. split; lra. }
  rewrite Hc, Hf.
  replace (Z.eqb (1 + Zceil q) (1 + Zfloor q)) with false by (symmetry; apply Z.eqb_neq; lia).
  assert (Hs : sample_at RN dt q = IZR (Zceil q) * dt - t).
  { unfold sample_at, frac1. rn_simpl. rewrite Hcf, plus_IZR. cbn [IZR IPR]. rewrite <- Hqd. ring. }
  rewrite Hs. split; [exact Hcf|]. split; [|reflexivity].
  rewrite Hcf, plus_IZR. cbn [IZR IPR]. rewrite <- Hqd. split; nra.
Qed.

(* the shipped interpolation rules, applied between steps *)
Corollary sel_h_previous h t : (forall k, tol < Rabs (IZR k * dt - t)) ->
  sel_h h (interp_previous RN) t = h (1 + Zceil (t / dt))%Z.
Proof. intros H. destruct (sel_h_off_grid h (interp_previous RN) t H) as (_ & _ & ->). reflexivity. Qed.

Corollary sel_h_nearest h t : (forall k, tol < Rabs (IZR k * dt - t)) ->
  sel_h h (interp_nearest RN) t =
  if Rlt_dec (dt / 2) (IZR (Zceil (t / dt)) * dt - t) then h (1 + Zfloor (t / dt))%Z else h (1 + Zceil (t / dt))%Z.
Proof.
  intros H. destruct (sel_h_off_grid h (interp_nearest RN) t H) as (_ & Hb & ->).
  unfold interp_nearest, gtb. rn_simpl. set (sa := IZR (Zceil (t / dt)) * dt - t) in *.
  assert (Hi : 0 < / dt) by (apply Rinv_0_lt_compat; lra).
  assert (H1 : dt * / dt = 1) by (field; lra).
  destruct (Rltb'_spec (/ 2) (sa / dt)) as [Hy|Hn]; destruct (Rlt_dec (dt / 2) sa) as [Hy'|Hn']; try reflexivity; exfalso.
  - apply Hn'. unfold Rdiv in Hy. nra.
  - apply Hn. unfold Rdiv. nra.
Qed.

Corollary sel_h_expdecay h tau t : (forall k, tol < Rabs (IZR k * dt - t)) ->
  sel_h h (interp_decay RN tau) t = h (1 + Zceil (t / dt))%Z * Rexp (- (IZR (Zceil (t / dt)) * dt - t) / tau).
Proof.
  intros H. destruct (sel_h_off_grid h (interp_decay RN tau) t H) as (_ & _ & ->).
  unfold interp_decay, interp_expdecay. rn_simpl. reflexivity.
Qed.

End Grid.

(* ------------------------------------------------------------------ clamp and overbound *)
Lemma clamp_spec dur t : 0 <= dur ->
  clamp_sel RN dur t = if Rlt_dec t 0 then 0 else if Rlt_dec dur t then dur else t.
Proof.
  intros Hd. unfold clamp_sel, tmin, tmax. rn_simpl.
  destruct (Rltb'_spec t 0) as [H0|H0]; destruct (Rlt_dec t 0) as [H0'|H0']; try lra.
  - destruct (Rltb'_spec dur 0); [lra|reflexivity].
  - destruct (Rltb'_spec dur t); destruct (Rlt_dec dur t); try lra; reflexivity.
Qed.

Lemma clamp_bounds dur t : 0 <= dur -> 0 <= clamp_sel RN dur t <= dur.
Proof.
  intros Hd. rewrite (clamp_spec dur t Hd). destruct (Rlt_dec t 0); [lra|]. destruct (Rlt_dec dur t); lra.
Qed.
Lemma clamp_id dur t : 0 <= t <= dur -> clamp_sel RN dur t = t.
Proof.
  intros H. rewrite (clamp_spec dur t) by lra. destruct (Rlt_dec t 0); [lra|]. destruct (Rlt_dec dur t); lra.
Qed.

(* (selector - bounded_selector).abs() <= tolerance  <->  the selector is within tolerance of the supported range *)
Lemma within_iff dur tol t : 0 <= dur -> 0 <= tol ->
  leb RN (abs RN (sub RN t (clamp_sel RN dur t))) tol = true <-> - tol <= t <= dur + tol.
Proof.
  intros Hd Ht. rewrite (clamp_spec dur t Hd). rn_simpl.
  destruct (Rlt_dec t 0) as [H0|H0]; [|destruct (Rlt_dec dur t) as [H1|H1]].
  - replace (t - 0) with t by ring. rewrite Rabs_left by lra.
    destruct (Rleb'_spec (- t) tol); split; intros; try lra; try discriminate; reflexivity.
  - rewrite Rabs_pos_eq by lra.
    destruct (Rleb'_spec (t - dur) tol); split; intros; try lra; try discriminate; reflexivity.
  - replace (t - t) with 0 by ring. rewrite Rabs_R0.
    destruct (Rleb'_spec 0 tol); split; intros; try lra; try discriminate; reflexivity.
Qed.

(* select's range check cannot fire on a clamped selector *)
Lemma clamped_in_range n dt dur tol t : 0 < dt -> 0 <= tol -> 0 <= dur -> dur <= dt * IZR (Z.of_nat n - 1) ->
  out_of_range RN n dt tol (clamp_sel RN dur t) = false.
Proof.
  intros Hdt Ht Hd Hn. pose proof (clamp_bounds dur t Hd) as Hb. unfold out_of_range, gtb. rn_simpl.
  destruct (Rltb'_spec (clamp_sel RN dur t) (- tol)); [lra|].
  destruct (Rltb'_spec (dt * IZR (Z.of_nat n - 1) + tol) (clamp_sel RN dur t)); [lra|reflexivity].
Qed.

(* what _synparam_at returns for one selector value *)
Definition read_one (selv : nat -> R -> R) (dur tol : R) (ob : option R) (e : nat) (t : R) : R :=
  let b := clamp_sel RN dur t in
  let v := selv e b in
  match ob with
  | None => v
  | Some o => if leb RN (abs RN (sub RN t b)) tol then v else o
  end.

(* queries beyond the supported delay return the configured out-of-bounds value, the value at the
   limit when none is configured; queries inside return the value selected at that time *)
Theorem overbound_spec selv dur tol ob e t : 0 <= dur -> 0 <= tol ->
  read_one selv dur tol ob e t =
  if Rle_dec (- tol) t then
    if Rle_dec t (dur + tol) then selv e (clamp_sel RN dur t)
    else match ob with Some o => o | None => selv e dur end
  else match ob with Some o => o | None => selv e 0 end.
Proof.
  intros Hd Ht. unfold read_one. pose proof (within_iff dur tol t Hd Ht) as Hw.
  pose proof (clamp_spec dur t Hd) as Hc.
  destruct (Rle_dec (- tol) t) as [H1|H1]; [destruct (Rle_dec t (dur + tol)) as [H2|H2]|].
  - destruct ob as [o|]; [|reflexivity]. rewrite (proj2 Hw) by lra. reflexivity.
  - assert (E : clamp_sel RN dur t = dur).
    { rewrite Hc. destruct (Rlt_dec t 0); [lra|]. destruct (Rlt_dec dur t); lra. }
    destruct ob as [o|]; [|now rewrite E].
    destruct (leb RN (abs RN (sub RN t (clamp_sel RN dur t))) tol) eqn:E'; [|reflexivity].
    pose proof (proj1 Hw eq_refl). lra.
  - assert (E : clamp_sel RN dur t = 0).
    { rewrite Hc. destruct (Rlt_dec t 0); lra. }
    destruct ob as [o|]; [|now rewrite E].
    destruct (leb RN (abs RN (sub RN t (clamp_sel RN dur t))) tol) eqn:E'; [|reflexivity].
    pose proof (proj1 Hw eq_refl). lra.
Qed.

(* ------------------------------------------------------------------ shapes: the result has the selector's shape *)
Lemma nel_app a b : nel (a ++ b) = (nel a * nel b)%nat.
Proof. unfold nel. induction a as [|x a IH]; cbn [app fold_right]; [lia|]. fold (nel (a ++ b)) in *. rewrite IH. lia. Qed.
Lemma nel_rev a : nel (rev a) = nel a.
Proof. induction a as [|x a IH]; cbn [rev]; [reflexivity|]. rewrite nel_app, IH. unfold nel. cbn. lia. Qed.

Lemma src_rev_same o : forall i stride, (i < nel o)%nat -> src_rev o o i stride = (i * stride)%nat.
Proof.
  induction o as [|od o IH]; intros i stride Hi; cbn [src_rev].
  - unfold nel in Hi. cbn in Hi. lia.
  - change (nel (od :: o)) with (od * nel o)%nat in Hi.
    assert (Hod : od <> 0%nat) by (intros ->; lia).
    rewrite IH by (apply Nat.div_lt_upper_bound; lia).
    pose proof (Nat.div_mod i od Hod) as Hdm.
    destruct (Nat.eqb_spec od 1) as [->|Hne].
    + rewrite Nat.div_1_r. lia.
    + nia.
Qed.
Lemma bsrc_same sh i : (i < nel sh)%nat -> bsrc sh sh i = i.
Proof. intros Hi. unfold bsrc. rewrite src_rev_same by (rewrite nel_rev; exact Hi). lia. Qed.
Lemma bsrc_expand sh d i : (i < nel sh * d)%nat -> bsrc (sh ++ [d]) (sh ++ [1%nat]) i = (i / d)%nat.
Proof.
  intros Hi. unfold bsrc. rewrite !rev_app_distr. cbn [rev app src_rev Nat.eqb].
  assert (Hd : d <> 0%nat) by (intros ->; lia).
  rewrite src_rev_same by (rewrite nel_rev; apply Nat.div_lt_upper_bound; lia). lia.
Qed.
Lemma bc_rev_same a : bc_rev a a = Some a.
Proof. induction a as [|x a IH]; cbn [bc_rev]; [reflexivity|]. rewrite IH, Nat.eqb_refl. reflexivity. Qed.
Lemma bcast_same sh : bcast sh sh = Some sh.
Proof. unfold bcast. rewrite bc_rev_same, rev_involutive. reflexivity. Qed.

Lemma nth_map_seq0 {X} (d : X) (f : nat -> X) n i : (i < n)%nat -> nth i (map f (seq 0 n)) d = f i.
Proof. exact (nth_map_seq' RN d f n i). Qed.

Lemma where_bc_same sh (cond : list bool) (res : list R) o :
  where_bc RN sh cond sh res o =
  SOk (sh, map (fun i => if nth i cond false then nth i res 0 else o) (seq 0 (nel sh))).
Proof.
  unfold where_bc. rewrite bcast_same. f_equal. f_equal. apply map_ext_in. intros i Hi.
  apply in_seq in Hi. rewrite !bsrc_same by lia. reflexivity.
Qed.

Lemma expand_ok sh d (vals : list R) :
  expand_to RN (sh ++ [1%nat]) (sh ++ [d]) vals =
  SOk (sh ++ [d], map (fun i => nth (i / d) vals 0) (seq 0 (nel sh * d))).
Proof.
  unfold expand_to. rewrite !app_length, Nat.eqb_refl. cbn [andb].
  assert (Hf : forallb (fun p => (fst p =? snd p)%nat || (fst p =? 1)%nat) (combine (sh ++ [1%nat]) (sh ++ [d])) = true).
  { induction sh as [|x sh IH]; cbn [app combine forallb fst snd].
    - rewrite orb_true_r. reflexivity.
    - rewrite Nat.eqb_refl. cbn [orb andb]. exact IH. }
  rewrite Hf. rewrite nel_app. replace (nel [d]) with d by (unfold nel; cbn; lia).
  f_equal. f_equal. apply map_ext_in. intros i Hi. apply in_seq in Hi. rewrite bsrc_expand by lia. reflexivity.
Qed.

Lemma flat_map_single {X Y} (g : X -> Y) l : flat_map (fun e => [g e]) l = map g l.
Proof. induction l as [|x l IH]; cbn; [reflexivity|]. now rewrite IH. Qed.

Section ParamAt.
Variables (n : nat) (sh : list nat) (peekv : list R) (selv : nat -> R -> R) (dt dur tol : R) (ob : option R).
Hypothesis Hdt : 0 < dt.
Hypothesis Htol : 0 <= tol.
Hypothesis Hdur : 0 <= dur <= dt * IZR (Z.of_nat n - 1).

Lemma no_range_error sel : existsb (out_of_range RN n dt tol) (map (clamp_sel RN dur) sel) = false.
Proof.
  induction sel as [|t sel IH]; cbn [map existsb]; [reflexivity|].
  rewrite clamped_in_range by lra. exact IH.
Qed.

(* delayed record (recordsz > 1): never raises; with a selector of the observation's shape the result has
   that shape, with a trailing axis of d selectors per synapse it has shape sh ++ [d]; every entry is
   read_one of its own selector value *)
Theorem param_at_delayed_D d sel : n <> 1%nat ->
  param_at RN n sh peekv selv dt dur tol ob (sh ++ [d]) sel =
  SOk (sh ++ [d], flat_map (fun e => map (fun j => read_one selv dur tol ob e (nth (e * d + j) sel 0)) (seq 0 d))
                           (seq 0 (nel sh))).
Proof.
  intros Hn. unfold param_at. replace (n =? 1)%nat with false by (symmetry; apply Nat.eqb_neq; exact Hn).
  rewrite app_length. cbn [length]. replace (length sh + 1 =? length sh)%nat with false by (symmetry; apply Nat.eqb_neq; lia).
  replace (length sh + 1 =? S (length sh))%nat with true by (symmetry; apply Nat.eqb_eq; lia). cbn [orb negb].
  rewrite no_range_error. rewrite last_last. reflexivity.
Qed.

Theorem param_at_delayed_flat sel : n <> 1%nat ->
  param_at RN n sh peekv selv dt dur tol ob sh sel =
  SOk (sh, map (fun e => read_one selv dur tol ob e (nth e sel 0)) (seq 0 (nel sh))).
Proof.
  intros Hn. unfold param_at. replace (n =? 1)%nat with false by (symmetry; apply Nat.eqb_neq; exact Hn).
  rewrite Nat.eqb_refl. cbn [orb negb]. rewrite no_range_error. f_equal. f_equal.
  cbn [seq map]. rewrite flat_map_single. apply map_ext. intros e.
  replace (e * 1 + 0)%nat with e by lia. reflexivity.
Qed.

(* undelayed record (recordsz = 1, maximum delay 0): the present value, expanded along the trailing axis,
   with the overbound value wherever the selector is further than the tolerance from 0 *)
Definition read_now (v : R) (t : R) : R :=
  match ob with None => v | Some o => if leb RN (abs RN (sub RN t 0)) tol then v else o end.

Theorem param_at_undelayed_flat sel : n = 1%nat -> length sel = nel sh ->
  param_at RN n sh peekv selv dt dur tol ob sh sel =
  SOk (sh, match ob with
           | None => peekv
           | Some _ => map (fun e => read_now (nth e peekv 0) (nth e sel 0)) (seq 0 (nel sh))
           end).
Proof.
  intros Hn Hl. unfold param_at. rewrite Hn. cbn [Nat.eqb].
  replace (length sh =? S (length sh))%nat with false by (symmetry; apply Nat.eqb_neq; lia).
  destruct ob as [o|] eqn:Eo; [|reflexivity].
  rewrite where_bc_same. f_equal. f_equal. apply map_ext_in. intros e He. apply in_seq in He.
  unfold read_now. rewrite Eo.
  rewrite (nth_indep _ false ((fun t => leb RN (abs RN (sub RN t (zero RN))) tol) 0)) by (rewrite map_length; lia).
  rewrite (map_nth (fun t => leb RN (abs RN (sub RN t (zero RN))) tol)). reflexivity.
Qed.

Theorem param_at_undelayed_D d sel : n = 1%nat -> length sel = (nel sh * d)%nat ->
  param_at RN n sh peekv selv dt dur tol ob (sh ++ [d]) sel =
  SOk (sh ++ [d], map (fun i => read_now (nth (i / d) peekv 0) (nth i sel 0)) (seq 0 (nel sh * d))).
Proof.
  intros Hn Hl. unfold param_at. rewrite Hn. cbn [Nat.eqb].
  rewrite app_length. cbn [length]. replace (length sh + 1 =? S (length sh))%nat with true by (symmetry; apply Nat.eqb_eq; lia).
  rewrite expand_ok. unfold read_now. destruct ob as [o|] eqn:Eo; [|reflexivity].
  rewrite where_bc_same. rewrite nel_app. replace (nel [d]) with d by (unfold nel; cbn; lia).
  f_equal. f_equal. apply map_ext_in. intros i Hi. apply in_seq in Hi.
  rewrite (nth_indep _ false ((fun t => leb RN (abs RN (sub RN t (zero RN))) tol) 0)) by (rewrite map_length; lia).
  rewrite (map_nth (fun t => leb RN (abs RN (sub RN t (zero RN))) tol)).
  rewrite nth_map_seq0 by lia. reflexivity.
Qed.

End ParamAt.
