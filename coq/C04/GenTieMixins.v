(* C04 - tie of the model's _synparam_at (param_at / clamp_sel) to the definitions generated from
   inferno/neural/synapses/mixins.py (_synparam_at, CurrentMixin.current, SpikeMixin.spike). *)
From Coq Require Import List ZArith Bool Arith Lia.
From Inferno Require Import Base.Num Gen.Infra Gen.SynapseClasses C01.Ring C04.Synapse C04.HistProofs C04.GenTie.
Import ListNotations.

(* pin the generated parameter names *)
Arguments synparam_at_undelayed recordsz : assert.
Arguments synparam_at_bounded_undelayed N : assert.
Arguments synparam_at_bounded N selector duration : assert.
Arguments synparam_at_overbound N selector bounded_selector tolerance res overbound : assert.

Section Tie.
Variable NM : Num.

Theorem tie_synparam_at_undelayed : forall n : nat, synparam_at_undelayed (Z.of_nat n) = (n =? 1).
Proof.
  intros n. unfold synparam_at_undelayed. destruct (Nat.eqb_spec n 1) as [->|H]; [reflexivity|]. apply Z.eqb_neq. lia.
Qed.

Theorem tie_synparam_at_bounded : forall dur t, clamp_sel NM dur t = synparam_at_bounded NM t dur.
Proof. reflexivity. Qed.

(* the getters read the records the generated definitions name *)
Theorem tie_mixin_records : CurrentMixin_current_record = 1 /\ SpikeMixin_spike_record = 0.
Proof. split; reflexivity. Qed.

(* delayed branch: every entry is the generated overbound decision applied to the generated clamp *)
Theorem tie_param_at_delayed : forall n sh peekv selv dt dur tol ob d sel,
  (n =? 1) = false ->
  existsb (out_of_range NM n dt tol) (map (fun t => synparam_at_bounded NM t dur) sel) = false ->
  param_at NM n sh peekv selv dt dur tol ob (sh ++ [d]) sel =
  SOk (sh ++ [d],
       flat_map (fun e => map (fun j =>
                   let t := nth (e * d + j) sel (zero NM) in
                   let b := synparam_at_bounded NM t dur in
                   synparam_at_overbound NM t b tol (selv e b) ob) (seq 0 d)) (seq 0 (nel sh))).
Proof.
  intros n sh peekv selv dt dur tol ob d sel Hn Hr. unfold param_at. rewrite Hn.
  rewrite app_length. cbn [length].
  replace (length sh + 1 =? length sh) with false by (symmetry; apply Nat.eqb_neq; lia).
  replace (length sh + 1 =? S (length sh)) with true by (symmetry; apply Nat.eqb_eq; lia). cbn [orb negb].
  change (map (clamp_sel NM dur) sel) with (map (fun t => synparam_at_bounded NM t dur) sel). rewrite Hr.
  rewrite last_last. reflexivity.
Qed.

(* undelayed branch: the condition handed to torch.where is the generated overbound decision with the generated
   (constant) bounded selector *)
Theorem tie_param_at_undelayed : forall sh peekv selv dt dur tol ob ssh sel,
  param_at NM 1 sh peekv selv dt dur tol ob ssh sel =
  match (if length ssh =? S (length sh) then expand_to NM (sh ++ [1]) ssh peekv else SOk (sh, peekv)) with
  | SErr e => SErr e
  | SOk (rsh, rv) =>
      match ob with
      | None => SOk (rsh, rv)
      | Some o => where_bc NM ssh (map (fun t => leb NM (abs NM (sub NM t (synparam_at_bounded_undelayed NM))) tol) sel) rsh rv o
      end
  end.
Proof. reflexivity. Qed.
Theorem tie_undelayed_decision : forall t tol v o,
  (if leb NM (abs NM (sub NM t (synparam_at_bounded_undelayed NM))) tol then v else o) =
  synparam_at_overbound NM t (synparam_at_bounded_undelayed NM) tol v (Some o).
Proof. reflexivity. Qed.

End Tie.
