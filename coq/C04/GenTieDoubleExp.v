(* C04 - tie of the model to the definitions generated from class DoubleExponentialCurrent. *)
From Coq Require Import List ZArith Bool Arith Lia.
From Inferno Require Import Base.Num Gen.Infra Gen.SynapseClasses C01.Ring C04.Synapse C04.HistProofs C04.GenTie.
Import ListNotations.

Arguments DoubleExponentialCurrent_forward_spike N inputs_0 : assert.
Arguments DoubleExponentialCurrent_forward_pos_current N self_dt self_pos_current self_spike_charge self_tc_decay self_tc_rise inputs_0 : assert.
Arguments DoubleExponentialCurrent_forward_neg_current N self_dt self_neg_current self_spike_charge self_tc_decay self_tc_rise inputs_0 : assert.
Arguments DoubleExponentialCurrent_current N pos_current_peek neg_current_peek : assert.
Arguments DoubleExponentialCurrent_current_at_undelayed recordsz : assert.
Arguments DoubleExponentialCurrent_current_at_bounded_undelayed N : assert.
Arguments DoubleExponentialCurrent_current_at_bounded N selector duration : assert.
Arguments DoubleExponentialCurrent_current_at_overbound N selector bounded_selector tolerance res overbound : assert.
Arguments DoubleExponentialCurrent_current_at_now N pos_current_peek neg_current_peek : assert.
Arguments DoubleExponentialCurrent_current_at_selected N pos_selected neg_selected : assert.

Section Tie.
Variable NM : Num.

Theorem tie_DoubleExp_forward_spike : forall x, boolify NM x = b2t NM (DoubleExponentialCurrent_forward_spike NM x).
Proof. reflexivity. Qed.

Theorem tie_DoubleExp_forward_pos : forall c i x,
  sexp_step NM (cdt NM c) (ctau NM c) (dexp_k NM c) i x =
  DoubleExponentialCurrent_forward_pos_current NM (cdt NM c) i (cQ NM c) (ctau NM c) (ctr NM c) x.
Proof. reflexivity. Qed.
Theorem tie_DoubleExp_forward_neg : forall c i x,
  sexp_step NM (cdt NM c) (ctr NM c) (dexp_k NM c) i x =
  DoubleExponentialCurrent_forward_neg_current NM (cdt NM c) i (cQ NM c) (ctau NM c) (ctr NM c) x.
Proof. reflexivity. Qed.

Theorem tie_DoubleExp_current : forall c s, ckind NM c = KDoubleExp ->
  current_of NM c s = zipw (DoubleExponentialCurrent_current NM) (peek_row NM (cur NM s)) (peek_row NM (neg NM s)).
Proof. intros c s Ek. unfold current_of. rewrite Ek. reflexivity. Qed.

Theorem tie_DoubleExp_forward : forall c s xsh xs inj, ckind NM c = KDoubleExp ->
  forward NM c s xsh xs inj =
  match rpush NM c (spk NM s) xsh (map (fun x => b2t NM (DoubleExponentialCurrent_forward_spike NM x)) xs) with
  | SErr e => SErr e
  | SOk spk' =>
      match rpush NM c (cur NM s) xsh
              (zipw (fun i x => DoubleExponentialCurrent_forward_pos_current NM (cdt NM c) i (cQ NM c) (ctau NM c) (ctr NM c) x)
                    (peek_row NM (cur NM s)) xs) with
      | SErr e => SErr e
      | SOk cur' =>
          match rpush NM c (neg NM s) xsh
                  (zipw (fun i x => DoubleExponentialCurrent_forward_neg_current NM (cdt NM c) i (cQ NM c) (ctau NM c) (ctr NM c) x)
                        (peek_row NM (neg NM s)) xs) with
          | SErr e => SErr e
          | SOk neg' => SOk (mkSyn NM spk' cur' neg',
                             SOFloat NM (rshape_of NM cur')
                                     (zipw (DoubleExponentialCurrent_current NM) (peek_row NM cur') (peek_row NM neg')))
          end
      end
  end.
Proof. intros c s xsh xs inj Ek. unfold forward, current_of. rewrite Ek. reflexivity. Qed.

(* current_at: the class's own copy of the overbound logic is the mixin's, around the generated differences *)
Theorem tie_DoubleExp_current_at_pieces :
  (forall z, DoubleExponentialCurrent_current_at_undelayed z = synparam_at_undelayed z) /\
  DoubleExponentialCurrent_current_at_bounded_undelayed NM = synparam_at_bounded_undelayed NM /\
  (forall t d, DoubleExponentialCurrent_current_at_bounded NM t d = synparam_at_bounded NM t d) /\
  (forall t b tol r ob, DoubleExponentialCurrent_current_at_overbound NM t b tol r ob = synparam_at_overbound NM t b tol r ob).
Proof. repeat split; reflexivity. Qed.

Theorem tie_DoubleExp_current_at : forall c s ssh sel, ckind NM c = KDoubleExp ->
  current_at NM c s ssh sel =
  match st (cur NM s) with
  | SFull _ sh _ =>
      param_at NM (N (spk NM s)) sh
        (zipw (DoubleExponentialCurrent_current_at_now NM) (peek_row NM (cur NM s)) (peek_row NM (neg NM s)))
        (fun e b => DoubleExponentialCurrent_current_at_selected NM
                      (sel_elem NM (cur NM s) (cdt NM c) (ctol NM c) (interp_decay NM (ctau NM c)) e b)
                      (sel_elem NM (neg NM s) (cdt NM c) (ctol NM c) (interp_decay NM (ctr NM c)) e b))
        (cdt NM c) (cdelay NM c) (ctol NM c) (ccur_ob NM c) ssh sel
  | _ => SErr ERuntime
  end.
Proof. intros c s ssh sel Ek. unfold current_at. rewrite Ek. reflexivity. Qed.

Theorem tie_DoubleExp_records :
  kind_writes KDoubleExp = DoubleExponentialCurrent_forward_writes /\ kind_writes KDoubleExp = DoubleExponentialCurrent_clear_resets.
Proof. split; reflexivity. Qed.

(* the optional constructor arguments default to the values the harness assumes, for the constructor and for
   partialconstructor alike *)
Theorem tie_DoubleExp_defaults :
  mode_of_code DoubleExponentialCurrent_default_interp_mode = dflt_mode /\ DoubleExponentialCurrent_default_delay NM = dflt_delay NM /\
  DoubleExponentialCurrent_default_interp_tol NM = dflt_tol NM /\ DoubleExponentialCurrent_default_current_overbound NM = dflt_cur_ob NM /\
  DoubleExponentialCurrent_default_spike_overbound = dflt_spk_ob /\ DoubleExponentialCurrent_default_batch_size = dflt_batch /\ DoubleExponentialCurrent_default_inplace = dflt_inplace /\
  mode_of_code DoubleExponentialCurrent_partial_default_interp_mode = dflt_mode /\ DoubleExponentialCurrent_partial_default_interp_tol NM = dflt_tol NM /\
  DoubleExponentialCurrent_partial_default_current_overbound NM = dflt_cur_ob NM /\ DoubleExponentialCurrent_partial_default_spike_overbound = dflt_spk_ob /\
  DoubleExponentialCurrent_partial_default_inplace = dflt_inplace.
Proof. repeat split; reflexivity. Qed.

End Tie.
