(* C03 - specification vocabulary (definitions only): the independent three-case description of a thresholding
   step, runs of one cell under an arbitrary history, runs of a population, observation of one cell inside a
   population run, the refractory window max(1, ceil(refrac_t / dt)). *)
From Coq Require Import List ZArith Bool Reals.
From Flocq Require Import Core.Raux.
From Inferno Require Import Base.Num Base.NumR Gen.NeuronDynamics Gen.NeuronAdaptation C03.Neuron.
Import ListNotations.
Open Scope R_scope.

(* The specification: remaining refractory time r, step dt.  The neuron is OUT of its refractory period in
   this step iff r - dt <= 0.  [dyn] is the integration of an input current into the voltage of the
   previous step; [held] is the voltage kept during the refractory period (None: not kept - the voltage
   integrates a zero input instead); [reset_of] maps the integrated voltage to the reset voltage. *)
Definition thr_spec (reset_of : R -> R) (x r : R) (dyn : R -> R) (held : option R) (dt th Rt : R)
  : bool * R * R :=
  if Rle_dec (r - dt) 0 then
    if Rle_dec th (dyn x) then (true, reset_of (dyn x), Rt) else (false, dyn x, 0)
  else (false, match held with Some v => v | None => dyn 0 end, r - dt).

(* indicator of a spike *)
Definition ind (b : bool) : R := if b then 1 else 0.

(* the documented reset voltage of a class, as a function of the integrated voltage *)
Definition reset_of (c : cls) (p : params RN) : R -> R :=
  match c with
  | GLIF2 => fun v => rest_v RN p + reset_v_mul RN p * (v - rest_v RN p) - reset_v_add RN p
  | _ => fun _ => reset_v RN p
  end.

(* one event of a cell's history: (refrac_lock, threshold, input current) - all arbitrary *)
Definition cev := (bool * R * R)%type.
Definition ev_lock (e : cev) : bool := fst (fst e).

Fixpoint cell_run (c : cls) (p : params RN) (ce : cell RN) (evs : list cev) : list (cellout RN) :=
  match evs with
  | [] => []
  | (lock, th, x) :: tl =>
      let o := cls_cell RN c p lock th x ce in o :: cell_run c p (o_cell RN o) tl
  end.

(* first step at which a neuron that spiked at step t may spike again is t + window *)
Definition window (p : params RN) : nat :=
  Z.to_nat (Z.max 1 (Zceil (refrac_t RN p / step_time RN p))).

(* one forward call: (effective adapt flag, refrac_lock, inputs [neuron][batch]) *)
Definition pev := (bool * bool * list (list R))%type.
Definition pev_lock (e : pev) : bool := snd (fst e).
Definition pres := (list (list bool) * list (column RN))%type.

Fixpoint fwd_run (c : cls) (p : params RN) (cs : list (column RN)) (evs : list pev) : list pres :=
  match evs with
  | [] => []
  | (adapt, lock, xs) :: tl => let r := forward RN c p adapt lock cs xs in r :: fwd_run c p (snd r) tl
  end.

Definition at2 {A} (m : list (list A)) (i b : nat) : option A :=
  match nth_error m i with Some row => nth_error row b | None => None end.
Definition cell_at (cs : list (column RN)) (i b : nat) : option (cell RN) :=
  match nth_error cs i with Some col => nth_error (cells RN col) b | None => None end.
(* what forward returned for / left in cell (i, b): (spike, voltage, refrac) *)
Definition obs_at (r : pres) (i b : nat) : option (cellout RN) :=
  match at2 (fst r) i b, cell_at (snd r) i b with
  | Some s, Some ce => Some (s, fst ce, snd ce)
  | _, _ => None
  end.

(* the history seen by cell (i, b) inside a population run: its threshold and input current at every step are
   computed from the column's adaptation state at that step (so they depend on the whole batch) *)
Fixpoint cell_events (c : cls) (p : params RN) (cs : list (column RN)) (evs : list pev) (i b : nat) : list cev :=
  match evs with
  | [] => []
  | (adapt, lock, xs) :: tl =>
      match nth_error cs i, at2 xs i b with
      | Some col, Some x =>
          (lock, cls_thresh RN c p (ad RN col), cls_input RN c (ad RN col) x)
            :: cell_events c p (snd (forward RN c p adapt lock cs xs)) tl i b
      | _, _ => []
      end
  end.

(* the inputs of every call have an entry for cell (i, b) *)
Definition shaped (evs : list pev) (i b : nat) : Prop :=
  Forall (fun e : pev => at2 (snd e) i b <> None) evs.

(* every cell of the population satisfies P *)
Definition all_cells (P : cell RN -> Prop) (cs : list (column RN)) : Prop :=
  Forall (fun col => Forall P (cells RN col)) cs.

(* iterating the spike-driven threshold adaptation kernel (no refractory freezing) over a spike train, and its
   independent sum-over-events description *)
Fixpoint ats_run (a : R) (ss : list bool) (dt tc inc : R) : R :=
  match ss with
  | [] => a
  | s :: tl => ats_run (adaptive_thresholds_linear_spike RN a s dt tc inc None) tl dt tc inc
  end.
(* spikes in chronological order; a spike followed by k further steps has decayed k times... *)
Fixpoint event_sum (lam inc : R) (ss : list bool) : R :=
  match ss with
  | [] => 0
  | s :: tl => inc * ind s * lam ^ (length tl) + event_sum lam inc tl
  end.


(* every remaining refractory time of the population lies in [0, refrac_t] *)
Definition bounded (p : params RN) (cs : list (column RN)) : Prop := all_cells (fun ce => 0 <= snd ce <= refrac_t RN p) cs.
(* an operation that writes refractory times from outside (refrac setter, load_state_dict) writes values in [0, refrac_t] *)
Definition rows_bounded (p : params RN) (r : list (list R)) : Prop :=
  Forall (Forall (fun x => 0 <= x <= refrac_t RN p)) r.
Definition op_bounded (p : params RN) (o : op RN) : Prop :=
  match o with
  | OpSetRefrac r => rows_bounded p r
  | OpLoad _ r _ => rows_bounded p r
  | _ => True
  end.

(* the classes with the linear (leaky) integrator, and the analytic solution of the leaky integrator under a
   constant input x after k steps from v0 *)
Definition linear_cls (c : cls) : Prop := c = LIF \/ c = ALIF \/ c = GLIF1 \/ c = GLIF2.
Definition lin_u (p : params RN) (v0 x : R) (k : nat) : R :=
  (v0 - rest_v RN p - resistance RN p * x) * Rtrigo_def.exp (- (INR k * step_time RN p) / time_constant RN p)
  + rest_v RN p + resistance RN p * x.

