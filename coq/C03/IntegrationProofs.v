(* C03 - proofs about the GENERATED integration kernels: they equal the documented update equations; the linear
   one is exact in the step size (semigroup, closed form over n steps, contraction to the steady state, no
   threshold crossing from below when the steady state is sub-threshold); the other two are Euler steps (EulerProofs.v). *)
From Coq Require Import List ZArith Bool Reals Lra Lia.
From Flocq Require Import Core.Raux.
From Inferno Require Import Base.Num Base.NumR Gen.NeuronDynamics Gen.NeuronAdaptation C03.Neuron C03.NeuronSpec.
Import ListNotations.
Open Scope R_scope.
Local Notation exp := Rtrigo_def.exp.

(* ------------------------------------------------------------------ Part D: integration kernels *)
Local Notation vil := (voltage_integration_linear RN).

(* documented: V(t+dt) = [V(t) - V_rest - R I] exp(-dt/tau) + V_rest + R I *)
Theorem integration_linear_formula :
  forall I v dt tau rest Rm : R,
    vil I v dt tau rest Rm = (v - rest - Rm * I) * exp (- dt / tau) + rest + Rm * I.
Proof. intros. unfold voltage_integration_linear. rn_simpl. ring. Qed.

(* The linear kernel is EXACT in the step size: integrating s1 and then s2 under a constant input is
   integrating s1 + s2 (so the result does not depend on how the interval is cut into steps). *)
Theorem integration_linear_semigroup :
  forall I v s1 s2 tau rest Rm : R,
    vil I (vil I v s1 tau rest Rm) s2 tau rest Rm = vil I v (s1 + s2) tau rest Rm.
Proof.
  intros. rewrite !integration_linear_formula.
  replace (- (s1 + s2) / tau) with (- s1 / tau + - s2 / tau) by (unfold Rdiv; ring).
  rewrite exp_plus. rn_simpl. ring.
Qed.

Theorem integration_linear_zero_step :
  forall I v tau rest Rm : R, vil I v 0 tau rest Rm = v.
Proof.
  intros. rewrite integration_linear_formula. replace (- 0 / tau) with 0 by (unfold Rdiv; ring).
  rewrite exp_0. rn_simpl. ring.
Qed.

(* n steps under a constant input: closed form *)
Theorem integration_linear_iterated :
  forall (I dt tau rest Rm : R) (n : nat) (v : R),
    Nat.iter n (fun u => vil I u dt tau rest Rm) v
    = (v - rest - Rm * I) * exp (- (INR n * dt) / tau) + rest + Rm * I.
Proof.
  intros I dt tau rest Rm n. induction n as [|n IH]; intros v.
  - simpl. replace (- (0 * dt) / tau) with 0 by (unfold Rdiv; ring). rewrite exp_0. rn_simpl. ring.
  - change (Nat.iter (S n) (fun u => vil I u dt tau rest Rm) v) with (vil I (Nat.iter n (fun u => vil I u dt tau rest Rm) v) dt tau rest Rm). rewrite IH, integration_linear_formula, S_INR.
    replace (- ((INR n + 1) * dt) / tau) with (- (INR n * dt) / tau + - dt / tau) by (unfold Rdiv; ring).
    rewrite exp_plus. rn_simpl. ring.
Qed.

Lemma exp_neg_lt_1 x : x < 0 -> 0 < exp x < 1.
Proof. intros H. split; [apply exp_pos|]. rewrite <- exp_0. apply exp_increasing. exact H. Qed.

(* a leaky integrator whose steady state rest + R I stays below the threshold never reaches it from below *)
Theorem integration_linear_subthreshold :
  forall I v dt tau rest Rm th : R,
    0 < dt -> 0 < tau -> v < th -> rest + Rm * I < th -> vil I v dt tau rest Rm < th.
Proof.
  intros I v dt tau rest Rm th Hdt Htau Hv Hs. rewrite integration_linear_formula. rn_simpl.
  assert (Hx : - dt / tau < 0).
  { unfold Rdiv. assert (0 < / tau) by (apply Rinv_0_lt_compat; lra). nra. }
  destruct (exp_neg_lt_1 _ Hx) as [H0 H1]. set (l := exp (- dt / tau)) in *.
  replace ((v - rest - Rm * I) * l + rest + Rm * I) with (l * v + (1 - l) * (rest + Rm * I)) by ring.
  nra.
Qed.

(* the distance to the steady state contracts by exp(-dt/tau) in every step *)
Theorem integration_linear_contracts :
  forall I v dt tau rest Rm : R,
    vil I v dt tau rest Rm - (rest + Rm * I) = (v - (rest + Rm * I)) * exp (- dt / tau).
Proof. intros. rewrite integration_linear_formula. rn_simpl. ring. Qed.

