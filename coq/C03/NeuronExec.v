(* Executable (binary64) instance of the C03 neuron model + serialiser, for the correspondence check only. *)
From Coq Require Import List ZArith Bool PrimFloat.
From Inferno Require Import Base.Num Base.NumF C03.Neuron.
Import ListNotations.

Definition fparams := params FN.
Definition fstate := nstate FN.
Definition fop := op FN.

Definition cls_of_Z (z : Z) : cls :=
  match z with
  | 0 => LIF | 1 => ALIF | 2 => GLIF1 | 3 => GLIF2 | 4 => QIF | 5 => Izhikevich | 6 => EIF | _ => AdEx
  end%Z.

Definition ser_bools (l : list (list bool)) : tree := ser_list (ser_list ser_bool) l.
Definition ser_floats (l : list (list float)) : tree := ser_list (ser_list ser_float) l.

(* observables after one operation (all neuron-major: [neuron][batch] resp. [neuron][k]):
   [returned spikes (option); spike attribute; voltage; refrac; adaptation] *)
Definition ser_step (p : fparams) (r : option (list (list bool)) * fstate) : tree :=
  let s := snd r in
  Nd [ser_option ser_bools (fst r);
      ser_bools (spike_attr FN p (cols FN s));
      ser_floats (map (fun col => map fst (cells FN col)) (cols FN s));
      ser_floats (map (fun col => map snd (cells FN col)) (cols FN s));
      ser_floats (map (fun col => ad FN col) (cols FN s))].

(* optional initial voltages (neuron-major), assigned through the `voltage` setter before the first operation *)
Definition run_case (c : Z) (p : fparams) (n b : nat) (v0 : option (list (list float))) (ops : list fop) : tree :=
  if ctor_ok FN (cls_of_Z c) p then
    let s0 := init FN (cls_of_Z c) p n b in
    let s1 := match v0 with Some v => mkState (training FN s0) (set_voltage FN (cols FN s0) v) | None => s0 end in
    Nd [L 0; Nd (map (ser_step p) (run FN (cls_of_Z c) p s1 ops))]
  else Nd [L 1].   (* the constructor raises ValueError *)

(* monomorphic constructors for the harness (so that float literals type-check without unification hints) *)
Definition Fwd (adapt : option bool) (lock : bool) (xs : list (list float)) : fop := @OpForward FN adapt lock xs.
Definition Clr (keep : bool) : fop := @OpClear FN keep.
Definition Trn (mode : bool) : fop := @OpTrain FN mode.
Definition SetA (a : list (list float)) : fop := @OpSetAdapt FN a.
Definition AddA (d : list (list float)) : fop := @OpAddAdapt FN d.
Definition SetV (v : list (list float)) : fop := @OpSetVoltage FN v.
Definition SetR (r : list (list float)) : fop := @OpSetRefrac FN r.
Definition Load (v r a : list (list float)) : fop := @OpLoad FN v r a.
Definition mkP (step_time rest_v reset_v reset_v_add reset_v_mul thresh_v refrac_t time_constant resistance
                crit_v affinity rheobase_v sharpness : float) (tc_adaptation adapt_vc_coupling adapt_increment : list float)
  : fparams :=
  @mkParams FN step_time rest_v reset_v reset_v_add reset_v_mul thresh_v refrac_t time_constant resistance
            crit_v affinity rheobase_v sharpness tc_adaptation adapt_vc_coupling adapt_increment.
