(* C03 - tie of the model to the definitions generated from class AdEx (see GenTie.v). *)
From Coq Require Import List ZArith Bool.
From Inferno Require Import Base.Num Gen.NeuronDynamics Gen.NeuronAdaptation Gen.NeuronApply Gen.NeuronClasses C03.Neuron C03.GenTie.
Import ListNotations.

(* the generated definitions take the attributes they read as parameters named self_<attribute>: pin the names, so that
   reading a different attribute in the source (same number of reads) also breaks this file *)
Arguments AdEx_integrate_v N self_resistance self_rest_v self_rheobase_v self_sharpness self_step_time self_tc_membrane self_voltage masked_inputs : assert.
Arguments AdEx_forward_adapt N self_adapt_increment self_adapt_vc_coupling self_current_adaptation self_rest_v self_step_time self_tc_adaptation spikes voltages refracs refrac_lock : assert.
Arguments AdEx_forward_adapts adapt self_training : assert.
Arguments AdEx_clear_cell N self_rest_v : assert.
Arguments AdEx_clear_adapt N self_current_adaptation keep_adaptations : assert.
Arguments AdEx_spike N self_refrac self_refrac_t : assert.

(* _integrate_v *)
Theorem tie_AdEx_integrate_v : forall N (p : params N) v masked_inputs,
  cls_integ N AdEx p v masked_inputs = AdEx_integrate_v N (resistance N p) (rest_v N p) (rheobase_v N p) (sharpness N p) (step_time N p) (time_constant N p) v masked_inputs.
Proof. reflexivity. Qed.

(* forward: the thresholding step of one cell (the model's cell step with the class's threshold and input, as
   col_outs applies it, equals the generated one) *)
Theorem tie_AdEx_forward_cell : forall N (p : params N) (a : list (T N)) (lock : bool) (x v r : T N),
  cls_cell N AdEx p lock (cls_thresh N AdEx p a) (cls_input N AdEx a x) (v, r) = AdEx_forward_cell N a r (refrac_t N p) (reset_v N p) (resistance N p) (rest_v N p) (rheobase_v N p) (sharpness N p) (step_time N p) (time_constant N p) (thresh_v N p) v x lock.
Proof. intros. exact (eta3 _). Qed.

(* forward: the adaptation update of one column = for every adaptation index the batch mean of the generated
   per-sample value; and its guard *)
Theorem tie_AdEx_forward_adapt : forall N (p : params N) lock a outs,
  cls_adapt N AdEx p lock a outs =
  map4 (fun a_k tc_k vc_k inc_k => batch_mean N (map (fun o =>
          AdEx_forward_adapt N inc_k vc_k a_k (rest_v N p) (step_time N p) tc_k (o_spike N o) (o_v N o) (o_r N o) lock) outs))
       a (tc_adaptation N p) (adapt_vc_coupling N p) (adapt_increment N p).
Proof. reflexivity. Qed.
Theorem tie_AdEx_forward_adapts : forall adapt training, eff_adapt adapt training = AdEx_forward_adapts adapt training.
Proof. reflexivity. Qed.

(* the whole column step assembled from the generated pieces *)
Theorem tie_AdEx_col_forward : forall N (p : params N) (adapt : option bool) (training lock : bool) (col : column N) xs,
  col_forward N AdEx p (eff_adapt adapt training) lock col xs =
  let outs := map2 (fun x (ce : cell N) => AdEx_forward_cell N (ad N col) (snd ce) (refrac_t N p) (reset_v N p) (resistance N p) (rest_v N p) (rheobase_v N p) (sharpness N p) (step_time N p) (time_constant N p) (thresh_v N p) (fst ce) x lock) xs (cells N col) in
  (map (o_spike N) outs, mkCol (if AdEx_forward_adapts adapt training
          then map4 (fun a_k tc_k vc_k inc_k => batch_mean N (map (fun o =>
                 AdEx_forward_adapt N inc_k vc_k a_k (rest_v N p) (step_time N p) tc_k (o_spike N o) (o_v N o) (o_r N o) lock) outs))
                 (ad N col) (tc_adaptation N p) (adapt_vc_coupling N p) (adapt_increment N p)
          else ad N col) (map (o_cell N) outs)).
Proof.
  intros. unfold col_forward, col_outs. cbn zeta.
  rewrite (map2_ext _ (fun x (ce : cell N) => AdEx_forward_cell N (ad N col) (snd ce) (refrac_t N p) (reset_v N p) (resistance N p) (rest_v N p) (rheobase_v N p) (sharpness N p) (step_time N p) (time_constant N p) (thresh_v N p) (fst ce) x lock)).
  - destruct adapt as [[|]|]; [| |destruct training]; reflexivity.
  - intros x [v r]. apply tie_AdEx_forward_cell.
Qed.

(* clear *)
Theorem tie_AdEx_clear : forall N (p : params N) keep cs,
  clear N AdEx p keep cs =
  map (fun col => mkCol (map (fun a_k => AdEx_clear_adapt N a_k keep) (ad N col))
                        (map (fun _ => AdEx_clear_cell N (rest_v N p)) (cells N col))) cs.
Proof.
  intros. unfold clear. apply map_ext. intros col. f_equal. cbn [has_adaptation andb]. unfold AdEx_clear_adapt. destruct keep; cbn [negb]; [symmetry; apply map_id|reflexivity].
Qed.

(* spike *)
Theorem tie_AdEx_spike : forall N (p : params N) cs,
  spike_attr N p cs = map (fun col => map (fun ce : cell N => AdEx_spike N (snd ce) (refrac_t N p)) (cells N col)) cs.
Proof. reflexivity. Qed.
