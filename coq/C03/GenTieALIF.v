(* C03 - tie of the model to the definitions generated from class ALIF (see GenTie.v). *)
From Coq Require Import List ZArith Bool.
From Inferno Require Import Base.Num Gen.NeuronDynamics Gen.NeuronAdaptation Gen.NeuronApply Gen.NeuronClasses C03.Neuron C03.GenTie.
Import ListNotations.

(* the generated definitions take the attributes they read as parameters named self_<attribute>: pin the names, so that
   reading a different attribute in the source (same number of reads) also breaks this file *)
Arguments ALIF_integrate_v N self_resistance self_rest_v self_step_time self_tc_membrane self_voltage masked_inputs : assert.
Arguments ALIF_forward_adapt N self_adapt_increment self_step_time self_tc_adaptation self_threshold_adaptation spikes voltages refracs refrac_lock : assert.
Arguments ALIF_forward_adapts adapt self_training : assert.
Arguments ALIF_clear_cell N self_rest_v : assert.
Arguments ALIF_clear_adapt N self_threshold_adaptation keep_adaptations : assert.
Arguments ALIF_spike N self_refrac self_refrac_t : assert.

(* _integrate_v *)
Theorem tie_ALIF_integrate_v : forall N (p : params N) v masked_inputs,
  cls_integ N ALIF p v masked_inputs = ALIF_integrate_v N (resistance N p) (rest_v N p) (step_time N p) (time_constant N p) v masked_inputs.
Proof. reflexivity. Qed.

(* forward: the thresholding step of one cell (the model's cell step with the class's threshold and input, as
   col_outs applies it, equals the generated one) *)
Theorem tie_ALIF_forward_cell : forall N (p : params N) (a : list (T N)) (lock : bool) (x v r : T N),
  cls_cell N ALIF p lock (cls_thresh N ALIF p a) (cls_input N ALIF a x) (v, r) = ALIF_forward_cell N r (refrac_t N p) (reset_v N p) (resistance N p) (rest_v N p) (step_time N p) (time_constant N p) (thresh_v N p) a v x lock.
Proof. intros. exact (eta3 _). Qed.

(* forward: the adaptation update of one column = for every adaptation index the batch mean of the generated
   per-sample value; and its guard *)
Theorem tie_ALIF_forward_adapt : forall N (p : params N) lock a outs,
  cls_adapt N ALIF p lock a outs =
  map3 (fun a_k tc_k inc_k => batch_mean N (map (fun o =>
          ALIF_forward_adapt N inc_k (step_time N p) tc_k a_k (o_spike N o) (o_v N o) (o_r N o) lock) outs))
       a (tc_adaptation N p) (adapt_increment N p).
Proof. reflexivity. Qed.
Theorem tie_ALIF_forward_adapts : forall adapt training, eff_adapt adapt training = ALIF_forward_adapts adapt training.
Proof. reflexivity. Qed.

(* the whole column step assembled from the generated pieces *)
Theorem tie_ALIF_col_forward : forall N (p : params N) (adapt : option bool) (training lock : bool) (col : column N) xs,
  col_forward N ALIF p (eff_adapt adapt training) lock col xs =
  let outs := map2 (fun x (ce : cell N) => ALIF_forward_cell N (snd ce) (refrac_t N p) (reset_v N p) (resistance N p) (rest_v N p) (step_time N p) (time_constant N p) (thresh_v N p) (ad N col) (fst ce) x lock) xs (cells N col) in
  (map (o_spike N) outs, mkCol (if ALIF_forward_adapts adapt training
          then map3 (fun a_k tc_k inc_k => batch_mean N (map (fun o =>
                 ALIF_forward_adapt N inc_k (step_time N p) tc_k a_k (o_spike N o) (o_v N o) (o_r N o) lock) outs))
                 (ad N col) (tc_adaptation N p) (adapt_increment N p)
          else ad N col) (map (o_cell N) outs)).
Proof.
  intros. unfold col_forward, col_outs. cbn zeta.
  rewrite (map2_ext _ (fun x (ce : cell N) => ALIF_forward_cell N (snd ce) (refrac_t N p) (reset_v N p) (resistance N p) (rest_v N p) (step_time N p) (time_constant N p) (thresh_v N p) (ad N col) (fst ce) x lock)).
  - destruct adapt as [[|]|]; [| |destruct training]; reflexivity.
  - intros x [v r]. apply tie_ALIF_forward_cell.
Qed.

(* clear *)
Theorem tie_ALIF_clear : forall N (p : params N) keep cs,
  clear N ALIF p keep cs =
  map (fun col => mkCol (map (fun a_k => ALIF_clear_adapt N a_k keep) (ad N col))
                        (map (fun _ => ALIF_clear_cell N (rest_v N p)) (cells N col))) cs.
Proof.
  intros. unfold clear. apply map_ext. intros col. f_equal. cbn [has_adaptation andb]. unfold ALIF_clear_adapt. destruct keep; cbn [negb]; [symmetry; apply map_id|reflexivity].
Qed.

(* spike *)
Theorem tie_ALIF_spike : forall N (p : params N) cs,
  spike_attr N p cs = map (fun col => map (fun ce : cell N => ALIF_spike N (snd ce) (refrac_t N p)) (cells N col)) cs.
Proof. reflexivity. Qed.
