(* C03 - model of the eight neuron classes' forward / spike / clear (definitions only, no proofs).
   The element-wise kernels are the GENERATED ones (Gen/NeuronDynamics.v, Gen/NeuronAdaptation.v); this
   file only adds the wiring of inferno/neural/neurons/{linear,nonlinear,mixins}.py around them, class by class.

   Layout.  A population is a list of neuron COLUMNS (neuron-major): one column holds, for one neuron of
   the group, its adaptation vector (K values, shared over the batch: buffer shape  N0 x ... x K) and one
   (voltage, refrac) cell per batch sample (torch layout is batch-major B x N0 x ...; the harness transposes).
   Nothing in forward couples two different neurons; the only coupling is across the batch inside a column,
   through the batch reduction (torch.mean over dim 0) of the adaptation update. *)
From Coq Require Import List ZArith Bool.
From Inferno Require Import Base.Num Gen.NeuronDynamics Gen.NeuronAdaptation.
Import ListNotations.

Section Model.
Variable N : Num.
Notation T := (T N).

(* ---------- small list combinators ---------- *)
Fixpoint map2 {A B C} (f : A -> B -> C) (l : list A) (l' : list B) : list C :=
  match l, l' with
  | a :: t, b :: t' => f a b :: map2 f t t'
  | _, _ => []
  end.
Fixpoint map3 {A B C D} (f : A -> B -> C -> D) (l : list A) (l' : list B) (l'' : list C) : list D :=
  match l, l', l'' with
  | a :: t, b :: t', c :: t'' => f a b c :: map3 f t t' t''
  | _, _, _ => []
  end.
Fixpoint map4 {A B C D E} (f : A -> B -> C -> D -> E) (l : list A) (l' : list B) (l'' : list C) (l3 : list D) : list E :=
  match l, l', l'', l3 with
  | a :: t, b :: t', c :: t'', d :: t3 => f a b c d :: map4 f t t' t'' t3
  | _, _, _, _ => []
  end.

(* ---------- hyperparameters (the attributes the constructors store) ---------- *)
Record params := mkParams {
  step_time : T;
  rest_v : T;
  reset_v : T;            (* LIF ALIF GLIF1 QIF Izhikevich EIF AdEx *)
  reset_v_add : T;        (* GLIF2 (passed as v_intercept) *)
  reset_v_mul : T;        (* GLIF2 (passed as v_slope) *)
  thresh_v : T;           (* thresh_v, or thresh_eq_v for ALIF / GLIF2 *)
  refrac_t : T;
  time_constant : T;      (* time_constant, or tc_membrane *)
  resistance : T;
  crit_v : T; affinity : T;           (* QIF Izhikevich *)
  rheobase_v : T; sharpness : T;      (* EIF AdEx *)
  tc_adaptation : list T;             (* ALIF Izhikevich AdEx; GLIF2 stores rc_adaptation here *)
  adapt_vc_coupling : list T;         (* Izhikevich AdEx *)
  adapt_increment : list T            (* ALIF GLIF2 Izhikevich AdEx *)
}.

Inductive cls := LIF | ALIF | GLIF1 | GLIF2 | QIF | Izhikevich | EIF | AdEx.

(* hand-transcribed: the argtest checks of the eight constructors (linear.py:61-67, 232, 245-251, 532, 545-552;
   nonlinear.py:70-78, 259, 281-289, 463-473, 653, 675-685): the documented hyperparameter domains.
   A constructor raises ValueError iff this is false. *)
Definition all_pos (l : list T) : bool := forallb (fun x => gtb N x (zero N)) l.
Definition ctor_common (p : params) : bool :=
  gtb N (step_time p) (zero N) && geb N (refrac_t p) (zero N) && gtb N (time_constant p) (zero N)
  && neb N (resistance p) (zero N).
Definition ctor_ok (c : cls) (p : params) : bool :=
  ctor_common p &&
  match c with
  | LIF | GLIF1 => ltb N (rest_v p) (thresh_v p) && ltb N (reset_v p) (thresh_v p)
  | ALIF => ltb N (rest_v p) (thresh_v p) && ltb N (reset_v p) (thresh_v p) && all_pos (tc_adaptation p)
  | GLIF2 => ltb N (rest_v p) (thresh_v p) && all_pos (tc_adaptation p)
  | QIF => ltb N (rest_v p) (crit_v p) && leb N (crit_v p) (thresh_v p) && gtb N (affinity p) (zero N)
           && ltb N (reset_v p) (thresh_v p)
  | Izhikevich => ltb N (rest_v p) (crit_v p) && leb N (crit_v p) (thresh_v p) && gtb N (affinity p) (zero N)
           && ltb N (reset_v p) (thresh_v p) && all_pos (tc_adaptation p)
  | EIF => ltb N (rest_v p) (rheobase_v p) && leb N (rheobase_v p) (thresh_v p) && gtb N (sharpness p) (zero N)
           && ltb N (reset_v p) (thresh_v p)
  | AdEx => ltb N (rest_v p) (rheobase_v p) && leb N (rheobase_v p) (thresh_v p) && gtb N (sharpness p) (zero N)
           && ltb N (reset_v p) (thresh_v p) && all_pos (tc_adaptation p)
  end.

(* one cell = (voltage, refrac) of one neuron for one batch sample *)
Definition cell := (T * T)%type.
(* what the thresholding kernels return per element: (spikes, voltages, refracs) *)
Definition cellout := (bool * T * T)%type.
Definition o_spike (o : cellout) : bool := fst (fst o).
Definition o_v (o : cellout) : T := snd (fst o).
Definition o_r (o : cellout) : T := snd o.
Definition o_cell (o : cellout) : cell := (o_v o, o_r o).

(* voltages=(self.voltage if refrac_lock else None) *)
Definition lockv (refrac_lock : bool) (v : T) : option T := if refrac_lock then Some v else None.
(* refracs=(self.refrac if refrac_lock else None) *)
Definition lockr (refrac_lock : bool) (r : T) : option T := if refrac_lock then Some r else None.

(* hand-transcribed: inferno/neural/functional/neuron_adaptation.py:316-339 (apply_adaptive_currents),
   342-366 (apply_adaptive_thresholds): torch.sum(adaptations, dim=-1) is the sum over the K index *)
Definition apply_adaptive_currents (current : T) (adaptations : list T) : T :=
  sub N current (tsum N adaptations).
Definition apply_adaptive_thresholds (threshold : T) (adaptations : list T) : T :=
  add N threshold (tsum N adaptations).

(* hand-transcribed: inferno/neural/neurons/mixins.py:52-57 / 103-108 - the adaptation setter reduces the
   leading (batch) dimension with torch.mean(value, 0): sum over the batch divided by the batch size *)
Definition batch_mean (l : list T) : T := div N (tsum N l) (ofZ N (Z.of_nat (length l))).

(* ---------- _integrate_v of each class (self.voltage is the voltage BEFORE the step) ---------- *)
(* hand-transcribed wiring: linear.py:73-82 (LIF), 262-271 (ALIF), 399-401 (GLIF1 -> LIF), 563-572 (GLIF2) *)
Definition integrate_linear (p : params) (v : T) (masked_inputs : T) : T :=
  voltage_integration_linear N masked_inputs v (step_time p) (time_constant p) (rest_v p) (resistance p).
(* nonlinear.py:84-95 (QIF), 300-311 (Izhikevich) *)
Definition integrate_quadratic (p : params) (v : T) (masked_inputs : T) : T :=
  voltage_integration_quadratic N masked_inputs v (step_time p) (rest_v p) (crit_v p) (affinity p)
    (time_constant p) (resistance p).
(* nonlinear.py:479-490 (EIF), 696-707 (AdEx) *)
Definition integrate_exponential (p : params) (v : T) (masked_inputs : T) : T :=
  voltage_integration_exponential N masked_inputs v (step_time p) (rest_v p) (rheobase_v p) (sharpness p)
    (time_constant p) (resistance p).

(* ---------- the thresholding call of each forward, per element ----------
   th = the thresh_v argument, x = the inputs argument (after adaptation, where the class has one) *)
Definition cell_constant (p : params) (integ : params -> T -> T -> T) (lock : bool) (th x : T) (c : cell) : cellout :=
  voltage_thresholding_constant N x (snd c) (integ p (fst c)) (lockv lock (fst c))
    (step_time p) (reset_v p) th (refrac_t p).
Definition cell_linear (p : params) (integ : params -> T -> T -> T) (lock : bool) (th x : T) (c : cell) : cellout :=
  voltage_thresholding_linear N x (snd c) (integ p (fst c)) (lockv lock (fst c))
    (step_time p) (rest_v p) (reset_v_mul p) (reset_v_add p) th (refrac_t p).

(* which integrator / which thresholding / effective threshold and input of a class, given the column's
   adaptation vector *)
Definition cls_integ (c : cls) : params -> T -> T -> T :=
  match c with
  | LIF | ALIF | GLIF1 | GLIF2 => integrate_linear
  | QIF | Izhikevich => integrate_quadratic
  | EIF | AdEx => integrate_exponential
  end.
Definition cls_thresh (c : cls) (p : params) (ad : list T) : T :=
  match c with
  | ALIF | GLIF2 => apply_adaptive_thresholds (thresh_v p) ad
  | _ => thresh_v p
  end.
Definition cls_input (c : cls) (ad : list T) (x : T) : T :=
  match c with
  | Izhikevich | AdEx => apply_adaptive_currents x ad
  | _ => x
  end.
Definition cls_cell (c : cls) (p : params) (lock : bool) (th x : T) (ce : cell) : cellout :=
  match c with
  | GLIF2 => cell_linear p (cls_integ c) lock th x ce
  | _ => cell_constant p (cls_integ c) lock th x ce
  end.

(* ---------- adaptation update of one column (k-th adaptation, reduced over the batch) ---------- *)
(* linear.py:344-355 (ALIF) *)
Definition adapt_alif (p : params) (lock : bool) (ad : list T) (outs : list cellout) : list T :=
  map3 (fun a tc inc =>
          batch_mean (map (fun o => adaptive_thresholds_linear_spike N a (o_spike o) (step_time p) tc inc
                                      (lockr lock (o_r o))) outs))
       ad (tc_adaptation p) (adapt_increment p).
(* linear.py:647-658 (GLIF2): time_constant = 1 / self.rc_adaptation *)
Definition adapt_glif2 (p : params) (lock : bool) (ad : list T) (outs : list cellout) : list T :=
  map3 (fun a rc inc =>
          batch_mean (map (fun o => adaptive_thresholds_linear_spike N a (o_spike o) (step_time p)
                                      (div N (one N) rc) inc (lockr lock (o_r o))) outs))
       ad (tc_adaptation p) (adapt_increment p).
(* nonlinear.py:382-396 (Izhikevich), 778-792 (AdEx): voltages = the voltages AFTER thresholding/reset *)
Definition adapt_current (p : params) (lock : bool) (ad : list T) (outs : list cellout) : list T :=
  map4 (fun a tc vc inc =>
          batch_mean (map (fun o => adaptive_currents_linear N a (o_v o) (o_spike o) (step_time p) (rest_v p)
                                      tc vc inc (lockr lock (o_r o))) outs))
       ad (tc_adaptation p) (adapt_vc_coupling p) (adapt_increment p).
Definition cls_adapt (c : cls) (p : params) (lock : bool) (ad : list T) (outs : list cellout) : list T :=
  match c with
  | ALIF => adapt_alif p lock ad outs
  | GLIF2 => adapt_glif2 p lock ad outs
  | Izhikevich | AdEx => adapt_current p lock ad outs
  | LIF | GLIF1 | QIF | EIF => ad
  end.

(* ---------- forward ---------- *)
Record column := mkCol { ad : list T; cells : list cell }.

(* the thresholding call for every batch sample of one neuron *)
Definition col_outs (c : cls) (p : params) (lock : bool) (col : column) (xs : list T) : list cellout :=
  map2 (fun x ce => cls_cell c p lock (cls_thresh c p (ad col)) (cls_input c (ad col) x) ce) xs (cells col).

(* forward of one column: returned spikes and the new column.  adapt = the effective condition
   `adapt or (adapt is None and self.training)`; classes without adaptation ignore it. *)
Definition col_forward (c : cls) (p : params) (adapt lock : bool) (col : column) (xs : list T)
  : list bool * column :=
  let outs := col_outs c p lock col xs in
  (map o_spike outs,
   mkCol (if adapt then cls_adapt c p lock (ad col) outs else ad col) (map o_cell outs)).

Definition forward (c : cls) (p : params) (adapt lock : bool) (cols : list column) (xs : list (list T))
  : list (list bool) * list column :=
  let r := map2 (col_forward c p adapt lock) cols xs in (map fst r, map snd r).

(* mixins.py:235-255  spike = (refrac == refrac_t) *)
Definition spike_attr (p : params) (cols : list column) : list (list bool) :=
  map (fun col => map (fun ce : cell => eqb N (snd ce) (refrac_t p)) (cells col)) cols.

(* clear(): voltage <- rest_v, refrac <- 0, adaptations <- 0 unless kept (linear.py:100-103, 289-299, ...) *)
Definition has_adaptation (c : cls) : bool :=
  match c with ALIF | GLIF2 | Izhikevich | AdEx => true | _ => false end.
Definition clear (c : cls) (p : params) (keep_adaptations : bool) (cols : list column) : list column :=
  map (fun col => mkCol (if has_adaptation c && negb keep_adaptations then map (fun _ => zero N) (ad col) else ad col)
                        (map (fun _ => (rest_v p, zero N)) (cells col))) cols.

(* ---------- state written from outside (setters, in-place tensor edits, load_state_dict) ----------
   hand-transcribed: mixins.py:52-57 / 103-108 (adaptation setters: a value of the buffer's own shape is stored as
   is), 180-182 (voltage setter), 217-219 (refrac setter); torch.nn.Module.load_state_dict copies every persistent
   tensor ('_voltage__data', '_refrac__data', 'threshold_adaptation_' / 'current_adaptation_').  Forward reads the
   adaptation buffer afresh on every call, so all of these take effect on the next step. *)
Definition set_adapt (cols : list column) (a : list (list T)) : list column :=
  map2 (fun col arow => mkCol arow (cells col)) cols a.
Definition add_adapt (cols : list column) (d : list (list T)) : list column :=
  map2 (fun col drow => mkCol (map2 (add N) (ad col) drow) (cells col)) cols d.
Definition set_voltage (cols : list column) (v : list (list T)) : list column :=
  map2 (fun col vrow => mkCol (ad col) (map2 (fun (ce : cell) x => (x, snd ce)) (cells col) vrow)) cols v.
Definition set_refrac (cols : list column) (r : list (list T)) : list column :=
  map2 (fun col rrow => mkCol (ad col) (map2 (fun (ce : cell) x => (fst ce, x)) (cells col) rrow)) cols r.
Definition load_state (cols : list column) (v r a : list (list T)) : list column :=
  map4 (fun (_ : column) vrow rrow arow => mkCol arow (map2 (fun x y => (x, y)) vrow rrow)) cols v r a.

(* ---------- operation sequences ---------- *)
Record nstate := mkState { training : bool; cols : list column }.
Inductive op :=
| OpForward (adapt : option bool) (refrac_lock : bool) (inputs : list (list T))
| OpClear (keep_adaptations : bool)
| OpTrain (mode : bool)
(* state written from outside between steps (all matrices neuron-major) *)
| OpSetAdapt (a : list (list T))        (* neuron.threshold_adaptation = t  /  neuron.current_adaptation = t  (public setter) *)
| OpAddAdapt (d : list (list T))        (* neuron.threshold_adaptation.add_(t)  /  current_adaptation.add_(t)  (in place) *)
| OpSetVoltage (v : list (list T))      (* neuron.voltage = t *)
| OpSetRefrac (r : list (list T))       (* neuron.refrac = t *)
| OpLoad (v r a : list (list T)).       (* neuron.load_state_dict(twin.state_dict()): voltage, refrac and adaptations *)

Definition eff_adapt (adapt : option bool) (train : bool) : bool :=
  match adapt with Some b => b | None => train end.

Definition step (c : cls) (p : params) (s : nstate) (o : op) : option (list (list bool)) * nstate :=
  match o with
  | OpForward a lock xs =>
      let '(sp, cs) := forward c p (eff_adapt a (training s)) lock (cols s) xs in
      (Some sp, mkState (training s) cs)
  | OpClear keep => (None, mkState (training s) (clear c p keep (cols s)))
  | OpTrain m => (None, mkState m (cols s))
  | OpSetAdapt a => (None, mkState (training s) (set_adapt (cols s) a))
  | OpAddAdapt d => (None, mkState (training s) (add_adapt (cols s) d))
  | OpSetVoltage v => (None, mkState (training s) (set_voltage (cols s) v))
  | OpSetRefrac r => (None, mkState (training s) (set_refrac (cols s) r))
  | OpLoad v r a => (None, mkState (training s) (load_state (cols s) v r a))
  end.

Fixpoint run (c : cls) (p : params) (s : nstate) (ops : list op) : list (option (list (list bool)) * nstate) :=
  match ops with
  | [] => []
  | o :: tl => let r := step c p s o in r :: run c p (snd r) tl
  end.

(* constructor state: voltage = rest_v, refrac = 0, adaptations = 0 (K = number of adaptation parameters),
   training = True (nn.Module default) *)
Definition init (c : cls) (p : params) (n_neurons batch : nat) : nstate :=
  mkState true (repeat (mkCol (if has_adaptation c then map (fun _ => zero N) (adapt_increment p) else [])
                              (repeat (rest_v p, zero N) batch)) n_neurons).

End Model.

Arguments mkParams {N}.
Arguments mkCol {N}.
Arguments mkState {N}.
Arguments OpForward {N}.
Arguments OpClear {N}.
Arguments OpTrain {N}.
Arguments OpSetAdapt {N}.
Arguments OpAddAdapt {N}.
Arguments OpSetVoltage {N}.
Arguments OpSetRefrac {N}.
Arguments OpLoad {N}.
