(* C03 - proofs about the GENERATED thresholding kernels (real-number reading): case-complete characterisation of
   voltage_thresholding_constant / voltage_thresholding_linear against the independent three-case specification
   NeuronSpec.thr_spec (out of refractory & reaches threshold / out of refractory & below / refractory), and its
   one-step consequences. *)
From Coq Require Import List ZArith Bool Reals Lra Lia.
From Flocq Require Import Core.Raux.
From Inferno Require Import Base.Num Base.NumR Gen.NeuronDynamics Gen.NeuronAdaptation C03.Neuron C03.NeuronSpec C03.NumFacts.
Import ListNotations.
Open Scope R_scope.
Local Notation exp := Rtrigo_def.exp.

(* ------------------------------------------------------------------ Part A *)


Theorem thresholding_constant_spec :
  forall x r dyn held dt reset th Rt,
    voltage_thresholding_constant RN x r dyn held dt reset th Rt
    = thr_spec (fun _ => reset) x r dyn held dt th Rt.
Proof.
  intros. unfold voltage_thresholding_constant, thr_spec. rewrite tmax_RN.
  rn_unfold.
  destruct (Rle_dec (r - dt) 0) as [Hle|Hgt].
  - rewrite Rmax_right by lra.
    destruct (Reqb'_spec 0 0) as [_|E]; [|lra]. cbn [negb].
    rewrite Rmult_1_r.
    destruct held; destruct (Rleb'_spec th (dyn x)); destruct (Rle_dec th (dyn x)); try lra; reflexivity.
  - rewrite Rmax_left by lra.
    destruct (Reqb'_spec (r - dt) 0) as [E|_]; [lra|]. cbn [negb andb].
    rewrite Rmult_0_r. destruct held; reflexivity.
Qed.

Theorem thresholding_linear_spec :
  forall x r dyn held dt rest slope intercept th Rt,
    voltage_thresholding_linear RN x r dyn held dt rest slope intercept th Rt
    = thr_spec (fun v => rest + slope * (v - rest) - intercept) x r dyn held dt th Rt.
Proof.
  intros. unfold voltage_thresholding_linear, thr_spec. rewrite tmax_RN.
  rn_unfold.
  destruct (Rle_dec (r - dt) 0) as [Hle|Hgt].
  - rewrite Rmax_right by lra.
    destruct (Reqb'_spec 0 0) as [_|E]; [|lra]. cbn [negb].
    rewrite Rmult_1_r.
    destruct held; destruct (Rleb'_spec th (dyn x)); destruct (Rle_dec th (dyn x)); try lra; reflexivity.
  - rewrite Rmax_left by lra.
    destruct (Reqb'_spec (r - dt) 0) as [E|_]; [lra|]. cbn [negb andb].
    rewrite Rmult_0_r. destruct held; reflexivity.
Qed.

(* consequences of the specification, for an arbitrary reset map *)
Section SpecFacts.
Variables (reset_of : R -> R) (x r : R) (dyn : R -> R) (held : option R) (dt th Rt : R).
Let out := thr_spec reset_of x r dyn held dt th Rt.

Lemma spec_spike_iff : fst (fst out) = true <-> (Rmax (r - dt) 0 = 0 /\ th <= dyn x).
Proof.
  unfold out, thr_spec. destruct (Rle_dec (r - dt) 0) as [Hle|Hgt].
  - rewrite Rmax_right by lra. destruct (Rle_dec th (dyn x)); cbn; split; intros; try tauto; try discriminate;
      try (match goal with H : _ /\ _ |- _ => destruct H; lra end).
  - rewrite Rmax_left by lra. cbn. split; [discriminate|]. intros [E _]. lra.
Qed.

Lemma spec_spike_resets : fst (fst out) = true -> snd (fst out) = reset_of (dyn x) /\ snd out = Rt.
Proof.
  unfold out, thr_spec. destruct (Rle_dec (r - dt) 0); [destruct (Rle_dec th (dyn x))|]; cbn; intros; try discriminate; auto.
Qed.

Lemma spec_nospike : fst (fst out) = false ->
  snd out = Rmax (r - dt) 0 /\
  snd (fst out) = (if Rle_dec (r - dt) 0 then dyn x else match held with Some v => v | None => dyn 0 end).
Proof.
  unfold out, thr_spec. destruct (Rle_dec (r - dt) 0) as [Hle|Hgt]; [destruct (Rle_dec th (dyn x))|]; cbn; intros; try discriminate.
  - rewrite Rmax_right by lra. auto.
  - rewrite Rmax_left by lra. auto.
Qed.

Lemma spec_refractory_silent : dt < r ->
  out = (false, match held with Some v => v | None => dyn 0 end, r - dt).
Proof. intros. unfold out, thr_spec. destruct (Rle_dec (r - dt) 0); [lra|reflexivity]. Qed.

Lemma spec_refrac_nonneg : 0 <= Rt -> 0 <= snd out.
Proof.
  unfold out, thr_spec. destruct (Rle_dec (r - dt) 0); [destruct (Rle_dec th (dyn x))|]; cbn; lra.
Qed.

Lemma spec_refrac_le : 0 < dt -> 0 <= Rt -> r <= Rt -> snd out <= Rt.
Proof.
  unfold out, thr_spec. destruct (Rle_dec (r - dt) 0); [destruct (Rle_dec th (dyn x))|]; cbn; lra.
Qed.

(* refrac' = refrac_t exactly for the cells that spiked - provided the refractory period is positive *)
Lemma spec_spike_attr : 0 < dt -> 0 < Rt -> r <= Rt -> Reqb' (snd out) Rt = fst (fst out).
Proof.
  unfold out, thr_spec. destruct (Rle_dec (r - dt) 0); [destruct (Rle_dec th (dyn x))|]; cbn; intros;
    match goal with |- Reqb' ?a ?b = _ => destruct (Reqb'_spec a b) end; try reflexivity; lra.
Qed.
End SpecFacts.

(* ---- the same facts stated directly about the generated kernels ---- *)
Local Notation vtc := (voltage_thresholding_constant RN).
Local Notation vtl := (voltage_thresholding_linear RN).

(* spike  <=>  out of the refractory period (max(refrac - dt, 0) = 0)  and  integrated voltage >= threshold *)
Theorem spike_iff :
  forall x r dyn held dt th Rt,
    (forall reset, fst (fst (vtc x r dyn held dt reset th Rt)) = true <-> (Rmax (r - dt) 0 = 0 /\ th <= dyn x)) /\
    (forall rest slope icpt, fst (fst (vtl x r dyn held dt rest slope icpt th Rt)) = true <-> (Rmax (r - dt) 0 = 0 /\ th <= dyn x)).
Proof.
  intros; split; intros; 
    [rewrite thresholding_constant_spec | rewrite thresholding_linear_spec]; apply spec_spike_iff.
Qed.

(* a spiking cell is reset in the same step: documented reset voltage, refrac = refrac_t *)
Theorem spike_resets :
  forall x r dyn held dt th Rt,
    (forall reset, let o := vtc x r dyn held dt reset th Rt in
       fst (fst o) = true -> snd (fst o) = reset /\ snd o = Rt) /\
    (forall rest slope icpt, let o := vtl x r dyn held dt rest slope icpt th Rt in
       fst (fst o) = true -> snd (fst o) = rest + slope * (dyn x - rest) - icpt /\ snd o = Rt).
Proof.
  intros; split; intros until o; subst o; 
    [rewrite thresholding_constant_spec | rewrite thresholding_linear_spec]; intros H;
    apply spec_spike_resets in H; exact H.
Qed.

(* a cell that does not spike: refrac decremented and clamped at 0; voltage integrated when out of the
   refractory period, otherwise held (refrac_lock) or integrated with zero input *)
Theorem nospike_update :
  forall x r dyn held dt th Rt,
    let upd := if Rle_dec (r - dt) 0 then dyn x else match held with Some v => v | None => dyn 0 end in
    (forall reset, let o := vtc x r dyn held dt reset th Rt in
       fst (fst o) = false -> snd o = Rmax (r - dt) 0 /\ snd (fst o) = upd) /\
    (forall rest slope icpt, let o := vtl x r dyn held dt rest slope icpt th Rt in
       fst (fst o) = false -> snd o = Rmax (r - dt) 0 /\ snd (fst o) = upd).
Proof.
  intros; split; intros until o; subst o upd; 
    [rewrite thresholding_constant_spec | rewrite thresholding_linear_spec]; intros H;
    apply spec_nospike in H; exact H.
Qed.

(* the remaining refractory time is never negative after a step, whatever it was before *)
Theorem refrac_nonneg :
  forall x r dyn held dt th Rt, 0 <= Rt ->
    (forall reset, 0 <= snd (vtc x r dyn held dt reset th Rt)) /\
    (forall rest slope icpt, 0 <= snd (vtl x r dyn held dt rest slope icpt th Rt)).
Proof.
  intros; split; intros; 
    [rewrite thresholding_constant_spec | rewrite thresholding_linear_spec]; apply spec_refrac_nonneg; assumption.
Qed.

(* ... and never exceeds the refractory period *)
Theorem refrac_le_refrac_t :
  forall x r dyn held dt th Rt, 0 < dt -> 0 <= Rt -> r <= Rt ->
    (forall reset, snd (vtc x r dyn held dt reset th Rt) <= Rt) /\
    (forall rest slope icpt, snd (vtl x r dyn held dt rest slope icpt th Rt) <= Rt).
Proof.
  intros; split; intros; 
    [rewrite thresholding_constant_spec | rewrite thresholding_linear_spec]; apply spec_refrac_le; assumption.
Qed.

(* spike attribute (refrac == refrac_t, mixins.py) equals the returned spikes when refrac_t > 0 *)
Theorem spike_attr_eq_output_step :
  forall x r dyn held dt th Rt, 0 < dt -> 0 < Rt -> r <= Rt ->
    (forall reset, let o := vtc x r dyn held dt reset th Rt in eqb RN (snd o) Rt = fst (fst o)) /\
    (forall rest slope icpt, let o := vtl x r dyn held dt rest slope icpt th Rt in eqb RN (snd o) Rt = fst (fst o)).
Proof.
  intros; split; intros; subst o;  rn_simpl;
    [rewrite thresholding_constant_spec | rewrite thresholding_linear_spec]; apply spec_spike_attr; assumption.
Qed.

(* ... and is wrong for refrac_t = 0: every cell that is out of its refractory period reads as "spiked" *)
Theorem spike_attr_refrac0_always_true :
  forall x r dyn held dt th, 0 < dt -> r <= 0 ->
    (forall reset, eqb RN (snd (vtc x r dyn held dt reset th 0)) 0 = true) /\
    (forall rest slope icpt, eqb RN (snd (vtl x r dyn held dt rest slope icpt th 0)) 0 = true).
Proof.
  intros; split; intros;  rn_simpl;
    [rewrite thresholding_constant_spec | rewrite thresholding_linear_spec]; unfold thr_spec;
    (destruct (Rle_dec (r - dt) 0); [|lra]); destruct (Rle_dec th (dyn x)); cbn;
    destruct (Reqb'_spec 0 0); try reflexivity; lra.
Qed.

